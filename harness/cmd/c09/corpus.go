package main

import (
	"fmt"

	"verif/harness/schemaevo"
	"verif/harness/schemagen"
	"verif/harness/valgen"
)

// The corpus pair: a hand-written old / new program that contains every edit kind at several
// nesting depths, a recursive struct (for the nesting limit of the unknown-field re-encoder) and a
// union that gains members (trigger of the known finding: a union whose only set member is unknown
// to the old code is read but cannot be re-written).

func ty(kind string) *schemagen.Type           { return &schemagen.Type{Kind: kind} }
func ref(name string) *schemagen.Type          { return &schemagen.Type{Kind: "struct", Name: name} }
func enumT(name string) *schemagen.Type        { return &schemagen.Type{Kind: "enum", Name: name} }
func listT(e *schemagen.Type) *schemagen.Type  { return &schemagen.Type{Kind: "list", Elem: e} }
func setT(e *schemagen.Type) *schemagen.Type   { return &schemagen.Type{Kind: "set", Elem: e} }
func mapT(k, v *schemagen.Type) *schemagen.Type { return &schemagen.Type{Kind: "map", Key: k, Elem: v} }

func fld(id int, req, name string, t *schemagen.Type, def *schemagen.Lit) *schemagen.Field {
	f := &schemagen.Field{ID: id, Name: name, Req: req, Type: t, Default: def}
	if req != "default" {
		f.ReqText = req
	}
	return f
}

func corpusOld() *schemagen.Program {
	color := &schemagen.Enum{File: "a", Name: "Color", Values: []schemagen.EnumValue{{Name: "RED", Value: 1}, {Name: "GREEN", Value: 2}}}
	choice := &schemagen.Struct{File: "a", Name: "Choice", Kind: "union", Fields: []*schemagen.Field{
		{ID: 1, Name: "num", Req: "optional", Type: ty("i32")},
		{ID: 2, Name: "text", Req: "optional", Type: ty("string")},
	}}
	leaf := &schemagen.Struct{File: "a", Name: "Leaf", Kind: "struct", Fields: []*schemagen.Field{
		fld(1, "default", "x", ty("i32"), nil),
		fld(2, "optional", "note", ty("string"), nil),
	}}
	node := &schemagen.Struct{File: "a", Name: "Node", Kind: "struct", Fields: []*schemagen.Field{
		fld(1, "optional", "next", ref("a.Node"), nil),
		fld(2, "default", "tag", ty("i32"), nil),
	}}
	holder := &schemagen.Struct{File: "a", Name: "Holder", Kind: "struct", Fields: []*schemagen.Field{
		fld(1, "required", "id", ty("i64"), nil),
		fld(2, "default", "leaf", ref("a.Leaf"), nil),
		fld(3, "optional", "pick", ref("a.Choice"), nil),
		fld(4, "default", "leaves", listT(ref("a.Leaf")), nil),
		fld(5, "default", "by_name", mapT(ty("string"), ref("a.Leaf")), nil),
		fld(6, "default", "uniq", setT(ref("a.Leaf")), nil),
		fld(7, "default", "color", enumT("a.Color"), &schemagen.Lit{Kind: "int", Int: 1, Enum: "a.Color.RED"}),
		fld(8, "optional", "chain", ref("a.Node"), nil),
		fld(9, "default", "keyed", mapT(ref("a.Leaf"), ty("i32")), nil),
	}}
	return &schemagen.Program{Key: "cp", Files: []*schemagen.File{{Name: "a", Namespace: "cp.apkg", Defs: []*schemagen.Def{
		{Enum: color}, {Struct: choice}, {Struct: leaf}, {Struct: node}, {Struct: holder}}}}}
}

func corpusNew() *schemagen.Program {
	p := schemaevo.Clone(corpusOld())
	f := p.Files[0]
	en := p.Enum("a.Color")
	en.Values = append(en.Values, schemagen.EnumValue{Name: "BLUE", Value: 7})
	ch := p.Struct("a.Choice")
	ch.Fields = append(ch.Fields,
		&schemagen.Field{ID: 3, Name: "ratio", Req: "optional", Type: ty("double")},
		&schemagen.Field{ID: 4, Name: "many", Req: "optional", Type: listT(ty("i32"))})
	extra := &schemagen.Struct{File: "a", Name: "Extra", Kind: "struct", Fields: []*schemagen.Field{
		fld(1, "default", "e", ty("i32"), nil),
		fld(2, "optional", "tags", listT(ty("string")), nil),
	}}
	leaf := p.Struct("a.Leaf")
	leaf.Fields = []*schemagen.Field{
		leaf.Fields[0],
		fld(3, "optional", "weight", ty("double"), nil),
		leaf.Fields[1],
		fld(4, "default", "extras", listT(ref("a.Extra")), nil),
		fld(5, "optional", "twin", ref("a.Leaf"), nil),
	}
	// added fields WITH A DECLARED DEFAULT, every base type and an enum, default and optional
	// requiredness: Leaf occurs as direct field, list element, map value, set element, map key and
	// nested (twin), so new code reading OLD data must produce these defaults at every such position
	leaf.Fields = append(leaf.Fields, leafDefaultFields()...)
	node := p.Struct("a.Node")
	node.Fields = append(node.Fields,
		fld(3, "optional", "side", ref("a.Node"), nil),
		fld(4, "optional", "kids", mapT(ty("i32"), ref("a.Node")), nil))
	h := p.Struct("a.Holder")
	h.Fields = append(h.Fields,
		fld(10, "optional", "extra", ref("a.Extra"), nil),
		fld(11, "default", "label", ty("string"), &schemagen.Lit{Kind: "string", Str: "new"}),
		fld(12, "optional", "colors", setT(enumT("a.Color")), nil),
		fld(-5, "optional", "blob", ty("binary"), nil))
	// Extra is defined in front of the first struct-like
	defs := []*schemagen.Def{f.Defs[0], {Struct: extra}}
	defs = append(defs, f.Defs[1:]...)
	f.Defs = defs
	return p
}

func leafDefaultFields() []*schemagen.Field {
	i := func(v int64) *schemagen.Lit { return &schemagen.Lit{Kind: "int", Int: v} }
	return []*schemagen.Field{
		fld(6, "default", "qty", ty("i32"), i(1)),
		fld(7, "optional", "unit", ty("string"), &schemagen.Lit{Kind: "string", Str: "pc"}),
		fld(8, "default", "on", ty("bool"), &schemagen.Lit{Kind: "bool", Bool: true}),
		fld(9, "optional", "oon", ty("bool"), &schemagen.Lit{Kind: "bool", Bool: true}),
		fld(10, "default", "b", ty("byte"), i(7)),
		fld(11, "optional", "ob", ty("byte"), i(-3)),
		fld(12, "default", "sh", ty("i16"), i(300)),
		fld(13, "optional", "osh", ty("i16"), i(-300)),
		fld(14, "optional", "oqty", ty("i32"), i(70000)),
		fld(15, "default", "big", ty("i64"), i(1<<40)),
		fld(16, "optional", "obig", ty("i64"), i(-5)),
		fld(17, "default", "ratio", ty("double"), &schemagen.Lit{Kind: "double", Bits: 0x3ff8000000000000}),
		fld(18, "optional", "oratio", ty("double"), &schemagen.Lit{Kind: "double", Bits: 0xc002000000000000}),
		fld(19, "default", "label", ty("string"), &schemagen.Lit{Kind: "string", Str: "each"}),
		fld(20, "default", "raw", ty("binary"), &schemagen.Lit{Kind: "binary", Str: "rb"}),
		fld(21, "optional", "oraw", ty("binary"), &schemagen.Lit{Kind: "binary", Str: "orb"}),
		fld(22, "default", "col", enumT("a.Color"), &schemagen.Lit{Kind: "int", Int: 2, Enum: "a.Color.GREEN"}),
		fld(23, "optional", "ocol", enumT("a.Color"), &schemagen.Lit{Kind: "int", Int: 7, Enum: "a.Color.BLUE"}),
	}
}

// leafDefaultSlots: slots for the fields above; alt = values other than the defaults.
func leafDefaultSlots(alt bool) []valgen.FieldVal {
	var out []valgen.FieldVal
	for k, f := range leafDefaultFields() {
		v := valgen.ValueOfLit(f.Default)
		if alt {
			switch f.Type.Kind {
			case "bool":
				v = valgen.Bool(false)
			case "byte", "i16", "i32", "i64", "enum":
				v = valgen.Int(int64(k) - 2)
			case "double":
				v = valgen.Dbl(0x4059000000000000 + uint64(k))
			case "string":
				v = valgen.Str([]byte{byte('a' + k)})
			case "binary":
				v = valgen.Bin([]byte{byte(k), 0xfe})
			}
		}
		out = append(out, valgen.FieldVal{ID: f.ID, V: v})
	}
	return out
}

// corpusOldValues: explicit values of the OLD corpus program: Leaf at every position (field, list
// element, map value, set element, map key, nested through Node/Holder).
func corpusOldValues() map[string][]*valgen.Value {
	I := valgen.Int
	S := func(s string) *valgen.Value { return valgen.Str([]byte(s)) }
	fv := func(id int, v *valgen.Value) valgen.FieldVal { return valgen.FieldVal{ID: id, V: v} }
	nilV := valgen.Nil()
	leaf := func(x int64, note *valgen.Value) *valgen.Value {
		return valgen.Struct([]valgen.FieldVal{fv(1, I(x)), fv(2, note)})
	}
	node := func(tag int64, next *valgen.Value) *valgen.Value {
		return valgen.Struct([]valgen.FieldVal{fv(1, next), fv(2, I(tag))})
	}
	choice := valgen.Struct([]valgen.FieldVal{fv(1, nilV), fv(2, valgen.Some(S("t")))})
	holder := func(n int) *valgen.Value {
		var leaves, uniq []*valgen.Value
		var byName, keyed [][2]*valgen.Value
		for i := 0; i < n; i++ {
			note := nilV
			if i%2 == 0 {
				note = valgen.Some(S(fmt.Sprintf("n%d", i)))
			}
			leaves = append(leaves, leaf(int64(10+i), note))
			uniq = append(uniq, leaf(int64(20+i), note))
			byName = append(byName, [2]*valgen.Value{S(fmt.Sprintf("k%d", i)), leaf(int64(30+i), note)})
			keyed = append(keyed, [2]*valgen.Value{leaf(int64(40+i), note), I(int64(i))})
		}
		return valgen.Struct([]valgen.FieldVal{
			fv(1, I(5)), fv(2, leaf(1, valgen.Some(S("direct")))), fv(3, choice), fv(4, valgen.List(leaves)),
			fv(5, valgen.Map(byName)), fv(6, valgen.List(uniq)), fv(7, I(2)),
			fv(8, node(1, node(2, nilV))), fv(9, valgen.Map(keyed)),
		})
	}
	return map[string][]*valgen.Value{
		"a.Holder": {holder(1), holder(3)},
		"a.Leaf":   {leaf(9, nilV), leaf(-1, valgen.Some(S("x")))},
	}
}

// corpusValues: explicit values of the new corpus program (struct name -> values), run first.
func corpusValues() map[string][]*valgen.Value {
	I := valgen.Int
	S := func(s string) *valgen.Value { return valgen.Str([]byte(s)) }
	fv := func(id int, v *valgen.Value) valgen.FieldVal { return valgen.FieldVal{ID: id, V: v} }
	extra := func(e int64, tags ...string) *valgen.Value {
		t := valgen.Nil()
		if tags != nil {
			var l []*valgen.Value
			for _, x := range tags {
				l = append(l, S(x))
			}
			t = valgen.List(l)
		}
		return valgen.Struct([]valgen.FieldVal{fv(1, I(e)), fv(2, t)})
	}
	leaf := func(x int64, w *valgen.Value, note *valgen.Value, extras []*valgen.Value, twin *valgen.Value) *valgen.Value {
		ex := valgen.Nil()
		if extras != nil {
			ex = valgen.List(extras)
		}
		fs := []valgen.FieldVal{fv(1, I(x)), fv(3, w), fv(2, note), fv(4, ex), fv(5, twin)}
		return valgen.Struct(append(fs, leafDefaultSlots(x%2 == 1)...))
	}
	nilV := valgen.Nil()
	dbl := func(bits uint64) *valgen.Value { return valgen.Some(valgen.Dbl(bits)) }
	choice := func(id int, v *valgen.Value) *valgen.Value {
		fs := []valgen.FieldVal{fv(1, nilV), fv(2, nilV), fv(3, nilV), fv(4, nilV)}
		for i := range fs {
			if fs[i].ID == id {
				fs[i].V = v
			}
		}
		return valgen.Struct(fs)
	}
	var node func(d int, tag int64, side bool) *valgen.Value
	node = func(d int, tag int64, side bool) *valgen.Value {
		next, sd, kids := nilV, nilV, nilV
		if d > 0 {
			next = node(d-1, tag+1, side)
			if side {
				sd = node(d-1, tag+100, false)
				kids = valgen.Map([][2]*valgen.Value{{I(int64(d)), node(0, 7, false)}})
			}
		}
		return valgen.Struct([]valgen.FieldVal{fv(1, next), fv(2, I(tag)), fv(3, sd), fv(4, kids)})
	}
	holder := func(pick *valgen.Value, chain *valgen.Value, colors *valgen.Value) *valgen.Value {
		l1 := leaf(1, dbl(0x3ff8000000000000), valgen.Some(S("n1")), []*valgen.Value{extra(5, "a", "b"), extra(6)}, leaf(2, nilV, nilV, nil, nilV))
		l2 := leaf(1, dbl(0x4000000000000000), valgen.Some(S("n1")), []*valgen.Value{}, nilV)
		return valgen.Struct([]valgen.FieldVal{
			fv(1, I(1<<40)), fv(2, l1), fv(3, pick), fv(4, valgen.List([]*valgen.Value{l1, l2})),
			fv(5, valgen.Map([][2]*valgen.Value{{S("k1"), l2}, {S("k2"), l1}})),
			fv(6, valgen.List([]*valgen.Value{l1, l2})), // equal on the old fields, different on the new ones
			fv(7, I(7)),                                 // the enum member old does not have
			fv(8, chain),
			fv(9, valgen.Map([][2]*valgen.Value{{l2, I(9)}})),
			fv(10, extra(77, "x")), fv(11, S("label")), fv(12, colors), fv(-5, valgen.Bin([]byte{0, 255, 1})),
		})
	}
	return map[string][]*valgen.Value{
		"a.Holder": {
			holder(choice(3, dbl(0x3fe0000000000000)), node(3, 1, true), valgen.List([]*valgen.Value{I(1), I(7)})), // union member unknown to old
			holder(choice(4, valgen.List([]*valgen.Value{I(1), I(2)})), nilV, nilV),                                // union member unknown to old (container)
			holder(choice(2, valgen.Some(S("known"))), node(2, 5, false), valgen.List([]*valgen.Value{})),
			holder(nilV, node(6, 0, true), nilV),
		},
		"a.Choice": {choice(3, dbl(0x7ff8000000000001)), choice(1, valgen.Some(I(5)))},
		"a.Leaf":   {leaf(9, dbl(0), nilV, []*valgen.Value{extra(1, "t")}, leaf(8, dbl(0x8000000000000000), valgen.Some(S("")), nil, nilV))},
		"a.Node":   {node(5, 0, true)},
	}
}
