(* Idl/ResolveFuel.v — the concrete fuels of the model suffice: [deref_fuel] for Deref
   (this file), [enum_fuel] for getEnum (Idl/ResolveFuelEnum.v).  The typedef fixpoint
   fuel is [te_fix_complete] of Idl/ResolveTd.v. *)
From Coq Require Import List Bool Arith Lia NArith ZArith Permutation.
From Coq.Strings Require Import Byte.
From Verif Require Import Base.Bytes Idl.Ast Idl.AstUtil Idl.AstFacts Idl.Resolve Idl.ResolveSpec Idl.ResolveTd
     Idl.ResolveLemmas Idl.ResolveInv Idl.ResolveProg Idl.ResolveDeref Idl.ResolveFacts Idl.ResolvableSpec Idl.ResolvePath.
Import ListNotations.
Local Open Scope resolve_scope.

(* [deref] with any fuel >= k arrives at [d] *)
Definition deref_within (r : program) (g' : file) (t : ty) (d : tdef) (k : nat) : Prop :=
  exists h' t',
    (forall fuel, k <= fuel -> deref fuel r g' t = Ok (h', t')) /\
    ty_category t' = kind d /\ ty_ref t' = None /\ ty_is_typedef t' <> Some true /\
    match d with
    | TBuiltin c => builtin_category (ty_name t') = Some c
    | TEnum gn m | TStruct gn m _ => prog_file r gn = Some h' /\ ty_name t' = m
    end.

Lemma deref_within_to r g' t d k : deref_within r g' t d k -> deref_to r g' t d.
Proof. intros (h' & t' & H). exists k, h', t'. exact H. Qed.

Section DerefFuel.
  Variables (p done r : program).
  Hypothesis Hinv : inv p done.
  Hypothesis Hr : forall gn g', lookup gn done = Some g' -> prog_file r gn = Some g'.

  Definition def_yields_n (gn : bytes) (g g' : file) (m : bytes) (d : tdef) (l : list (bytes * bytes)) : Prop :=
    (exists vs, lookup m (file_defs g) = Some (DkEnum vs) /\ d = TEnum gn m) \/
    (exists k, lookup m (file_defs g) = Some (DkStruct k) /\ d = TStruct gn m k) \/
    (exists tgt td', lookup m (file_defs g) = Some (DkTypedef tgt) /\ find_typedef g' m = Some td' /\
                     deref_within r g' (td_type td') d (length l)).

  Lemma in_all_typedefs gn g' m td' : prog_file r gn = Some g' -> find_typedef g' m = Some td' -> In (gn, m) (all_typedefs r).
  Proof.
    intros Hg Ft. unfold prog_file in Hg. apply lookup_In in Hg. unfold find_typedef in Ft.
    destruct (find_by_In _ _ _ _ Ft) as (Hin & Ha). unfold all_typedefs. apply in_flat_map'. exists (gn, g'). split; [exact Hg|].
    cbn [fst snd]. apply in_map_iff. exists td'. rewrite Ha. auto.
  Qed.

  Lemma deref_path :
    (forall gn m d l, def_path p gn m d l ->
       forall g g', prog_file p gn = Some g -> lookup gn done = Some g' -> good p done gn g g' ->
       def_yields_n gn g g' m d l /\ incl l (all_typedefs r)) /\
    (forall fn n d l, name_path p fn n d l ->
       forall g g' t, prog_file p fn = Some g -> lookup fn done = Some g' -> good p done fn g g' ->
       occ_good p fn g t -> ty_name t = n -> deref_within r g' t d (S (length l)) /\ incl l (all_typedefs r)).
  Proof.
    apply path_mutind.
    - intros gn m vs H g g' Hg Hl Gd. split; [|intros x []]. left. exists vs. rewrite <- (def_of_file p gn g m Hg). auto.
    - intros gn m k H g g' Hg Hl Gd. split; [|intros x []]. right. left. exists k. rewrite <- (def_of_file p gn g m Hg). auto.
    - intros gn m tgt d l H _ IH g g' Hg Hl Gd. rewrite (def_of_file p gn g m Hg) in H.
      destruct (good_find_typedef p done gn g g' m tgt Gd H) as (td' & Ft & Hn & Ho).
      destruct (IH g g' _ Hg Hl Gd Ho Hn) as (Hw & Hi). split.
      + right. right. exists tgt, td'. split; [exact H|]. split; [exact Ft|]. exact Hw.
      + intros x [<-|Hx]; [eapply in_all_typedefs; eauto | auto].
    - (* builtin *)
      intros fn n c Hb g g' t Hg Hl Gd Ho Hn. split; [|intros x []]. unfold occ_good in Ho. rewrite Hn, Hb in Ho.
      destruct Ho as (Hc & Hr0 & Ht). exists g', t. split.
      + intros [|k] Hle; [cbn in Hle; lia|]. cbn [deref]. rewrite Hr0, Ht. reflexivity.
      + rewrite Hn. repeat split; auto. rewrite Ht. discriminate.
    - (* local *)
      intros fn n a d l Hb Hs Hd IH g g' t Hg Hl Gd Ho Hn. unfold occ_good in Ho. rewrite Hn, Hb, Hs in Ho.
      destruct Ho as (k & d0 & Hk & _ & Hd0 & Hc & Hr0 & Ht).
      pose proof (def_denotes_fun p _ _ _ Hd0 _ (proj1 (path_denotes p) _ _ _ _ Hd)) as ->.
      pose proof (split_type_single _ _ Hs) as ->. rewrite (def_of_file p fn g n Hg) in Hk.
      destruct (IH g g' Hg Hl Gd) as (Hy & Hi). split; [|exact Hi].
      destruct Hy as [(vs & Hlk & ->)|[(s & Hlk & ->)|(tgt & td' & Hlk & Ft & Hdt)]];
        rewrite Hk in Hlk; injection Hlk as ->.
      + exists g', t. split.
        * intros [|k] Hle; [lia|]. cbn [deref]. rewrite Hr0, Ht. reflexivity.
        * repeat split; auto. rewrite Ht. discriminate.
      + exists g', t. split.
        * intros [|k] Hle; [lia|]. cbn [deref]. rewrite Hr0, Ht. cbn. destruct s; reflexivity.
        * repeat split; auto. rewrite Ht. cbn. destruct s; discriminate.
      + destruct Hdt as (h' & t' & Hrun & Hrest). exists h', t'. split; [|exact Hrest].
        intros [|k] Hle; [lia|]. cbn [deref]. rewrite Hr0, Ht. cbn [typedef_flag dkind_cat is_typedef_cat].
        rewrite Hn, Ft. apply Hrun. lia.
    - (* qualified *)
      intros fn f n pre m i gn d l Hb Hs Hf Hsi Hd IH g g' t Hg Hl Gd Ho Hn.
      assert (f = g) by congruence. subst f.
      unfold occ_good in Ho. rewrite Hn, Hb, Hs in Ho.
      destruct Ho as (i0 & gn0 & k & d0 & Hsi0 & Hk & Hd0 & Hc & Hr0 & Ht).
      rewrite Hsi in Hsi0. injection Hsi0 as <- <-.
      pose proof (def_denotes_fun p _ _ _ Hd0 _ (proj1 (path_denotes p) _ _ _ _ Hd)) as ->.
      destruct (spec_include_nth _ _ _ _ _ _ _ _ Hsi) as (_ & Hnth & _). rewrite Nat.sub_0_r in Hnth.
      unfold file_incs in Hnth. rewrite nth_error_map in Hnth.
      destruct (nth_error (f_includes g) i) as [x|] eqn:Nx; [|discriminate]. cbn [option_map] in Hnth.
      injection Hnth as _ Hrx.
      assert (Nx' : exists x', nth_error (f_includes g') i = Some x' /\ in_ref x' = Some gn).
      { pose proof (gd_incs _ _ _ _ _ Gd) as E.
        assert (E2 : nth_error (map (fun i => (in_path i, in_ref i)) (f_includes g')) i = Some (in_path x, in_ref x))
          by (rewrite E, nth_error_map, Nx; reflexivity).
        rewrite nth_error_map in E2. destruct (nth_error (f_includes g') i) as [x'|]; [|discriminate].
        injection E2 as _ E3. exists x'. split; [reflexivity | congruence]. }
      destruct Nx' as (x' & Nx' & Hrx').
      destruct (gd_targets _ _ _ _ _ Gd x (nth_error_In _ _ Nx)) as (hn & Hrn & Hln).
      assert (hn = gn) by congruence. subst hn.
      destruct (lookup gn done) as [h'|] eqn:Lh; [|congruence]. clear Hln.
      destruct (Hinv gn h' Lh) as (h & Hh & Gh).
      assert (Tgt : reference_target r g' (Ref m (Z.of_nat i)) = Some h').
      { unfold reference_target. cbn [ref_index]. rewrite nth_include_nat, Nx'. unfold include_target. rewrite Hrx'.
        apply Hr. exact Lh. }
      assert (Hn2c : exists mm, f_name2cat h' = Some mm /\ forall a, lookup a mm = option_map dkind_cat (lookup a (file_defs h))).
      { pose proof (gd_resolved _ _ _ _ _ Gh) as Hres. pose proof (gd_n2c _ _ _ _ _ Gh) as Hn2. unfold n2c_of in Hn2.
        destruct (f_name2cat h') as [mm|]; [|congruence]. eauto. }
      destruct Hn2c as (mm & Hmm & Hlm).
      destruct (IH h h' Hh eq_refl Gh) as (Hy & Hi). split; [|exact Hi].
      destruct Hy as [(vs & Hlk & ->)|[(s & Hlk & ->)|(tgt & td' & Hlk & Ft & Hdt)]].
      + exists h', (Ty m None None [] [] CatEnum None None). split.
        * intros [|k0] Hle; [lia|]. cbn [deref]. rewrite Hr0, Tgt, Hmm. cbn [ref_name]. rewrite Hlm, Hlk. reflexivity.
        * cbn. repeat split; auto; try discriminate.
      + exists h', (Ty m None None [] [] (sl_kind_category s) None None). split.
        * intros [|k0] Hle; [lia|]. cbn [deref]. rewrite Hr0, Tgt, Hmm. cbn [ref_name]. rewrite Hlm, Hlk.
          cbn. destruct s; reflexivity.
        * cbn. repeat split; auto; try discriminate.
      + destruct Hdt as (h2 & t' & Hrun & Hrest). exists h2, t'. split; [|exact Hrest].
        intros [|k0] Hle; [lia|]. cbn [deref]. rewrite Hr0, Tgt, Hmm. cbn [ref_name]. rewrite Hlm, Hlk.
        cbn [option_map dkind_cat]. rewrite Ft. apply Hrun. lia.
  Qed.
End DerefFuel.

(* Deref with the fuel the model uses arrives at the denoted definition *)
Theorem deref_spec_fuel p r :
  parsed_program p = true -> resolve_program p = Ok r ->
  forall fn f' t, prog_file r fn = Some f' -> f_name2cat f' <> None -> In t (file_occs f') ->
  exists d, name_denotes p fn (ty_name t) d /\ deref_within r f' t d (deref_fuel r).
Proof.
  intros Hp Hr fn f' t Hf Hn Ht. destruct (resolve_program_done p r Hp Hr) as (done & Hinv & Hd1 & Hd2).
  pose proof (Hd1 fn f' Hf Hn) as Hl. destruct (Hinv fn f' Hl) as (f & Hpf & Gd).
  pose proof (gd_occs _ _ _ _ _ Gd) as Ho. rewrite Forall_forall in Ho. specialize (Ho t Ht).
  destruct (occ_good_denotes p fn f t Hpf Ho) as (d & Hden & _). exists d. split; [exact Hden|].
  destruct (proj2 (denotes_path p) _ _ _ Hden) as (l & Hpath).
  destruct (proj2 (deref_path p done r Hinv Hd2) _ _ _ _ Hpath f f' t Hpf Hl Gd Ho eq_refl) as ((h' & t' & Hrun & Hrest) & Hincl).
  exists h', t'. split; [|exact Hrest]. intros fuel Hle. apply Hrun.
  assert (NoDup l /\ length l <= prog_typedef_count r) as (_ & Hb).
  { assert (ND : NoDup l).
    { destruct Hpath as [| ? ? ? ? ? _ _ Hd | ? ? ? ? ? ? ? ? ? _ _ _ _ Hd]; [constructor | |]; eapply def_path_NoDup; eauto. }
    split; [exact ND|]. rewrite <- all_typedefs_length. apply NoDup_incl_length; assumption. }
  unfold deref_fuel in Hle. lia.
Qed.
