"""C12 — output assembly loses nothing (generator/file_manager.go)."""
import json
import os
import vlib


class S(vlib.Spec):
    prop = "C12"
    design_ref = "DESIGN.md section 3 / C12"
    coq_targets = ["Props/C12.vo", "Corr/C12.vo"]
    props_file = "Props/C12.v"
    harness_pkg = "./cmd/c12"
    harness_name = "c12"
    corr_codes = {1, 9}
    code_names = {1: "model and implementation disagree", 2: "two output files share a name",
                  3: "named patch without target accepted", 4: "unnamed first item accepted", 5: "a file that must be kept is missing / dropped wrongly / misnamed", 6: "markers not removed or text changed (no patches)", 9: "model out of fuel"}
    modelled = ("generator/file_manager.go: FileManager.Feed (incl. the rename walk), insertReg.FindAllString, "
                "insertionPointReplacer.Add/Replace (strings.NewReplacer generic algorithm), FileManager.BuildResponse "
                "-> coq/Gen/FileManager.v; hand-written, tied by correspondence on every run; the marker syntax (InsertionPointFormat, "
                "the character class of insertReg) is additionally regenerated from the source by harness/cmd/translate-markers into "
                "coq/Gen/MarkerTable.v and proved equal to the model's (C12_marker_syntax_is_source, C12_marker_alphabet_is_source)")
    trusted_base = [
        "hand-written model coq/Gen/FileManager.v (mirrors file_manager.go statement by statement)",
        "Go regexp (leftmost-first FindAllString), sort.Strings and strings.NewReplacer (leftmost match, first listed pair wins) as modelled by find_markers / listed_pairs / replace",
        "harness/cmd/translate-markers (go/ast reader of one constant and one regexp literal; refuses shapes it does not understand)",
        "harness/cmd/c12 (drives the real FileManager in-process), harness/coqfmt (Go value -> Coq term printer), lib/vlib.py",
    ]
    assumptions = ["filepath.Ext / fmt.Sprintf(%d) behave as split_ext / digits", "log output is not part of the observable"]

    def translators(self, ctx):
        ok, log, binp = vlib.go_build("./cmd/translate-markers", "translate-markers")
        if not ok:
            raise RuntimeError("translate-markers build failed: " + log[-1000:])
        rc, out = vlib.sh([binp, "-repo", vlib.REPO, "-out", os.path.join(vlib.COQ, "Gen", "MarkerTable.v")])
        if rc != 0:
            raise RuntimeError("translate-markers failed: " + out[-1000:])
        return ["translate-markers -> coq/Gen/MarkerTable.v: " + out.strip().splitlines()[-1]]

    def classify(self, code, case):
        return {2: "C12-duplicate-output-name", 3: "C12-named-patch-no-target", 4: "C12-unnamed-first-accepted", 5: "C12-kept-files-bookkeeping", 6: "C12-text-or-markers-changed"}.get(code, "C12-code-%d" % code)

    def search(self, ctx):
        return None


def run(tier):
    return vlib.standard_run(S(), tier)


def replay(path):
    obj = json.load(open(path))
    print(json.dumps(obj, indent=1)[:4000])
    return 0
