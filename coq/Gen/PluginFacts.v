(* Gen/PluginFacts.v — proofs about the model Gen/Plugin.v (property C11). *)
From Coq Require Import List Arith Bool Lia NArith ZArith Permutation.
From Coq.Strings Require Import Byte String.
From Verif Require Import Base.Bytes Base.BE Wire.TType Wire.WVal Wire.Codec Wire.CodecFacts Wire.Schema
  Wire.SchemaPlugin Idl.Ast Idl.AstFacts Gen.FileManager Gen.Plugin.
Import ListNotations.
Local Open Scope Z_scope.
Local Open Scope list_scope.

(* ================================================================ 1. option strings *)

Lemma no_byte_app c a b : no_byte c (a ++ b) = no_byte c a && no_byte c b.
Proof. unfold no_byte. apply forallb_app. Qed.

Lemma split_first_none sep s : no_byte sep s = true -> split_first sep s = (s, None).
Proof.
  induction s as [|c r IH]; cbn; [reflexivity|].
  intro H. apply andb_true_iff in H as [Hc Hr].
  destruct (Byte.eqb c sep); [discriminate|]. rewrite IH by assumption. reflexivity.
Qed.

Lemma split_first_some sep a b : no_byte sep a = true -> split_first sep (a ++ sep :: b) = (a, Some b).
Proof.
  induction a as [|c r IH]; cbn.
  - intros _. assert (E : Byte.eqb sep sep = true) by (apply byte_eqb_eq; reflexivity). rewrite E. reflexivity.
  - intro H. apply andb_true_iff in H as [Hc Hr].
    destruct (Byte.eqb c sep); [discriminate|]. rewrite IH by assumption. reflexivity.
Qed.

Lemma split_all_single sep s : no_byte sep s = true -> split_all sep s = [s].
Proof.
  induction s as [|c r IH]; cbn; [reflexivity|].
  intro H. apply andb_true_iff in H as [Hc Hr].
  destruct (Byte.eqb c sep); [discriminate|]. rewrite IH by assumption. reflexivity.
Qed.

Lemma split_all_cons sep a b : no_byte sep a = true -> split_all sep (a ++ sep :: b) = a :: split_all sep b.
Proof.
  induction a as [|c r IH]; cbn.
  - intros _. assert (E : Byte.eqb sep sep = true) by (apply byte_eqb_eq; reflexivity). rewrite E. reflexivity.
  - intro H. apply andb_true_iff in H as [Hc Hr].
    destruct (Byte.eqb c sep); [discriminate|]. rewrite IH by assumption. reflexivity.
Qed.

Lemma split_all_join sep l :
  l <> [] -> forallb (no_byte sep) l = true -> split_all sep (join sep l) = l.
Proof.
  induction l as [|x r IH]; [congruence|].
  intros _ H. cbn [forallb] in H. apply andb_true_iff in H as [Hx Hr].
  destruct r as [|y r'].
  - cbn [join]. apply split_all_single. assumption.
  - change (join sep (x :: y :: r')) with (x ++ [sep] ++ join sep (y :: r')).
    cbn [app]. rewrite split_all_cons by assumption. rewrite IH; [reflexivity|congruence|assumption].
Qed.

Lemma parse_render_opt o : opt_ok o = true -> parse_opt (render_opt o) = o.
Proof.
  destruct o as [n d]. unfold opt_ok, parse_opt, render_opt. cbn [o_name o_desc].
  intro H. apply andb_true_iff in H as [H Hd]. apply andb_true_iff in H as [Hc He].
  destruct d as [|c d].
  - rewrite split_first_none by assumption. reflexivity.
  - cbn [app]. rewrite split_first_some by assumption. reflexivity.
Qed.

Lemma render_opt_no_comma o : opt_ok o = true -> no_byte x2c (render_opt o) = true.
Proof.
  destruct o as [n d]. unfold opt_ok, render_opt. cbn [o_name o_desc].
  intro H. apply andb_true_iff in H as [H Hd]. apply andb_true_iff in H as [Hc He].
  destruct d as [|c d]; [assumption|].
  rewrite !no_byte_app, Hc, Hd. reflexivity.
Qed.

Theorem compact_roundtrip d : desc_ok d = true -> parse_compact (render d) = Some d.
Proof.
  destruct d as [n os]. unfold desc_ok, render. cbn [d_name d_opts].
  intro H. apply andb_true_iff in H as [H Hos]. apply andb_true_iff in H as [Hne Hn].
  destruct os as [|o os].
  - unfold parse_compact. destruct n as [|c n]; [discriminate|].
    rewrite split_first_none by assumption. reflexivity.
  - unfold parse_compact.
    assert (Hr : n ++ [x3a] ++ join x2c (map render_opt (o :: os)) <> []) by (destruct n; discriminate).
    destruct (n ++ [x3a] ++ join x2c (map render_opt (o :: os))) eqn:E; [congruence|]. rewrite <- E. clear E Hr.
    cbn [app]. rewrite split_first_some by assumption.
    rewrite split_all_join.
    + f_equal. f_equal. rewrite map_map. rewrite <- (map_id (o :: os)) at 2.
      apply map_ext_in. intros a Ha. apply parse_render_opt.
      rewrite forallb_forall in Hos. apply Hos. assumption.
    + discriminate.
    + rewrite forallb_forall. intros x Hx. apply in_map_iff in Hx as [a [<- Ha]].
      apply render_opt_no_comma. rewrite forallb_forall in Hos. apply Hos. assumption.
Qed.

(* the parameters a plugin (or the generator) receives are name=value of every option, in the
   order they were written *)
Theorem pack_order d : desc_ok d = true ->
  params_of (render d) = Some (map (fun o => o_name o ++ [x3d] ++ o_desc o) (d_opts d)) /\
  language_of (render d) = Some (d_name d).
Proof.
  intro H. unfold params_of, language_of. rewrite compact_roundtrip by assumption. split; reflexivity.
Qed.

Lemma pack_length opts : List.length (pack opts) = List.length opts.
Proof. apply map_length. Qed.

Lemma pack_nth opts i o : nth_error opts i = Some o -> nth_error (pack opts) i = Some (o_name o ++ [x3d] ++ o_desc o).
Proof. intro H. unfold pack. rewrite nth_error_map, H. reflexivity. Qed.

(* ================================================================ 2. trailer *)

Lemma is_prefix_app p r : is_prefix p (p ++ r) = true.
Proof. apply is_prefix_spec. exists r. reflexivity. Qed.

Lemma has_suffix_app d m : has_suffix (d ++ m) m = true.
Proof. unfold has_suffix. rewrite rev_app_distr. apply is_prefix_app. Qed.

Theorem trailer_roundtrip d f f' : 0 <= f < 256 ->
  has_feature (append_trailer d f) f' = (Z.land f f' =? f').
Proof.
  intro Hf. unfold has_feature, append_trailer.
  rewrite app_assoc, has_suffix_app. cbn [negb].
  rewrite !app_length. cbn [List.length].
  destruct (Nat.ltb_spec (List.length d + 1 + List.length trailer_magic) (List.length trailer_magic + 1)) as [H|_]; [lia|].
  replace (List.length d + 1 + List.length trailer_magic - 1 - List.length trailer_magic)%nat with (List.length d + 0)%nat by lia.
  rewrite <- app_assoc. rewrite nth_error_app2 by lia.
  replace (List.length d + 0 - List.length d)%nat with 0%nat by lia. cbn [app nth_error].
  rewrite Z_of_byte_of_Z. rewrite Z.mod_small by lia. reflexivity.
Qed.

Lemma enc_struct_ends_with_stop fs : exists p, enc (WStruct fs) = p ++ [x00].
Proof.
  rewrite enc_struct_unfold. induction fs as [|[[t id] x] r [p Hp]].
  - exists []. reflexivity.
  - rewrite enc_fields_go_cons, Hp. exists (put_be 1 (code t) ++ put_be 2 id ++ enc x ++ p).
    rewrite <- !app_assoc. reflexivity.
Qed.

(* a marshalled struct never looks as if it carried a trailer: it ends with the stop byte 0,
   the trailer with 0xff *)
Theorem trailer_absent_on_plain fs f : has_feature (enc (WStruct fs)) f = false.
Proof.
  destruct (enc_struct_ends_with_stop fs) as [p Hp]. unfold has_feature. rewrite Hp.
  destruct (_ <? _)%nat; [reflexivity|].
  unfold has_suffix. rewrite rev_app_distr. cbn [rev app].
  change (rev trailer_magic) with (xff :: rev (removelast trailer_magic)).
  cbn [is_prefix]. reflexivity.
Qed.

(* ================================================================ 5. outcome *)

Definition no_error (r : response) : Prop := rs_error r = None \/ rs_error r = Some [].

Theorem outcome_fail name pr :
  match pr with
  | Exited code out _ =>
      code <> 0 \/ unmarshal_response out = None \/
      (exists r c e, unmarshal_response out = Some r /\ rs_error r = Some (c :: e))
  | TimedOut _ _ | NotStarted => True
  end ->
  exists shown, outcome name pr = Fail shown.
Proof.
  destruct pr as [code out err|out err|]; intro H; unfold outcome, execute.
  - destruct (Z.eqb_spec code 0) as [E|E]; cbn [negb].
    + destruct H as [H|[H|[r [c [e [Hr He]]]]]]; [congruence| |].
      * rewrite H. eexists. reflexivity.
      * rewrite Hr. destruct err; cbn [rs_error]; rewrite He; eexists; reflexivity.
    + eexists. reflexivity.
  - eexists. reflexivity.
  - eexists. reflexivity.
Qed.

Definition shown_of (name err : bytes) (r : response) : list bytes :=
  get_list (rs_warnings r) ++ match err with [] => [] | _ => [warn_plugin_stderr name err] end.

Lemma outcome_ok name out err r :
  unmarshal_response out = Some r -> no_error r ->
  outcome name (Exited 0 out err) = Proceed (shown_of name err r) (get_list (rs_contents r)).
Proof.
  intros Hr He. unfold outcome, execute, shown_of. cbn [Z.eqb negb]. rewrite Hr.
  destruct err as [|c err].
  - rewrite app_nil_r. destruct He as [-> | ->]; reflexivity.
  - cbn [rs_error rs_warnings rs_contents get_list].
    destruct He as [-> | ->]; reflexivity.
Qed.

(* an answer without error: every content item is handed to FileManager.Feed, in order, and
   every warning (and the plugin's stderr) is shown *)
Theorem outcome_ok_contents_reach_fm m shown name out err r rest :
  unmarshal_response out = Some r -> no_error r ->
  run_plugins m shown ((name, Exited 0 out err) :: rest) =
  match feed m (map to_gen (get_list (rs_contents r))) with
  | FileManager.Ok m' => run_plugins m' (shown ++ shown_of name err r) rest
  | _ => RFail (shown ++ shown_of name err r)
  end.
Proof.
  intros Hr He. cbn [run_plugins]. rewrite (outcome_ok name out err r Hr He). reflexivity.
Qed.

(* a failing plugin stops everything: later plugins are not run, nothing is handed on *)
Theorem run_plugins_fail m shown name pr rest ws :
  outcome name pr = Fail ws -> run_plugins m shown ((name, pr) :: rest) = RFail (shown ++ ws).
Proof. intro H. cbn [run_plugins]. rewrite H. reflexivity. Qed.

(* ================================================================ 3. include compression *)

Lemma ast_ind' (P : ast -> Prop) :
  (forall f kids, Forall (fun k => match k with Some a => P a | None => True end) kids -> P (Ast f kids)) ->
  forall a, P a.
Proof.
  intro H. fix IH 1. intros [f kids]. apply H.
  induction kids as [|[k|] r IHr]; constructor; auto.
Qed.

(* ---- stand-alone versions of the local loops, with their unfolding equations ---- *)

Fixpoint nodes_kids (l : list (option ast)) : list ast :=
  match l with [] => [] | Some k :: r => nodes k ++ nodes_kids r | None :: r => nodes_kids r end.
Lemma nodes_eq f kids : nodes (Ast f kids) = Ast f kids :: nodes_kids kids.
Proof. reflexivity. Qed.
Lemma below_eq f kids : below (Ast f kids) = nodes_kids kids.
Proof. reflexivity. Qed.

Fixpoint height_kids (l : list (option ast)) : nat :=
  match l with [] => O | Some k :: r => Nat.max (height k) (height_kids r) | None :: r => height_kids r end.
Lemma height_eq f kids : height (Ast f kids) = S (height_kids kids).
Proof. reflexivity. Qed.

Section CK.
  Variable mk : bytes -> ast.
  Fixpoint compress_kids (seen : list bytes) (ks : list (option ast)) : list (option ast) * list bytes :=
    match ks with
    | [] => ([], seen)
    | None :: r => let '(r', s') := compress_kids seen r in (None :: r', s')
    | Some k :: r =>
        if mem (ast_name k) seen then
          let '(r', s') := compress_kids seen r in (Some (mk (ast_name k)) :: r', s')
        else
          let '(k', s1) := compress_gen mk (ast_name k :: seen) k in
          let '(r', s2) := compress_kids s1 r in (Some k' :: r', s2)
    end.
End CK.
Lemma compress_eq mk seen f kids :
  compress_gen mk seen (Ast f kids) = let '(k', s') := compress_kids mk seen kids in (Ast f k', s').
Proof. reflexivity. Qed.

Fixpoint collect_kids (m : list (bytes * ast)) (ks : list (option ast)) : list (bytes * ast) :=
  match ks with
  | [] => m
  | None :: r => collect_kids m r
  | Some k :: r => if is_stub k then collect_kids m r else collect_kids (collect (update (ast_name k) k m) k) r
  end.
Lemma collect_eq m f kids : collect m (Ast f kids) = collect_kids m kids.
Proof. reflexivity. Qed.

Definition resolve (m : list (bytes * ast)) (k : ast) : ast + bytes :=
  match stub_target k with
  | Some fn => match lookup fn m with Some t => inl t | None => inr fn end
  | None => inl k end.

Section DK.
  Variables (n : nat) (m : list (bytes * ast)).
  Fixpoint decompress_kids (ks : list (option ast)) : list (option ast) * option dres :=
    match ks with
    | [] => ([], None)
    | None :: _ => ([], Some DNilRef)
    | Some k :: r =>
        match resolve m k with
        | inr fn => ([], Some (DNotFound fn))
        | inl t =>
            match decompress n m t with
            | DOk t' => let '(r', e) := decompress_kids r in (Some t' :: r', e)
            | e => ([], Some e)
            end
        end
    end.
End DK.
Lemma decompress_eq n m f kids :
  decompress (S n) m (Ast f kids) =
  match decompress_kids n m kids with (kids', None) => DOk (Ast f kids') | (_, Some e) => e end.
Proof. reflexivity. Qed.

Fixpoint all_refs_kids (l : list (option ast)) : bool :=
  match l with [] => true | Some k :: r => all_refs_set k && all_refs_kids r | None :: _ => false end.
Lemma all_refs_eq f kids : all_refs_set (Ast f kids) = all_refs_kids kids.
Proof. reflexivity. Qed.

(* the nodes collect sees: reached without passing through a stub, stubs themselves excluded *)
Fixpoint live (a : ast) : list ast :=
  match a with
  | Ast _ kids => (fix go (l : list (option ast)) : list ast :=
                     match l with
                     | [] => []
                     | Some k :: r => (if is_stub k then [] else k :: live k) ++ go r
                     | None :: r => go r
                     end) kids
  end.
Fixpoint live_kids (l : list (option ast)) : list ast :=
  match l with
  | [] => []
  | Some k :: r => (if is_stub k then [] else k :: live k) ++ live_kids r
  | None :: r => live_kids r
  end.
Lemma live_eq f kids : live (Ast f kids) = live_kids kids.
Proof. reflexivity. Qed.

(* ---- basic facts about nodes ---- *)

Fixpoint size (a : ast) : nat :=
  match a with
  | Ast _ kids => S ((fix go (l : list (option ast)) : nat :=
                        match l with [] => O | Some k :: r => (size k + go r)%nat | None :: r => go r end) kids)
  end.
Fixpoint size_kids (l : list (option ast)) : nat :=
  match l with [] => O | Some k :: r => (size k + size_kids r)%nat | None :: r => size_kids r end.
Lemma size_eq f kids : size (Ast f kids) = S (size_kids kids).
Proof. reflexivity. Qed.

Lemma in_nodes_kids x ks : In x (nodes_kids ks) <-> exists k, In (Some k) ks /\ In x (nodes k).
Proof.
  induction ks as [|[k|] r IH]; cbn [nodes_kids].
  - split; [intros []|intros [k [[] _]]].
  - rewrite in_app_iff, IH. split.
    + intros [H|[k' [H1 H2]]]; [exists k; split; [left; reflexivity|assumption] | exists k'; split; [right; assumption|assumption]].
    + intros [k' [[E|H1] H2]]; [injection E as ->; left; assumption | right; exists k'; auto].
  - rewrite IH. split; intros [k' [H1 H2]]; exists k'; split; auto.
    + right; assumption.
    + destruct H1 as [E|H1]; [discriminate|assumption].
Qed.

Lemma nodes_self a : In a (nodes a).
Proof. destruct a. rewrite nodes_eq. left. reflexivity. Qed.

Lemma below_nodes a x : In x (below a) -> In x (nodes a).
Proof. destruct a. rewrite nodes_eq, below_eq. intro. right. assumption. Qed.

Lemma nodes_below a x : In x (nodes a) -> x = a \/ In x (below a).
Proof. destruct a. rewrite nodes_eq, below_eq. intros [H|H]; auto. Qed.

Lemma below_size : forall a x, In x (below a) -> (size x < size a)%nat.
Proof.
  induction a as [f kids IH] using ast_ind'. intros x. rewrite below_eq, size_eq, in_nodes_kids.
  intros [k [Hk Hx]].
  assert (Hks : (size k <= size_kids kids)%nat).
  { clear -Hk. induction kids as [|[c|] r IHr]; cbn [size_kids]; [destruct Hk| |].
    - destruct Hk as [E|Hk]; [injection E as ->; lia|specialize (IHr Hk); lia].
    - destruct Hk as [E|Hk]; [discriminate|auto]. }
  rewrite Forall_forall in IH. specialize (IH (Some k) Hk). cbn in IH.
  apply nodes_below in Hx as [->|Hx]; [lia|]. specialize (IH x Hx). lia.
Qed.

Lemma nodes_trans : forall a y z, In y (nodes a) -> In z (nodes y) -> In z (nodes a).
Proof.
  induction a as [f kids IH] using ast_ind'. intros y z Hy Hz.
  rewrite nodes_eq in Hy. destruct Hy as [<-|Hy]; [assumption|].
  rewrite nodes_eq. right. rewrite in_nodes_kids in *. destruct Hy as [k [Hk Hy]].
  exists k. split; [assumption|]. rewrite Forall_forall in IH. exact (IH (Some k) Hk y z Hy Hz).
Qed.

Lemma below_trans a y z : In y (below a) -> In z (nodes y) -> In z (below a).
Proof.
  destruct a as [f kids]. rewrite below_eq, !in_nodes_kids. intros [k [Hk Hy]] Hz.
  exists k. split; [assumption|]. eapply nodes_trans; eassumption.
Qed.

Lemma kid_below f kids k : In (Some k) kids -> In k (below (Ast f kids)).
Proof. intro H. rewrite below_eq, in_nodes_kids. exists k. split; [assumption|apply nodes_self]. Qed.

(* ---- well-formed graphs ---- *)

(* equal Filenames denote the same node; every reference is set; no Filename looks like a stub *)
Definition wf_graph (g : ast) : Prop :=
  all_refs_set g = true /\
  (forall x y, In x (nodes g) -> In y (nodes g) -> ast_name x = ast_name y -> x = y) /\
  (forall x, In x (nodes g) -> name_clean (ast_name x) = true).

Lemma all_refs_nodes : forall a x, all_refs_set a = true -> In x (nodes a) -> all_refs_set x = true.
Proof.
  induction a as [f kids IH] using ast_ind'. intros x Ha Hx.
  rewrite nodes_eq in Hx. destruct Hx as [<-|Hx]; [assumption|].
  rewrite all_refs_eq in Ha. rewrite in_nodes_kids in Hx. destruct Hx as [k [Hk Hx]].
  rewrite Forall_forall in IH. apply (IH (Some k) Hk x); [|assumption].
  clear -Ha Hk. induction kids as [|[c|] r IHr]; cbn [all_refs_kids] in Ha; [destruct Hk| |discriminate].
  apply andb_true_iff in Ha as [H1 H2]. destruct Hk as [E|Hk]; [injection E as ->; assumption|auto].
Qed.

Lemma all_refs_kids_some ks : all_refs_kids ks = true -> forall o, In o ks -> exists k, o = Some k /\ all_refs_set k = true.
Proof.
  induction ks as [|[c|] r IH]; cbn [all_refs_kids]; intros H o Ho; [destruct Ho| |discriminate].
  apply andb_true_iff in H as [H1 H2]. destruct Ho as [<-|Ho]; [exists c; auto|auto].
Qed.

(* ---- stubs ---- *)

Lemma strip_prefix_app p s : strip_prefix p (p ++ s) = Some s.
Proof.
  induction p as [|c p IH]; [reflexivity|]. cbn.
  assert (E : Byte.eqb c c = true) by (apply byte_eqb_eq; reflexivity). rewrite E. exact IH.
Qed.

Lemma strip_prefix_is_prefix p s : strip_prefix p s = None <-> is_prefix p s = false.
Proof.
  revert s. induction p as [|c p IH]; intros [|b s]; cbn; try (split; congruence).
  destruct (Byte.eqb c b); cbn; [apply IH|split; reflexivity].
Qed.

Lemma stub_target_stub n : stub_target (stub n) = Some n.
Proof. unfold stub_target, stub, ast_name. cbn [ast_file empty_file f_filename]. apply strip_prefix_app. Qed.

Lemma is_stub_stub n : is_stub (stub n) = true.
Proof. unfold is_stub. rewrite stub_target_stub. reflexivity. Qed.

Lemma clean_not_stub a : name_clean (ast_name a) = true -> stub_target a = None.
Proof.
  unfold name_clean, stub_target. intro H. apply strip_prefix_is_prefix.
  destruct (is_prefix ref_prefix (ast_name a)); [discriminate|reflexivity].
Qed.

Lemma clean_is_stub a : name_clean (ast_name a) = true -> is_stub a = false.
Proof. intro H. unfold is_stub. rewrite clean_not_stub by assumption. reflexivity. Qed.

(* ---- a combined induction principle: trees and kid lists ---- *)

Lemma ast_kids_ind (P : ast -> Prop) (Q : list (option ast) -> Prop) :
  (forall f kids, Q kids -> P (Ast f kids)) ->
  Q [] -> (forall k r, P k -> Q r -> Q (Some k :: r)) -> (forall r, Q r -> Q (None :: r)) ->
  (forall a, P a) /\ (forall ks, Q ks).
Proof.
  intros HP Hnil Hsome Hnone.
  assert (H : forall a, P a).
  { fix IH 1. intros [f kids]. apply HP.
    induction kids as [|[k|] r IHr]; [exact Hnil|apply Hsome; [apply IH|exact IHr]|apply Hnone; exact IHr]. }
  split; [exact H|]. induction ks as [|[k|] r IHr]; auto.
Qed.

(* ---- compress: what it keeps ---- *)

Section Mk.
  Variable mk : bytes -> ast.
  Hypothesis Hmk : forall n, stub_target (mk n) = Some n.
  Definition ctop (g : ast) : ast := fst (compress_gen mk [] g).
  Lemma is_stub_mk n : is_stub (mk n) = true.
  Proof. unfold is_stub. rewrite Hmk. reflexivity. Qed.

Lemma compress_name : forall a seen, ast_file (fst (compress_gen mk seen a)) = ast_file a.
Proof.
  intros [f kids] seen. rewrite compress_eq. destruct (compress_kids mk seen kids). reflexivity.
Qed.
Lemma compress_ast_name a seen : ast_name (fst (compress_gen mk seen a)) = ast_name a.
Proof. unfold ast_name. rewrite compress_name. reflexivity. Qed.

Lemma mem_In n l : mem n l = true <-> In n l.
Proof.
  unfold mem. rewrite existsb_exists. split.
  - intros [x [Hx E]]. apply beqb_true in E. subst. assumption.
  - intro H. exists n. split; [assumption|apply beqb_refl].
Qed.

Lemma NoDup_app_intro {A} (a b : list A) :
  NoDup a -> NoDup b -> (forall x, In x a -> In x b -> False) -> NoDup (a ++ b).
Proof.
  induction a as [|x a IH]; intros Ha Hb Hd; [exact Hb|].
  inversion Ha as [|? ? Hx Ha']; subst. cbn. constructor.
  - rewrite in_app_iff. intros [H|H]; [contradiction|]. apply (Hd x); [left; reflexivity|assumption].
  - apply IH; [assumption|assumption|]. intros y H1 H2. apply (Hd y); [right; assumption|assumption].
Qed.

Definition img (a' a : ast) : Prop := exists s, a' = fst (compress_gen mk s a).

Definition clean_tree (a : ast) : Prop := forall x, In x (nodes a) -> name_clean (ast_name x) = true.
Definition clean_kids (ks : list (option ast)) : Prop := forall x, In x (nodes_kids ks) -> name_clean (ast_name x) = true.

(* the local facts about one call (no sharing hypothesis needed): seen grows exactly by the
   names of the live nodes of the result; those names are pairwise distinct and were not seen
   before; every live node of the result is the image of a proper descendant *)
Definition CL (L D : list ast) (seen seen' : list bytes) : Prop :=
  (forall n, In n seen' <-> In n seen \/ In n (map ast_name L)) /\
  NoDup (map ast_name L) /\
  (forall n, In n (map ast_name L) -> ~ In n seen) /\
  (forall x, In x L -> exists y, In y D /\ img x y).

Lemma compress_local_both :
  (forall a, forall seen, clean_tree a ->
     CL (live (fst (compress_gen mk seen a))) (below a) seen (snd (compress_gen mk seen a))) /\
  (forall ks, forall seen, clean_kids ks ->
     CL (live_kids (fst (compress_kids mk seen ks))) (nodes_kids ks) seen (snd (compress_kids mk seen ks))).
Proof.
  apply ast_kids_ind.
  - intros f kids IH seen Hc. unfold CL in *. rewrite compress_eq, below_eq.
    assert (Hk : clean_kids kids) by (intros x Hx; apply Hc; rewrite nodes_eq; right; assumption).
    specialize (IH seen Hk). destruct (compress_kids mk seen kids) as [k' s']. cbn [fst snd] in *.
    rewrite live_eq. exact IH.
  - intros seen _. unfold CL. cbn [compress_kids fst snd live_kids map In nodes_kids]. split; [intro n; tauto|]. split; [constructor|]. split; [intros n []|intros x []].
  - intros k r IHk IHr seen Hc. unfold CL in *. cbn [compress_kids].
    assert (Hck : clean_tree k) by (intros x Hx; apply Hc; cbn [nodes_kids]; apply in_or_app; left; assumption).
    assert (Hcr : clean_kids r) by (intros x Hx; apply Hc; cbn [nodes_kids]; apply in_or_app; right; assumption).
    destruct (mem (ast_name k) seen) eqn:Em.
    + specialize (IHr seen Hcr). destruct (compress_kids mk seen r) as [r' s']. cbn [fst snd] in *.
      cbn [live_kids]. rewrite (is_stub_mk _). cbn [app].
      destruct IHr as [I1 [I2 [I3 I4]]]. repeat split; auto; try apply I1.
      intros x Hx. destruct (I4 x Hx) as [y [Hy Hi]]. exists y. split; [|assumption].
      cbn [nodes_kids]. apply in_or_app. right. assumption.
    + specialize (IHk (ast_name k :: seen) Hck).
      pose proof (compress_ast_name k (ast_name k :: seen)) as Hn.
      destruct (compress_gen mk (ast_name k :: seen) k) as [k' s1] eqn:Ek. cbn [fst snd] in IHk, Hn.
      specialize (IHr s1 Hcr). destruct (compress_kids mk s1 r) as [r' s2]. cbn [fst snd] in *.
      destruct IHk as [A1 [A2 [A3 A4]]]. destruct IHr as [B1 [B2 [B3 B4]]].
      assert (Hns : is_stub k' = false).
      { apply clean_is_stub. rewrite Hn. apply Hck. apply nodes_self. }
      cbn [live_kids]. rewrite Hns. cbn [app map]. rewrite map_app. rewrite Hn.
      assert (Em' : ~ In (ast_name k) seen) by (rewrite <- mem_In, Em; discriminate).
      repeat split.
      * intro H. apply B1 in H as [H|H]; [|right; right; apply in_or_app; right; assumption].
        apply A1 in H as [[H|H]|H]; [right; left; assumption|left; assumption|right; right; apply in_or_app; left; assumption].
      * intros [H|[H|H]]; apply B1.
        -- left. apply A1. left. right. assumption.
        -- left. apply A1. left. left. assumption.
        -- apply in_app_or in H as [H|H]; [left; apply A1; right; assumption|right; assumption].
      * constructor.
        -- rewrite in_app_iff. intros [H|H].
           ++ apply (A3 _ H). left. reflexivity.
           ++ apply (B3 _ H). apply A1. left. left. reflexivity.
        -- apply NoDup_app_intro; [assumption|assumption|].
           intros n H1 H2. apply (B3 _ H2). apply A1. right. assumption.
      * intros n [<-|H]; [assumption|]. apply in_app_or in H as [H|H].
        -- intro Hs. apply (A3 _ H). right. assumption.
        -- intro Hs. apply (B3 _ H). apply A1. left. right. assumption.
      * intros x [<-|Hx].
        -- exists k. split; [cbn [nodes_kids]; apply in_or_app; left; apply nodes_self|].
           exists (ast_name k :: seen). rewrite Ek. reflexivity.
        -- apply in_app_or in Hx as [Hx|Hx].
           ++ destruct (A4 x Hx) as [y [Hy Hi]]. exists y. split; [|assumption].
              cbn [nodes_kids]. apply in_or_app. left. apply below_nodes. assumption.
           ++ destruct (B4 x Hx) as [y [Hy Hi]]. exists y. split; [|assumption].
              cbn [nodes_kids]. apply in_or_app. right. assumption.
  - intros r IHr seen Hc. unfold CL in *. cbn [compress_kids].
    assert (Hcr : clean_kids r) by (intros x Hx; apply Hc; cbn [nodes_kids]; assumption).
    specialize (IHr seen Hcr). destruct (compress_kids mk seen r) as [r' s']. cbn [fst snd live_kids nodes_kids] in *.
    exact IHr.
Qed.

Definition compress_local := proj1 compress_local_both.

(* ---- closure: with sharing, every descendant's name ends up seen ---- *)

Section Closure.
  Variable g : ast.
  Hypothesis Hsame : forall x y, In x (nodes g) -> In y (nodes g) -> ast_name x = ast_name y -> x = y.
  Hypothesis Hclean : clean_tree g.

  Definition Closed (seen : list bytes) (k : bytes) : Prop :=
    forall p z, In p (nodes g) -> ast_name p = k -> In z (below p) -> In (ast_name z) seen.
  Definition InvS (seen : list bytes) (a : ast) : Prop :=
    forall k, In k seen -> Closed seen k \/ (exists p, In p (nodes g) /\ ast_name p = k /\ In a (nodes p)).

  Lemma Closed_mono s s' k : (forall n, In n s -> In n s') -> Closed s k -> Closed s' k.
  Proof. intros Hs H p z Hp Hn Hz. apply Hs. eapply H; eassumption. Qed.

  Lemma clean_sub a : In a (nodes g) -> clean_tree a.
  Proof. intros Ha x Hx. apply Hclean. eapply nodes_trans; eassumption. Qed.

  Lemma closure_both :
    (forall a, In a (nodes g) -> forall seen, InvS seen a ->
       forall z, In z (below a) -> In (ast_name z) (snd (compress_gen mk seen a))) /\
    (forall ks, forall par, In par (nodes g) -> (forall k, In (Some k) ks -> In k (below par)) ->
       forall seen, InvS seen par ->
       (forall z, In z (nodes_kids ks) -> In (ast_name z) (snd (compress_kids mk seen ks))) /\
       InvS (snd (compress_kids mk seen ks)) par /\
       (forall n, In n seen -> In n (snd (compress_kids mk seen ks)))).
  Proof.
    apply ast_kids_ind.
    - intros f kids IH Ha seen Hinv z Hz. rewrite compress_eq.
      destruct (IH (Ast f kids) Ha (fun k Hk => kid_below f kids k Hk) seen Hinv) as [H1 _].
      destruct (compress_kids mk seen kids) as [k' s']. cbn [fst snd] in *. apply H1. rewrite below_eq in Hz. exact Hz.
    - intros par Hpar _ seen Hinv. cbn. repeat split; auto. intros z [].
    - intros y r IHy IHr par Hpar Hsub seen Hinv. cbn [compress_kids].
      assert (Hyb : In y (below par)) by (apply Hsub; left; reflexivity).
      assert (Hyg : In y (nodes g)) by (eapply nodes_trans; [exact Hpar|apply below_nodes; exact Hyb]).
      assert (Hsub' : forall k, In (Some k) r -> In k (below par)) by (intros; apply Hsub; right; assumption).
      destruct (mem (ast_name y) seen) eqn:Em.
      + (* already seen: it is closed, because it cannot be an ancestor of its own parent *)
        apply mem_In in Em.
        assert (Hcl : Closed seen (ast_name y)).
        { destruct (Hinv _ Em) as [H|[p [Hp [Hn Hin]]]]; [exact H|exfalso].
          assert (p = y) by (apply Hsame; assumption). subst p.
          assert (In par (below par)).
          { eapply below_trans; [exact Hyb|exact Hin]. }
          apply below_size in H. lia. }
        destruct (IHr par Hpar Hsub' seen Hinv) as [R1 [R2 R3]].
        destruct (compress_kids mk seen r) as [r' s']. cbn [fst snd] in *.
        repeat split; [|exact R2|exact R3].
        intros z Hz. cbn [nodes_kids] in Hz. apply in_app_or in Hz as [Hz|Hz]; [|apply R1; exact Hz].
        apply R3. apply nodes_below in Hz as [->|Hz]; [exact Em|]. eapply Hcl; [exact Hyg|reflexivity|exact Hz].
      + assert (Em' : ~ In (ast_name y) seen) by (rewrite <- mem_In, Em; discriminate).
        (* the recursive call: y is in progress, everything else as before *)
        assert (Hinv1 : InvS (ast_name y :: seen) y).
        { intros k [<-|Hk].
          - right. exists y. repeat split; [exact Hyg|apply nodes_self].
          - destruct (Hinv _ Hk) as [H|[p [Hp [Hn Hin]]]].
            + left. eapply Closed_mono; [|exact H]. intros; right; assumption.
            + right. exists p. repeat split; try assumption.
              eapply nodes_trans; [exact Hin|apply below_nodes; exact Hyb]. }
        pose proof (IHy Hyg _ Hinv1) as Y1.
        pose proof (compress_local y (ast_name y :: seen) (clean_sub y Hyg)) as [L1 [L2 [L3 L4]]].
        destruct (compress_gen mk (ast_name y :: seen) y) as [y' s1]. cbn [fst snd] in *.
        assert (Hinv2 : InvS s1 par).
        { intros k Hk. apply L1 in Hk as [[<-|Hk]|Hk].
          - left. intros p z Hp Hn Hz. assert (p = y) by (apply Hsame; assumption). subst p. apply Y1. exact Hz.
          - destruct (Hinv _ Hk) as [H|H]; [left|right; exact H].
            eapply Closed_mono; [|exact H]. intros n Hn. apply L1. left. right. exact Hn.
          - apply in_map_iff in Hk as [x [<- Hx]]. destruct (L4 x Hx) as [z [Hz [s ->]]].
            rewrite compress_ast_name. left. intros p w Hp Hn Hw.
            assert (Hzg : In z (nodes g)) by (eapply nodes_trans; [exact Hyg|apply below_nodes; exact Hz]).
            assert (p = z) by (apply Hsame; assumption). subst p.
            apply Y1. eapply below_trans; [exact Hz|apply below_nodes; exact Hw]. }
        destruct (IHr par Hpar Hsub' s1 Hinv2) as [R1 [R2 R3]].
        destruct (compress_kids mk s1 r) as [r' s2]. cbn [fst snd] in *.
        repeat split; [|exact R2|].
        * intros z Hz. cbn [nodes_kids] in Hz. apply in_app_or in Hz as [Hz|Hz]; [|apply R1; exact Hz].
          apply R3. apply nodes_below in Hz as [->|Hz]; [apply L1; left; left; reflexivity|apply Y1; exact Hz].
        * intros n Hn. apply R3. apply L1. left. right. exact Hn.
    - intros r IHr par Hpar Hsub seen Hinv. cbn [compress_kids].
      assert (Hsub' : forall k, In (Some k) r -> In k (below par)) by (intros; apply Hsub; right; assumption).
      destruct (IHr par Hpar Hsub' seen Hinv) as [R1 [R2 R3]].
      destruct (compress_kids mk seen r) as [r' s']. cbn [fst snd nodes_kids] in *. auto.
  Qed.

  (* every proper descendant's Filename occurs un-stubbed in the result *)
  Lemma compress_covers z : In z (below g) -> In (ast_name z) (map ast_name (live (ctop g))).
  Proof.
    intro Hz. unfold ctop.
    pose proof (proj1 closure_both g (nodes_self g) [] (fun k (H : In k []) => match H with end) z Hz) as H.
    destruct (compress_local g [] Hclean) as [L1 _]. apply L1 in H as [[]|H]. exact H.
  Qed.
End Closure.

(* ---- collect ---- *)

Lemma collect_both :
  (forall a, forall m,
     (forall n x, lookup n (collect m a) = Some x -> (In x (live a) /\ ast_name x = n) \/ lookup n m = Some x) /\
     (forall n, (lookup n m <> None \/ In n (map ast_name (live a))) -> lookup n (collect m a) <> None)) /\
  (forall ks, forall m,
     (forall n x, lookup n (collect_kids m ks) = Some x -> (In x (live_kids ks) /\ ast_name x = n) \/ lookup n m = Some x) /\
     (forall n, (lookup n m <> None \/ In n (map ast_name (live_kids ks))) -> lookup n (collect_kids m ks) <> None)).
Proof.
  apply ast_kids_ind.
  - intros f kids IH m. rewrite collect_eq, live_eq. apply IH.
  - intros m. cbn [collect_kids live_kids map In]. split; [intros; right; assumption|intros n [H|[]]; exact H].
  - intros k r IHk IHr m. cbn [collect_kids live_kids].
    destruct (is_stub k) eqn:Es; cbn [app].
    + apply IHr.
    + destruct (IHr (collect (update (ast_name k) k m) k)) as [R1 R2].
      destruct (IHk (update (ast_name k) k m)) as [K1 K2]. split.
      * intros n x H. apply R1 in H as [[H E]|H]; [left; split; [right; apply in_or_app; right; exact H|exact E]|].
        apply K1 in H as [[H E]|H]; [left; split; [right; apply in_or_app; left; exact H|exact E]|].
        destruct (list_eq_dec Byte.byte_eq_dec (ast_name k) n) as [E|E].
        -- subst n. rewrite lookup_update_same in H. injection H as <-. left. split; [left; reflexivity|reflexivity].
        -- rewrite lookup_update_other in H by exact E. right. exact H.
      * intros n H. apply R2. cbn [map] in H. rewrite map_app in H.
        destruct H as [H|[H|H]].
        -- left. apply K2. left.
           destruct (list_eq_dec Byte.byte_eq_dec (ast_name k) n) as [E|E].
           ++ subst n. rewrite lookup_update_same. discriminate.
           ++ rewrite lookup_update_other by exact E. exact H.
        -- left. apply K2. left. subst n. rewrite lookup_update_same. discriminate.
        -- apply in_app_or in H as [H|H]; [left; apply K2; right; exact H|right; exact H].
  - intros r IHr m. cbn [collect_kids live_kids]. apply IHr.
Qed.

(* collectThriftInclude finds every un-stubbed node, under its Filename *)
Lemma collect_finds_all a n : In n (map ast_name (live a)) ->
  exists x, lookup n (collect [] a) = Some x /\ In x (live a) /\ ast_name x = n.
Proof.
  intro H. destruct (proj1 collect_both a []) as [C1 C2].
  destruct (lookup n (collect [] a)) as [x|] eqn:E.
  - exists x. split; [reflexivity|]. apply C1 in E as [[H1 H2]|E]; [auto|discriminate].
  - exfalso. apply (C2 n); [right; exact H|exact E].
Qed.

(* ---- decompress after compress ---- *)

Section Decompress.
  Variable g : ast.
  Hypothesis Hwf : wf_graph g.
  Variable m : list (bytes * ast).
  (* every proper descendant's Filename is a key of m, bound to the image of that node *)
  Hypothesis Hm : forall y, In y (below g) -> exists c s, lookup (ast_name y) m = Some c /\ c = fst (compress_gen mk s y).

  Let Hsame := proj1 (proj2 Hwf).
  Let Hclean : clean_tree g := proj2 (proj2 Hwf).

  Lemma kid_in_below a k : In a (nodes g) -> In k (below a) -> In k (below g).
  Proof.
    intros Ha Hk. apply nodes_below in Ha as [->|Ha]; [exact Hk|].
    eapply below_trans; [exact Ha|apply below_nodes; exact Hk].
  Qed.

  Lemma decompress_compress_at : forall n a, In a (nodes g) -> (height a <= n)%nat ->
    forall s, decompress n m (fst (compress_gen mk s a)) = DOk a.
  Proof.
    induction n as [|n IH]; intros [f kids] Ha Hh s; [rewrite height_eq in Hh; lia|].
    rewrite compress_eq. rewrite height_eq in Hh.
    assert (Hrefs : all_refs_kids kids = true).
    { pose proof (all_refs_nodes g _ (proj1 Hwf) Ha) as H. rewrite all_refs_eq in H. exact H. }
    assert (K : forall ks seen, (forall k, In (Some k) ks -> In k (below (Ast f kids))) ->
              all_refs_kids ks = true -> (height_kids ks <= n)%nat ->
              decompress_kids n m (fst (compress_kids mk seen ks)) = (ks, None)).
    { induction ks as [|[y|] r IHr]; intros seen Hsub Hr Hk; cbn [compress_kids]; [reflexivity| |discriminate].
      cbn [all_refs_kids] in Hr. apply andb_true_iff in Hr as [_ Hr]. cbn [height_kids] in Hk.
      assert (Hyb : In y (below g)) by (eapply kid_in_below; [exact Ha|apply Hsub; left; reflexivity]).
      assert (Hyg : In y (nodes g)) by (apply below_nodes; exact Hyb).
      assert (Hsub' : forall k, In (Some k) r -> In k (below (Ast f kids))) by (intros; apply Hsub; right; assumption).
      destruct (mem (ast_name y) seen).
      - specialize (IHr seen Hsub' Hr ltac:(lia)). destruct (compress_kids mk seen r) as [r' s']. cbn [fst] in *.
        cbn [decompress_kids]. unfold resolve. rewrite Hmk.
        destruct (Hm y Hyb) as [c [s0 [Hl ->]]]. rewrite Hl.
        rewrite (IH y Hyg ltac:(lia) s0). rewrite IHr. reflexivity.
      - pose proof (compress_ast_name y (ast_name y :: seen)) as Hn.
        pose proof (IH y Hyg ltac:(lia) (ast_name y :: seen)) as Hy.
        destruct (compress_gen mk (ast_name y :: seen) y) as [y' s1]. cbn [fst] in *.
        specialize (IHr s1 Hsub' Hr ltac:(lia)). destruct (compress_kids mk s1 r) as [r' s2]. cbn [fst] in *.
        cbn [decompress_kids]. unfold resolve. rewrite clean_not_stub by (rewrite Hn; apply Hclean; exact Hyg).
        rewrite Hy, IHr. reflexivity. }
    specialize (K kids s (fun k Hk => kid_below f kids k Hk) Hrefs ltac:(lia)).
    destruct (compress_kids mk s kids) as [k' s']. cbn [fst] in *.
    rewrite decompress_eq, K. reflexivity.
  Qed.
End Decompress.

(* decompress (compress_gen mk g) = g for every well-formed graph (diamonds included), with the
   table UnmarshalRequest collects from the compressed tree itself *)
Theorem decompress_compress_gen g fuel : wf_graph g -> (height g <= fuel)%nat ->
  decompress_top fuel (ctop g) = DOk g.
Proof.
  intros Hwf Hf. unfold decompress_top, ctop.
  destruct Hwf as [Hrefs [Hsame Hclean]].
  apply (decompress_compress_at g (conj Hrefs (conj Hsame Hclean))); [|apply nodes_self|exact Hf].
  intros y Hy.
  pose proof (compress_covers g Hsame Hclean y Hy) as Hin. unfold ctop in Hin.
  destruct (collect_finds_all _ _ Hin) as [c [Hl [Hc Hn]]].
  destruct (compress_local g [] Hclean) as [_ [_ [_ L4]]].
  destruct (L4 c Hc) as [y' [Hy' [s Hs]]].
  exists c, s. split; [exact Hl|].
  assert (y' = y).
  { apply Hsame; [apply below_nodes; exact Hy'|apply below_nodes; exact Hy|].
    rewrite <- Hn, Hs. symmetry. apply compress_ast_name. }
  subst y'. exact Hs.
Qed.

(* every Filename below the root occurs un-stubbed exactly once in the compressed tree, and
   nothing else occurs un-stubbed *)
Theorem compress_no_dup_gen g : wf_graph g ->
  NoDup (map ast_name (live (ctop g))) /\
  (forall n, In n (map ast_name (below g)) <-> In n (map ast_name (live (ctop g)))) /\
  (forall n, In n (map ast_name (below g)) ->
     count_occ (list_eq_dec Byte.byte_eq_dec) (map ast_name (live (ctop g))) n = 1%nat).
Proof.
  intros [Hrefs [Hsame Hclean]].
  destruct (compress_local g [] Hclean) as [_ [L2 [_ L4]]]. fold (ctop g) in L2, L4.
  assert (Hiff : forall n, In n (map ast_name (below g)) <-> In n (map ast_name (live (ctop g)))).
  { intro n. split.
    - intro H. apply in_map_iff in H as [z [<- Hz]]. apply compress_covers; assumption.
    - intro H. apply in_map_iff in H as [x [<- Hx]]. destruct (L4 x Hx) as [y [Hy [s ->]]].
      rewrite compress_ast_name. apply in_map. exact Hy. }
  split; [exact L2|]. split; [exact Hiff|].
  intros n Hn. apply NoDup_count_occ'; [exact L2|apply Hiff; exact Hn].
Qed.
End Mk.

(* ================================================================ 4. codec *)

(* ---- the generic layer ---- *)

Lemma wfind_emit_notin {A} (d : wval -> option A) key lay : forall sl,
  ~ In (snd key) (map snd lay) -> wfind d key (emit lay sl) = None.
Proof.
  induction lay as [|[t id] lay IH]; intros sl Hn; [destruct sl; reflexivity|].
  cbn [map snd In] in Hn. destruct sl as [|[w|] sl]; cbn [emit]; [reflexivity| |].
  - cbn [wfind]. rewrite IH by tauto.
    destruct (Z.eqb_spec (snd key) id) as [E|E]; [exfalso; apply Hn; left; congruence|reflexivity].
  - apply IH. tauto.
Qed.

Lemma wfind_emit {A} (d : wval -> option A) : forall lay sl i key,
  NoDup (map snd lay) -> List.length sl = List.length lay -> nth_error lay i = Some key ->
  wfind d key (emit lay sl) = match nth_error sl i with Some (Some w) => Some (d w) | _ => None end.
Proof.
  induction lay as [|[t id] lay IH]; intros sl i key Hnd Hlen Hk; [destruct i; discriminate|].
  destruct sl as [|o sl]; [discriminate|]. cbn [List.length] in Hlen. injection Hlen as Hlen.
  cbn [map snd] in Hnd. inversion Hnd as [|? ? Hnotin Hnd']; subst.
  destruct i as [|i]; cbn [nth_error] in *.
  - injection Hk as <-. destruct o as [w|]; cbn [emit].
    + cbn [wfind]. rewrite wfind_emit_notin by exact Hnotin. cbn [fst snd].
      rewrite Z.eqb_refl, ttype_eqb_refl. reflexivity.
    + apply wfind_emit_notin. exact Hnotin.
  - assert (Hne : snd key <> id).
    { intro E. apply Hnotin. rewrite <- E. apply in_map. eapply nth_error_In. exact Hk. }
    destruct o as [w|]; cbn [emit]; [|apply IH; assumption].
    cbn [wfind]. rewrite (IH sl i key Hnd' Hlen Hk).
    destruct (nth_error sl i) as [[w'|]|]; try reflexivity;
      (destruct (Z.eqb_spec (snd key) id); [contradiction|reflexivity]).
Qed.

Lemma nodupZ_NoDup l : nodupZ l = true -> NoDup l.
Proof.
  induction l as [|x l IH]; cbn [nodupZ]; intro H; constructor.
  - apply andb_true_iff in H as [H _]. intro Hin. apply negb_true_iff in H.
    assert (existsb (Z.eqb x) l = true) by (apply existsb_exists; exists x; split; [assumption|apply Z.eqb_refl]).
    congruence.
  - apply andb_true_iff in H as [_ H]. auto.
Qed.

Lemma get_emit {A} (d : wval -> option A) lay sl i :
  nodupZ (map snd lay) = true -> List.length sl = List.length lay -> (i <? List.length lay)%nat = true ->
  get d lay i (emit lay sl) = match nth i sl None with Some w => Some (d w) | None => None end.
Proof.
  intros Hnd Hlen Hi. apply Nat.ltb_lt in Hi. unfold get.
  destruct (nth_error lay i) as [key|] eqn:Ek; [|apply nth_error_None in Ek; lia].
  rewrite (nth_error_nth _ _ nokey Ek).
  rewrite (wfind_emit d lay sl i key (nodupZ_NoDup _ Hnd) Hlen Ek).
  destruct (nth_error sl i) as [o|] eqn:Es.
  - rewrite (nth_error_nth _ _ None Es). destruct o; reflexivity.
  - apply nth_error_None in Es. lia.
Qed.

Lemma mapo_map {A} (d : wval -> option A) (e : A -> wval) l :
  Forall (fun x => d (e x) = Some x) l -> mapo d (map e l) = Some l.
Proof.
  induction 1 as [|x l Hx _ IH]; [reflexivity|]. cbn [map mapo]. rewrite Hx, IH. reflexivity.
Qed.

Lemma mapo_map_all {A} (d : wval -> option A) (e : A -> wval) l :
  (forall x, d (e x) = Some x) -> mapo d (map e l) = Some l.
Proof. intro H. apply mapo_map. apply Forall_forall. intros; apply H. Qed.

Lemma d_list_structs {A} (d : wval -> option A) (e : A -> wval) l :
  (forall x, d (e x) = Some x) -> d_list d (w_structs e l) = Some l.
Proof. intro H. unfold d_list, w_structs. apply mapo_map_all. exact H. Qed.

Lemma d_list_strs l : d_list d_str (w_strs l) = Some l.
Proof. unfold d_list, w_strs. apply mapo_map_all. reflexivity. Qed.

Ltac gets1 := match goal with |- context[@get ?A ?d ?l ?i (emit ?l ?sl)] => rewrite (get_emit d l sl i) by reflexivity end.
Ltac gets := repeat (first [gets1 | progress (cbn [nth])]).

(* ---- enumerations ---- *)

Lemma cat_roundtrip c : cat_of_z (cat_z c) = Some c.
Proof. destruct c; reflexivity. Qed.
Lemma req_roundtrip r : req_of_z (req_z r) = Some r.
Proof. destruct r; reflexivity. Qed.
Lemma kind_roundtrip k : kind_of_name (sl_kind_name k) = Some k.
Proof. destruct k; reflexivity. Qed.

(* ---- nodes ---- *)

Lemma reference_rt r : dec_reference (enc_reference r) = Some r.
Proof. destruct r as [n i]. unfold dec_reference, enc_reference, wstruct. gets. reflexivity. Qed.

Lemma annotation_rt a : dec_annotation (enc_annotation a) = Some a.
Proof.
  destruct a as [k v]. unfold dec_annotation, enc_annotation, wstruct. gets.
  cbn [dflt d_str an_key an_values]. rewrite d_list_strs. reflexivity.
Qed.

Lemma annos_rt l : dec_annos (enc_annos l) = Some l.
Proof. apply d_list_structs. apply annotation_rt. Qed.

Lemma ty_rt : forall t, dec_ty (enc_ty t) = Some t.
Proof.
  induction t as [n k v c an cat r td IHk IHv] using ty_ind'.
  cbn [enc_ty]. unfold wstruct. cbn [dec_ty]. gets.
  cbn [dflt d_str d_cat]. rewrite annos_rt, cat_roundtrip.
  destruct k as [k|]; [rewrite (IHk k eq_refl)|]; (destruct v as [v|]; [rewrite (IHv v eq_refl)|]);
    (destruct r as [r|]; cbn [omap]; [rewrite reference_rt|]); (destruct td; cbn [omap opt d_bool]; reflexivity).
Qed.

Lemma extra_rt e : dec_extra (enc_extra e) = Some e.
Proof. destruct e as [b i n s]. unfold dec_extra, enc_extra, wstruct. gets. reflexivity. Qed.

Lemma cv_rt : forall c, dec_cv (enc_cv c) = Some c.
Proof.
  induction c as [b|z|s|s e|l IH|l IH] using const_value_ind'; cbn [enc_cv]; unfold cv, tv, wstruct; cbn [map seq Nat.eqb dec_cv].
  all: gets; cbn [dflt d_i32 omap opt need]; try (destruct e as [e|]; cbn [omap]; [rewrite extra_rt|]); cbn [opt need]; gets;
    cbn [count_some filter List.length Nat.eqb negb Z.eqb Pos.eqb need d_dbl d_i64 d_str].
  - rewrite N2Z.id. reflexivity.
  - reflexivity.
  - reflexivity.
  - reflexivity.
  - reflexivity.
  - unfold d_list. rewrite mapo_map by exact IH. reflexivity.
  - unfold d_list.
    rewrite mapo_map with (e := fun kv => WStruct (emit lay_mapconst [Some (enc_cv (fst kv)); Some (enc_cv (snd kv))])).
    + reflexivity.
    + eapply Forall_impl; [|exact IH]. intros [k v] [Hk Hv]. cbn [fst snd] in *. gets. rewrite Hk, Hv. reflexivity.
Qed.

Lemma namespace_rt n : dec_namespace (enc_namespace n) = Some n.
Proof.
  destruct n as [l n a]. unfold dec_namespace, enc_namespace, wstruct. gets.
  cbn [dflt d_str ns_language ns_name ns_annos]. rewrite annos_rt. reflexivity.
Qed.

Lemma typedef_rt t : dec_typedef (enc_typedef t) = Some t.
Proof.
  destruct t as [t a an c]. unfold dec_typedef, enc_typedef, wstruct. gets.
  cbn [dflt need d_str td_type td_alias td_annos td_comments]. rewrite ty_rt, annos_rt. reflexivity.
Qed.

Lemma enum_value_rt v : dec_enum_value (enc_enum_value v) = Some v.
Proof.
  destruct v as [n v an c]. unfold dec_enum_value, enc_enum_value, wstruct. gets.
  cbn [dflt d_str d_i64 ev_name ev_value ev_annos ev_comments]. rewrite annos_rt. reflexivity.
Qed.

Lemma enum_rt e : dec_enum (enc_enum e) = Some e.
Proof.
  destruct e as [n v an c]. unfold dec_enum, enc_enum, wstruct. gets.
  cbn [dflt d_str en_name en_values en_annos en_comments].
  rewrite annos_rt, (d_list_structs _ _ _ enum_value_rt). reflexivity.
Qed.

Lemma constant_rt c : dec_constant (enc_constant c) = Some c.
Proof.
  destruct c as [n t v an c]. unfold dec_constant, enc_constant, wstruct. gets.
  cbn [dflt need d_str co_name co_type co_value co_annos co_comments]. rewrite ty_rt, cv_rt, annos_rt. reflexivity.
Qed.

Lemma field_rt f : dec_field (enc_field f) = Some f.
Proof.
  destruct f as [i n r t d an c]. unfold dec_field, enc_field, wstruct. gets.
  cbn [dflt need d_str d_i32 d_req fd_id fd_name fd_req fd_type fd_default fd_annos fd_comments].
  rewrite ty_rt, annos_rt, req_roundtrip.
  destruct d as [d|]; cbn [omap opt]; [rewrite cv_rt|]; reflexivity.
Qed.

Lemma fields_rt l : dec_fields (enc_fields l) = Some l.
Proof. apply d_list_structs. apply field_rt. Qed.

Lemma struct_like_rt s : dec_struct_like (enc_struct_like s) = Some s.
Proof.
  destruct s as [k n f an c]. unfold dec_struct_like, enc_struct_like, wstruct. gets.
  cbn [dflt need d_str d_kind sl_category sl_name sl_fields sl_annos sl_comments].
  rewrite kind_roundtrip, fields_rt, annos_rt. reflexivity.
Qed.

Lemma function_rt f : dec_function (enc_function f) = Some f.
Proof.
  destruct f as [n o v t a th an c]. unfold dec_function, enc_function, wstruct. gets.
  cbn [dflt need d_str d_bool fn_name fn_oneway fn_void fn_type fn_args fn_throws fn_annos fn_comments].
  rewrite ty_rt, !fields_rt, annos_rt. reflexivity.
Qed.

Lemma service_rt s : dec_service (enc_service s) = Some s.
Proof.
  destruct s as [n e f an r c]. unfold dec_service, enc_service, wstruct. gets.
  cbn [dflt need d_str sv_name sv_extends sv_functions sv_annos sv_ref sv_comments].
  rewrite (d_list_structs _ _ _ function_rt), annos_rt.
  destruct r as [r|]; cbn [omap opt]; [rewrite reference_rt|]; reflexivity.
Qed.

Lemma pairs_rt l : dec_pairs (map (fun kv : bytes * category => (WStr (fst kv), WI32 (cat_z (snd kv)))) l) = Some l.
Proof.
  induction l as [|[k c] l IH]; [reflexivity|]. cbn [map dec_pairs fst snd d_str d_cat].
  rewrite cat_roundtrip, IH. reflexivity.
Qed.

Lemma name2cat_rt m : dec_name2cat (enc_name2cat m) = Some (match m with Some l => l | None => [] end).
Proof. unfold dec_name2cat, enc_name2cat. apply pairs_rt. Qed.

(* kids of a tree run parallel to its includes *)
Fixpoint wt_kids (l : list (option ast)) : bool :=
  match l with [] => true | Some k :: r => wt_ast k && wt_kids r | None :: r => wt_kids r end.
Lemma wt_ast_eq f kids :
  wt_ast (Ast f kids) =
  (List.length kids =? List.length (f_includes f))%nat &&
  forallb (fun i => match in_ref i with None => true | Some _ => false end) (f_includes f) && wt_kids kids.
Proof. reflexivity. Qed.

Fixpoint enc_incs' (is : list include) (ks : list (option ast)) : list wval :=
  match is, ks with
  | i :: is', k :: ks' =>
      wstruct lay_include [Some (WStr (in_path i)); match k with Some x => Some (enc_ast x) | None => None end;
                           omap WBool (in_used i)] :: enc_incs' is' ks'
  | _, _ => []
  end.
Lemma enc_ast_eq f kids :
  enc_ast (Ast f kids) =
  wstruct lay_thrift
    [Some (WStr (f_filename f)); Some (WList T_STRUCT (enc_incs' (f_includes f) kids));
     Some (w_strs (f_cpp_includes f)); Some (w_structs enc_namespace (f_namespaces f));
     Some (w_structs enc_typedef (f_typedefs f)); Some (w_structs enc_constant (f_constants f));
     Some (w_structs enc_enum (f_enums f)); Some (w_structs enc_struct_like (f_structs f));
     Some (w_structs enc_struct_like (f_unions f)); Some (w_structs enc_struct_like (f_exceptions f));
     Some (w_structs enc_service (f_services f)); Some (enc_name2cat (f_name2cat f))].
Proof.
  cbn [enc_ast].
  match goal with |- context[WList T_STRUCT (?g (f_includes f) kids)] =>
    assert (E : forall ks is, g is ks = enc_incs' is ks) end.
  { induction ks as [|k r IH]; intros [|i is]; cbn [enc_incs']; try reflexivity. f_equal. apply IH. }
  rewrite E. reflexivity.
Qed.

Lemma norm_ast_eq f kids :
  norm_ast (Ast f kids) = Ast (norm_file f) (map (fun k => match k with Some x => Some (norm_ast x) | None => None end) kids).
Proof. reflexivity. Qed.

Lemma ast_rt : forall a, wt_ast a = true -> dec_ast (enc_ast a) = Some (norm_ast a).
Proof.
  induction a as [f kids IH] using ast_ind'. intro Hwt.
  rewrite wt_ast_eq in Hwt. apply andb_true_iff in Hwt as [Hwt Hk]. apply andb_true_iff in Hwt as [Hlen Hrefs].
  apply Nat.eqb_eq in Hlen.
  rewrite enc_ast_eq, norm_ast_eq. unfold wstruct. cbn [dec_ast]. gets. cbn [dflt opt d_str].
  rewrite d_list_strs, (d_list_structs _ _ _ namespace_rt), (d_list_structs _ _ _ typedef_rt),
    (d_list_structs _ _ _ constant_rt), (d_list_structs _ _ _ enum_rt), !(d_list_structs _ _ _ struct_like_rt),
    (d_list_structs _ _ _ service_rt), name2cat_rt.
  assert (Hincs : d_list (dec_include dec_ast) (WList T_STRUCT (enc_incs' (f_includes f) kids)) =
                  Some (combine (f_includes f) (map (fun k => match k with Some x => Some (norm_ast x) | None => None end) kids))).
  { unfold d_list. revert Hlen Hrefs Hk IH. generalize (f_includes f) as is.
    induction kids as [|k r IHr]; intros [|i is] Hlen Hrefs Hk IH; try discriminate; [reflexivity|].
    cbn [List.length] in Hlen. injection Hlen as Hlen.
    cbn [forallb] in Hrefs. apply andb_true_iff in Hrefs as [Hi Hrefs].
    inversion IH as [|? ? IHk IHr']; subst.
    cbn [enc_incs' mapo map combine]. unfold wstruct at 1. unfold dec_include at 1. gets. cbn [dflt d_str].
    assert (Hkk : wt_kids r = true /\ match k with Some x => wt_ast x = true | None => True end).
    { destruct k; cbn [wt_kids] in Hk; [apply andb_true_iff in Hk as [? ?]; auto|auto]. }
    destruct Hkk as [Hkr Hkx].
    rewrite (IHr is Hlen Hrefs Hkr IHr').
    destruct i as [p rf u]. cbn [in_ref] in Hi. destruct rf; [discriminate|]. cbn [in_path in_used].
    destruct k as [x|]; [rewrite (IHk Hkx)|]; cbn [opt]; (destruct u; cbn [omap opt d_bool]; reflexivity). }
  rewrite Hincs. cbn [dflt]. unfold norm_file. f_equal. f_equal.
  - f_equal. revert Hlen. generalize (f_includes f). clear. induction kids as [|k r IH]; intros [|i is] H; try discriminate; [reflexivity|].
    cbn [map combine fst]. f_equal. apply IH. cbn in H. lia.
  - revert Hlen. generalize (f_includes f). clear. induction kids as [|k r IH]; intros [|i is] H; try discriminate; [reflexivity|].
    cbn [map combine snd]. f_equal. apply IH. cbn in H. lia.
Qed.

Lemma request_rt r : wt_ast (rq_ast r) = true -> dec_request (enc_request r) = Some (norm_request r).
Proof.
  destruct r as [v g p l o rc a]. cbn [rq_ast]. intro H. unfold dec_request, enc_request, wstruct. gets.
  cbn [need d_str d_bool rq_version rq_gen_params rq_plugin_params rq_language rq_output_path rq_recursive rq_ast].
  rewrite !d_list_strs, (ast_rt a H). reflexivity.
Qed.

(* ---- the theorems for the stub the code really writes ---- *)

Theorem decompress_compress g fuel : wf_graph g -> (height g <= fuel)%nat ->
  decompress_top fuel (compress_top g) = DOk g.
Proof. apply (decompress_compress_gen stub stub_target_stub). Qed.

Theorem compress_no_dup g : wf_graph g ->
  NoDup (map ast_name (live (compress_top g))) /\
  (forall n, In n (map ast_name (below g)) <-> In n (map ast_name (live (compress_top g)))) /\
  (forall n, In n (map ast_name (below g)) ->
     count_occ (list_eq_dec Byte.byte_eq_dec) (map ast_name (live (compress_top g))) n = 1%nat).
Proof. apply (compress_no_dup_gen stub stub_target_stub). Qed.

(* ---- wfb is wf ---- *)

Lemma wfb_wf : forall v, wfb v = true -> wf v.
Proof.
  fix IH 1. intros [b|z|z|z|z|z|s|fs|kt vt kvs|et l|et l]; cbn [wfb wf]; intro H.
  - exact I.
  - apply in_srangeb_spec. exact H.
  - apply andb_true_iff in H as [H1 H2]. unfold in_range. change (256 ^ Z.of_nat 8) with 18446744073709551616. lia.
  - apply in_srangeb_spec. exact H.
  - apply in_srangeb_spec. exact H.
  - apply in_srangeb_spec. exact H.
  - apply in_srangeb_spec. exact H.
  - induction fs as [|[[t id] x] r IHr]; [exact I|].
    apply andb_true_iff in H as [H Hr]. apply andb_true_iff in H as [H Hx]. apply andb_true_iff in H as [Ht Hid].
    split; [|exact (IHr Hr)]. split; [apply ttype_eqb_eq; exact Ht|]. split; [apply in_srangeb_spec; exact Hid|apply IH; exact Hx].
  - apply andb_true_iff in H as [Hn H]. split; [apply in_srangeb_spec; exact Hn|]. clear Hn.
    induction kvs as [|[k x] r IHr]; [exact I|].
    apply andb_true_iff in H as [H Hr]. apply andb_true_iff in H as [H Hx]. apply andb_true_iff in H as [H Hk].
    apply andb_true_iff in H as [Hkt Hvt].
    split; [|exact (IHr Hr)]. repeat split; [apply ttype_eqb_eq; exact Hkt|apply ttype_eqb_eq; exact Hvt|apply IH; exact Hk|apply IH; exact Hx].
  - apply andb_true_iff in H as [Hn H]. split; [apply in_srangeb_spec; exact Hn|]. clear Hn.
    induction l as [|x r IHr]; [exact I|].
    apply andb_true_iff in H as [H Hr]. apply andb_true_iff in H as [Ht Hx].
    split; [|exact (IHr Hr)]. split; [apply ttype_eqb_eq; exact Ht|apply IH; exact Hx].
  - apply andb_true_iff in H as [Hn H]. split; [apply in_srangeb_spec; exact Hn|]. clear Hn.
    induction l as [|x r IHr]; [exact I|].
    apply andb_true_iff in H as [H Hr]. apply andb_true_iff in H as [Ht Hx].
    split; [|exact (IHr Hr)]. split; [apply ttype_eqb_eq; exact Ht|apply IH; exact Hx].
Qed.

(* ---- normalisation commutes with compression ---- *)

Lemma norm_name a : ast_name (norm_ast a) = ast_name a.
Proof. destruct a as [f kids]. reflexivity. Qed.

Definition norm_kids (ks : list (option ast)) : list (option ast) :=
  map (fun k => match k with Some x => Some (norm_ast x) | None => None end) ks.

Lemma norm_kids_some k r : norm_kids (Some k :: r) = Some (norm_ast k) :: norm_kids r.
Proof. reflexivity. Qed.
Lemma norm_kids_none r : norm_kids (None :: r) = None :: norm_kids r.
Proof. reflexivity. Qed.

Lemma compress_norm_both mk :
  (forall a, forall s, norm_ast (fst (compress_gen mk s a)) = fst (compress_gen (fun n => norm_ast (mk n)) s (norm_ast a)) /\
                       snd (compress_gen mk s a) = snd (compress_gen (fun n => norm_ast (mk n)) s (norm_ast a))) /\
  (forall ks, forall s, norm_kids (fst (compress_kids mk s ks)) = fst (compress_kids (fun n => norm_ast (mk n)) s (norm_kids ks)) /\
                        snd (compress_kids mk s ks) = snd (compress_kids (fun n => norm_ast (mk n)) s (norm_kids ks))).
Proof.
  apply ast_kids_ind.
  - intros f kids IH s. rewrite norm_ast_eq, !compress_eq. fold (norm_kids kids).
    destruct (IH s) as [H1 H2].
    destruct (compress_kids mk s kids) as [k1 s1]. destruct (compress_kids _ s (norm_kids kids)) as [k2 s2].
    cbn [fst snd] in *. rewrite norm_ast_eq. fold (norm_kids k1). rewrite H1, H2. split; reflexivity.
  - intros s. split; reflexivity.
  - intros k r IHk IHr s. rewrite norm_kids_some. cbn [compress_kids]. rewrite norm_name.
    destruct (mem (ast_name k) s).
    + destruct (IHr s) as [H1 H2].
      destruct (compress_kids mk s r) as [r1 s1]. destruct (compress_kids _ s (norm_kids r)) as [r2 s2].
      cbn [fst snd] in *. rewrite norm_kids_some, H1, H2. split; reflexivity.
    + destruct (IHk (ast_name k :: s)) as [K1 K2].
      destruct (compress_gen mk (ast_name k :: s) k) as [k1 s1].
      destruct (compress_gen _ (ast_name k :: s) (norm_ast k)) as [k2 s2]. cbn [fst snd] in K1, K2. subst s2 k2.
      destruct (IHr s1) as [H1 H2].
      destruct (compress_kids mk s1 r) as [r1 s3]. destruct (compress_kids _ s1 (norm_kids r)) as [r2 s4].
      cbn [fst snd] in *. rewrite norm_kids_some, H1, H2. split; reflexivity.
  - intros r IHr s. rewrite norm_kids_none. cbn [compress_kids].
    destruct (IHr s) as [H1 H2].
    destruct (compress_kids mk s r) as [r1 s1]. destruct (compress_kids _ s (norm_kids r)) as [r2 s2].
    cbn [fst snd] in *. rewrite norm_kids_none, H1, H2. split; reflexivity.
Qed.

Lemma nodes_norm_both :
  (forall a, nodes (norm_ast a) = map norm_ast (nodes a)) /\
  (forall ks, nodes_kids (norm_kids ks) = map norm_ast (nodes_kids ks)).
Proof.
  apply ast_kids_ind.
  - intros f kids IH. rewrite norm_ast_eq, !nodes_eq. fold (norm_kids kids). rewrite IH. cbn [map]. rewrite norm_ast_eq. reflexivity.
  - reflexivity.
  - intros k r IHk IHr. rewrite norm_kids_some. cbn [nodes_kids]. rewrite IHk, IHr, map_app. reflexivity.
  - intros r IHr. rewrite norm_kids_none. cbn [nodes_kids]. exact IHr.
Qed.

Lemma height_norm_both :
  (forall a, height (norm_ast a) = height a) /\ (forall ks, height_kids (norm_kids ks) = height_kids ks).
Proof.
  apply ast_kids_ind.
  - intros f kids IH. rewrite norm_ast_eq, !height_eq. fold (norm_kids kids). rewrite IH. reflexivity.
  - reflexivity.
  - intros k r IHk IHr. rewrite norm_kids_some. cbn [height_kids]. rewrite IHk, IHr. reflexivity.
  - intros r IHr. rewrite norm_kids_none. cbn [height_kids]. exact IHr.
Qed.

Lemma refs_norm_both :
  (forall a, all_refs_set (norm_ast a) = all_refs_set a) /\ (forall ks, all_refs_kids (norm_kids ks) = all_refs_kids ks).
Proof.
  apply ast_kids_ind.
  - intros f kids IH. rewrite norm_ast_eq, !all_refs_eq. fold (norm_kids kids). exact IH.
  - reflexivity.
  - intros k r IHk IHr. rewrite norm_kids_some. cbn [all_refs_kids]. rewrite IHk, IHr. reflexivity.
  - intros r IHr. reflexivity.
Qed.

Lemma wf_graph_norm g : wf_graph g -> wf_graph (norm_ast g).
Proof.
  intros [Hr [Hs Hc]]. split; [rewrite (proj1 refs_norm_both); exact Hr|]. split.
  - intros x y Hx Hy Hn. rewrite (proj1 nodes_norm_both) in Hx, Hy.
    apply in_map_iff in Hx as [x0 [<- Hx]]. apply in_map_iff in Hy as [y0 [<- Hy]].
    rewrite !norm_name in Hn. rewrite (Hs x0 y0 Hx Hy Hn). reflexivity.
  - intros x Hx. rewrite (proj1 nodes_norm_both) in Hx. apply in_map_iff in Hx as [x0 [<- Hx]].
    rewrite norm_name. apply Hc. exact Hx.
Qed.

(* ---- compression keeps trees well-shaped ---- *)

Lemma wt_compress_both :
  (forall a, forall s, wt_ast a = true -> wt_ast (fst (compress s a)) = true) /\
  (forall ks, forall s, wt_kids ks = true ->
     wt_kids (fst (compress_kids stub s ks)) = true /\ List.length (fst (compress_kids stub s ks)) = List.length ks).
Proof.
  apply ast_kids_ind.
  - intros f kids IH s H. unfold compress. rewrite compress_eq. rewrite wt_ast_eq in H.
    apply andb_true_iff in H as [H Hk]. destruct (IH s Hk) as [I1 I2].
    destruct (compress_kids stub s kids) as [k' s']. cbn [fst] in *. rewrite wt_ast_eq, I1, I2, H. reflexivity.
  - intros s _. split; reflexivity.
  - intros k r IHk IHr s H. cbn [wt_kids] in H. apply andb_true_iff in H as [Hk Hr]. cbn [compress_kids].
    destruct (mem (ast_name k) s).
    + destruct (IHr s Hr) as [I1 I2]. destruct (compress_kids stub s r) as [r' s']. cbn [fst] in *.
      cbn [wt_kids List.length]. rewrite I1, I2. split; reflexivity.
    + specialize (IHk (ast_name k :: s) Hk). unfold compress in IHk.
      destruct (compress_gen stub (ast_name k :: s) k) as [k' s1]. cbn [fst] in *.
      destruct (IHr s1 Hr) as [I1 I2]. destruct (compress_kids stub s1 r) as [r' s2]. cbn [fst] in *.
      cbn [wt_kids List.length]. rewrite IHk, I1, I2. split; reflexivity.
  - intros r IHr s H. cbn [wt_kids] in H. cbn [compress_kids].
    destruct (IHr s H) as [I1 I2]. destruct (compress_kids stub s r) as [r' s']. cbn [fst] in *.
    cbn [wt_kids List.length]. rewrite I1, I2. split; reflexivity.
Qed.

(* ---- the request through bytes ---- *)

Lemma enc_request_struct r : exists fs, enc_request r = WStruct fs.
Proof. unfold enc_request, wstruct. eexists. reflexivity. Qed.

(* what a plugin decodes is the request that was marshalled (the nil Name2Category map of a file
   comes back as an empty map: norm_request), for every request whose strings, lists and
   integers fit their wire widths *)
Theorem request_roundtrip r fuel :
  wt_ast (rq_ast r) = true -> wfb (enc_request r) = true ->
  unmarshal_request fuel (marshal_request r) = UOk (norm_request r).
Proof.
  intros Hwt Hwf. unfold unmarshal_request, marshal_request.
  destruct (enc_request_struct r) as [fs Hfs].
  assert (Hd : dec_struct (enc (enc_request r)) = Some (enc_request r, [])).
  { rewrite Hfs. rewrite <- (app_nil_r (enc (WStruct fs))). apply dec_struct_enc. rewrite <- Hfs. apply wfb_wf. exact Hwf. }
  rewrite Hd, (request_rt r Hwt). rewrite Hfs, trailer_absent_on_plain. reflexivity.
Qed.

Lemma with_ast_enc r a : rq_ast (with_ast r a) = a.
Proof. reflexivity. Qed.

Theorem request_roundtrip_compressed r fuel :
  wf_graph (rq_ast r) -> wt_ast (rq_ast r) = true ->
  wfb (enc_request (with_ast r (compress_top (rq_ast r)))) = true ->
  (height (rq_ast r) <= fuel)%nat ->
  unmarshal_request fuel (marshal_request_compressed r) = UOk (norm_request r).
Proof.
  intros Hg Hwt Hwf Hh. unfold unmarshal_request, marshal_request_compressed, marshal_request.
  set (rc := with_ast r (compress_top (rq_ast r))) in *.
  destruct (enc_request_struct rc) as [fs Hfs].
  assert (Hd : forall rest, dec_struct (enc (enc_request rc) ++ rest) = Some (enc_request rc, rest)).
  { intro rest. rewrite Hfs. apply dec_struct_enc. rewrite <- Hfs. apply wfb_wf. exact Hwf. }
  unfold append_trailer. rewrite Hd.
  assert (Hwtc : wt_ast (rq_ast rc) = true).
  { unfold rc. rewrite with_ast_enc. unfold compress_top. apply (proj1 wt_compress_both). exact Hwt. }
  rewrite (request_rt rc Hwtc).
  pose proof (trailer_roundtrip (enc (enc_request rc)) feature_compress_include feature_compress_include ltac:(unfold feature_compress_include; lia)) as Ht.
  unfold append_trailer in Ht. rewrite Ht. change (Z.land feature_compress_include feature_compress_include =? feature_compress_include) with true.
  cbn [norm_request rq_ast]. unfold rc at 1. rewrite with_ast_enc.
  unfold compress_top, compress. rewrite (proj1 (proj1 (compress_norm_both stub) (rq_ast r) [])).
  pose proof (decompress_compress_gen (fun n => norm_ast (stub n))
                (fun n => eq_trans (f_equal (strip_prefix ref_prefix) (norm_name (stub n))) (stub_target_stub n))
                (norm_ast (rq_ast r)) fuel (wf_graph_norm _ Hg)) as Hdc.
  rewrite (proj1 height_norm_both) in Hdc. unfold ctop in Hdc. rewrite (Hdc Hh).
  destruct r; reflexivity.
Qed.

(* ================================================================ 6. the response reader *)

Lemma len_ok_srange {A} (l : list A) : len_ok l = true -> in_srange 4 (Z.of_nat (List.length l)).
Proof. unfold len_ok. apply in_srangeb_spec. Qed.

Lemma read_str_enc s r : len_ok s = true -> read_str (enc (WStr s) ++ r) = Some (s, r).
Proof.
  intro H. pose proof (len_ok_srange s H) as Hr. apply in_srange_4 in Hr. unfold read_str. cbn [enc]. rewrite <- app_assoc.
  rewrite get_s_put by (try (apply in_srange_4; assumption); lia). unfold take_z.
  destruct (Z.ltb_spec (Z.of_nat (List.length s)) 0) as [E|_]; [lia|]. cbn [orb].
  rewrite app_length.
  destruct (Z.ltb_spec (Z.of_nat (List.length s + List.length r)) (Z.of_nat (List.length s))) as [E|_]; [lia|].
  rewrite Nat2Z.id, firstn_app, Nat.sub_diag, firstn_all, skipn_app, Nat.sub_diag, skipn_all. cbn [firstn skipn].
  rewrite app_nil_r. reflexivity.
Qed.

Lemma get1_code t r : get_be 1 (put_be 1 (code t) ++ r) = Some (code t, r).
Proof. apply get_put. apply code_in_range1. Qed.

Lemma gets2 id r : -32768 <= id < 32768 -> get_s 2 (put_be 2 id ++ r) = Some (id, r).
Proof. intro H. apply get_s_put; [lia|]. apply in_srange_2. exact H. Qed.

Lemma wsize_pos v : (1 <= wsize v)%nat.
Proof. destruct v; cbn [wsize]; try lia. destruct fs as [|[[t i] x] r]; lia. Qed.

Lemma enc_list_go_len l : (List.length l <= List.length (enc_list_go l))%nat.
Proof.
  induction l as [|x l IH]; [cbn; lia|].
  change (enc_list_go (x :: l)) with (enc x ++ enc_list_go l).
  rewrite app_length, enc_length. pose proof (wsize_pos x). cbn [List.length]. lia.
Qed.

Lemma enc_list_go_map {A} (e : A -> wval) l :
  enc_list_go (map e l) = fold_right (fun x acc => enc (e x) ++ acc) [] l.
Proof. induction l as [|x l IH]; [reflexivity|]. cbn [map]. change (enc_list_go (e x :: map e l)) with (enc (e x) ++ enc_list_go (map e l)). rewrite IH. reflexivity. Qed.

(* ReadListBegin on a truthful header *)
Lemma read_list_begin_enc et (l : list wval) r : len_ok l = true ->
  read_list_begin (put_be 1 (code et) ++ put_be 4 (Z.of_nat (List.length l)) ++ enc_list_go l ++ r) =
  Some (List.length l, enc_list_go l ++ r).
Proof.
  intro H. pose proof (len_ok_srange l H) as Hr. apply in_srange_4 in Hr. unfold read_list_begin.
  assert (E : put_be 1 (code et) = [byte_of_Z (code et)]).
  { cbn [put_be]. change (256 ^ Z.of_nat 0) with 1. rewrite Z.div_1_r. reflexivity. }
  rewrite E. cbn [app]. rewrite get_s_put by (try (apply in_srange_4; assumption); lia).
  destruct (Z.ltb_spec (Z.of_nat (List.length l)) 0) as [E1|_]; [lia|]. cbn [orb].
  rewrite app_length. pose proof (enc_list_go_len l).
  destruct (Z.ltb_spec (Z.of_nat (List.length (enc_list_go l) + List.length r)) (Z.of_nat (List.length l))) as [E2|_]; [lia|].
  rewrite Nat2Z.id. reflexivity.
Qed.

(* ---- Generated ---- *)

Lemma rg_stop n g rest : read_generated (S n) g true (x00 :: rest) = Some (g, rest).
Proof. reflexivity. Qed.

Lemma rg_content n g seen s rest : len_ok s = true ->
  read_generated (S n) g seen (put_be 1 (code T_STRING) ++ put_be 2 1 ++ enc (WStr s) ++ rest) =
  read_generated n (mkgenerated s (gn_name g) (gn_ip g)) true rest.
Proof.
  intro H. cbn [read_generated]. rewrite get1_code. change (code T_STRING =? 0) with false. cbn iota.
  rewrite gets2 by lia.
  change (key_is (nth 0 lay_generated nokey) (code T_STRING) 1) with true. cbn iota.
  rewrite read_str_enc by exact H. reflexivity.
Qed.

Lemma rg_name n g seen s rest : len_ok s = true ->
  read_generated (S n) g seen (put_be 1 (code T_STRING) ++ put_be 2 2 ++ enc (WStr s) ++ rest) =
  read_generated n (mkgenerated (gn_content g) (Some s) (gn_ip g)) seen rest.
Proof.
  intro H. cbn [read_generated]. rewrite get1_code. change (code T_STRING =? 0) with false. cbn iota.
  rewrite gets2 by lia.
  change (key_is (nth 0 lay_generated nokey) (code T_STRING) 2) with false.
  change (key_is (nth 1 lay_generated nokey) (code T_STRING) 2) with true. cbn iota.
  rewrite read_str_enc by exact H. reflexivity.
Qed.

Lemma rg_ip n g seen s rest : len_ok s = true ->
  read_generated (S n) g seen (put_be 1 (code T_STRING) ++ put_be 2 3 ++ enc (WStr s) ++ rest) =
  read_generated n (mkgenerated (gn_content g) (gn_name g) (Some s)) seen rest.
Proof.
  intro H. cbn [read_generated]. rewrite get1_code. change (code T_STRING =? 0) with false. cbn iota.
  rewrite gets2 by lia.
  change (key_is (nth 0 lay_generated nokey) (code T_STRING) 3) with false.
  change (key_is (nth 1 lay_generated nokey) (code T_STRING) 3) with false.
  change (key_is (nth 2 lay_generated nokey) (code T_STRING) 3) with true. cbn iota.
  rewrite read_str_enc by exact H. reflexivity.
Qed.

Lemma generated_rt g rest : generated_ok g = true ->
  read_generated (S (List.length (enc (enc_generated g) ++ rest))) generated0 false (enc (enc_generated g) ++ rest) = Some (g, rest).
Proof.
  destruct g as [c nm ip]. unfold generated_ok. cbn [gn_content gn_name gn_ip]. intro H.
  apply andb_true_iff in H as [H Hip]. apply andb_true_iff in H as [Hc Hnm].
  assert (Hlen : (4 <= List.length (enc (enc_generated (mkgenerated c nm ip)) ++ rest))%nat).
  { rewrite app_length, enc_length. unfold enc_generated, wstruct. cbn [gn_content gn_name gn_ip].
    destruct nm, ip; cbn [emit lay_generated omap wsize]; lia. }
  remember (List.length (enc (enc_generated (mkgenerated c nm ip)) ++ rest)) as n eqn:En. clear En.
  do 4 (destruct n as [|n]; [lia|]).
  unfold enc_generated, wstruct. cbn [gn_content gn_name gn_ip].
  destruct nm as [nm|], ip as [ip|]; cbn [omap emit lay_generated oall] in *;
    rewrite enc_struct_unfold, ?enc_fields_go_cons; change (enc_fields_go []) with [x00]; rewrite <- ?app_assoc.
  - rewrite rg_content, rg_name, rg_ip by assumption. apply rg_stop.
  - rewrite rg_content, rg_name by assumption. apply rg_stop.
  - rewrite rg_content, rg_ip by assumption. apply rg_stop.
  - rewrite rg_content by assumption. apply rg_stop.
Qed.

(* ---- Response ---- *)

Lemma rr_stop n p rest : read_response (S n) p (x00 :: rest) = Some (p, rest).
Proof. reflexivity. Qed.

Lemma rr_error n p s rest : len_ok s = true ->
  read_response (S n) p (put_be 1 (code T_STRING) ++ put_be 2 1 ++ enc (WStr s) ++ rest) =
  read_response n (mkresp (Some s) (rs_contents p) (rs_warnings p)) rest.
Proof.
  intro H. cbn [read_response]. rewrite get1_code. change (code T_STRING =? 0) with false. cbn iota.
  rewrite gets2 by lia.
  change (key_is (nth 0 lay_response nokey) (code T_STRING) 1) with true. cbn iota.
  rewrite read_str_enc by exact H. reflexivity.
Qed.

Lemma rr_contents n p gs rest : len_ok gs = true -> forallb generated_ok gs = true ->
  read_response (S n) p (put_be 1 (code T_LIST) ++ put_be 2 2 ++ enc (w_structs enc_generated gs) ++ rest) =
  read_response n (mkresp (rs_error p) (Some gs) (rs_warnings p)) rest.
Proof.
  intros Hl Hg. cbn [read_response]. rewrite get1_code. change (code T_LIST =? 0) with false. cbn iota.
  rewrite gets2 by lia.
  change (key_is (nth 0 lay_response nokey) (code T_LIST) 2) with false.
  change (key_is (nth 1 lay_response nokey) (code T_LIST) 2) with true. cbn iota.
  unfold w_structs. rewrite enc_list_unfold, <- !app_assoc.
  assert (Hl' : len_ok (map enc_generated gs) = true) by (unfold len_ok in *; rewrite map_length; exact Hl).
  rewrite read_list_begin_enc by exact Hl'. rewrite map_length, enc_list_go_map.
  rewrite (rep_enc (fun b => read_generated (S (List.length b)) generated0 false b) (fun g => enc (enc_generated g)) gs rest).
  - reflexivity.
  - rewrite forallb_forall in Hg. apply Forall_forall. intros g Hin r. apply generated_rt. apply Hg. exact Hin.
Qed.

Lemma rr_warnings n p ws rest : len_ok ws = true -> forallb len_ok ws = true ->
  read_response (S n) p (put_be 1 (code T_LIST) ++ put_be 2 3 ++ enc (w_strs ws) ++ rest) =
  read_response n (mkresp (rs_error p) (rs_contents p) (Some ws)) rest.
Proof.
  intros Hl Hg. cbn [read_response]. rewrite get1_code. change (code T_LIST =? 0) with false. cbn iota.
  rewrite gets2 by lia.
  change (key_is (nth 0 lay_response nokey) (code T_LIST) 3) with false.
  change (key_is (nth 1 lay_response nokey) (code T_LIST) 3) with false.
  change (key_is (nth 2 lay_response nokey) (code T_LIST) 3) with true. cbn iota.
  unfold w_strs. rewrite enc_list_unfold, <- !app_assoc.
  assert (Hl' : len_ok (map WStr ws) = true) by (unfold len_ok in *; rewrite map_length; exact Hl).
  rewrite read_list_begin_enc by exact Hl'. rewrite map_length, enc_list_go_map.
  rewrite (rep_enc read_str (fun s => enc (WStr s)) ws rest).
  - reflexivity.
  - rewrite forallb_forall in Hg. apply Forall_forall. intros s Hin r. apply read_str_enc. apply Hg. exact Hin.
Qed.

(* decode (encode r) = r for every response: error set or unset, files, insertion-point patches,
   warnings, each present or absent, whatever follows the encoding *)
Theorem response_roundtrip r rest : response_ok r = true ->
  unmarshal_response (marshal_response r ++ rest) = Some r.
Proof.
  destruct r as [e c w]. unfold response_ok. cbn [rs_error rs_contents rs_warnings]. intro H.
  apply andb_true_iff in H as [H Hw]. apply andb_true_iff in H as [He Hc].
  unfold unmarshal_response, marshal_response.
  assert (Hlen : (4 <= S (List.length (enc (enc_response (mkresp e c w)) ++ rest)) \/ (e = None /\ c = None /\ w = None))%nat).
  { unfold enc_response, wstruct. cbn [rs_error rs_contents rs_warnings]. rewrite app_length, enc_length.
    destruct e, c, w; cbn [emit lay_response omap wsize]; try (left; lia). right. auto. }
  destruct Hlen as [Hlen|[-> [-> ->]]]; [|reflexivity].
  remember (S (List.length (enc (enc_response (mkresp e c w)) ++ rest))) as n eqn:En. clear En.
  do 4 (destruct n as [|n]; [lia|]).
  unfold enc_response, wstruct. cbn [rs_error rs_contents rs_warnings]. unfold response0.
  destruct e as [e|], c as [c|], w as [w|]; cbn [omap emit lay_response oall] in *;
    rewrite enc_struct_unfold, ?enc_fields_go_cons; change (enc_fields_go []) with [x00]; rewrite <- ?app_assoc;
    try (apply andb_true_iff in Hc as [Hc1 Hc2]); try (unfold strs_ok in Hw; apply andb_true_iff in Hw as [Hw1 Hw2]).
  - rewrite rr_error, rr_contents, rr_warnings by assumption. cbn [rs_error rs_contents rs_warnings app]. rewrite rr_stop. reflexivity.
  - rewrite rr_error, rr_contents by assumption. cbn [rs_error rs_contents rs_warnings app]. rewrite rr_stop. reflexivity.
  - rewrite rr_error, rr_warnings by assumption. cbn [rs_error rs_contents rs_warnings app]. rewrite rr_stop. reflexivity.
  - rewrite rr_error by assumption. cbn [rs_error rs_contents rs_warnings app]. rewrite rr_stop. reflexivity.
  - rewrite rr_contents, rr_warnings by assumption. cbn [rs_error rs_contents rs_warnings app]. rewrite rr_stop. reflexivity.
  - rewrite rr_contents by assumption. cbn [rs_error rs_contents rs_warnings app]. rewrite rr_stop. reflexivity.
  - rewrite rr_warnings by assumption. cbn [rs_error rs_contents rs_warnings app]. rewrite rr_stop. reflexivity.
  - cbn [app]. rewrite rr_stop. reflexivity.
Qed.

(* ================================================================ 8. wf_request implies encodability *)

Lemma wfb_list et l :
  wfb (WList et l) = in_srangeb 4 (Z.of_nat (List.length l)) && forallb (fun x => ttype_eqb (wtype x) et && wfb x) l.
Proof. reflexivity. Qed.

Lemma wfb_struct fs :
  wfb (WStruct fs) = forallb (fun f : wfield => ttype_eqb (wtype (snd f)) (fst (fst f)) && in_srangeb 2 (snd (fst f)) && wfb (snd f)) fs.
Proof. cbn [wfb]. induction fs as [|[[t i] x] r IH]; [reflexivity|]. cbn [forallb fst snd]. rewrite IH. reflexivity. Qed.

Lemma wfb_map kt vt l :
  wfb (WMap kt vt l) = in_srangeb 4 (Z.of_nat (List.length l)) &&
    forallb (fun kv => ttype_eqb (wtype (fst kv)) kt && ttype_eqb (wtype (snd kv)) vt && wfb (fst kv) && wfb (snd kv)) l.
Proof. cbn [wfb]. f_equal. induction l as [|[k x] r IH]; [reflexivity|]. cbn [forallb fst snd]. rewrite IH. reflexivity. Qed.

(* slots against a layout: the value has the declared wire type and is itself encodable *)
Fixpoint slots_ok (lay : list (ttype * Z)) (sl : slots) : bool :=
  match lay, sl with
  | (t, _) :: lay', Some w :: sl' => ttype_eqb (wtype w) t && wfb w && slots_ok lay' sl'
  | _ :: lay', None :: sl' => slots_ok lay' sl'
  | _, _ => true
  end.

Lemma wfb_wstruct lay sl :
  forallb (fun k => in_srangeb 2 (snd k)) lay = true -> slots_ok lay sl = true -> wfb (wstruct lay sl) = true.
Proof.
  unfold wstruct. rewrite wfb_struct. revert sl.
  induction lay as [|[t id] lay IH]; intros sl Hl Hs; [destruct sl; reflexivity|].
  cbn [forallb snd] in Hl. apply andb_true_iff in Hl as [Hid Hl].
  destruct sl as [|[w|] sl]; cbn [emit]; [reflexivity| |].
  - cbn [slots_ok] in Hs. apply andb_true_iff in Hs as [Hs Hr]. apply andb_true_iff in Hs as [Ht Hw].
    cbn [forallb fst snd]. rewrite Ht, Hid, Hw, (IH sl Hl Hr). reflexivity.
  - cbn [slots_ok] in Hs. apply IH; assumption.
Qed.

Lemma wfb_structs {A} (e : A -> wval) (p : A -> bool) l :
  (forall x, p x = true -> wtype (e x) = T_STRUCT /\ wfb (e x) = true) ->
  len_ok l = true -> forallb p l = true -> wfb (w_structs e l) = true.
Proof.
  intros He Hl Hp. unfold w_structs. rewrite wfb_list, map_length. unfold len_ok in Hl. rewrite Hl. cbn [andb].
  rewrite forallb_forall in *. intros w Hw. apply in_map_iff in Hw as [x [<- Hx]].
  destruct (He x (Hp x Hx)) as [-> ->]. reflexivity.
Qed.

Lemma wfb_strs l : strs_ok l = true -> wfb (w_strs l) = true.
Proof.
  unfold strs_ok, w_strs. intro H. apply andb_true_iff in H as [Hl Hp].
  rewrite wfb_list, map_length. unfold len_ok in Hl. rewrite Hl. cbn [andb].
  rewrite forallb_forall in *. intros w Hw. apply in_map_iff in Hw as [x [<- Hx]]. cbn [wtype wfb].
  exact (Hp x Hx).
Qed.

(* splitting a conjunction of booleans in a hypothesis *)
Ltac bsplit H := repeat match type of H with _ && _ = true => let H2 := fresh H in apply andb_true_iff in H as [H H2] end.
Ltac bsplit_all := repeat match goal with H : _ && _ = true |- _ => let H2 := fresh H in apply andb_true_iff in H as [H H2] end.
(* a struct built through wstruct: ids of the layout in range (by computation), then slot by slot *)
Ltac wfs := apply wfb_wstruct; [reflexivity|]; cbn [slots_ok]; rewrite ?andb_true_iff; repeat split; try reflexivity; try assumption.

Lemma reference_wfb r : reference_ok r = true -> wtype (enc_reference r) = T_STRUCT /\ wfb (enc_reference r) = true.
Proof.
  destruct r as [n i]. unfold reference_ok, enc_reference. cbn [ref_name ref_index]. intro H. bsplit_all.
  split; [reflexivity|]. unfold lay_reference. wfs.
Qed.

Lemma annotation_wfb a : annotation_ok a = true -> wtype (enc_annotation a) = T_STRUCT /\ wfb (enc_annotation a) = true.
Proof.
  destruct a as [k v]. unfold annotation_ok, enc_annotation. cbn [an_key an_values]. intro H. bsplit_all.
  split; [reflexivity|]. unfold lay_annotation. wfs. apply wfb_strs. assumption.
Qed.

Lemma annos_wfb l : annos_ok l = true -> wfb (enc_annos l) = true.
Proof. unfold annos_ok. intro H. bsplit_all. eapply wfb_structs; [apply annotation_wfb|assumption|assumption]. Qed.

Lemma cat_wfb c : wfb (WI32 (cat_z c)) = true.
Proof. destruct c; reflexivity. Qed.
Lemma req_wfb c : wfb (WI32 (req_z c)) = true.
Proof. destruct c; reflexivity. Qed.

Lemma enc_ty_wtype t : wtype (enc_ty t) = T_STRUCT.
Proof. destruct t. reflexivity. Qed.

Lemma ty_wfb : forall t, ty_ok t = true -> wfb (enc_ty t) = true.
Proof.
  induction t as [n k v c an cat r td IHk IHv] using ty_ind'. cbn [ty_ok enc_ty]. intro H.
  repeat rewrite andb_true_iff in H. destruct H as [[[[[Hn Hk] Hv] Hc] Han] Hr].
  unfold len_ok in Hn, Hc. unfold lay_type. apply wfb_wstruct; [reflexivity|].
  destruct k as [k|]; destruct v as [v|]; destruct r as [r|]; destruct td as [td|]; cbn [omap slots_ok oall] in *;
    rewrite ?enc_ty_wtype;
    try rewrite (IHk _ eq_refl Hk); try rewrite (IHv _ eq_refl Hv);
    try (destruct (reference_wfb _ Hr) as [Tr Ir]; rewrite Tr, Ir);
    rewrite (annos_wfb _ Han), cat_wfb; cbn [wtype wfb]; rewrite Hn, Hc; reflexivity.
Qed.

Lemma extra_wfb e : extra_ok e = true -> wtype (enc_extra e) = T_STRUCT /\ wfb (enc_extra e) = true.
Proof.
  destruct e as [b i n s]. unfold extra_ok, enc_extra. cbn [ex_is_enum ex_index ex_name ex_sel]. intro H. bsplit_all.
  split; [reflexivity|]. unfold lay_extra. wfs.
Qed.

Lemma enc_cv_wtype c : wtype (enc_cv c) = T_STRUCT.
Proof. destruct c; reflexivity. Qed.

Lemma tv_wfb i w : (i < 6)%nat -> ttype_eqb (wtype w) (fst (nth i lay_typedvalue nokey)) = true -> wfb w = true ->
  wfb (tv i w) = true.
Proof.
  intros Hi Ht Hw. unfold tv. apply wfb_wstruct; [reflexivity|].
  do 6 (destruct i as [|i]; [cbn in Ht |- *; rewrite Ht, Hw; reflexivity|]). lia.
Qed.

Lemma cv_shape ty typed extra : wfb typed = true -> wtype typed = T_STRUCT -> in_srangeb 4 ty = true ->
  match extra with Some w => wtype w = T_STRUCT /\ wfb w = true | None => True end ->
  wfb (cv ty typed extra) = true.
Proof.
  intros Ht Hty Hi He. unfold cv, lay_constvalue. apply wfb_wstruct; [reflexivity|].
  destruct extra as [w|]; cbn [slots_ok wtype wfb]; [destruct He as [-> ->]|]; rewrite Ht, Hty, Hi; reflexivity.
Qed.

Lemma cv_wfb : forall c, cv_ok c = true -> wfb (enc_cv c) = true.
Proof.
  induction c as [b|z|s|s e|l IH|l IH] using const_value_ind'; cbn [cv_ok enc_cv]; intro H.
  - apply cv_shape; [|reflexivity|reflexivity|exact I]. apply tv_wfb; [lia|reflexivity|]. cbn [wfb].
    apply Z.ltb_lt in H. apply andb_true_iff. split; [apply Z.leb_le; lia|apply Z.ltb_lt; exact H].
  - apply cv_shape; [|reflexivity|reflexivity|exact I]. apply tv_wfb; [lia|reflexivity|exact H].
  - apply cv_shape; [|reflexivity|reflexivity|exact I]. apply tv_wfb; [lia|reflexivity|exact H].
  - apply andb_true_iff in H as [Hs He]. apply cv_shape; [|reflexivity|reflexivity|].
    + apply tv_wfb; [lia|reflexivity|exact Hs].
    + destruct e as [e|]; cbn [omap oall] in *; [apply extra_wfb; exact He|exact I].
  - apply andb_true_iff in H as [Hl Hp]. apply cv_shape; [|reflexivity|reflexivity|exact I].
    apply tv_wfb; [lia|reflexivity|]. rewrite wfb_list, map_length. unfold len_ok in Hl. rewrite Hl. cbn [andb].
    rewrite forallb_forall in *. intros w Hw. apply in_map_iff in Hw as [x [<- Hx]].
    rewrite enc_cv_wtype. rewrite Forall_forall in IH. rewrite (IH x Hx (Hp x Hx)). reflexivity.
  - apply andb_true_iff in H as [Hl Hp]. apply cv_shape; [|reflexivity|reflexivity|exact I].
    apply tv_wfb; [lia|reflexivity|]. rewrite wfb_list, map_length. unfold len_ok in Hl. rewrite Hl. cbn [andb].
    rewrite forallb_forall in *. intros w Hw. apply in_map_iff in Hw as [[k v] [<- Hx]].
    rewrite Forall_forall in IH. destruct (IH _ Hx) as [Ik Iv]. specialize (Hp _ Hx). cbn [fst snd] in *.
    apply andb_true_iff in Hp as [Hk Hv]. cbn [wtype]. change (ttype_eqb T_STRUCT T_STRUCT) with true. cbn [andb].
    unfold lay_mapconst. apply wfb_wstruct; [reflexivity|]. cbn [slots_ok]. rewrite !enc_cv_wtype, (Ik Hk), (Iv Hv). reflexivity.
Qed.

Lemma namespace_wfb n : namespace_ok n = true -> wtype (enc_namespace n) = T_STRUCT /\ wfb (enc_namespace n) = true.
Proof.
  destruct n as [l n a]. unfold namespace_ok, enc_namespace. cbn [ns_language ns_name ns_annos]. intro H. bsplit_all.
  split; [reflexivity|]. unfold lay_namespace. wfs. apply annos_wfb. assumption.
Qed.

Lemma typedef_wfb t : typedef_ok t = true -> wtype (enc_typedef t) = T_STRUCT /\ wfb (enc_typedef t) = true.
Proof.
  destruct t as [t a an c]. unfold typedef_ok, enc_typedef. cbn [td_type td_alias td_annos td_comments]. intro H. bsplit_all.
  split; [reflexivity|]. unfold lay_typedef. wfs; [rewrite enc_ty_wtype; reflexivity|apply ty_wfb; assumption|apply annos_wfb; assumption].
Qed.

Lemma enum_value_wfb v : enum_value_ok v = true -> wtype (enc_enum_value v) = T_STRUCT /\ wfb (enc_enum_value v) = true.
Proof.
  destruct v as [n v an c]. unfold enum_value_ok, enc_enum_value. cbn [ev_name ev_value ev_annos ev_comments]. intro H. bsplit_all.
  split; [reflexivity|]. unfold lay_enumvalue. wfs. apply annos_wfb. assumption.
Qed.

Lemma enum_wfb e : enum_ok e = true -> wtype (enc_enum e) = T_STRUCT /\ wfb (enc_enum e) = true.
Proof.
  destruct e as [n v an c]. unfold enum_ok, enc_enum. cbn [en_name en_values en_annos en_comments]. intro H. bsplit_all.
  split; [reflexivity|]. unfold lay_enum. wfs; [eapply wfb_structs; [apply enum_value_wfb|assumption|assumption]|apply annos_wfb; assumption].
Qed.

Lemma constant_wfb c : constant_ok c = true -> wtype (enc_constant c) = T_STRUCT /\ wfb (enc_constant c) = true.
Proof.
  destruct c as [n t v an c]. unfold constant_ok, enc_constant. cbn [co_name co_type co_value co_annos co_comments]. intro H. bsplit_all.
  split; [reflexivity|]. unfold lay_constant.
  wfs; [rewrite enc_ty_wtype; reflexivity|apply ty_wfb; assumption|rewrite enc_cv_wtype; reflexivity|apply cv_wfb; assumption|apply annos_wfb; assumption].
Qed.

Lemma field_wfb f : field_ok f = true -> wtype (enc_field f) = T_STRUCT /\ wfb (enc_field f) = true.
Proof.
  destruct f as [i n r t d an c]. unfold field_ok, enc_field. cbn [fd_id fd_name fd_req fd_type fd_default fd_annos fd_comments]. intro H.
  repeat rewrite andb_true_iff in H. destruct H as [[[[[Hi Hn] Ht] Hd] Han] Hc].
  split; [reflexivity|]. unfold lay_field. apply wfb_wstruct; [reflexivity|].
  destruct d as [d|]; cbn [omap oall slots_ok] in *; rewrite enc_ty_wtype, ?enc_cv_wtype, (ty_wfb _ Ht), ?(cv_wfb _ Hd), (annos_wfb _ Han), req_wfb;
    cbn [wtype wfb]; unfold len_ok, i32_ok in *; rewrite Hi, Hn, Hc; reflexivity.
Qed.

Lemma fields_wfb l : fields_ok l = true -> wfb (enc_fields l) = true.
Proof. unfold fields_ok. intro H. bsplit_all. eapply wfb_structs; [apply field_wfb|assumption|assumption]. Qed.

Lemma kind_wfb k : wfb (WStr (sl_kind_name k)) = true.
Proof. destruct k; reflexivity. Qed.

Lemma struct_like_wfb s : struct_like_ok s = true -> wtype (enc_struct_like s) = T_STRUCT /\ wfb (enc_struct_like s) = true.
Proof.
  destruct s as [k n f an c]. unfold struct_like_ok, enc_struct_like. cbn [sl_category sl_name sl_fields sl_annos sl_comments]. intro H. bsplit_all.
  split; [reflexivity|]. unfold lay_structlike. wfs; [apply kind_wfb|apply fields_wfb; assumption|apply annos_wfb; assumption].
Qed.

Lemma function_wfb f : function_ok f = true -> wtype (enc_function f) = T_STRUCT /\ wfb (enc_function f) = true.
Proof.
  destruct f as [n o v t a th an c]. unfold function_ok, enc_function.
  cbn [fn_name fn_oneway fn_void fn_type fn_args fn_throws fn_annos fn_comments]. intro H. bsplit_all.
  split; [reflexivity|]. unfold lay_function.
  wfs; [rewrite enc_ty_wtype; reflexivity|apply ty_wfb; assumption|apply fields_wfb; assumption|apply fields_wfb; assumption|apply annos_wfb; assumption].
Qed.

Lemma service_wfb s : service_ok s = true -> wtype (enc_service s) = T_STRUCT /\ wfb (enc_service s) = true.
Proof.
  destruct s as [n e f an r c]. unfold service_ok, enc_service. cbn [sv_name sv_extends sv_functions sv_annos sv_ref sv_comments]. intro H.
  repeat rewrite andb_true_iff in H. destruct H as [[[[[Hn He] [Hfl Hf]] Han] Hr] Hc].
  split; [reflexivity|]. unfold lay_service. apply wfb_wstruct; [reflexivity|].
  assert (Hfs : wfb (w_structs enc_function f) = true) by (eapply wfb_structs; [apply function_wfb|assumption|assumption]).
  destruct r as [r|]; cbn [omap oall slots_ok] in *; [destruct (reference_wfb _ Hr) as [Tr Ir]; rewrite Tr, Ir|];
    rewrite Hfs, (annos_wfb _ Han); cbn [wtype wfb]; unfold len_ok in *; rewrite Hn, He, Hc; reflexivity.
Qed.

Lemma name2cat_wfb m : oall (list_ok (fun kv : bytes * category => len_ok (fst kv))) m = true -> wfb (enc_name2cat m) = true.
Proof.
  unfold enc_name2cat. intro H. rewrite wfb_map, map_length.
  destruct m as [l|]; cbn [oall] in H; [|reflexivity].
  unfold list_ok in H. apply andb_true_iff in H as [Hl Hp]. unfold len_ok in Hl. rewrite Hl. cbn [andb].
  rewrite forallb_forall in *. intros w Hw. apply in_map_iff in Hw as [[k c] [<- Hx]]. cbn [fst snd wtype].
  specialize (Hp _ Hx). cbn [fst] in Hp. rewrite cat_wfb. cbn [wfb]. unfold len_ok in Hp. rewrite Hp. reflexivity.
Qed.

Lemma list_ok_structs {A} (e : A -> wval) (p : A -> bool) l :
  (forall x, p x = true -> wtype (e x) = T_STRUCT /\ wfb (e x) = true) -> list_ok p l = true -> wfb (w_structs e l) = true.
Proof. intros He H. unfold list_ok in H. apply andb_true_iff in H as [Hl Hp]. eapply wfb_structs; eassumption. Qed.

Fixpoint ast_ok_kids (l : list (option ast)) : bool :=
  match l with [] => true | Some k :: r => ast_ok k && ast_ok_kids r | None :: r => ast_ok_kids r end.
Lemma ast_ok_eq f kids : ast_ok (Ast f kids) = file_ok f && ast_ok_kids kids.
Proof. reflexivity. Qed.

Lemma enc_ast_wtype a : wtype (enc_ast a) = T_STRUCT.
Proof. destruct a. reflexivity. Qed.

Lemma len_ok_app_r {A} (a b : list A) : len_ok (a ++ b) = true -> len_ok b = true.
Proof.
  unfold len_ok. intro H. apply in_srangeb_spec in H. apply in_srangeb_spec.
  rewrite in_srange_4 in *. rewrite app_length in H. lia.
Qed.

Fixpoint kids_wfb (l : list (option ast)) : bool :=
  match l with [] => true | Some k :: r => wfb (enc_ast k) && kids_wfb r | None :: r => kids_wfb r end.

(* one node: its own fields by file_ok, its kids by hypothesis *)
Lemma node_wfb f kids : file_ok f = true -> kids_wfb kids = true -> wfb (enc_ast (Ast f kids)) = true.
Proof.
  rewrite enc_ast_eq. intros Hf Hk. unfold file_ok in Hf.
  repeat rewrite andb_true_iff in Hf.
  destruct Hf as [[[[[[[[[[[Hn Hi] Hcpp] Hns] Htd] Hco] Hen] Hst] Hun] Hex] Hsv] Hnc].
  assert (Hname : len_ok (f_filename f) = true) by (eapply len_ok_app_r; exact Hn).
  assert (Hincs : wfb (WList T_STRUCT (enc_incs' (f_includes f) kids)) = true).
  { unfold list_ok in Hi. apply andb_true_iff in Hi as [Hil Hip].
    rewrite wfb_list.
    assert (Hlen : (List.length (enc_incs' (f_includes f) kids) <= List.length (f_includes f))%nat).
    { clear. generalize kids. induction (f_includes f) as [|i is IHi]; intros [|k ks]; cbn [enc_incs' List.length]; try lia.
      specialize (IHi ks). lia. }
    assert (Hl : in_srangeb 4 (Z.of_nat (List.length (enc_incs' (f_includes f) kids))) = true).
    { unfold len_ok in Hil. apply in_srangeb_spec in Hil. apply in_srangeb_spec. rewrite in_srange_4 in *. lia. }
    rewrite Hl. cbn [andb]. clear Hl Hlen Hil.
    revert Hip Hk. generalize (f_includes f) as is. induction kids as [|k ks IHks]; intros [|i is] Hip Hk; cbn [enc_incs' forallb]; try reflexivity.
    cbn [forallb] in Hip. apply andb_true_iff in Hip as [Hi1 Hip].
    assert (Hkk : kids_wfb ks = true /\ match k with Some x => wfb (enc_ast x) = true | None => True end).
    { destruct k; cbn [kids_wfb] in Hk; [apply andb_true_iff in Hk as [? ?]; auto|auto]. }
    destruct Hkk as [Hks Hkx]. rewrite (IHks is Hip Hks), andb_true_r.
    cbn [wtype]. change (ttype_eqb T_STRUCT T_STRUCT) with true. cbn [andb].
    unfold lay_include. apply wfb_wstruct; [reflexivity|].
    destruct i as [p rf u]. cbn [in_path in_used] in *.
    destruct k as [x|]; destruct u as [u|]; cbn [omap slots_ok wtype wfb]; rewrite ?enc_ast_wtype, ?Hkx;
      unfold len_ok in Hi1; rewrite Hi1; reflexivity. }
  unfold lay_thrift. apply wfb_wstruct; [reflexivity|]. cbn [slots_ok].
  rewrite Hincs, (wfb_strs _ Hcpp), (list_ok_structs _ _ _ namespace_wfb Hns), (list_ok_structs _ _ _ typedef_wfb Htd),
    (list_ok_structs _ _ _ constant_wfb Hco), (list_ok_structs _ _ _ enum_wfb Hen), (list_ok_structs _ _ _ struct_like_wfb Hst),
    (list_ok_structs _ _ _ struct_like_wfb Hun), (list_ok_structs _ _ _ struct_like_wfb Hex), (list_ok_structs _ _ _ service_wfb Hsv),
    (name2cat_wfb _ Hnc).
  cbn [wtype wfb]. unfold len_ok in Hname. rewrite Hname. reflexivity.
Qed.

Lemma ast_wfb_both :
  (forall a, ast_ok a = true -> wfb (enc_ast a) = true) /\
  (forall ks, ast_ok_kids ks = true -> kids_wfb ks = true).
Proof.
  apply ast_kids_ind.
  - intros f kids IH H. rewrite ast_ok_eq in H. apply andb_true_iff in H as [Hf Hk]. apply node_wfb; auto.
  - reflexivity.
  - intros k r IHk IHr H. cbn [ast_ok_kids] in H. apply andb_true_iff in H as [Hk Hr]. cbn [kids_wfb]. rewrite (IHk Hk), (IHr Hr). reflexivity.
  - intros r IHr H. exact (IHr H).
Qed.
Definition ast_wfb := proj1 ast_wfb_both.

(* the decidable predicate on the request implies encodability *)
Theorem wf_request_encodable r : wf_request r = true -> wfb (enc_request r) = true.
Proof.
  destruct r as [v g p l o rc a]. unfold wf_request, enc_request.
  cbn [rq_version rq_gen_params rq_plugin_params rq_language rq_output_path rq_recursive rq_ast]. intro H.
  repeat rewrite andb_true_iff in H. destruct H as [[[[[Hv Hg] Hp] Hl] Ho] Ha].
  unfold lay_request. apply wfb_wstruct; [reflexivity|]. cbn [slots_ok].
  rewrite (wfb_strs _ Hg), (wfb_strs _ Hp), enc_ast_wtype, (ast_wfb _ Ha). cbn [wtype wfb].
  unfold len_ok in *. rewrite Hv, Hl, Ho. reflexivity.
Qed.

(* ---- compression keeps a request encodable ---- *)

Lemma stub_wfb n : len_ok (ref_prefix ++ n) = true -> wfb (enc_ast (stub n)) = true.
Proof.
  intro H. unfold stub. rewrite enc_ast_eq. unfold empty_file. cbn [f_filename f_includes f_cpp_includes f_namespaces f_typedefs f_constants f_enums f_structs f_unions f_exceptions f_services f_name2cat enc_incs'].
  unfold lay_thrift. apply wfb_wstruct; [reflexivity|]. cbn [slots_ok wtype wfb]. unfold len_ok in H. rewrite H. reflexivity.
Qed.

Lemma file_ok_name f : file_ok f = true -> len_ok (ref_prefix ++ f_filename f) = true.
Proof. unfold file_ok. intro H. repeat rewrite andb_true_iff in H. tauto. Qed.

Lemma compress_wfb_both :
  (forall a, forall s, ast_ok a = true -> wfb (enc_ast (fst (compress s a))) = true) /\
  (forall ks, forall s, ast_ok_kids ks = true -> kids_wfb (fst (compress_kids stub s ks)) = true).
Proof.
  apply ast_kids_ind.
  - intros f kids IH s H. rewrite ast_ok_eq in H. apply andb_true_iff in H as [Hf Hk].
    unfold compress. rewrite compress_eq. specialize (IH s Hk). destruct (compress_kids stub s kids) as [k' s']. cbn [fst] in *.
    apply node_wfb; assumption.
  - reflexivity.
  - intros k r IHk IHr s H. cbn [ast_ok_kids] in H. apply andb_true_iff in H as [Hk Hr]. cbn [compress_kids].
    destruct (mem (ast_name k) s).
    + specialize (IHr s Hr). destruct (compress_kids stub s r) as [r' s']. cbn [fst kids_wfb] in *.
      rewrite IHr, andb_true_r. apply stub_wfb. destruct k as [f kids]. rewrite ast_ok_eq in Hk. apply andb_true_iff in Hk as [Hf _].
      apply file_ok_name. exact Hf.
    + specialize (IHk (ast_name k :: s) Hk). unfold compress in IHk.
      destruct (compress_gen stub (ast_name k :: s) k) as [k' s1]. cbn [fst] in *.
      specialize (IHr s1 Hr). destruct (compress_kids stub s1 r) as [r' s2]. cbn [fst kids_wfb] in *.
      rewrite IHk, IHr. reflexivity.
  - intros r IHr s H. cbn [ast_ok_kids] in H. cbn [compress_kids].
    specialize (IHr s H). destruct (compress_kids stub s r) as [r' s']. cbn [fst kids_wfb] in *. exact IHr.
Qed.

Theorem wf_request_encodable_compressed r : wf_request r = true ->
  wfb (enc_request (with_ast r (compress_top (rq_ast r)))) = true.
Proof.
  destruct r as [v g p l o rc a]. unfold wf_request, enc_request, with_ast.
  cbn [rq_version rq_gen_params rq_plugin_params rq_language rq_output_path rq_recursive rq_ast]. intro H.
  repeat rewrite andb_true_iff in H. destruct H as [[[[[Hv Hg] Hp] Hl] Ho] Ha].
  unfold lay_request. apply wfb_wstruct; [reflexivity|]. cbn [slots_ok].
  unfold compress_top. rewrite (wfb_strs _ Hg), (wfb_strs _ Hp), enc_ast_wtype, (proj1 compress_wfb_both a [] Ha). cbn [wtype wfb].
  unfold len_ok in *. rewrite Hv, Hl, Ho. reflexivity.
Qed.

(* the round trips with the hypothesis on the request itself *)
Theorem request_roundtrip_wf r fuel :
  wt_ast (rq_ast r) = true -> wf_request r = true ->
  unmarshal_request fuel (marshal_request r) = UOk (norm_request r).
Proof. intros Hwt Hwf. apply request_roundtrip; [exact Hwt|apply wf_request_encodable; exact Hwf]. Qed.

Theorem request_roundtrip_compressed_wf r fuel :
  wf_graph (rq_ast r) -> wt_ast (rq_ast r) = true -> wf_request r = true -> (height (rq_ast r) <= fuel)%nat ->
  unmarshal_request fuel (marshal_request_compressed r) = UOk (norm_request r).
Proof.
  intros Hg Hwt Hwf Hh. apply request_roundtrip_compressed; [exact Hg|exact Hwt|apply wf_request_encodable_compressed; exact Hwf|exact Hh].
Qed.

(* ================================================================ 9. the plugin loop: what each plugin is sent *)

Lemma with_plugin_params_twice r a b : with_plugin_params (with_plugin_params r a) b = with_plugin_params r b.
Proof. reflexivity. Qed.

(* what plugin d must be sent when the compiler's request is req *)
Definition sent_to (req : request) (d : desc) : bytes * request :=
  (plugin_name d, with_plugin_params req (pack (d_opts d))).

Section LoopFacts.
  Variable run : bytes -> request -> plugin_result.

  (* the requests actually sent are a prefix of "every plugin gets the compiler's request with
     the pack of its OWN options": nothing of an earlier plugin's options survives in the shared
     request object, whatever the option lists are (empty ones included) *)
  Lemma generate_loop_trace : forall ds m shown req,
    exists k, snd (generate_loop run m shown req ds) = firstn k (map (sent_to req) ds).
  Proof.
    induction ds as [|d rest IH]; intros m shown req; [exists O; reflexivity|].
    cbn [generate_loop map].
    destruct (outcome (plugin_name d) (run (plugin_name d) (with_plugin_params req (pack (d_opts d))))) as [ws|ws cs].
    - exists 1%nat. reflexivity.
    - destruct (feed m (map to_gen cs)) as [m'| |].
      + destruct (IH m' (shown ++ ws) (with_plugin_params req (pack (d_opts d)))) as [k Hk].
        destruct (generate_loop run m' (shown ++ ws) (with_plugin_params req (pack (d_opts d))) rest) as [res tr].
        cbn [snd] in *. exists (S k). cbn [firstn]. rewrite Hk. reflexivity.
      + exists 1%nat. reflexivity.
      + exists 1%nat. reflexivity.
  Qed.

  Theorem generate_loop_sends_own_options ds m shown req i name q :
    nth_error (snd (generate_loop run m shown req ds)) i = Some (name, q) ->
    exists d, nth_error ds i = Some d /\ name = plugin_name d /\
              rq_plugin_params q = pack (d_opts d) /\
              rq_version q = rq_version req /\ rq_gen_params q = rq_gen_params req /\
              rq_language q = rq_language req /\ rq_output_path q = rq_output_path req /\
              rq_recursive q = rq_recursive req /\ rq_ast q = rq_ast req.
  Proof.
    destruct (generate_loop_trace ds m shown req) as [k Hk]. rewrite Hk. intro H.
    assert (H' : nth_error (map (sent_to req) ds) i = Some (name, q)).
    { revert i H. generalize (map (sent_to req) ds) as l. clear. induction k as [|k IH]; intros l i H; [destruct i; discriminate|].
      destruct l as [|x l]; [destruct i; discriminate|]. destruct i as [|i]; [exact H|]. cbn [firstn nth_error] in *. apply IH. exact H. }
    rewrite nth_error_map in H'. destruct (nth_error ds i) as [d|]; [|discriminate].
    injection H' as <- <-. exists d. repeat split; reflexivity.
  Qed.

  (* the result is the plugin loop of run_plugins over the answers to exactly those requests *)
  Theorem generate_loop_result : forall ds m shown req,
    fst (generate_loop run m shown req ds) =
    run_plugins m shown (map (fun d => (plugin_name d, run (plugin_name d) (snd (sent_to req d)))) ds).
  Proof.
    induction ds as [|d rest IH]; intros m shown req; [reflexivity|].
    cbn [generate_loop map run_plugins sent_to snd].
    destruct (outcome (plugin_name d) (run (plugin_name d) (with_plugin_params req (pack (d_opts d))))) as [ws|ws cs]; [reflexivity|].
    destruct (feed m (map to_gen cs)) as [m'| |]; try reflexivity.
    specialize (IH m' (shown ++ ws) (with_plugin_params req (pack (d_opts d)))).
    destruct (generate_loop run m' (shown ++ ws) (with_plugin_params req (pack (d_opts d))) rest) as [res tr].
    cbn [fst] in *. rewrite IH. reflexivity.
  Qed.

  (* when the run succeeds every plugin was invoked, in command-line order *)
  Theorem generate_loop_all_invoked : forall ds m shown req shown' m',
    fst (generate_loop run m shown req ds) = ROk shown' m' ->
    snd (generate_loop run m shown req ds) = map (sent_to req) ds.
  Proof.
    induction ds as [|d rest IH]; intros m shown req shown' m2; [reflexivity|].
    cbn [generate_loop map].
    destruct (outcome (plugin_name d) (run (plugin_name d) (with_plugin_params req (pack (d_opts d))))) as [ws|ws cs]; [discriminate|].
    destruct (feed m (map to_gen cs)) as [m'| |]; try discriminate.
    specialize (IH m' (shown ++ ws) (with_plugin_params req (pack (d_opts d))) shown' m2).
    destruct (generate_loop run m' (shown ++ ws) (with_plugin_params req (pack (d_opts d))) rest) as [res tr].
    cbn [fst snd] in *. intro H. rewrite (IH H). reflexivity.
  Qed.
End LoopFacts.

(* ================================================================ 10. the outcome, exactly and end to end *)

(* thriftgo goes on with a plugin's answer exactly when the process exited with status 0, its
   stdout decodes, and the decoded Error is unset or empty; in every other case it fails *)
Theorem outcome_proceed_iff name pr :
  (exists ws cs, outcome name pr = Proceed ws cs) <->
  (exists out err r, pr = Exited 0 out err /\ unmarshal_response out = Some r /\ no_error r).
Proof.
  split.
  - intros [ws [cs H]]. destruct pr as [code out err|out err|]; unfold outcome, execute in H; try discriminate.
    destruct (Z.eqb_spec code 0) as [->|Hc]; cbn [negb] in H; [|cbn in H; discriminate].
    destruct (unmarshal_response out) as [r|] eqn:Er; [|cbn in H; discriminate].
    exists out, err, r. split; [reflexivity|]. split; [exact Er|].
    unfold no_error. destruct (rs_error r) as [[|c e]|] eqn:Ee; auto.
    exfalso. destruct err; cbn [rs_error] in H; try rewrite Ee in H; discriminate.
  - intros [out [err [r [-> [Hr He]]]]]. rewrite (outcome_ok name out err r Hr He). eauto.
Qed.

Corollary outcome_fail_iff name pr :
  (exists ws, outcome name pr = Fail ws) <->
  ~ (exists out err r, pr = Exited 0 out err /\ unmarshal_response out = Some r /\ no_error r).
Proof.
  split.
  - intros [ws H] Hc. apply (proj2 (outcome_proceed_iff name pr)) in Hc. destruct Hc as [a [b Hc]]. rewrite H in Hc. discriminate Hc.
  - intro Hn. destruct (outcome name pr) as [ws|ws cs] eqn:E; [exists ws; reflexivity|].
    exfalso. apply Hn. apply (proj1 (outcome_proceed_iff name pr)). exists ws, cs. exact E.
Qed.

(* end to end, from the response VALUE a plugin builds: it exits 0 having written the encoding
   of r (anything may follow), r has no error: exactly r's contents are handed on, in order, and
   exactly r's warnings (then the stderr note) are shown *)
Theorem response_honoured name r rest err :
  response_ok r = true -> no_error r ->
  outcome name (Exited 0 (marshal_response r ++ rest) err) =
  Proceed (shown_of name err r) (get_list (rs_contents r)).
Proof. intros Hok He. apply outcome_ok; [apply response_roundtrip; exact Hok|exact He]. Qed.

(* ... and an answer whose Error is a non-empty text makes thriftgo fail, showing r's warnings *)
Theorem response_error_fails name r rest err c e :
  response_ok r = true -> rs_error r = Some (c :: e) ->
  exists ws, outcome name (Exited 0 (marshal_response r ++ rest) err) = Fail ws.
Proof.
  intros Hok He. apply outcome_fail. right. right. exists r, c, e. split; [apply response_roundtrip; exact Hok|exact He].
Qed.

(* the whole loop on typed answers: every plugin exits 0 with the encoding of an error-free
   response: the file manager receives every plugin's contents, plugin after plugin *)
Theorem run_plugins_all_honoured : forall (ps : list (bytes * response)) m shown m',
  Forall (fun p => response_ok (snd p) = true /\ no_error (snd p)) ps ->
  feed_all m (map snd ps) = FileManager.Ok m' ->
  run_plugins m shown (map (fun p => (fst p, Exited 0 (marshal_response (snd p)) [])) ps) =
  ROk (shown ++ List.concat (map (fun p => get_list (rs_warnings (snd p))) ps)) m'.
Proof.
  induction ps as [|[n r] ps IH]; intros m shown m' Hall Hfeed.
  - cbn in *. injection Hfeed as <-. rewrite app_nil_r. reflexivity.
  - inversion Hall as [|? ? Hhd Hrest]; subst. destruct Hhd as [Hok He]. cbn [fst snd map feed_all] in *.
    pose proof (response_roundtrip r [] Hok) as Hrt. rewrite app_nil_r in Hrt.
    cbn [run_plugins]. rewrite (outcome_ok n _ [] r Hrt He).
    destruct (feed m (map to_gen (get_list (rs_contents r)))) as [m1| |]; try discriminate.
    rewrite (IH m1 _ m' Hrest Hfeed). unfold shown_of. rewrite app_nil_r. cbn [List.concat]. rewrite app_assoc. reflexivity.
Qed.
