"""C06 — constants and default values in Go equal the values written in the IDL
(generator/golang/resolver.go, templates/constant.go, templates/struct.go)."""
import json
import os
import vlib


class S(vlib.Spec):
    prop = "C06"
    design_ref = "DESIGN.md section 3 / C06"
    coq_targets = ["Props/C06.vo", "Corr/C06.vo"]
    props_file = "Props/C06.v"
    harness_pkg = "./cmd/c06"
    harness_name = "c06"
    needs_thriftgo = True
    corr_codes = {1, 9}
    code_names = {
        1: "model (go_rules) and implementation disagree",
        9: "model out of fuel",
        2: "a generated constant / variable does not hold the value of its IDL initializer",
        3: "a double written as -0.0 in the IDL is +0 in Go (constant, default, or element)",
        4: "NewX() / InitDefault(): a field with a declared default does not hold it, or another field is not zero / nil",
        5: "InitDefault() on the zero object differs from NewX()",
        6: "the getter of an unset optional field does not return the declared default",
        7: "an optional field holding a value different from its default reports itself as not set",
        8: "the generated packages do not compile under an option set the property names although every initializer has a value",
        10: "a value of the wrong kind for a scalar or struct type was accepted",
        11: "history: after an in-place edit of another instance a freshly constructed struct does not hold the declared defaults",
        12: "history: a default written as a reference to a container / struct / binary constant shares the constant's storage between instances",
        13: "history: after an in-place edit of another instance the getter of an unset optional field does not return the declared default",
    }
    modelled = ("generator/golang/resolver.go: ResolveConst / resolveConst, onBool, onInt, onDouble, onStrBin, onEnum, onSetOrList, "
                "onMap, onStructLike, getIDValue, getStructLike, bin2str; generator/golang/thrift.go: NeedRedirect, SupportIsSet, "
                "IsBaseType; templates/struct.go: StructLikeDefault (NewX), InitDefault, FieldGetOrSet, FieldIsSet; "
                "templates/constant.go + scope.go (every constant is emitted, const or var block) -> coq/Idl/Consts.v "
                "(hand-written value-level model: eval / new_struct / init_default / getter / is_set, go_unquote for the "
                "documented literal rule), on top of coq/Idl/Resolve.v deref (semantic.Deref); tied to /repo on every run by "
                "correspondence on COMPILED generated code")
    trusted_base = [
        "hand-written model coq/Idl/Consts.v (value-level image of resolver.go and of the NewX / InitDefault / getter / IsSet "
        "templates), coq/Idl/Resolve.v deref, coq/Idl/Lex.v round_binary64 (integer -> float64, round to nearest even)",
        "Go semantics as modelled: interpreted string literals (go_unquote: the escapes backslash, double quote, n, t, r, xHH, uHHHH), "
        "untyped constants convert exactly / by rounding to nearest even to float64, T(IDENT) conversions of integer constants, "
        "!= on float64 is IEEE, all pointers to zero-size values are one map key (gc runtime)",
        "the real front end (parser, semantic checker, ResolveSymbols) produces the resolved AST the model starts from "
        "(astdump; C03 / C05 cover those passes)",
        "harness/idlgen (program generator), harness/cmd/c06 (corpus, scripted objects; Go identifiers come from the backend's own "
        "scope builder in a fresh process per unit), gendrv + gendrv/driver (reflection driver, c06.go), valgen (value printer), "
        "coqfmt, casefile, lib/vlib.py",
        "the real thriftgo binary and go build are run on every check",
    ]
    assumptions = [
        "programs are accepted by the front end; integer initializers lie in the range of their type (an untyped Go constant would "
        "hold the out-of-range number, typed positions would not compile: C01's oracle)",
        "string literals use the modelled escape set; anything else is an error value of go_unquote and is not generated",
        "identifiers refer to constants of the same kind of type (a reference of another kind is decided by Go's type checker)",
        "use_type_alias keeps its default (use_type_alias=false does not compile: recorded C01 finding)",
    ]

    def producer_args(self, ctx):
        return ["-seed", str(ctx.seed), "-tier", ctx.tier, "-out", ctx.out, "-thriftgo", ctx.thriftgo,
                "-scratch", os.path.join(ctx.scratch, "gen")]

    def classify(self, code, case):
        case = case or {}
        if code == 3:
            return "C06-double-negative-zero-loses-sign"
        if code == 12:
            return "C06-history-default-by-identifier-shares-constant-storage"
        if code in (11, 13):
            return "C06-history-%s-%s" % ("fresh-struct-shares-storage" if code == 11 else "getter-unset-shares-storage", case.get("script") or "?")
        if code == 8:
            return "C06-generated-code-does-not-compile-%s" % (case.get("options") or "default").replace(",", "+")
        names = {2: "constant-value", 4: "new-or-initdefault-value", 5: "initdefault-differs-from-new", 6: "getter-unset-not-default",
                 7: "isset-false-although-differs", 10: "wrong-kind-accepted"}
        what = case.get("type_category") or case.get("script") or case.get("kind") or "?"
        way = case.get("way")
        return "C06-%s-%s%s" % (names.get(code, "code-%d" % code), what, ("-" + way) if way else "")


def run(tier):
    return vlib.standard_run(S(), tier)


def replay(path):
    obj = json.load(open(path))
    print(json.dumps(obj, indent=1)[:8000])
    return 0
