// c14 produces correspondence cases for property C14 (field-mask library): it drives the
// real github.com/cloudwego/thriftgo/fieldmask package in-process, with descriptors built
// by the real parser and thrift_reflection from small IDL texts, and writes inputs and
// observed answers as Coq terms (coq/Corr/C14.v).
//
// Streams: corpus (minimised triggers of known findings and repaired defects), grammar
// (conflict-free selections, perturbed ones, permutations and regroupings), mutated paths
// compared with the model, JSON trees into Unmarshal, and the totality stream (arbitrary
// byte strings / documents, only "no panic, no hang").
package main

import (
	"flag"
	"fmt"
	"os"
	"os/exec"
	"path/filepath"
	"sort"
	"strconv"
	"strings"
	"sync/atomic"
	"time"

	"github.com/cloudwego/thriftgo/fieldmask"

	"verif/harness/casefile"
	"verif/harness/coqfmt"
	"verif/harness/maskkit"
	"verif/harness/rng"
)

type Key struct {
	Kind string `json:"k"`
	Int  int64  `json:"i,omitempty"`
	Str  string `json:"s,omitempty"`
}

type Obs struct {
	Oks   []bool `json:"oks"`
	All   bool   `json:"all"`
	Exist bool   `json:"exist"`
	Kids  []Key  `json:"kids"`
}

type GP struct {
	Path  string `json:"path"`
	Exist bool   `json:"exist"`
	All   bool   `json:"all"`
}

type Variant struct {
	Kind  string         `json:"kind"`
	Paths []string       `json:"paths"`
	Gram  []maskkit.Path `json:"-"`
	Ok    bool           `json:"ok"`
	Obs   []Obs          `json:"obs,omitempty"`
}

type Case struct {
	Kind    string           `json:"kind"`
	Desc    string           `json:"desc,omitempty"`
	IDL     string           `json:"idl,omitempty"`
	Black   bool             `json:"black"`
	Paths   []string         `json:"paths,omitempty"`
	Grammar bool             `json:"from_grammar"`
	Ok      bool             `json:"ok"`
	Err     string           `json:"err,omitempty"`
	Probes  [][]maskkit.QKey `json:"probes,omitempty"`
	Obs     []Obs            `json:"obs,omitempty"`
	GPs     []GP             `json:"getpath,omitempty"`
	JSON    string           `json:"json,omitempty"`
	UnOk    bool             `json:"unmarshal_ok"`
	UnErr   string           `json:"unmarshal_err,omitempty"`
	UnObs   []Obs            `json:"unmarshal_obs,omitempty"`
	Vars    []Variant        `json:"variants,omitempty"`
	Tree    string           `json:"tree_text,omitempty"`
	Again   string           `json:"remarshal,omitempty"`
	Panic   string           `json:"panic,omitempty"`
	Input   string           `json:"input,omitempty"`
	Hist    *History         `json:"history,omitempty"`
}

// History: several masks, a sequence of Marshal / MarshalJSON calls whose results are kept,
// and what the kept bytes are (and read back as) after all later operations.
type HMask struct {
	Black bool     `json:"black"`
	Paths []string `json:"paths"`
}
type HText struct {
	Step     int    `json:"step"`
	Mask     int    `json:"mask"`
	Op       string `json:"op"`
	AtReturn string `json:"at_return"`
	AtEnd    string `json:"at_end"`
}
type HRead struct {
	Step        int   `json:"of_step"`
	Mask        int   `json:"mask"`
	OkRetained  bool  `json:"ok_retained"`
	OkCopy      bool  `json:"ok_copy"`
	ObsRetained []Obs `json:"obs_retained"`
	ObsCopy     []Obs `json:"obs_copy"`
}
type History struct {
	Masks []HMask  `json:"masks"`
	Ops   []string `json:"ops"`
	Texts []HText  `json:"texts"`
	Reads []HRead  `json:"reads"`
}

// ---------------------------------------------------------------- driving the library

var current atomic.Value // string: what is running now (for the watchdog)
var progress int64

func guard(f func()) (panicked string) {
	defer func() {
		if r := recover(); r != nil {
			panicked = fmt.Sprint(r)
			if panicked == "" {
				panicked = "panic"
			}
		}
	}()
	f()
	return ""
}

func observe(fm *fieldmask.FieldMask, q []maskkit.QKey) Obs {
	cur := fm
	o := Obs{Oks: []bool{}, Kids: []Key{}}
	for _, k := range q {
		var ok bool
		switch k.Kind {
		case "f":
			cur, ok = cur.Field(int16(k.Int))
		case "i":
			cur, ok = cur.Int(int(k.Int))
		default:
			cur, ok = cur.Str(k.Str)
		}
		o.Oks = append(o.Oks, ok)
	}
	o.All = cur.All()
	o.Exist = cur.Exist()
	if cur != nil {
		typ := cur.Type()
		cur.ForEachChild(func(s string, i int, c *fieldmask.FieldMask) bool {
			if !c.Exist() {
				return true
			}
			switch typ {
			case fieldmask.FtStruct:
				o.Kids = append(o.Kids, Key{Kind: "f", Int: int64(i)})
			case fieldmask.FtStrMap:
				o.Kids = append(o.Kids, Key{Kind: "s", Str: s})
			default:
				o.Kids = append(o.Kids, Key{Kind: "i", Int: int64(i)})
			}
			return true
		})
		sort.Slice(o.Kids, func(a, b int) bool {
			if o.Kids[a].Int != o.Kids[b].Int {
				return o.Kids[a].Int < o.Kids[b].Int
			}
			return o.Kids[a].Str < o.Kids[b].Str
		})
	}
	return o
}

func observeAll(fm *fieldmask.FieldMask, probes [][]maskkit.QKey) []Obs {
	out := make([]Obs, 0, len(probes))
	for _, q := range probes {
		out = append(out, observe(fm, q))
	}
	return out
}

// ---------------------------------------------------------------- Coq terms

func coqKey(k Key) string {
	switch k.Kind {
	case "f":
		return "(KF " + coqfmt.Z(k.Int) + ")"
	case "i":
		return "(KI " + coqfmt.Z(k.Int) + ")"
	default:
		return "(KS " + coqfmt.Bytes(k.Str) + ")"
	}
}

func coqObs(o Obs) string {
	var oks, kids []string
	for _, b := range o.Oks {
		oks = append(oks, coqfmt.Bool(b))
	}
	for _, k := range o.Kids {
		kids = append(kids, coqKey(k))
	}
	return fmt.Sprintf("(%s, %s, %s, %s)", coqfmt.List(oks), coqfmt.Bool(o.All), coqfmt.Bool(o.Exist), coqfmt.List(kids))
}

func coqObsList(os []Obs) string {
	var ss []string
	for _, o := range os {
		ss = append(ss, coqObs(o))
	}
	return coqfmt.List(ss)
}

func coqStrs(xs []string) string {
	var ss []string
	for _, x := range xs {
		ss = append(ss, coqfmt.Bytes(x))
	}
	return coqfmt.List(ss)
}

func coqProbes(ps [][]maskkit.QKey) string {
	var ss []string
	for _, p := range ps {
		ss = append(ss, maskkit.CoqProbe(p))
	}
	return coqfmt.List(ss)
}

// ---------------------------------------------------------------- JSON trees

type JT struct {
	IsInt   bool
	Int     int64
	Str     string
	Typ     string
	Black   bool
	HasKids bool
	Kids    []*JT
}

var ftNames = []string{"Invalid", "Scalar", "List", "Struct", "StrMap", "IntMap"}

// quoteGo is strconv.Quote restricted to what the model prints (bytes < 0x80)
func (t *JT) text(b *strings.Builder) {
	b.WriteString(`{"path":`)
	if t.IsInt {
		b.WriteString(strconv.FormatInt(t.Int, 10))
	} else {
		b.WriteString(strconv.Quote(t.Str))
	}
	b.WriteString(`,"type":"` + t.Typ + `","is_black":` + strconv.FormatBool(t.Black))
	if t.HasKids {
		b.WriteString(`,"children":[`)
		for i, k := range t.Kids {
			if i > 0 {
				b.WriteByte(',')
			}
			k.text(b)
		}
		b.WriteByte(']')
	}
	b.WriteByte('}')
}

func (t *JT) coq() string {
	p := "(JStr " + coqfmt.Bytes(t.Str) + ")"
	if t.IsInt {
		p = "(JInt " + coqfmt.Z(t.Int) + ")"
	}
	var ks []string
	for _, k := range t.Kids {
		ks = append(ks, k.coq())
	}
	return fmt.Sprintf("(JNode %s Ft%s %s %s %s)", p, t.Typ, coqfmt.Bool(t.Black), coqfmt.Bool(t.HasKids), coqfmt.List(ks))
}

// ---------------------------------------------------------------- the producer

type stats struct {
	Evaluations        int            `json:"evaluations"`
	DistinctNontrivial int            `json:"distinct_nontrivial"`
	Rule               string         `json:"rule"`
	Kinds              map[string]int `json:"cases_by_stream"`
	Descriptors        int            `json:"descriptors"`
	StructsPerDesc     map[int]int    `json:"structs_per_descriptor"`
	PathsPerList       map[int]int    `json:"paths_per_list"`
	SegKinds           map[string]int `json:"segment_kinds"`
	Depth              map[int]int    `json:"path_depth"`
	Perturb            map[string]int `json:"perturbations"`
	ImplOk             int            `json:"impl_built"`
	ImplErr            int            `json:"impl_errors"`
	Black              int            `json:"black_list_cases"`
	Probes             int            `json:"probe_sequences"`
	QueryFlags         map[string]int `json:"query_flags"`
	GetPathProbes      int            `json:"getpath_probes"`
	Variants           map[string]int `json:"variants"`
	TreeOk             int            `json:"json_trees_accepted"`
	TreeErr            int            `json:"json_trees_rejected"`
	TotalityPaths      int            `json:"totality_path_inputs"`
	TotalityJSON       int            `json:"totality_json_inputs"`
	TotalityAccepted   int            `json:"totality_inputs_accepted"`
	Histories          int            `json:"histories"`
	HistoryOps         int            `json:"history_operations"`
	HistoryRetained    int            `json:"history_retained_results_rechecked"`
	Panics             int            `json:"impl_panics"`
	Samples            []interface{}  `json:"samples"`
}

type producer struct {
	w    *maskkit.ShardWriter
	st   *stats
	r    *rng.R
	seen map[string]bool
	out  string
}

func (p *producer) fail(err error) {
	if err != nil {
		fmt.Fprintln(os.Stderr, err)
		os.Exit(2)
	}
}

func (p *producer) addPanic(kind, input, what string) {
	p.st.Panics++
	p.st.Kinds["panic"]++
	p.fail(p.w.Add("CPanic", Case{Kind: kind, Panic: what, Input: input}))
}

func renderAll(ps []maskkit.Path) []string {
	out := make([]string, 0, len(ps))
	for _, x := range ps {
		out = append(out, x.Render())
	}
	return out
}

// runPaths drives one list of paths and records everything observable.
func (p *producer) runPaths(kind string, d *maskkit.Desc, black bool, paths []string, gram []maskkit.Path, fromGrammar bool,
	probes [][]maskkit.QKey, gpaths []string, vars []Variant) {
	c := Case{Kind: kind, Desc: d.Label, IDL: d.IDL, Black: black, Paths: paths, Grammar: fromGrammar, Probes: probes}
	current.Store(fmt.Sprintf("%s desc=%s black=%v paths=%q", kind, d.Label, black, paths))
	atomic.AddInt64(&progress, 1)
	var fm *fieldmask.FieldMask
	pn := guard(func() {
		var err error
		fm, err = fieldmask.Options{BlackListMode: black}.NewFieldMask(d.Real, paths...)
		if err != nil {
			c.Err = "error"
			fm = nil
			return
		}
		c.Ok = true
		c.Obs = observeAll(fm, probes)
		for _, g := range gpaths {
			current.Store(fmt.Sprintf("%s desc=%s black=%v paths=%q GetPath(%q)", kind, d.Label, black, paths, g))
			sub, ex := fm.GetPath(d.Real, g)
			ex2 := fm.PathInMask(d.Real, g)
			if ex != ex2 {
				panic("GetPath and PathInMask disagree")
			}
			c.GPs = append(c.GPs, GP{Path: g, Exist: ex, All: sub.All()})
		}
		j, err := fm.MarshalJSON()
		if err != nil {
			panic("MarshalJSON error: " + err.Error())
		}
		j2, err := fieldmask.Marshal(fm)
		if err != nil || string(j2) != string(j) {
			panic("Marshal differs from MarshalJSON")
		}
		c.JSON = string(j)
		fm2, err := fieldmask.Unmarshal(j)
		if err != nil {
			c.UnErr = "error"
		} else {
			c.UnOk = true
			c.UnObs = observeAll(fm2, probes)
		}
	})
	if pn != "" {
		p.addPanic(kind, current.Load().(string), pn)
		return
	}
	for i := range vars {
		v := &vars[i]
		current.Store(fmt.Sprintf("%s/%s desc=%s black=%v paths=%q", kind, v.Kind, d.Label, black, v.Paths))
		pn := guard(func() {
			vm, err := fieldmask.Options{BlackListMode: black}.NewFieldMask(d.Real, v.Paths...)
			if err != nil {
				return
			}
			v.Ok = true
			v.Obs = observeAll(vm, probes)
		})
		if pn != "" {
			p.addPanic(kind, current.Load().(string), pn)
			return
		}
		p.st.Variants[v.Kind]++
	}
	c.Vars = vars
	// statistics
	st := p.st
	st.Evaluations++
	st.Kinds[kind]++
	st.PathsPerList[len(paths)]++
	if black {
		st.Black++
	}
	if c.Ok {
		st.ImplOk++
	} else {
		st.ImplErr++
	}
	st.Probes += len(probes)
	st.GetPathProbes += len(gpaths)
	for _, o := range c.Obs {
		for _, b := range o.Oks {
			if b {
				st.QueryFlags["pass"]++
			} else {
				st.QueryFlags["reject"]++
			}
		}
	}
	for _, g := range gram {
		st.Depth[len(g)]++
		for _, s := range g {
			st.SegKinds[s.Kind]++
		}
	}
	key := fmt.Sprintf("%s|%v|%q", d.Label, black, paths)
	if len(paths) >= 2 && !p.seen[key] {
		p.seen[key] = true
		st.DistinctNontrivial++
	}
	if len(st.Samples) < 6 && len(paths) >= 3 && c.Ok && kind != "corpus" && st.Evaluations%7 == 0 {
		st.Samples = append(st.Samples, map[string]interface{}{"desc": d.Label, "black": black, "paths": paths, "json": c.JSON})
	}
	// the Coq term
	gramT := "None"
	if fromGrammar {
		gramT = "(Some " + maskkit.CoqPaths(gram) + ")"
	}
	var gps []string
	for _, g := range c.GPs {
		gps = append(gps, fmt.Sprintf("(%s, %s, %s)", coqfmt.Bytes(g.Path), coqfmt.Bool(g.Exist), coqfmt.Bool(g.All)))
	}
	baseObs := coqObsList(c.Obs)
	optObs := func(os []Obs) string {
		t := coqObsList(os)
		if t == baseObs {
			return "None"
		}
		return "(Some " + t + ")"
	}
	var vs []string
	for _, v := range vars {
		vs = append(vs, fmt.Sprintf("(mkvar %s %s %s %s)", coqStrs(v.Paths), maskkit.CoqPaths(v.Gram), coqfmt.Bool(v.Ok), optObs(v.Obs)))
	}
	term := fmt.Sprintf("CPaths env_%s root_%s %s %s %s %s %s %s %s %s %s %s %s",
		d.Label, d.Label, coqfmt.Bool(black), coqStrs(paths), gramT, coqfmt.Bool(c.Ok),
		coqProbes(probes), baseObs, coqfmt.List(gps), coqfmt.Bytes(c.JSON),
		coqfmt.Bool(c.UnOk), optObs(c.UnObs), coqfmt.List(vs))
	p.fail(p.w.Add(term, c))
}

// probesFor derives query sequences from the descriptor and the paths.
func (p *producer) probesFor(g *maskkit.Gen, gram []maskkit.Path, max int) ([][]maskkit.QKey, []string) {
	var probes [][]maskkit.QKey
	seen := map[string]bool{}
	add := func(q []maskkit.QKey) {
		k := fmt.Sprint(q)
		if seen[k] || len(q) == 0 {
			return
		}
		for _, x := range q {
			if x.Kind == "f" && (x.Int > 32767 || x.Int < -32768) {
				return
			}
		}
		seen[k] = true
		probes = append(probes, q)
	}
	r := p.r
	var base [][]maskkit.QKey
	for _, path := range gram {
		for _, q := range g.Expansions(path, 4) {
			base = append(base, q)
		}
	}
	// integer keys a float64 cannot hold: the key and both neighbours are always asked
	var musts [][]maskkit.QKey
	mseen := map[string]bool{}
	for _, q := range base {
		for i, x := range q {
			if x.Kind != "i" || (x.Int < 1<<53-2 && x.Int > -(1<<53-2)) {
				continue
			}
			for _, dlt := range []int64{0, 1, -1} {
				if (dlt > 0 && x.Int == 9223372036854775807) || (dlt < 0 && x.Int == -9223372036854775808) {
					continue
				}
				q2 := append([]maskkit.QKey(nil), q...)
				q2[i] = maskkit.QKey{Kind: "i", Int: x.Int + dlt}
				if k := fmt.Sprint(q2); !mseen[k] && len(musts) < 24 {
					mseen[k] = true
					musts = append(musts, q2)
				}
			}
		}
	}
	// below the root even when there are no paths
	base = append(base, []maskkit.QKey{})
	for _, q := range base {
		add(q)
		t := g.TypeOfKeys(q)
		kids := g.ChildKeys(t)
		// children below the end of the path, and grandchildren
		for i := 0; i < 3 && len(kids) > 0; i++ {
			k := kids[r.Intn(len(kids))]
			q1 := append(append([]maskkit.QKey(nil), q...), k)
			add(q1)
			if r.Chance(1, 2) {
				k2s := g.ChildKeys(g.TypeOfKeys(q1))
				add(append(append([]maskkit.QKey(nil), q1...), k2s[r.Intn(len(k2s))]))
			}
		}
		// a sibling at a random depth, keeping the tail
		if len(q) > 0 {
			i := r.Intn(len(q))
			sib := g.ChildKeys(g.TypeOfKeys(q[:i]))
			q2 := append([]maskkit.QKey(nil), q...)
			q2[i] = sib[r.Intn(len(sib))]
			add(q2)
		}
		// the node a proper prefix ends at (its All / Exist / set children)
		if len(q) > 1 && r.Chance(1, 2) {
			add(append([]maskkit.QKey(nil), q[:r.Range(1, len(q)-1)]...))
		}
		// a key of the wrong kind
		if r.Chance(1, 4) {
			wrong := []maskkit.QKey{{Kind: "f", Int: 1}, {Kind: "i", Int: 1}, {Kind: "s", Str: "a"}}
			i := r.Intn(len(q) + 1)
			q3 := append(append([]maskkit.QKey(nil), q[:i]...), wrong[r.Intn(3)])
			add(q3)
		}
	}
	if len(probes) > max {
		// keep a random subset, deterministic under the seed
		for i := len(probes) - 1; i > 0; i-- {
			j := r.Intn(i + 1)
			probes[i], probes[j] = probes[j], probes[i]
		}
		probes = probes[:max]
	}
	if len(musts) > 0 {
		var rest [][]maskkit.QKey
		for _, q := range probes {
			if !mseen[fmt.Sprint(q)] {
				rest = append(rest, q)
			}
		}
		probes = append(musts, rest...)
	}
	// GetPath probes: the paths themselves and single-key renderings of some probes
	var gps []string
	gseen := map[string]bool{}
	addg := func(s string) {
		if !gseen[s] && len(gps) < 8 {
			gseen[s] = true
			gps = append(gps, s)
		}
	}
	for _, path := range gram {
		if r.Chance(2, 3) {
			addg(path.Render())
		}
	}
	// key sets that span several selections: GetPath goes on with the mask of the LAST key
	for _, path := range gram {
		for i, sg := range path {
			if (sg.Kind != "idx" && sg.Kind != "keyi") || !r.Chance(1, 2) {
				continue
			}
			other := int64(r.Intn(4))
			for _, p2 := range gram {
				if len(p2) > i && p2[i].Kind == sg.Kind && p2[i].Ints[0] != sg.Ints[0] && maskkit.Path(p2[:i]).Render() == maskkit.Path(path[:i]).Render() {
					other = p2[i].Ints[0]
				}
			}
			for _, pair := range [][]int64{{sg.Ints[0], other}, {other, sg.Ints[0]}} {
				np := append(maskkit.Path(nil), path...)
				np[i] = maskkit.PSeg{Kind: sg.Kind, Ints: pair}
				addg(np.Render())
			}
			break
		}
	}
	for _, q := range probes {
		if r.Chance(1, 4) {
			addg(g.RenderKeys(q))
		}
	}
	if r.Chance(1, 3) {
		addg([]string{"$", "$.*", "", "$.", "$[", "$.x[", "$.1[\\", "$.99999999999", "$.99999999999999999999"}[r.Intn(9)])
	}
	return probes, gps
}

func shuffled(r *rng.R, ps []maskkit.Path) []maskkit.Path {
	out := append([]maskkit.Path(nil), ps...)
	for i := len(out) - 1; i > 0; i-- {
		j := r.Intn(i + 1)
		out[i], out[j] = out[j], out[i]
	}
	return out
}

func (p *producer) variantsOf(gram []maskkit.Path) []Variant {
	var vs []Variant
	if len(gram) >= 2 {
		s := shuffled(p.r, gram)
		vs = append(vs, Variant{Kind: "permuted", Gram: s, Paths: renderAll(s)})
		rev := append([]maskkit.Path(nil), gram...)
		for i, j := 0, len(rev)-1; i < j; i, j = i+1, j-1 {
			rev[i], rev[j] = rev[j], rev[i]
		}
		vs = append(vs, Variant{Kind: "reversed", Gram: rev, Paths: renderAll(rev)})
	}
	sp := maskkit.Split(gram)
	if len(sp) != len(gram) && len(sp) <= 40 {
		vs = append(vs, Variant{Kind: "split", Gram: sp, Paths: renderAll(sp)})
		s := shuffled(p.r, sp)
		vs = append(vs, Variant{Kind: "split-permuted", Gram: s, Paths: renderAll(s)})
	}
	if len(gram) >= 1 && p.r.Chance(1, 3) {
		dup := append(append([]maskkit.Path(nil), gram...), gram[p.r.Intn(len(gram))])
		hasStarF := false
		for _, s := range dup[len(dup)-1] {
			if s.Kind == "starf" {
				hasStarF = true
			}
		}
		if !hasStarF {
			vs = append(vs, Variant{Kind: "duplicated", Gram: dup, Paths: renderAll(dup)})
		}
	}
	return vs
}

// perturb leaves the domain on purpose (conflicts, ill-typed paths).
func (p *producer) perturb(g *maskkit.Gen, gram []maskkit.Path) ([]maskkit.Path, string) {
	r := p.r
	if len(gram) == 0 {
		return gram, "none"
	}
	pick := gram[r.Intn(len(gram))]
	ins := func(x maskkit.Path) []maskkit.Path {
		i := r.Intn(len(gram) + 1)
		out := append([]maskkit.Path(nil), gram[:i]...)
		out = append(out, x)
		return append(out, gram[i:]...)
	}
	switch r.Intn(8) {
	case 0: // a proper prefix of an existing path
		if len(pick) >= 1 {
			return ins(append(maskkit.Path(nil), pick[:r.Intn(len(pick))]...)), "prefix"
		}
	case 1, 2: // a star where another path has keys (or keys where it has a star)
		for try := 0; try < 4; try++ {
			q := gram[r.Intn(len(gram))]
			for i, s := range q {
				var rep maskkit.PSeg
				switch s.Kind {
				case "idx":
					rep = maskkit.PSeg{Kind: "idxstar"}
				case "keyi", "keys":
					rep = maskkit.PSeg{Kind: "keystar"}
				case "idxstar":
					rep = maskkit.PSeg{Kind: "idx", Ints: []int64{1, 2}}
				case "name", "id":
					if r.Chance(1, 3) {
						rep = maskkit.PSeg{Kind: "starf"}
					}
				}
				if rep.Kind == "" {
					continue
				}
				np := append(append(maskkit.Path(nil), q[:i]...), rep)
				if rep.Kind != "starf" {
					var tail []maskkit.Path
					g.Select(g.TypeAt(np), 1, np, &tail)
					if len(tail) > 0 {
						np = tail[0]
					}
				}
				return ins(np), "star-vs-key"
			}
		}
	case 3: // the same path twice
		return ins(pick), "duplicate"
	case 4: // unknown field / wrong container kind / key kind
		bad := []maskkit.PSeg{{Kind: "name", Name: "nosuch"}, {Kind: "id", ID: 4242}, {Kind: "idx", Ints: []int64{1}},
			{Kind: "keyi", Ints: []int64{1}}, {Kind: "keys", Strs: []string{"a"}}, {Kind: "idxstar"}, {Kind: "keystar"}, {Kind: "starf"}}
		i := r.Intn(len(pick) + 1)
		np := append(append(maskkit.Path(nil), pick[:i]...), bad[r.Intn(len(bad))])
		return ins(np), "ill-typed"
	case 5: // go on below a struct star
		for _, q := range gram {
			if len(q) > 0 && q[len(q)-1].Kind == "starf" {
				np := append(append(maskkit.Path(nil), q...), maskkit.PSeg{Kind: "name", Name: "x"})
				return ins(np), "past-struct-star"
			}
		}
		np := append(append(maskkit.Path(nil), pick[:0]...), maskkit.PSeg{Kind: "starf"}, maskkit.PSeg{Kind: "id", ID: 1})
		return ins(np), "past-struct-star"
	case 6: // a longer path below an existing end
		var tail []maskkit.Path
		t := g.TypeAt(pick)
		if t != nil {
			g.Select(t, 2, pick, &tail)
			if len(tail) > 0 && len(tail[0]) > len(pick) {
				return ins(tail[0]), "extension"
			}
		}
	case 7: // overlapping key groups
		for _, q := range gram {
			for i, s := range q {
				if s.Kind == "idx" || s.Kind == "keyi" {
					np := append(maskkit.Path(nil), q...)
					np[i] = maskkit.PSeg{Kind: s.Kind, Ints: []int64{s.Ints[0], 77}}
					return ins(np), "overlap"
				}
			}
		}
	}
	return gram, "none"
}

// fieldOf resolves a name / id segment in the struct type t.
func fieldOf(g *maskkit.Gen, t *maskkit.Ty, sg maskkit.PSeg) *maskkit.Field {
	if t == nil || t.Kind != "struct" {
		return nil
	}
	fs := g.D.Structs[t.Name]
	for i := range fs {
		if (sg.Kind == "name" && fs[i].Name == sg.Name) || (sg.Kind == "id" && int64(fs[i].ID) == sg.ID) {
			return &fs[i]
		}
	}
	return nil
}

func overlap(a, b maskkit.PSeg) bool {
	for _, x := range a.Ints {
		for _, y := range b.Ints {
			if x == y {
				return true
			}
		}
	}
	for _, x := range a.Strs {
		for _, y := range b.Strs {
			if x == y {
				return true
			}
		}
	}
	return false
}

// extendSubset stays inside the domain: for a path with a key group of >= 2 members that goes
// on with a struct field, it adds a path that extends a STRICT SUBSET of the members with
// another field.  The second result are paths (never given to the library) below the other
// members: positions that must not be selected by the extension.
func (p *producer) extendSubset(g *maskkit.Gen, gram []maskkit.Path) (maskkit.Path, []maskkit.Path, bool) {
	r := p.r
	for try := 0; try < 6 && len(gram) > 0; try++ {
		q := gram[r.Intn(len(gram))]
		for i, sg := range q {
			n := len(sg.Ints) + len(sg.Strs)
			if (sg.Kind != "idx" && sg.Kind != "keyi" && sg.Kind != "keys") || n < 2 || i+1 >= len(q) {
				continue
			}
			if q[i+1].Kind != "name" && q[i+1].Kind != "id" {
				continue
			}
			et := g.TypeAt(q[:i+1])
			if et == nil || et.Kind != "struct" {
				continue
			}
			// fields already used below an overlapping group at this node
			used := map[int32]bool{}
			usedN := map[string]bool{}
			pre := maskkit.Path(q[:i]).Render()
			bad := false
			for _, p2 := range gram {
				if len(p2) <= i || maskkit.Path(p2[:i]).Render() != pre || p2[i].Kind != sg.Kind || !overlap(p2[i], sg) {
					continue
				}
				if len(p2) == i+1 {
					bad = true // a path ends at the members: any extension is a prefix conflict
					break
				}
				if f := fieldOf(g, et, p2[i+1]); f != nil {
					used[f.ID], usedN[f.Name] = true, true
				} else {
					bad = true // a struct star below the members
				}
			}
			if bad {
				continue
			}
			var free []maskkit.Field
			for _, f := range g.D.Structs[et.Name] {
				if !used[f.ID] && !usedN[f.Name] && g.D.Ft(f.Ty) != "Invalid" {
					free = append(free, f)
				}
			}
			if len(free) == 0 {
				continue
			}
			f2 := free[r.Intn(len(free))]
			// a strict, non-empty subset of the members
			k := r.Range(1, n-1)
			sub := maskkit.PSeg{Kind: sg.Kind}
			rest := maskkit.PSeg{Kind: sg.Kind}
			perm := r.Intn(n)
			for j := 0; j < n; j++ {
				jj := (j + perm) % n
				into := &rest
				if j < k {
					into = &sub
				}
				if sg.Kind == "keys" {
					into.Strs = append(into.Strs, sg.Strs[jj])
				} else {
					into.Ints = append(into.Ints, sg.Ints[jj])
				}
			}
			fseg := maskkit.PSeg{Kind: "name", Name: f2.Name}
			if f2.ID >= 0 && r.Chance(1, 2) {
				fseg = maskkit.PSeg{Kind: "id", ID: int64(f2.ID)}
			}
			var tail []maskkit.Path
			g.Select(f2.Ty, r.Range(0, 1), append(append(maskkit.Path(nil), q[:i]...), sub, fseg), &tail)
			if len(tail) == 0 {
				continue
			}
			np := tail[0]
			other := append(maskkit.Path(nil), np...)
			other[i] = rest
			return np, []maskkit.Path{other}, true
		}
	}
	return nil, nil, false
}

// groupSites lists field-only prefixes (depth <= 3) that end at a list / set / int or string
// keyed map of a struct with at least two selectable fields.
func groupSites(g *maskkit.Gen) []maskkit.Path {
	var out []maskkit.Path
	var rec func(t *maskkit.Ty, pre maskkit.Path, depth int)
	rec = func(t *maskkit.Ty, pre maskkit.Path, depth int) {
		if t == nil || t.Kind != "struct" || depth > 3 {
			return
		}
		seen := map[int32]bool{}
		seenN := map[string]bool{}
		for _, f := range g.D.Structs[t.Name] {
			if seen[f.ID] || seenN[f.Name] {
				continue
			}
			seen[f.ID], seenN[f.Name] = true, true
			np := append(append(maskkit.Path(nil), pre...), maskkit.PSeg{Kind: "name", Name: f.Name})
			var el *maskkit.Ty
			switch f.Ty.Kind {
			case "list", "set":
				el = f.Ty.Elem
			case "map":
				if ft := g.D.Ft(f.Ty); ft == "IntMap" || ft == "StrMap" {
					el = f.Ty.Val
				}
			case "struct":
				rec(f.Ty, np, depth+1)
			}
			if el != nil && el.Kind == "struct" {
				n := 0
				for _, ef := range g.D.Structs[el.Name] {
					if g.D.Ft(ef.Ty) != "Invalid" {
						n++
					}
				}
				if n >= 2 {
					out = append(out, np)
				}
			}
		}
	}
	rec(g.D.Root, nil, 0)
	return out
}

// groupExtensionList: a key group below a site, then one or two paths that extend a strict
// subset of the group with other fields (all inside the domain).
func (p *producer) groupExtensionList(g *maskkit.Gen, sites []maskkit.Path) ([]maskkit.Path, []maskkit.Path, bool) {
	r := p.r
	site := sites[r.Intn(len(sites))]
	ct := g.TypeAt(site)
	if ct == nil {
		return nil, nil, false
	}
	kind := "idx"
	var el *maskkit.Ty
	switch ct.Kind {
	case "list", "set":
		el = ct.Elem
	case "map":
		el = ct.Val
		kind = "keyi"
		if g.D.Ft(ct) == "StrMap" {
			kind = "keys"
		}
	}
	if el == nil || el.Kind != "struct" {
		return nil, nil, false
	}
	var fields []maskkit.Field
	seen := map[int32]bool{}
	seenN := map[string]bool{}
	for _, f := range g.D.Structs[el.Name] {
		if !seen[f.ID] && !seenN[f.Name] && g.D.Ft(f.Ty) != "Invalid" {
			fields = append(fields, f)
		}
		seen[f.ID], seenN[f.Name] = true, true
	}
	if len(fields) < 2 {
		return nil, nil, false
	}
	fperm := r.Intn(len(fields))
	fieldSeg := func(f maskkit.Field) maskkit.PSeg {
		if f.ID >= 0 && r.Chance(1, 2) {
			return maskkit.PSeg{Kind: "id", ID: int64(f.ID)}
		}
		return maskkit.PSeg{Kind: "name", Name: f.Name}
	}
	n := r.Range(2, 3)
	group := maskkit.PSeg{Kind: kind}
	ip := r.Intn(5)
	for j := 0; j < n; j++ {
		if kind == "keys" {
			group.Strs = append(group.Strs, []string{"a", "b", "k1", "x y", "zz"}[(ip+j)%5])
		} else {
			group.Ints = append(group.Ints, []int64{0, 1, 2, 7, 64}[(ip+j)%5])
		}
	}
	pick := func(from, to int) maskkit.PSeg {
		sg := maskkit.PSeg{Kind: kind}
		for j := from; j < to; j++ {
			if kind == "keys" {
				sg.Strs = append(sg.Strs, group.Strs[j])
			} else {
				sg.Ints = append(sg.Ints, group.Ints[j])
			}
		}
		return sg
	}
	mk := func(keys maskkit.PSeg, f maskkit.Field, deep bool) maskkit.Path {
		pre := append(append(maskkit.Path(nil), site...), keys, fieldSeg(f))
		if deep {
			var tail []maskkit.Path
			g.Select(f.Ty, 1, pre, &tail)
			if len(tail) > 0 {
				return tail[0]
			}
		}
		return pre
	}
	fa := fields[fperm%len(fields)]
	fb := fields[(fperm+1)%len(fields)]
	k := r.Range(1, n-1)
	gram := []maskkit.Path{mk(group, fa, r.Chance(1, 3))}
	ext := mk(pick(0, k), fb, r.Chance(1, 3))
	gram = append(gram, ext)
	other := append(maskkit.Path(nil), ext...)
	other[len(site)] = pick(k, n)
	only := []maskkit.Path{other}
	if len(fields) >= 3 && r.Chance(1, 2) {
		fc := fields[(fperm+2)%len(fields)]
		ext2 := mk(pick(n-1, n), fc, false)
		gram = append(gram, ext2)
		o2 := append(maskkit.Path(nil), ext2...)
		o2[len(site)] = pick(0, n-1)
		only = append(only, o2)
	}
	return gram, only, true
}

// mustProbes: the positions of paths that were not given to the library, and just below them
func (p *producer) mustProbes(g *maskkit.Gen, only []maskkit.Path) ([][]maskkit.QKey, []string) {
	var qs [][]maskkit.QKey
	var gps []string
	for _, path := range only {
		for _, q := range g.Expansions(path, 4) {
			ok := len(q) > 0
			for _, x := range q {
				if x.Kind == "f" && (x.Int > 32767 || x.Int < -32768) {
					ok = false
				}
			}
			if ok {
				qs = append(qs, q)
			}
		}
		gps = append(gps, path.Render())
	}
	return qs, gps
}

var mutChars = []string{"$", ".", "[", "]", "{", "}", ",", "*", "\"", "\\", "0", "7", "a", "x", "-", "\"k\"", "99999999999999999999", "4294967296", "\\n", " "}

// inFragment: the escapes of strconv.Unquote the model covers (see coq/Mask/Path.v)
func inFragment(s string) bool {
	for i := 0; i < len(s); i++ {
		if s[i] >= 0x80 {
			return false
		}
		if s[i] == '\\' && i+1 < len(s) {
			if !strings.ContainsRune("\\\"ntrx", rune(s[i+1])) {
				return false
			}
			i++
		}
	}
	return true
}

// mutateModelled mutates a path but stays inside the fragment the model tokenizes
func (p *producer) mutateModelled(s string) string {
	for try := 0; try < 8; try++ {
		if m := p.mutate(s); inFragment(m) {
			return m
		}
	}
	return s
}

func (p *producer) mutate(s string) string {
	r := p.r
	n := r.Range(1, 2)
	for i := 0; i < n; i++ {
		switch r.Intn(5) {
		case 0: // delete a byte
			if len(s) > 0 {
				k := r.Intn(len(s))
				s = s[:k] + s[k+1:]
			}
		case 1, 2: // insert
			k := r.Intn(len(s) + 1)
			s = s[:k] + mutChars[r.Intn(len(mutChars))] + s[k:]
		case 3: // truncate
			if len(s) > 0 {
				s = s[:r.Intn(len(s))]
			}
		default: // replace
			if len(s) > 0 {
				k := r.Intn(len(s))
				s = s[:k] + mutChars[r.Intn(len(mutChars))] + s[k+1:]
			}
		}
	}
	return s
}

func (p *producer) randTree(depth int, root bool) *JT {
	r := p.r
	t := &JT{Typ: ftNames[1+r.Intn(5)], Black: r.Chance(1, 4)}
	if r.Chance(1, 40) {
		t.Typ = "Invalid"
	}
	if root {
		t.Str = "$"
		if r.Chance(1, 30) {
			t.Str = "x"
		}
	}
	if depth > 0 && r.Chance(3, 4) {
		t.HasKids = true
		n := r.Intn(4)
		for i := 0; i < n; i++ {
			k := p.randTree(depth-1, false)
			switch r.Intn(8) {
			case 0:
				k.Str = "*"
			case 1, 2:
				k.Str = []string{"a", "b", "", "*", "$", "q\"uote"}[r.Intn(6)]
			default:
				k.IsInt = true
				k.Int = []int64{-1, 0, 1, 2, 63, 64, 65, 300, -70000, 2147483647, 2147483648, 9223372036854775807, 9223372036854775806,
					-9223372036854775808, -9223372036854775807, 9007199254740992, 9007199254740993, -9007199254740993, 4611686018427387905, 1234567890123456789}[r.Intn(20)]
			}
			// mostly the right kind of key for the parent type
			if r.Chance(3, 4) {
				switch t.Typ {
				case "Struct", "List", "IntMap":
					if !k.IsInt && k.Str != "*" {
						k.IsInt, k.Int = true, int64(r.Intn(5))
					}
				case "StrMap":
					if k.IsInt {
						k.IsInt, k.Str = false, []string{"a", "b", "c"}[r.Intn(3)]
					}
				}
			}
			t.Kids = append(t.Kids, k)
		}
	} else if r.Chance(1, 5) {
		t.HasKids = true
	}
	return t
}

func treeProbes(r *rng.R, t *JT) [][]maskkit.QKey {
	var out [][]maskkit.QKey
	var walk func(n *JT, acc []maskkit.QKey, depth int)
	walk = func(n *JT, acc []maskkit.QKey, depth int) {
		if len(out) > 24 {
			return
		}
		for _, k := range n.Kids {
			var key maskkit.QKey
			switch {
			case k.IsInt && n.Typ == "Struct":
				if k.Int > 32767 || k.Int < -32768 {
					continue
				}
				key = maskkit.QKey{Kind: "f", Int: k.Int}
			case k.IsInt:
				key = maskkit.QKey{Kind: "i", Int: k.Int}
				if k.Int > 1<<53-2 || k.Int < -(1<<53-2) {
					for _, dlt := range []int64{1, -1} {
						if (dlt > 0 && k.Int == 9223372036854775807) || (dlt < 0 && k.Int == -9223372036854775808) {
							continue
						}
						out = append(out, append(append([]maskkit.QKey(nil), acc...), maskkit.QKey{Kind: "i", Int: k.Int + dlt}))
					}
				}
			case k.Str == "*":
				key = []maskkit.QKey{{Kind: "f", Int: 3}, {Kind: "i", Int: 3}, {Kind: "s", Str: "zz"}}[r.Intn(3)]
			default:
				key = maskkit.QKey{Kind: "s", Str: k.Str}
			}
			q := append(append([]maskkit.QKey(nil), acc...), key)
			out = append(out, q)
			walk(k, q, depth+1)
		}
		extra := []maskkit.QKey{{Kind: "f", Int: 1}, {Kind: "f", Int: 64}, {Kind: "i", Int: 0}, {Kind: "i", Int: 2}, {Kind: "s", Str: "a"}, {Kind: "s", Str: "zz"}}
		out = append(out, append(append([]maskkit.QKey(nil), acc...), extra[r.Intn(len(extra))]))
	}
	walk(t, nil, 0)
	return out
}

func (p *producer) runTree(t *JT) {
	var b strings.Builder
	t.text(&b)
	text := b.String()
	probes := treeProbes(p.r, t)
	c := Case{Kind: "json-tree", Tree: text, Probes: probes}
	current.Store("json-tree " + text)
	atomic.AddInt64(&progress, 1)
	pn := guard(func() {
		fm := &fieldmask.FieldMask{}
		if err := fm.UnmarshalJSON([]byte(text)); err != nil {
			c.Err = "error"
			return
		}
		fm1, err := fieldmask.Unmarshal([]byte(text))
		if err != nil {
			panic("Unmarshal fails where UnmarshalJSON succeeds")
		}
		c.Ok = true
		c.Obs = observeAll(fm, probes)
		o1 := observeAll(fm1, probes)
		if fmt.Sprint(o1) != fmt.Sprint(c.Obs) {
			panic("Unmarshal and UnmarshalJSON give different masks")
		}
		j, err := fm.MarshalJSON()
		if err != nil {
			panic("MarshalJSON error: " + err.Error())
		}
		c.Again = string(j)
	})
	if pn != "" {
		p.addPanic("json-tree", text, pn)
		return
	}
	p.st.Evaluations++
	p.st.Kinds["json-tree"]++
	if c.Ok {
		p.st.TreeOk++
	} else {
		p.st.TreeErr++
	}
	p.st.Probes += len(probes)
	term := fmt.Sprintf("CTree %s %s %s %s %s %s", t.coq(), coqfmt.Bytes(text), coqfmt.Bool(c.Ok), coqProbes(probes), coqObsList(c.Obs), coqfmt.Bytes(c.Again))
	p.fail(p.w.Add(term, c))
}

// runHistory: masks fm[0..], a random sequence of MarshalJSON(i) / Marshal(i) / Unmarshal /
// query operations; every returned []byte is KEPT (not copied) next to a copy made when it
// was returned; at the end the kept bytes are compared with the copies and both are read
// back with UnmarshalJSON and queried.
func (p *producer) runHistory(d *maskkit.Desc, specs []HMask, probes [][]maskkit.QKey, nops int) {
	r := p.r
	h := &History{Masks: specs}
	c := Case{Kind: "history", Desc: d.Label, IDL: d.IDL, Probes: probes, Hist: h}
	current.Store(fmt.Sprintf("history desc=%s masks=%v", d.Label, specs))
	atomic.AddInt64(&progress, 1)
	type kept struct {
		step, mask int
		op         string
		b          []byte
		cp         string
	}
	var ks []kept
	built := true
	pn := guard(func() {
		var fms []*fieldmask.FieldMask
		for _, sp := range specs {
			fm, err := fieldmask.Options{BlackListMode: sp.Black}.NewFieldMask(d.Real, sp.Paths...)
			if err != nil {
				built = false
				return
			}
			fms = append(fms, fm)
		}
		for step := 0; step < nops; step++ {
			i := r.Intn(len(fms))
			switch r.Intn(6) {
			case 0, 1, 2:
				b, err := fms[i].MarshalJSON()
				if err != nil {
					panic("MarshalJSON error: " + err.Error())
				}
				ks = append(ks, kept{step, i, "MarshalJSON", b, string(b)})
				h.Ops = append(h.Ops, fmt.Sprintf("MarshalJSON(%d)", i))
			case 3, 4:
				b, err := fieldmask.Marshal(fms[i])
				if err != nil {
					panic("Marshal error: " + err.Error())
				}
				ks = append(ks, kept{step, i, "Marshal", b, string(b)})
				h.Ops = append(h.Ops, fmt.Sprintf("Marshal(%d)", i))
			default:
				// read an earlier result back while the history goes on, and query the mask
				if len(ks) > 0 {
					k := ks[r.Intn(len(ks))]
					if m, err := fieldmask.Unmarshal(k.b); err == nil {
						observeAll(m, probes)
					}
					h.Ops = append(h.Ops, fmt.Sprintf("Unmarshal(result of step %d)", k.step))
				} else {
					observeAll(fms[i], probes)
					h.Ops = append(h.Ops, fmt.Sprintf("query(%d)", i))
				}
			}
		}
		for _, k := range ks {
			h.Texts = append(h.Texts, HText{Step: k.step, Mask: k.mask, Op: k.op, AtReturn: k.cp, AtEnd: string(k.b)})
		}
		// read back a few kept results: from the kept bytes and from the copy
		for n, k := range ks {
			if n >= 3 {
				break
			}
			rd := HRead{Step: k.step, Mask: k.mask, ObsRetained: []Obs{}, ObsCopy: []Obs{}}
			m1 := &fieldmask.FieldMask{}
			if err := m1.UnmarshalJSON(k.b); err == nil {
				rd.OkRetained = true
				rd.ObsRetained = observeAll(m1, probes)
			}
			m2 := &fieldmask.FieldMask{}
			if err := m2.UnmarshalJSON([]byte(k.cp)); err == nil {
				rd.OkCopy = true
				rd.ObsCopy = observeAll(m2, probes)
			}
			h.Reads = append(h.Reads, rd)
		}
	})
	if pn != "" {
		p.addPanic("history", current.Load().(string), pn)
		return
	}
	if !built {
		return
	}
	p.st.Evaluations++
	p.st.Kinds["history"]++
	p.st.Histories++
	p.st.HistoryOps += len(h.Ops)
	p.st.HistoryRetained += len(h.Texts)
	var ms, ts, rs []string
	for _, sp := range specs {
		ms = append(ms, fmt.Sprintf("(%s, %s)", coqfmt.Bool(sp.Black), coqStrs(sp.Paths)))
	}
	for _, t := range h.Texts {
		ts = append(ts, fmt.Sprintf("(%s, %s, %s)", coqfmt.Nat(t.Mask), coqfmt.Bytes(t.AtReturn), coqfmt.Bytes(t.AtEnd)))
	}
	for _, rd := range h.Reads {
		rs = append(rs, fmt.Sprintf("(%s, %s, %s, %s, %s)", coqfmt.Nat(rd.Mask), coqfmt.Bool(rd.OkRetained), coqfmt.Bool(rd.OkCopy),
			coqObsList(rd.ObsRetained), coqObsList(rd.ObsCopy)))
	}
	term := fmt.Sprintf("CHist env_%s root_%s %s %s %s %s", d.Label, d.Label, coqfmt.List(ms), coqProbes(probes), coqfmt.List(ts), coqfmt.List(rs))
	p.fail(p.w.Add(term, c))
}

// totality: arbitrary inputs, every call under recover; only panics are recorded as cases
func (p *producer) totalPath(d *maskkit.Desc, paths []string, q string, black bool) {
	in := fmt.Sprintf("desc=%s black=%v paths=%q query=%q", d.Label, black, paths, q)
	current.Store("totality " + in)
	atomic.AddInt64(&progress, 1)
	p.st.TotalityPaths++
	pn := guard(func() {
		fm, err := fieldmask.Options{BlackListMode: black}.NewFieldMask(d.Real, paths...)
		if err != nil {
			return
		}
		p.st.TotalityAccepted++
		sweep(fm, 2)
		fm.PathInMask(d.Real, q)
		sub, _ := fm.GetPath(d.Real, q)
		sub.All()
		j, err := fm.MarshalJSON()
		if err != nil {
			panic("MarshalJSON error: " + err.Error())
		}
		fm2, err := fieldmask.Unmarshal(j)
		if err != nil {
			return
		}
		sweep(fm2, 2)
		fm2.PathInMask(d.Real, q)
	})
	if pn != "" {
		p.addPanic("totality-path", in, pn)
	}
}

func sweep(fm *fieldmask.FieldMask, depth int) {
	fm.All()
	fm.Exist()
	fm.ForEachChild(func(s string, i int, c *fieldmask.FieldMask) bool { return true })
	if _, err := fm.MarshalJSON(); err != nil {
		panic("MarshalJSON error: " + err.Error())
	}
	if depth == 0 {
		return
	}
	for _, id := range []int16{-1, 0, 1, 2, 63, 64, 300} {
		c, _ := fm.Field(id)
		sweep(c, depth-1)
	}
	for _, i := range []int{-1, 0, 1, 5} {
		c, _ := fm.Int(i)
		sweep(c, depth-1)
	}
	for _, s := range []string{"", "a"} {
		c, _ := fm.Str(s)
		sweep(c, depth-1)
	}
}

func (p *producer) totalJSON(d *maskkit.Desc, doc string) {
	current.Store("totality-json " + doc)
	atomic.AddInt64(&progress, 1)
	p.st.TotalityJSON++
	pn := guard(func() {
		fm, err := fieldmask.Unmarshal([]byte(doc))
		if err != nil {
			return
		}
		p.st.TotalityAccepted++
		sweep(fm, 3)
		for _, q := range []string{"$.a", "$.*", "$.li[1].x", "$.ms{\"a\"}.x", "$.1[1]{1}"} {
			fm.PathInMask(d.Real, q)
		}
	})
	if pn != "" {
		p.addPanic("totality-json", doc, pn)
	}
}

func P(segs ...maskkit.PSeg) maskkit.Path { return maskkit.Path(segs) }
func N(n string) maskkit.PSeg             { return maskkit.PSeg{Kind: "name", Name: n} }
func I(id int64) maskkit.PSeg             { return maskkit.PSeg{Kind: "id", ID: id} }
func Idx(x ...int64) maskkit.PSeg         { return maskkit.PSeg{Kind: "idx", Ints: x} }
func KI(x ...int64) maskkit.PSeg          { return maskkit.PSeg{Kind: "keyi", Ints: x} }
func KS(x ...string) maskkit.PSeg         { return maskkit.PSeg{Kind: "keys", Strs: x} }

var (
	StarF = maskkit.PSeg{Kind: "starf"}
	StarI = maskkit.PSeg{Kind: "idxstar"}
	StarM = maskkit.PSeg{Kind: "keystar"}
)

func main() {
	seed := flag.Uint64("seed", 1, "seed")
	tier := flag.String("tier", "quick", "quick|thorough")
	out := flag.String("out", ".", "output directory")
	coqdir := flag.String("coq", "/verif/coq", "the Coq project (logical path Verif)")
	flag.Parse()
	thorough := *tier == "thorough"

	// descriptors: the fixed ones and random IDLs
	r := rng.New(*seed)
	ndesc := 20
	if thorough {
		ndesc = 48
	}
	var descs []*maskkit.Desc
	for _, s := range maskkit.Fixed {
		d, err := maskkit.Load(s.Label, s.IDL, s.Root)
		if err != nil {
			fmt.Fprintln(os.Stderr, "fixed IDL", s.Label, err)
			os.Exit(2)
		}
		descs = append(descs, d)
	}
	for i := 0; len(descs) < ndesc; i++ {
		s := maskkit.RandomIDL(r, i)
		d, err := maskkit.Load(s.Label, s.IDL, s.Root)
		if err != nil {
			fmt.Fprintln(os.Stderr, "random IDL rejected", err)
			continue
		}
		descs = append(descs, d)
	}
	// the descriptors go into one file compiled once; the shards import it
	var hdr strings.Builder
	hdr.WriteString("From Verif Require Import Base.Bytes Mask.Desc.\n")
	hdr.WriteString("From Coq Require Import List ZArith String.\nImport ListNotations.\nOpen Scope string_scope.\n")
	for _, d := range descs {
		fmt.Fprintf(&hdr, "Definition env_%s : senv := %s.\nDefinition root_%s : ty := %s.\n", d.Label, d.CoqEnv(), d.Label, d.Root.Coq())
	}
	if err := os.WriteFile(filepath.Join(*out, "c14descs.v"), []byte(hdr.String()), 0o644); err != nil {
		fmt.Fprintln(os.Stderr, err)
		os.Exit(2)
	}
	cmd := exec.Command("coqc", "-Q", *coqdir, "Verif", "c14descs.v")
	cmd.Dir = *out
	if outp, err := cmd.CombinedOutput(); err != nil {
		fmt.Fprintln(os.Stderr, "coqc c14descs.v:", err, string(outp))
		os.Exit(2)
	}
	perShard := 60
	w := maskkit.NewShardWriter(*out, "From Verif Require Import Base.Bytes Mask.Path Mask.Desc Mask.Trie Mask.Json Mask.Spec Corr.C14.\nRequire Import c14descs.", perShard)
	st := &stats{Kinds: map[string]int{}, StructsPerDesc: map[int]int{}, PathsPerList: map[int]int{}, SegKinds: map[string]int{},
		Depth: map[int]int{}, Perturb: map[string]int{}, QueryFlags: map[string]int{}, Variants: map[string]int{}, Samples: []interface{}{}}
	p := &producer{w: w, st: st, r: r, seen: map[string]bool{}, out: *out}
	st.Descriptors = len(descs)
	for _, d := range descs {
		st.StructsPerDesc[len(d.Order)]++
	}

	finish := func() {
		p.fail(w.Close())
		st.Rule = "a path list is non-trivial when it has >= 2 paths; distinct = distinct (descriptor, mode, path strings); json trees, mutated lists, histories and totality inputs are counted in their own fields"
		p.fail(casefile.WriteMeta(*out, map[string]interface{}{"stats": st, "shards": w.Shards, "total": w.Total()}))
	}

	// watchdog: a call into the library that does not return is reported as a case
	go func() {
		last, since := int64(-1), time.Now()
		for {
			time.Sleep(500 * time.Millisecond)
			cur := atomic.LoadInt64(&progress)
			if cur != last {
				last, since = cur, time.Now()
				continue
			}
			if time.Since(since) > 20*time.Second {
				what, _ := current.Load().(string)
				st.Kinds["hang"]++
				w.Add("CHang", Case{Kind: "hang", Input: what})
				finish()
				os.Exit(0)
			}
		}
	}()

	basic := descs[0]
	gb := &maskkit.Gen{R: r, D: basic}

	// ---- corpus: known findings and repaired defects, minimised
	type corpusCase struct {
		d     *maskkit.Desc
		black bool
		gram  []maskkit.Path
	}
	corpus := []corpusCase{
		// finding: a later star resets explicit keys (white and black)
		{basic, false, []maskkit.Path{P(N("li"), Idx(1), N("x")), P(N("li"), StarI, N("y"))}},
		{basic, false, []maskkit.Path{P(N("li"), StarI, N("y")), P(N("li"), Idx(1), N("x"))}},
		{basic, false, []maskkit.Path{P(N("ms"), KS("a"), N("x")), P(N("ms"), StarM, N("y"))}},
		// finding: black list, path ending with a star passes everything
		{basic, true, []maskkit.Path{P(StarF)}},
		{basic, true, []maskkit.Path{P(N("ls"), StarI)}},
		{basic, true, []maskkit.Path{P(N("mi"), StarM)}},
		{basic, true, []maskkit.Path{P()}},
		{basic, true, []maskkit.Path{P(N("li"), StarI, N("x"))}},
		// finding: black list, a path and its proper prefix
		{basic, true, []maskkit.Path{P(N("in"), N("x")), P(N("in"))}},
		{basic, false, []maskkit.Path{P(N("in"), N("x")), P(N("in"))}},
		{basic, false, []maskkit.Path{P(N("in")), P(N("in"), N("x"))}},
		// finding: string key that strconv.Quote prints in a form JSON does not know
		{basic, false, []maskkit.Path{P(N("ms"), KS("\x01"))}},
		// finding: the string key "*" is printed like the any-star and read back as it
		{basic, false, []maskkit.Path{P(N("ms"), KS("*"), N("x")), P(N("ms"), KS("b"))}},
		// finding: the empty mask does not survive the JSON round trip
		{basic, false, nil},
		{basic, true, nil},
		// repaired: negative field id, the 63/64 boundary, far ids
		{basic, false, []maskkit.Path{P(N("neg")), P(N("negin"), N("x"))}},
		{basic, false, []maskkit.Path{P(N("b62")), P(I(63)), P(I(64)), P(N("b65"), N("y")), P(I(300), I(1)), P(I(0))}},
		{basic, true, []maskkit.Path{P(N("neg")), P(I(63)), P(I(64))}},
		// repaired: GetPath through typedefs; struct star in GetPath
		{basic, false, []maskkit.Path{P(N("tl"), Idx(1), N("x")), P(N("tin"), N("x")), P(N("me"), KI(1), N("y")), P(N("msl"), KS("k"), Idx(0, 2))}},
		{basic, false, []maskkit.Path{P(StarF)}},
		{basic, false, []maskkit.Path{P(N("in"), StarF)}},
		// struct star twice is an error; the child of a struct star is typed by the first field
		{basic, false, []maskkit.Path{P(StarF), P(StarF)}},
		{descs[1], false, []maskkit.Path{P(StarF, N("b"))}},
		{descs[1], false, []maskkit.Path{P(StarF, N("first"), N("x"))}},
		{descs[2], false, []maskkit.Path{P(N("z"), StarF)}},
		{descs[2], false, []maskkit.Path{P(N("z")), P(N("lz"), Idx(1))}},
		{descs[3], false, []maskkit.Path{P(N("u")), P(N("a"))}},
		{descs[3], false, []maskkit.Path{P(N("lu"), Idx(1))}},
		// other-keyed maps take only the star
		{basic, false, []maskkit.Path{P(N("md"), StarM, N("x"))}},
		{basic, false, []maskkit.Path{P(N("md"), KI(1))}},
		// grouping
		{basic, false, []maskkit.Path{P(N("li"), Idx(1, 2), N("x")), P(N("li"), Idx(3), N("y")), P(N("mi"), KI(1, 2)), P(N("ms"), KS("a", "b"), N("self"), N("x"))}},
		{basic, true, []maskkit.Path{P(N("li"), Idx(1, 2), N("x")), P(N("li"), Idx(3), N("y")), P(N("mi"), KI(1, 2)), P(N("ms"), KS("a", "b"), N("self"), N("x"))}},
		{basic, false, []maskkit.Path{P(N("ll"), Idx(0), Idx(1, 2)), P(N("ll"), Idx(1), StarI), P(N("mim"), KI(4294967296), KS("k"))}},
		// integer keys and indices beyond 2^53 (a float64 cannot hold them), neighbours with different sub masks
		{basic, false, []maskkit.Path{P(N("mi"), KI(9007199254740993), N("x")), P(N("mi"), KI(9007199254740992), N("y")), P(N("mi"), KI(1234567890123456789)),
			P(N("mim"), KI(9223372036854775807), KS("k")), P(N("mim"), KI(9223372036854775806)), P(N("li"), Idx(4611686018427387905), N("x")), P(N("li"), Idx(4611686018427387904), N("y")),
			P(N("st"), Idx(9007199254740993))}},
		{basic, true, []maskkit.Path{P(N("mi"), KI(9007199254740993), N("x")), P(N("mi"), KI(9007199254740992), N("y")), P(N("mi"), KI(1234567890123456789)),
			P(N("mim"), KI(9223372036854775807), KS("k")), P(N("mim"), KI(9223372036854775806)), P(N("li"), Idx(4611686018427387905), N("x")), P(N("li"), Idx(4611686018427387904), N("y")),
			P(N("st"), Idx(9007199254740993))}},
		// GetPath with a key set goes on with the mask of the last key
		{basic, false, []maskkit.Path{P(N("li"), Idx(1), N("x")), P(N("li"), Idx(2), N("y")), P(N("mi"), KI(1), N("x")), P(N("mi"), KI(2), N("y")),
			P(N("ms"), KS("a"), N("x")), P(N("ms"), KS("b"), N("y"))}},
		// duplicate ids / names in the IDL
		{descs[5], false, []maskkit.Path{P(I(2), N("x")), P(N("a"))}},
		{descs[5], false, []maskkit.Path{P(N("c"), Idx(1))}},
	}
	for _, c := range corpus {
		g := &maskkit.Gen{R: r, D: c.d}
		probes, gps := p.probesFor(g, c.gram, 40)
		gps = append(gps, "$.*", "$.tl[1].x", "$.li[1].x", "$.li[1,2].x", "$.in.*",
			"$.li[1,2].y", "$.li[2,1].y", "$.mi{1,2}.y", "$.mi{2,1}.y", "$.ms{\"a\",\"b\"}.y", "$.ms{\"b\",\"a\"}.y")
		p.runPaths("corpus", c.d, c.black, renderAll(c.gram), c.gram, true, probes, gps, p.variantsOf(c.gram))
	}
	// corpus: a key group, then a path that extends only some members of the group (in the
	// domain: the other members must not gain the extension)
	for _, black := range []bool{false, true} {
		gram := []maskkit.Path{P(N("li"), Idx(1, 2), N("x")), P(N("li"), Idx(1), N("y")),
			P(N("mi"), KI(7, 8), N("x")), P(N("mi"), KI(8), N("self"), N("y")),
			P(N("ms"), KS("x", "y"), N("x")), P(N("ms"), KS("x"), N("y"))}
		only := []maskkit.Path{P(N("li"), Idx(2), N("y")), P(N("mi"), KI(7), N("self"), N("y")), P(N("ms"), KS("y"), N("y"))}
		probes, gps := p.probesFor(gb, gram, 24)
		mq, mg := p.mustProbes(gb, only)
		p.runPaths("corpus", basic, black, renderAll(gram), gram, true, append(mq, probes...), append(mg, gps...), p.variantsOf(gram))
	}
	// corpus, not from the grammar: repaired panics / hang, malformed paths that are accepted
	rawCorpus := [][]string{
		{"$.99999999999999999999"}, {"$.4294967296"}, {"$.li[99999999999999999999]"}, {"$.li[4294967296]"},
		{"\"\\"}, {"$.ms{\"abc}"}, {"$.ms{\"abc\"}"}, {"$.li[\\"}, {"$.\\"}, {"\\"},
		{"$.li[1"}, {"$.li["}, {"$.li[,]"}, {"$.li[,]x\""}, {"$.md{,}.x"}, {""}, {"$$"}, {"$.a", ".in.x"}, {"$.li[1,*]"}, {"$.li[*,1]"},
		{"$.li[*]", "$.li[,].x"}, {"$.in.x$"}, {"$.*$.a"}, {"$.mi{1"}, {"$.ms{\"a\",}"}, {"$.li[]"}, {"$.ms{}"}, {"$."}, {"$.in."},
		{"$.-1"}, {"$.neg", "$.-7.x"}, {"$.007"}, {"$.li[007]"}, {"$x"}, {"$.in x"},
	}
	for _, paths := range rawCorpus {
		probes, gps := p.probesFor(gb, []maskkit.Path{P(N("li"), Idx(1)), P(N("in"), N("x")), P(N("ms"), KS("abc")), P(N("md"), StarM, N("x")), P(N("a"))}, 24)
		gps = append(gps, paths[0], "$.li[\\", "$.li[1,\\", "$.ms{\"abc}")
		for _, black := range []bool{false, true} {
			p.runPaths("corpus-raw", basic, black, paths, nil, false, probes, gps, nil)
		}
	}
	// corpus, JSON: type confusion (Field on a List mask), negative path, the null document
	for _, t := range []*JT{
		{Str: "$", Typ: "List", HasKids: true, Kids: []*JT{{IsInt: true, Int: 1, Typ: "Scalar"}}},
		{Str: "$", Typ: "Struct", HasKids: true, Kids: []*JT{{IsInt: true, Int: -1, Typ: "Scalar"}, {IsInt: true, Int: 64, Typ: "Struct"}, {IsInt: true, Int: 63, Typ: "List", HasKids: true}}},
		{Str: "$", Typ: "Struct", HasKids: true, Kids: []*JT{{IsInt: true, Int: 1, Typ: "Scalar"}, {Str: "*", Typ: "Struct"}, {IsInt: true, Int: 2, Typ: "Scalar"}}},
		{Str: "$", Typ: "IntMap", HasKids: true, Kids: []*JT{{IsInt: true, Int: 9007199254740992, Typ: "Scalar"}, {IsInt: true, Int: 9007199254740993, Typ: "Struct", HasKids: true, Kids: []*JT{{IsInt: true, Int: 1, Typ: "Scalar"}}},
			{IsInt: true, Int: -9223372036854775808, Typ: "Scalar"}, {IsInt: true, Int: -9223372036854775807, Typ: "List"}, {IsInt: true, Int: 9223372036854775807, Typ: "Scalar"}, {IsInt: true, Int: 9223372036854775806, Typ: "StrMap"}}},
		{Str: "$", Typ: "List", Black: true, HasKids: true, Kids: []*JT{{IsInt: true, Int: 1234567890123456789, Typ: "Scalar", Black: true}, {IsInt: true, Int: 4611686018427387905, Typ: "Struct", Black: true, HasKids: true, Kids: []*JT{{IsInt: true, Int: 2, Typ: "Scalar", Black: true}}}}},
		{Str: "$", Typ: "Invalid"},
		{Str: "$", Typ: "Scalar", HasKids: true, Kids: []*JT{{IsInt: true, Int: 1, Typ: "Scalar"}}},
		{Str: "$", Typ: "StrMap", Black: true, HasKids: true, Kids: []*JT{{Str: "a", Typ: "Struct", Black: true, HasKids: true, Kids: []*JT{{IsInt: true, Int: 1, Typ: "Scalar", Black: true}}}, {Str: "a", Typ: "List"}}},
	} {
		p.runTree(t)
	}
	for _, doc := range []string{`null`, `{}`, `[]`, `{"path":"$","type":"Struct","children":[{"path":-1,"type":"Scalar"}]}`, `{"path":"$","type":"Struct","children":[{"path":null,"type":"Scalar"}]}`} {
		p.totalJSON(basic, doc)
	}

	// ---- grammar stream
	lists, nprobe := 26, 16
	if thorough {
		lists, nprobe = 64, 24
	}
	for di, d := range descs {
		g := &maskkit.Gen{R: r, D: d}
		for li := 0; li < lists; li++ {
			var gram []maskkit.Path
			n := r.Range(0, 4)
			if n == 0 && r.Chance(3, 4) {
				n = 1
			}
			if n > 0 {
				g.Select(d.Root, r.Range(1, 4), nil, &gram)
				if len(gram) > 10 {
					gram = gram[:10]
				}
			}
			black := r.Chance(2, 5)
			kind := "grammar"
			if r.Chance(3, 10) {
				var how string
				gram, how = p.perturb(g, gram)
				st.Perturb[how]++
				if how != "none" {
					kind = "grammar-perturbed"
				}
			} else {
				gram = shuffled(r, gram)
			}
			var only []maskkit.Path
			if kind == "grammar" && r.Chance(1, 2) {
				if np, others, ok := p.extendSubset(g, gram); ok {
					gram = append(gram, np)
					only = others
					kind = "grammar-subset-extension"
				}
			}
			probes, gps := p.probesFor(g, gram, nprobe)
			if len(only) > 0 {
				mq, mg := p.mustProbes(g, only)
				probes = append(mq, probes...)
				gps = append(mg, gps...)
			}
			p.runPaths(kind, d, black, renderAll(gram), gram, true, probes, gps, p.variantsOf(gram))
			// the same list with one path mutated as text: compared with the model, not with the spec
			if len(gram) > 0 && r.Chance(1, 3) {
				paths := renderAll(gram)
				k := r.Intn(len(paths))
				paths[k] = p.mutateModelled(paths[k])
				p.runPaths("mutated", d, black, paths, nil, false, probes, gps, nil)
			}
		}
		_ = di
	}

	// ---- key groups followed by extensions of a strict subset of their members
	ngroup := 4
	if thorough {
		ngroup = 16
	}
	for _, d := range descs {
		g := &maskkit.Gen{R: r, D: d}
		sites := groupSites(g)
		if len(sites) == 0 {
			continue
		}
		for i := 0; i < ngroup; i++ {
			gram, only, ok := p.groupExtensionList(g, sites)
			if !ok {
				continue
			}
			probes, gps := p.probesFor(g, gram, 10)
			mq, mg := p.mustProbes(g, only)
			p.runPaths("group-extension", d, r.Chance(2, 5), renderAll(gram), gram, true, append(mq, probes...), append(mg, gps...), p.variantsOf(gram))
		}
	}

	// ---- histories: results of Marshal / MarshalJSON kept across later operations
	nhist := 60
	if thorough {
		nhist = 800
	}
	for i := 0; i < nhist; i++ {
		d := descs[r.Intn(len(descs))]
		g := &maskkit.Gen{R: r, D: d}
		var specs []HMask
		var all []maskkit.Path
		for m, nm := 0, r.Range(2, 4); m < nm; m++ {
			var gram []maskkit.Path
			g.Select(d.Root, r.Range(1, 3), nil, &gram)
			if len(gram) > 5 {
				gram = gram[:5]
			}
			all = append(all, gram...)
			specs = append(specs, HMask{Black: r.Chance(1, 3), Paths: renderAll(gram)})
		}
		probes, _ := p.probesFor(g, all, 10)
		p.runHistory(d, specs, probes, r.Range(5, 12))
	}

	// ---- JSON trees into Unmarshal
	ntree := 200
	if thorough {
		ntree = 3000
	}
	for i := 0; i < ntree; i++ {
		p.runTree(p.randTree(r.Range(0, 3), true))
	}

	// ---- totality stream
	ntot := 20000
	if thorough {
		ntot = 1000000
	}
	frags := []string{"$", ".", "[", "]", "{", "}", ",", "*", "\"", "\\", "a", "in", "li", "ls", "mi", "ms", "md", "neg", "x", "self", "f0", "f1", "m1",
		"1", "2", "3", "63", "64", "300", "-1", "99999999999999999999", "4294967296", "\"k\"", "\"a\\\"b\"", " ", "\n", "\xff", "\x00", "\\u00e9", "\"\\xff\"", "\"\\u12\"", "first", "ll", "tl", "me", "st", "0", "00", "9223372036854775807", "9223372036854775808"}
	randPath := func() string {
		var b strings.Builder
		if r.Chance(3, 4) {
			b.WriteByte('$')
		}
		n := r.Intn(10)
		for i := 0; i < n; i++ {
			if r.Chance(1, 12) {
				b.WriteByte(byte(r.Intn(256)))
			} else {
				b.WriteString(frags[r.Intn(len(frags))])
			}
		}
		return b.String()
	}
	var validPaths []string
	for _, c := range corpus {
		validPaths = append(validPaths, renderAll(c.gram)...)
	}
	for i := 0; i < ntot; i++ {
		d := descs[r.Intn(len(descs))]
		np := r.Intn(4)
		var paths []string
		for k := 0; k < np; k++ {
			switch r.Intn(3) {
			case 0:
				paths = append(paths, p.mutate(validPaths[r.Intn(len(validPaths))]))
			default:
				paths = append(paths, randPath())
			}
		}
		p.totalPath(d, paths, randPath(), r.Bool())
	}
	jfr := []string{`{`, `}`, `[`, `]`, `"path"`, `"type"`, `"is_black"`, `"children"`, `:`, `,`, `"$"`, `"*"`, `"Struct"`, `"List"`, `"StrMap"`, `"IntMap"`, `"Scalar"`, `"Invalid"`,
		`true`, `false`, `null`, `1`, `-1`, `63`, `64`, `1.5`, `1e99`, `99999999999999999999`, `"a"`, `{"path":"$","type":"Struct","children":[`, `{"path":1,"type":"List","children":[`,
		`{"path":"*","type":"Scalar"}`, `]}`, `{"path":"$","type":"StrMap","is_black":true,"children":[`, `{"path":"k","type":"IntMap","children":[`, `{"path":-3,"type":"Struct"}`, `"\u002a"`, `"Path"`, `"TYPE"`}
	var validDocs []string
	for _, c := range corpus {
		if fm, err := (fieldmask.Options{BlackListMode: c.black}).NewFieldMask(c.d.Real, renderAll(c.gram)...); err == nil {
			if j, err := fm.MarshalJSON(); err == nil {
				validDocs = append(validDocs, string(j))
			}
		}
	}
	for i := 0; i < ntot; i++ {
		var doc string
		if r.Chance(1, 2) {
			doc = p.mutate(validDocs[r.Intn(len(validDocs))])
		} else {
			var b strings.Builder
			n := r.Intn(14)
			for k := 0; k < n; k++ {
				b.WriteString(jfr[r.Intn(len(jfr))])
			}
			doc = b.String()
		}
		p.totalJSON(basic, doc)
	}
	st.Evaluations += st.TotalityPaths + st.TotalityJSON
	finish()
}
