// Package gendrv compiles thriftgo-generated code for a batch of schema programs together with
// a generic reflection driver, once, and runs command files against it.
//
//	b := gendrv.New(scratchDir, thriftgoBinary, repoDir)
//	b.Add(&gendrv.Unit{Key: "o0/p3", Prog: prog, Options: "gen_setter,nil_safe"})   // any number
//	b.Generate()   real thriftgo per unit (own IDL directory, own output prefix, package_prefix);
//	               units thriftgo rejects are moved to b.Rejected
//	b.Build()      scratch module "drv" (replace thriftgo => repo), driver/*.go + generated registry.go,
//	               one `go build`
//	b.Run(cmds)    one process; returns one JSON object per command
//
// The driver sources live in gendrv/driver (package main, compiled and vetted as part of the harness
// module too). A later property adds verbs by adding a file there (see driver/main.go).
package gendrv

import (
	"bufio"
	"bytes"
	"embed"
	"encoding/json"
	"fmt"
	"go/ast"
	"go/parser"
	"go/token"
	"os"
	"os/exec"
	"path/filepath"
	"sort"
	"strconv"
	"strings"
	"sync"

	"verif/harness/schemagen"
)

//go:embed driver/*.go
var driverFS embed.FS

type Unit struct {
	Key     string             // unique path-like key, e.g. "o0/p3"
	Prog    *schemagen.Program // Files[0] is compiled with -r
	Options string             // thriftgo go-backend options, comma separated ("" = defaults)
	// filled by Build:
	Types map[string]string // "<file>.<IDL name>" -> "<import alias>.New<GoName>"
	// Alts lists every generated type per "<file>.<IDL name>" (more than one when a declared struct has
	// the name of a synthesized <method>_args / <method>_result). Each alternative is also registered in
	// the driver under "<file>.<IDL name>@<GoName>"; Pick chooses one by its thrift tags.
	Alts map[string][]Alt
}

// Alt is one generated Go type whose Write announces a given IDL struct name.
type Alt struct {
	GoName string
	Ctor   string   // "<import alias>.New<GoName>"
	Tags   []string // "name,id" of every tagged field, in Go declaration order
}

// Pick returns the driver key of the generated type registered for qname whose thrift tags
// (as a set of "name,id") equal want; without such a type (or without ambiguity) it returns qname.
func (u *Unit) Pick(qname string, want []string) string {
	alts := u.Alts[qname]
	if len(alts) < 2 {
		return qname
	}
	w := map[string]bool{}
	for _, t := range want {
		w[t] = true
	}
	for _, a := range alts {
		if len(a.Tags) != len(want) {
			continue
		}
		ok := true
		for _, t := range a.Tags {
			ok = ok && w[t]
		}
		if ok {
			return qname + "@" + a.GoName
		}
	}
	return qname
}

type Rejected struct {
	Unit   *Unit
	Output string
}

type Cmd struct {
	Verb string
	Args []string
}

type Batch struct {
	Root     string
	Thriftgo string
	Repo     string
	Units    []*Unit
	Rejected []Rejected
	Jobs     int
	bin      string
}

func New(root, thriftgo, repo string) *Batch {
	return &Batch{Root: root, Thriftgo: thriftgo, Repo: repo, Jobs: 4}
}

func (b *Batch) Add(u *Unit) { b.Units = append(b.Units, u) }

func goEnv() []string {
	e := os.Environ()
	return append(e, "GOFLAGS=-mod=mod", "GOPROXY=off", "GOSUMDB=off", "GOTOOLCHAIN=local")
}

// Generate writes the IDL of every unit and runs thriftgo on it.
func (b *Batch) Generate() error {
	empty := filepath.Join(b.Root, "cwd")
	if err := os.MkdirAll(empty, 0o755); err != nil {
		return err
	}
	type res struct {
		u   *Unit
		out string
		err error
	}
	results := make([]res, len(b.Units))
	sem := make(chan struct{}, b.Jobs)
	var wg sync.WaitGroup
	for i, u := range b.Units {
		wg.Add(1)
		go func(i int, u *Unit) {
			defer wg.Done()
			sem <- struct{}{}
			defer func() { <-sem }()
			idlDir := filepath.Join(b.Root, "idl", u.Key)
			if err := os.MkdirAll(idlDir, 0o755); err != nil {
				results[i] = res{u, "", err}
				return
			}
			for name, text := range u.Prog.Render() {
				if err := os.WriteFile(filepath.Join(idlDir, name), []byte(text), 0o644); err != nil {
					results[i] = res{u, "", err}
					return
				}
			}
			outDir := filepath.Join(b.Root, "gen", u.Key)
			opts := "package_prefix=drv/gen/" + u.Key
			if u.Options != "" {
				opts = u.Options + "," + opts
			}
			cmd := exec.Command(b.Thriftgo, "-r", "-g", "go:"+opts, "-o", outDir,
				filepath.Join(idlDir, u.Prog.Files[0].Name+".thrift"))
			cmd.Dir = empty
			cmd.Env = goEnv()
			out, err := cmd.CombinedOutput()
			// thriftgo's panic handler exits 0 without writing anything: treat "no output" as rejection
			if err == nil {
				if _, serr := os.Stat(outDir); serr != nil {
					err = fmt.Errorf("thriftgo exited 0 but wrote nothing")
				}
			}
			results[i] = res{u, string(out), err}
		}(i, u)
	}
	wg.Wait()
	var kept []*Unit
	for _, r := range results {
		if r.err != nil {
			b.Rejected = append(b.Rejected, Rejected{r.u, r.out + "\n" + r.err.Error()})
			os.RemoveAll(filepath.Join(b.Root, "gen", r.u.Key))
			continue
		}
		kept = append(kept, r.u)
	}
	b.Units = kept
	return nil
}

// scan finds, in the generated packages of a unit, every struct-like: the IDL name is the literal
// passed to WriteStructBegin in the Write method of the type that NewX returns.
func (b *Batch) scan(u *Unit) (imports map[string]string, err error) {
	u.Types = map[string]string{}
	u.Alts = map[string][]Alt{}
	imports = map[string]string{} // import path -> alias
	root := filepath.Join(b.Root, "gen", u.Key)
	err = filepath.Walk(root, func(path string, info os.FileInfo, err error) error {
		if err != nil || info.IsDir() || !strings.HasSuffix(path, ".go") {
			return err
		}
		fset := token.NewFileSet()
		f, perr := parser.ParseFile(fset, path, nil, 0)
		if perr != nil {
			return perr
		}
		rel, _ := filepath.Rel(filepath.Join(b.Root), filepath.Dir(path))
		imp := "drv/" + filepath.ToSlash(rel)
		ctors := map[string]bool{}
		names := map[string]string{} // Go type -> IDL name
		tags := map[string][]string{} // Go type -> "name,id" of its tagged fields
		for _, d := range f.Decls {
			if gd, ok := d.(*ast.GenDecl); ok && gd.Tok == token.TYPE {
				for _, sp := range gd.Specs {
					ts, ok := sp.(*ast.TypeSpec)
					if !ok {
						continue
					}
					stt, ok := ts.Type.(*ast.StructType)
					if !ok {
						continue
					}
					tags[ts.Name.Name] = []string{}
					for _, fl := range stt.Fields.List {
						if fl.Tag == nil {
							continue
						}
						raw, err := strconv.Unquote(fl.Tag.Value)
						if err != nil {
							continue
						}
						i := strings.Index(raw, `thrift:"`)
						if i < 0 {
							continue
						}
						rest := raw[i+len(`thrift:"`):]
						if j := strings.IndexByte(rest, '"'); j >= 0 {
							parts := strings.Split(rest[:j], ",")
							if len(parts) >= 2 {
								tags[ts.Name.Name] = append(tags[ts.Name.Name], parts[0]+","+parts[1])
							}
						}
					}
				}
				continue
			}
			fd, ok := d.(*ast.FuncDecl)
			if !ok {
				continue
			}
			if fd.Recv == nil && strings.HasPrefix(fd.Name.Name, "New") && fd.Type.Params.NumFields() == 0 &&
				fd.Type.Results.NumFields() == 1 {
				if st, ok := fd.Type.Results.List[0].Type.(*ast.StarExpr); ok {
					if id, ok := st.X.(*ast.Ident); ok && "New"+id.Name == fd.Name.Name {
						ctors[id.Name] = true
					}
				}
			}
			if fd.Recv != nil && fd.Name.Name == "Write" && len(fd.Recv.List) == 1 && fd.Body != nil {
				st, ok := fd.Recv.List[0].Type.(*ast.StarExpr)
				if !ok {
					continue
				}
				id, ok := st.X.(*ast.Ident)
				if !ok {
					continue
				}
				ast.Inspect(fd.Body, func(n ast.Node) bool {
					ce, ok := n.(*ast.CallExpr)
					if !ok {
						return true
					}
					se, ok := ce.Fun.(*ast.SelectorExpr)
					if !ok || se.Sel.Name != "WriteStructBegin" || len(ce.Args) != 1 {
						return true
					}
					if bl, ok := ce.Args[0].(*ast.BasicLit); ok && bl.Kind == token.STRING {
						if s, err := strconv.Unquote(bl.Value); err == nil {
							names[id.Name] = s
						}
					}
					return true
				})
			}
		}
		base := strings.TrimSuffix(filepath.Base(path), ".go")
		goNames := make([]string, 0, len(names))
		for goName := range names {
			goNames = append(goNames, goName)
		}
		sort.Strings(goNames)
		for _, goName := range goNames {
			idl := names[goName]
			if !ctors[goName] {
				continue
			}
			alias, ok := imports[imp]
			if !ok {
				alias = fmt.Sprintf("g%d", len(imports))
				imports[imp] = alias
			}
			key := base + "." + idl
			if _, dup := u.Types[key]; !dup {
				u.Types[key] = alias + ".New" + goName
			}
			u.Alts[key] = append(u.Alts[key], Alt{GoName: goName, Ctor: alias + ".New" + goName, Tags: tags[goName]})
		}
		return nil
	})
	return imports, err
}

// Build writes the scratch module and compiles the driver once.
func (b *Batch) Build() error {
	gomod := "module drv\n\ngo 1.18\n\nrequire (\n\tgithub.com/apache/thrift v0.13.0\n\tgithub.com/cloudwego/gopkg v0.2.0\n\tgithub.com/cloudwego/thriftgo v0.0.0\n)\n\nreplace github.com/cloudwego/thriftgo => " + b.Repo + "\n"
	if err := os.WriteFile(filepath.Join(b.Root, "go.mod"), []byte(gomod), 0o644); err != nil {
		return err
	}
	sum, err := os.ReadFile(filepath.Join(b.Repo, "go.sum"))
	if err != nil {
		return err
	}
	if err := os.WriteFile(filepath.Join(b.Root, "go.sum"), sum, 0o644); err != nil {
		return err
	}
	ents, err := driverFS.ReadDir("driver")
	if err != nil {
		return err
	}
	for _, e := range ents {
		data, err := driverFS.ReadFile("driver/" + e.Name())
		if err != nil {
			return err
		}
		if err := os.WriteFile(filepath.Join(b.Root, e.Name()), data, 0o644); err != nil {
			return err
		}
	}
	var reg bytes.Buffer
	reg.WriteString("// generated by gendrv\npackage main\n\nimport (\n")
	var body bytes.Buffer
	n := 0
	for _, u := range b.Units {
		imports, err := b.scan(u)
		if err != nil {
			return fmt.Errorf("scan %s: %v", u.Key, err)
		}
		paths := make([]string, 0, len(imports))
		for p := range imports {
			paths = append(paths, p)
		}
		sort.Strings(paths)
		ren := map[string]string{}
		for _, p := range paths {
			alias := fmt.Sprintf("u%d", n)
			n++
			ren[imports[p]] = alias
			fmt.Fprintf(&reg, "\t%s %q\n", alias, p)
		}
		keys := make([]string, 0, len(u.Types))
		for k := range u.Types {
			keys = append(keys, k)
		}
		sort.Strings(keys)
		for _, k := range keys {
			parts := strings.SplitN(u.Types[k], ".", 2)
			u.Types[k] = ren[parts[0]] + "." + parts[1]
			fmt.Fprintf(&body, "\tRegister(%q, %q, func() interface{} { return %s() })\n", u.Key, k, u.Types[k])
			alts := u.Alts[k]
			for i := range alts {
				ap := strings.SplitN(alts[i].Ctor, ".", 2)
				alts[i].Ctor = ren[ap[0]] + "." + ap[1]
				if len(alts) > 1 {
					fmt.Fprintf(&body, "\tRegister(%q, %q, func() interface{} { return %s() })\n", u.Key, k+"@"+alts[i].GoName, alts[i].Ctor)
				}
			}
		}
	}
	reg.WriteString(")\n\nfunc init() {\n")
	reg.Write(body.Bytes())
	reg.WriteString("}\n")
	if err := os.WriteFile(filepath.Join(b.Root, "registry.go"), reg.Bytes(), 0o644); err != nil {
		return err
	}
	b.bin = filepath.Join(b.Root, "drv.bin")
	cmd := exec.Command("go", "build", "-p", strconv.Itoa(b.Jobs), "-o", b.bin, ".")
	cmd.Dir = b.Root
	cmd.Env = goEnv()
	out, err := cmd.CombinedOutput()
	if err != nil {
		return fmt.Errorf("go build of generated code failed: %v\n%s", err, tail(string(out), 6000))
	}
	return nil
}

func tail(s string, n int) string {
	if len(s) > n {
		return s[len(s)-n:]
	}
	return s
}

// Run executes the commands in one driver process and returns one JSON object per command.
func (b *Batch) Run(cmds []Cmd) ([]json.RawMessage, error) {
	cf := filepath.Join(b.Root, fmt.Sprintf("cmds_%d.txt", len(cmds)))
	f, err := os.Create(cf)
	if err != nil {
		return nil, err
	}
	w := bufio.NewWriterSize(f, 1<<20)
	for _, c := range cmds {
		w.WriteString(c.Verb)
		for _, a := range c.Args {
			w.WriteByte('\t')
			w.WriteString(a)
		}
		w.WriteByte('\n')
	}
	if err := w.Flush(); err != nil {
		return nil, err
	}
	f.Close()
	cmd := exec.Command(b.bin, cf)
	cmd.Dir = b.Root
	var stdout, stderr bytes.Buffer
	cmd.Stdout, cmd.Stderr = &stdout, &stderr
	if err := cmd.Run(); err != nil {
		return nil, fmt.Errorf("driver failed: %v\n%s", err, tail(stderr.String(), 4000))
	}
	out := make([]json.RawMessage, 0, len(cmds))
	sc := bufio.NewScanner(&stdout)
	sc.Buffer(make([]byte, 1<<20), 1<<28)
	for sc.Scan() {
		line := sc.Bytes()
		i := bytes.IndexByte(line, '\t')
		if i < 0 {
			continue
		}
		out = append(out, append(json.RawMessage{}, line[i+1:]...))
	}
	if len(out) != len(cmds) {
		return out, fmt.Errorf("driver answered %d of %d commands\n%s", len(out), len(cmds), tail(stderr.String(), 2000))
	}
	return out, nil
}
