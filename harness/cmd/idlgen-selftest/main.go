// idlgen-selftest checks the idlgen generator against the real thriftgo parser
// (and, for the Valid envelope, the semantic pass, the checker and optionally the
// thriftgo binary).
//
//	idlgen-selftest -seed N -n COUNT -envelope valid|syntactic -layouts K [-thriftgo /path/to/binary] [-keep]
//
// For every generated program and each of K random layouts: the tree is written
// into a fresh temporary directory, the process changes into it, the main file is
// parsed with parser.ParseFile(main, nil, true), the result is converted with
// astdump.Program, Comments are blanked, and the JSON form is compared with the
// intended AST. Any difference is a generator bug (or, with -req-prefixed, the
// known parser defect).
package main

import (
	"bytes"
	"encoding/json"
	"flag"
	"fmt"
	"os"
	"os/exec"
	"path/filepath"
	"sort"
	"strings"
	"time"

	"github.com/cloudwego/thriftgo/parser"
	"github.com/cloudwego/thriftgo/semantic"

	"verif/harness/astdump"
	"verif/harness/idlast"
	"verif/harness/idlgen"
	"verif/harness/rng"
)

func blankComments(p idlast.Program) {
	for _, e := range p {
		f := e.File
		for _, x := range f.Typedefs {
			x.Comments = ""
		}
		for _, x := range f.Constants {
			x.Comments = ""
		}
		for _, x := range f.Enums {
			x.Comments = ""
			for _, v := range x.Values {
				v.Comments = ""
			}
		}
		for _, ss := range [][]*idlast.StructLike{f.Structs, f.Unions, f.Exceptions} {
			for _, s := range ss {
				s.Comments = ""
				for _, fl := range s.Fields {
					fl.Comments = ""
				}
			}
		}
		for _, s := range f.Services {
			s.Comments = ""
			for _, fn := range s.Functions {
				fn.Comments = ""
				for _, fl := range fn.Arguments {
					fl.Comments = ""
				}
				for _, fl := range fn.Throws {
					fl.Comments = ""
				}
			}
		}
	}
}

func js(v interface{}) string {
	b, err := json.Marshal(v)
	if err != nil {
		return "json error: " + err.Error()
	}
	return string(b)
}

func clip(s string) string {
	if len(s) > 700 {
		return s[:700] + "…"
	}
	return s
}

// firstDiff names the first place where the two programs differ.
func firstDiff(want, got idlast.Program) string {
	if len(want) != len(got) {
		var a, b []string
		for _, e := range want {
			a = append(a, string(e.Filename))
		}
		for _, e := range got {
			b = append(b, string(e.Filename))
		}
		return fmt.Sprintf("file lists differ: intended %v, parsed %v", a, b)
	}
	for i := range want {
		if want[i].Filename != got[i].Filename {
			return fmt.Sprintf("file #%d: intended %q, parsed %q", i, want[i].Filename, got[i].Filename)
		}
		w, g := want[i].File, got[i].File
		if js(w) == js(g) {
			continue
		}
		lists := []struct {
			name string
			w, g []interface{}
		}{
			{"include", toAny(w.Includes), toAny(g.Includes)},
			{"cpp_include", toAny(w.CppIncludes), toAny(g.CppIncludes)},
			{"namespace", toAny(w.Namespaces), toAny(g.Namespaces)},
			{"typedef", toAny(w.Typedefs), toAny(g.Typedefs)},
			{"const", toAny(w.Constants), toAny(g.Constants)},
			{"enum", toAny(w.Enums), toAny(g.Enums)},
			{"struct", toAny(w.Structs), toAny(g.Structs)},
			{"union", toAny(w.Unions), toAny(g.Unions)},
			{"exception", toAny(w.Exceptions), toAny(g.Exceptions)},
			{"service", toAny(w.Services), toAny(g.Services)},
		}
		for _, l := range lists {
			if len(l.w) != len(l.g) {
				return fmt.Sprintf("%s: %d %s(s) intended, %d parsed", w.Filename, len(l.w), l.name, len(l.g))
			}
			for k := range l.w {
				if a, b := js(l.w[k]), js(l.g[k]); a != b {
					return fmt.Sprintf("%s: %s #%d differs\n  intended: %s\n  parsed:   %s", w.Filename, l.name, k, clip(a), clip(b))
				}
			}
		}
		return fmt.Sprintf("%s: differs outside the definition lists\n  intended: %s\n  parsed:   %s", w.Filename, clip(js(w)), clip(js(g)))
	}
	return ""
}

func toAny[T any](xs []T) []interface{} {
	out := make([]interface{}, len(xs))
	for i, x := range xs {
		out[i] = x
	}
	return out
}

func atLeast1(n int) int {
	if n < 1 {
		return 1
	}
	return n
}

func parse(main string) (t *parser.Thrift, err error) {
	defer func() {
		if r := recover(); r != nil {
			err = fmt.Errorf("parser panic: %v", r)
		}
	}()
	return parser.ParseFile(main, nil, true)
}

// pipeline runs what sdk.InvokeThriftgo runs before code generation.
func pipeline(main string) (err error) {
	defer func() {
		if r := recover(); r != nil {
			err = fmt.Errorf("panic: %v", r)
		}
	}()
	ast, err := parser.ParseFile(main, nil, true)
	if err != nil {
		return fmt.Errorf("parse: %w", err)
	}
	if path := parser.CircleDetect(ast); len(path) > 0 {
		return fmt.Errorf("include circle: %s", path)
	}
	checker := semantic.NewChecker(semantic.Options{FixWarnings: true})
	if _, err := checker.CheckAll(ast); err != nil {
		return fmt.Errorf("checker: %w", err)
	}
	if err := semantic.ResolveSymbols(ast); err != nil {
		return fmt.Errorf("resolve: %w", err)
	}
	return nil
}

func main() {
	seed := flag.Uint64("seed", 1, "master seed")
	n := flag.Int("n", 100, "number of programs")
	envName := flag.String("envelope", "valid", "valid | syntactic")
	layouts := flag.Int("layouts", 3, "random layouts per program")
	thriftgo := flag.String("thriftgo", "", "thriftgo binary: additionally require `thriftgo -g go` to exit 0 (valid envelope)")
	keep := flag.Bool("keep", false, "keep the temporary trees of failing cases")
	maxFiles := flag.Int("max-files", 0, "Options.MaxFiles")
	size := flag.Int("size", 0, "Options.Size")
	reqPrefixed := flag.Bool("req-prefixed", false, "Options.ReqPrefixedTypeNames (expect mismatches: known parser defect)")
	naming := flag.Bool("naming-stress", false, "Options.NamingStress")
	tdc := flag.Bool("typedef-container-consts", false, "Options.TypedefContainerConsts")
	evt := flag.Bool("enum-via-typedef", false, "Options.EnumViaTypedef")
	ifl := flag.Bool("ident-in-foreign-literal", false, "Options.IdentInForeignStructLiteral")
	iad := flag.Bool("ident-in-arg-default", false, "Options.IdentInArgDefault")
	npp := flag.Bool("new-prefix-pairs", false, "Options.NewPrefixPairs")
	raw := flag.Bool("raw-literals", false, "Options.RawLiterals")
	hostile := flag.Bool("compile-hostile", false, "Options.CompileHostile")
	unrepaired := flag.Bool("unrepaired", false, "restrict layouts to spellings the unrepaired parser reads (decimal field ids, no exponent)")
	canonical := flag.Bool("canonical", false, "also check the canonical (zero) layout of every program")
	dump := flag.Int("dump", -1, "print the canonical rendering of program #N and exit")
	writeDir := flag.String("write", "", "also write every program (canonical layout) under DIR/p<index>/ and print its main file")
	verbose := flag.Bool("v", false, "print every failure in full")
	maxShow := flag.Int("show", 5, "failures to print per category")
	flag.Parse()

	opt := idlgen.Options{MaxFiles: *maxFiles, Size: *size, ReqPrefixedTypeNames: *reqPrefixed, NamingStress: *naming,
		TypedefContainerConsts: *tdc, EnumViaTypedef: *evt, IdentInForeignStructLiteral: *ifl, IdentInArgDefault: *iad, NewPrefixPairs: *npp, RawLiterals: *raw, CompileHostile: *hostile}
	switch *envName {
	case "valid":
		opt.Envelope = idlgen.Valid
	case "syntactic":
		opt.Envelope = idlgen.Syntactic
	default:
		fmt.Fprintln(os.Stderr, "unknown envelope", *envName)
		os.Exit(2)
	}
	start, err := os.Getwd()
	if err != nil {
		panic(err)
	}
	if *thriftgo != "" {
		if abs, err := filepath.Abs(*thriftgo); err == nil {
			*thriftgo = abs
		}
	}

	master := rng.New(*seed)                          // programs
	layoutMaster := rng.New(*seed ^ 0x5bd1e995c0ffee) // layouts: program #i is the same whatever -layouts is
	stats := map[string]int{}
	var genTime, renderTime time.Duration
	var nondeterministic, programs, layoutRuns, mismatches, parseErrors, rejected, rejectedByBinary, bytesOut int
	shown := map[string]int{}
	report := func(cat, msg string) {
		shown[cat]++
		if *verbose || shown[cat] <= *maxShow {
			fmt.Printf("[%s] %s\n", cat, msg)
		}
	}

	for i := 0; i < *n; i++ {
		pseed := master.U64()
		t0 := time.Now()
		p := idlgen.Generate(rng.New(pseed), opt)
		genTime += time.Since(t0)
		programs++
		// determinism: the same seed gives the same program and the same text
		if q := idlgen.Generate(rng.New(pseed), opt); !bytes.Equal(q.AST().JSON(), p.AST().JSON()) ||
			js(q.Render(&idlgen.Layout{Seed: 7, Spacing: idlgen.SpacingRandom, Comments: idlgen.CommentsRandom, Separators: idlgen.SepRandom})) !=
				js(p.Render(&idlgen.Layout{Seed: 7, Spacing: idlgen.SpacingRandom, Comments: idlgen.CommentsRandom, Separators: idlgen.SepRandom})) {
			nondeterministic++
			report("nondeterministic", fmt.Sprintf("program #%d (program seed %d)", i, pseed))
		}
		for k, v := range p.Stats() {
			stats[k] += v
		}
		if *dump == i {
			texts := p.Render(nil)
			for _, e := range p.AST() {
				fmt.Printf("=== %s\n%s\n", e.Filename, texts[string(e.Filename)])
			}
			return
		}
		if *writeDir != "" {
			d := filepath.Join(*writeDir, fmt.Sprintf("p%d", i))
			if _, err := p.WriteTree(d, nil); err != nil {
				panic(err)
			}
			fmt.Printf("wrote %s main=%s\n", d, p.Main())
		}
		want := p.AST()
		wantJSON := want.JSON()
		if p.Coq() == "" {
			panic("empty Coq term")
		}
		nl := *layouts
		if *canonical {
			nl++
		}
		for k := 0; k < nl; k++ {
			var l *idlgen.Layout
			if k == *layouts {
				l = &idlgen.Layout{}
			} else {
				l = idlgen.RandomLayout(layoutMaster.Fork())
				if *unrepaired {
					l = l.Unrepaired()
				}
			}
			layoutRuns++
			tmp, err := os.MkdirTemp("", "idlgen-selftest-")
			if err != nil {
				panic(err)
			}
			root := filepath.Join(tmp, "root")
			t1 := time.Now()
			texts := p.Render(l)
			renderTime += time.Since(t1)
			for _, s := range texts {
				bytesOut += len(s)
			}
			if _, err := p.WriteTree(root, l); err != nil {
				panic(err)
			}
			if err := os.Chdir(root); err != nil {
				panic(err)
			}
			failed := false
			id := fmt.Sprintf("program #%d layout #%d (seed %d, program seed %d, %s)", i, k, *seed, pseed, opt.Envelope)
			t, err := parse(p.Main())
			if err != nil {
				parseErrors++
				failed = true
				report("parse-error", id+": "+strings.TrimSpace(err.Error())+"  tree: "+root)
			} else {
				got, err := astdump.ProgramChecked(t)
				if err != nil {
					mismatches++
					failed = true
					report("mismatch", id+": "+err.Error())
				} else {
					blankComments(got)
					if !bytes.Equal(got.JSON(), wantJSON) {
						mismatches++
						failed = true
						report("mismatch", id+": "+firstDiff(want, got)+"\n  tree: "+root)
					}
				}
			}
			if !failed && opt.Envelope == idlgen.Valid {
				if err := pipeline(p.Main()); err != nil {
					rejected++
					failed = true
					report("rejected", id+": "+clip(err.Error())+"  tree: "+root)
				} else if *thriftgo != "" {
					cmd := exec.Command(*thriftgo, "-g", "go", "-o", filepath.Join(tmp, "out"), "-r", p.Main())
					cmd.Dir = root
					out, err := cmd.CombinedOutput()
					if err != nil || bytes.Contains(out, []byte("Recovered from panic")) {
						rejectedByBinary++
						failed = true
						var lines []string
						for _, ln := range strings.Split(string(out), "\n") {
							if !strings.Contains(ln, "[WARN]") && strings.TrimSpace(ln) != "" {
								lines = append(lines, ln)
							}
							if len(lines) >= 4 {
								break
							}
						}
						report("rejected-by-thriftgo", fmt.Sprintf("%s: %v: %s  tree: %s", id, err, clip(strings.Join(lines, " | ")), root))
					}
				}
			}
			if err := os.Chdir(start); err != nil {
				panic(err)
			}
			if !(failed && *keep) {
				os.RemoveAll(tmp)
			}
		}
	}

	fmt.Printf("\nidlgen self-test: envelope=%s seed=%d options=%+v\n", opt.Envelope, *seed, opt)
	fmt.Printf("programs            %d\n", programs)
	fmt.Printf("layouts parsed      %d\n", layoutRuns)
	fmt.Printf("nondeterministic    %d\n", nondeterministic)
	fmt.Printf("parse errors        %d\n", parseErrors)
	fmt.Printf("AST mismatches      %d\n", mismatches)
	if opt.Envelope == idlgen.Valid {
		fmt.Printf("rejected (semantic) %d\n", rejected)
		if *thriftgo != "" {
			fmt.Printf("rejected (binary)   %d\n", rejectedByBinary)
		}
	}
	fmt.Printf("generate            %.3f ms / program\n", float64(genTime.Microseconds())/1000/float64(atLeast1(programs)))
	fmt.Printf("render              %.3f ms / layout (%d bytes on average)\n", float64(renderTime.Microseconds())/1000/float64(atLeast1(layoutRuns)), bytesOut/atLeast1(layoutRuns))
	keys := make([]string, 0, len(stats))
	for k := range stats {
		keys = append(keys, k)
	}
	sort.Strings(keys)
	fmt.Println("stats:")
	for _, k := range keys {
		fmt.Printf("  %-52s %d\n", k, stats[k])
	}
	if nondeterministic+parseErrors+mismatches+rejected+rejectedByBinary > 0 {
		os.Exit(1)
	}
}
