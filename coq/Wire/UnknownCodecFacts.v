(* Wire/UnknownCodecFacts.v — the byte-level re-encoder of the keep_unknown_fields extension
   (Unknown.append_val / append_field = unknown.read / Fields.Append, Unknown.uwrite / write_unknown
   = unknown.write / Fields.Write).

     uwrite_dec            binary.go's reader accepts exactly what the TBinaryProtocol model accepts
     append_val_spec       unknown.read yields the binary encoding, and fails exactly when the value
                           nests deeper than the limit
     write_unknown_enc     Fields.Write parses the concatenated encodings of well-formed fields back
     unknown_reencode_id   within the limit the kept bytes re-encode to exactly the original field
     unknown_reencode_many the same for a whole buffer: arrival order, nothing dropped or duplicated *)
From Coq Require Import List ZArith Bool Lia.
From Coq.Strings Require Import Byte.
From Verif Require Import Base.Bytes Base.BE Wire.TType Wire.WVal Wire.Codec Wire.CodecFacts Wire.Unknown.
Import ListNotations.
Open Scope Z_scope.

(* ------------------------------------------------------------------ combinators are extensional *)

Lemma rep_ext {A} (p q : bytes -> option (A * bytes)) :
  (forall bs, p bs = q bs) -> forall n bs, rep p n bs = rep q n bs.
Proof.
  intros H n. induction n as [|n IH]; intro bs; cbn [rep]; [reflexivity|].
  rewrite H. destruct (q bs) as [[x r]|]; [|reflexivity]. rewrite IH. reflexivity.
Qed.

Lemma pairp_ext {A B} (p p' : bytes -> option (A * bytes)) (q q' : bytes -> option (B * bytes)) :
  (forall bs, p bs = p' bs) -> (forall bs, q bs = q' bs) -> forall bs, pairp p q bs = pairp p' q' bs.
Proof.
  intros Hp Hq bs. unfold pairp. rewrite Hp. destruct (p' bs) as [[a r]|]; [|reflexivity].
  rewrite Hq. reflexivity.
Qed.

Lemma fields_ext d d' : (forall t bs, d t bs = d' t bs) -> forall n bs, fields d n bs = fields d' n bs.
Proof.
  intros H n. induction n as [|n IH]; intro bs; cbn [fields]; [reflexivity|].
  destruct (get_be 1 bs) as [[c r]|]; [|reflexivity].
  destruct (c =? 0); [reflexivity|].
  destruct (of_code c) as [ft|]; [|reflexivity].
  destruct (get_s 2 r) as [[id r1]|]; [|reflexivity].
  rewrite H. destruct (d' ft r1) as [[x r2]|]; [|reflexivity].
  rewrite IH. reflexivity.
Qed.

(* ------------------------------------------------------------------ binary.go's reader = the protocol model *)

Theorem uwrite_dec : forall f t bs, uwrite f t bs = dec f t bs.
Proof.
  induction f as [|f IH]; intros t bs; [reflexivity|].
  destruct t; cbn [uwrite dec]; try reflexivity.
  - (* string: binary.go's own bound *)
    unfold get_count. destruct (get_s 4 bs) as [[n r]|] eqn:E; [|reflexivity].
    destruct (Z.ltb_spec n 0) as [Hn|Hn]; [reflexivity|]. cbn [orb].
    destruct (Z.ltb_spec (Z.of_nat (length bs)) n) as [Hl|Hl]; [|reflexivity].
    (* size beyond the whole buffer: the protocol model fails as well *)
    apply get_s_split in E. destruct E as (used & -> & Hu & _).
    rewrite app_length in Hl.
    destruct (Nat.ltb_spec (length r) (Z.to_nat n)) as [_|Hge]; [reflexivity|lia].
  - (* struct *)
    rewrite (fields_ext (uwrite f) (dec f) IH). reflexivity.
  - (* map *)
    destruct (get_be 1 bs) as [[c r]|]; [|reflexivity].
    destruct (of_code c) as [kt|]; [|reflexivity].
    destruct (get_be 1 r) as [[c2 r0]|]; [|reflexivity].
    destruct (of_code c2) as [vt|]; [|reflexivity].
    destruct (get_count r0) as [[n r1]|]; [|reflexivity].
    rewrite (rep_ext _ _ (pairp_ext _ _ _ _ (IH kt) (IH vt))). reflexivity.
  - (* set *)
    destruct (get_be 1 bs) as [[c r]|]; [|reflexivity].
    destruct (of_code c) as [et|]; [|reflexivity].
    destruct (get_count r) as [[n r1]|]; [|reflexivity].
    rewrite (rep_ext _ _ (IH et)). reflexivity.
  - (* list *)
    destruct (get_be 1 bs) as [[c r]|]; [|reflexivity].
    destruct (of_code c) as [et|]; [|reflexivity].
    destruct (get_count r) as [[n r1]|]; [|reflexivity].
    rewrite (rep_ext _ _ (IH et)). reflexivity.
Qed.

(* ------------------------------------------------------------------ unknown.read *)

Definition app_list_go (d : nat) :=
  fix go (l : list wval) : option bytes :=
    match l with
    | [] => Some []
    | x :: r => match append_val d x with
                | None => None
                | Some b => match go r with None => None | Some br => Some (b ++ br) end end
    end.
Definition app_map_go (d : nat) :=
  fix go (l : list (wval * wval)) : option bytes :=
    match l with
    | [] => Some []
    | (k, x) :: r =>
        match append_val d k with
        | None => None
        | Some bk => match append_val d x with
                     | None => None
                     | Some bx => match go r with None => None | Some br => Some (bk ++ bx ++ br) end end
        end
    end.
Definition app_fields_go (d : nat) :=
  fix go (l : list (ttype * Z * wval)) : option bytes :=
    match l with
    | [] => Some [x00]
    | (t, id, x) :: r =>
        match append_val d x with
        | None => None
        | Some b => match go r with
                    | None => None
                    | Some br => Some (put_be 1 (code t) ++ put_be 2 id ++ b ++ br) end
        end
    end.

(* unknown.read: the encoding when the nesting fits, ErrExceedDepthLimit otherwise *)
Theorem append_val_spec : forall w d,
  append_val d w = if (depth w <=? d)%nat then Some (enc w) else None.
Proof.
  fix ind 1. intros w d.
  destruct d as [|d].
  - (* maxDepth <= 0 *)
    assert (H : (depth w <=? 0)%nat = false) by (destruct w; reflexivity).
    rewrite H. destruct w; reflexivity.
  - destruct w; try (cbn [append_val depth enc]; reflexivity).
    + (* struct *)
      cbn [append_val]. fold (app_fields_go d). change (depth (WStruct fs)) with (S (depth_struct_go fs)).
      rewrite enc_struct_unfold. cbn [Nat.leb].
      induction fs as [|[[t i] x] fs IHfs]; [reflexivity|].
      cbn [app_fields_go]. fold (app_fields_go d). rewrite (ind x d), IHfs.
      cbn [depth_struct_go]. fold depth_struct_go. rewrite enc_fields_go_cons.
      destruct (Nat.leb_spec (depth x) d) as [Hx|Hx];
        destruct (Nat.leb_spec (depth_struct_go fs) d) as [Hr|Hr];
        destruct (Nat.leb_spec (Nat.max (depth x) (depth_struct_go fs)) d) as [Hm|Hm];
        try reflexivity; lia.
    + (* map *)
      cbn [append_val]. fold (app_map_go d). change (depth (WMap kt vt kvs)) with (S (depth_map_go kvs)).
      rewrite enc_map_unfold. cbn [Nat.leb].
      assert (E : app_map_go d kvs = if (depth_map_go kvs <=? d)%nat then Some (enc_map_go kvs) else None).
      { induction kvs as [|[k x] kvs IHk]; [reflexivity|].
        cbn [app_map_go]. fold (app_map_go d). rewrite (ind k d), (ind x d), IHk.
        cbn [depth_map_go enc_map_go]. fold depth_map_go. fold enc_map_go.
        destruct (Nat.leb_spec (depth k) d) as [Hk|Hk];
          destruct (Nat.leb_spec (depth x) d) as [Hx|Hx];
          destruct (Nat.leb_spec (depth_map_go kvs) d) as [Hr|Hr];
          destruct (Nat.leb_spec (Nat.max (Nat.max (depth k) (depth x)) (depth_map_go kvs)) d) as [Hm|Hm];
          try reflexivity; lia. }
      rewrite E. destruct (depth_map_go kvs <=? d)%nat; reflexivity.
    + (* set *)
      cbn [append_val]. fold (app_list_go d). change (depth (WSet et l)) with (S (depth_list_go l)).
      rewrite enc_set_unfold. cbn [Nat.leb].
      assert (E : app_list_go d l = if (depth_list_go l <=? d)%nat then Some (enc_list_go l) else None).
      { induction l as [|x l IHl]; [reflexivity|].
        cbn [app_list_go]. fold (app_list_go d). rewrite (ind x d), IHl.
        cbn [depth_list_go enc_list_go]. fold depth_list_go. fold enc_list_go.
        destruct (Nat.leb_spec (depth x) d) as [Hx|Hx];
          destruct (Nat.leb_spec (depth_list_go l) d) as [Hr|Hr];
          destruct (Nat.leb_spec (Nat.max (depth x) (depth_list_go l)) d) as [Hm|Hm];
          try reflexivity; lia. }
      rewrite E. destruct (depth_list_go l <=? d)%nat; reflexivity.
    + (* list *)
      cbn [append_val]. fold (app_list_go d). change (depth (WList et l)) with (S (depth_list_go l)).
      rewrite enc_list_unfold. cbn [Nat.leb].
      assert (E : app_list_go d l = if (depth_list_go l <=? d)%nat then Some (enc_list_go l) else None).
      { induction l as [|x l IHl]; [reflexivity|].
        cbn [app_list_go]. fold (app_list_go d). rewrite (ind x d), IHl.
        cbn [depth_list_go enc_list_go]. fold depth_list_go. fold enc_list_go.
        destruct (Nat.leb_spec (depth x) d) as [Hx|Hx];
          destruct (Nat.leb_spec (depth_list_go l) d) as [Hr|Hr];
          destruct (Nat.leb_spec (Nat.max (depth x) (depth_list_go l)) d) as [Hm|Hm];
          try reflexivity; lia. }
      rewrite E. destruct (depth_list_go l <=? d)%nat; reflexivity.
Qed.

Corollary append_val_enc w d : (depth w <= d)%nat -> append_val d w = Some (enc w).
Proof. intro H. rewrite append_val_spec. destruct (Nat.leb_spec (depth w) d); [reflexivity|lia]. Qed.

Corollary append_val_limit w d : (d < depth w)%nat -> append_val d w = None.
Proof. intro H. rewrite append_val_spec. destruct (Nat.leb_spec (depth w) d); [lia|reflexivity]. Qed.

(* Fields.Append: the field as the protocol would encode it, or the depth error *)
Theorem append_field_spec f d :
  append_field d f = if (depth (snd f) <=? d)%nat then Some (enc_field f) else None.
Proof.
  unfold append_field. rewrite append_val_spec. destruct f as [[t id] x]. cbn [fst snd enc_field].
  destruct (depth x <=? d)%nat; reflexivity.
Qed.

Corollary append_field_some f d b : append_field d f = Some b -> b = enc_field f /\ (depth (snd f) <= d)%nat.
Proof.
  rewrite append_field_spec. destruct (Nat.leb_spec (depth (snd f)) d) as [Hd|Hd]; [|discriminate].
  intro Hb. injection Hb as <-. split; [reflexivity|assumption].
Qed.

(* ------------------------------------------------------------------ Fields.Write *)

(* a field as it appears inside a well-formed struct *)
Definition wf_field (f : wfield) : Prop :=
  wtype (snd f) = fst (fst f) /\ in_srange 2 (snd (fst f)) /\ wf (snd f).

Lemma enc_field_length f : (3 <= length (enc_field f))%nat.
Proof. destruct f as [[t id] x]. cbn [enc_field]. rewrite !app_length, !put_be_length. lia. Qed.

Lemma flat_enc_length (fs : list wfield) : (length fs <= length (flat_map enc_field fs))%nat.
Proof.
  induction fs as [|f fs IH]; [cbn; lia|]. cbn [flat_map length]. rewrite app_length.
  pose proof (enc_field_length f). lia.
Qed.

Lemma write_unknown_enc : forall (fs : list wfield) fuel,
  Forall wf_field fs -> (length fs <= fuel)%nat ->
  write_unknown fuel (flat_map enc_field fs) = Some fs.
Proof.
  induction fs as [|[[t id] x] fs IH]; intros fuel Hwf Hfuel.
  - destruct fuel; reflexivity.
  - inversion Hwf as [|? ? [Ht [Hid Hx]] Hrest]; subst. cbn [fst snd] in Ht, Hid, Hx.
    destruct fuel as [|fuel]; [cbn in Hfuel; lia|].
    cbn [flat_map enc_field]. rewrite <- !app_assoc.
    assert (Hne : exists b r, put_be 1 (code t) ++ put_be 2 id ++ enc x ++ flat_map enc_field fs = b :: r).
    { cbn [put_be]. eexists. eexists. reflexivity. }
    destruct Hne as (b0 & r0 & Hne). cbn [write_unknown]. rewrite Hne. rewrite <- Hne. clear Hne b0 r0.
    rewrite get_put by apply code_in_range1. rewrite of_code_code.
    rewrite get_s_put by (try assumption; lia).
    rewrite uwrite_dec. rewrite <- Ht. rewrite dec_enc; [| |assumption].
    + rewrite IH; [reflexivity|assumption|cbn in Hfuel; lia].
    + rewrite app_length, enc_length. pose proof (depth_le_size x). lia.
Qed.

Theorem unknown_fields_enc (fs : list wfield) :
  Forall wf_field fs -> unknown_fields (flat_map enc_field fs) = Some fs.
Proof. intro H. unfold unknown_fields. apply write_unknown_enc; [assumption|apply flat_enc_length]. Qed.

(* within the depth limit the kept bytes re-encode to exactly the original field *)
Theorem unknown_reencode_id f :
  wf_field f -> (depth (snd f) <= limit)%nat ->
  exists b, append_field limit f = Some b /\ unknown_fields b = Some [f].
Proof.
  intros Hwf Hd. exists (enc_field f). split.
  - rewrite append_field_spec. destruct (Nat.leb_spec (depth (snd f)) limit); [reflexivity|lia].
  - replace (enc_field f) with (flat_map enc_field [f]) by (cbn; apply app_nil_r).
    apply unknown_fields_enc. constructor; [assumption|constructor].
Qed.

(* beyond the limit Append fails: nothing is silently cut off *)
Theorem unknown_append_limit f : (limit < depth (snd f))%nat -> append_field limit f = None.
Proof.
  intro H. rewrite append_field_spec. destruct (Nat.leb_spec (depth (snd f)) limit); [lia|reflexivity].
Qed.

(* a whole buffer: fields appended one after the other come back in arrival order *)
Fixpoint append_all (buf : bytes) (fs : list wfield) : option bytes :=
  match fs with
  | [] => Some buf
  | f :: r => match append_field limit f with Some b => append_all (buf ++ b) r | None => None end
  end.

Lemma append_all_enc fs : forall buf,
  Forall (fun f => (depth (snd f) <= limit)%nat) fs ->
  append_all buf fs = Some (buf ++ flat_map enc_field fs).
Proof.
  induction fs as [|f fs IH]; intros buf H; cbn [append_all flat_map].
  - rewrite app_nil_r. reflexivity.
  - inversion H as [|? ? Hf Hr]; subst. rewrite append_field_spec.
    destruct (Nat.leb_spec (depth (snd f)) limit); [|lia]. rewrite IH by assumption.
    rewrite app_assoc. reflexivity.
Qed.

Theorem unknown_reencode_many fs :
  Forall wf_field fs -> Forall (fun f => (depth (snd f) <= limit)%nat) fs ->
  exists b, append_all [] fs = Some b /\ unknown_fields b = Some fs.
Proof.
  intros Hwf Hd. exists (flat_map enc_field fs). split.
  - rewrite append_all_enc by assumption. reflexivity.
  - apply unknown_fields_enc. assumption.
Qed.
