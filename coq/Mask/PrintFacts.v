(* Mask/PrintFacts.v — the tokenizer reads back what the path printer prints:
   tokenize (print_path p) = tokens_of p for well-formed paths. *)
From Coq Require Import List Bool ZArith NArith Lia.
From Coq.Strings Require Import Byte.
From Verif Require Import Base.Bytes Mask.Path Mask.Desc Mask.Trie Mask.Spec.
From Verif Require Import Mask.Print.
Import ListNotations.

(* ------------------------------------------------------------------ decimal numbers *)

Definition value_lsb (l : bytes) : Z :=
  fold_right (fun b acc => match digit_val b with Some d => acc * 10 + d | None => acc end)%Z 0%Z l.

Lemma dec_value_rev l : dec_value (rev l) = value_lsb l.
Proof.
  unfold dec_value, value_lsb. rewrite <- (rev_involutive l) at 2. symmetry.
  exact (fold_left_rev_right (fun b acc => match digit_val b with Some d => acc * 10 + d | None => acc end)%Z (rev l) 0%Z).
Qed.

Lemma digit_byte_val d : (0 <= d < 10)%Z -> digit_val (digit_byte d) = Some d.
Proof.
  intro H. assert (d = 0 \/ d = 1 \/ d = 2 \/ d = 3 \/ d = 4 \/ d = 5 \/ d = 6 \/ d = 7 \/ d = 8 \/ d = 9)%Z as X by lia.
  repeat (destruct X as [-> | X]; [reflexivity|]). subst. reflexivity.
Qed.

Lemma rdigits_value : forall f n, (0 <= n < 10 ^ Z.of_nat f)%Z -> value_lsb (rdigits f n) = n.
Proof.
  induction f as [|f IH]; intros n H.
  - cbn [rdigits]. unfold value_lsb. cbn [fold_right]. change (Z.of_nat 0) with 0%Z in H. rewrite Z.pow_0_r in H. lia.
  - cbn [rdigits]. unfold value_lsb. cbn [fold_right]. fold (value_lsb (if (n <? 10)%Z then [] else rdigits f (n / 10))).
    rewrite digit_byte_val by (apply Z.mod_pos_bound; lia).
    destruct (n <? 10)%Z eqn:E.
    + apply Z.ltb_lt in E. cbn. rewrite Z.mod_small by lia. reflexivity.
    + apply Z.ltb_ge in E. rewrite IH.
      * pose proof (Z.div_mod n 10). lia.
      * split; [apply Z.div_pos; lia|]. apply Z.div_lt_upper_bound; [lia|].
        rewrite Nat2Z.inj_succ, Z.pow_succ_r in H by lia. lia.
Qed.

Lemma rdigits_digits : forall f n, (0 <= n)%Z -> forallb is_digit (rdigits f n) = true.
Proof.
  induction f as [|f IH]; intros n H; [reflexivity|]. cbn [rdigits forallb].
  unfold is_digit at 1. rewrite digit_byte_val by (apply Z.mod_pos_bound; lia). cbn [andb].
  destruct (n <? 10)%Z; [reflexivity|]. apply IH. apply Z.div_pos; lia.
Qed.

Lemma forallb_rev {A} (f : A -> bool) l : forallb f (rev l) = forallb f l.
Proof.
  induction l as [|x r IH]; [reflexivity|]. cbn [rev]. rewrite forallb_app, IH. cbn. rewrite andb_true_r, andb_comm. reflexivity.
Qed.

Lemma print_int_ok n : lit_ok n = true ->
  print_int n <> [] /\ forallb is_digit (print_int n) = true /\ dec_value (print_int n) = n.
Proof.
  unfold lit_ok. rewrite andb_true_iff, Z.leb_le, Z.leb_le. intros [H0 H1]. unfold print_int. repeat split.
  - cbn [rdigits rev]. intro E. apply app_eq_nil in E. destruct E as [_ E]. discriminate.
  - rewrite forallb_rev. apply rdigits_digits. exact H0.
  - rewrite dec_value_rev. apply rdigits_value. split; [exact H0|]. unfold max_int in H1.
    replace (10 ^ Z.of_nat 20)%Z with 100000000000000000000%Z by (vm_compute; reflexivity). lia.
Qed.

Lemma print_int_token n : lit_ok n = true -> lit_token (print_int n) = TLitInt n.
Proof.
  intro H. destruct (print_int_ok n H) as [Hne [Hd Hv]]. unfold lit_token.
  destruct (print_int n) as [|b r] eqn:E; [congruence|]. rewrite Hd, Hv.
  unfold lit_ok in H. rewrite andb_true_iff in H. destruct H as [_ H]. rewrite H. reflexivity.
Qed.

(* ------------------------------------------------------------------ the tokenizer, one token at a time *)

Lemma tok_default f b r : is_sep b = false ->
  tok_go (S f) (b :: r) = (let (v, rest) := span_lit (b :: r) in lit_token v :: tok_go f rest).
Proof. destruct b; intro H; try discriminate H; reflexivity. Qed.

Lemma span_lit_len : forall s, List.length (snd (span_lit s)) <= List.length s.
Proof.
  induction s as [|b r IH]; [cbn; lia|]. cbn [span_lit]. destruct (is_sep b); [cbn; lia|].
  destruct (span_lit r) as [v rest]. cbn [snd List.length] in *. lia.
Qed.

Lemma str_scan_other b r : b <> x5c -> b <> x22 ->
  str_scan (b :: r) = (let '(v, cl, rest) := str_scan r in (b :: v, cl, rest)).
Proof. intros H1 H2. destruct b; try congruence; reflexivity. Qed.

Lemma str_scan_len : forall n s, List.length s <= n -> List.length (snd (str_scan s)) <= List.length s.
Proof.
  induction n as [|n IH]; intros s H.
  - destruct s; [cbn; lia | cbn in H; lia].
  - destruct s as [|b r]; [cbn; lia|]. cbn [List.length] in H.
    destruct (Byte.byte_eq_dec b x5c) as [->|N1].
    + cbn [str_scan]. destruct r as [|c r']; [cbn; lia|].
      specialize (IH r' ltac:(cbn [List.length] in H; lia)). destruct (str_scan r') as [[v cl] rest]. cbn [snd List.length] in *. lia.
    + destruct (Byte.byte_eq_dec b x22) as [->|N2]; [cbn; lia|].
      rewrite str_scan_other by assumption. specialize (IH r ltac:(lia)).
      destruct (str_scan r) as [[v cl] rest]. cbn [snd List.length] in *. lia.
Qed.

Lemma tok_fuel : forall f1 f2 s, List.length s < f1 -> List.length s < f2 -> tok_go f1 s = tok_go f2 s.
Proof.
  induction f1 as [|f1 IH]; intros f2 s H1 H2; [lia|]. destruct f2 as [|f2]; [lia|].
  destruct s as [|b r]; [reflexivity|]. cbn [List.length] in H1, H2.
  destruct (is_sep b) eqn:E.
  - destruct b; try discriminate E; cbn [tok_go]; try (f_equal; apply IH; lia).
    + (* quote *)
      pose proof (str_scan_len (List.length r) r (le_n _)) as L.
      destruct (str_scan r) as [[inner closed] rest]. cbn [snd] in L.
      destruct closed; [|reflexivity]. f_equal. apply IH; lia.
  - rewrite !tok_default by exact E. pose proof (span_lit_len (b :: r)) as L.
    assert (List.length (snd (span_lit (b :: r))) <= List.length r) as L'.
    { cbn [span_lit] in *. rewrite E in *. destruct (span_lit r) as [v rest] eqn:Er. cbn [snd].
      pose proof (span_lit_len r) as L2. rewrite Er in L2. exact L2. }
    destruct (span_lit (b :: r)) as [v rest]. cbn [snd] in L'. f_equal. apply IH; lia.
Qed.

Lemma tokenize_fuel f s : List.length s < f -> tok_go f s = tokenize s.
Proof. intro H. unfold tokenize. apply tok_fuel; lia. Qed.

Lemma tokenize_sep b r t :
  match b with x24 | x2e | x5b | x5d | x7b | x7d | x2c | x2a => True | _ => False end ->
  tok_go 2 [b] = [t] -> tokenize (b :: r) = t :: tokenize r.
Proof.
  intros Hb Ht. unfold tokenize at 1. cbn [List.length].
  destruct b; try contradiction; cbn [tok_go] in *; injection Ht as <-; f_equal; apply tokenize_fuel; lia.
Qed.

Lemma tokenize_lit b r : is_sep b = false ->
  tokenize (b :: r) = (let (v, rest) := span_lit (b :: r) in lit_token v :: tokenize rest).
Proof.
  intro E. unfold tokenize at 1. cbn [List.length]. rewrite tok_default by exact E.
  pose proof (span_lit_len (b :: r)) as L.
  assert (List.length (snd (span_lit (b :: r))) <= List.length r) as L'.
  { cbn [span_lit] in *. rewrite E in *. destruct (span_lit r) as [v rest] eqn:Er. cbn [snd].
    pose proof (span_lit_len r) as L2. rewrite Er in L2. exact L2. }
  destruct (span_lit (b :: r)) as [v rest]. cbn [snd] in L'. f_equal. apply tokenize_fuel. lia.
Qed.

Lemma tokenize_quote r :
  tokenize (x22 :: r) =
  (let '(inner, closed, rest) := str_scan r in
   if closed then (match unq inner with UOk v => TStr v | UBad => TErr | UOut => TOut end) :: tokenize rest else [TErr]).
Proof.
  unfold tokenize at 1. cbn [List.length].
  change (tok_go (S (S (List.length r))) (x22 :: r)) with
    (let '(inner, closed, rest) := str_scan r in
     if closed then (match unq inner with UOk v => TStr v | UBad => TErr | UOut => TOut end) :: tok_go (S (List.length r)) rest else [TErr]).
  pose proof (str_scan_len (List.length r) r (le_n _)) as L.
  destruct (str_scan r) as [[inner closed] rest]. cbn [snd] in L.
  destruct closed; [|reflexivity]. f_equal. apply tokenize_fuel. lia.
Qed.

(* a literal is read up to the next separator *)
Definition starts_sep (s : bytes) : bool := match s with [] => true | b :: _ => is_sep b end.

Lemma span_lit_app v rest :
  forallb (fun b => negb (is_sep b)) v = true -> starts_sep rest = true -> span_lit (v ++ rest) = (v, rest).
Proof.
  intros Hv Hr. induction v as [|b v IH]; cbn [app].
  - destruct rest as [|c r]; [reflexivity|]. cbn in *. rewrite Hr. reflexivity.
  - cbn [forallb] in Hv. rewrite andb_true_iff, negb_true_iff in Hv. destruct Hv as [Hb Hv].
    cbn [span_lit]. rewrite Hb, (IH Hv). reflexivity.
Qed.

Lemma digit_not_sep b : is_digit b = true -> is_sep b = false.
Proof. destruct b; cbn; try discriminate; reflexivity. Qed.

Lemma digits_not_sep v : forallb is_digit v = true -> forallb (fun b => negb (is_sep b)) v = true.
Proof.
  induction v as [|b v IH]; [reflexivity|]. cbn [forallb]. rewrite !andb_true_iff. intros [H1 H2].
  rewrite (digit_not_sep _ H1). auto.
Qed.

Lemma tokenize_word v rest :
  v <> [] -> forallb (fun b => negb (is_sep b)) v = true -> starts_sep rest = true ->
  tokenize (v ++ rest) = lit_token v :: tokenize rest.
Proof.
  intros Hne Hv Hr. destruct v as [|b v]; [congruence|].
  assert (is_sep b = false) as Hb by (cbn [forallb] in Hv; rewrite andb_true_iff, negb_true_iff in Hv; tauto).
  cbn [app]. rewrite tokenize_lit by exact Hb.
  change (b :: v ++ rest) with ((b :: v) ++ rest). rewrite (span_lit_app _ _ Hv Hr). reflexivity.
Qed.

Lemma tokenize_int n rest : lit_ok n = true -> starts_sep rest = true ->
  tokenize (print_int n ++ rest) = TLitInt n :: tokenize rest.
Proof.
  intros Hn Hr. destruct (print_int_ok n Hn) as [Hne [Hd _]].
  rewrite tokenize_word; auto using digits_not_sep. rewrite print_int_token by exact Hn. reflexivity.
Qed.

(* ------------------------------------------------------------------ quoted keys *)

Lemma str_scan_esc b t :
  str_scan (esc_byte b ++ t) = (let '(v, cl, rest) := str_scan t in (esc_byte b ++ v, cl, rest)).
Proof. destruct b; cbn; destruct (str_scan t) as [[v cl] rest]; reflexivity. Qed.

Lemma unq_esc b t : unq (esc_byte b ++ t) = uq_cons b (unq t).
Proof. destruct b; reflexivity. Qed.

Lemma str_scan_key s rest :
  str_scan (flat_map esc_byte s ++ x22 :: rest) = (flat_map esc_byte s, true, rest).
Proof.
  induction s as [|b s IH]; [reflexivity|]. cbn [flat_map]. rewrite <- app_assoc, str_scan_esc, IH. reflexivity.
Qed.

Lemma unq_key s : unq (flat_map esc_byte s) = UOk s.
Proof. induction s as [|b s IH]; [reflexivity|]. cbn [flat_map]. rewrite unq_esc, IH. reflexivity. Qed.

Lemma tokenize_key s rest : tokenize (print_key s ++ rest) = TStr s :: tokenize rest.
Proof.
  unfold print_key. cbn [app]. rewrite tokenize_quote. rewrite <- app_assoc. cbn [app].
  rewrite str_scan_key, unq_key. reflexivity.
Qed.

(* ------------------------------------------------------------------ key sets *)

Lemma tokenize_ints close tclose rest : forall ids,
  ids <> [] -> forallb lit_ok ids = true ->
  (match close with x5d | x7d => True | _ => False end) -> tok_go 2 [close] = [tclose] ->
  tokenize (join_comma (map print_int ids) ++ close :: rest) =
  sep_by TElem (map TLitInt ids) ++ tclose :: tokenize rest.
Proof.
  intros ids Hne Hok Hc Ht. assert (is_sep close = true) as Hsc by (destruct close; try contradiction; reflexivity).
  induction ids as [|x r IH]; [congruence|].
  cbn [forallb] in Hok. rewrite andb_true_iff in Hok. destruct Hok as [Hx Hr].
  destruct r as [|y r'].
  - cbn [map join_comma sep_by app]. rewrite tokenize_int by (auto; cbn; exact Hsc).
    rewrite (tokenize_sep close rest tclose); auto. destruct close; try contradiction; exact I.
  - change (join_comma (map print_int (x :: y :: r'))) with (print_int x ++ x2c :: join_comma (map print_int (y :: r'))).
    change (sep_by TElem (map TLitInt (x :: y :: r'))) with (TLitInt x :: TElem :: sep_by TElem (map TLitInt (y :: r'))).
    rewrite <- app_assoc. cbn [app]. rewrite tokenize_int by (auto; reflexivity).
    rewrite (tokenize_sep x2c _ TElem I eq_refl). rewrite IH by (auto; discriminate). reflexivity.
Qed.

Lemma tokenize_keys rest : forall ss, ss <> [] ->
  tokenize (join_comma (map print_key ss) ++ x7d :: rest) = sep_by TElem (map TStr ss) ++ TMapR :: tokenize rest.
Proof.
  induction ss as [|x r IH]; intro Hne; [congruence|].
  destruct r as [|y r'].
  - cbn [map join_comma sep_by app]. rewrite tokenize_key, (tokenize_sep x7d rest TMapR I eq_refl). reflexivity.
  - change (join_comma (map print_key (x :: y :: r'))) with (print_key x ++ x2c :: join_comma (map print_key (y :: r'))).
    change (sep_by TElem (map TStr (x :: y :: r'))) with (TStr x :: TElem :: sep_by TElem (map TStr (y :: r'))).
    rewrite <- app_assoc. cbn [app]. rewrite tokenize_key, (tokenize_sep x2c _ TElem I eq_refl), IH by discriminate. reflexivity.
Qed.

(* ------------------------------------------------------------------ whole paths *)

Lemma starts_sep_segs p : starts_sep (flat_map print_seg p) = true.
Proof. destruct p as [|s p]; [reflexivity|]. destruct s; reflexivity. Qed.

Lemma name_token n : n <> [] -> forallb (fun b => negb (is_sep b)) n && negb (forallb is_digit n) = true -> lit_token n = TLitStr n.
Proof.
  intros Hne H. rewrite andb_true_iff, negb_true_iff in H. destruct H as [_ H].
  unfold lit_token. destruct n; [congruence|]. rewrite H. reflexivity.
Qed.

Theorem tokenize_segs : forall p, wf_path p = true -> tokenize (flat_map print_seg p) = flat_map seg_tokens p.
Proof.
  induction p as [|s p IH]; intro Hwf; [reflexivity|].
  cbn [wf_path forallb] in Hwf. rewrite andb_true_iff in Hwf. destruct Hwf as [Hs Hp]. specialize (IH Hp).
  pose proof (starts_sep_segs p) as Hsep.
  cbn [flat_map]. destruct s as [n|id| |ids| |ids|ss| ]; cbn [print_seg seg_tokens wf_pseg] in *.
  - (* .name *)
    destruct n as [|b n]; [discriminate|]. cbn [app].
    rewrite (tokenize_sep x2e _ TField I eq_refl).
    change (b :: n ++ flat_map print_seg p) with ((b :: n) ++ flat_map print_seg p).
    pose proof Hs as Hs'. rewrite andb_true_iff in Hs'. destruct Hs' as [Hns _].
    rewrite tokenize_word, IH by (auto; discriminate). rewrite name_token by (auto; discriminate). reflexivity.
  - (* .id *)
    cbn [app]. rewrite (tokenize_sep x2e _ TField I eq_refl).
    assert (lit_ok id = true) as Hl.
    { unfold lit_ok. rewrite andb_true_iff, !Z.leb_le in *. unfold max_int32, max_int in *. lia. }
    rewrite tokenize_int, IH by auto. reflexivity.
  - cbn [app]. rewrite (tokenize_sep x2e _ TField I eq_refl), (tokenize_sep x2a _ TAny I eq_refl), IH. reflexivity.
  - destruct ids as [|x ids]; [discriminate|]. rewrite andb_true_iff in Hs. destruct Hs as [Hok _].
    cbn [app]. rewrite (tokenize_sep x5b _ TIndexL I eq_refl), <- app_assoc. cbn [app].
    rewrite (tokenize_ints x5d TIndexR) by (auto; discriminate). rewrite IH, <- app_assoc. reflexivity.
  - cbn [app]. rewrite (tokenize_sep x5b _ TIndexL I eq_refl), (tokenize_sep x2a _ TAny I eq_refl), (tokenize_sep x5d _ TIndexR I eq_refl), IH. reflexivity.
  - destruct ids as [|x ids]; [discriminate|]. rewrite andb_true_iff in Hs. destruct Hs as [Hok _].
    cbn [app]. rewrite (tokenize_sep x7b _ TMapL I eq_refl), <- app_assoc. cbn [app].
    rewrite (tokenize_ints x7d TMapR) by (auto; discriminate). rewrite IH, <- app_assoc. reflexivity.
  - destruct ss as [|x ss]; [discriminate|].
    cbn [app]. rewrite (tokenize_sep x7b _ TMapL I eq_refl), <- app_assoc. cbn [app].
    rewrite tokenize_keys by discriminate. rewrite IH, <- app_assoc. reflexivity.
  - cbn [app]. rewrite (tokenize_sep x7b _ TMapL I eq_refl), (tokenize_sep x2a _ TAny I eq_refl), (tokenize_sep x7d _ TMapR I eq_refl), IH. reflexivity.
Qed.

Theorem tokenize_print_path p : wf_path p = true -> tokenize (print_path p) = tokens_of p.
Proof.
  intro H. unfold print_path, tokens_of. rewrite (tokenize_sep x24 _ TRoot I eq_refl), tokenize_segs by exact H. reflexivity.
Qed.

Corollary tokenize_print_paths ps : forallb wf_path ps = true -> map tokenize (map print_path ps) = map tokens_of ps.
Proof.
  induction ps as [|p ps IH]; [reflexivity|]. cbn [forallb map]. rewrite andb_true_iff. intros [H1 H2].
  rewrite tokenize_print_path, IH by assumption. reflexivity.
Qed.
