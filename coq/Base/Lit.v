(* Base/Lit.v — cheap literals for machine-written case files.
   Coq's Number / String Notations for Z and string are interpreted by reduction inside Coq and
   cost milliseconds each; primitive 63-bit integer literals are read natively. Case files write
     zi 123        for 0 <= z < 2^63
     zn 123        for - 2^63 < z < 0
     zb hi lo      for anything else: hi * 2^32 + lo  (hi may be negative through zn-style sign flag)
     bl n [i1; i2; ...]   a byte string of length n packed big-endian, 7 bytes per integer
   These are only used by Corr/ case files and evaluated by vm_compute, never by the theorems. *)
From Coq Require Import Uint63 ZArith List.
From Coq.Strings Require Import Byte.
Import ListNotations.

Definition zi (i : int) : Z := Uint63.to_Z i.
Definition zn (i : int) : Z := Z.opp (Uint63.to_Z i).
Definition zb (neg : bool) (hi lo : int) : Z :=
  let m := (Uint63.to_Z hi * 4294967296 + Uint63.to_Z lo)%Z in if neg then Z.opp m else m.

Definition byte_of_int (i : int) : byte :=
  match Byte.of_N (Z.to_N (Uint63.to_Z (Uint63.land i 255))) with Some b => b | None => x00 end.

(* the k low bytes of i, most significant first, in front of acc *)
Fixpoint unpack (k : nat) (i : int) (acc : list byte) : list byte :=
  match k with
  | O => acc
  | S k' => unpack k' (Uint63.lsr i 8) (byte_of_int i :: acc)
  end.

(* n = total length; every integer holds 7 bytes except the last, which holds the remainder *)
Fixpoint bl (n : nat) (l : list int) : list byte :=
  match l with
  | [] => []
  | i :: r => if Nat.leb n 7 then unpack n i [] else unpack 7 i (bl (n - 7) r)
  end.
