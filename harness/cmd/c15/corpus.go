package main

// Hand-written programs, run first on every check: the triggers of the known findings and the
// minimised shapes of former failures.
type corpusEntry struct {
	name  string
	main  string
	files map[string]string
}

var corpus = []corpusEntry{
	{
		// KNOWN FINDING C15-includes-same-basename: the descriptor's Includes map is keyed by the
		// base name of the included file, so two includes with one base name collapse; lookups
		// through the prefix reach only the last one.
		name: "same-basename-includes",
		main: "main.thrift",
		files: map[string]string{
			"main.thrift": `include "x/shared.thrift"
include "y/shared.thrift"
namespace go c15.corpus.samebase.main
struct Holder {
  1: shared.OnlyInX a
  2: shared.OnlyInY b
}
`,
			"x/shared.thrift": `namespace go c15.corpus.samebase.x
struct OnlyInX { 1: i32 v }
`,
			"y/shared.thrift": `namespace go c15.corpus.samebase.y
struct OnlyInY { 1: string v }
`,
		},
	},
	{
		// two namespace lines of one language: the generator uses the first (repaired: the
		// descriptor now says the same), the last "*" wins
		name: "namespace-twice",
		main: "ns.thrift",
		files: map[string]string{
			"ns.thrift": `namespace * star.before
namespace go first.gopkg
namespace java a.b
namespace go ignored.second
namespace * star.after
struct S { 1: i32 a }
`,
		},
	},
	{
		name: "every-kind",
		main: "svc/api.thrift",
		files: map[string]string{
			"svc/api.thrift": `include "../base/types.thrift"
include "common.thrift"
namespace go c15.corpus.kinds.api

// the colour comment
enum Colour {
  RED = 1 (weight = "heavy"),
  GREEN = 5,
  BLUE
} (family = "warm", family = "primary", single = "x")

typedef types.Id LocalId (alias.note = "chain across files")
typedef map<string, list<types.Point>> Shapes

const i32 ANSWER = 42
const double HALF = 0.5
const string GREETING = "hi"
const bool YES = true
const list<i32> PRIMES = [2, 3, 5]
const map<string, i32> AGES = {"a": 1, "b": 2}
const Colour FAVOURITE = Colour.GREEN
const i32 COPY = ANSWER
const types.Point ORIGIN = {"x": 0, "y": 0}
const map<i32, list<string>> NESTED = {1: ["a", "b"], 2: []}

/* request comment */
struct Request {
  1: required LocalId id (k = "v1", k = "v2")
  2: optional string name = "anon"
  3: list<Colour> colours = [Colour.RED, 5]
  -4: map<types.Id, common.Tag> tags
  10: types.Point where
} (struct.anno = "s")

union Choice {
  1: i32 number
  2: string text = "t"
}

exception Oops {
  1: string why
}

service Base {
  void ping()
}

service Api extends Base {
  // echo comment
  Request echo(1: Request r, 2: i32 n = 3) throws (1: Oops o) (method.anno = "m")
  oneway void fire(1: Choice c)
  types.Point locate(1: common.Tag t)
} (svc.anno = "a", svc.anno = "b")

service Far extends common.Root {
  i32 far()
}
`,
			"base/types.thrift": `namespace go c15.corpus.kinds.types
typedef i64 Id
struct Point { 1: double x, 2: double y }
`,
			"svc/common.thrift": `namespace go c15.corpus.kinds.common
struct Tag { 1: string label }
service Root { void root() }
`,
		},
	},
	{
		// a base name with a dot inside: the prefix is everything before the LAST dot
		// (utils.ParseAlias; a mutant that split at the first dot escaped before this program)
		name: "dotted-include-name",
		main: "main.thrift",
		files: map[string]string{
			"main.thrift": `include "sub/dotted.name.thrift"
namespace go c15.corpus.dotted.main
struct Holder {
  1: dotted.name.Thing a
  2: list<dotted.name.Kind> b
}
service S extends dotted.name.Base {}
`,
			"sub/dotted.name.thrift": `namespace go c15.corpus.dotted.sub
struct Thing { 1: i32 v }
enum Kind { A, B }
service Base { void ping() }
`,
		},
	},
	{
		// an included file that is not called *.thrift: the IDL prefix is the base name without its
		// extension (semantic.IDLPrefix); the descriptor used to cut ".thrift" only (repaired)
		name: "include-other-extension",
		main: "main.thrift",
		files: map[string]string{
			"main.thrift": `include "other.idl"
include "noext"
namespace go c15.corpus.ext.main
struct Holder {
  1: other.Gadget a
  2: noext.Plain b
}
`,
			"other.idl": `namespace go c15.corpus.ext.other
struct Gadget { 1: i32 v }
`,
			"noext": `namespace go c15.corpus.ext.noext
struct Plain { 1: i32 v }
`,
		},
	},
	{
		// an extends chain of three services across two includes: GetAllMethods in order
		name: "extends-chain",
		main: "top.thrift",
		files: map[string]string{
			"top.thrift": `include "mid.thrift"
namespace go c15.corpus.chain.top
service Top extends mid.Mid { void t1() void t2() }
service Local extends Top { void l1() }
`,
			"mid.thrift": `include "base/root.thrift"
namespace go c15.corpus.chain.mid
service Mid extends root.Root { void m1() }
`,
			"base/root.thrift": `namespace go c15.corpus.chain.root
service Root { void r1() oneway void r2() }
`,
		},
	},
}
