"""C18 — the DeepEqual generated with gen_deep_equal is structural equality
(generator/golang/templates/deep_equal.go; validate_set in templates/struct.go)."""
import json
import os
import vlib


class S(vlib.Spec):
    prop = "C18"
    design_ref = "DESIGN.md section 3 / C18"
    coq_targets = ["Props/C18.vo", "Corr/C18.vo"]
    props_file = "Props/C18.v"
    harness_pkg = "./cmd/c18"
    harness_name = "c18"
    needs_thriftgo = True
    corr_codes = {1, 9, 10}
    code_names = {
        1: "model and implementation disagree (or DeepEqual missing although gen_deep_equal was requested)",
        9: "model out of fuel",
        10: "input outside the modelled domain reached the comparison (harness must not produce it)",
        2: "DeepEqual's answer differs from structural equality (no struct-typed map keys, no NaN under a shared pointer)",
        3: "DeepEqual's answer differs from structural equality; a map of the pair has struct-typed (pointer) keys",
        4: "x.DeepEqual(y) and y.DeepEqual(x) differ",
        5: "x.DeepEqual(x) is not true",
        6: "DeepEqual panicked (nil receiver / nil argument / nil field)",
        7: "Write's set-uniqueness check disagrees with 'some set holds two structurally equal elements'",
        8: "as 7, with struct-typed (pointer) map keys inside the value",
    }
    modelled = ("generator/golang/templates/deep_equal.go: StructLikeDeepEqual, StructLikeDeepEqualField, FieldDeepEqual, "
                "FieldDeepEqualStructLike, FieldDeepEqualBase, FieldDeepEqualContainer; templates/struct.go FieldWriteSet "
                "(Features.ValidateSet with Features.GenDeepEqual); read_write_context.go (IsPointer, key contexts) -> "
                "coq/Wire/DeepEq.v deq_gen / gen_deep_eq / validate_set / sets_ok (hand-written, tied by correspondence on "
                "compiled generated code on every run: corpus program + seeded schema programs x option sets)")
    trusted_base = [
        "hand-written model coq/Wire/DeepEq.v (mirrors templates/deep_equal.go and the validate_set loop of templates/struct.go) over "
        "Wire/Schema.v; Go semantics as modelled: == on pointers = equality of abstract addresses, map index with presence flag = hfind, "
        "float64 != = IEEE on bit patterns (Value.feq), strings.Compare / bytes.Compare = 0 iff equal bytes, len(nil) = 0",
        "harness/schemagen, valgen (c18_heap.go, c18_pairs.go: pair generators), gendrv + gendrv/driver (c18.go: builds x and y from "
        "JSON with shared pointers, calls DeepEqual through reflection with panics recovered, classifies the error of Write), coqfmt, casefile, lib/vlib.py",
        "harness/cmd/translate-wire (go/ast reader of two tables; Wire/GenTables.v is part of the shared wire core's build)",
        "the real thriftgo binary and go build are run on every check",
    ]
    assumptions = [
        "values are finite trees (no cyclic object graphs: DeepEqual does not terminate on them, in Go either)",
        "the equivalence theorem asks: no struct-typed map keys (recorded finding), and no NaN under a pointer shared by x and y "
        "(IEEE says NaN <> NaN, the pointer shortcut says true: the property text wants both reflexivity and IEEE ==)",
        "binary (Go []byte) is treated like a container: nil and empty compare equal (bytes.Compare), also for an optional binary field",
        "the absence of panics on nil receivers / arguments / fields is observed on the compiled code (driver recovers), not proved about Go",
    ]

    def translators(self, ctx):
        ok, log, binp = vlib.go_build("./cmd/translate-wire", "translate-wire")
        if not ok:
            return ["translate-wire: build failed: " + log[-500:]]
        rc, out = vlib.sh([binp, "-repo", vlib.REPO, "-out", os.path.join(vlib.COQ, "Wire", "GenTables.v")])
        return ["translate-wire -> Wire/GenTables.v: " + out.strip().splitlines()[-1] if out.strip() else "translate-wire: no output"]

    def producer_args(self, ctx):
        return ["-seed", str(ctx.seed), "-tier", ctx.tier, "-out", ctx.out, "-thriftgo", ctx.thriftgo,
                "-scratch", os.path.join(ctx.scratch, "gen")]

    def classify(self, code, case):
        case = case or {}
        if code in (3, 8):
            # one root cause: struct-typed map keys are Go pointers, looked up by identity
            return "C18-struct-map-key-identity"
        names = {2: "deep-equal-differs-from-structural-equality", 4: "not-symmetric", 5: "not-reflexive",
                 6: "panic", 7: "set-uniqueness-differs-from-structural-equality"}
        what = case.get("edit") or case.get("pair_kind") or case.get("set_case_kind") or "?"
        return "C18-%s-%s" % (names.get(code, "code-%d" % code), what)


def run(tier):
    return vlib.standard_run(S(), tier)


def replay(path):
    obj = json.load(open(path))
    print(json.dumps(obj, indent=1)[:6000])
    return 0
