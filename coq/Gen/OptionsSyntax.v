(* Gen/OptionsSyntax.v — vocabulary shared by the generated option tables
   (Gen/OptionsTable.v, Gen/OptionsDoc.v) and the model Gen/Options.v.  No proofs. *)
From Coq Require Import List.
From Verif Require Import Base.Bytes.

(* What an entry of allParams (generator/golang/option.go) does with its value. *)
Inductive action :=
| AImportPath          (* thrift_import_path: UsePackage(DefaultThriftLib, value) *)
| AUsePackage          (* use_package: value is path=repl *)
| ANamingStyle         (* naming_style: styles.NewNamingStyle(value), SetNamingStyle *)
| AIgnoreInit          (* ignore_initialisms: checkBool, UseInitialisms(!b) *)
| APackagePrefix       (* package_prefix: SetPackagePrefix(value) *)
| ATemplate            (* template: UseTemplate(value) *)
| AFeature (i : nat)   (* checkBool, then field number i of Features := b *)
| AUnknown.            (* the translator did not recognise the closure *)

(* A default as written in the documentation. *)
Inductive doc_default := DBool (b : bool) | DStr (s : bytes) | DNone.
