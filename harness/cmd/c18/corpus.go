package main

import (
	"verif/harness/schemagen"
	"verif/harness/valgen"
)

// The corpus: one fixed program and hand-written minimal pairs / sets. It runs first on every
// check: the triggers of the recorded findings (struct-typed map keys) and of the repaired defect
// (missing map key read as the zero value) are always among the cases.

const corpusKey = "cp"

type corpusVec struct {
	s     *schemagen.Struct
	pairs []*valgen.Pair
	sets  []*valgen.SetCase
}

func ty(k string) *schemagen.Type           { return &schemagen.Type{Kind: k} }
func ref(n string) *schemagen.Type          { return &schemagen.Type{Kind: "struct", Name: n} }
func lst(e *schemagen.Type) *schemagen.Type { return &schemagen.Type{Kind: "list", Elem: e} }
func set(e *schemagen.Type) *schemagen.Type { return &schemagen.Type{Kind: "set", Elem: e} }
func mp(k, v *schemagen.Type) *schemagen.Type {
	return &schemagen.Type{Kind: "map", Key: k, Elem: v}
}

func fld(id int, name, req string, t *schemagen.Type) *schemagen.Field {
	rt := ""
	if req != "default" {
		rt = req
	}
	return &schemagen.Field{ID: id, Name: name, Req: req, ReqText: rt, Type: t}
}

func corpusProgram() *schemagen.Program {
	k := &schemagen.Struct{File: "a", Name: "K", Kind: "struct", Fields: []*schemagen.Field{
		fld(1, "x", "default", ty("i32")),
		fld(2, "s", "optional", ty("string")),
	}}
	v := &schemagen.Struct{File: "a", Name: "V", Kind: "struct", Fields: []*schemagen.Field{
		fld(1, "ks", "default", lst(ref("a.K"))),
		fld(2, "d", "optional", ty("double")),
	}}
	u := &schemagen.Struct{File: "a", Name: "U", Kind: "union", Fields: []*schemagen.Field{
		fld(1, "a", "optional", ty("i32")),
		fld(2, "b", "optional", ty("string")),
		fld(3, "k", "optional", ref("a.K")),
	}}
	x := &schemagen.Struct{File: "a", Name: "X", Kind: "exception", Fields: []*schemagen.Field{
		fld(1, "msg", "default", ty("string")),
		fld(2, "u", "optional", ref("a.U")),
	}}
	m := &schemagen.Struct{File: "a", Name: "M", Kind: "struct", Fields: []*schemagen.Field{
		fld(1, "m1", "default", mp(ty("i32"), ty("string"))),
		fld(2, "m2", "default", mp(ty("string"), ty("i32"))),
		fld(3, "mk", "default", mp(ref("a.K"), ty("i32"))),
		fld(4, "ss", "default", set(ty("string"))),
		fld(5, "sk", "default", set(ref("a.K"))),
		fld(6, "lm", "default", lst(mp(ty("string"), lst(ref("a.K"))))),
		fld(7, "oi", "optional", ty("i32")),
		fld(8, "ok", "optional", ref("a.K")),
		fld(9, "mv", "default", mp(ty("i64"), ref("a.V"))),
		fld(10, "smk", "default", set(mp(ref("a.K"), ty("i32")))),
		fld(11, "ob", "optional", ty("binary")),
		fld(12, "d", "default", ty("double")),
		fld(13, "md", "default", mp(ty("double"), ty("bool"))),
		fld(14, "sm", "default", set(mp(ty("i32"), ty("string")))),
		fld(15, "sl", "default", set(lst(ty("i32")))),
		fld(16, "u", "optional", ref("a.U")),
		fld(17, "lu", "default", lst(ref("a.U"))),
		fld(18, "ex", "optional", ref("a.X")),
	}}
	return &schemagen.Program{Key: corpusKey, Files: []*schemagen.File{{
		Name: "a", Namespace: corpusKey + ".apkg",
		Defs: []*schemagen.Def{{Struct: k}, {Struct: v}, {Struct: u}, {Struct: x}, {Struct: m}},
	}}}
}

type hb struct{ h *valgen.Heap }

func (b hb) n() *valgen.HVal           { return valgen.HNil() }
func (b hb) i(x int64) *valgen.HVal    { return &valgen.HVal{K: "int", I: x} }
func (b hb) bo(x bool) *valgen.HVal    { return &valgen.HVal{K: "bool", B: x} }
func (b hb) d(x uint64) *valgen.HVal   { return &valgen.HVal{K: "dbl", D: x} }
func (b hb) s(x string) *valgen.HVal   { return &valgen.HVal{K: "str", S: []byte(x)} }
func (b hb) bin(x string) *valgen.HVal { return &valgen.HVal{K: "bin", S: []byte(x)} }
func (b hb) l(xs ...*valgen.HVal) *valgen.HVal {
	if xs == nil {
		xs = []*valgen.HVal{}
	}
	return &valgen.HVal{K: "list", L: xs}
}
func (b hb) m(kvs ...*valgen.HVal) *valgen.HVal {
	out := [][2]*valgen.HVal{}
	for i := 0; i+1 < len(kvs); i += 2 {
		out = append(out, [2]*valgen.HVal{kvs[i], kvs[i+1]})
	}
	return &valgen.HVal{K: "map", M: out}
}
func (b hb) some(v *valgen.HVal) *valgen.HVal {
	return &valgen.HVal{K: "some", A: b.h.Fresh(), P: v}
}

// k: a.K{x, s} (s == "" with set=false: unset)
func (b hb) k(x int64, s string, set bool) *valgen.HVal {
	sv := b.n()
	if set {
		sv = b.some(b.s(s))
	}
	return &valgen.HVal{K: "struct", A: b.h.Fresh(), F: []valgen.HField{{ID: 1, V: b.i(x)}, {ID: 2, V: sv}}}
}

// v: a.V{ks, d}
func (b hb) v(ks *valgen.HVal, d *valgen.HVal) *valgen.HVal {
	return &valgen.HVal{K: "struct", A: b.h.Fresh(), F: []valgen.HField{{ID: 1, V: ks}, {ID: 2, V: d}}}
}

// u: a.U with exactly the member which set (1: a, 2: b, 3: k); which = 0: none set
func (b hb) u(which int, v *valgen.HVal) *valgen.HVal {
	fs := []valgen.HField{{ID: 1, V: b.n()}, {ID: 2, V: b.n()}, {ID: 3, V: b.n()}}
	switch which {
	case 1, 2:
		fs[which-1].V = b.some(v)
	case 3:
		fs[2].V = v
	}
	return &valgen.HVal{K: "struct", A: b.h.Fresh(), F: fs}
}

// x: a.X{msg, u}
func (b hb) x(msg string, u *valgen.HVal) *valgen.HVal {
	return &valgen.HVal{K: "struct", A: b.h.Fresh(), F: []valgen.HField{{ID: 1, V: b.s(msg)}, {ID: 2, V: u}}}
}

// mval: a.M with the given slots, every other slot the Go zero value
func (b hb) mval(s *schemagen.Struct, over map[int]*valgen.HVal) *valgen.HVal {
	out := &valgen.HVal{K: "struct", A: b.h.Fresh()}
	for _, f := range s.Fields {
		if v, ok := over[f.ID]; ok {
			out.F = append(out.F, valgen.HField{ID: f.ID, V: v})
			continue
		}
		var z *valgen.HVal
		switch {
		case valgen.BasePtr(f):
			z = b.n()
		case f.Type.Kind == "double":
			z = b.d(0)
		default:
			z = b.n()
		}
		out.F = append(out.F, valgen.HField{ID: f.ID, V: z})
	}
	return out
}

const (
	nanBits  = 0x7ff8000000000000
	negZero  = 0x8000000000000000
	oneBits  = 0x3ff0000000000000
	twoBits  = 0x4000000000000000
	halfBits = 0x3fe0000000000000
)

func corpusCases(p *schemagen.Program) []corpusVec {
	ms := p.Struct("a.M")
	b := hb{&valgen.Heap{}}
	M := func(over map[int]*valgen.HVal) *valgen.HVal { return b.mval(ms, over) }
	type ov = map[int]*valgen.HVal
	var pairs []*valgen.Pair
	add := func(name string, x, y *valgen.HVal) {
		pairs = append(pairs, &valgen.Pair{X: x, Y: y, Kind: "corpus", Edit: name})
	}

	// the repaired defect: a key the other map does not have, zero values under it
	add("map-missing-key-zero-string", M(ov{1: b.m(b.i(1), b.s(""))}), M(ov{1: b.m(b.i(2), b.s(""))}))
	add("map-missing-key-zero-int", M(ov{2: b.m(b.s("a"), b.i(0))}), M(ov{2: b.m(b.s("b"), b.i(0))}))
	add("map-missing-key-nil-struct", M(ov{9: b.m(b.i(1), b.n())}), M(ov{9: b.m(b.i(2), b.n())}))
	add("map-missing-key-empty-vs-nil-list", M(ov{6: b.l(b.m(b.s("a"), b.l()))}), M(ov{6: b.l(b.m(b.s("b"), b.n()))}))
	add("map-missing-key-zero-bool", M(ov{13: b.m(b.d(oneBits), b.bo(false))}), M(ov{13: b.m(b.d(twoBits), b.bo(false))}))
	// recorded finding: struct-typed map keys are pointers
	add("struct-keys-deep-copy", M(ov{3: b.m(b.k(1, "", false), b.i(7))}), M(ov{3: b.m(b.k(1, "", false), b.i(7))}))
	{
		k := b.k(1, "k", true)
		add("struct-keys-shared-key", M(ov{3: b.m(k, b.i(7))}), M(ov{3: b.m(k, b.i(7))}))
		add("struct-keys-shared-key-value-differs", M(ov{3: b.m(k, b.i(7))}), M(ov{3: b.m(k, b.i(8))}))
	}
	// nil and empty
	add("nil-vs-empty-everywhere", M(ov{}), M(ov{1: b.m(), 2: b.m(), 3: b.m(), 4: b.l(), 5: b.l(), 6: b.l(), 9: b.m(),
		10: b.l(), 11: b.bin(""), 13: b.m(), 14: b.l(), 15: b.l()}))
	add("nil-vs-empty-nested", M(ov{15: b.l(b.n(), b.l(b.i(1)))}), M(ov{15: b.l(b.l(), b.l(b.i(1)))}))
	// optional presence
	add("optional-int-unset-vs-zero", M(ov{}), M(ov{7: b.some(b.i(0))}))
	add("optional-struct-unset-vs-empty", M(ov{}), M(ov{8: b.k(0, "", false)}))
	add("optional-string-unset-vs-empty-nested", M(ov{8: b.k(3, "", false)}), M(ov{8: b.k(3, "", true)}))
	// doubles
	add("nan-deep-copy", M(ov{12: b.d(nanBits)}), M(ov{12: b.d(nanBits)}))
	{
		x := M(ov{12: b.d(nanBits)})
		add("nan-same-object", x, x)
	}
	add("nan-key-deep-copy", M(ov{13: b.m(b.d(nanBits), b.bo(true))}), M(ov{13: b.m(b.d(nanBits), b.bo(true))}))
	add("zero-signs", M(ov{12: b.d(0)}), M(ov{12: b.d(negZero)}))
	add("zero-sign-keys", M(ov{13: b.m(b.d(0), b.bo(true))}), M(ov{13: b.m(b.d(negZero), b.bo(true))}))
	// one leaf
	add("last-field-only", M(ov{15: b.l(b.l(b.i(1)))}), M(ov{15: b.l(b.l(b.i(2)))}))
	add("first-field-only", M(ov{1: b.m(b.i(1), b.s("a"))}), M(ov{1: b.m(b.i(1), b.s("b"))}))
	add("list-same-length-deep-leaf", M(ov{6: b.l(b.m(b.s("a"), b.l(b.k(1, "x", true))))}), M(ov{6: b.l(b.m(b.s("a"), b.l(b.k(1, "y", true))))}))
	add("list-same-length-equal", M(ov{6: b.l(b.m(b.s("a"), b.l(b.k(1, "x", true))))}), M(ov{6: b.l(b.m(b.s("a"), b.l(b.k(1, "x", true))))}))
	add("set-order", M(ov{4: b.l(b.s("a"), b.s("b"))}), M(ov{4: b.l(b.s("b"), b.s("a"))}))
	add("map-entry-order", M(ov{1: b.m(b.i(1), b.s("a"), b.i(2), b.s("b"))}), M(ov{1: b.m(b.i(2), b.s("b"), b.i(1), b.s("a"))}))
	add("map-size", M(ov{1: b.m(b.i(1), b.s("a"))}), M(ov{1: b.m(b.i(1), b.s("a"), b.i(2), b.s(""))}))
	add("map-value-deep", M(ov{9: b.m(b.i(5), b.v(b.l(b.k(1, "s", true)), b.some(b.d(halfBits))))}),
		M(ov{9: b.m(b.i(5), b.v(b.l(b.k(1, "t", true)), b.some(b.d(halfBits))))}))
	add("map-value-deep-equal", M(ov{9: b.m(b.i(5), b.v(b.l(b.k(1, "s", true)), b.some(b.d(halfBits))))}),
		M(ov{9: b.m(b.i(5), b.v(b.l(b.k(1, "s", true)), b.some(b.d(halfBits))))}))
	// shared pointers
	{
		o := b.some(b.i(4))
		add("shared-optional-pointer", M(ov{7: o}), M(ov{7: o}))
		k := b.k(9, "z", true)
		add("shared-struct-pointer", M(ov{8: k, 5: b.l(k)}), M(ov{8: k, 5: b.l(k)}))
		n := b.some(b.d(nanBits))
		add("shared-pointer-to-nan", M(ov{9: b.m(b.i(1), b.v(b.n(), n))}), M(ov{9: b.m(b.i(1), b.v(b.n(), n))}))
	}
	// struct-typed keys that are nil pointers, and one object referenced twice inside a value
	add("nil-struct-key-both", M(ov{3: b.m(b.n(), b.i(1))}), M(ov{3: b.m(b.n(), b.i(1))}))
	add("nil-struct-key-value-differs", M(ov{3: b.m(b.n(), b.i(1))}), M(ov{3: b.m(b.n(), b.i(2))}))
	add("nil-struct-key-vs-struct-key", M(ov{3: b.m(b.n(), b.i(1))}), M(ov{3: b.m(b.k(0, "", false), b.i(1))}))
	{
		k := b.k(5, "w", true)
		add("one-object-twice-vs-two-copies", M(ov{5: b.l(k, k), 8: k}), M(ov{5: b.l(b.k(5, "w", true), b.k(5, "w", true)), 8: b.k(5, "w", true)}))
		add("one-object-twice-vs-different-second", M(ov{5: b.l(k, k)}), M(ov{5: b.l(b.k(5, "w", true), b.k(6, "w", true))}))
	}
	// unions and exceptions
	add("union-same-member-equal", M(ov{16: b.u(1, b.i(1))}), M(ov{16: b.u(1, b.i(1))}))
	add("union-same-member-differs", M(ov{16: b.u(2, b.s("p"))}), M(ov{16: b.u(2, b.s("q"))}))
	add("union-other-member-zero-values", M(ov{16: b.u(1, b.i(0))}), M(ov{16: b.u(2, b.s(""))}))
	add("union-none-set-vs-zero", M(ov{16: b.u(0, nil)}), M(ov{16: b.u(1, b.i(0))}))
	add("union-unset-vs-none-set", M(ov{}), M(ov{16: b.u(0, nil)}))
	add("union-struct-member", M(ov{17: b.l(b.u(3, b.k(1, "", false)), b.n())}), M(ov{17: b.l(b.u(3, b.k(1, "", false)), b.n())}))
	add("union-struct-member-nil-vs-empty", M(ov{17: b.l(b.u(3, b.k(0, "", false)))}), M(ov{17: b.l(b.u(0, nil))}))
	add("exception-equal", M(ov{18: b.x("boom", b.u(2, b.s("z")))}), M(ov{18: b.x("boom", b.u(2, b.s("z")))}))
	add("exception-message-differs", M(ov{18: b.x("boom", b.n())}), M(ov{18: b.x("bang", b.n())}))
	add("exception-nested-union-differs", M(ov{18: b.x("boom", b.u(2, b.s("z")))}), M(ov{18: b.x("boom", b.u(1, b.i(7)))}))
	// nil receivers and arguments
	add("nil-receiver", b.n(), M(ov{}))
	add("nil-argument", M(ov{7: b.some(b.i(1))}), b.n())
	add("nil-nil", b.n(), b.n())

	var sets []*valgen.SetCase
	adds := func(name string, x *valgen.HVal) { sets = append(sets, &valgen.SetCase{X: x, Kind: "corpus:" + name}) }
	adds("strings-dup", M(ov{4: b.l(b.s("a"), b.s("a"))}))
	adds("strings-distinct", M(ov{4: b.l(b.s("a"), b.s("b"), b.s(""))}))
	adds("strings-dup-not-adjacent", M(ov{4: b.l(b.s("a"), b.s("b"), b.s("a"))}))
	adds("strings-dup-last-two", M(ov{4: b.l(b.s("c"), b.s("b"), b.s("a"), b.s("a"))}))
	adds("structs-dup-copy", M(ov{5: b.l(b.k(1, "s", true), b.k(1, "s", true))}))
	{
		k := b.k(1, "", false)
		adds("structs-dup-same-pointer", M(ov{5: b.l(k, k)}))
	}
	adds("structs-distinct", M(ov{5: b.l(b.k(1, "s", true), b.k(1, "t", true), b.k(1, "", false))}))
	adds("structs-nil-twice", M(ov{5: b.l(b.n(), b.n())}))
	adds("lists-nil-and-empty", M(ov{15: b.l(b.n(), b.l())}))
	adds("lists-dup", M(ov{15: b.l(b.l(b.i(1)), b.l(b.i(1)))}))
	adds("lists-distinct", M(ov{15: b.l(b.l(b.i(1)), b.l(b.i(2)), b.l(b.i(1), b.i(1)))}))
	adds("maps-disjoint-keys-zero-values", M(ov{14: b.l(b.m(b.i(1), b.s("")), b.m(b.i(2), b.s("")))}))
	adds("maps-dup", M(ov{14: b.l(b.m(b.i(1), b.s("a"), b.i(2), b.s("b")), b.m(b.i(2), b.s("b"), b.i(1), b.s("a")))}))
	adds("struct-keyed-maps-dup-copy", M(ov{10: b.l(b.m(b.k(1, "", false), b.i(1)), b.m(b.k(1, "", false), b.i(1)))}))
	{
		k := b.k(1, "", false)
		adds("struct-keyed-maps-dup-shared-key", M(ov{10: b.l(b.m(k, b.i(1)), b.m(k, b.i(1)))}))
	}
	adds("no-set-touched", M(ov{1: b.m(b.i(1), b.s("a"))}))

	return []corpusVec{{s: ms, pairs: pairs, sets: sets}}
}
