(* Idl/ReflectResolveFacts.v — the descriptor lookups against the symbol resolution of property C05:
   a qualified type name that semantic.ResolveSymbols (model Idl/Resolve.v) binds to include index i
   and name m is found, through the descriptors, as the definition m of the file include i refers to. *)
From Coq Require Import List Bool NArith ZArith Lia.
From Coq.Strings Require Import Byte.
From Verif Require Import Base.Bytes Idl.Ast Idl.AstUtil Idl.AstFacts Idl.Resolve Idl.ResolveLemmas Idl.ResolveSpec
  Idl.ResolveInv Idl.ResolveProg Idl.ResolveFacts Idl.Reflect Idl.ReflectFacts.
Import ListNotations.
Local Open Scope list_scope.
Local Open Scope resolve_scope.

(* ---- resolution keeps the definitions of a file: names and kinds ---- *)

Lemma fix_ty_name done f st t t' : fix_ty done f st t = Ok t' -> ty_name t' = ty_name t.
Proof.
  destruct t as [n k v cpp an c r td]. cbn [fix_ty]. intro H. inv_bind H.
  destruct (is_typedef_cat c).
  - destruct (match r with Some rf => ext_typedef_cat done f rf | None => te_lookup st n end) as [c'|]; [|discriminate].
    destruct (is_typedef_cat c'); [discriminate|]. injection H as <-. reflexivity.
  - injection H as <-. reflexivity.
Qed.

Lemma typedef_pass done f0 done' f1 st td td2 :
  (exists td1, resolve_typedef done f0 td = Ok td1 /\ fix_typedef done' f1 st td1 = Ok td2) ->
  (td_alias td2, DkTypedef (ty_name (td_type td2))) = (td_alias td, DkTypedef (ty_name (td_type td))).
Proof.
  intros (td1 & H1 & H2). unfold resolve_typedef in H1. inv_bind H1. injection H1 as <-.
  unfold fix_typedef in H2. inv_bind H2. injection H2 as <-. cbn [td_alias td_type] in *.
  apply fix_ty_name in E0. apply resolve_ty_head1 in E as [E _]. rewrite E0, E. reflexivity.
Qed.

Lemma constant_pass fuel done f0 done' f1 st c c2 :
  (exists c1, resolve_constant fuel done f0 c = Ok c1 /\ fix_constant done' f1 st c1 = Ok c2) -> co_name c2 = co_name c.
Proof.
  intros (c1 & H1 & H2). unfold resolve_constant in H1. inv_bind H1. injection H1 as <-.
  unfold fix_constant in H2. inv_bind H2. injection H2 as <-. reflexivity.
Qed.

Lemma struct_pass fuel done f0 done' f1 st s s2 :
  (exists s1, resolve_struct_like fuel done f0 s = Ok s1 /\ fix_struct_like done' f1 st s1 = Ok s2) ->
  (sl_name s2, DkStruct (sl_category s2)) = (sl_name s, DkStruct (sl_category s)).
Proof.
  intros (s1 & H1 & H2). unfold resolve_struct_like in H1. inv_bind H1. injection H1 as <-.
  unfold fix_struct_like in H2. inv_bind H2. injection H2 as <-. reflexivity.
Qed.

Lemma service_pass fuel done f0 done' f1 st s s2 :
  (exists s1, resolve_service fuel done f0 s = Ok s1 /\ fix_service done' f1 st s1 = Ok s2) -> sv_name s2 = sv_name s.
Proof.
  intros (s1 & H1 & H2). unfold resolve_service in H1. inv_bind H1. injection H1 as <-.
  unfold fix_service in H2. inv_bind H2. injection H2 as <-. reflexivity.
Qed.

Lemma resolve_file_defs done f f' : resolve_file_in done f = Ok f' -> file_defs f' = file_defs f.
Proof.
  intro H. unfold resolve_file_in in H. inv_bind H. injection H as <-.
  rename x into n2c, x0 into tds1, x1 into cs1, x2 into ss1, x3 into us1, x4 into es1, x5 into sv1,
         x6 into st, x7 into tds2, x8 into cs2, x9 into ss2, x10 into us2, x11 into es2, x12 into sv2.
  unfold file_defs, struct_likes, with_includes.
  cbn [f_typedefs f_constants f_enums f_structs f_unions f_exceptions f_services].
  rewrite !map_app.
  rewrite (Forall2_map_eq _ _ _ _ _ (two_mapM _ _ _ _ _ E0 E7) (fun x y => typedef_pass _ _ _ _ _ x y)).
  rewrite (Forall2_map_eq (fun c => (co_name c, DkConst)) (fun c => (co_name c, DkConst)) _ _ _ (two_mapM _ _ _ _ _ E1 E8))
    by (intros x y Hxy; rewrite (constant_pass _ _ _ _ _ _ x y Hxy); reflexivity).
  rewrite (Forall2_map_eq _ _ _ _ _ (two_mapM _ _ _ _ _ E2 E9) (fun x y => struct_pass _ _ _ _ _ _ x y)).
  rewrite (Forall2_map_eq _ _ _ _ _ (two_mapM _ _ _ _ _ E3 E10) (fun x y => struct_pass _ _ _ _ _ _ x y)).
  rewrite (Forall2_map_eq _ _ _ _ _ (two_mapM _ _ _ _ _ E4 E11) (fun x y => struct_pass _ _ _ _ _ _ x y)).
  rewrite (Forall2_map_eq (fun s => (sv_name s, DkService)) (fun s => (sv_name s, DkService)) _ _ _ (two_mapM _ _ _ _ _ E5 E12))
    by (intros x y Hxy; rewrite (service_pass _ _ _ _ _ _ x y Hxy); reflexivity).
  reflexivity.
Qed.

Definition dinv (p done : program) : Prop :=
  forall gn g', lookup gn done = Some g' -> exists g, prog_file p gn = Some g /\ file_defs g' = file_defs g.

Lemma resolve_rec_dinv p : forall fuel done fn done',
  dinv p done -> resolve_rec fuel p done fn = Ok done' -> dinv p done'.
Proof.
  induction fuel as [|k IH]; intros done fn done' Hinv H; cbn [resolve_rec] in H.
  - destruct (lookup fn done) eqn:L; [|discriminate]. injection H as <-. exact Hinv.
  - destruct (lookup fn done) eqn:L; [injection H as <-; exact Hinv|].
    destruct (prog_file p fn) as [f|] eqn:Pf; [|discriminate].
    inv_bind H. rename x into done1.
    assert (Hgo : forall incs d d1, dinv p d ->
      (fix go (incs : list include) (d : program) {struct incs} : result program :=
         match incs with
         | [] => Ok d
         | i :: r => match in_ref i with
                     | Some g => d' <- resolve_rec k p d g;; go r d'
                     | None => Error ErrNotParsed
                     end
         end) incs d = Ok d1 -> dinv p d1).
    { induction incs as [|i incs IHi]; intros d d1 Hd Hgo.
      - injection Hgo as <-. exact Hd.
      - destruct (in_ref i) as [g|] eqn:Ri; [|discriminate]. inv_bind Hgo.
        exact (IHi _ _ (IH _ _ _ Hd E0) Hgo). }
    pose proof (Hgo _ _ _ Hinv E) as I1. clear Hgo E.
    destruct (lookup fn done1) eqn:L1; [discriminate|]. inv_bind H. injection H as <-.
    intros gn g' Hl. cbn [lookup] in Hl. destruct (beqb gn fn) eqn:Eg.
    + apply beqb_true in Eg. subst gn. injection Hl as <-. exists f. split; [exact Pf|]. apply (resolve_file_defs done1). exact E.
    + exact (I1 gn g' Hl).
Qed.

Lemma dinv_nil p : dinv p [].
Proof. intros gn g' H. discriminate. Qed.

(* every file of the resolved program has the definitions (names and kinds) of its source *)
Theorem resolve_keeps_defs p r :
  resolve_program p = Ok r ->
  forall gn g, prog_file p gn = Some g -> exists g', prog_file r gn = Some g' /\ file_defs g' = file_defs g.
Proof.
  intro H. unfold resolve_program in H. destruct p as [|[mainfn mf] p'] eqn:Ep.
  - intros gn g Hg. discriminate.
  - rewrite <- Ep in *. inv_bind H. injection H as <-. rename x into done.
    assert (Hd : dinv p done) by (apply (resolve_rec_dinv p _ _ _ _ (dinv_nil p) E)).
    intros gn g Hg. unfold prog_file in *. rewrite lookup_map_done, Hg.
    destruct (lookup gn done) as [g'|] eqn:Ld.
    + exists g'. split; [reflexivity|]. destruct (Hd gn g' Ld) as (g0 & Hg0 & Hdef). unfold prog_file in Hg0. congruence.
    + exists g. split; reflexivity.
Qed.

(* ---- splitting a qualified name ---- *)

Lemma no_byte_rev c s : no_byte c (rev s) = no_byte c s.
Proof.
  unfold no_byte. destruct (forallb (fun b => negb (Byte.eqb b c)) s) eqn:E.
  - rewrite forallb_forall in *. intros x Hx. apply E. apply in_rev. exact Hx.
  - destruct (forallb (fun b => negb (Byte.eqb b c)) (rev s)) eqn:E2; [|reflexivity].
    rewrite forallb_forall in E2. assert (forallb (fun b => negb (Byte.eqb b c)) s = true); [|congruence].
    apply forallb_forall. intros x Hx. apply E2. apply in_rev. rewrite rev_involutive. exact Hx.
Qed.

Lemma split_on_pieces c : forall s cur, no_byte c cur = true -> Forall (fun x => no_byte c x = true) (split_on c s cur).
Proof.
  induction s as [|b r IH]; intros cur Hc; cbn [split_on].
  - constructor; [rewrite no_byte_rev; exact Hc|constructor].
  - destruct (Byte.eqb b c) eqn:E.
    + constructor; [rewrite no_byte_rev; exact Hc|apply IH; reflexivity].
    + apply IH. unfold no_byte. cbn [forallb]. rewrite E. exact Hc.
Qed.

Lemma join_with_snoc c B x : B <> [] -> join_with c (B ++ [x]) = join_with c B ++ c :: x.
Proof.
  destruct B as [|y B]; [congruence|]. intros _. unfold join_with. cbn [app]. rewrite map_app. cbn [map].
  rewrite !concat_cons, concat_app. cbn [List.concat]. rewrite app_nil_r, app_assoc. reflexivity.
Qed.

Lemma last_index_split_inv c s a b : last_index_split c s = Some (a, b) -> s = a ++ c :: b /\ no_byte c b = true.
Proof.
  unfold last_index_split. intro H.
  pose proof (join_split c s []) as J. cbn [rev app] in J.
  pose proof (split_on_pieces c s [] eq_refl) as P.
  remember (split_on c s []) as parts eqn:Ep. clear Ep.
  destruct (rev parts) as [|lst before_rev] eqn:Er; [discriminate|]. destruct before_rev as [|y ys]; [discriminate|].
  injection H as Ha Hb. subst b.
  assert (Eparts : parts = rev (y :: ys) ++ [lst]).
  { rewrite <- (rev_involutive parts), Er. reflexivity. }
  split.
  - rewrite <- J, Eparts, join_with_snoc.
    + f_equal. rewrite <- Ha. reflexivity.
    + intro E. apply (f_equal (@List.length bytes)) in E. rewrite rev_length in E. discriminate.
  - rewrite Eparts in P. apply Forall_app in P as [_ P]. inversion P; assumption.
Qed.

(* ---- the theorem ---- *)

Lemma is_empty_neg (s : bytes) : negb (match s with [] => true | _ => false end) = true -> s <> [].
Proof. destruct s; [discriminate|discriminate]. Qed.

(* A type expression of a resolved file that the resolver bound through an include (ty_ref = include
   index and name) is found, by every descriptor lookup, as the definition of that name in the file
   that include refers to — and the file has such a definition, of a type kind. *)
Theorem qualified_type_lookup_right p r fn f' t m idx :
  parsed_program p = true -> resolve_program p = Ok r -> prog_ok r = true ->
  prog_file r fn = Some f' -> f_name2cat f' <> None ->
  distinct_basenames f' = true -> includes_plain f' = true -> includes_named f' = true ->
  In t (file_occs f') -> ty_ref t = Some (Ref m idx) -> m <> [] ->
  exists i gn g' k,
    nth_include f' idx = Some i /\ in_ref i = Some gn /\ prog_file r gn = Some g' /\
    lookup m (file_defs g') = Some k /\ is_type_kind k = true /\
    get_struct (registry_of r) (descriptor_of f') (ty_name t) = omap (struct_desc (f_filename g')) (find_struct g' m) /\
    get_union (registry_of r) (descriptor_of f') (ty_name t) = omap (struct_desc (f_filename g')) (find_union g' m) /\
    get_exception (registry_of r) (descriptor_of f') (ty_name t) = omap (struct_desc (f_filename g')) (find_exception g' m) /\
    get_enum (registry_of r) (descriptor_of f') (ty_name t) = omap (enum_desc (f_filename g')) (find_enum g' m) /\
    get_typedef (registry_of r) (descriptor_of f') (ty_name t) = omap (typedef_desc (f_filename g')) (find_typedef g' m).
Proof.
  intros Hp Hr HPok Hf Hn Hd Hpl Hnm Hin Href Hm.
  pose proof (resolve_reference_index p r Hp Hr fn f' t Hf Hn Hin) as RI.
  destruct (builtin_category (ty_name t)); [rewrite RI in Href; discriminate|].
  destruct (split_type (ty_name t)) as [|pre [|m0 [|? ?]]] eqn:Es; try (rewrite RI in Href; discriminate).
  destruct RI as (f & i0 & gn & k & Hpf & Hr' & Hnth & Hdef & Hk & _).
  rewrite Hr' in Href. injection Href as <- <-.
  (* the includes of the resolved file are those of the parsed one *)
  destruct (resolve_program_good p r Hp Hr) as (done & _ & Hgood). destruct (Hgood fn f' Hf Hn) as (f2 & Hpf2 & Gd).
  assert (f2 = f) by congruence. subst f2.
  assert (Eincs : file_incs f' = file_incs f).
  { unfold file_incs. pose proof (gd_incs _ _ _ _ _ Gd) as E.
    apply (f_equal (map (fun pr : bytes * option bytes => (idl_prefix (fst pr), snd pr)))) in E.
    rewrite !map_map in E. exact E. }
  rewrite <- Eincs in Hnth. unfold file_incs in Hnth. rewrite nth_error_map in Hnth.
  destruct (nth_error (f_includes f') i0) as [i|] eqn:Ei; [|discriminate]. cbn [option_map] in Hnth.
  injection Hnth as Hpre Hiref.
  assert (HinI : In i (f_includes f')) by (eapply nth_error_In; exact Ei).
  (* the name is prefix.m *)
  assert (Hname : ty_name t = pre ++ dot :: m0 /\ no_byte dot m0 = true).
  { unfold split_type in Es. destruct (ty_name t) as [|c0 rest] eqn:En; [discriminate|].
    destruct (last_index_split dot (c0 :: rest)) as [[a b]|] eqn:El; [|discriminate].
    injection Es as <- <-. apply last_index_split_inv. exact El. }
  destruct Hname as [Hname Hnodot].
  (* the target file and its definitions *)
  unfold def_of in Hdef. destruct (prog_file p gn) as [g|] eqn:Hg; [|discriminate].
  destruct (resolve_keeps_defs p r Hr gn g Hg) as (g' & Hg' & Hdefs).
  (* prefix = key of the include map *)
  assert (Epath : include_path i = gn) by (unfold include_path; rewrite Hiref; reflexivity).
  assert (Ealias : include_alias gn = pre).
  { rewrite <- Epath, <- Hpre. apply include_alias_prefix. unfold includes_plain in Hpl. rewrite forallb_forall in Hpl. exact (Hpl i HinI). }
  unfold includes_named in Hnm. rewrite forallb_forall in Hnm. specialize (Hnm i HinI). apply andb_true_iff in Hnm as [Hn1 Hn2].
  rewrite Epath in Hn1, Hn2. apply is_empty_neg in Hn1. apply is_empty_neg in Hn2.
  pose proof (lookup_by_name_through_include r f' i gn g' m0 HPok Hd HinI Hiref Hn1 Hn2 Hg' Hm Hnodot) as L.
  cbv zeta in L. rewrite Ealias, <- Hname in L. destruct L as (L1 & L2 & L3 & L4 & L5 & _ & _).
  exists i, gn, g', k. rewrite nth_include_nat.
  repeat split; try assumption. rewrite Hdefs. exact Hdef.
Qed.

(* ---- base services ---- *)

(* what resolution records for the base service of a service of file g *)
Definition svc_good (p : program) (g : file) (sv sv' : service) : Prop :=
  sv_name sv' = sv_name sv /\ sv_extends sv' = sv_extends sv /\
  match sv_ref sv' with
  | Some rf => exists pre i gn,
      split_type (sv_extends sv) = [pre; ref_name rf] /\ ref_index rf = Z.of_nat i /\
      nth_error (file_incs g) i = Some (pre, Some gn) /\ def_of p gn (ref_name rf) = Some DkService
  | None => True
  end.
Definition svcs_good (p : program) (g g' : file) : Prop := Forall2 (svc_good p g) (f_services g) (f_services g').

Lemma is_service_kind_eq k : is_service_kind k = true -> k = DkService.
Proof. destruct k as [tgt| |vs|sk|]; try discriminate; [destruct sk; discriminate|reflexivity]. Qed.

Lemma resolve_file_services p done f f' :
  inv p done -> (forall i, In i (f_includes f) -> exists hn, in_ref i = Some hn /\ lookup hn done <> None) ->
  resolve_file_in done f = Ok f' -> svcs_good p f f'.
Proof.
  intros Hinv Htg H. unfold resolve_file_in in H. inv_bind H. injection H as <-.
  rename x5 into sv1, x12 into sv2.
  unfold svcs_good, with_includes. cbn [f_services].
  pose proof (two_mapM _ _ _ _ _ E5 E12) as F. eapply Forall2_impl'; [|exact F].
  intros sv sv' (s1 & H1 & H2). cbv beta in *.
  unfold resolve_service in H1. inv_bind H1. injection H1 as <-.
  unfold fix_service in H2. inv_bind H2. injection H2 as <-. cbn [sv_name sv_extends sv_ref].
  unfold svc_good. cbn [sv_name sv_extends sv_ref]. split; [reflexivity|]. split; [reflexivity|].
  rename x12 into rf. unfold resolve_base in E14.
  destruct (split_type (sv_extends sv)) as [|a [|m [|? ?]]] eqn:Es.
  - injection E14 as <-. exact I.
  - destruct (lookup a (n2c_of _)) as [[]|]; try discriminate. injection E14 as <-. exact I.
  - cbn [f_includes with_typedefs with_name2cat] in E14.
    destruct (find_include done is_service_cat a m (f_includes f) 0) as [[idx c]|] eqn:Ef; [|discriminate].
    injection E14 as <-. cbn [ref_name ref_index].
    destruct (find_include_spec p done is_service_cat is_service_kind a m Hinv (fun k => eq_refl) (f_includes f) 0 idx c Htg Ef)
      as (gn & k & Hs & Hd & Hc).
    destruct (spec_include_nth p is_service_kind a m _ _ _ _ Hs) as (_ & Hnth & k' & Hd' & Hk').
    rewrite Nat.sub_0_r in Hnth. exists a, idx, gn. split; [reflexivity|]. split; [reflexivity|].
    split; [exact Hnth|]. rewrite Hd'. f_equal. apply is_service_kind_eq. exact Hk'.
  - injection E14 as <-. exact I.
Qed.

Definition sinv (p done : program) : Prop :=
  forall gn g', lookup gn done = Some g' -> exists g, prog_file p gn = Some g /\ svcs_good p g g'.

Lemma resolve_rec_sinv p : forall fuel done fn done',
  inv p done -> sinv p done -> resolve_rec fuel p done fn = Ok done' -> sinv p done'.
Proof.
  induction fuel as [|k IH]; intros done fn done' Hinv Hs H; cbn [resolve_rec] in H.
  - destruct (lookup fn done) eqn:L; [|discriminate]. injection H as <-. exact Hs.
  - destruct (lookup fn done) eqn:L; [injection H as <-; exact Hs|].
    destruct (prog_file p fn) as [f|] eqn:Pf; [|discriminate].
    inv_bind H. rename x into done1.
    assert (Hgo : forall incs d d1, inv p d -> sinv p d ->
      (fix go (incs : list include) (d : program) {struct incs} : result program :=
         match incs with
         | [] => Ok d
         | i :: r => match in_ref i with
                     | Some g => d' <- resolve_rec k p d g;; go r d'
                     | None => Error ErrNotParsed
                     end
         end) incs d = Ok d1 ->
      inv p d1 /\ sinv p d1 /\ extends d d1 /\ forall i, In i incs -> exists hn, in_ref i = Some hn /\ lookup hn d1 <> None).
    { induction incs as [|i incs IHi]; intros d d1 Hd Hsd Hgo.
      - injection Hgo as <-. split; [exact Hd|]. split; [exact Hsd|]. split; [apply extends_refl|intros i []].
      - destruct (in_ref i) as [g|] eqn:Ri; [|discriminate]. inv_bind Hgo.
        destruct (resolve_rec_inv p _ _ _ _ Hd E0) as (I1 & X1 & L1).
        pose proof (IH _ _ _ Hd Hsd E0) as S1.
        destruct (IHi _ _ I1 S1 Hgo) as (I2 & S2 & X2 & L2).
        split; [exact I2|]. split; [exact S2|]. split; [eapply extends_trans; eauto|].
        intros j [<-|Hj]; [|apply L2; exact Hj]. exists g. split; [exact Ri|]. eapply extends_some; eauto. }
    destruct (Hgo _ _ _ Hinv Hs E) as (I1 & S1 & X1 & T1). clear Hgo E.
    destruct (lookup fn done1) eqn:L1; [discriminate|]. inv_bind H. injection H as <-.
    intros gn g' Hl. cbn [lookup] in Hl. destruct (beqb gn fn) eqn:Eg.
    + apply beqb_true in Eg. subst gn. injection Hl as <-. exists f. split; [exact Pf|].
      exact (resolve_file_services p done1 f x I1 T1 E).
    + exact (S1 gn g' Hl).
Qed.

Lemma sinv_nil p : sinv p [].
Proof. intros gn g' H. discriminate. Qed.

Theorem resolve_services_good p r :
  parsed_program p = true -> resolve_program p = Ok r ->
  forall fn f', prog_file r fn = Some f' -> f_name2cat f' <> None ->
  exists f, prog_file p fn = Some f /\ svcs_good p f f'.
Proof.
  intros Hp H. unfold resolve_program in H. destruct p as [|[mainfn mf] p'] eqn:Ep.
  - injection H as <-. intros fn f' Hf. discriminate.
  - rewrite <- Ep in *. inv_bind H. injection H as <-. rename x into done.
    pose proof (resolve_rec_sinv p _ _ _ _ (inv_nil p) (sinv_nil p) E) as Hs.
    intros fn f' Hf Hn. unfold prog_file in Hf. rewrite lookup_map_done in Hf.
    destruct (lookup fn p) as [f|] eqn:Lf; [|discriminate]. injection Hf as Hf.
    destruct (lookup fn done) as [f2|] eqn:Ld.
    + subst f2. exact (Hs fn f' Ld).
    + subst f'. pose proof (parsed_file p fn f Hp Lf) as Hu. unfold unresolved_file in Hu.
      destruct (f_name2cat f); [discriminate|congruence].
Qed.

(* The base service the resolver bound through an include (sv_ref = include index idx and name m) is
   the service the descriptors find: GetServiceDescriptor of the written base name, and GetParent,
   return the descriptor of service m of the file include idx refers to, which defines it. *)
Theorem base_service_lookup_right p r fn f' sv' m idx :
  parsed_program p = true -> resolve_program p = Ok r -> prog_ok r = true ->
  prog_file r fn = Some f' -> f_name2cat f' <> None ->
  distinct_basenames f' = true -> includes_plain f' = true -> includes_named f' = true ->
  In sv' (f_services f') -> sv_ref sv' = Some (Ref m idx) -> m <> [] ->
  exists i gn g',
    nth_include f' idx = Some i /\ in_ref i = Some gn /\ prog_file r gn = Some g' /\
    lookup m (file_defs g') = Some DkService /\
    get_service (registry_of r) (descriptor_of f') (sv_extends sv') = omap (service_desc (f_filename g')) (find_service g' m) /\
    get_parent (registry_of r) (service_desc fn sv') = omap (service_desc (f_filename g')) (find_service g' m).
Proof.
  intros Hp Hr HPok Hf Hn Hd Hpl Hnm Hin Href Hm.
  destruct (resolve_services_good p r Hp Hr fn f' Hf Hn) as (f & Hpf & Hsv).
  destruct (Forall2_In_r_ex _ _ _ _ Hsv Hin) as (sv & Hg).
  destruct Hg as (_ & Hext & Hg). rewrite Href in Hg. cbn [ref_name ref_index] in Hg.
  destruct Hg as (pre & i0 & gn & Hsplit & -> & Hnth & Hdef).
  destruct (resolve_program_good p r Hp Hr) as (done & _ & Hgood). destruct (Hgood fn f' Hf Hn) as (f2 & Hpf2 & Gd).
  assert (f2 = f) by congruence. subst f2.
  assert (Eincs : file_incs f' = file_incs f).
  { unfold file_incs. pose proof (gd_incs _ _ _ _ _ Gd) as E.
    apply (f_equal (map (fun pr : bytes * option bytes => (idl_prefix (fst pr), snd pr)))) in E.
    rewrite !map_map in E. exact E. }
  rewrite <- Eincs in Hnth. unfold file_incs in Hnth. rewrite nth_error_map in Hnth.
  destruct (nth_error (f_includes f') i0) as [i|] eqn:Ei; [|discriminate]. cbn [option_map] in Hnth.
  injection Hnth as Hpre Hiref.
  assert (HinI : In i (f_includes f')) by (eapply nth_error_In; exact Ei).
  assert (Hname : sv_extends sv' = pre ++ dot :: m /\ no_byte dot m = true).
  { rewrite Hext. unfold split_type in Hsplit. destruct (sv_extends sv) as [|c0 rest] eqn:En; [discriminate|].
    destruct (last_index_split dot (c0 :: rest)) as [[a b]|] eqn:El; [|discriminate].
    injection Hsplit as <- <-. apply last_index_split_inv. exact El. }
  destruct Hname as [Hname Hnodot].
  unfold def_of in Hdef. destruct (prog_file p gn) as [g|] eqn:Hg; [|discriminate].
  destruct (resolve_keeps_defs p r Hr gn g Hg) as (g' & Hg' & Hdefs).
  assert (Epath : include_path i = gn) by (unfold include_path; rewrite Hiref; reflexivity).
  assert (Ealias : include_alias gn = pre).
  { rewrite <- Epath, <- Hpre. apply include_alias_prefix. unfold includes_plain in Hpl. rewrite forallb_forall in Hpl. exact (Hpl i HinI). }
  unfold includes_named in Hnm. rewrite forallb_forall in Hnm. specialize (Hnm i HinI). apply andb_true_iff in Hnm as [Hn1 Hn2].
  rewrite Epath in Hn1, Hn2. apply is_empty_neg in Hn1. apply is_empty_neg in Hn2.
  pose proof (lookup_by_name_through_include r f' i gn g' m HPok Hd HinI Hiref Hn1 Hn2 Hg' Hm Hnodot) as L.
  cbv zeta in L. rewrite Ealias, <- Hname in L. destruct L as (_ & _ & _ & _ & _ & _ & L7).
  exists i, gn, g'. rewrite nth_include_nat.
  split; [exact Ei|]. split; [exact Hiref|]. split; [exact Hg'|]. split; [rewrite Hdefs; exact Hdef|]. split; [exact L7|].
  unfold get_parent, service_desc at 1. cbn [svd_filepath svd_base].
  rewrite (lookup_fd_registry r fn HPok), Hf. cbn [omap]. exact L7.
Qed.
