(* Idl/PrintFacts.v — the parser inverts the printer (property C03): for every well-formed
   file and every concrete token sequence that is a way of writing its abstract token
   sequence (any trivia, separators, quotes, number spellings, implicit items written
   or not), the token parser returns the file, up to recorded comments. *)
From Coq Require Import List Bool NArith ZArith Lia Arith.
From Coq.Strings Require Import Byte.
From Verif Require Import Base.Bytes Idl.Ast Idl.AstFacts Idl.Lex Idl.LexFacts Idl.Parse Idl.ParseFacts Idl.Print.
Import ListNotations.

Definition untriv (lts : toks) : list token := map snd lts.
(* [C ps pre]: the tokens of pre are one way of writing ps *)
Definition C (ps : list ptok) (pre : toks) : Prop := conc ps (untriv pre).

(* ---------------------------------------------------------------- splitting *)

Lemma conc_app_inv ps1 ps2 ts :
  conc (ps1 ++ ps2) ts -> exists t1 t2, ts = t1 ++ t2 /\ conc ps1 t1 /\ conc ps2 t2.
Proof.
  revert ts. induction ps1 as [|p ps1 IH]; intros ts H.
  - exists [], ts. repeat split; [constructor | exact H].
  - cbn [app] in H. inversion H as [|p0 ps0 t ts' Hp Hr]; subst.
    destruct (IH _ Hr) as (t1 & t2 & -> & H1 & H2).
    exists (t ++ t1), t2. rewrite app_assoc. repeat split; [constructor; assumption | exact H2].
Qed.

Lemma untriv_app_inv pre t1 t2 :
  untriv pre = t1 ++ t2 -> exists p1 p2, pre = p1 ++ p2 /\ untriv p1 = t1 /\ untriv p2 = t2.
Proof.
  unfold untriv. intro H. apply map_eq_app in H. destruct H as (p1 & p2 & -> & H1 & H2).
  exists p1, p2. auto.
Qed.

Lemma C_app_inv ps1 ps2 pre :
  C (ps1 ++ ps2) pre -> exists p1 p2, pre = p1 ++ p2 /\ C ps1 p1 /\ C ps2 p2.
Proof.
  unfold C. intro H. destruct (conc_app_inv _ _ _ H) as (t1 & t2 & E & H1 & H2).
  destruct (untriv_app_inv _ _ _ E) as (p1 & p2 & -> & <- & <-). exists p1, p2. auto.
Qed.

Lemma C_cons_inv p ps pre :
  C (p :: ps) pre -> exists p1 p2, pre = p1 ++ p2 /\ conc1 p (untriv p1) /\ C ps p2.
Proof.
  unfold C. intro H. inversion H as [|p0 ps0 t ts' Hp Hr E1 E2]; subst.
  symmetry in E2. destruct (untriv_app_inv _ _ _ E2) as (p1 & p2 & -> & <- & <-). exists p1, p2. auto.
Qed.

Lemma C_nil_inv pre : C [] pre -> pre = [].
Proof. unfold C, untriv. intro H. inversion H as [E|]. destruct pre; [reflexivity | discriminate]. Qed.

Lemma conc_app ps1 ps2 t1 t2 : conc ps1 t1 -> conc ps2 t2 -> conc (ps1 ++ ps2) (t1 ++ t2).
Proof.
  intros H1 H2. induction H1 as [|p ps t ts Hp Hr IH]; [exact H2|].
  cbn [app]. rewrite <- app_assoc. constructor; assumption.
Qed.

Lemma C_app ps1 ps2 p1 p2 : C ps1 p1 -> C ps2 p2 -> C (ps1 ++ ps2) (p1 ++ p2).
Proof. unfold C, untriv. rewrite map_app. apply conc_app. Qed.

(* shapes of single abstract tokens *)
Lemma untriv_one pre t : untriv pre = [t] -> exists tr, pre = [(tr, t)].
Proof. destruct pre as [|[tr t0] [|? ?]]; cbn; intro H; try discriminate. injection H as ->. eauto. Qed.
Lemma untriv_two pre t1 t2 : untriv pre = [t1; t2] -> exists tr1 tr2, pre = [(tr1, t1); (tr2, t2)].
Proof.
  destruct pre as [|[tr1 a] [|[tr2 b] [|? ?]]]; cbn; intro H; try discriminate. injection H as -> ->. eauto.
Qed.
Lemma untriv_nil pre : untriv pre = [] -> pre = [].
Proof. destruct pre; [reflexivity | discriminate]. Qed.

Ltac one_tok :=
  match goal with
  | E : [?t] = untriv ?pre |- _ =>
    let tr := fresh "tr" in symmetry in E; destruct (untriv_one _ _ E) as (tr & ->)
  | E : [?t1; ?t2] = untriv ?pre |- _ =>
    let tr1 := fresh "tr" in let tr2 := fresh "tr" in
    symmetry in E; destruct (untriv_two _ _ _ E) as (tr1 & tr2 & ->)
  | E : [] = untriv ?pre |- _ => symmetry in E; apply untriv_nil in E; subst pre
  end.

Lemma conc1_PW w pre : conc1 (PW w) (untriv pre) -> exists tr, pre = [(tr, TWord w)].
Proof. intro H. inversion H; subst. one_tok. eauto. Qed.
Lemma conc1_PP c pre : conc1 (PP c) (untriv pre) -> exists tr, pre = [(tr, TPunct c)].
Proof. intro H. inversion H; subst. one_tok. eauto. Qed.
Lemma conc1_PI z pre : conc1 (PI z) (untriv pre) -> exists tr t, pre = [(tr, TInt t)] /\ int_value t = Some z.
Proof. intro H. inversion H; subst. one_tok. eauto. Qed.
Lemma conc1_PD b pre : conc1 (PD b) (untriv pre) -> exists tr t, pre = [(tr, TDouble t)] /\ double_value t = b.
Proof. intro H. inversion H; subst. one_tok. eauto. Qed.
Lemma conc1_PL s pre : conc1 (PL s) (untriv pre) -> exists tr q raw, pre = [(tr, TLit q raw)] /\ unescape q raw = s.
Proof. intro H. inversion H; subst. one_tok. eauto. Qed.
Lemma conc1_PSep pre : conc1 PSep (untriv pre) -> pre = [] \/ exists tr c, pre = [(tr, TPunct c)] /\ is_sepc c = true.
Proof. intro H. inversion H; subst; one_tok; [left; reflexivity | right; eauto]. Qed.
Lemma conc1_PFid z pre : conc1 (PFid z) (untriv pre) ->
  exists tr1 tr2 t, pre = [(tr1, TInt t); (tr2, TPunct p_colon)] /\ field_id_value t = z.
Proof. intro H. inversion H; subst. one_tok. eauto. Qed.
Lemma conc1_POptFid z pre : conc1 (POptFid z) (untriv pre) ->
  pre = [] \/ exists tr1 tr2 t, pre = [(tr1, TInt t); (tr2, TPunct p_colon)] /\ field_id_value t = z.
Proof. intro H. inversion H; subst; one_tok; [left; reflexivity | right; eauto]. Qed.
Lemma conc1_POptEnumVal z pre : conc1 (POptEnumVal z) (untriv pre) ->
  pre = [] \/ exists tr1 tr2 t, pre = [(tr1, TPunct p_eq); (tr2, TInt t)] /\ int_value t = Some z.
Proof. intro H. inversion H; subst; one_tok; [left; reflexivity | right; eauto]. Qed.
Lemma conc1_POptEmptyAnnos pre : conc1 POptEmptyAnnos (untriv pre) ->
  pre = [] \/ exists tr1 tr2, pre = [(tr1, TPunct p_lpar); (tr2, TPunct p_rpar)].
Proof. intro H. inversion H; subst; one_tok; [left; reflexivity | right; eauto]. Qed.
Lemma conc1_PThrowsReq pre : conc1 PThrowsReq (untriv pre) ->
  pre = [] \/ (exists tr, pre = [(tr, TWord kw_optional)]) \/ (exists tr, pre = [(tr, TWord kw_required)]).
Proof. intro H. inversion H; subst; one_tok; [left; reflexivity | right; left; eauto | right; right; eauto]. Qed.

(* one-token pieces inside a longer sequence *)
Lemma C_PW_cons w ps pre : C (PW w :: ps) pre -> exists tr p2, pre = (tr, TWord w) :: p2 /\ C ps p2.
Proof.
  intro H. destruct (C_cons_inv _ _ _ H) as (p1 & p2 & -> & H1 & H2).
  destruct (conc1_PW _ _ H1) as (tr & ->). exists tr, p2. auto.
Qed.
Lemma C_PP_cons c ps pre : C (PP c :: ps) pre -> exists tr p2, pre = (tr, TPunct c) :: p2 /\ C ps p2.
Proof.
  intro H. destruct (C_cons_inv _ _ _ H) as (p1 & p2 & -> & H1 & H2).
  destruct (conc1_PP _ _ H1) as (tr & ->). exists tr, p2. auto.
Qed.
Lemma C_PL_cons s ps pre :
  C (PL s :: ps) pre -> exists tr q raw p2, pre = (tr, TLit q raw) :: p2 /\ unescape q raw = s /\ C ps p2.
Proof.
  intro H. destruct (C_cons_inv _ _ _ H) as (p1 & p2 & -> & H1 & H2).
  destruct (conc1_PL _ _ H1) as (tr & q & raw & -> & Hv). exists tr, q, raw, p2. auto.
Qed.
Lemma C_PSep_cons ps pre :
  C (PSep :: ps) pre ->
  (C ps pre) \/ (exists tr c p2, pre = (tr, TPunct c) :: p2 /\ is_sepc c = true /\ C ps p2).
Proof.
  intro H. destruct (C_cons_inv _ _ _ H) as (p1 & p2 & -> & H1 & H2).
  destruct (conc1_PSep _ H1) as [->|(tr & c & -> & Hc)]; [left; exact H2 | right].
  exists tr, c, p2. auto.
Qed.

Lemma C_one p pre : C [p] pre -> conc1 p (untriv pre).
Proof.
  intro H. destruct (C_cons_inv _ _ _ H) as (p1 & p2 & -> & H1 & H2).
  apply C_nil_inv in H2. subst p2. rewrite app_nil_r. exact H1.
Qed.

(* ---------------------------------------------------------------- first tokens *)

Definition head_tok (ts : toks) : option token := match ts with (_, t) :: _ => Some t | [] => None end.

Definition no_lpar (ts : toks) : Prop := head_tok ts <> Some (TPunct p_lpar).
Definition no_sep (ts : toks) : Prop := forall c, head_tok ts = Some (TPunct c) -> is_sepc c = false.

Lemma skip_sep_none ts : no_sep ts -> skip_sep ts = ts.
Proof.
  intro H. destruct ts as [|[tr t] r]; [reflexivity|]. destruct t; try reflexivity.
  cbn [skip_sep]. rewrite (H c eq_refl). reflexivity.
Qed.

Lemma skip_sep_sep tr c ts : is_sepc c = true -> skip_sep ((tr, TPunct c) :: ts) = ts.
Proof. intro H. cbn [skip_sep]. rewrite H. reflexivity. Qed.

Lemma sep_not c d : is_sepc c = true -> is_sepc d = false -> Byte.eqb c d = false.
Proof. intros Hc Hd. apply eqb_neq. intros ->. congruence. Qed.

(* what a PSep followed by [rest] looks like to the parser *)
Lemma skip_sep_C pre rest : C [PSep] pre -> no_sep rest -> skip_sep (pre ++ rest) = rest.
Proof.
  intros H Hn. apply C_one in H. destruct (conc1_PSep _ H) as [->|(tr & c & -> & Hc)].
  - apply skip_sep_none. exact Hn.
  - cbn [app]. apply skip_sep_sep. exact Hc.
Qed.

(* ---------------------------------------------------------------- annotations *)

Definition flat_pairs (a : annotations) : list (bytes * bytes) :=
  flat_map (fun an => map (fun v => (an_key an, v)) (an_values an)) a.
Definition item_protos (kv : bytes * bytes) : list ptok := [PW (fst kv); PP p_eq; PL (snd kv); PSep].

Lemma flat_map_flat_map {A B D} (f : B -> list D) (g : A -> list B) l :
  flat_map f (flat_map g l) = flat_map (fun x => flat_map f (g x)) l.
Proof.
  induction l as [|x l IH]; [reflexivity|]. cbn [flat_map]. rewrite flat_map_app, IH. reflexivity.
Qed.

Lemma protos_annos_pairs a :
  a <> [] -> protos_annos a = PP p_lpar :: flat_map item_protos (flat_pairs a) ++ [PP p_rpar].
Proof.
  intro Hne. destruct a as [|x r]; [contradiction|]. unfold protos_annos, flat_pairs.
  f_equal. f_equal. rewrite flat_map_flat_map. apply flat_map_ext. intro an.
  induction (an_values an) as [|v vs IH]; [reflexivity|]. cbn [map flat_map]. rewrite IH. reflexivity.
Qed.

Lemma is_sepc_rpar c : is_sepc c = true -> Byte.eqb c p_rpar = false.
Proof. intro H. apply eqb_neq. intros ->. discriminate. Qed.

Lemma parse_anno_pairs_conc : forall pairs pre b trc rest,
  C (flat_map item_protos pairs) pre ->
  parse_anno_pairs b (pre ++ (trc, TPunct p_rpar) :: rest) = Some (pairs, rest).
Proof.
  induction pairs as [|[k v] r IH]; intros pre b trc rest H.
  - apply C_nil_inv in H. subst pre. cbn [app parse_anno_pairs]. rewrite eqb_refl. reflexivity.
  - cbn [flat_map item_protos fst snd app] in H.
    destruct (C_PW_cons _ _ _ H) as (tr1 & p2 & -> & H2).
    destruct (C_PP_cons _ _ _ H2) as (tr2 & p3 & -> & H3).
    destruct (C_PL_cons _ _ _ H3) as (tr3 & q & raw & p4 & -> & Hv & H4).
    cbn [app parse_anno_pairs]. rewrite eqb_refl.
    destruct (C_PSep_cons _ _ H4) as [H5|(tr4 & c & p5 & -> & Hc & H5)].
    + rewrite (IH p4 true trc rest H5). rewrite Hv. reflexivity.
    + cbn [app parse_anno_pairs]. rewrite (is_sepc_rpar c Hc), Hc. cbn [andb].
      rewrite (IH p5 false trc rest H5). rewrite Hv. reflexivity.
Qed.

(* folding Append over the flattened form of a grouped list gives the list back *)
Lemma fold_values_fresh k : forall vs acc v0,
  ~ In k (map an_key acc) ->
  fold_left (fun a kv => anno_append a (fst kv) (snd kv)) (map (fun v => (k, v)) vs) (acc ++ [Anno k v0])
  = acc ++ [Anno k (v0 ++ vs)].
Proof.
  induction vs as [|v vs IH]; intros acc v0 Hk.
  - cbn. rewrite app_nil_r. reflexivity.
  - cbn [map fold_left fst snd].
    assert (E : anno_append (acc ++ [Anno k v0]) k v = acc ++ [Anno k (v0 ++ [v])]).
    { clear IH. induction acc as [|x acc IHa].
      - cbn. rewrite beqb_refl. reflexivity.
      - cbn [app anno_append]. destruct (beqb (an_key x) k) eqn:E.
        + apply beqb_true in E. exfalso. apply Hk. left. exact E.
        + f_equal. apply IHa. intro H. apply Hk. right. exact H. }
    rewrite E. rewrite IH by exact Hk. rewrite <- app_assoc. reflexivity.
Qed.

Lemma nodup_keys_go_spec seen a :
  (fix go (seen : list bytes) (a : annotations) : bool :=
     match a with
     | [] => true
     | x :: r => negb (existsb (beqb (an_key x)) seen) && go (an_key x :: seen) r
     end) seen a = true ->
  forall x, In x a -> ~ In (an_key x) seen.
Proof.
  revert seen. induction a as [|y r IH]; intros seen H x Hx; [contradiction|].
  apply andb_true_iff in H. destruct H as [H1 H2].
  destruct Hx as [->|Hx].
  - intro Hin. apply negb_true_iff in H1. apply existsb_beqb_In in Hin. congruence.
  - intro Hin. apply (IH _ H2 x Hx). right. exact Hin.
Qed.

Lemma fold_flat_pairs : forall a acc,
  forallb (fun an => match an_values an with [] => false | _ => true end) a = true ->
  (fix go (seen : list bytes) (a : annotations) : bool :=
     match a with
     | [] => true
     | x :: r => negb (existsb (beqb (an_key x)) seen) && go (an_key x :: seen) r
     end) (rev (map an_key acc)) a = true ->
  fold_left (fun a kv => anno_append a (fst kv) (snd kv)) (flat_pairs a) acc = acc ++ a.
Proof.
  induction a as [|x r IH]; intros acc Hv Hnd.
  - cbn. rewrite app_nil_r. reflexivity.
  - cbn [forallb] in Hv. apply andb_true_iff in Hv. destruct Hv as [Hx Hv].
    apply andb_true_iff in Hnd. destruct Hnd as [Hfresh Hnd].
    unfold flat_pairs. cbn [flat_map]. rewrite fold_left_app.
    destruct x as [k vals]. cbn [an_key an_values] in *.
    destruct vals as [|v0 vs]; [discriminate|].
    assert (Hk : ~ In k (map an_key acc)).
    { intro Hin. apply negb_true_iff in Hfresh. apply in_rev in Hin.
      apply existsb_beqb_In in Hin. congruence. }
    cbn [map fold_left fst snd]. rewrite (anno_append_notin acc k v0 Hk).
    rewrite (fold_values_fresh k vs acc [v0] Hk). cbn [app].
    fold (flat_pairs r). rewrite IH.
    + rewrite <- app_assoc. reflexivity.
    + exact Hv.
    + rewrite map_app, rev_app_distr. cbn [map an_key rev app]. exact Hnd.
Qed.

Lemma annos_of_flat_pairs a : wf_annos a = true -> annos_of_pairs (flat_pairs a) = a.
Proof.
  unfold wf_annos. intro H. apply andb_true_iff in H. destruct H as [H1 H2].
  unfold annos_of_pairs. rewrite (fold_flat_pairs a []); [reflexivity | | exact H2].
  rewrite forallb_forall in H1. apply forallb_forall. intros x Hx. specialize (H1 x Hx).
  apply andb_true_iff in H1. tauto.
Qed.

Lemma parse_annos_opt_none ts : no_lpar ts -> parse_annos_opt ts = Some ([], ts).
Proof.
  intro H. destruct ts as [|[tr t] r]; [reflexivity|]. destruct t; try reflexivity.
  cbn [parse_annos_opt]. destruct (Byte.eqb c p_lpar) eqn:E; [|reflexivity].
  apply byte_eqb_eq in E. subst c. exfalso. apply H. reflexivity.
Qed.

(* Annotations?: what was printed for an annotation list is read back as that list *)
Lemma parse_annos_conc a pre rest :
  wf_annos a = true -> C (protos_annos a) pre -> (pre = [] -> no_lpar rest) ->
  parse_annos_opt (pre ++ rest) = Some (a, rest).
Proof.
  intros Hwf H Hfollow. destruct a as [|x r].
  - cbn [protos_annos] in H. apply C_one in H.
    destruct (conc1_POptEmptyAnnos _ H) as [->|(tr1 & tr2 & ->)].
    + cbn [app]. apply parse_annos_opt_none. apply Hfollow. reflexivity.
    + cbn [app parse_annos_opt]. rewrite eqb_refl. cbn [parse_anno_pairs]. rewrite eqb_refl. reflexivity.
  - rewrite protos_annos_pairs in H by discriminate.
    destruct (C_PP_cons _ _ _ H) as (tr1 & p2 & -> & H2).
    destruct (C_app_inv _ _ _ H2) as (p3 & p4 & -> & H3 & H4).
    apply C_one in H4. destruct (conc1_PP _ _ H4) as (tr2 & ->).
    cbn [app parse_annos_opt]. rewrite eqb_refl. rewrite <- app_assoc. cbn [app].
    rewrite (parse_anno_pairs_conc _ p3 false tr2 rest H3).
    rewrite (annos_of_flat_pairs _ Hwf). reflexivity.
Qed.

(* ---------------------------------------------------------------- type names *)

Record type_name_facts (w : bytes) : Prop := {
  tn_map : beqb w kw_map = false;
  tn_set : beqb w kw_set = false;
  tn_list : beqb w kw_list = false;
  tn_dot : existsb (fun k => kw_dot k w) base_kws = false;
  tn_req : is_prefix kw_required w = false;
  tn_opt : is_prefix kw_optional w = false;
  tn_oneway : beqb w kw_oneway = false;
  tn_void : beqb w kw_void = false;
  tn_throws : beqb w kw_throws = false;
  tn_oneway_dot : kw_dot kw_oneway w = false;
  tn_void_dot : kw_dot kw_void w = false }.

Lemma existsb_false_In {A} (f : A -> bool) l x : existsb f l = false -> In x l -> f x = false.
Proof.
  intros H Hin. destruct (f x) eqn:E; [|reflexivity].
  assert (existsb f l = true) by (apply existsb_exists; eauto). congruence.
Qed.

Lemma type_name_ok_facts w : type_name_ok w = true -> type_name_facts w.
Proof.
  unfold type_name_ok. intro H. apply orb_true_iff in H. destruct H as [H|H].
  - apply existsb_exists in H. destruct H as (k & Hin & E). apply beqb_true in E. subst w.
    cbn in Hin. repeat (destruct Hin as [<-|Hin]; [constructor; reflexivity|]). contradiction.
  - repeat (apply andb_true_iff in H; destruct H as [H ?]).
    repeat match goal with H : negb _ = true |- _ => apply negb_true_iff in H end.
    assert (Hk : forall k, In k all_kws -> beqb w k = false).
    { intros k Hin. apply (existsb_false_In (beqb w) all_kws k); assumption. }
    assert (Hd : forall k, In k (kw_oneway :: kw_void :: base_kws) -> kw_dot k w = false).
    { intros k Hin. apply (existsb_false_In (fun k => kw_dot k w) (kw_oneway :: kw_void :: base_kws) k); assumption. }
    constructor; try assumption; try (apply Hk; cbn; tauto); try (apply Hd; cbn; tauto).
    destruct (existsb (fun k => kw_dot k w) base_kws) eqn:E; [|reflexivity].
    apply existsb_exists in E. destruct E as (k & Hin & E).
    rewrite Hd in E; [discriminate | right; right; exact Hin].
Qed.

(* ---------------------------------------------------------------- types *)

Definition no_cpp (ts : toks) : Prop :=
  match ts with
  | (_, TWord w) :: (_, TLit _ _) :: _ => w <> kw_cpp_type
  | _ => True
  end.

Lemma parse_type_word f tr w rest :
  parse_type (S f) ((tr, TWord w) :: rest) =
  let ident :=
    if existsb (fun k => kw_dot k w) base_kws then None
    else with_annos (fun an => ty_plain w None None [] an) rest in
  if beqb w kw_map then
    match container_head rest with
    | Some (cpp, r1) =>
      match parse_type f r1 with
      | Some (k, r2) =>
        match expect_punct p_comma r2 with
        | Some r3 =>
          match parse_type f r3 with
          | Some (v, r4) =>
            match expect_punct p_rpoint r4 with
            | Some r5 => with_annos (fun an => ty_plain kw_map (Some k) (Some v) cpp an) r5
            | None => None
            end
          | None => None
          end
        | None => None
        end
      | None => None
      end
    | None => ident
    end
  else if beqb w kw_set then
    match container_head rest with
    | Some (cpp, r1) =>
      match parse_type f r1 with
      | Some (v, r2) =>
        match expect_punct p_rpoint r2 with
        | Some r3 => with_annos (fun an => ty_plain kw_set None (Some v) cpp an) r3
        | None => None
        end
      | None => None
      end
    | None => ident
    end
  else if beqb w kw_list then
    match expect_punct p_lpoint rest with
    | Some r1 =>
      match parse_type f r1 with
      | Some (v, r2) =>
        match expect_punct p_rpoint r2 with
        | Some r3 =>
          let (cpp, r4) := cpp_type_opt r3 in
          with_annos (fun an => ty_plain kw_list None (Some v) cpp an) r4
        | None => None
        end
      | None => None
      end
    | None => ident
    end
  else ident.
Proof. reflexivity. Qed.

Lemma expect_punct_hit c tr rest : expect_punct c ((tr, TPunct c) :: rest) = Some rest.
Proof. cbn [expect_punct]. rewrite eqb_refl. reflexivity. Qed.

Lemma container_head_conc cpp pc tr X :
  C (protos_cpp cpp) pc -> container_head (pc ++ (tr, TPunct p_lpoint) :: X) = Some (cpp, X).
Proof.
  intro H. destruct cpp as [|c0 cr].
  - apply C_nil_inv in H. subst pc. cbn [app container_head]. rewrite eqb_refl. reflexivity.
  - cbn [protos_cpp] in H.
    destruct (C_PW_cons _ _ _ H) as (tr1 & p2 & -> & H2).
    apply C_one in H2. destruct (conc1_PL _ _ H2) as (tr2 & q & raw & -> & Hv).
    cbn [app container_head]. rewrite beqb_refl, eqb_refl. cbn [andb]. rewrite Hv. reflexivity.
Qed.

Lemma cpp_type_opt_conc cpp pc X :
  C (protos_cpp cpp) pc -> (pc = [] -> no_cpp X) -> cpp_type_opt (pc ++ X) = (cpp, X).
Proof.
  intros H Hf. destruct cpp as [|c0 cr].
  - apply C_nil_inv in H. subst pc. cbn [app]. specialize (Hf eq_refl).
    destruct X as [|[tr t] X']; [reflexivity|]. destruct t; try reflexivity.
    destruct X' as [|[tr' t'] X'']; [reflexivity|]. destruct t'; try reflexivity.
    cbn [cpp_type_opt]. cbn [no_cpp] in Hf.
    destruct (beqb w kw_cpp_type) eqn:E; [apply beqb_true in E; contradiction | reflexivity].
  - cbn [protos_cpp] in H.
    destruct (C_PW_cons _ _ _ H) as (tr1 & p2 & -> & H2).
    apply C_one in H2. destruct (conc1_PL _ _ H2) as (tr2 & q & raw & -> & Hv).
    cbn [app cpp_type_opt]. rewrite beqb_refl. rewrite Hv. reflexivity.
Qed.

Lemma with_annos_conc mk a pan rest :
  wf_annos a = true -> C (protos_annos a) pan -> (pan = [] -> no_lpar rest) ->
  with_annos mk (pan ++ rest) = Some (mk a, rest).
Proof. intros Hw H Hf. unfold with_annos. rewrite (parse_annos_conc a pan rest Hw H Hf). reflexivity. Qed.

Lemma no_lpar_punct tr c X : c <> p_lpar -> no_lpar ((tr, TPunct c) :: X).
Proof. intros Hc H. cbn in H. injection H as ->. contradiction. Qed.
Lemma no_lpar_word tr w X : no_lpar ((tr, TWord w) :: X).
Proof. intro H. discriminate. Qed.
Lemma no_cpp_punct tr c X : no_cpp ((tr, TPunct c) :: X).
Proof. exact I. Qed.

Lemma wf_type_inv name k v cpp an cat r td :
  wf_type (Ty name k v cpp an cat r td) = true ->
  wf_annos an = true /\ cat = CatConstant /\ r = None /\ td = None /\
  match k, v with
  | Some kt, Some vt => beqb name kw_map && wf_type kt && wf_type vt
  | None, Some vt => (beqb name kw_set || beqb name kw_list) && wf_type vt
  | None, None => type_name_ok name && beqb cpp []
  | Some _, None => false
  end = true.
Proof.
  cbn [wf_type]. intro H.
  apply andb_true_iff in H. destruct H as [H H5].
  apply andb_true_iff in H. destruct H as [H H4].
  apply andb_true_iff in H. destruct H as [H H3].
  apply andb_true_iff in H. destruct H as [H1 H2].
  destruct cat; try discriminate. destruct r; try discriminate. destruct td; try discriminate.
  repeat split; assumption.
Qed.

Ltac norm_app_in H := repeat first [rewrite <- app_assoc in H | progress cbn [app] in H].
Ltac norm_app := repeat first [rewrite <- app_assoc | progress cbn [app]].

Lemma parse_type_conc : forall t fuel pre rest,
  wf_type t = true -> C (protos_type t) pre -> List.length pre < fuel ->
  no_lpar rest -> no_cpp rest ->
  parse_type fuel (pre ++ rest) = Some (t, rest).
Proof.
  induction t as [name k v cpp an cat r td IHk IHv] using ty_ind'.
  intros fuel pre rest Hwf H Hfuel Hnl Hnc.
  destruct fuel as [|f]; [lia|].
  destruct (wf_type_inv _ _ _ _ _ _ _ _ Hwf) as (Hwa & -> & -> & -> & Hkv). clear Hwf.
  cbn [protos_type] in H.
  destruct k as [kt|]; destruct v as [vt|]; try discriminate.
  - (* map *)
    apply andb_true_iff in Hkv. destruct Hkv as [Hn Hwv].
    apply andb_true_iff in Hn. destruct Hn as [Hn Hwk]. apply beqb_true in Hn. subst name.
    norm_app_in H.
    destruct (C_PW_cons _ _ _ H) as (tr0 & p1 & -> & K1).
    destruct (C_app_inv _ _ _ K1) as (pc & p2 & -> & Hc & K2).
    destruct (C_PP_cons _ _ _ K2) as (tr1 & p3 & -> & K3).
    destruct (C_app_inv _ _ _ K3) as (pk & p4 & -> & Hk & K4).
    destruct (C_PP_cons _ _ _ K4) as (tr2 & p5 & -> & K5).
    destruct (C_app_inv _ _ _ K5) as (pv & p6 & -> & Hv & K6).
    destruct (C_PP_cons _ _ _ K6) as (tr3 & pan & -> & Han).
    cbn [app]. rewrite parse_type_word. cbv zeta. rewrite beqb_refl.
    norm_app. rewrite (container_head_conc cpp pc tr1 _ Hc).
    cbn [List.length] in Hfuel. rewrite !app_length in Hfuel. cbn [List.length] in Hfuel.
    rewrite !app_length in Hfuel. cbn [List.length] in Hfuel. rewrite !app_length in Hfuel. cbn [List.length] in Hfuel.
    rewrite (IHk kt eq_refl f pk _ Hwk Hk); [| lia | apply no_lpar_punct; discriminate | exact I].
    rewrite expect_punct_hit.
    rewrite (IHv vt eq_refl f pv _ Hwv Hv); [| lia | apply no_lpar_punct; discriminate | exact I].
    rewrite expect_punct_hit.
    rewrite (with_annos_conc _ an pan rest); [reflexivity | exact Hwa | exact Han | intros _; exact Hnl].
  - (* set or list *)
    apply andb_true_iff in Hkv. destruct Hkv as [Hn Hwv].
    destruct (beqb name kw_list) eqn:El.
    + (* list *)
      apply beqb_true in El. subst name.
      norm_app_in H.
      destruct (C_PW_cons _ _ _ H) as (tr0 & p1 & -> & K1).
      destruct (C_PP_cons _ _ _ K1) as (tr1 & p2 & -> & K2).
      destruct (C_app_inv _ _ _ K2) as (pv & p3 & -> & Hv & K3).
      destruct (C_PP_cons _ _ _ K3) as (tr2 & p4 & -> & K4).
      destruct (C_app_inv _ _ _ K4) as (pc & pan & -> & Hc & Han).
      cbn [app]. rewrite parse_type_word. cbv zeta.
      assert (E1 : beqb kw_list kw_map = false) by reflexivity.
      assert (E2 : beqb kw_list kw_set = false) by reflexivity.
      rewrite E1, E2, beqb_refl. rewrite expect_punct_hit. norm_app.
      cbn [List.length] in Hfuel. rewrite !app_length in Hfuel. cbn [List.length] in Hfuel.
      rewrite (IHv vt eq_refl f pv _ Hwv Hv); [| lia | apply no_lpar_punct; discriminate | exact I].
      rewrite expect_punct_hit.
      rewrite (cpp_type_opt_conc cpp pc (pan ++ rest) Hc).
      2:{ intros _. destruct an as [|a0 ar].
          - cbn [protos_annos] in Han. apply C_one in Han.
            destruct (conc1_POptEmptyAnnos _ Han) as [->|(tr5 & tr6 & ->)]; [exact Hnc | exact I].
          - rewrite protos_annos_pairs in Han by discriminate.
            destruct (C_PP_cons _ _ _ Han) as (tr5 & p7 & -> & _). exact I. }
      rewrite (with_annos_conc _ an pan rest); [reflexivity | exact Hwa | exact Han | intros _; exact Hnl].
    + (* set *)
      rewrite orb_false_r in Hn. apply beqb_true in Hn. subst name.
      norm_app_in H.
      destruct (C_PW_cons _ _ _ H) as (tr0 & p1 & -> & K1).
      destruct (C_app_inv _ _ _ K1) as (pc & p2 & -> & Hc & K2).
      destruct (C_PP_cons _ _ _ K2) as (tr1 & p3 & -> & K3).
      destruct (C_app_inv _ _ _ K3) as (pv & p4 & -> & Hv & K4).
      destruct (C_PP_cons _ _ _ K4) as (tr2 & pan & -> & Han).
      cbn [app]. rewrite parse_type_word. cbv zeta.
      assert (E1 : beqb kw_set kw_map = false) by reflexivity.
      rewrite E1, beqb_refl.
      norm_app. rewrite (container_head_conc cpp pc tr1 _ Hc).
      cbn [List.length] in Hfuel. rewrite !app_length in Hfuel. cbn [List.length] in Hfuel.
      rewrite !app_length in Hfuel. cbn [List.length] in Hfuel.
      rewrite (IHv vt eq_refl f pv _ Hwv Hv); [| lia | apply no_lpar_punct; discriminate | exact I].
      rewrite expect_punct_hit.
      rewrite (with_annos_conc _ an pan rest); [reflexivity | exact Hwa | exact Han | intros _; exact Hnl].
  - (* a name *)
    apply andb_true_iff in Hkv. destruct Hkv as [Hn Hcpp].
    apply beqb_true in Hcpp. subst cpp.
    destruct (type_name_ok_facts name Hn) as [F1 F2 F3 F4 _ _ _ _ _ _ _].
    cbn [app] in H.
    destruct (C_PW_cons _ _ _ H) as (tr0 & pan & -> & Han).
    cbn [app]. rewrite parse_type_word. cbv zeta. rewrite F1, F2, F3, F4.
    rewrite (with_annos_conc _ an pan rest); [reflexivity | exact Hwa | exact Han | intros _; exact Hnl].
Qed.

(* ---------------------------------------------------------------- constant values *)

Lemma parse_cv_S f ts :
  parse_cv (S f) ts =
  match ts with
  | (_, TDouble s) :: rest => Some (CDouble (double_value s), rest)
  | (_, TInt s) :: rest =>
    match int_value s with Some z => Some (CInt z, rest) | None => None end
  | (_, TLit q raw) :: rest => Some (CLiteral (unescape q raw), rest)
  | (_, TWord w) :: rest => Some (CIdent w None, rest)
  | (_, TPunct c) :: rest =>
    if Byte.eqb c p_lbrk then
      match parse_cv_list f rest with Some (l, rest') => Some (CList l, rest') | None => None end
    else if Byte.eqb c p_lwing then
      match parse_cv_map f rest with Some (l, rest') => Some (CMap l, rest') | None => None end
    else None
  | [] => None
  end.
Proof. reflexivity. Qed.

Lemma parse_cv_list_S f ts :
  parse_cv_list (S f) ts =
  match expect_punct p_rbrk ts with
  | Some rest => Some ([], rest)
  | None =>
    match parse_cv f ts with
    | Some (v, rest) =>
      match parse_cv_list f (skip_sep rest) with
      | Some (l, rest') => Some (v :: l, rest')
      | None => None
      end
    | None => None
    end
  end.
Proof. reflexivity. Qed.

Lemma parse_cv_map_S f ts :
  parse_cv_map (S f) ts =
  match expect_punct p_rwing ts with
  | Some rest => Some ([], rest)
  | None =>
    match parse_cv f ts with
    | Some (k, r1) =>
      match expect_punct p_colon r1 with
      | Some r2 =>
        match parse_cv f r2 with
        | Some (v, r3) =>
          match parse_cv_map f (skip_sep r3) with
          | Some (l, rest') => Some ((k, v) :: l, rest')
          | None => None
          end
        | None => None
        end
      | None => None
      end
    | None => None
    end
  end.
Proof. reflexivity. Qed.

(* a constant value starts with a token that is neither a closing bracket nor a separator *)
Definition value_start (t : token) : Prop :=
  match t with TPunct c => c = p_lbrk \/ c = p_lwing | _ => True end.

Lemma cv_first c pre : C (protos_cv c) pre -> exists tr t p', pre = (tr, t) :: p' /\ value_start t.
Proof.
  intro H. destruct c as [b|z|s|w e|l|l]; cbn [protos_cv] in H.
  - apply C_one in H. destruct (conc1_PD _ _ H) as (tr & t & -> & _). exists tr, (TDouble t), []. split; [reflexivity | exact I].
  - apply C_one in H. destruct (conc1_PI _ _ H) as (tr & t & -> & _). exists tr, (TInt t), []. split; [reflexivity | exact I].
  - apply C_one in H. destruct (conc1_PL _ _ H) as (tr & q & raw & -> & _). exists tr, (TLit q raw), []. split; [reflexivity | exact I].
  - apply C_one in H. destruct (conc1_PW _ _ H) as (tr & ->). exists tr, (TWord w), []. split; [reflexivity | exact I].
  - destruct (C_PP_cons _ _ _ H) as (tr & p2 & -> & _). exists tr, (TPunct p_lbrk), p2. split; [reflexivity | left; reflexivity].
  - destruct (C_PP_cons _ _ _ H) as (tr & p2 & -> & _). exists tr, (TPunct p_lwing), p2. split; [reflexivity | right; reflexivity].
Qed.

Lemma value_start_not_punct t c tr X :
  value_start t -> c <> p_lbrk -> c <> p_lwing -> expect_punct c ((tr, t) :: X) = None.
Proof.
  intros Hv H1 H2. destruct t; try reflexivity. cbn [expect_punct].
  destruct (Byte.eqb c0 c) eqn:E; [|reflexivity]. apply byte_eqb_eq in E. subst c0.
  destruct Hv; contradiction.
Qed.

Lemma value_start_no_sep t tr X : value_start t -> no_sep ((tr, t) :: X).
Proof.
  intros Hv c H. cbn in H. injection H as ->. destruct Hv as [->| ->]; reflexivity.
Qed.

Lemma no_sep_punct tr c X : is_sepc c = false -> no_sep ((tr, TPunct c) :: X).
Proof. intros Hc d H. cbn in H. injection H as <-. exact Hc. Qed.

Definition cv_ok (x : const_value) : Prop :=
  forall fuel pre rest, wf_cv x = true -> C (protos_cv x) pre -> List.length pre < fuel ->
  parse_cv fuel (pre ++ rest) = Some (x, rest).

Lemma C_length_pos_cv c pre : C (protos_cv c) pre -> 1 <= List.length pre.
Proof. intro H. destruct (cv_first c pre H) as (tr & t & p' & -> & _). cbn. lia. Qed.

Lemma C_PSep_length pre : C [PSep] pre -> List.length pre <= 1.
Proof.
  intro H. apply C_one in H. destruct (conc1_PSep _ H) as [->|(tr & c & -> & _)]; cbn; lia.
Qed.

Lemma parse_cv_list_conc : forall l fuel pre trc rest,
  Forall cv_ok l -> forallb wf_cv l = true ->
  C (flat_map (fun x => protos_cv x ++ [PSep]) l) pre -> S (List.length pre) < fuel ->
  parse_cv_list fuel (pre ++ (trc, TPunct p_rbrk) :: rest) = Some (l, rest).
Proof.
  induction l as [|x r IH]; intros fuel pre trc rest Hall Hwf H Hfuel.
  - apply C_nil_inv in H. subst pre. destruct fuel as [|f]; [lia|].
    rewrite parse_cv_list_S. cbn [app]. rewrite expect_punct_hit. reflexivity.
  - destruct fuel as [|f]; [lia|].
    inversion Hall as [|? ? Hx Hr]; subst.
    cbn [forallb] in Hwf. apply andb_true_iff in Hwf. destruct Hwf as [Hwx Hwr].
    cbn [flat_map] in H. norm_app_in H.
    destruct (C_app_inv _ _ _ H) as (px & p2 & -> & Hpx & H2).
    change (PSep :: flat_map (fun x0 => protos_cv x0 ++ [PSep]) r)
      with ([PSep] ++ flat_map (fun x0 => protos_cv x0 ++ [PSep]) r) in H2.
    destruct (C_app_inv _ _ _ H2) as (ps & pr & -> & Hps & Hpr).
    assert (Hl1 := C_length_pos_cv _ _ Hpx).
    rewrite !app_length in Hfuel.
    rewrite parse_cv_list_S.
    destruct (cv_first x px Hpx) as (tr & t & px' & Epx & Hvs).
    assert (Hexp : expect_punct p_rbrk ((px ++ ps ++ pr) ++ (trc, TPunct p_rbrk) :: rest) = None).
    { rewrite Epx. cbn [app]. apply value_start_not_punct; [exact Hvs | discriminate | discriminate]. }
    rewrite Hexp. norm_app.
    rewrite (Hx f px _ Hwx Hpx) by lia.
    assert (Hskip : skip_sep (ps ++ pr ++ (trc, TPunct p_rbrk) :: rest) = pr ++ (trc, TPunct p_rbrk) :: rest).
    { apply skip_sep_C; [exact Hps|].
      destruct r as [|y r'].
      - apply C_nil_inv in Hpr. subst pr. cbn [app]. apply no_sep_punct. reflexivity.
      - cbn [flat_map] in Hpr. norm_app_in Hpr.
        destruct (C_app_inv _ _ _ Hpr) as (py & p3 & -> & Hpy & _).
        destruct (cv_first y py Hpy) as (tr' & t' & py' & -> & Hvs'). cbn [app].
        apply value_start_no_sep. exact Hvs'. }
    rewrite Hskip. rewrite (IH f pr trc rest Hr Hwr Hpr) by lia. reflexivity.
Qed.

Lemma parse_cv_map_conc : forall l fuel pre trc rest,
  Forall (fun kv => cv_ok (fst kv) /\ cv_ok (snd kv)) l ->
  forallb (fun kv => wf_cv (fst kv) && wf_cv (snd kv)) l = true ->
  C (flat_map (fun kv => protos_cv (fst kv) ++ PP p_colon :: protos_cv (snd kv) ++ [PSep]) l) pre ->
  S (List.length pre) < fuel ->
  parse_cv_map fuel (pre ++ (trc, TPunct p_rwing) :: rest) = Some (l, rest).
Proof.
  induction l as [|[k v] r IH]; intros fuel pre trc rest Hall Hwf H Hfuel.
  - apply C_nil_inv in H. subst pre. destruct fuel as [|f]; [lia|].
    rewrite parse_cv_map_S. cbn [app]. rewrite expect_punct_hit. reflexivity.
  - destruct fuel as [|f]; [lia|].
    inversion Hall as [|? ? [Hk Hv] Hr]; subst. cbn [fst snd] in Hk, Hv.
    cbn [forallb fst snd] in Hwf. apply andb_true_iff in Hwf. destruct Hwf as [Hwkv Hwr].
    apply andb_true_iff in Hwkv. destruct Hwkv as [Hwk Hwv].
    cbn [flat_map fst snd] in H. norm_app_in H.
    destruct (C_app_inv _ _ _ H) as (pk & p2 & -> & Hpk & H2).
    destruct (C_PP_cons _ _ _ H2) as (trc2 & p3 & -> & H3).
    destruct (C_app_inv _ _ _ H3) as (pv & p4 & -> & Hpv & H4).
    change (PSep :: flat_map (fun kv => protos_cv (fst kv) ++ PP p_colon :: protos_cv (snd kv) ++ [PSep]) r)
      with ([PSep] ++ flat_map (fun kv => protos_cv (fst kv) ++ PP p_colon :: protos_cv (snd kv) ++ [PSep]) r) in H4.
    destruct (C_app_inv _ _ _ H4) as (ps & pr & -> & Hps & Hpr).
    assert (Hl1 := C_length_pos_cv _ _ Hpk). assert (Hl2 := C_length_pos_cv _ _ Hpv).
    rewrite !app_length in Hfuel. cbn [List.length] in Hfuel. rewrite !app_length in Hfuel.
    rewrite parse_cv_map_S.
    destruct (cv_first k pk Hpk) as (tr & t & pk' & Epk & Hvs).
    assert (Hexp : expect_punct p_rwing ((pk ++ (trc2, TPunct p_colon) :: pv ++ ps ++ pr) ++ (trc, TPunct p_rwing) :: rest) = None).
    { rewrite Epk. cbn [app]. apply value_start_not_punct; [exact Hvs | discriminate | discriminate]. }
    rewrite Hexp. norm_app.
    rewrite (Hk f pk _ Hwk Hpk) by lia. rewrite expect_punct_hit.
    rewrite (Hv f pv _ Hwv Hpv) by lia.
    assert (Hskip : skip_sep (ps ++ pr ++ (trc, TPunct p_rwing) :: rest) = pr ++ (trc, TPunct p_rwing) :: rest).
    { apply skip_sep_C; [exact Hps|].
      destruct r as [|[k2 v2] r'].
      - apply C_nil_inv in Hpr. subst pr. cbn [app]. apply no_sep_punct. reflexivity.
      - cbn [flat_map fst snd] in Hpr. norm_app_in Hpr.
        destruct (C_app_inv _ _ _ Hpr) as (py & p5 & -> & Hpy & _).
        destruct (cv_first k2 py Hpy) as (tr' & t' & py' & -> & Hvs'). cbn [app].
        apply value_start_no_sep. exact Hvs'. }
    rewrite Hskip. rewrite (IH f pr trc rest Hr Hwr Hpr) by lia. reflexivity.
Qed.

Lemma parse_cv_conc : forall c, cv_ok c.
Proof.
  induction c as [b|z|s|w e|l IH|l IH] using const_value_ind'; intros fuel pre rest Hwf H Hfuel;
    (destruct fuel as [|f]; [lia|]); cbn [protos_cv] in H.
  - apply C_one in H. destruct (conc1_PD _ _ H) as (tr & t & -> & Hv).
    cbn [app]. rewrite parse_cv_S. rewrite Hv. reflexivity.
  - apply C_one in H. destruct (conc1_PI _ _ H) as (tr & t & -> & Hv).
    cbn [app]. rewrite parse_cv_S. rewrite Hv. reflexivity.
  - apply C_one in H. destruct (conc1_PL _ _ H) as (tr & q & raw & -> & Hv).
    cbn [app]. rewrite parse_cv_S. rewrite Hv. reflexivity.
  - apply C_one in H. destruct (conc1_PW _ _ H) as (tr & ->).
    cbn [app]. rewrite parse_cv_S. cbn [wf_cv] in Hwf. apply andb_true_iff in Hwf. destruct Hwf as [_ He].
    destruct e; [discriminate | reflexivity].
  - destruct (C_PP_cons _ _ _ H) as (tr & p2 & -> & H2).
    destruct (C_app_inv _ _ _ H2) as (pl & pc & -> & Hpl & Hpc).
    apply C_one in Hpc. destruct (conc1_PP _ _ Hpc) as (trc & ->).
    cbn [app]. rewrite parse_cv_S. rewrite eqb_refl. norm_app.
    cbn [List.length] in Hfuel. rewrite app_length in Hfuel. cbn [List.length] in Hfuel.
    cbn [wf_cv] in Hwf.
    rewrite (parse_cv_list_conc l f pl trc rest IH Hwf Hpl) by lia. reflexivity.
  - destruct (C_PP_cons _ _ _ H) as (tr & p2 & -> & H2).
    destruct (C_app_inv _ _ _ H2) as (pl & pc & -> & Hpl & Hpc).
    apply C_one in Hpc. destruct (conc1_PP _ _ Hpc) as (trc & ->).
    cbn [app]. rewrite parse_cv_S.
    assert (E : Byte.eqb p_lwing p_lbrk = false) by reflexivity. rewrite E, eqb_refl. norm_app.
    cbn [List.length] in Hfuel. rewrite app_length in Hfuel. cbn [List.length] in Hfuel.
    cbn [wf_cv] in Hwf.
    rewrite (parse_cv_map_conc l f pl trc rest IH Hwf Hpl) by lia. reflexivity.
Qed.

(* ---------------------------------------------------------------- fields *)

(* what may follow a field, an enum value or a function: the next item or the closing token *)
Definition item_follow (rest : toks) : Prop :=
  match head_tok rest with
  | None => True
  | Some (TWord _) | Some (TInt _) => True
  | Some (TPunct c) => c = p_rwing \/ c = p_rpar
  | Some _ => False
  end.

(* neither a literal nor '=' comes next *)
Definition tail_ok (ts : toks) : Prop :=
  match head_tok ts with
  | Some (TLit _ _) => False
  | Some (TPunct c) => c <> p_eq
  | _ => True
  end.

Lemma head_tok_app a b : head_tok (a ++ b) = match a with [] => head_tok b | _ => head_tok a end.
Proof. destruct a as [|[tr t] a']; reflexivity. Qed.

Lemma item_follow_no_lpar rest : item_follow rest -> no_lpar rest.
Proof.
  unfold item_follow, no_lpar. destruct (head_tok rest) as [[| | | |c]|]; try discriminate.
  intros [->| ->]; discriminate.
Qed.
Lemma item_follow_no_sep rest : item_follow rest -> no_sep rest.
Proof.
  unfold item_follow, no_sep. intros H c E. rewrite E in H. destruct H as [->| ->]; reflexivity.
Qed.
Lemma item_follow_tail_ok rest : item_follow rest -> tail_ok rest.
Proof.
  unfold item_follow, tail_ok. destruct (head_tok rest) as [[| | | |c]|]; auto.
  intros [->| ->]; discriminate.
Qed.

Lemma sep_tail_ok ps rest : C [PSep] ps -> tail_ok rest -> tail_ok (ps ++ rest).
Proof.
  intros H Hr. apply C_one in H. destruct (conc1_PSep _ H) as [->|(tr & c & -> & Hc)]; [exact Hr|].
  unfold tail_ok. cbn. intros ->. discriminate.
Qed.
Lemma sep_no_lpar ps rest : C [PSep] ps -> no_lpar rest -> no_lpar (ps ++ rest).
Proof.
  intros H Hr. apply C_one in H. destruct (conc1_PSep _ H) as [->|(tr & c & -> & Hc)]; [exact Hr|].
  cbn [app]. apply no_lpar_punct. intros ->. discriminate.
Qed.

Lemma annos_head a pan : C (protos_annos a) pan -> pan = [] \/ exists tr p', pan = (tr, TPunct p_lpar) :: p'.
Proof.
  intro H. destruct a as [|x r].
  - cbn [protos_annos] in H. apply C_one in H.
    destruct (conc1_POptEmptyAnnos _ H) as [->|(tr1 & tr2 & ->)]; [left; reflexivity | right; eauto].
  - rewrite protos_annos_pairs in H by discriminate.
    destruct (C_PP_cons _ _ _ H) as (tr & p' & -> & _). right. eauto.
Qed.

Lemma annos_tail_ok a pan Y : C (protos_annos a) pan -> tail_ok Y -> tail_ok (pan ++ Y).
Proof.
  intros H HY. destruct (annos_head a pan H) as [->|(tr & p' & ->)]; [exact HY|].
  unfold tail_ok. cbn. discriminate.
Qed.

(* the first token of a type is a word that FieldReq does not touch *)
Lemma type_first t pre :
  wf_type t = true -> C (protos_type t) pre ->
  exists tr w p', pre = (tr, TWord w) :: p' /\ is_prefix kw_required w = false /\ is_prefix kw_optional w = false
                  /\ beqb w kw_oneway = false /\ beqb w kw_void = false
                  /\ kw_dot kw_oneway w = false /\ kw_dot kw_void w = false /\ beqb w kw_throws = false.
Proof.
  intros Hwf H. destruct t as [name k v cpp an cat r td].
  destruct (wf_type_inv _ _ _ _ _ _ _ _ Hwf) as (_ & _ & _ & _ & Hkv).
  cbn [protos_type] in H.
  destruct k as [kt|]; destruct v as [vt|]; try discriminate.
  - norm_app_in H. destruct (C_PW_cons _ _ _ H) as (tr & p' & -> & _).
    exists tr, kw_map, p'. repeat split; reflexivity.
  - destruct (beqb name kw_list); norm_app_in H; destruct (C_PW_cons _ _ _ H) as (tr & p' & -> & _).
    + exists tr, kw_list, p'. repeat split; reflexivity.
    + exists tr, kw_set, p'. repeat split; reflexivity.
  - apply andb_true_iff in Hkv. destruct Hkv as [Hn _].
    destruct (type_name_ok_facts name Hn) as [_ _ _ _ F5 F6 F7 F8 F9 F10 F11].
    norm_app_in H. destruct (C_PW_cons _ _ _ H) as (tr & p' & -> & _).
    exists tr, name, p'. repeat split; assumption.
Qed.

Lemma split_req_required tr X : split_req ((tr, TWord kw_required) :: X) = Some (ReqRequired, X).
Proof. reflexivity. Qed.
Lemma split_req_optional tr X : split_req ((tr, TWord kw_optional) :: X) = Some (ReqOptional, X).
Proof. reflexivity. Qed.
Lemma split_req_other tr w X :
  is_prefix kw_required w = false -> is_prefix kw_optional w = false ->
  split_req ((tr, TWord w) :: X) = Some (ReqDefault, (tr, TWord w) :: X).
Proof. intros H1 H2. unfold split_req. rewrite H1, H2. reflexivity. Qed.

(* what the parser makes of one field before numbering *)
Definition raw_of (throws : bool) (prev : option Z) (f f' : field) : Prop :=
  fd_name f' = fd_name f /\ fd_type f' = fd_type f /\ fd_default f' = fd_default f /\
  fd_annos f' = fd_annos f /\
  (fd_id f' = fd_id f \/ (fd_id f' = NOTSET /\ fd_id f = implicit_id prev)) /\
  (throws = false -> fd_req f' = fd_req f).

Lemma wf_field_inv throws f : wf_field throws f = true ->
  fd_id f <> NOTSET /\ word_ok (fd_name f) = true /\
  (throws = true -> fd_req f = ReqOptional) /\ wf_type (fd_type f) = true /\
  match fd_default f with Some c => wf_cv c | None => true end = true /\ wf_annos (fd_annos f) = true.
Proof.
  unfold wf_field. intro H.
  apply andb_true_iff in H. destruct H as [H H6].
  apply andb_true_iff in H. destruct H as [H H5].
  apply andb_true_iff in H. destruct H as [H H4].
  apply andb_true_iff in H. destruct H as [H H3].
  apply andb_true_iff in H. destruct H as [H H2].
  apply andb_true_iff in H. destruct H as [H0 H1].
  repeat split; try assumption.
  - apply negb_true_iff in H0. intro E. rewrite E in H0. discriminate.
  - intros ->. destruct (fd_req f); try discriminate. reflexivity.
Qed.

Lemma parse_field_conc throws prev f fuel first pre rest fin :
  wf_field throws f = true -> C (protos_field throws prev f) pre -> List.length pre < fuel ->
  item_follow rest ->
  exists f', parse_field fuel first (pre ++ rest) fin = Some (f', rest) /\ raw_of throws prev f f'.
Proof.
  intros Hwf H Hfuel Hfol.
  destruct (wf_field_inv _ _ Hwf) as (Hid & Hname & Hthr & Hwt & Hwd & Hwa).
  unfold protos_field in H.
  destruct (C_app_inv _ _ _ H) as (pid & q1 & -> & Hpid & K1).
  destruct (C_app_inv _ _ _ K1) as (preq & q2 & -> & Hpreq & K2).
  destruct (C_app_inv _ _ _ K2) as (pty & q3 & -> & Hpty & K3).
  cbn [app] in K3. destruct (C_PW_cons _ _ _ K3) as (trn & q4 & -> & K4).
  destruct (C_app_inv _ _ _ K4) as (pd & q5 & -> & Hpd & K5).
  destruct (C_app_inv _ _ _ K5) as (pan & ps & -> & Hpan & Hps).
  rewrite !app_length in Hfuel. cbn [List.length] in Hfuel. rewrite !app_length in Hfuel.
  (* the tail after the name, and after the default *)
  assert (Htail1 : tail_ok (pan ++ ps ++ rest)).
  { apply (annos_tail_ok _ _ _ Hpan). apply sep_tail_ok; [exact Hps|]. apply item_follow_tail_ok. exact Hfol. }
  assert (Hnl : pan = [] -> no_lpar (ps ++ rest)).
  { intros _. apply sep_no_lpar; [exact Hps|]. apply item_follow_no_lpar. exact Hfol. }
  destruct (type_first _ _ Hwt Hpty) as (trt & w0 & pty' & Epty & Hw1 & Hw2 & _).
  (* the id *)
  assert (Hidpart : exists id,
             (match (pid ++ preq ++ pty ++ (trn, TWord (fd_name f)) :: pd ++ pan ++ ps) ++ rest with
              | (_, TInt s) :: (_, TPunct c) :: rest0 =>
                if Byte.eqb c p_colon then (field_id_value s, rest0)
                else (NOTSET, (pid ++ preq ++ pty ++ (trn, TWord (fd_name f)) :: pd ++ pan ++ ps) ++ rest)
              | _ => (NOTSET, (pid ++ preq ++ pty ++ (trn, TWord (fd_name f)) :: pd ++ pan ++ ps) ++ rest)
              end) = (id, (preq ++ pty ++ (trn, TWord (fd_name f)) :: pd ++ pan ++ ps) ++ rest)
             /\ (id = fd_id f \/ (id = NOTSET /\ fd_id f = implicit_id prev))).
  { assert (Hhead : exists trh wh Y, (preq ++ pty ++ (trn, TWord (fd_name f)) :: pd ++ pan ++ ps) ++ rest = (trh, TWord wh) :: Y).
    { destruct preq as [|[trr tq] preq'].
      - rewrite Epty. cbn [app]. eauto.
      - assert (exists wq, tq = TWord wq) as (wq & ->).
        { unfold protos_req in Hpreq. destruct throws.
          - apply C_one in Hpreq. destruct (conc1_PThrowsReq _ Hpreq) as [E|[(tr & E)|(tr & E)]];
              try discriminate; injection E as _ -> _; eauto.
          - destruct (fd_req f).
            + apply C_nil_inv in Hpreq. discriminate.
            + apply C_one in Hpreq. destruct (conc1_PW _ _ Hpreq) as (tr & E). injection E as _ -> _. eauto.
            + apply C_one in Hpreq. destruct (conc1_PW _ _ Hpreq) as (tr & E). injection E as _ -> _. eauto. }
        cbn [app]. eauto. }
    destruct Hhead as (trh & wh & Y & EY).
    destruct (Z.eqb (fd_id f) (implicit_id prev)) eqn:Eimp.
    - apply C_one in Hpid. destruct (conc1_POptFid _ _ Hpid) as [->|(tr1 & tr2 & t & -> & Hv)].
      + exists NOTSET. cbn [app]. rewrite EY. split; [reflexivity|]. right. split; [reflexivity|].
        apply Z.eqb_eq. exact Eimp.
      + exists (fd_id f). cbn [app]. rewrite eqb_refl, Hv. split; [reflexivity | left; reflexivity].
    - apply C_one in Hpid. destruct (conc1_PFid _ _ Hpid) as (tr1 & tr2 & t & -> & Hv).
      exists (fd_id f). cbn [app]. rewrite eqb_refl, Hv. split; [reflexivity | left; reflexivity]. }
  destruct Hidpart as (id & Eid & Hidv).
  (* requiredness *)
  assert (Hreq : exists rq, split_req ((preq ++ pty ++ (trn, TWord (fd_name f)) :: pd ++ pan ++ ps) ++ rest)
                            = Some (rq, (pty ++ (trn, TWord (fd_name f)) :: pd ++ pan ++ ps) ++ rest)
                            /\ (throws = false -> rq = fd_req f)).
  { assert (Hnone : split_req ((pty ++ (trn, TWord (fd_name f)) :: pd ++ pan ++ ps) ++ rest)
                    = Some (ReqDefault, (pty ++ (trn, TWord (fd_name f)) :: pd ++ pan ++ ps) ++ rest)).
    { rewrite Epty. cbn [app]. apply split_req_other; assumption. }
    unfold protos_req in Hpreq. destruct throws.
    - apply C_one in Hpreq. destruct (conc1_PThrowsReq _ Hpreq) as [->|[(tr & ->)|(tr & ->)]]; cbn [app].
      + exists ReqDefault. split; [exact Hnone | discriminate].
      + exists ReqOptional. split; [apply split_req_optional | discriminate].
      + exists ReqRequired. split; [apply split_req_required | discriminate].
    - destruct (fd_req f).
      + apply C_nil_inv in Hpreq. subst preq. cbn [app]. exists ReqDefault. split; [exact Hnone | reflexivity].
      + apply C_one in Hpreq. destruct (conc1_PW _ _ Hpreq) as (tr & ->). cbn [app].
        exists ReqRequired. split; [apply split_req_required | reflexivity].
      + apply C_one in Hpreq. destruct (conc1_PW _ _ Hpreq) as (tr & ->). cbn [app].
        exists ReqOptional. split; [apply split_req_optional | reflexivity]. }
  destruct Hreq as (rq & Ereq & Hrq).
  (* the type *)
  assert (Hty : parse_type fuel ((pty ++ (trn, TWord (fd_name f)) :: pd ++ pan ++ ps) ++ rest)
                = Some (fd_type f, (trn, TWord (fd_name f)) :: (pd ++ pan ++ ps) ++ rest)).
  { norm_app. apply parse_type_conc; [exact Hwt | exact Hpty | lia | apply no_lpar_word|].
    cbn [no_cpp].
    assert (Hnot : forall q raw, head_tok (pd ++ pan ++ ps ++ rest) <> Some (TLit q raw)).
    { intros q raw. destruct (fd_default f) as [c|].
      - destruct (C_PP_cons _ _ _ Hpd) as (tr & p' & -> & _). cbn. discriminate.
      - apply C_nil_inv in Hpd. subst pd. cbn [app]. unfold tail_ok in Htail1.
        destruct (head_tok (pan ++ ps ++ rest)) as [[| | | |]|]; try discriminate. contradiction. }
    destruct (pd ++ pan ++ ps ++ rest) as [|[tr2 t2] Y]; [exact I|].
    destruct t2; try exact I. exfalso. apply (Hnot q raw). reflexivity. }
  (* the default value *)
  assert (Hdf : (match (pd ++ pan ++ ps) ++ rest with
                 | (_, TPunct c) :: rest0 =>
                   if Byte.eqb c p_eq then
                     match parse_cv fuel rest0 with
                     | Some (v, rest') => Some (Some v, rest')
                     | None => None
                     end
                   else Some (None, (pd ++ pan ++ ps) ++ rest)
                 | _ => Some (None, (pd ++ pan ++ ps) ++ rest)
                 end) = Some (fd_default f, (pan ++ ps) ++ rest)).
  { destruct (fd_default f) as [c|].
    - destruct (C_PP_cons _ _ _ Hpd) as (tr & pcv & -> & Hcv).
      cbn [app]. rewrite eqb_refl. norm_app.
      rewrite (parse_cv_conc c fuel pcv _ Hwd Hcv); [reflexivity|]. cbn [List.length] in Hfuel. lia.
    - apply C_nil_inv in Hpd. subst pd. cbn [app].
      unfold tail_ok in Htail1. norm_app.
      destruct (pan ++ ps ++ rest) as [|[tr2 t2] Y]; [reflexivity|].
      cbn in Htail1. destruct t2; try reflexivity.
      rewrite (eqb_neq c p_eq Htail1). reflexivity. }
  (* annotations, separator *)
  assert (Han : parse_annos_opt ((pan ++ ps) ++ rest) = Some (fd_annos f, ps ++ rest)).
  { norm_app. apply parse_annos_conc; assumption. }
  assert (Hsep : skip_sep (ps ++ rest) = rest).
  { apply skip_sep_C; [exact Hps | apply item_follow_no_sep; exact Hfol]. }
  eexists. split.
  - unfold parse_field. rewrite Eid. rewrite Ereq. rewrite Hty. rewrite Hdf. rewrite Han. rewrite Hsep.
    reflexivity.
  - unfold raw_of. cbn [fd_name fd_type fd_default fd_annos fd_id fd_req]. repeat split; try reflexivity; assumption.
Qed.

Definition strip_fc (f : field) : field :=
  Field (fd_id f) (fd_name f) (fd_req f) (fd_type f) (fd_default f) (fd_annos f) [].
Definition norm_req (throws : bool) (f : field) : field := if throws then set_req f ReqOptional else f.

(* a field starts with an integer (its id) or a word *)
Lemma field_first throws prev f pf :
  wf_field throws f = true -> C (protos_field throws prev f) pf ->
  exists tr t p', pf = (tr, t) :: p' /\ ((exists s, t = TInt s) \/ (exists w, t = TWord w)).
Proof.
  intros Hwf H. destruct (wf_field_inv _ _ Hwf) as (_ & _ & _ & Hwt & _ & _).
  unfold protos_field in H.
  destruct (C_app_inv _ _ _ H) as (pid & q1 & -> & Hpid & K1).
  destruct (C_app_inv _ _ _ K1) as (preq & q2 & -> & Hpreq & K2).
  destruct (C_app_inv _ _ _ K2) as (pty & q3 & -> & Hpty & K3).
  destruct (type_first _ _ Hwt Hpty) as (trt & w0 & pty' & -> & _).
  assert (Hreqw : preq = [] \/ exists tr w, preq = [(tr, TWord w)]).
  { unfold protos_req in Hpreq. destruct throws.
    - apply C_one in Hpreq. destruct (conc1_PThrowsReq _ Hpreq) as [->|[(tr & ->)|(tr & ->)]]; eauto.
    - destruct (fd_req f).
      + apply C_nil_inv in Hpreq. auto.
      + apply C_one in Hpreq. destruct (conc1_PW _ _ Hpreq) as (tr & ->). eauto.
      + apply C_one in Hpreq. destruct (conc1_PW _ _ Hpreq) as (tr & ->). eauto. }
  assert (Hidw : pid = [] \/ exists tr1 tr2 t, pid = [(tr1, TInt t); (tr2, TPunct p_colon)]).
  { destruct (Z.eqb (fd_id f) (implicit_id prev)); apply C_one in Hpid.
    - destruct (conc1_POptFid _ _ Hpid) as [->|(tr1 & tr2 & t & -> & _)]; eauto.
    - destruct (conc1_PFid _ _ Hpid) as (tr1 & tr2 & t & -> & _). eauto. }
  destruct Hidw as [->|(tr1 & tr2 & t & ->)].
  - destruct Hreqw as [->|(tr & w & ->)]; cbn [app]; eexists _, _, _; split; try reflexivity; right; eauto.
  - cbn [app]. eexists _, _, _. split; [reflexivity|]. left. eauto.
Qed.

Lemma parse_fields_S f first closer ts fin :
  parse_fields (S f) first closer ts fin =
  match expect_punct closer ts with
  | Some rest => Some ([], rest)
  | None =>
    match parse_field f first ts fin with
    | Some (fd, rest) =>
      match parse_fields f false closer rest fin with
      | Some (l, rest') => Some (fd :: l, rest')
      | None => None
      end
    | None => None
    end
  end.
Proof. reflexivity. Qed.

Lemma item_start_follow tr t X : (exists s, t = TInt s) \/ (exists w, t = TWord w) -> item_follow ((tr, t) :: X).
Proof. intros [(s & ->)|(w & ->)]; exact I. Qed.

Lemma item_start_not_closer tr t X c :
  (exists s, t = TInt s) \/ (exists w, t = TWord w) -> expect_punct c ((tr, t) :: X) = None.
Proof. intros [(s & ->)|(w & ->)]; reflexivity. Qed.

Lemma closer_follow trc closer X : closer = p_rwing \/ closer = p_rpar -> item_follow ((trc, TPunct closer) :: X).
Proof. intro H. exact H. Qed.

Lemma field_length_pos throws prev f pf :
  wf_field throws f = true -> C (protos_field throws prev f) pf -> 1 <= List.length pf.
Proof. intros Hwf H. destruct (field_first _ _ _ _ Hwf H) as (tr & t & p' & -> & _). cbn. lia. Qed.

Lemma raw_of_assign throws prev f f' :
  wf_field throws f = true -> raw_of throws prev f f' ->
  let id := if Z.eqb (fd_id (norm_req throws f')) NOTSET
            then match prev with Some p => wrap32 (p + 1) | None => 1%Z end
            else fd_id (norm_req throws f') in
  id = fd_id f /\ strip_fc (set_id (norm_req throws f') id) = strip_fc f.
Proof.
  intros Hwf (Hn & Ht & Hd & Ha & Hid & Hr).
  destruct (wf_field_inv _ _ Hwf) as (Hne & _ & Hthr & _ & _ & _).
  assert (Eid : fd_id (norm_req throws f') = fd_id f').
  { unfold norm_req. destruct throws; reflexivity. }
  cbv zeta. rewrite Eid.
  assert (Hidv : (if Z.eqb (fd_id f') NOTSET
                  then match prev with Some p => wrap32 (p + 1) | None => 1%Z end
                  else fd_id f') = fd_id f).
  { destruct Hid as [E|[E1 E2]].
    - rewrite E. destruct (Z.eqb (fd_id f) NOTSET) eqn:Eq; [apply Z.eqb_eq in Eq; contradiction | reflexivity].
    - rewrite E1. rewrite Z.eqb_refl. rewrite E2. reflexivity. }
  rewrite Hidv. split; [reflexivity|].
  unfold strip_fc, set_id, norm_req. destruct throws; cbn [set_req fd_id fd_name fd_req fd_type fd_default fd_annos].
  - rewrite Hn, Ht, Hd, Ha. rewrite (Hthr eq_refl). destruct f; reflexivity.
  - rewrite Hn, Ht, Hd, Ha, (Hr eq_refl). destruct f; reflexivity.
Qed.

Lemma parse_fields_conc : forall fs throws prev fuel first closer pre trc rest fin,
  forallb (wf_field throws) fs = true -> C (protos_fields throws prev fs) pre ->
  S (List.length pre) < fuel -> (closer = p_rwing \/ closer = p_rpar) ->
  exists raws, parse_fields fuel first closer (pre ++ (trc, TPunct closer) :: rest) fin = Some (raws, rest) /\
               map strip_fc (assign_ids prev (map (norm_req throws) raws)) = map strip_fc fs.
Proof.
  induction fs as [|f r IH]; intros throws prev fuel first closer pre trc rest fin Hwf H Hfuel Hcl.
  - apply C_nil_inv in H. subst pre. destruct fuel as [|fu]; [lia|].
    exists []. rewrite parse_fields_S. cbn [app]. rewrite expect_punct_hit. split; reflexivity.
  - destruct fuel as [|fu]; [lia|].
    cbn [forallb] in Hwf. apply andb_true_iff in Hwf. destruct Hwf as [Hwf Hwr].
    cbn [protos_fields] in H.
    destruct (C_app_inv _ _ _ H) as (pf & pr & -> & Hpf & Hpr).
    assert (Hl := field_length_pos _ _ _ _ Hwf Hpf).
    rewrite app_length in Hfuel.
    destruct (field_first _ _ _ _ Hwf Hpf) as (tr & t & pf' & Epf & Hstart).
    assert (Hfol : item_follow (pr ++ (trc, TPunct closer) :: rest)).
    { destruct r as [|g r'].
      - apply C_nil_inv in Hpr. subst pr. cbn [app]. apply closer_follow. exact Hcl.
      - cbn [protos_fields] in Hpr. cbn [forallb] in Hwr. apply andb_true_iff in Hwr. destruct Hwr as [Hwg _].
        destruct (C_app_inv _ _ _ Hpr) as (pg & pr' & -> & Hpg & _).
        destruct (field_first _ _ _ _ Hwg Hpg) as (tr' & t' & pg' & -> & Hstart').
        cbn [app]. apply item_start_follow. exact Hstart'. }
    destruct (parse_field_conc throws prev f fu first pf (pr ++ (trc, TPunct closer) :: rest) fin Hwf Hpf)
      as (f' & Ef' & Hraw); [lia | exact Hfol |].
    destruct (IH throws (Some (fd_id f)) fu false closer pr trc rest fin Hwr Hpr) as (raws & Er & Hmap); [lia | exact Hcl |].
    exists (f' :: raws). rewrite parse_fields_S. norm_app.
    assert (Hexp : expect_punct closer (pf ++ pr ++ (trc, TPunct closer) :: rest) = None).
    { rewrite Epf. cbn [app]. apply item_start_not_closer. exact Hstart. }
    rewrite Hexp, Ef', Er. split; [reflexivity|].
    cbn [map assign_ids].
    destruct (raw_of_assign throws prev f f' Hwf Hraw) as [Hid Hstrip]. cbv zeta in Hid, Hstrip.
    rewrite Hid. rewrite Hid in Hstrip. cbn [map]. rewrite Hstrip. f_equal. exact Hmap.
Qed.

(* ---------------------------------------------------------------- enum values *)

Definition strip_ev (v : enum_value) : enum_value := EnumValue (ev_name v) (ev_value v) (ev_annos v) [].

Definition ev_raw_of (prev : option Z) (v : enum_value) (r : enum_value * option Z) : Prop :=
  ev_name (fst r) = ev_name v /\ ev_annos (fst r) = ev_annos v /\
  (snd r = Some (ev_value v) \/ (snd r = None /\ ev_value v = implicit_enum_value prev)).

Lemma int_value_enum t z : int_value t = Some z -> enum_int_value t = z.
Proof.
  unfold int_value, enum_int_value. destruct (go_parse_int Base0 64 t) as [v ok]. cbn [fst].
  destruct ok; [intros [= ->]; reflexivity | discriminate].
Qed.

Lemma wf_enum_value_inv v : wf_enum_value v = true -> word_ok (ev_name v) = true /\ wf_annos (ev_annos v) = true.
Proof.
  unfold wf_enum_value. intro H. apply andb_true_iff in H. destruct H as [H H2].
  apply andb_true_iff in H. destruct H as [H0 H1]. split; assumption.
Qed.

Lemma parse_enum_value_conc prev v first pre rest fin :
  wf_enum_value v = true -> C (protos_enum_value prev v) pre -> item_follow rest ->
  exists r, parse_enum_value first (pre ++ rest) fin = Some (r, rest) /\ ev_raw_of prev v r.
Proof.
  intros Hwf H Hfol. destruct (wf_enum_value_inv v Hwf) as (Hname & Hwa).
  unfold protos_enum_value in H. cbn [app] in H.
  destruct (C_PW_cons _ _ _ H) as (trn & q1 & -> & K1).
  destruct (C_app_inv _ _ _ K1) as (pv & q2 & -> & Hpv & K2).
  destruct (C_app_inv _ _ _ K2) as (pan & ps & -> & Hpan & Hps).
  assert (Htail : tail_ok (pan ++ ps ++ rest)).
  { apply (annos_tail_ok _ _ _ Hpan). apply sep_tail_ok; [exact Hps|]. apply item_follow_tail_ok. exact Hfol. }
  assert (Hnl : pan = [] -> no_lpar (ps ++ rest)).
  { intros _. apply sep_no_lpar; [exact Hps|]. apply item_follow_no_lpar. exact Hfol. }
  assert (Hval : exists ov,
             (match (pv ++ pan ++ ps) ++ rest with
              | (_, TPunct c) :: (_, TInt s) :: rest0 =>
                if Byte.eqb c p_eq then (Some (enum_int_value s), rest0) else (None, (pv ++ pan ++ ps) ++ rest)
              | _ => (None, (pv ++ pan ++ ps) ++ rest)
              end) = (ov, (pan ++ ps) ++ rest)
             /\ (ov = Some (ev_value v) \/ (ov = None /\ ev_value v = implicit_enum_value prev))).
  { assert (Hnone : (match (pan ++ ps) ++ rest with
                     | (_, TPunct c) :: (_, TInt s) :: rest0 =>
                       if Byte.eqb c p_eq then (Some (enum_int_value s), rest0) else (None, (pan ++ ps) ++ rest)
                     | _ => (None, (pan ++ ps) ++ rest)
                     end) = (@None Z, (pan ++ ps) ++ rest)).
    { norm_app. unfold tail_ok in Htail. destruct (pan ++ ps ++ rest) as [|[tr2 t2] Y]; [reflexivity|].
      cbn in Htail. destruct t2; try reflexivity. destruct Y as [|[tr3 t3] Y']; [reflexivity|].
      destruct t3; try reflexivity. rewrite (eqb_neq c p_eq Htail). reflexivity. }
    destruct (Z.eqb (ev_value v) (implicit_enum_value prev)) eqn:Eimp.
    - apply C_one in Hpv. destruct (conc1_POptEnumVal _ _ Hpv) as [->|(tr1 & tr2 & t & -> & Hv)].
      + exists None. cbn [app]. split; [exact Hnone|]. right. split; [reflexivity | apply Z.eqb_eq; exact Eimp].
      + exists (Some (ev_value v)). cbn [app]. rewrite eqb_refl, (int_value_enum _ _ Hv). split; [reflexivity | left; reflexivity].
    - destruct (C_PP_cons _ _ _ Hpv) as (tr1 & q3 & -> & K3). apply C_one in K3.
      destruct (conc1_PI _ _ K3) as (tr2 & t & -> & Hv).
      exists (Some (ev_value v)). cbn [app]. rewrite eqb_refl, (int_value_enum _ _ Hv). split; [reflexivity | left; reflexivity]. }
  destruct Hval as (ov & Eval & Hov).
  assert (Han : parse_annos_opt ((pan ++ ps) ++ rest) = Some (ev_annos v, ps ++ rest)).
  { norm_app. apply parse_annos_conc; assumption. }
  assert (Hsep : skip_sep (ps ++ rest) = rest).
  { apply skip_sep_C; [exact Hps | apply item_follow_no_sep; exact Hfol]. }
  eexists. split.
  - unfold parse_enum_value. cbn [app]. rewrite Eval, Han, Hsep. reflexivity.
  - unfold ev_raw_of. cbn [fst snd ev_name ev_annos]. repeat split; try reflexivity. exact Hov.
Qed.

Lemma parse_enum_values_S f first ts fin :
  parse_enum_values (S f) first ts fin =
  match expect_punct p_rwing ts with
  | Some rest => Some ([], rest)
  | None =>
    match parse_enum_value first ts fin with
    | Some (v, rest) =>
      match parse_enum_values f false rest fin with
      | Some (l, rest') => Some (v :: l, rest')
      | None => None
      end
    | None => None
    end
  end.
Proof. reflexivity. Qed.

Lemma enum_value_first prev v pre :
  C (protos_enum_value prev v) pre -> exists tr p', pre = (tr, TWord (ev_name v)) :: p'.
Proof. unfold protos_enum_value. cbn [app]. intro H. destruct (C_PW_cons _ _ _ H) as (tr & p' & -> & _). eauto. Qed.

Lemma parse_enum_values_conc : forall vs prev fuel first pre trc rest fin,
  forallb wf_enum_value vs = true -> C (protos_enum_values prev vs) pre -> List.length pre < fuel ->
  exists raws, parse_enum_values fuel first (pre ++ (trc, TPunct p_rwing) :: rest) fin = Some (raws, rest) /\
               map strip_ev (assign_enum_values prev raws) = map strip_ev vs.
Proof.
  induction vs as [|v r IH]; intros prev fuel first pre trc rest fin Hwf H Hfuel.
  - apply C_nil_inv in H. subst pre. destruct fuel as [|fu]; [lia|].
    exists []. rewrite parse_enum_values_S. cbn [app]. rewrite expect_punct_hit. split; reflexivity.
  - destruct fuel as [|fu]; [lia|].
    cbn [forallb] in Hwf. apply andb_true_iff in Hwf. destruct Hwf as [Hwv Hwr].
    cbn [protos_enum_values] in H.
    destruct (C_app_inv _ _ _ H) as (pv & pr & -> & Hpv & Hpr).
    destruct (enum_value_first _ _ _ Hpv) as (tr & pv' & Epv).
    rewrite app_length in Hfuel.
    assert (Hl : 1 <= List.length pv) by (rewrite Epv; cbn; lia).
    assert (Hfol : item_follow (pr ++ (trc, TPunct p_rwing) :: rest)).
    { destruct r as [|g r'].
      - apply C_nil_inv in Hpr. subst pr. cbn [app]. left. reflexivity.
      - cbn [protos_enum_values] in Hpr.
        destruct (C_app_inv _ _ _ Hpr) as (pg & pr' & -> & Hpg & _).
        destruct (enum_value_first _ _ _ Hpg) as (tr' & pg' & ->). exact I. }
    destruct (parse_enum_value_conc prev v first pv (pr ++ (trc, TPunct p_rwing) :: rest) fin Hwv Hpv Hfol)
      as ([w ov] & Ew & Hn & Ha & Hov). cbn [fst snd] in Hn, Ha, Hov.
    destruct (IH (Some (ev_value v)) fu false pr trc rest fin Hwr Hpr) as (raws & Er & Hmap); [lia|].
    exists ((w, ov) :: raws). rewrite parse_enum_values_S. norm_app.
    assert (Hexp : expect_punct p_rwing (pv ++ pr ++ (trc, TPunct p_rwing) :: rest) = None)
      by (rewrite Epv; reflexivity).
    rewrite Hexp, Ew, Er. split; [reflexivity|].
    cbn [map assign_enum_values].
    assert (Hx : match ov with
                 | Some x => x
                 | None => match prev with Some p => wrap64 (p + 1) | None => 0%Z end
                 end = ev_value v).
    { destruct Hov as [->|[-> E]]; [reflexivity | exact (eq_sym E)]. }
    rewrite Hx. f_equal; [|exact Hmap].
    unfold strip_ev. cbn [ev_name ev_value ev_annos]. rewrite Hn, Ha. reflexivity.
Qed.

(* ---------------------------------------------------------------- functions *)

(* what may follow a function: the closing brace or the next function, whose first word is
   not the throws keyword *)
Definition fn_follow (rest : toks) : Prop :=
  match head_tok rest with
  | Some (TPunct c) => c = p_rwing
  | Some (TWord w) => beqb w kw_throws = false
  | _ => False
  end.

Lemma fn_follow_item rest : fn_follow rest -> item_follow rest.
Proof.
  unfold fn_follow, item_follow. destruct (head_tok rest) as [[| | | |c]|]; auto.
Qed.

Definition strip_fn (f : function) : function :=
  Function (fn_name f) (fn_oneway f) (fn_void f) (fn_type f) (map strip_fc (fn_args f))
           (map strip_fc (fn_throws f)) (fn_annos f) [].

Lemma wf_function_inv f : wf_function f = true ->
  word_ok (fn_name f) = true /\
  (if fn_void f then fn_type f = ty_named kw_void else wf_type (fn_type f) = true) /\
  forallb (wf_field false) (fn_args f) = true /\ forallb (wf_field true) (fn_throws f) = true /\
  wf_annos (fn_annos f) = true.
Proof.
  unfold wf_function. intro H.
  apply andb_true_iff in H. destruct H as [H H4].
  apply andb_true_iff in H. destruct H as [H H3].
  apply andb_true_iff in H. destruct H as [H H2].
  apply andb_true_iff in H. destruct H as [H0 H1].
  repeat split; try assumption.
  destruct (fn_void f); [apply ty_eqb_eq; exact H1 | exact H1].
Qed.

Lemma map_norm_req_false l : map (norm_req false) l = l.
Proof. induction l as [|x l IH]; [reflexivity|]. cbn [map]. rewrite IH. reflexivity. Qed.

(* the first word of a function *)
Lemma function_first f pre :
  wf_function f = true -> C (protos_function f) pre ->
  exists tr w p', pre = (tr, TWord w) :: p' /\ beqb w kw_throws = false.
Proof.
  intros Hwf H. destruct (wf_function_inv f Hwf) as (_ & Hty & _).
  unfold protos_function in H.
  destruct (fn_oneway f).
  - cbn [app] in H. destruct (C_PW_cons _ _ _ H) as (tr & p' & -> & _). exists tr, kw_oneway, p'. split; reflexivity.
  - cbn [app] in H. destruct (fn_void f).
    + cbn [app] in H. destruct (C_PW_cons _ _ _ H) as (tr & p' & -> & _). exists tr, kw_void, p'. split; reflexivity.
    + destruct (C_app_inv _ _ _ H) as (pty & q & -> & Hpty & _).
      destruct (type_first _ _ Hty Hpty) as (tr & w & p' & -> & _ & _ & _ & _ & _ & _ & Ht).
      exists tr, w, (p' ++ q). split; [reflexivity | exact Ht].
Qed.

Lemma parse_function_conc f fuel first pre rest fin :
  wf_function f = true -> C (protos_function f) pre -> S (List.length pre) < fuel -> fn_follow rest ->
  exists f', parse_function fuel first (pre ++ rest) fin = Some (f', rest) /\ strip_fn f' = strip_fn f.
Proof.
  intros Hwf H Hfuel Hfol.
  destruct (wf_function_inv f Hwf) as (Hname & Hty & Hwargs & Hwthr & Hwa).
  assert (Hifol := fn_follow_item rest Hfol).
  unfold protos_function in H.
  destruct (C_app_inv _ _ _ H) as (pow & q1 & -> & Hpow & K1).
  destruct (C_app_inv _ _ _ K1) as (pty & q2 & -> & Hpty & K2).
  cbn [app] in K2.
  destruct (C_PW_cons _ _ _ K2) as (trn & q3 & -> & K3).
  destruct (C_PP_cons _ _ _ K3) as (trl & q4 & -> & K4).
  destruct (C_app_inv _ _ _ K4) as (pargs & q5 & -> & Hpargs & K5).
  destruct (C_PP_cons _ _ _ K5) as (trr & q6 & -> & K6).
  destruct (C_app_inv _ _ _ K6) as (pthr & q7 & -> & Hpthr & K7).
  destruct (C_app_inv _ _ _ K7) as (pan & ps & -> & Hpan & Hps).
  rewrite !app_length in Hfuel. cbn [List.length] in Hfuel. rewrite !app_length in Hfuel.
  cbn [List.length] in Hfuel. rewrite !app_length in Hfuel.
  (* the type part starts with a word that is neither oneway nor its dotted form *)
  assert (Htyhead : exists trt wt pty', pty = (trt, TWord wt) :: pty' /\ beqb wt kw_oneway = false /\ kw_dot kw_oneway wt = false
                                       /\ (if fn_void f then wt = kw_void /\ pty' = []
                                           else beqb wt kw_void = false /\ kw_dot kw_void wt = false)).
  { destruct (fn_void f).
    - apply C_one in Hpty. destruct (conc1_PW _ _ Hpty) as (tr & ->). exists tr, kw_void, []. repeat split; reflexivity.
    - destruct (type_first _ _ Hty Hpty) as (tr & w & p' & -> & _ & _ & F1 & F2 & F3 & F4 & _).
      exists tr, w, p'. repeat split; assumption. }
  destruct Htyhead as (trt & wt & pty' & Epty & Hw1 & Hw2 & Hvoidw).
  set (TAIL := (trn, TWord (fn_name f)) :: (trl, TPunct p_lpar) :: pargs ++ (trr, TPunct p_rpar) :: pthr ++ pan ++ ps).
  (* oneway *)
  assert (How : (match (pow ++ pty ++ TAIL) ++ rest with
                 | (_, TWord w) :: rest0 =>
                   if beqb w kw_oneway then Some (true, rest0)
                   else if kw_dot kw_oneway w then None
                   else Some (false, (pow ++ pty ++ TAIL) ++ rest)
                 | _ => Some (false, (pow ++ pty ++ TAIL) ++ rest)
                 end) = Some (fn_oneway f, (pty ++ TAIL) ++ rest)).
  { destruct (fn_oneway f).
    - apply C_one in Hpow. destruct (conc1_PW _ _ Hpow) as (tr & ->). cbn [app]. reflexivity.
    - apply C_nil_inv in Hpow. subst pow. cbn [app]. rewrite Epty. cbn [app]. rewrite Hw1, Hw2. reflexivity. }
  (* the function type *)
  assert (Hft : (match (pty ++ TAIL) ++ rest with
                 | (_, TWord w) :: rest0 =>
                   if beqb w kw_void then Some (true, ty_named kw_void, rest0)
                   else if kw_dot kw_void w then None
                   else match parse_type fuel ((pty ++ TAIL) ++ rest) with
                        | Some (t, rest') => Some (false, t, rest')
                        | None => None
                        end
                 | _ => None
                 end) = Some (fn_void f, fn_type f, TAIL ++ rest)).
  { destruct (fn_void f).
    - destruct Hvoidw as [-> ->]. rewrite Epty. cbn [app]. rewrite Hty. reflexivity.
    - destruct Hvoidw as [Hv1 Hv2].
      assert (Hp : parse_type fuel ((pty ++ TAIL) ++ rest) = Some (fn_type f, TAIL ++ rest)).
      { norm_app. apply parse_type_conc; [exact Hty | exact Hpty | lia | | ]; unfold TAIL; cbn [app].
        - apply no_lpar_word.
        - exact I. }
      rewrite Hp. rewrite Epty. cbn [app]. rewrite Hv1, Hv2. reflexivity. }
  (* arguments *)
  destruct (parse_fields_conc (fn_args f) false None fuel true p_rpar pargs trr ((pthr ++ pan ++ ps) ++ rest) fin Hwargs Hpargs)
    as (araws & Eargs & Hargs); [lia | right; reflexivity |].
  rewrite map_norm_req_false in Hargs.
  (* throws *)
  assert (Hnl : pan = [] -> no_lpar (ps ++ rest)).
  { intros _. apply sep_no_lpar; [exact Hps|]. apply item_follow_no_lpar. exact Hifol. }
  assert (Hthr : exists traws,
             (match (pthr ++ pan ++ ps) ++ rest with
              | (_, TWord w) :: (_, TPunct c) :: rest0 =>
                if beqb w kw_throws && Byte.eqb c p_lpar then
                  match parse_fields fuel true p_rpar rest0 fin with
                  | Some (l, rest') => Some (map (fun f => set_req f ReqOptional) l, rest')
                  | None => None
                  end
                else Some ([], (pthr ++ pan ++ ps) ++ rest)
              | _ => Some ([], (pthr ++ pan ++ ps) ++ rest)
              end) = Some (traws, (pan ++ ps) ++ rest)
             /\ map strip_fc (assign_ids None traws) = map strip_fc (fn_throws f)).
  { destruct (fn_throws f) as [|t0 tr0] eqn:Ethr.
    - apply C_nil_inv in Hpthr. subst pthr. exists []. cbn [app]. split; [|reflexivity].
      (* the next token is not the throws keyword *)
      destruct (annos_head _ _ Hpan) as [->|(tr & p' & ->)]; cbn [app]; [|reflexivity].
      apply C_one in Hps. destruct (conc1_PSep _ Hps) as [->|(tr & c & -> & Hc)]; cbn [app]; [|reflexivity].
      unfold fn_follow in Hfol. destruct rest as [|[tr2 t2] Y]; [reflexivity|].
      cbn [head_tok] in Hfol. destruct t2; try reflexivity.
      destruct Y as [|[tr3 t3] Y']; [reflexivity|]. destruct t3; try reflexivity.
      rewrite Hfol. reflexivity.
    - norm_app_in Hpthr.
      destruct (C_PW_cons _ _ _ Hpthr) as (trk & q8 & -> & K8).
      destruct (C_PP_cons _ _ _ K8) as (trl2 & q9 & -> & K9).
      destruct (C_app_inv _ _ _ K9) as (pfs & q10 & -> & Hpfs & K10).
      apply C_one in K10. destruct (conc1_PP _ _ K10) as (trr2 & ->).
      cbn [List.length] in Hfuel. rewrite !app_length in Hfuel. cbn [List.length] in Hfuel.
      destruct (parse_fields_conc (t0 :: tr0) true None fuel true p_rpar pfs trr2 ((pan ++ ps) ++ rest) fin Hwthr Hpfs)
        as (traws & Ethrows & Hthrows); [lia | right; reflexivity |].
      exists (map (fun f => set_req f ReqOptional) traws). cbn [app]. rewrite beqb_refl, eqb_refl. cbn [andb].
      norm_app. norm_app_in Ethrows. rewrite Ethrows. split; [reflexivity | exact Hthrows]. }
  destruct Hthr as (traws & Ethr & Hthrm).
  assert (Han : parse_annos_opt ((pan ++ ps) ++ rest) = Some (fn_annos f, ps ++ rest)).
  { norm_app. apply parse_annos_conc; assumption. }
  assert (Hsep : skip_sep (ps ++ rest) = rest).
  { apply skip_sep_C; [exact Hps | apply item_follow_no_sep; exact Hifol]. }
  eexists. split.
  - unfold parse_function. fold TAIL. rewrite How. rewrite Hft. unfold TAIL at 1. cbn [app].
    rewrite expect_punct_hit. norm_app. norm_app_in Eargs. rewrite Eargs.
    norm_app_in Ethr. rewrite Ethr. norm_app_in Han. rewrite Han. rewrite Hsep. reflexivity.
  - unfold strip_fn. cbn [fn_name fn_oneway fn_void fn_type fn_args fn_throws fn_annos].
    rewrite Hargs, Hthrm. reflexivity.
Qed.

Lemma parse_functions_S f first ts fin :
  parse_functions (S f) first ts fin =
  match expect_punct p_rwing ts with
  | Some rest => Some ([], rest)
  | None =>
    match parse_function f first ts fin with
    | Some (fn, rest) =>
      match parse_functions f false rest fin with
      | Some (l, rest') => Some (fn :: l, rest')
      | None => None
      end
    | None => None
    end
  end.
Proof. reflexivity. Qed.

Lemma parse_functions_conc : forall fs fuel first pre trc rest fin,
  forallb wf_function fs = true -> C (flat_map protos_function fs) pre -> S (S (List.length pre)) < fuel ->
  exists fs', parse_functions fuel first (pre ++ (trc, TPunct p_rwing) :: rest) fin = Some (fs', rest) /\
              map strip_fn fs' = map strip_fn fs.
Proof.
  induction fs as [|f r IH]; intros fuel first pre trc rest fin Hwf H Hfuel.
  - apply C_nil_inv in H. subst pre. destruct fuel as [|fu]; [lia|].
    exists []. rewrite parse_functions_S. cbn [app]. rewrite expect_punct_hit. split; reflexivity.
  - destruct fuel as [|fu]; [lia|].
    cbn [forallb] in Hwf. apply andb_true_iff in Hwf. destruct Hwf as [Hwf Hwr].
    cbn [flat_map] in H.
    destruct (C_app_inv _ _ _ H) as (pf & pr & -> & Hpf & Hpr).
    destruct (function_first f pf Hwf Hpf) as (tr & w & pf' & Epf & Hw).
    rewrite app_length in Hfuel.
    assert (Hl : 1 <= List.length pf) by (rewrite Epf; cbn; lia).
    assert (Hfol : fn_follow (pr ++ (trc, TPunct p_rwing) :: rest)).
    { destruct r as [|g r'].
      - apply C_nil_inv in Hpr. subst pr. reflexivity.
      - cbn [flat_map] in Hpr. cbn [forallb] in Hwr. apply andb_true_iff in Hwr. destruct Hwr as [Hwg _].
        destruct (C_app_inv _ _ _ Hpr) as (pg & pr' & -> & Hpg & _).
        destruct (function_first g pg Hwg Hpg) as (tr' & w' & pg' & -> & Hw'). exact Hw'. }
    destruct (parse_function_conc f fu first pf (pr ++ (trc, TPunct p_rwing) :: rest) fin Hwf Hpf) as (f' & Ef' & Hs);
      [lia | exact Hfol |].
    destruct (IH fu false pr trc rest fin Hwr Hpr) as (fs' & Er & Hmap); [lia|].
    exists (f' :: fs'). rewrite parse_functions_S. norm_app.
    assert (Hexp : expect_punct p_rwing (pf ++ pr ++ (trc, TPunct p_rwing) :: rest) = None)
      by (rewrite Epf; reflexivity).
    rewrite Hexp, Ef', Er. split; [reflexivity|]. cbn [map]. rewrite Hs, Hmap. reflexivity.
Qed.

(* ---------------------------------------------------------------- definitions *)

Definition strip_def (d : def) : def :=
  match d with
  | DConst c => DConst (Constant (co_name c) (co_type c) (co_value c) (co_annos c) [])
  | DTypedef t => DTypedef (Typedef (td_type t) (td_alias t) (td_annos t) [])
  | DEnum e => DEnum (Enum (en_name e) (map strip_ev (en_values e)) (en_annos e) [])
  | DService s => DService (Service (sv_name s) (sv_extends s) (map strip_fn (sv_functions s)) (sv_annos s) (sv_ref s) [])
  | DStructLike s => DStructLike (StructLike (sl_category s) (sl_name s) (map strip_fc (sl_fields s)) (sl_annos s) [])
  end.

Definition protos_def (d : def) : list ptok :=
  match d with
  | DConst c => protos_constant c
  | DTypedef t => protos_typedef t
  | DEnum e => protos_enum e
  | DService s => protos_service s
  | DStructLike s => protos_struct_like s
  end.

Definition wf_def (d : def) : bool :=
  match d with
  | DConst c => wf_type (co_type c) && word_ok (co_name c) && wf_cv (co_value c) && wf_annos (co_annos c)
  | DTypedef t => wf_type (td_type t) && word_ok (td_alias t) && wf_annos (td_annos t)
  | DEnum e => word_ok (en_name e) && forallb wf_enum_value (en_values e) && wf_annos (en_annos e)
  | DService s => word_ok (sv_name s) && (beqb (sv_extends s) [] || word_ok (sv_extends s))
                  && forallb wf_function (sv_functions s) && wf_annos (sv_annos s)
                  && match sv_ref s with None => true | _ => false end
  | DStructLike s => word_ok (sl_name s) && forallb (wf_field false) (sl_fields s) && wf_annos (sl_annos s)
  end.

(* what may follow a definition: the end, or the keyword of the next one *)
Definition def_follow (rest : toks) : Prop :=
  match head_tok rest with
  | None => True
  | Some (TWord _) => True
  | Some _ => False
  end.

Lemma def_follow_no_lpar rest : def_follow rest -> no_lpar rest.
Proof. unfold def_follow, no_lpar. destruct (head_tok rest) as [[| | | |c]|]; try discriminate; contradiction. Qed.
Lemma def_follow_no_sep rest : def_follow rest -> no_sep rest.
Proof. unfold def_follow, no_sep. intros H c E. rewrite E in H. contradiction. Qed.
Lemma def_follow_not_lit rest q raw : def_follow rest -> head_tok rest <> Some (TLit q raw).
Proof. unfold def_follow. intros H E. rewrite E in H. exact H. Qed.

(* the annotations after a definition body *)
Lemma def_annos_conc d a pan rest :
  wf_annos a = true -> C (protos_annos a) pan -> def_follow rest ->
  (match pan ++ rest with
   | (_, TPunct c) :: _ =>
     if Byte.eqb c p_lpar then
       match parse_annos_opt (pan ++ rest) with
       | Some (an, ts2) => Some (def_set_annos d an, ts2)
       | None => None
       end
     else Some (d, pan ++ rest)
   | _ => Some (d, pan ++ rest)
   end) = Some (match pan with [] => d | _ => def_set_annos d a end, rest).
Proof.
  intros Hwa H Hfol.
  destruct (annos_head a pan H) as [->|(tr & p' & ->)].
  - cbn [app]. unfold def_follow in Hfol. destruct rest as [|[tr t] Y]; [reflexivity|].
    cbn in Hfol. destruct t; try contradiction. reflexivity.
  - assert (E := parse_annos_conc a ((tr, TPunct p_lpar) :: p') rest Hwa H).
    cbn [app] in E |- *. rewrite eqb_refl. rewrite E; [reflexivity | discriminate].
Qed.

Lemma pdb_const fuel cm tr ts1 fin :
  parse_def_body fuel cm ((tr, TWord kw_const) :: ts1) fin =
  match parse_type fuel ts1 with
  | Some (t, (_, TWord name) :: ts2) =>
    match expect_punct p_eq ts2 with
    | Some ts3 =>
      match parse_cv fuel ts3 with
      | Some (v, ts4) => Some (DConst (Constant name t v [] cm), skip_sep ts4)
      | None => None
      end
    | None => None
    end
  | _ => None
  end.
Proof. reflexivity. Qed.

Lemma pdb_typedef fuel cm tr ts1 fin :
  parse_def_body fuel cm ((tr, TWord kw_typedef) :: ts1) fin =
  match parse_type fuel ts1 with
  | Some (t, (_, TWord name) :: ts2) => Some (DTypedef (Typedef t name [] cm), ts2)
  | _ => None
  end.
Proof. reflexivity. Qed.

Lemma pdb_enum fuel cm tr ts1 fin :
  parse_def_body fuel cm ((tr, TWord kw_enum) :: ts1) fin =
  match ts1 with
  | (_, TWord name) :: ts2 =>
    match expect_punct p_lwing ts2 with
    | Some ts3 =>
      match parse_enum_values fuel true ts3 fin with
      | Some (vs, ts4) => Some (DEnum (Enum name (assign_enum_values None vs) [] cm), ts4)
      | None => None
      end
    | None => None
    end
  | _ => None
  end.
Proof. reflexivity. Qed.

Lemma pdb_service fuel cm tr ts1 fin :
  parse_def_body fuel cm ((tr, TWord kw_service) :: ts1) fin =
  match ts1 with
  | (_, TWord name) :: ts2 =>
    let ext :=
      match ts2 with
      | (_, TWord e) :: rest =>
        if beqb e kw_extends then
          match rest with
          | (_, TWord base) :: rest' => Some (base, rest')
          | _ => None
          end
        else Some ([], ts2)
      | _ => Some ([], ts2)
      end in
    match ext with
    | Some (base, ts3) =>
      match expect_punct p_lwing ts3 with
      | Some ts4 =>
        match parse_functions fuel true ts4 fin with
        | Some (fns, ts5) => Some (DService (Service name base fns [] None cm), ts5)
        | None => None
        end
      | None => None
      end
    | None => None
    end
  | _ => None
  end.
Proof. reflexivity. Qed.

Lemma pdb_struct_like fuel cm tr k ts1 fin :
  parse_def_body fuel cm ((tr, TWord (sl_kind_name k)) :: ts1) fin = parse_struct_like fuel k cm ts1 fin.
Proof. destruct k; reflexivity. Qed.

Lemma annos_no_sep a pan rest : C (protos_annos a) pan -> def_follow rest -> no_sep (pan ++ rest).
Proof.
  intros H Hf. destruct (annos_head a pan H) as [->|(tr & p' & ->)].
  - apply def_follow_no_sep. exact Hf.
  - cbn [app]. apply no_sep_punct. reflexivity.
Qed.

Lemma annos_not_lit a pan rest q raw :
  C (protos_annos a) pan -> def_follow rest -> head_tok (pan ++ rest) <> Some (TLit q raw).
Proof.
  intros H Hf. destruct (annos_head a pan H) as [->|(tr & p' & ->)].
  - apply def_follow_not_lit. exact Hf.
  - cbn. discriminate.
Qed.

Lemma no_cpp_after_word tr w Y : (forall q raw, head_tok Y <> Some (TLit q raw)) -> no_cpp ((tr, TWord w) :: Y).
Proof.
  intro H. cbn [no_cpp]. destruct Y as [|[tr2 t2] Y']; [exact I|]. destruct t2; try exact I.
  exfalso. apply (H q raw). reflexivity.
Qed.

Lemma strip_def_set_annos d a : strip_def (def_set_annos d a) = def_set_annos (strip_def d) a.
Proof. destruct d; reflexivity. Qed.

Lemma parse_def_conc d fuel first pre rest fin :
  wf_def d = true -> C (protos_def d) pre -> List.length pre <= fuel -> def_follow rest ->
  exists d', parse_def fuel first (pre ++ rest) fin = Some (d', rest) /\ strip_def d' = strip_def d.
Proof.
  intros Hwf H Hfuel Hfol. unfold parse_def.
  destruct d as [c|t|e|s|s]; cbn [wf_def protos_def] in Hwf, H.
  - (* const *)
    apply andb_true_iff in Hwf. destruct Hwf as [Hwf Hwa].
    apply andb_true_iff in Hwf. destruct Hwf as [Hwf Hwv].
    apply andb_true_iff in Hwf. destruct Hwf as [Hwt Hname].
    unfold protos_constant in H. norm_app_in H.
    destruct (C_PW_cons _ _ _ H) as (tr0 & q1 & -> & K1).
    destruct (C_app_inv _ _ _ K1) as (pty & q2 & -> & Hpty & K2).
    destruct (C_PW_cons _ _ _ K2) as (trn & q3 & -> & K3).
    destruct (C_PP_cons _ _ _ K3) as (tre & q4 & -> & K4).
    destruct (C_app_inv _ _ _ K4) as (pcv & q5 & -> & Hpcv & K5).
    change (PSep :: protos_annos (co_annos c)) with ([PSep] ++ protos_annos (co_annos c)) in K5.
    destruct (C_app_inv _ _ _ K5) as (ps & pan & -> & Hps & Hpan).
    cbn [List.length] in Hfuel. rewrite !app_length in Hfuel. cbn [List.length] in Hfuel. rewrite !app_length in Hfuel.
    cbn [app]. rewrite pdb_const. norm_app.
    rewrite (parse_type_conc (co_type c) fuel pty _ Hwt Hpty); [| lia | apply no_lpar_word | exact I].
    rewrite expect_punct_hit.
    rewrite (parse_cv_conc (co_value c) fuel pcv _ Hwv Hpcv) by lia.
    rewrite (skip_sep_C ps (pan ++ rest) Hps (annos_no_sep _ _ _ Hpan Hfol)).
    rewrite (def_annos_conc _ (co_annos c) pan rest Hwa Hpan Hfol).
    eexists. split; [reflexivity|].
    destruct pan; [|rewrite strip_def_set_annos]; cbn [strip_def def_set_annos co_name co_type co_value co_annos co_comments].
    + destruct (annos_head _ _ Hpan) as [_|(tr & p' & E)]; [|discriminate].
      destruct (co_annos c) as [|a0 ar] eqn:Ea; [reflexivity|].
      rewrite protos_annos_pairs in Hpan by discriminate. destruct (C_PP_cons _ _ _ Hpan) as (? & ? & E & _). discriminate.
    + reflexivity.
  - (* typedef *)
    apply andb_true_iff in Hwf. destruct Hwf as [Hwf Hwa].
    apply andb_true_iff in Hwf. destruct Hwf as [Hwt Hname].
    unfold protos_typedef in H. norm_app_in H.
    destruct (C_PW_cons _ _ _ H) as (tr0 & q1 & -> & K1).
    destruct (C_app_inv _ _ _ K1) as (pty & q2 & -> & Hpty & K2).
    destruct (C_PW_cons _ _ _ K2) as (trn & pan & -> & Hpan).
    cbn [List.length] in Hfuel. rewrite !app_length in Hfuel. cbn [List.length] in Hfuel.
    cbn [app]. rewrite pdb_typedef. norm_app.
    rewrite (parse_type_conc (td_type t) fuel pty _ Hwt Hpty);
      [| lia | apply no_lpar_word | apply no_cpp_after_word; intros q raw; apply (annos_not_lit _ _ _ q raw Hpan Hfol)].
    rewrite (def_annos_conc _ (td_annos t) pan rest Hwa Hpan Hfol).
    eexists. split; [reflexivity|].
    destruct pan; [|rewrite strip_def_set_annos]; cbn [strip_def def_set_annos td_type td_alias td_annos td_comments].
    + destruct (td_annos t) as [|a0 ar] eqn:Ea; [reflexivity|].
      rewrite protos_annos_pairs in Hpan by discriminate. destruct (C_PP_cons _ _ _ Hpan) as (? & ? & E & _). discriminate.
    + reflexivity.
  - (* enum *)
    apply andb_true_iff in Hwf. destruct Hwf as [Hwf Hwa].
    apply andb_true_iff in Hwf. destruct Hwf as [Hname Hwvs].
    unfold protos_enum in H. norm_app_in H.
    destruct (C_PW_cons _ _ _ H) as (tr0 & q1 & -> & K1).
    destruct (C_PW_cons _ _ _ K1) as (trn & q2 & -> & K2).
    destruct (C_PP_cons _ _ _ K2) as (trl & q3 & -> & K3).
    destruct (C_app_inv _ _ _ K3) as (pvs & q4 & -> & Hpvs & K4).
    destruct (C_PP_cons _ _ _ K4) as (trr & pan & -> & Hpan).
    cbn [List.length] in Hfuel. rewrite !app_length in Hfuel. cbn [List.length] in Hfuel.
    cbn [app]. rewrite pdb_enum. rewrite expect_punct_hit. norm_app.
    destruct (parse_enum_values_conc (en_values e) None fuel true pvs trr (pan ++ rest) fin Hwvs Hpvs) as (raws & Er & Hmap); [lia|].
    rewrite Er.
    rewrite (def_annos_conc _ (en_annos e) pan rest Hwa Hpan Hfol).
    eexists. split; [reflexivity|].
    destruct pan; [|rewrite strip_def_set_annos]; cbn [strip_def def_set_annos en_name en_values en_annos en_comments]; rewrite Hmap.
    + destruct (en_annos e) as [|a0 ar] eqn:Ea; [reflexivity|].
      rewrite protos_annos_pairs in Hpan by discriminate. destruct (C_PP_cons _ _ _ Hpan) as (? & ? & E & _). discriminate.
    + reflexivity.
  - (* service *)
    apply andb_true_iff in Hwf. destruct Hwf as [Hwf Href].
    apply andb_true_iff in Hwf. destruct Hwf as [Hwf Hwa].
    apply andb_true_iff in Hwf. destruct Hwf as [Hwf Hwfs].
    apply andb_true_iff in Hwf. destruct Hwf as [Hname Hext].
    destruct (sv_ref s) eqn:Eref; [discriminate|].
    unfold protos_service in H. norm_app_in H.
    destruct (C_PW_cons _ _ _ H) as (tr0 & q1 & -> & K1).
    destruct (C_PW_cons _ _ _ K1) as (trn & q2 & -> & K2).
    destruct (C_app_inv _ _ _ K2) as (pext & q3 & -> & Hpext & K3).
    destruct (C_PP_cons _ _ _ K3) as (trl & q4 & -> & K4).
    destruct (C_app_inv _ _ _ K4) as (pfs & q5 & -> & Hpfs & K5).
    destruct (C_PP_cons _ _ _ K5) as (trr & pan & -> & Hpan).
    cbn [List.length] in Hfuel. rewrite !app_length in Hfuel. cbn [List.length] in Hfuel.
    rewrite !app_length in Hfuel. cbn [List.length] in Hfuel.
    cbn [app]. rewrite pdb_service. cbv zeta.
    assert (Hx : (match (pext ++ (trl, TPunct p_lwing) :: pfs ++ (trr, TPunct p_rwing) :: pan) ++ rest with
                  | (_, TWord e) :: rest0 =>
                    if beqb e kw_extends then
                      match rest0 with
                      | (_, TWord base) :: rest' => Some (base, rest')
                      | _ => None
                      end
                    else Some ([], (pext ++ (trl, TPunct p_lwing) :: pfs ++ (trr, TPunct p_rwing) :: pan) ++ rest)
                  | _ => Some ([], (pext ++ (trl, TPunct p_lwing) :: pfs ++ (trr, TPunct p_rwing) :: pan) ++ rest)
                  end) = Some (sv_extends s, (trl, TPunct p_lwing) :: pfs ++ (trr, TPunct p_rwing) :: pan ++ rest)).
    { destruct (sv_extends s) as [|b0 br].
      - apply C_nil_inv in Hpext. subst pext. norm_app. reflexivity.
      - destruct (C_PW_cons _ _ _ Hpext) as (tre & q6 & -> & K6). apply C_one in K6.
        destruct (conc1_PW _ _ K6) as (trb & ->). norm_app. reflexivity. }
    rewrite Hx. rewrite expect_punct_hit.
    destruct (parse_functions_conc (sv_functions s) fuel true pfs trr (pan ++ rest) fin Hwfs Hpfs) as (fs' & Efs & Hmap); [lia|].
    rewrite Efs.
    rewrite (def_annos_conc _ (sv_annos s) pan rest Hwa Hpan Hfol).
    eexists. split; [reflexivity|].
    destruct pan; [|rewrite strip_def_set_annos];
      cbn [strip_def def_set_annos sv_name sv_extends sv_functions sv_annos sv_ref sv_comments]; rewrite Hmap, Eref.
    + destruct (sv_annos s) as [|a0 ar] eqn:Ea; [reflexivity|].
      rewrite protos_annos_pairs in Hpan by discriminate. destruct (C_PP_cons _ _ _ Hpan) as (? & ? & E & _). discriminate.
    + reflexivity.
  - (* struct, union, exception *)
    apply andb_true_iff in Hwf. destruct Hwf as [Hwf Hwa].
    apply andb_true_iff in Hwf. destruct Hwf as [Hname Hwfs].
    unfold protos_struct_like in H. norm_app_in H.
    destruct (C_PW_cons _ _ _ H) as (tr0 & q1 & -> & K1).
    destruct (C_PW_cons _ _ _ K1) as (trn & q2 & -> & K2).
    destruct (C_PP_cons _ _ _ K2) as (trl & q3 & -> & K3).
    destruct (C_app_inv _ _ _ K3) as (pfs & q4 & -> & Hpfs & K4).
    destruct (C_PP_cons _ _ _ K4) as (trr & pan & -> & Hpan).
    cbn [List.length] in Hfuel. rewrite !app_length in Hfuel. cbn [List.length] in Hfuel.
    cbn [app]. rewrite pdb_struct_like. unfold parse_struct_like. rewrite expect_punct_hit. norm_app.
    destruct (parse_fields_conc (sl_fields s) false None fuel true p_rwing pfs trr (pan ++ rest) fin Hwfs Hpfs)
      as (raws & Er & Hmap); [lia | left; reflexivity |].
    rewrite map_norm_req_false in Hmap. rewrite Er.
    rewrite (def_annos_conc _ (sl_annos s) pan rest Hwa Hpan Hfol).
    eexists. split; [reflexivity|].
    destruct pan; [|rewrite strip_def_set_annos];
      cbn [strip_def def_set_annos sl_category sl_name sl_fields sl_annos sl_comments]; rewrite Hmap.
    + destruct (sl_annos s) as [|a0 ar] eqn:Ea; [reflexivity|].
      rewrite protos_annos_pairs in Hpan by discriminate. destruct (C_PP_cons _ _ _ Hpan) as (? & ? & E & _). discriminate.
    + reflexivity.
Qed.

(* ---------------------------------------------------------------- lists of definitions *)

Definition def_kws : list bytes := [kw_const; kw_typedef; kw_enum; kw_service; kw_struct; kw_union; kw_exception].

Lemma def_first d pre : C (protos_def d) pre -> exists tr w p', pre = (tr, TWord w) :: p' /\ In w def_kws.
Proof.
  intro H. destruct d as [c|t|e|s|s]; cbn [protos_def] in H.
  - unfold protos_constant in H. norm_app_in H. destruct (C_PW_cons _ _ _ H) as (tr & p' & -> & _).
    exists tr, kw_const, p'. split; [reflexivity | cbn; tauto].
  - unfold protos_typedef in H. norm_app_in H. destruct (C_PW_cons _ _ _ H) as (tr & p' & -> & _).
    exists tr, kw_typedef, p'. split; [reflexivity | cbn; tauto].
  - unfold protos_enum in H. norm_app_in H. destruct (C_PW_cons _ _ _ H) as (tr & p' & -> & _).
    exists tr, kw_enum, p'. split; [reflexivity | cbn; tauto].
  - unfold protos_service in H. norm_app_in H. destruct (C_PW_cons _ _ _ H) as (tr & p' & -> & _).
    exists tr, kw_service, p'. split; [reflexivity | cbn; tauto].
  - unfold protos_struct_like in H. norm_app_in H. destruct (C_PW_cons _ _ _ H) as (tr & p' & -> & _).
    exists tr, (sl_kind_name (sl_category s)), p'. split; [reflexivity|]. destruct (sl_category s); cbn; tauto.
Qed.

Lemma parse_defs_S f first ts fin :
  parse_defs (S f) first ts fin =
  match ts with
  | [] => Some []
  | _ =>
    match parse_def f first ts fin with
    | Some (d, rest) =>
      match parse_defs f false rest fin with
      | Some l => Some (d :: l)
      | None => None
      end
    | None => None
    end
  end.
Proof. reflexivity. Qed.

Lemma parse_defs_S_cons f first ts fin :
  ts <> [] ->
  parse_defs (S f) first ts fin =
  match parse_def f first ts fin with
  | Some (d, rest) =>
    match parse_defs f false rest fin with
    | Some l => Some (d :: l)
    | None => None
    end
  | None => None
  end.
Proof. intro H. destruct ts; [contradiction | reflexivity]. Qed.

Lemma defs_follow ds pr : C (flat_map protos_def ds) pr -> def_follow pr.
Proof.
  intro H. destruct ds as [|d r].
  - apply C_nil_inv in H. subst pr. exact I.
  - cbn [flat_map] in H. destruct (C_app_inv _ _ _ H) as (pd & pr' & -> & Hpd & _).
    destruct (def_first d pd Hpd) as (tr & w & p' & -> & _). exact I.
Qed.

Lemma parse_defs_conc : forall ds fuel first pre fin,
  forallb wf_def ds = true -> C (flat_map protos_def ds) pre -> List.length pre < fuel ->
  exists ds', parse_defs fuel first pre fin = Some ds' /\ map strip_def ds' = map strip_def ds.
Proof.
  induction ds as [|d r IH]; intros fuel first pre fin Hwf H Hfuel.
  - apply C_nil_inv in H. subst pre. destruct fuel as [|fu]; [lia|]. exists []. split; reflexivity.
  - destruct fuel as [|fu]; [lia|].
    cbn [forallb] in Hwf. apply andb_true_iff in Hwf. destruct Hwf as [Hwd Hwr].
    cbn [flat_map] in H. destruct (C_app_inv _ _ _ H) as (pd & pr & -> & Hpd & Hpr).
    destruct (def_first d pd Hpd) as (tr & w & pd' & Epd & _).
    rewrite app_length in Hfuel.
    assert (Hl : 1 <= List.length pd) by (rewrite Epd; cbn; lia).
    destruct (parse_def_conc d fu first pd pr fin Hwd Hpd) as (d' & Ed & Hs); [lia | exact (defs_follow r pr Hpr) |].
    destruct (IH fu false pr fin Hwr Hpr) as (ds' & Er & Hmap); [lia|].
    exists (d' :: ds'). rewrite parse_defs_S_cons by (rewrite Epd; discriminate).
    rewrite Ed, Er. split; [reflexivity|]. cbn [map]. rewrite Hs, Hmap. reflexivity.
Qed.

(* ---------------------------------------------------------------- headers *)

Definition protos_header (h : header) : list ptok :=
  match h with
  | HInclude p => [PW kw_include; PL p]
  | HCppInclude p => [PW kw_cpp_include; PL p]
  | HNamespace n => protos_namespace n
  end.

Definition wf_header (h : header) : bool :=
  match h with HNamespace n => wf_namespace n | _ => true end.

Lemma header_first h pre : C (protos_header h) pre ->
  exists tr w p', pre = (tr, TWord w) :: p' /\ 2 <= List.length pre.
Proof.
  intro H. destruct h as [p|p|n]; cbn [protos_header] in H.
  - destruct (C_PW_cons _ _ _ H) as (tr & p' & -> & K). apply C_one in K.
    destruct (conc1_PL _ _ K) as (tr2 & q & raw & -> & _). eexists _, _, _. split; [reflexivity | cbn; lia].
  - destruct (C_PW_cons _ _ _ H) as (tr & p' & -> & K). apply C_one in K.
    destruct (conc1_PL _ _ K) as (tr2 & q & raw & -> & _). eexists _, _, _. split; [reflexivity | cbn; lia].
  - unfold protos_namespace in H. norm_app_in H.
    destruct (C_PW_cons _ _ _ H) as (tr & p' & -> & K).
    destruct (C_cons_inv _ _ _ K) as (p1 & p2 & -> & K1 & K2).
    assert (1 <= List.length p1).
    { destruct (beqb (ns_language n) [p_star]).
      - destruct (conc1_PP _ _ K1) as (? & ->). cbn. lia.
      - destruct (conc1_PW _ _ K1) as (? & ->). cbn. lia. }
    eexists _, _, _. split; [reflexivity|]. cbn [List.length]. rewrite app_length. lia.
Qed.

Lemma parse_header_conc h pre rest :
  wf_header h = true -> C (protos_header h) pre -> def_follow rest ->
  parse_header (pre ++ rest) = Some (Some (h, rest)).
Proof.
  intros Hwf H Hfol. destruct h as [p|p|n]; cbn [protos_header] in H.
  - destruct (C_PW_cons _ _ _ H) as (tr & p' & -> & K). apply C_one in K.
    destruct (conc1_PL _ _ K) as (tr2 & q & raw & -> & Hv). cbn [app]. unfold parse_header.
    rewrite beqb_refl. rewrite Hv. reflexivity.
  - destruct (C_PW_cons _ _ _ H) as (tr & p' & -> & K). apply C_one in K.
    destruct (conc1_PL _ _ K) as (tr2 & q & raw & -> & Hv). cbn [app]. unfold parse_header.
    assert (E : beqb kw_cpp_include kw_include = false) by reflexivity. rewrite E, beqb_refl. rewrite Hv. reflexivity.
  - cbn [wf_header] in Hwf. unfold wf_namespace in Hwf.
    apply andb_true_iff in Hwf. destruct Hwf as [Hwf Hwa].
    apply andb_true_iff in Hwf. destruct Hwf as [Hlang Hname].
    unfold protos_namespace in H. norm_app_in H.
    destruct (C_PW_cons _ _ _ H) as (tr & p' & -> & K).
    destruct (C_cons_inv _ _ _ K) as (p1 & p2 & -> & K1 & K2).
    destruct (C_PW_cons _ _ _ K2) as (trn & pan & -> & Hpan).
    cbn [app]. unfold parse_header.
    assert (E1 : beqb kw_namespace kw_include = false) by reflexivity.
    assert (E2 : beqb kw_namespace kw_cpp_include = false) by reflexivity.
    rewrite E1, E2, beqb_refl.
    assert (Han : parse_annos_opt (pan ++ rest) = Some (ns_annos n, rest)).
    { apply parse_annos_conc; [exact Hwa | exact Hpan | intros _; apply def_follow_no_lpar; exact Hfol]. }
    destruct (beqb (ns_language n) [p_star]) eqn:El.
    + destruct (conc1_PP _ _ K1) as (trs & ->). cbn [app]. rewrite eqb_refl. norm_app. rewrite Han.
      apply beqb_true in El. destruct n as [l nm an]. cbn in *. subst l. reflexivity.
    + destruct (conc1_PW _ _ K1) as (trs & ->). cbn [app]. norm_app. rewrite Han.
      destruct n; reflexivity.
Qed.

Lemma parse_header_stop tr w X : In w def_kws -> parse_header ((tr, TWord w) :: X) = None.
Proof.
  intro H. cbn in H. repeat (destruct H as [<-|H]; [reflexivity|]). contradiction.
Qed.

Lemma parse_headers_S f ts :
  parse_headers (S f) ts =
  match parse_header ts with
  | None => Some ([], ts)
  | Some None => None
  | Some (Some (h, rest)) =>
    match parse_headers f rest with
    | Some (l, rest') => Some (h :: l, rest')
    | None => None
    end
  end.
Proof. reflexivity. Qed.

Lemma parse_headers_conc : forall hs fuel pre rest,
  forallb wf_header hs = true -> C (flat_map protos_header hs) pre -> List.length pre < fuel ->
  (rest = [] \/ exists tr w X, rest = (tr, TWord w) :: X /\ In w def_kws) ->
  parse_headers fuel (pre ++ rest) = Some (hs, rest).
Proof.
  induction hs as [|h r IH]; intros fuel pre rest Hwf H Hfuel Hrest.
  - apply C_nil_inv in H. subst pre. destruct fuel as [|fu]; [lia|]. cbn [app]. rewrite parse_headers_S.
    destruct Hrest as [->|(tr & w & X & -> & Hin)]; [reflexivity|].
    rewrite (parse_header_stop tr w X Hin). reflexivity.
  - destruct fuel as [|fu]; [lia|].
    cbn [forallb] in Hwf. apply andb_true_iff in Hwf. destruct Hwf as [Hwh Hwr].
    cbn [flat_map] in H. destruct (C_app_inv _ _ _ H) as (ph & pr & -> & Hph & Hpr).
    destruct (header_first h ph Hph) as (tr & w & ph' & Eph & Hl).
    rewrite app_length in Hfuel.
    assert (Hfol : def_follow (pr ++ rest)).
    { destruct r as [|h2 r'].
      - apply C_nil_inv in Hpr. subst pr. cbn [app].
        destruct Hrest as [->|(tr2 & w2 & X & -> & _)]; exact I.
      - cbn [flat_map] in Hpr. destruct (C_app_inv _ _ _ Hpr) as (ph2 & pr' & -> & Hph2 & _).
        destruct (header_first h2 ph2 Hph2) as (tr2 & w2 & ph2' & -> & _). exact I. }
    rewrite parse_headers_S. norm_app.
    rewrite (parse_header_conc h ph (pr ++ rest) Hwh Hph Hfol).
    rewrite (IH fu pr rest Hwr Hpr); [reflexivity | lia | exact Hrest].
Qed.

(* ---------------------------------------------------------------- the file *)

Definition hs_of (a : file) : list header :=
  map (fun i => HInclude (in_path i)) (f_includes a) ++ map HCppInclude (f_cpp_includes a)
  ++ map HNamespace (f_namespaces a).

Definition defs_of (a : file) : list def :=
  map DTypedef (f_typedefs a) ++ map DConst (f_constants a) ++ map DEnum (f_enums a)
  ++ map DStructLike (f_structs a) ++ map DStructLike (f_unions a) ++ map DStructLike (f_exceptions a)
  ++ map DService (f_services a).

Lemma flat_map_map {A B D} (f : B -> list D) (g : A -> B) l : flat_map f (map g l) = flat_map (fun x => f (g x)) l.
Proof. induction l as [|x l IH]; [reflexivity|]. cbn. rewrite IH. reflexivity. Qed.

Lemma protos_file_split a : protos_file a = flat_map protos_header (hs_of a) ++ flat_map protos_def (defs_of a).
Proof.
  unfold protos_file, hs_of, defs_of. rewrite !flat_map_app, !flat_map_map. cbn [protos_header protos_def].
  rewrite <- !app_assoc. reflexivity.
Qed.

Lemma flat_map_nil {A B} (f : A -> list B) l : (forall x, In x l -> f x = []) -> flat_map f l = [].
Proof. induction l as [|x l IH]; intro H; [reflexivity|]. cbn. rewrite (H x (or_introl eq_refl)), IH; [reflexivity|]. intros y Hy. apply H. right. exact Hy. Qed.

Lemma flat_map_single {A B} (f : A -> list B) (g : A -> B) l : (forall x, In x l -> f x = [g x]) -> flat_map f l = map g l.
Proof. induction l as [|x l IH]; intro H; [reflexivity|]. cbn. rewrite (H x (or_introl eq_refl)), IH; [reflexivity|]. intros y Hy. apply H. right. exact Hy. Qed.

(* includes *)
Lemma add_includes_non acc hs : (forall h, In h hs -> match h with HInclude _ => False | _ => True end) ->
  add_includes acc hs = acc.
Proof.
  induction hs as [|h r IH]; intro H; [reflexivity|]. cbn [add_includes].
  assert (Hh := H h (or_introl eq_refl)). destruct h; [contradiction | |]; apply IH; intros x Hx; apply H; right; exact Hx.
Qed.

Lemma add_includes_incs : forall incs acc tl,
  forallb (fun i => negb (beqb (in_path i) []) && match in_ref i with None => true | _ => false end
                    && match in_used i with None => true | _ => false end) incs = true ->
  (fix go (seen : list bytes) (l : list bytes) : bool :=
     match l with
     | [] => true
     | x :: r => negb (existsb (beqb x) seen) && go (x :: seen) r
     end) (rev (map in_path acc)) (map in_path incs) = true ->
  (forall h, In h tl -> match h with HInclude _ => False | _ => True end) ->
  add_includes acc (map (fun i => HInclude (in_path i)) incs ++ tl) = acc ++ incs.
Proof.
  induction incs as [|i r IH]; intros acc tl Hwf Hnd Htl.
  - cbn [map app]. rewrite add_includes_non by exact Htl. rewrite app_nil_r. reflexivity.
  - cbn [forallb] in Hwf. apply andb_true_iff in Hwf. destruct Hwf as [Hi Hr].
    apply andb_true_iff in Hi. destruct Hi as [Hi Hused]. apply andb_true_iff in Hi. destruct Hi as [Hne Href].
    cbn [map] in Hnd. apply andb_true_iff in Hnd. destruct Hnd as [Hfresh0 Hnd'].
    assert (Hfresh : ~ In (in_path i) (rev (map in_path acc))).
    { intro Hin. apply negb_true_iff in Hfresh0. apply existsb_beqb_In in Hin. congruence. }
    cbn [map app add_includes].
    apply negb_true_iff in Hne. rewrite Hne. cbn [orb].
    replace (existsb (fun i0 => beqb (in_path i0) (in_path i)) acc) with false.
    2:{ symmetry. apply not_true_is_false. intro E. apply existsb_exists in E. destruct E as (j & Hj & Ej).
        apply beqb_true in Ej. apply Hfresh. apply in_rev. rewrite rev_involutive. rewrite <- Ej. apply in_map. exact Hj. }
    rewrite IH; [| exact Hr | | exact Htl].
    + rewrite <- app_assoc. cbn [app]. destruct i as [p rf us]. cbn in *.
      destruct rf; [discriminate|]. destruct us; [discriminate|]. reflexivity.
    + rewrite map_app, rev_app_distr. cbn [map rev app in_path]. exact Hnd'.
Qed.

Lemma wf_file_inv a : wf_file a = true ->
  forallb (fun i => negb (beqb (in_path i) []) && match in_ref i with None => true | _ => false end
                    && match in_used i with None => true | _ => false end) (f_includes a) = true /\
  nodup_bytes (map in_path (f_includes a)) = true /\
  forallb wf_namespace (f_namespaces a) = true /\
  forallb wf_def (defs_of a) = true /\
  forallb (fun s => sl_kind_eqb (sl_category s) SKStruct) (f_structs a) = true /\
  forallb (fun s => sl_kind_eqb (sl_category s) SKUnion) (f_unions a) = true /\
  forallb (fun s => sl_kind_eqb (sl_category s) SKException) (f_exceptions a) = true /\
  f_name2cat a = None.
Proof.
  unfold wf_file. intro H.
  apply andb_true_iff in H. destruct H as [H H11].
  apply andb_true_iff in H. destruct H as [H H10].
  apply andb_true_iff in H. destruct H as [H H9].
  apply andb_true_iff in H. destruct H as [H H8].
  apply andb_true_iff in H. destruct H as [H H7].
  apply andb_true_iff in H. destruct H as [H H6].
  apply andb_true_iff in H. destruct H as [H H5].
  apply andb_true_iff in H. destruct H as [H H4].
  apply andb_true_iff in H. destruct H as [H H3].
  apply andb_true_iff in H. destruct H as [H1 H2].
  assert (Hsl : forall k l, forallb (wf_struct_like k) l = true ->
                            forallb wf_def (map DStructLike l) = true /\
                            forallb (fun s => sl_kind_eqb (sl_category s) k) l = true).
  { intros k l Hl. rewrite forallb_forall in Hl. split; apply forallb_forall.
    - intros d Hd. apply in_map_iff in Hd. destruct Hd as (s & <- & Hs). specialize (Hl s Hs).
      unfold wf_struct_like in Hl. cbn [wf_def].
      apply andb_true_iff in Hl. destruct Hl as [Hl Ha]. apply andb_true_iff in Hl. destruct Hl as [Hl Hf].
      apply andb_true_iff in Hl. destruct Hl as [_ Hn]. rewrite Hn, Hf, Ha. reflexivity.
    - intros s Hs. specialize (Hl s Hs). unfold wf_struct_like in Hl.
      apply andb_true_iff in Hl. destruct Hl as [Hl _]. apply andb_true_iff in Hl. destruct Hl as [Hl _].
      apply andb_true_iff in Hl. tauto. }
  destruct (Hsl _ _ H7) as [D7 S7]. destruct (Hsl _ _ H8) as [D8 S8]. destruct (Hsl _ _ H9) as [D9 S9].
  repeat split; try assumption.
  - unfold defs_of. rewrite !forallb_app. rewrite D7, D8, D9.
    assert (E1 : forallb wf_def (map DTypedef (f_typedefs a)) = true).
    { rewrite forallb_forall in H4. apply forallb_forall. intros d Hd. apply in_map_iff in Hd.
      destruct Hd as (t & <- & Ht). exact (H4 t Ht). }
    assert (E2 : forallb wf_def (map DConst (f_constants a)) = true).
    { rewrite forallb_forall in H5. apply forallb_forall. intros d Hd. apply in_map_iff in Hd.
      destruct Hd as (t & <- & Ht). exact (H5 t Ht). }
    assert (E3 : forallb wf_def (map DEnum (f_enums a)) = true).
    { rewrite forallb_forall in H6. apply forallb_forall. intros d Hd. apply in_map_iff in Hd.
      destruct Hd as (t & <- & Ht). exact (H6 t Ht). }
    assert (E4 : forallb wf_def (map DService (f_services a)) = true).
    { rewrite forallb_forall in H10. apply forallb_forall. intros d Hd. apply in_map_iff in Hd.
      destruct Hd as (t & <- & Ht). exact (H10 t Ht). }
    rewrite E1, E2, E3, E4. reflexivity.
  - destruct (f_name2cat a); [discriminate | reflexivity].
Qed.

Lemma sl_kind_eqb_true a b : sl_kind_eqb a b = true -> a = b.
Proof. destruct a, b; cbn; congruence. Qed.

Lemma file_of_hs_defs a : wf_file a = true -> file_of (f_filename a) (hs_of a) (defs_of a) = a.
Proof.
  intro Hwf. destruct (wf_file_inv a Hwf) as (Hinc & Hnd & _ & _ & Hs & Hu & He & Hn2c).
  rewrite forallb_forall in Hs, Hu, He.
  destruct a as [fn incs cpps nss tds cs es ss us xs svs n2c]. cbn [f_filename f_includes f_cpp_includes f_namespaces
    f_typedefs f_constants f_enums f_structs f_unions f_exceptions f_services f_name2cat] in *. subst n2c.
  unfold file_of, hs_of, defs_of. cbn [f_includes f_cpp_includes f_namespaces f_typedefs f_constants f_enums
    f_structs f_unions f_exceptions f_services].
  f_equal.
  - rewrite (add_includes_incs incs [] _ Hinc Hnd); [reflexivity|].
    intros h Hh. apply in_app_or in Hh. destruct Hh as [Hh|Hh]; apply in_map_iff in Hh; destruct Hh as (? & <- & _); exact I.
  - rewrite !flat_map_app, !flat_map_map. rewrite flat_map_nil by reflexivity.
    rewrite (flat_map_single _ (fun p => p)) by reflexivity. rewrite flat_map_nil by reflexivity.
    rewrite map_id, app_nil_r. reflexivity.
  - rewrite !flat_map_app, !flat_map_map. rewrite !flat_map_nil by reflexivity.
    rewrite (flat_map_single _ (fun p => p)) by reflexivity. rewrite map_id. reflexivity.
  - rewrite !flat_map_app, !flat_map_map. rewrite (flat_map_single _ (fun p => p)) by reflexivity.
    rewrite !flat_map_nil by reflexivity. rewrite map_id, !app_nil_r. reflexivity.
  - rewrite !flat_map_app, !flat_map_map. rewrite (flat_map_single _ (fun p => p)) by reflexivity.
    rewrite !flat_map_nil by reflexivity. rewrite map_id, !app_nil_r. reflexivity.
  - rewrite !flat_map_app, !flat_map_map. rewrite (flat_map_single _ (fun p => p)) by reflexivity.
    rewrite !flat_map_nil by reflexivity. rewrite map_id, !app_nil_r. reflexivity.
  - rewrite !flat_map_app, !flat_map_map.
    rewrite (flat_map_single (fun x => match sl_category x with SKStruct => [x] | _ => [] end) (fun p => p) ss)
      by (intros s Hin; rewrite (sl_kind_eqb_true _ _ (Hs s Hin)); reflexivity).
    rewrite (flat_map_nil _ us) by (intros s Hin; rewrite (sl_kind_eqb_true _ _ (Hu s Hin)); reflexivity).
    rewrite (flat_map_nil _ xs) by (intros s Hin; rewrite (sl_kind_eqb_true _ _ (He s Hin)); reflexivity).
    rewrite !flat_map_nil by reflexivity. rewrite map_id, !app_nil_r. reflexivity.
  - rewrite !flat_map_app, !flat_map_map.
    rewrite (flat_map_nil _ ss) by (intros s Hin; rewrite (sl_kind_eqb_true _ _ (Hs s Hin)); reflexivity).
    rewrite (flat_map_single (fun x => match sl_category x with SKUnion => [x] | _ => [] end) (fun p => p) us)
      by (intros s Hin; rewrite (sl_kind_eqb_true _ _ (Hu s Hin)); reflexivity).
    rewrite (flat_map_nil _ xs) by (intros s Hin; rewrite (sl_kind_eqb_true _ _ (He s Hin)); reflexivity).
    rewrite !flat_map_nil by reflexivity. rewrite map_id, !app_nil_r. reflexivity.
  - rewrite !flat_map_app, !flat_map_map.
    rewrite (flat_map_nil _ ss) by (intros s Hin; rewrite (sl_kind_eqb_true _ _ (Hs s Hin)); reflexivity).
    rewrite (flat_map_nil _ us) by (intros s Hin; rewrite (sl_kind_eqb_true _ _ (Hu s Hin)); reflexivity).
    rewrite (flat_map_single (fun x => match sl_category x with SKException => [x] | _ => [] end) (fun p => p) xs)
      by (intros s Hin; rewrite (sl_kind_eqb_true _ _ (He s Hin)); reflexivity).
    rewrite !flat_map_nil by reflexivity. rewrite map_id, !app_nil_r. reflexivity.
  - rewrite !flat_map_app, !flat_map_map. rewrite !flat_map_nil by reflexivity.
    rewrite (flat_map_single _ (fun p => p)) by reflexivity. rewrite map_id. reflexivity.
Qed.

(* ---------------------------------------------------------------- up to comments *)

Lemma map_field_strip_fc f : map_field (fun t => t) (fun c => c) (fun _ : bytes => []) f = strip_fc f.
Proof. destruct f as [id n r t d an cm]. unfold map_field, strip_fc. cbn. destruct d; reflexivity. Qed.

Lemma map_fields_strip_fc l :
  map (map_field (fun t => t) (fun c => c) (fun _ : bytes => [])) l = map strip_fc l.
Proof. apply map_ext. exact map_field_strip_fc. Qed.

Lemma map_function_strip_fn f :
  map_function (fun t => t) (fun c => c) (fun _ : bytes => []) f = strip_fn f.
Proof. unfold map_function, strip_fn. rewrite !map_fields_strip_fc. reflexivity. Qed.

Lemma sel_strip {A} (sel : def -> list A) (sc : A -> A) :
  (forall d1 d2, strip_def d1 = strip_def d2 -> map sc (sel d1) = map sc (sel d2)) ->
  forall ds1 ds2, map strip_def ds1 = map strip_def ds2 ->
  map sc (flat_map sel ds1) = map sc (flat_map sel ds2).
Proof.
  intros Hp. induction ds1 as [|d1 r1 IH]; intros [|d2 r2] H; try discriminate; [reflexivity|].
  cbn [map] in H. injection H as Hd Hr. cbn [flat_map]. rewrite !map_app. rewrite (Hp _ _ Hd), (IH _ Hr). reflexivity.
Qed.

Lemma strip_file_of n hs ds1 ds2 :
  map strip_def ds1 = map strip_def ds2 ->
  strip_comments (file_of n hs ds1) = strip_comments (file_of n hs ds2).
Proof.
  intro H. unfold strip_comments, map_file, file_of.
  cbn [f_filename f_includes f_cpp_includes f_namespaces f_typedefs f_constants f_enums f_structs f_unions
       f_exceptions f_services f_name2cat].
  f_equal.
  - apply (sel_strip _ _); [|exact H]. intros [] []; cbn; intro E; try discriminate; try reflexivity.
    injection E; intros. unfold map_typedef. cbn. congruence.
  - apply (sel_strip _ _); [|exact H]. intros [] []; cbn; intro E; try discriminate; try reflexivity.
    injection E; intros. unfold map_constant. cbn. congruence.
  - apply (sel_strip _ _); [|exact H]. intros [] []; cbn; intro E; try discriminate; try reflexivity.
    injection E; intros. unfold map_enum. cbn.
    change (map (map_enum_value (fun _ : bytes => [])) (en_values e)) with (map strip_ev (en_values e)).
    change (map (map_enum_value (fun _ : bytes => [])) (en_values e0)) with (map strip_ev (en_values e0)).
    congruence.
  - apply (sel_strip _ _); [|exact H]. intros [] []; cbn; intro E; try discriminate; try reflexivity.
    injection E as Hc Hn Hf Ha. rewrite Hc. destruct (sl_category s0) eqn:Ec; try reflexivity.
    cbn. unfold map_struct_like. rewrite !map_fields_strip_fc. cbn. congruence.
  - apply (sel_strip _ _); [|exact H]. intros [] []; cbn; intro E; try discriminate; try reflexivity.
    injection E as Hc Hn Hf Ha. rewrite Hc. destruct (sl_category s0) eqn:Ec; try reflexivity.
    cbn. unfold map_struct_like. rewrite !map_fields_strip_fc. cbn. congruence.
  - apply (sel_strip _ _); [|exact H]. intros [] []; cbn; intro E; try discriminate; try reflexivity.
    injection E as Hc Hn Hf Ha. rewrite Hc. destruct (sl_category s0) eqn:Ec; try reflexivity.
    cbn. unfold map_struct_like. rewrite !map_fields_strip_fc. cbn. congruence.
  - apply (sel_strip _ _); [|exact H]. intros [] []; cbn; intro E; try discriminate; try reflexivity.
    injection E as Hn He Hf Ha Hr. unfold map_service. cbn.
    rewrite (map_ext _ _ map_function_strip_fn (sv_functions s)), (map_ext _ _ map_function_strip_fn (sv_functions s0)).
    congruence.
Qed.

(* parse_print: the token parser inverts the printer, whatever way the abstract tokens of
   a well-formed file are written and whatever blanks and comments surround them *)
Theorem parse_tokens_conc a lts fin :
  wf_file a = true -> C (protos_file a) lts ->
  exists a', parse_tokens (f_filename a) lts fin = Some a' /\ strip_comments a' = strip_comments a.
Proof.
  intros Hwf H. destruct (wf_file_inv a Hwf) as (_ & _ & Hwns & Hwd & _).
  rewrite protos_file_split in H.
  destruct (C_app_inv _ _ _ H) as (ph & pd & -> & Hph & Hpd).
  assert (Hwh : forallb wf_header (hs_of a) = true).
  { unfold hs_of. rewrite !forallb_app. rewrite forallb_forall in Hwns.
    assert (E1 : forallb wf_header (map (fun i => HInclude (in_path i)) (f_includes a)) = true)
      by (apply forallb_forall; intros h Hh; apply in_map_iff in Hh; destruct Hh as (? & <- & _); reflexivity).
    assert (E2 : forallb wf_header (map HCppInclude (f_cpp_includes a)) = true)
      by (apply forallb_forall; intros h Hh; apply in_map_iff in Hh; destruct Hh as (? & <- & _); reflexivity).
    assert (E3 : forallb wf_header (map HNamespace (f_namespaces a)) = true)
      by (apply forallb_forall; intros h Hh; apply in_map_iff in Hh; destruct Hh as (n & <- & Hn); exact (Hwns n Hn)).
    rewrite E1, E2, E3. reflexivity. }
  assert (Hrest : pd = [] \/ exists tr w X, pd = (tr, TWord w) :: X /\ In w def_kws).
  { destruct (defs_of a) as [|d r].
    - apply C_nil_inv in Hpd. left. exact Hpd.
    - cbn [flat_map] in Hpd. destruct (C_app_inv _ _ _ Hpd) as (p1 & p2 & -> & Hp1 & _).
      destruct (def_first d p1 Hp1) as (tr & w & p' & -> & Hin). right. exists tr, w, (p' ++ p2). auto. }
  unfold parse_tokens.
  rewrite (parse_headers_conc (hs_of a) (S (List.length (ph ++ pd))) ph pd Hwh Hph); [| rewrite app_length; lia | exact Hrest].
  destruct (parse_defs_conc (defs_of a) (S (List.length (ph ++ pd)))
                            (match hs_of a with [] => true | _ => false end) pd fin Hwd Hpd) as (ds' & Eds & Hmap);
    [rewrite app_length; lia|].
  rewrite Eds. eexists. split; [reflexivity|].
  rewrite (strip_file_of _ _ _ _ Hmap). rewrite (file_of_hs_defs a Hwf). reflexivity.
Qed.

(* ---------------------------------------------------------------- the executable printer *)

Lemma realize1_conc l i p : spelling_ok l i p = true -> conc1 p (untriv (realize1 l i p)).
Proof.
  intro H. destruct p; cbn [realize1 spelling_ok] in *.
  - constructor.
  - cbn. constructor. destruct (int_value (l_int l i z)) as [z'|]; [|discriminate]. apply Z.eqb_eq in H. subst. reflexivity.
  - cbn. constructor. apply N.eqb_eq. exact H.
  - cbn. constructor. apply beqb_true. exact H.
  - constructor.
  - destruct (l_sep l i); cbn; constructor; reflexivity.
  - cbn. constructor. apply Z.eqb_eq. exact H.
  - destruct (l_opt l i); cbn; constructor. apply Z.eqb_eq. exact H.
  - destruct (l_opt l i); cbn; constructor.
    destruct (int_value (l_int l i z)) as [z'|]; [|discriminate]. apply Z.eqb_eq in H. subst. reflexivity.
  - destruct (l_opt l i); cbn; constructor.
  - destruct (l_throws l i) as [[|]|]; cbn; constructor.
Qed.

Lemma realize_conc l : forall ps i, spellings_ok_from l i ps = true -> C ps (realize_from l i ps).
Proof.
  unfold C. induction ps as [|p r IH]; intros i H; cbn [realize_from].
  - constructor.
  - cbn [spellings_ok_from] in H. apply andb_true_iff in H. destruct H as [Hp Hr].
    unfold untriv. rewrite map_app. constructor; [apply realize1_conc; exact Hp | apply IH; exact Hr].
Qed.

(* the conditions on a layout for a file: its spellings denote the values of the file, and the
   token sequence it produces is admissible for the lexer (well-formed tokens and trivia,
   word-like tokens separated); nothing else: the empty file under the empty layout is included *)
Definition layout_ok (l : layout) (a : file) : Prop :=
  spellings_ok_from l 0 (protos_file a) = true /\
  lts_wf (render_tokens l a) (l_final l).

(* parse_render *)
Theorem parse_render l a :
  wf_file a = true -> layout_ok l a ->
  exists a', parse (f_filename a) (render l a) = Some a' /\ strip_comments a' = strip_comments a.
Proof.
  intros Hwf (Hsp & Hlex). unfold parse.
  unfold render. rewrite (lex_ltoks_bytes _ _ Hlex).
  apply parse_tokens_conc; [exact Hwf|]. apply realize_conc. exact Hsp.
Qed.

(* layout_independent: two admissible layouts of one file parse to the same AST up to the
   comments they record *)
Corollary layout_independent l1 l2 a :
  wf_file a = true -> layout_ok l1 a -> layout_ok l2 a ->
  exists a1 a2, parse (f_filename a) (render l1 a) = Some a1 /\ parse (f_filename a) (render l2 a) = Some a2 /\
                strip_comments a1 = strip_comments a2.
Proof.
  intros Hwf H1 H2.
  destruct (parse_render l1 a Hwf H1) as (a1 & E1 & S1).
  destruct (parse_render l2 a Hwf H2) as (a2 & E2 & S2).
  exists a1, a2. repeat split; try assumption. congruence.
Qed.

(* ---------------------------------------------------------------- a decidable sufficient condition *)

Definition layout_okb (l : layout) (a : file) : bool :=
  spellings_ok_from l 0 (protos_file a) && lts_wfb (render_tokens l a) (l_final l).

Lemma layout_okb_ok l a : layout_okb l a = true -> layout_ok l a.
Proof.
  unfold layout_okb, layout_ok. intro H. apply andb_true_iff in H. destruct H as [H1 H2].
  split; [exact H1 | apply lts_wfb_wf; exact H2].
Qed.
