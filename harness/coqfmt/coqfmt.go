// Package coqfmt prints Go-side values as Coq terms.
package coqfmt

import (
	"fmt"
	"strings"
)

// Bytes prints a byte string as a Coq term of type `bytes`:
// (B "text") when it is plain printable ASCII, (hx "68 65") otherwise.
func Bytes(s string) string {
	plain := true
	for i := 0; i < len(s); i++ {
		c := s[i]
		if c < 0x20 || c > 0x7e || c == '"' {
			plain = false
			break
		}
	}
	if len(s) == 0 {
		return "[]"
	}
	if plain {
		return `(B "` + s + `")`
	}
	var b strings.Builder
	b.WriteString(`(hx "`)
	for i := 0; i < len(s); i++ {
		fmt.Fprintf(&b, "%02x", s[i])
	}
	b.WriteString(`")`)
	return b.String()
}

// List prints a Coq list.
func List(items []string) string {
	return "[" + strings.Join(items, "; ") + "]"
}

// Z prints an integer as a Coq Z term.
func Z(v int64) string {
	if v < 0 {
		return fmt.Sprintf("(%d)%%Z", v)
	}
	return fmt.Sprintf("%d%%Z", v)
}

// N prints a non-negative integer as a Coq N term.
func N(v uint64) string { return fmt.Sprintf("%d%%N", v) }

// Nat prints a small natural number.
func Nat(v int) string { return fmt.Sprintf("%d%%nat", v) }

func Bool(b bool) string {
	if b {
		return "true"
	}
	return "false"
}

// Option prints Some/None.
func Option(set bool, inner string) string {
	if !set {
		return "None"
	}
	return "(Some " + inner + ")"
}
