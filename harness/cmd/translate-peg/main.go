// translate-peg reads the grammar /repo/parser/thrift.peg (pointlander/peg syntax) and
// writes it as a Coq term of type Idl.Peg.grammar (coq/Idl/PegGrammar.v).  Property C03
// re-runs it on every check, so that `wf_peg thrift_grammar = true` is re-established
// for the grammar as it is in the working tree.
//
//	translate-peg -in /repo/parser/thrift.peg -out /verif/coq/Idl/PegGrammar.v
package main

import (
	"flag"
	"fmt"
	"os"
	"strings"

	"verif/harness/coqfmt"
)

type tok struct {
	kind string // ident arrow slash star plus quest not and lpar rpar lt gt lit class dot
	text string
}

func fail(format string, a ...interface{}) {
	fmt.Fprintf(os.Stderr, "translate-peg: "+format+"\n", a...)
	os.Exit(2)
}

func unescape(s string) string {
	var b strings.Builder
	for i := 0; i < len(s); i++ {
		c := s[i]
		if c == '\\' && i+1 < len(s) {
			i++
			switch s[i] {
			case 'n':
				b.WriteByte('\n')
			case 'r':
				b.WriteByte('\r')
			case 't':
				b.WriteByte('\t')
			case 'v':
				b.WriteByte('\v')
			case 'f':
				b.WriteByte('\f')
			case 'a':
				b.WriteByte('\a')
			case 'b':
				b.WriteByte('\b')
			case '0':
				b.WriteByte(0)
			default: // \\ \' \" \- \] \[ ...
				b.WriteByte(s[i])
			}
			continue
		}
		b.WriteByte(c)
	}
	return b.String()
}

func lex(src string) []tok {
	var out []tok
	i := 0
	isIdent := func(c byte) bool {
		return c == '_' || (c >= 'a' && c <= 'z') || (c >= 'A' && c <= 'Z') || (c >= '0' && c <= '9')
	}
	for i < len(src) {
		c := src[i]
		switch {
		case c == ' ' || c == '\t' || c == '\n' || c == '\r':
			i++
		case c == '#':
			for i < len(src) && src[i] != '\n' {
				i++
			}
		case c == '<' && i+1 < len(src) && src[i+1] == '-':
			out = append(out, tok{"arrow", "<-"})
			i += 2
		case c == '/':
			out = append(out, tok{"slash", "/"})
			i++
		case c == '*':
			out = append(out, tok{"star", "*"})
			i++
		case c == '+':
			out = append(out, tok{"plus", "+"})
			i++
		case c == '?':
			out = append(out, tok{"quest", "?"})
			i++
		case c == '!':
			out = append(out, tok{"not", "!"})
			i++
		case c == '&':
			out = append(out, tok{"and", "&"})
			i++
		case c == '(':
			out = append(out, tok{"lpar", "("})
			i++
		case c == ')':
			out = append(out, tok{"rpar", ")"})
			i++
		case c == '<':
			out = append(out, tok{"lt", "<"})
			i++
		case c == '>':
			out = append(out, tok{"gt", ">"})
			i++
		case c == '.':
			out = append(out, tok{"dot", "."})
			i++
		case c == '{' || c == '}':
			out = append(out, tok{"brace", string(c)})
			i++
		case c == '\'' || c == '"':
			j := i + 1
			for j < len(src) && src[j] != c {
				if src[j] == '\\' {
					j++
				}
				j++
			}
			if j >= len(src) {
				fail("unterminated literal at byte %d", i)
			}
			out = append(out, tok{"lit", unescape(src[i+1 : j])})
			i = j + 1
		case c == '[':
			j := i + 1
			for j < len(src) && src[j] != ']' {
				if src[j] == '\\' {
					j++
				}
				j++
			}
			if j >= len(src) {
				fail("unterminated class at byte %d", i)
			}
			out = append(out, tok{"class", src[i+1 : j]})
			i = j + 1
		case isIdent(c):
			j := i
			for j < len(src) && isIdent(src[j]) {
				j++
			}
			out = append(out, tok{"ident", src[i:j]})
			i = j
		default:
			fail("unexpected byte %q at %d", c, i)
		}
	}
	return out
}

// expression tree
type exp struct {
	op   string // eps any char range lit nt seq alt star plus opt not and cap
	s    string
	lo   byte
	hi   byte
	kids []*exp
}

type parser struct {
	toks  []tok
	pos   int
	rules map[string]int
}

func (p *parser) peek() tok {
	if p.pos < len(p.toks) {
		return p.toks[p.pos]
	}
	return tok{"eof", ""}
}

func (p *parser) atRuleStart() bool {
	return p.pos+1 < len(p.toks) && p.toks[p.pos].kind == "ident" && p.toks[p.pos+1].kind == "arrow"
}

func (p *parser) alt() *exp {
	first := p.seq()
	for p.peek().kind == "slash" {
		p.pos++
		first = &exp{op: "alt", kids: []*exp{first, p.seq()}}
	}
	return first
}

func (p *parser) seq() *exp {
	var items []*exp
	for {
		k := p.peek().kind
		if k == "eof" || k == "slash" || k == "rpar" || k == "gt" || p.atRuleStart() {
			break
		}
		items = append(items, p.prefix())
	}
	if len(items) == 0 {
		return &exp{op: "eps"}
	}
	e := items[len(items)-1]
	for i := len(items) - 2; i >= 0; i-- {
		e = &exp{op: "seq", kids: []*exp{items[i], e}}
	}
	return e
}

func (p *parser) prefix() *exp {
	switch p.peek().kind {
	case "not":
		p.pos++
		return &exp{op: "not", kids: []*exp{p.suffix()}}
	case "and":
		p.pos++
		return &exp{op: "and", kids: []*exp{p.suffix()}}
	}
	return p.suffix()
}

func (p *parser) suffix() *exp {
	e := p.primary()
	for {
		switch p.peek().kind {
		case "star":
			p.pos++
			e = &exp{op: "star", kids: []*exp{e}}
		case "plus":
			p.pos++
			e = &exp{op: "plus", kids: []*exp{e}}
		case "quest":
			p.pos++
			e = &exp{op: "opt", kids: []*exp{e}}
		default:
			return e
		}
	}
}

func classExp(body string) *exp {
	// body is the raw text between [ and ]
	type item struct {
		lo, hi byte
	}
	var items []item
	raw := []byte{}
	esc := []bool{}
	for i := 0; i < len(body); i++ {
		if body[i] == '\\' && i+1 < len(body) {
			raw = append(raw, unescape(body[i : i+2])[0])
			esc = append(esc, true)
			i++
		} else {
			raw = append(raw, body[i])
			esc = append(esc, false)
		}
	}
	if len(raw) > 0 && raw[0] == '^' && !esc[0] {
		fail("negated character classes are not supported")
	}
	for i := 0; i < len(raw); i++ {
		if i+2 < len(raw) && raw[i+1] == '-' && !esc[i+1] {
			items = append(items, item{raw[i], raw[i+2]})
			i += 2
		} else {
			items = append(items, item{raw[i], raw[i]})
		}
	}
	if len(items) == 0 {
		fail("empty character class")
	}
	mk := func(it item) *exp {
		if it.lo == it.hi {
			return &exp{op: "char", lo: it.lo}
		}
		return &exp{op: "range", lo: it.lo, hi: it.hi}
	}
	e := mk(items[len(items)-1])
	for i := len(items) - 2; i >= 0; i-- {
		e = &exp{op: "alt", kids: []*exp{mk(items[i]), e}}
	}
	return e
}

func (p *parser) primary() *exp {
	t := p.peek()
	switch t.kind {
	case "ident":
		p.pos++
		return &exp{op: "nt", s: t.text}
	case "lit":
		p.pos++
		return &exp{op: "lit", s: t.text}
	case "class":
		p.pos++
		return classExp(t.text)
	case "dot":
		p.pos++
		return &exp{op: "any"}
	case "lpar":
		p.pos++
		e := p.alt()
		if p.peek().kind != "rpar" {
			fail("expected ')' at token %d", p.pos)
		}
		p.pos++
		return e
	case "lt":
		p.pos++
		e := p.alt()
		if p.peek().kind != "gt" {
			fail("expected '>' at token %d", p.pos)
		}
		p.pos++
		return &exp{op: "cap", kids: []*exp{e}}
	}
	fail("unexpected token %q (%s) at %d", t.text, t.kind, p.pos)
	return nil
}

func byteTerm(c byte) string {
	return fmt.Sprintf("x%02x", c)
}

func (p *parser) coq(e *exp) string {
	switch e.op {
	case "eps":
		return "PEps"
	case "any":
		return "PAny"
	case "char":
		return "PChar " + byteTerm(e.lo)
	case "range":
		return "PRange " + byteTerm(e.lo) + " " + byteTerm(e.hi)
	case "lit":
		return "PLit " + coqfmt.Bytes(e.s)
	case "nt":
		idx, ok := p.rules[e.s]
		if !ok {
			fail("undefined rule %s", e.s)
		}
		return fmt.Sprintf("PNT %d (* %s *)", idx, e.s)
	case "seq":
		return "PSeq (" + p.coq(e.kids[0]) + ") (" + p.coq(e.kids[1]) + ")"
	case "alt":
		return "PAlt (" + p.coq(e.kids[0]) + ") (" + p.coq(e.kids[1]) + ")"
	case "star":
		return "PStar (" + p.coq(e.kids[0]) + ")"
	case "plus":
		return "PPlus (" + p.coq(e.kids[0]) + ")"
	case "opt":
		return "POpt (" + p.coq(e.kids[0]) + ")"
	case "not":
		return "PNot (" + p.coq(e.kids[0]) + ")"
	case "and":
		return "PAnd (" + p.coq(e.kids[0]) + ")"
	case "cap":
		return "PCap (" + p.coq(e.kids[0]) + ")"
	}
	fail("internal: op %s", e.op)
	return ""
}

func main() {
	in := flag.String("in", "/repo/parser/thrift.peg", "grammar file")
	out := flag.String("out", "", "output .v file (default: stdout)")
	flag.Parse()
	b, err := os.ReadFile(*in)
	if err != nil {
		fail("%v", err)
	}
	toks := lex(string(b))
	// skip the header: package X  type Y Peg { ... }
	p := &parser{toks: toks, rules: map[string]int{}}
	for p.pos < len(toks) && !p.atRuleStart() {
		p.pos++
	}
	type rule struct {
		name string
		body *exp
	}
	var rules []rule
	start := p.pos
	// first pass: rule names
	for q := start; q+1 < len(toks); q++ {
		if toks[q].kind == "ident" && toks[q+1].kind == "arrow" {
			if _, dup := p.rules[toks[q].text]; dup {
				fail("rule %s defined twice", toks[q].text)
			}
			p.rules[toks[q].text] = len(p.rules)
		}
	}
	for p.pos < len(toks) {
		if !p.atRuleStart() {
			fail("expected a rule at token %d (%q)", p.pos, p.peek().text)
		}
		name := toks[p.pos].text
		p.pos += 2
		rules = append(rules, rule{name, p.alt()})
	}
	var sb strings.Builder
	sb.WriteString("(* Idl/PegGrammar.v — GENERATED by harness/cmd/translate-peg from /repo/parser/thrift.peg on every\n")
	sb.WriteString("   run of ./check C03; do not edit.  One entry per rule, in source order; PNT n refers to\n")
	sb.WriteString("   the n-th entry; character classes are written as ordered choices of bytes and ranges. *)\n")
	sb.WriteString("From Coq Require Import List String.\nFrom Coq.Strings Require Import Byte.\nFrom Verif Require Import Base.Bytes Idl.Peg.\nImport ListNotations.\nLocal Open Scope string_scope.\n\n")
	fmt.Fprintf(&sb, "Definition thrift_rule_count : nat := %d.\n\n", len(rules))
	sb.WriteString("Definition thrift_grammar : grammar := [\n")
	for i, r := range rules {
		sep := ";"
		if i == len(rules)-1 {
			sep = ""
		}
		fmt.Fprintf(&sb, "  (* %d *) (%s, %s)%s\n", i, coqfmt.Bytes(r.name), p.coq(r.body), sep)
	}
	sb.WriteString("].\n")
	if *out == "" {
		fmt.Print(sb.String())
		return
	}
	old, _ := os.ReadFile(*out)
	if string(old) == sb.String() {
		return
	}
	if err := os.WriteFile(*out, []byte(sb.String()), 0o644); err != nil {
		fail("%v", err)
	}
}
