(* Wire/FastBitsetFacts.v — the tests bitset.go emits fire exactly when a required field was not read, and
   name the first such field in order of addition, for EVERY number n of required fields. *)
From Coq Require Import List ZArith Bool Lia Arith.
From Verif Require Import Wire.FastBitset.
Import ListNotations.
Open Scope Z_scope.

(* ------------------------------------------------------------------ bits *)

Lemma land_pow2_eqb x b : 0 <= b -> (Z.land x (2 ^ b) =? 0) = negb (Z.testbit x b).
Proof.
  intro Hb. destruct (Z.testbit x b) eqn:E; cbn [negb].
  - apply Z.eqb_neq. intro H. assert (T : Z.testbit (Z.land x (2 ^ b)) b = true).
    { rewrite Z.land_spec, E, Z.pow2_bits_true by lia. reflexivity. }
    rewrite H, Z.bits_0 in T. discriminate.
  - apply Z.eqb_eq. apply Z.bits_inj'. intros k Hk. rewrite Z.land_spec, Z.bits_0, Z.pow2_bits_eqb by lia.
    destruct (Z.eqb_spec b k) as [->|_]; [rewrite E; reflexivity | apply andb_false_r].
Qed.

Lemma testbit_bitsvalue m b : 0 <= b -> Z.testbit (bitsvalue m) b = (b <? Z.of_nat m).
Proof.
  intro Hb. induction m as [|m IH].
  - cbn [bitsvalue]. rewrite Z.bits_0. symmetry. apply Z.ltb_ge. lia.
  - cbn [bitsvalue]. rewrite Z.lor_spec, IH, Z.pow2_bits_eqb by lia.
    destruct (Z.ltb_spec b (Z.of_nat m)), (Z.eqb_spec (Z.of_nat m) b), (Z.ltb_spec b (Z.of_nat (S m))); try reflexivity; lia.
Qed.

(* ------------------------------------------------------------------ the words after reading [seen] *)

Definition hits (n : nat) (w : nat) (b : Z) (j : nat) : bool :=
  (word_of n j =? w)%nat && (Z.of_nat (j mod varbits) =? b).

Lemma fold_testbit n seen : forall st0 w b, 0 <= b ->
  Z.testbit (fold_left (fun st i => set_word st (fst (gen_setbit n i)) (snd (gen_setbit n i))) seen st0 w) b =
  Z.testbit (st0 w) b || existsb (hits n w b) seen.
Proof.
  induction seen as [|j seen IH]; intros st0 w b Hb; cbn [fold_left existsb].
  - rewrite orb_false_r. reflexivity.
  - rewrite IH by assumption. unfold set_word, gen_setbit, hits at 2, bitvalue. cbn [fst snd].
    rewrite (Nat.eqb_sym (word_of n j) w).
    destruct (w =? word_of n j)%nat; cbn [andb].
    + rewrite Z.lor_spec, Z.pow2_bits_eqb by lia. rewrite orb_assoc. reflexivity.
    + reflexivity.
Qed.

Lemma state_testbit n seen w b : 0 <= b -> Z.testbit (state n seen w) b = existsb (hits n w b) seen.
Proof. intro Hb. unfold state. rewrite fold_testbit by assumption. rewrite Z.bits_0. reflexivity. Qed.

Lemma word_bit_inj n i j : (i < n)%nat -> (j < n)%nat ->
  hits n (word_of n i) (Z.of_nat (i mod varbits)) j = (i =? j)%nat.
Proof.
  intros Hi Hj. unfold hits, word_of, multi, varbits.
  destruct (Nat.eqb_spec i j) as [->|Hne].
  - rewrite Nat.eqb_refl, Z.eqb_refl. reflexivity.
  - apply andb_false_iff. destruct (8 <? n)%nat eqn:Em.
    + destruct (Nat.eqb_spec (j / 8) (i / 8)) as [Ed|]; [|left; reflexivity]. right.
      apply Z.eqb_neq. intro Em8. apply Hne.
      rewrite (Nat.div_mod i 8), (Nat.div_mod j 8) by lia. lia.
    + apply Nat.ltb_ge in Em. right. apply Z.eqb_neq. rewrite !Nat.mod_small by lia. lia.
Qed.

Lemma test_fires n seen i : (i < n)%nat -> Forall (fun j => (j < n)%nat) seen ->
  (Z.land (state n seen (word_of n i)) (bitvalue i) =? 0) = negb (existsb (Nat.eqb i) seen).
Proof.
  intros Hi Hs. unfold bitvalue. rewrite land_pow2_eqb by lia. rewrite state_testbit by lia. f_equal.
  induction Hs as [|j seen Hj _ IH]; [reflexivity|]. cbn [existsb]. rewrite IH, word_bit_inj by assumption. reflexivity.
Qed.

Lemma run_tests_range n seen lo hi : (hi <= n)%nat -> Forall (fun j => (j < n)%nat) seen ->
  run_tests (state n seen) (tests_range n lo hi) =
  find (fun i => negb (existsb (Nat.eqb i) seen)) (seq lo (hi - lo)).
Proof.
  intros Hhi Hs. unfold tests_range. remember (hi - lo)%nat as len eqn:Hl. revert lo Hl.
  induction len as [|len IH]; intros lo Hl; [reflexivity|].
  cbn [seq map run_tests find]. rewrite test_fires by (assumption || lia).
  destruct (negb (existsb (Nat.eqb lo) seen)); [reflexivity|]. apply IH. lia.
Qed.

(* ------------------------------------------------------------------ the guards are shortcuts *)

Definition tests_of (b : block) : list test := match b with Guarded _ _ ts | Plain ts => ts end.

(* a guard `isset[w] != bitsvalue m` around tests of bits below m of the same word *)
Definition well_guarded (n : nat) (b : block) : Prop :=
  match b with
  | Plain _ => True
  | Guarded w c ts => exists lo hi m, ts = tests_range n lo hi /\ c = bitsvalue m /\
                        forall i, (lo <= i < hi)%nat -> word_of n i = w /\ (i mod varbits < m)%nat
  end.

Lemma guard_sound n st b : well_guarded n b -> run_block st b = run_tests st (tests_of b).
Proof.
  destruct b as [w c ts|ts]; [|reflexivity]. intros (lo & hi & m & -> & -> & H). cbn [run_block tests_of].
  destruct (Z.eqb_spec (st w) (bitsvalue m)) as [E|_]; [|reflexivity]. symmetry.
  unfold tests_range. remember (hi - lo)%nat as len eqn:Hl. revert lo Hl H.
  induction len as [|len IH]; intros lo Hl H; [reflexivity|].
  cbn [seq map run_tests]. destruct (H lo ltac:(lia)) as [Hw Hb]. rewrite Hw, E. unfold bitvalue.
  rewrite land_pow2_eqb, testbit_bitsvalue by lia.
  destruct (Z.ltb_spec (Z.of_nat (lo mod varbits)) (Z.of_nat m)); [|lia]. cbn [negb].
  apply IH; [lia|]. intros i Hi. apply H. lia.
Qed.

Lemma run_flat n st p : Forall (well_guarded n) p -> run st p = run_tests st (flat_map tests_of p).
Proof.
  induction 1 as [|b p Hb _ IH]; [reflexivity|]. cbn [run flat_map]. rewrite (guard_sound n st b Hb), IH.
  induction (tests_of b) as [|[w mask v] ts IHt]; [reflexivity|]. cbn [app run_tests].
  destruct (Z.land (st w) mask =? 0); [reflexivity | exact IHt].
Qed.

Lemma tests_range_app n lo mid hi : (lo <= mid <= hi)%nat ->
  tests_range n lo mid ++ tests_range n mid hi = tests_range n lo hi.
Proof.
  intro H. unfold tests_range. rewrite <- map_app. f_equal.
  replace (hi - lo)%nat with ((mid - lo) + (hi - mid))%nat by lia. rewrite seq_app. do 2 f_equal. lia.
Qed.

Lemma full_words_spec n : (varbits < n)%nat -> forall fuel i,
  (i mod varbits = 0)%nat -> (i < n)%nat -> (n - i <= varbits * fuel)%nat ->
  let (bs, j) := full_words fuel i n in
  (j mod varbits = 0)%nat /\ (i <= j < n)%nat /\ (n <= j + varbits)%nat /\
  flat_map tests_of bs = tests_range n i j /\ Forall (well_guarded n) bs.
Proof.
  intro Hn. unfold varbits in *. induction fuel as [|fuel IH]; intros i Hi Hlt Hf; [lia|].
  cbn [full_words]. unfold varbits. destruct (Nat.ltb_spec (i + 8) n) as [Hc|Hc].
  - specialize (IH (i + 8)%nat). destruct (full_words fuel (i + 8) n) as [bs j].
    destruct IH as (H1 & H2 & H3 & H4 & H5); [rewrite Nat.add_mod, Hi by lia; reflexivity | lia | lia|].
    split; [exact H1|]. split; [lia|]. split; [exact H3|]. split.
    + cbn [flat_map tests_of]. rewrite H4. apply tests_range_app. lia.
    + constructor; [|exact H5]. exists i, (i + 8)%nat, 8%nat. split; [reflexivity|]. split; [reflexivity|].
      intros k Hk. unfold word_of, multi, varbits. destruct (Nat.ltb_spec 8 n); [|lia]. split.
      * assert (E : (i = 8 * (i / 8))%nat) by (pose proof (Nat.div_mod i 8); lia).
        symmetry. apply (Nat.div_unique k 8 (i / 8) (k - i)); lia.
      * apply Nat.mod_upper_bound. lia.
  - split; [exact Hi|]. split; [lia|]. split; [lia|]. split; [|constructor].
    cbn [flat_map]. unfold tests_range. rewrite Nat.sub_diag. reflexivity.
Qed.

(* ------------------------------------------------------------------ the theorem *)

Theorem gen_if_not_set_spec n seen : Forall (fun j => (j < n)%nat) seen ->
  run (state n seen) (gen_if_not_set n) = first_unset n seen.
Proof.
  intro Hs. unfold gen_if_not_set, first_unset.
  destruct (Nat.eqb_spec n 0) as [->|Hn0]; [reflexivity|].
  destruct (multi n) eqn:Em; cbn [negb].
  - unfold multi in Em. apply Nat.ltb_lt in Em.
    pose proof (full_words_spec n Em n 0 ltac:(reflexivity) ltac:(lia) ltac:(unfold varbits; lia)) as H.
    destruct (full_words n 0 n) as [bs j]. destruct H as (H1 & H2 & H3 & H4 & H5).
    destruct (Nat.ltb_spec j n) as [_|]; [|lia].
    rewrite (run_flat n).
    + rewrite flat_map_app, H4.
      assert (E : flat_map tests_of [if (varbits / 2 <? n mod varbits)%nat
                                     then Guarded (j / varbits) (bitsvalue (n mod varbits)) (tests_range n j n)
                                     else Plain (tests_range n j n)] = tests_range n j n)
        by (destruct (varbits / 2 <? n mod varbits)%nat; cbn [flat_map tests_of]; apply app_nil_r).
      rewrite E, tests_range_app by lia. rewrite run_tests_range by (assumption || lia). rewrite Nat.sub_0_r. reflexivity.
    + apply Forall_app. split; [exact H5|]. constructor; [|constructor].
      destruct (Nat.ltb_spec (varbits / 2) (n mod varbits)) as [Hg|]; [|exact I].
      exists j, n, (n mod varbits)%nat. split; [reflexivity|]. split; [reflexivity|].
      unfold varbits in *. intros k Hk. unfold word_of, multi, varbits. destruct (Nat.ltb_spec 8 n); [|lia].
      assert (Ej : (j = 8 * (j / 8))%nat) by (pose proof (Nat.div_mod j 8); lia).
      assert (En : (n mod 8 = n - j)%nat).
      { symmetry. apply (Nat.mod_unique n 8 (j / 8) (n - j)); [|lia].
        assert (n - j <> 8)%nat; [|lia]. intro E8. assert (n = 8 * (j / 8 + 1))%nat by lia.
        assert (n mod 8 = 0)%nat by (subst n; rewrite Nat.mul_comm; apply Nat.mod_mul; lia).
        change (8 / 2)%nat with 4%nat in Hg. lia. }
      split.
      * symmetry. apply (Nat.div_unique k 8 (j / 8) (k - j)); lia.
      * rewrite <- (Nat.mod_unique k 8 (j / 8) (k - j)); lia.
  - unfold multi in Em. apply Nat.ltb_ge in Em.
    rewrite (run_flat n).
    + assert (E : flat_map tests_of [if (varbits / 2 <? n)%nat then Guarded 0 (bitsvalue n) (tests_range n 0 n)
                                     else Plain (tests_range n 0 n)] = tests_range n 0 n)
        by (destruct (varbits / 2 <? n)%nat; cbn [flat_map tests_of]; apply app_nil_r).
      rewrite E, run_tests_range by (assumption || lia). rewrite Nat.sub_0_r. reflexivity.
    + constructor; [|constructor]. destruct (varbits / 2 <? n)%nat; [|exact I].
      exists 0%nat, n, n. split; [reflexivity|]. split; [reflexivity|]. intros k Hk.
      unfold word_of, multi. destruct (Nat.ltb_spec varbits n); [lia|]. split; [reflexivity|].
      unfold varbits in *. rewrite Nat.mod_small; lia.
Qed.

(* the generated test reports a field iff some required field was not read; it then names the first one *)
Corollary gen_if_not_set_fires_iff n seen : Forall (fun j => (j < n)%nat) seen ->
  (exists v, run (state n seen) (gen_if_not_set n) = Some v) <-> (exists i, (i < n)%nat /\ ~ In i seen).
Proof.
  intro Hs. rewrite gen_if_not_set_spec by assumption. unfold first_unset. split.
  - intros [v Hv]. apply find_some in Hv. destruct Hv as [Hin Hv]. apply in_seq in Hin. exists v. split; [lia|].
    intro Hi. apply negb_true_iff in Hv. assert (existsb (Nat.eqb v) seen = true); [|congruence].
    apply existsb_exists. exists v. split; [exact Hi | apply Nat.eqb_refl].
  - intros (i & Hi & Hni).
    destruct (find (fun i0 => negb (existsb (Nat.eqb i0) seen)) (seq 0 n)) as [v|] eqn:E; [eauto|].
    exfalso. pose proof (find_none _ _ E i ltac:(apply in_seq; lia)) as Hf. cbn beta in Hf.
    apply negb_false_iff in Hf. apply existsb_exists in Hf.
    destruct Hf as (x & Hx & Hex). apply Nat.eqb_eq in Hex. subst x. contradiction.
Qed.
