(* Mask/FrameFacts.v — paths that do not conflict pairwise (Spec.compat2) stay compatible with
   the mask while the others are inserted; the answers of a mask built from a list. *)
From Coq Require Import List Bool ZArith Lia Permutation.
From Coq.Strings Require Import Byte.
From Verif Require Import Base.Bytes Mask.Path Mask.Desc Mask.Trie Mask.Spec Mask.TrieFacts Mask.SemFacts.
Import ListNotations.

Definition same_kind (a b : gseg) : bool :=
  match a, b with
  | GFld _ _, GFld _ _ | GInts _ _, GInts _ _ | GStrs _ _, GStrs _ _ | GStar _, GStar _ => true
  | _, _ => false
  end.

Lemma disjointb_map {A} (eqa : A -> A -> bool) (f : A -> key) x y :
  (forall a b, key_eqb (f a) (f b) = eqa a b) ->
  disjointb key_eqb (map f x) (map f y) = disjointb eqa x y.
Proof.
  intro H. unfold disjointb.
  assert (forall a, existsb (key_eqb (f a)) (map f y) = existsb (eqa a) y) as E.
  { intro a. induction y as [|b y IHy]; [reflexivity|]. cbn [map existsb]. rewrite H, IHy. reflexivity. }
  induction x as [|a x IH]; [reflexivity|]. cbn [map forallb]. rewrite IH, E. reflexivity.
Qed.

Lemma compat2_keys s a s2 b :
  compat2 (s :: a) (s2 :: b) =
  same_kind s s2 &&
  (if disjointb key_eqb (gkeys s) (gkeys s2) then true else ft_eqb (gft s) (gft s2) && compat2 a b).
Proof.
  destruct s, s2; cbn [compat2 same_kind gkeys gft andb]; try reflexivity.
  - unfold disjointb. cbn. destruct (id =? id0)%Z; reflexivity.
  - rewrite (disjointb_map Z.eqb KI); [reflexivity | reflexivity].
  - rewrite (disjointb_map beqb KS); [reflexivity | reflexivity].
Qed.

Lemma ft_eqb_eq a b : ft_eqb a b = true -> a = b.
Proof. destruct a, b; cbn; congruence. Qed.
Lemma ft_eqb_refl a : ft_eqb a a = true.
Proof. destruct a; reflexivity. Qed.

Lemma nokall_put k c cur : k <> KAll -> nokall (put k c cur) = nokall cur.
Proof. intro H. unfold nokall. rewrite m_kids_put, klookup_kupsert_other by assumption. reflexivity. Qed.

Lemma disjointb_false_in (x y : list key) :
  disjointb key_eqb x y = true -> forall k, In k x -> In k y -> False.
Proof.
  unfold disjointb. rewrite forallb_forall. intros H k Hx Hy. specialize (H k Hx).
  rewrite negb_true_iff in H. assert (existsb (key_eqb k) y = true) as X.
  { apply existsb_exists. exists k. split; [exact Hy | apply key_eqb_refl]. }
  congruence.
Qed.

(* inserting the key group ks (typed t, rest r) keeps a second group ks2 (typed u, rest r2) acceptable *)
Lemma frame_keys ks t r ks2 u r2 :
  ok_ft t = true ->
  (disjointb key_eqb ks ks2 = true \/
   (t = u /\ forall c, compat r c = true -> compat r2 c = true -> compat r2 (ins r c) = true)) ->
  forall cur,
  nodupb key_eqb ks = true -> (forall k, In k ks -> k <> KAll) ->
  forallb (fun k => sub_ok k t (compat r) cur) ks = true ->
  forallb (fun k => sub_ok k u (compat r2) cur) ks2 = true ->
  forallb (fun k => sub_ok k u (compat r2) (ins_keys ks t (ins r) cur)) ks2 = true /\
  nokall (ins_keys ks t (ins r) cur) = nokall cur.
Proof.
  intros Ht Hcase. induction ks as [|k0 ks IH]; intros cur Hnd Hna H1 H2; [split; [exact H2 | reflexivity]|].
  cbn [forallb] in H1. rewrite andb_true_iff in H1. destruct H1 as [Hk Hrest].
  apply nodupb_cons in Hnd. destruct Hnd as [Hne Hnd].
  set (cur1 := child_ins k0 t (ins r) cur).
  assert (forallb (fun k1 => sub_ok k1 t (compat r) cur1) ks = true) as Hrest1.
  { rewrite forallb_forall in *. intros k' Hin. unfold cur1, child_ins. rewrite sub_ok_put_other; auto. }
  assert (forallb (fun k => sub_ok k u (compat r2) cur1) ks2 = true) as H21.
  { rewrite forallb_forall in *. intros k2 Hin2. specialize (H2 k2 Hin2).
    destruct (key_eqb k0 k2) eqn:E.
    - apply key_eqb_eq in E. subst k2.
      destruct Hcase as [Hd|[Htu Hfr]].
      + exfalso. eapply disjointb_false_in; [exact Hd | left; reflexivity | exact Hin2].
      + subst u. destruct (sub_ok_slot _ _ _ _ Hk Ht) as [HP [Hty Hlv]].
        destruct (sub_ok_slot _ _ _ _ H2 Ht) as [HP2 _].
        unfold cur1, child_ins, sub_ok. rewrite m_kids_put, klookup_kupsert_same.
        rewrite ins_live, Hlv, ins_typ, Hty, ft_eqb_refl. cbn [andb]. apply Hfr; assumption.
    - apply key_eqb_neq in E. unfold cur1, child_ins. rewrite sub_ok_put_other; auto. }
  assert (disjointb key_eqb ks ks2 = true \/
          (t = u /\ forall c, compat r c = true -> compat r2 c = true -> compat r2 (ins r c) = true)) as Hcase1.
  { destruct Hcase as [Hd|X]; [left|right; exact X]. unfold disjointb in *. cbn [forallb] in Hd.
    rewrite andb_true_iff in Hd. tauto. }
  assert (forall k, In k ks -> k <> KAll) as Hna1 by (intros; apply Hna; right; assumption).
  destruct (IH Hcase1 cur1 Hnd Hna1 Hrest1 H21) as [A B].
  change (ins_keys (k0 :: ks) t (ins r) cur) with (ins_keys ks t (ins r) cur1).
  split; [exact A|]. rewrite B. unfold cur1, child_ins. apply nokall_put. apply Hna. left; reflexivity.
Qed.

Lemma star_state_put_all c cur : star_state cur = true -> star_state (put KAll c (set_isall cur true)) = true.
Proof.
  intro H. destruct (star_state_cases _ H) as [[_ Hk]|[_ [a Hk]]]; unfold star_state; rewrite m_kids_put;
  cbn [set_isall m_kids]; rewrite Hk; reflexivity.
Qed.

Theorem compat_frame : forall g g2 cur,
  compat g cur = true -> compat g2 cur = true -> compat2 g g2 = true -> compat g2 (ins g cur) = true.
Proof.
  induction g as [|s r IH]; intros g2 cur Hc Hc2 H2.
  - destruct g2; [|cbn in H2; discriminate]. cbn [ins compat] in *. exact Hc.
  - destruct g2 as [|s2 r2]; [destruct s; cbn in H2; discriminate|].
    rewrite compat2_keys, andb_true_iff in H2. destruct H2 as [Hsk Hdis].
    pose proof (compat_keys_nodup _ _ _ Hc) as Hnd.
    assert (Hcase : disjointb key_eqb (gkeys s) (gkeys s2) = true \/
              (gft s = gft s2 /\ forall c, compat r c = true -> compat r2 c = true -> compat r2 (ins r c) = true)).
    { destruct (disjointb key_eqb (gkeys s) (gkeys s2)); [left; reflexivity|right].
      rewrite andb_true_iff in Hdis. destruct Hdis as [E X]. split; [apply ft_eqb_eq; exact E|].
      intros c A B. apply IH; assumption. }
    cbn [compat] in Hc, Hc2. rewrite !andb_true_iff in Hc, Hc2.
    destruct Hc as [[Ht Hst] Hall]. destruct Hc2 as [[Ht2 Hst2] Hall2].
    destruct (is_gstar s) eqn:Hs.
    + (* star on star *)
      assert (is_gstar s2 = true) as Hs2 by (destruct s, s2; try discriminate; reflexivity).
      assert (exists t u, s = GStar t /\ s2 = GStar u) as [t [u [-> ->]]]
        by (destruct s, s2; try discriminate; eauto).
      cbn [gkeys gft is_gstar forallb] in *. rewrite andb_true_r in Hall, Hall2.
      destruct Hcase as [Hd|[Htu Hfr]]; [discriminate|]. subst u.
      cbn [ins compat gkeys gft is_gstar forallb]. unfold ins_keys. cbn [fold_left]. unfold child_ins.
      rewrite Ht2, star_state_put_all, andb_true_r by exact Hst. cbn [andb].
      rewrite <- sub_ok_set_isall with (a := true) in Hall, Hall2.
      destruct (sub_ok_slot _ _ _ _ Hall Ht) as [HP [Hty Hlv]].
      destruct (sub_ok_slot _ _ _ _ Hall2 Ht) as [HP2 _].
      unfold sub_ok. rewrite m_kids_put, klookup_kupsert_same.
      rewrite ins_live, Hlv, ins_typ, Hty, ft_eqb_refl. cbn [andb]. rewrite ?andb_true_r. apply Hfr; assumption.
    + (* explicit keys on explicit keys *)
      assert (is_gstar s2 = false) as Hs2 by (destruct s, s2; try discriminate; reflexivity).
      assert (m_isall cur = false /\ nokall cur = true) as [Ha Hnk].
      { destruct s; try discriminate; rewrite !andb_true_iff, negb_true_iff in Hst; tauto. }
      destruct (frame_keys (gkeys s) (gft s) r (gkeys s2) (gft s2) r2 Ht Hcase cur Hnd (gkeys_not_all s Hs) Hall Hall2) as [A B].
      cbn [ins compat]. rewrite Hs, Ht2, A, andb_true_r. cbn [andb].
      assert (negb (m_isall (ins_keys (gkeys s) (gft s) (ins r) cur)) && nokall (ins_keys (gkeys s) (gft s) (ins r) cur) = true) as X
        by (rewrite ins_keys_isall, Ha, B, Hnk; reflexivity).
      destruct s2; try discriminate; rewrite !andb_true_iff in Hst2 |- *; rewrite andb_true_iff in X; tauto.
Qed.

(* ------------------------------------------------------------------ a list of paths *)

Definition ins_all (gs : list gpath) (cur : mask) : mask := fold_left (fun c g => ins g c) gs cur.

Lemma ins_all_step b : forall gs cur,
  no_conflict gs = true -> forallb (fun g => compat g cur) gs = true -> inv b cur = true ->
  inv b (ins_all gs cur) = true /\
  (b = false -> forall q, walk (Some (ins_all gs cur)) q = walk (Some cur) q || existsb (fun g => selg g q) gs) /\
  (b = true -> forallb (fun g => nonempty g && negb (ends_with_star g)) gs = true ->
     forall q, walk (Some (ins_all gs cur)) q = walk (Some cur) q && negb (existsb (fun g => rejg g q) gs)).
Proof.
  induction gs as [|g gs IH]; intros cur Hnc Hall Hi.
  - cbn. split; [exact Hi|]. split; intros; [rewrite orb_false_r | rewrite andb_true_r]; reflexivity.
  - cbn [no_conflict] in Hnc. rewrite andb_true_iff in Hnc. destruct Hnc as [Hg Hnc].
    cbn [forallb] in Hall. rewrite andb_true_iff in Hall. destruct Hall as [Hcg Hall].
    destruct (ins_inv b g cur Hcg Hi) as [Hi1 _].
    assert (forallb (fun g0 => compat g0 (ins g cur)) gs = true) as Hall1.
    { rewrite forallb_forall in *. intros g' Hin. apply compat_frame; auto. }
    destruct (IH (ins g cur) Hnc Hall1 Hi1) as [A [W B]].
    change (ins_all (g :: gs) cur) with (ins_all gs (ins g cur)).
    split; [exact A|]. split.
    + intros -> q. rewrite (W eq_refl q), (ins_walk_white g cur Hcg Hi q). cbn [existsb]. rewrite orb_assoc. reflexivity.
    + intros -> Hne q. cbn [forallb] in Hne. rewrite !andb_true_iff, negb_true_iff in Hne. destruct Hne as [[Hn He] Hne].
      rewrite (B eq_refl Hne q), (ins_walk_black g cur Hcg Hi) by (first [destruct g; [discriminate | congruence] | exact He]).
      cbn [existsb]. rewrite negb_orb, andb_assoc. reflexivity.
Qed.

(* ------------------------------------------------------------------ compat2 is symmetric *)

Lemma disjointb_sym (x y : list key) : disjointb key_eqb x y = disjointb key_eqb y x.
Proof.
  assert (forall x y, disjointb key_eqb x y = true -> disjointb key_eqb y x = true) as H.
  { clear. intros x y H. unfold disjointb. rewrite forallb_forall. intros k Hk. rewrite negb_true_iff.
    destruct (existsb (key_eqb k) x) eqn:E; [|reflexivity]. exfalso.
    apply existsb_exists in E. destruct E as [k' [Hin E]]. apply key_eqb_eq in E. subst k'.
    eapply disjointb_false_in; eauto. }
  destruct (disjointb key_eqb x y) eqn:E1, (disjointb key_eqb y x) eqn:E2; try reflexivity.
  - apply H in E1. congruence.
  - apply H in E2. congruence.
Qed.

Lemma ft_eqb_sym a b : ft_eqb a b = ft_eqb b a.
Proof. destruct a, b; reflexivity. Qed.

Lemma compat2_sym : forall a b, compat2 a b = compat2 b a.
Proof.
  induction a as [|s a IH]; intros [|s2 b]; try reflexivity;
    try (destruct s2; reflexivity); try (destruct s; reflexivity).
  rewrite !compat2_keys, (disjointb_sym (gkeys s)), (ft_eqb_sym (gft s)), IH.
  f_equal. destruct s, s2; reflexivity.
Qed.

Lemma no_conflict_forall gs : no_conflict gs = true <->
  (forall l1 g l2 g' l3, gs = l1 ++ g :: l2 ++ g' :: l3 -> compat2 g g' = true).
Proof.
  induction gs as [|x gs IH].
  - split; [|reflexivity]. intros _ l1 g l2 g' l3 H. destruct l1; discriminate.
  - cbn [no_conflict]. rewrite andb_true_iff, IH, forallb_forall. split.
    + intros [H1 H2] l1 g l2 g' l3 E. destruct l1 as [|y l1]; cbn in E; injection E as -> ->.
      * apply H1. apply in_or_app. right. left. reflexivity.
      * eapply H2. reflexivity.
    + intros H. split.
      * intros g' Hin. apply in_split in Hin. destruct Hin as [l2 [l3 ->]]. apply (H [] x l2 g' l3). reflexivity.
      * intros l1 g l2 g' l3 ->. apply (H (x :: l1) g l2 g' l3). reflexivity.
Qed.

Lemma no_conflict_perm gs gs' : Permutation gs gs' -> no_conflict gs = true -> no_conflict gs' = true.
Proof.
  induction 1 as [|x l l' HP IH|x y l|l l' l'' _ IH1 _ IH2]; intro H.
  - reflexivity.
  - cbn [no_conflict] in *. rewrite andb_true_iff in *. destruct H as [H1 H2]. split; [|auto].
    rewrite forallb_forall in *. intros g Hg. apply H1. eapply Permutation_in; [apply Permutation_sym; exact HP | exact Hg].
  - cbn [no_conflict forallb] in *. rewrite !andb_true_iff in *. destruct H as [[H1 H2] [H3 H4]].
    rewrite compat2_sym. tauto.
  - auto.
Qed.
