(* Wire/UnknownDomain.v — when code generated with keep_unknown_fields can WRITE the object it holds
   (property C09).  X.Write refuses an object in exactly two ways that depend on the data: a union
   that does not have exactly one DECLARED member set (members kept in the unknown buffer are not
   counted: generated CountSetFields), and a set with two elements that reflect.DeepEqual makes equal
   (validate_set).  [writable e t x] says that neither occurs anywhere inside x
   (slots that Write does not emit are not looked at).  No proofs in this file.

     writable e t x          x (an object of keep-aware code, of type t) passes the two checks everywhere
     opt_defaults_ok o n     schema side of the domain: declared defaults of optional fields survive old -> new
     keep_accepts o n so sn v   the decidable hypothesis of the total keep theorems: the object the
                             old code holds after reading what the new code wrote for v is writable *)
From Coq Require Import List ZArith Bool.
From Verif Require Import Base.Bytes Wire.TType Wire.WVal Wire.Schema Wire.Value Wire.Std Wire.Unknown.
Import ListNotations.
Open Scope Z_scope.

(* exact equality of values (entry order included) *)
Fixpoint value_eqb (a b : value) {struct a} : bool :=
  match a, b with
  | VBool x, VBool y => Bool.eqb x y
  | VInt x, VInt y | VDbl x, VDbl y => x =? y
  | VStr x, VStr y | VBin x, VBin y => beqb x y
  | VNil, VNil => true
  | VSome x, VSome y => value_eqb x y
  | VList la, VList lb =>
      (fix go (la lb : list value) : bool :=
         match la, lb with
         | [], [] => true
         | x :: ra, y :: rb => value_eqb x y && go ra rb
         | _, _ => false end) la lb
  | VStruct la, VStruct lb =>
      (fix go (la lb : list (Z * value)) : bool :=
         match la, lb with
         | [], [] => true
         | (i, x) :: ra, (j, y) :: rb => (i =? j) && value_eqb x y && go ra rb
         | _, _ => false end) la lb
  | VMap la, VMap lb =>
      (fix go (la lb : list (value * value)) : bool :=
         match la, lb with
         | [], [] => true
         | (k, x) :: ra, (k', y) :: rb => value_eqb k k' && value_eqb x y && go ra rb
         | _, _ => false end) la lb
  | _, _ => false
  end.

(* schema side of the keep theorems' domain.  A fresh NewX() object of the old code may hold an
   optional field that already counts as set (an optional field with a container default: the slice /
   map is not nil); the old code then writes that default although the new code never sent the field.
   That is harmless exactly when the new code reads what the old code writes for the default back as
   the default it would have put there itself; default_ok checks this by running the two models on the
   declared default (fields whose fresh content is not "set" pass trivially: opt_init_unset). *)
Definition default_ok (o n : env) (f : field) : bool :=
  negb (is_optional f) || negb (isset f (init_slot f)) ||
  match to_wk o (f_ty f) (init_slot f) with
  | KOk w => match from_w n (f_ty f) w with
             | Ok v => value_eqb v (init_slot f)
             | Err _ => false end
  | KErr _ => false
  end.

Definition opt_defaults_ok (o n : env) : bool :=
  forallb (fun s => forallb (default_ok o n) (s_fields s)) (structs o).

Fixpoint writable (e : env) (t : ty) (x : value) {struct x} : bool :=
  match x with
  | VList l =>
      match t with
      | TList a => forallb (writable e a) l
      | TSet a => negb (set_has_dup l) && forallb (writable e a) l
      | _ => true end
  | VMap kvs =>
      match t with
      | TMap a b => forallb (fun kv => writable e a (fst kv) && writable e b (snd kv)) kvs
      | _ => true end
  | VStruct fs =>
      match t with
      | TRef n =>
        match find_struct e n with
        | Some s =>
            (if is_union s then (count_set (s_fields s) (tl fs) =? 1)%nat else true) &&
            forallb (fun p => match find_field (fst p) (s_fields s) with
                              | Some f => negb (present f (snd p)) || writable e (f_ty f) (snd p)
                              | None => true end) fs
        | None => true end
      | _ => true end
  | VSome y => writable e t y
  | _ => true
  end.

Definition keep_accepts (o n : env) (so sn : sschema) (v : value) : bool :=
  match to_wire n sn v with
  | Ok w => match read_new_keep o so w with
            | KOk x => writable o (TRef (s_name so)) x
            | KErr _ => false end
  | Err _ => false
  end.
