(* Mask/PimFacts.v — GetPath / PathInMask on paths without star and with single keys:
   the answer is the answer of the query walk along the path, hence (on the domain) what
   the path set prescribes. *)
From Coq Require Import List Bool ZArith Lia.
From Coq.Strings Require Import Byte.
From Verif Require Import Base.Bytes Mask.Path Mask.Desc Mask.Trie Mask.Spec Mask.TrieFacts Mask.SemFacts
     Mask.FrameFacts Mask.RefineFacts Mask.C14Facts.
Import ListNotations.

(* ------------------------------------------------------------------ descriptors with unique field ids *)

Lemma lookup_in_env (env : senv) n fs : lookup n env = Some fs -> In (n, fs) env.
Proof. apply lookup_In. Qed.

Lemma field_by_id_in fs id x : field_by_id fs id = Some x -> In x fs /\ f_id x = id.
Proof.
  induction fs as [|f r IH]; cbn; [discriminate|]. destruct (f_id f =? id)%Z eqn:E.
  - intros [= <-]. apply Z.eqb_eq in E. auto.
  - intro H. destruct (IH H). auto.
Qed.

Lemma field_by_name_in fs n x : field_by_name fs n = Some x -> In x fs.
Proof.
  induction fs as [|f r IH]; cbn; [discriminate|]. destruct (beqb (f_name f) n); [intros [= <-]; auto | auto].
Qed.

Lemma field_by_id_unique fs x : nodupb Z.eqb (map f_id fs) = true -> In x fs -> field_by_id fs (f_id x) = Some x.
Proof.
  induction fs as [|f r IH]; intros Hnd Hin; [destruct Hin|].
  cbn [map nodupb] in Hnd. rewrite andb_true_iff, negb_true_iff in Hnd. destruct Hnd as [H1 H2].
  cbn [field_by_id]. destruct Hin as [->|Hin]; [rewrite Z.eqb_refl; reflexivity|].
  destruct (f_id f =? f_id x)%Z eqn:E; [|auto]. exfalso. apply Z.eqb_eq in E.
  assert (existsb (Z.eqb (f_id f)) (map f_id r) = true) as X.
  { apply existsb_exists. exists (f_id x). split; [apply in_map; exact Hin | apply Z.eqb_eq; exact E]. }
  congruence.
Qed.

Lemma struct_fields_nodup env d fs : env_ok env = true -> struct_fields env d = Some fs -> nodupb Z.eqb (map f_id fs) = true.
Proof.
  intros He Hs. destruct d; cbn in Hs; try discriminate. apply lookup_in_env in Hs.
  unfold env_ok in He. rewrite forallb_forall in He. exact (He _ Hs).
Qed.

(* ------------------------------------------------------------------ masks typed by a descriptor *)

Definition child_ty (env : senv) (d : ty) (k : key) : option ty :=
  match k with
  | KF id => match struct_fields env d with
             | Some fs => option_map f_ty (field_by_id fs id)
             | None => None
             end
  | KS _ => option_map snd (map_kv d)
  | KI _ | KAll => match list_elem d with
                   | Some e => Some e
                   | None => option_map snd (map_kv d)
                   end
  end.

Fixpoint kforall (Q : key -> mask -> bool) (l : list (key * mask)) : bool :=
  match l with
  | [] => true
  | (k, c) :: r => Q k c && kforall Q r
  end.

Lemma kforall_klookup Q l k c : kforall Q l = true -> klookup k l = Some c -> Q k c = true.
Proof.
  induction l as [|[k' c'] r IH]; cbn; [discriminate|]. rewrite andb_true_iff. intros [H1 H2].
  destruct (key_eqb k k') eqn:E; [|auto]. apply key_eqb_eq in E. subst. intros [= <-]. exact H1.
Qed.

Lemma kforall_kupsert Q l k c : kforall Q l = true -> Q k c = true -> kforall Q (kupsert k c l) = true.
Proof.
  intros H Hc. induction l as [|[k' c'] r IH]; cbn; [rewrite Hc; reflexivity|].
  cbn in H. rewrite andb_true_iff in H. destruct H as [H1 H2].
  destruct (key_eqb k k'); cbn; [rewrite Hc, H2; reflexivity | rewrite H1, IH; auto].
Qed.

(* every node carries the mask type of its descriptor; no star child below a struct *)
Fixpoint mtyped (env : senv) (m : mask) (d : ty) : bool :=
  match m with
  | Node t _ _ ks =>
      ft_eqb t (switch_ft env d) &&
      (fix go (l : list (key * mask)) : bool :=
         match l with
         | [] => true
         | (k, c) :: r => match child_ty env d k with Some d' => mtyped env c d' | None => false end && go r
         end) ks
  end.

Definition tyQ (env : senv) (d : ty) (k : key) (c : mask) : bool :=
  match child_ty env d k with Some d' => mtyped env c d' | None => false end.

Lemma mtyped_unfold env m d :
  mtyped env m d = ft_eqb (m_typ m) (switch_ft env d) && kforall (tyQ env d) (m_kids m).
Proof.
  destruct m as [t a b ks]. cbn [mtyped m_typ m_kids]. f_equal.
  induction ks as [|[k c] r IH]; [reflexivity|]. cbn [kforall]. unfold tyQ at 1. rewrite IH. reflexivity.
Qed.

Lemma mtyped_typ env m d : mtyped env m d = true -> m_typ m = switch_ft env d.
Proof. rewrite mtyped_unfold, andb_true_iff. intros [H _]. apply ft_eqb_eq. exact H. Qed.

Lemma mtyped_fresh env d b : mtyped env (fresh (switch_ft env d) b) d = true.
Proof. rewrite mtyped_unfold. cbn. rewrite ft_eqb_refl. reflexivity. Qed.

Lemma mtyped_set_isall env m d a : mtyped env (set_isall m a) d = mtyped env m d.
Proof. rewrite !mtyped_unfold. reflexivity. Qed.

Lemma mtyped_put env cur d k c d' :
  mtyped env cur d = true -> child_ty env d k = Some d' -> mtyped env c d' = true -> mtyped env (put k c cur) d = true.
Proof.
  rewrite (mtyped_unfold env cur d), (mtyped_unfold env (put k c cur) d), !andb_true_iff. intros [H1 H2] Hk Hc. rewrite m_typ_put, m_kids_put. split; [exact H1|].
  apply kforall_kupsert; [exact H2|]. unfold tyQ. rewrite Hk. exact Hc.
Qed.

Lemma mtyped_child env cur d k c :
  mtyped env cur d = true -> klookup k (m_kids cur) = Some c -> exists d', child_ty env d k = Some d' /\ mtyped env c d' = true.
Proof.
  rewrite mtyped_unfold, andb_true_iff. intros [_ H] Hk. pose proof (kforall_klookup _ _ _ _ H Hk) as X.
  unfold tyQ in X. destruct (child_ty env d k) as [d'|]; [eauto | discriminate].
Qed.

Lemma mtyped_slot env cur d k t d' :
  mtyped env cur d = true -> child_ty env d k = Some d' -> t = switch_ft env d' ->
  (match klookup k (m_kids cur) with Some c => live c | None => true end) = true ->
  mtyped env (slot k t cur) d' = true.
Proof.
  intros Hm Hk -> Hl. unfold slot. destruct (klookup k (m_kids cur)) as [c|] eqn:E.
  - rewrite Hl. destruct (mtyped_child _ _ _ _ _ Hm E) as [d2 [E2 Hc]]. congruence.
  - apply mtyped_fresh.
Qed.

(* insertion of a typed path keeps the typing (struct stars excluded) *)
Lemma sub_ok_live k t P cur : sub_ok k t P cur = true ->
  (match klookup k (m_kids cur) with Some c => live c | None => true end) = true.
Proof. unfold sub_ok. destruct (klookup k (m_kids cur)); [rewrite !andb_true_iff; tauto | reflexivity]. Qed.

Lemma ins_keys_mtyped env d d' ks t f (P : mask -> bool) :
  (forall c, P c = true -> mtyped env c d' = true -> mtyped env (f c) d' = true) ->
  t = switch_ft env d' -> ok_ft t = true ->
  (forall k, In k ks -> child_ty env d k = Some d') ->
  forall cur, mtyped env cur d = true -> nodupb key_eqb ks = true ->
  forallb (fun k => sub_ok k t P cur) ks = true ->
  mtyped env (ins_keys ks t f cur) d = true.
Proof.
  intros Hf Ht Hok Hty. induction ks as [|k ks IH]; intros cur Hm Hnd Hall; [exact Hm|].
  cbn [forallb] in Hall. rewrite andb_true_iff in Hall. destruct Hall as [Hk Hrest].
  apply nodupb_cons in Hnd. destruct Hnd as [Hne Hnd].
  destruct (sub_ok_slot _ _ _ _ Hk Hok) as [HP _].
  assert (mtyped env (slot k t cur) d' = true) as Hs
    by (eapply mtyped_slot; eauto; [apply Hty; left; reflexivity | eapply sub_ok_live; eauto]).
  change (ins_keys (k :: ks) t f cur) with (ins_keys ks t f (child_ins k t f cur)).
  apply IH.
  - intros k' Hin. apply Hty. right. exact Hin.
  - unfold child_ins. eapply mtyped_put; eauto. apply Hty. left. reflexivity.
  - exact Hnd.
  - rewrite forallb_forall in *. intros k' Hin. unfold child_ins. rewrite sub_ok_put_other; auto.
Qed.

Theorem ins_mtyped env : env_ok env = true -> forall p d g,
  elab env d p = Some g -> no_starf p = true ->
  forall cur, mtyped env cur d = true -> compat g cur = true -> mtyped env (ins g cur) d = true.
Proof.
  intros Henv. induction p as [|s p IH]; intros d g He Hns cur Hm Hc.
  - cbn in He. injection He as <-. cbn [ins]. rewrite mtyped_set_isall. exact Hm.
  - destruct s as [n|id| |ids| |ids|ss| ]; cbn [elab no_starf] in He, Hns; try discriminate Hns.
    + destruct (struct_fields env d) as [fs|] eqn:Esf; [|discriminate].
      destruct (field_by_name fs n) as [x|] eqn:Ef; [|discriminate].
      destruct (ok_ft (switch_ft env (f_ty x))) eqn:Eok; [|discriminate].
      destruct (elab env (f_ty x) p) as [g'|] eqn:Eg; [|discriminate]. injection He as <-.
      pose proof (compat_keys_nodup _ _ _ Hc) as Hnd.
      cbn [compat] in Hc. rewrite !andb_true_iff in Hc. destruct Hc as [_ Hall].
      cbn [ins is_gstar gkeys gft] in *.
      assert (forall c, compat g' c = true -> mtyped env c (f_ty x) = true -> mtyped env (ins g' c) (f_ty x) = true) as Hf
        by (intros c H1 H2; eapply IH; eauto).
      refine (ins_keys_mtyped env d (f_ty x) _ _ (ins g') (compat g') Hf eq_refl Eok _ cur Hm Hnd Hall).
      intros k [<-|[]]. cbn [child_ty]. rewrite Esf, (field_by_id_unique fs x (struct_fields_nodup _ _ _ Henv Esf) (field_by_name_in _ _ _ Ef)). reflexivity.
    + destruct (struct_fields env d) as [fs|] eqn:Esf; [|discriminate].
      destruct (field_by_id fs id) as [x|] eqn:Ef; [|discriminate].
      destruct (ok_ft (switch_ft env (f_ty x))) eqn:Eok; [|discriminate].
      destruct (elab env (f_ty x) p) as [g'|] eqn:Eg; [|discriminate]. injection He as <-.
      pose proof (compat_keys_nodup _ _ _ Hc) as Hnd.
      cbn [compat] in Hc. rewrite !andb_true_iff in Hc. destruct Hc as [_ Hall].
      cbn [ins is_gstar gkeys gft] in *.
      assert (forall c, compat g' c = true -> mtyped env c (f_ty x) = true -> mtyped env (ins g' c) (f_ty x) = true) as Hf
        by (intros c H1 H2; eapply IH; eauto).
      refine (ins_keys_mtyped env d (f_ty x) _ _ (ins g') (compat g') Hf eq_refl Eok _ cur Hm Hnd Hall).
      intros k [<-|[]]. cbn [child_ty]. rewrite Esf. destruct (field_by_id_in _ _ _ Ef) as [_ ->]. rewrite Ef. reflexivity.
    + destruct (list_elem d) as [e|] eqn:El; [|discriminate].
      destruct (ok_ft (switch_ft env e)) eqn:Eok; [|discriminate].
      destruct (elab env e p) as [g'|] eqn:Eg; [|discriminate]. injection He as <-.
      pose proof (compat_keys_nodup _ _ _ Hc) as Hnd.
      cbn [compat] in Hc. rewrite !andb_true_iff in Hc. destruct Hc as [_ Hall].
      cbn [ins is_gstar gkeys gft] in *.
      assert (forall c, compat g' c = true -> mtyped env c e = true -> mtyped env (ins g' c) e = true) as Hf
        by (intros c H1 H2; eapply IH; eauto).
      refine (ins_keys_mtyped env d e _ _ (ins g') (compat g') Hf eq_refl Eok _ cur Hm Hnd Hall).
      intros k Hin. apply in_map_iff in Hin. destruct Hin as [i [<- _]]. cbn [child_ty]. rewrite El. reflexivity.
    + destruct (list_elem d) as [e|] eqn:El; [|discriminate].
      destruct (ok_ft (switch_ft env e)) eqn:Eok; [|discriminate].
      destruct (elab env e p) as [g'|] eqn:Eg; [|discriminate]. injection He as <-.
      pose proof (compat_keys_nodup _ _ _ Hc) as Hnd.
      cbn [compat] in Hc. rewrite !andb_true_iff in Hc. destruct Hc as [_ Hall].
      cbn [ins is_gstar gkeys gft] in *.
      assert (forall c, compat g' c = true -> mtyped env c e = true -> mtyped env (ins g' c) e = true) as Hf
        by (intros c H1 H2; eapply IH; eauto).
      refine (ins_keys_mtyped env d e _ _ (ins g') (compat g') Hf eq_refl Eok _ (set_isall cur true) (eq_trans (mtyped_set_isall env cur d true) Hm) Hnd Hall).
      intros k [<-|[]]. cbn [child_ty]. rewrite El. reflexivity.
    + destruct (map_kv d) as [[kk v]|] eqn:Em; [|discriminate].
      destruct (ft_eqb (key_ft kk) FtIntMap && ok_ft (switch_ft env v)) eqn:E; [|discriminate].
      rewrite andb_true_iff in E. destruct E as [_ Eok].
      destruct (elab env v p) as [g'|] eqn:Eg; [|discriminate]. injection He as <-.
      pose proof (compat_keys_nodup _ _ _ Hc) as Hnd.
      cbn [compat] in Hc. rewrite !andb_true_iff in Hc. destruct Hc as [_ Hall].
      cbn [ins is_gstar gkeys gft] in *.
      assert (forall c, compat g' c = true -> mtyped env c v = true -> mtyped env (ins g' c) v = true) as Hf
        by (intros c H1 H2; eapply IH; eauto).
      refine (ins_keys_mtyped env d v _ _ (ins g') (compat g') Hf eq_refl Eok _ cur Hm Hnd Hall).
      intros k Hin. apply in_map_iff in Hin. destruct Hin as [i [<- _]]. cbn [child_ty]. destruct d; cbn in Em; try discriminate. injection Em as <- <-. reflexivity.
    + destruct (map_kv d) as [[kk v]|] eqn:Em; [|discriminate].
      destruct (ft_eqb (key_ft kk) FtStrMap && ok_ft (switch_ft env v)) eqn:E; [|discriminate].
      rewrite andb_true_iff in E. destruct E as [_ Eok].
      destruct (elab env v p) as [g'|] eqn:Eg; [|discriminate]. injection He as <-.
      pose proof (compat_keys_nodup _ _ _ Hc) as Hnd.
      cbn [compat] in Hc. rewrite !andb_true_iff in Hc. destruct Hc as [_ Hall].
      cbn [ins is_gstar gkeys gft] in *.
      assert (forall c, compat g' c = true -> mtyped env c v = true -> mtyped env (ins g' c) v = true) as Hf
        by (intros c H1 H2; eapply IH; eauto).
      refine (ins_keys_mtyped env d v _ _ (ins g') (compat g') Hf eq_refl Eok _ cur Hm Hnd Hall).
      intros k Hin. apply in_map_iff in Hin. destruct Hin as [i [<- _]]. cbn [child_ty]. rewrite Em. reflexivity.
    + destruct (map_kv d) as [[kk v]|] eqn:Em; [|discriminate].
      destruct (ok_ft (switch_ft env v)) eqn:Eok; [|discriminate].
      destruct (elab env v p) as [g'|] eqn:Eg; [|discriminate]. injection He as <-.
      pose proof (compat_keys_nodup _ _ _ Hc) as Hnd.
      cbn [compat] in Hc. rewrite !andb_true_iff in Hc. destruct Hc as [_ Hall].
      cbn [ins is_gstar gkeys gft] in *.
      assert (forall c, compat g' c = true -> mtyped env c v = true -> mtyped env (ins g' c) v = true) as Hf
        by (intros c H1 H2; eapply IH; eauto).
      refine (ins_keys_mtyped env d v _ _ (ins g') (compat g') Hf eq_refl Eok _ (set_isall cur true) (eq_trans (mtyped_set_isall env cur d true) Hm) Hnd Hall).
      intros k [<-|[]]. cbn [child_ty]. destruct d; cbn in Em; try discriminate. injection Em as <- <-. reflexivity.
Qed.

(* ------------------------------------------------------------------ star children have children (black lists) *)

Fixpoint allok (b : bool) (m : mask) : bool :=
  match m with
  | Node _ _ _ ks =>
      (fix go (l : list (key * mask)) : bool :=
         match l with
         | [] => true
         | (k, c) :: r => (match k with KAll => negb b || has_child c | _ => true end) && allok b c && go r
         end) ks
  end.

Definition okQ (b : bool) (k : key) (c : mask) : bool :=
  (match k with KAll => negb b || has_child c | _ => true end) && allok b c.

Lemma allok_unfold b m : allok b m = kforall (okQ b) (m_kids m).
Proof.
  destruct m as [t a bl ks]. cbn [allok m_kids].
  induction ks as [|[k c] r IH]; [reflexivity|]. cbn [kforall]. unfold okQ at 1. rewrite IH. reflexivity.
Qed.

Lemma allok_set_isall b m a : allok b (set_isall m a) = allok b m.
Proof. rewrite !allok_unfold. reflexivity. Qed.

Lemma allok_fresh b t bl : allok b (fresh t bl) = true.
Proof. reflexivity. Qed.

Lemma allok_slot b k t cur : allok b cur = true -> allok b (slot k t cur) = true.
Proof.
  intro H. unfold slot. destruct (klookup k (m_kids cur)) as [c|] eqn:E; [|reflexivity].
  rewrite allok_unfold in H. pose proof (kforall_klookup _ _ _ _ H E) as X. unfold okQ in X. rewrite andb_true_iff in X.
  destruct (live c); [tauto|]. unfold assign. rewrite allok_unfold. cbn [m_kids]. rewrite <- allok_unfold. tauto.
Qed.

Lemma ins_keys_allok b ks t f (P : mask -> bool) :
  (forall c, P c = true -> live c = true -> allok b c = true ->
             allok b (f c) = true /\ (In KAll ks -> has_child (f c) = true)) ->
  ok_ft t = true ->
  forall cur, allok b cur = true -> nodupb key_eqb ks = true ->
  forallb (fun k => sub_ok k t P cur) ks = true ->
  allok b (ins_keys ks t f cur) = true.
Proof.
  intros Hf Hok. induction ks as [|k ks IH]; intros cur Ha Hnd Hall; [exact Ha|].
  cbn [forallb] in Hall. rewrite andb_true_iff in Hall. destruct Hall as [Hk Hrest].
  apply nodupb_cons in Hnd. destruct Hnd as [Hne Hnd].
  destruct (sub_ok_slot _ _ _ _ Hk Hok) as [HP [_ Hlv]].
  destruct (Hf _ HP Hlv (allok_slot b k t cur Ha)) as [A B].
  change (ins_keys (k :: ks) t f cur) with (ins_keys ks t f (child_ins k t f cur)).
  apply IH.
  - intros c H1 H2 H3. destruct (Hf c H1 H2 H3) as [X Y]. split; [exact X | intro Hin; apply Y; right; exact Hin].
  - unfold child_ins. rewrite allok_unfold, m_kids_put. apply kforall_kupsert; [rewrite <- allok_unfold; exact Ha|].
    unfold okQ. rewrite A, andb_true_r. destruct k; try reflexivity. rewrite (B (or_introl eq_refl)). apply orb_true_r.
  - exact Hnd.
  - rewrite forallb_forall in *. intros k' Hin. unfold child_ins. rewrite sub_ok_put_other; auto.
Qed.

Theorem ins_allok b : forall g cur, compat g cur = true -> ends_with_star g = false ->
  allok b cur = true -> allok b (ins g cur) = true.
Proof.
  induction g as [|s r IH]; intros cur Hc He Ha; [cbn [ins]; rewrite allok_set_isall; exact Ha|].
  pose proof (compat_keys_nodup _ _ _ Hc) as Hnd. pose proof Hc as Hc0.
  cbn [compat] in Hc. rewrite !andb_true_iff in Hc. destruct Hc as [[Ht _] Hall].
  cbn [ins].
  assert (allok b (if is_gstar s then set_isall cur true else cur) = true) as Ha0
    by (destruct (is_gstar s); [rewrite allok_set_isall|]; exact Ha).
  assert (forallb (fun k => sub_ok k (gft s) (compat r) (if is_gstar s then set_isall cur true else cur)) (gkeys s) = true) as Hall0
    by (destruct (is_gstar s); exact Hall).
  apply (ins_keys_allok b (gkeys s) (gft s) (ins r) (compat r)); auto.
  intros c H1 H2 H3. split.
  - apply IH; auto. destruct r as [|x r']; [reflexivity|]. rewrite <- (ends_with_star_cons s (x :: r')) by discriminate. exact He.
  - intro Hin. assert (is_gstar s = true) as Hs.
    { destruct (is_gstar s) eqn:E; [reflexivity|]. exfalso. exact (gkeys_not_all s E KAll Hin eq_refl). }
    assert (r <> []) as Hr by (intro E; subst r; rewrite ends_with_star_single in He; congruence).
    apply has_child_ins; assumption.
Qed.

(* ------------------------------------------------------------------ GetPath on a single-key path *)

Definition okc (c : mask) : bool := negb (m_black c) || negb (m_isall c) || has_child c.

Lemma get_path_none env f toks d last : 0 < f -> exists r, get_path f env toks d None last = Some (r, true).
Proof. intro H. destruct f; [lia|]. destruct toks; cbn [get_path]; eauto. Qed.

(* what the sub mask returned by a passing query is *)
Lemma query_child env b c d q c' :
  inv b c = true -> allok b c = true -> mtyped env c d = true ->
  query (Some c) q = (Some c', true) ->
  exists d', child_ty env d (if m_isall c then KAll else key_of q) = Some d' /\
             mtyped env c' d' = true /\ inv b c' = true /\ allok b c' = true /\ okc c' = true.
Proof.
  intros Hi Ha Hm Hq. unfold query in Hq. rewrite (inv_live _ _ Hi) in Hq. cbn [negb] in Hq.
  rewrite allok_unfold in Ha.
  destruct (m_isall c) eqn:Eall.
  - apply pair_equal_spec in Hq. destruct Hq as [Hk _]. destruct (mtyped_child _ _ _ _ _ Hm Hk) as [d' [E1 E2]].
    destruct (inv_child _ _ _ _ Hi Hk) as [I1 _].
    pose proof (kforall_klookup _ _ _ _ Ha Hk) as X. unfold okQ in X. rewrite andb_true_iff in X. destruct X as [X1 X2].
    exists d'. repeat split; auto. unfold okc. rewrite (inv_black _ _ I1).
    destruct b; [cbn in X1; rewrite X1; apply orb_true_r | reflexivity].
  - unfold ret, get in Hq. destruct (klookup (key_of q) (m_kids c)) as [c0|] eqn:Ek;
      [|destruct (m_black c); discriminate].
    destruct (live c0) eqn:El; [|destruct (m_black c); discriminate].
    assert (c0 = c') as -> by (destruct (m_black c); congruence).
    destruct (mtyped_child _ _ _ _ _ Hm Ek) as [d' [E1 E2]].
    destruct (inv_child _ _ _ _ Hi Ek) as [I1 _].
    pose proof (kforall_klookup _ _ _ _ Ha Ek) as X. unfold okQ in X. rewrite andb_true_iff in X. destruct X as [_ X2].
    exists d'. repeat split; auto. unfold okc. rewrite (inv_black _ _ I1).
    rewrite (inv_black _ _ Hi) in Hq. destruct b; [|reflexivity]. cbn [ret] in Hq. apply pair_equal_spec in Hq. destruct Hq as [_ Hh]. rewrite Hh. apply orb_true_r.
Qed.

Lemma gscan_idx_single c i rest :
  live c = true -> okc c = true -> m_typ c = FtList ->
  gscan_idx (TLitInt i :: TIndexR :: rest) c (all_of c) (klookup KAll (m_kids c)) =
  (let (nf, ex) := query (Some c) (QI i) in if ex then Some (nf, rest) else None).
Proof.
  intros Hl Hk Ht. unfold all_of, query. rewrite Ht, Hl. cbn [negb gscan_idx].
  destruct (m_isall c) eqn:Ea.
  - unfold okc in Hk. rewrite Ea in Hk. cbn [negb orb] in Hk. rewrite orb_false_r in Hk. rewrite Hk. reflexivity.
  - unfold query. rewrite Hl, Ea. cbn [negb]. destruct (ret c (get (key_of (QI i)) c)) as [nf ex]. destruct ex; reflexivity.
Qed.

Lemma gscan_map_int c i rest :
  live c = true -> okc c = true -> m_typ c = FtIntMap ->
  gscan_map (TLitInt i :: TMapR :: rest) c (klookup KAll (m_kids c)) =
  (let (nf, ex) := query (Some c) (QI i) in if ex then Some (nf, rest) else None).
Proof.
  intros Hl Hk Ht. cbn [gscan_map]. unfold all_of. rewrite Ht.
  destruct (m_isall c) eqn:Ea.
  - unfold query. rewrite Hl, Ea. cbn [negb]. unfold okc in Hk. rewrite Ea in Hk. cbn [negb orb] in Hk. rewrite orb_false_r in Hk. rewrite Hk. reflexivity.
  - cbn [ft_eqb negb]. destruct (query (Some c) (QI i)) as [nf ex]. destruct ex; reflexivity.
Qed.

Lemma gscan_map_str c x rest :
  live c = true -> okc c = true -> m_typ c = FtStrMap ->
  gscan_map (TStr x :: TMapR :: rest) c (klookup KAll (m_kids c)) =
  (let (nf, ex) := query (Some c) (QS x) in if ex then Some (nf, rest) else None).
Proof.
  intros Hl Hk Ht. cbn [gscan_map]. unfold all_of. rewrite Ht.
  destruct (m_isall c) eqn:Ea.
  - unfold query. rewrite Hl, Ea. cbn [negb]. unfold okc in Hk. rewrite Ea in Hk. cbn [negb orb] in Hk. rewrite orb_false_r in Hk. rewrite Hk. reflexivity.
  - cbn [ft_eqb negb]. destruct (query (Some c) (QS x)) as [nf ex]. destruct ex; reflexivity.
Qed.

(* after one step: go on below the returned sub mask *)
Lemma get_path_continue env b f rest d' g' c d qk last :
  (forall c' last', mtyped env c' d' = true -> inv b c' = true -> allok b c' = true -> okc c' = true ->
      exists r, get_path f env rest d' (Some c') last' = Some (r, walk (Some c') (qkeys g'))) ->
  0 < f ->
  inv b c = true -> allok b c = true -> mtyped env c d = true ->
  (forall d2, child_ty env d (if m_isall c then KAll else key_of qk) = Some d2 -> d2 = d') ->
  exists r, (let (nf, ex) := query (Some c) qk in
             if ex then get_path f env rest d' nf last else Some (None, false)) =
            Some (r, walk (Some c) (qk :: qkeys g')).
Proof.
  intros IH Hf Hi Ha Hm Hty. rewrite walk_cons.
  destruct (query (Some c) qk) as [nf ex] eqn:Eq. cbn [fst snd].
  destruct ex; [|eexists; reflexivity]. cbn [andb].
  destruct nf as [c'|].
  - destruct (query_child env b c d qk c' Hi Ha Hm Eq) as [d2 [E1 [E2 [E3 [E4 E5]]]]].
    rewrite (Hty _ E1) in *. apply IH; assumption.
  - rewrite walk_none. apply get_path_none. exact Hf.
Qed.

Lemma struct_no_all env d fs : struct_fields env d = Some fs -> child_ty env d KAll = None.
Proof. destruct d; cbn; try discriminate. reflexivity. Qed.

Lemma child_ty_list env d e k : list_elem d = Some e -> (k = KAll \/ exists i, k = KI i) -> child_ty env d k = Some e.
Proof. intros H [->|[i ->]]; cbn [child_ty]; rewrite H; reflexivity. Qed.

Lemma child_ty_map env d kk v k : map_kv d = Some (kk, v) -> (k = KAll \/ (exists i, k = KI i) \/ exists x, k = KS x) -> child_ty env d k = Some v.
Proof.
  intros H Hk. destruct d; cbn in H; try discriminate. injection H as <- <-.
  destruct Hk as [->|[[i ->]|[x ->]]]; reflexivity.
Qed.

Theorem get_path_walk env : env_ok env = true -> forall p d g,
  elab env d p = Some g -> forallb simple_seg p = true -> wf_path p = true ->
  forall f c last b, List.length (flat_map seg_tokens p) < f ->
  mtyped env c d = true -> inv b c = true -> allok b c = true -> okc c = true ->
  exists r, get_path f env (flat_map seg_tokens p) d (Some c) last = Some (r, walk (Some c) (qkeys g)).
Proof.
  intros Henv. induction p as [|s p IH]; intros d g He Hs Hwf f c last b Hf Hm Hi Ha Hk.
  - cbn in He. injection He as <-. destruct f; [cbn in Hf; lia|]. eexists. reflexivity.
  - cbn [forallb] in Hs. rewrite andb_true_iff in Hs. destruct Hs as [Hs1 Hs].
    cbn [wf_path forallb] in Hwf. rewrite andb_true_iff in Hwf. destruct Hwf as [Hw1 Hwf].
    cbn [flat_map] in *. destruct f as [|f]; [lia|].
    pose proof (mtyped_typ _ _ _ Hm) as Hty. pose proof (inv_live _ _ Hi) as Hl.
    assert (seg_tokens s <> []) as Hne by (destruct s; cbn; discriminate).
    assert (forall d' g', elab env d' p = Some g' -> forall c' last',
              mtyped env c' d' = true -> inv b c' = true -> allok b c' = true -> okc c' = true ->
              exists r, get_path f env (flat_map seg_tokens p) d' (Some c') last' = Some (r, walk (Some c') (qkeys g'))) as IHf.
    { intros d' g' Eg c' last' H1 H2 H3 H4. eapply IH; eauto. eapply (length_app_lt (seg_tokens s)); eauto. }
    assert (0 < f) as Hf0.
    { rewrite app_length in Hf. destruct (seg_tokens s) as [|t1 [|t2 l]] eqn:Es; [congruence| |cbn in Hf; lia].
      destruct s; cbn in Es; try discriminate; injection Es as _ Es; apply app_eq_nil in Es; destruct Es; discriminate. }
    destruct s as [n|id| |ids| |ids|ss| ]; cbn [elab simple_seg] in He, Hs1; try discriminate Hs1.
    + destruct (struct_fields env d) as [fs|] eqn:Esf; [|discriminate].
      destruct (field_by_name fs n) as [x|] eqn:Ef; [|discriminate].
      destruct (ok_ft (switch_ft env (f_ty x))) eqn:Eok; [|discriminate].
      destruct (elab env (f_ty x) p) as [g'|] eqn:Eg; [|discriminate]. injection He as <-.
      rewrite (struct_fields_ft _ _ _ Esf) in Hty.
      cbn [seg_tokens app get_path qkeys]. rewrite Esf, Hty, Ef. cbn [ft_eqb negb].
      apply (get_path_continue env b f _ (f_ty x) g' c d (QF (f_id x)) (Some c) (IHf _ _ Eg) Hf0 Hi Ha Hm).
      intros d2. destruct (m_isall c); [rewrite (struct_no_all _ _ _ Esf); discriminate|].
      cbn [key_of child_ty]. rewrite Esf, (field_by_id_unique fs x (struct_fields_nodup _ _ _ Henv Esf) (field_by_name_in _ _ _ Ef)).
      cbn. congruence.
    + destruct (struct_fields env d) as [fs|] eqn:Esf; [|discriminate].
      destruct (field_by_id fs id) as [x|] eqn:Ef; [|discriminate].
      destruct (ok_ft (switch_ft env (f_ty x))) eqn:Eok; [|discriminate].
      destruct (elab env (f_ty x) p) as [g'|] eqn:Eg; [|discriminate]. injection He as <-.
      rewrite (struct_fields_ft _ _ _ Esf) in Hty.
      cbn [wf_pseg] in Hw1. rewrite andb_true_iff in Hw1. destruct Hw1 as [_ Hid].
      cbn [seg_tokens app get_path qkeys]. rewrite Esf, Hty, Hid, Ef. cbn [ft_eqb negb].
      destruct (field_by_id_in _ _ _ Ef) as [Hin Hidx].
      apply (get_path_continue env b f _ (f_ty x) g' c d (QF (f_id x)) (Some c) (IHf _ _ Eg) Hf0 Hi Ha Hm).
      intros d2. destruct (m_isall c); [rewrite (struct_no_all _ _ _ Esf); discriminate|].
      cbn [key_of child_ty]. rewrite Esf, (field_by_id_unique fs x (struct_fields_nodup _ _ _ Henv Esf) Hin).
      cbn. congruence.
    + destruct ids as [|i [|i2 ids]]; try discriminate Hs1.
      destruct (list_elem d) as [e|] eqn:El; [|discriminate].
      destruct (ok_ft (switch_ft env e)) eqn:Eok; [|discriminate].
      destruct (elab env e p) as [g'|] eqn:Eg; [|discriminate]. injection He as <-.
      rewrite (list_elem_ft env _ _ El) in Hty.
      cbn [seg_tokens map sep_by app get_path qkeys]. rewrite El, Hty. cbn [ft_eqb negb].
      rewrite (gscan_idx_single c i _ Hl Hk Hty).
      destruct (get_path_continue env b f (flat_map seg_tokens p) e g' c d (QI i) (Some c) (IHf _ _ Eg) Hf0 Hi Ha Hm) as [r Hr].
      { intros d2 H2. rewrite (child_ty_list env d e _ El) in H2; [congruence|]. destruct (m_isall c); [left; reflexivity | right; exists i; reflexivity]. }
      exists r. rewrite <- Hr. destruct (query (Some c) (QI i)) as [nf ex]. destruct ex; reflexivity.
    + destruct ids as [|i [|i2 ids]]; try discriminate Hs1.
      destruct (map_kv d) as [[kk v]|] eqn:Em; [|discriminate].
      destruct (ft_eqb (key_ft kk) FtIntMap && ok_ft (switch_ft env v)) eqn:E; [|discriminate].
      rewrite andb_true_iff in E. destruct E as [Ek Eok]. apply ft_eqb_eq in Ek.
      destruct (elab env v p) as [g'|] eqn:Eg; [|discriminate]. injection He as <-.
      rewrite (map_kv_ft env _ _ _ Em), Ek in Hty.
      cbn [seg_tokens map sep_by app get_path qkeys]. rewrite Em, Hty. cbn [ft_eqb negb orb].
      rewrite (gscan_map_int c i _ Hl Hk Hty).
      destruct (get_path_continue env b f (flat_map seg_tokens p) v g' c d (QI i) (Some c) (IHf _ _ Eg) Hf0 Hi Ha Hm) as [r Hr].
      { intros d2 H2. rewrite (child_ty_map env d kk v _ Em) in H2; [congruence|]. destruct (m_isall c); [left; reflexivity | right; left; exists i; reflexivity]. }
      exists r. rewrite <- Hr. destruct (query (Some c) (QI i)) as [nf ex]. destruct ex; reflexivity.
    + destruct ss as [|x [|x2 ss]]; try discriminate Hs1.
      destruct (map_kv d) as [[kk v]|] eqn:Em; [|discriminate].
      destruct (ft_eqb (key_ft kk) FtStrMap && ok_ft (switch_ft env v)) eqn:E; [|discriminate].
      rewrite andb_true_iff in E. destruct E as [Ek Eok]. apply ft_eqb_eq in Ek.
      destruct (elab env v p) as [g'|] eqn:Eg; [|discriminate]. injection He as <-.
      rewrite (map_kv_ft env _ _ _ Em), Ek in Hty.
      cbn [seg_tokens map sep_by app get_path qkeys]. rewrite Em, Hty. cbn [ft_eqb negb orb].
      rewrite (gscan_map_str c x _ Hl Hk Hty).
      destruct (get_path_continue env b f (flat_map seg_tokens p) v g' c d (QS x) (Some c) (IHf _ _ Eg) Hf0 Hi Ha Hm) as [r Hr].
      { intros d2 H2. rewrite (child_ty_map env d kk v _ Em) in H2; [congruence|]. destruct (m_isall c); [left; reflexivity | right; right; exists x; reflexivity]. }
      exists r. rewrite <- Hr. destruct (query (Some c) (QS x)) as [nf ex]. destruct ex; reflexivity.
Qed.

(* ------------------------------------------------------------------ built masks *)

Lemma allok_false : forall m, allok false m = true.
Proof.
  fix IH 1. intros [t a b ks]. cbn [allok].
  induction ks as [|[k c] r IHr]; [reflexivity|]. rewrite (IH c), IHr. destruct k; reflexivity.
Qed.

Lemma ins_all_mtyped env d : env_ok env = true -> forall ps gs,
  elab_all env d ps = Some gs -> forallb no_starf ps = true -> no_conflict gs = true ->
  forall cur, mtyped env cur d = true -> forallb (fun g => compat g cur) gs = true ->
  mtyped env (ins_all gs cur) d = true.
Proof.
  intros Henv. induction ps as [|p ps IH]; intros gs He Hns Hnc cur Hm Hall.
  - cbn in He. injection He as <-. exact Hm.
  - destruct (elab_all_cons _ _ _ _ _ He) as [g [gs' [-> [Hg Hgs]]]].
    cbn [forallb] in Hns, Hall. rewrite andb_true_iff in Hns, Hall. destruct Hns as [Hn1 Hns]. destruct Hall as [Hcg Hall].
    cbn [no_conflict] in Hnc. rewrite andb_true_iff in Hnc. destruct Hnc as [Hg2 Hnc].
    change (ins_all (g :: gs') cur) with (ins_all gs' (ins g cur)).
    apply (IH gs' Hgs Hns Hnc).
    + eapply ins_mtyped; eauto.
    + rewrite forallb_forall in *. intros g' Hin. apply compat_frame; auto.
Qed.

Lemma ins_all_allok b : forall gs cur,
  no_conflict gs = true -> forallb (fun g => compat g cur) gs = true ->
  forallb (fun g => negb (ends_with_star g)) gs = true ->
  allok b cur = true -> allok b (ins_all gs cur) = true.
Proof.
  induction gs as [|g gs IH]; intros cur Hnc Hall Hts Ha; [exact Ha|].
  cbn [no_conflict] in Hnc. rewrite andb_true_iff in Hnc. destruct Hnc as [Hg Hnc].
  cbn [forallb] in Hall, Hts. rewrite andb_true_iff in Hall, Hts. destruct Hall as [Hcg Hall]. destruct Hts as [Ht1 Hts].
  rewrite negb_true_iff in Ht1.
  change (ins_all (g :: gs) cur) with (ins_all gs (ins g cur)).
  apply IH; auto.
  - rewrite forallb_forall in *. intros g' Hin. apply compat_frame; auto.
  - apply ins_allok; assumption.
Qed.

Lemma ins_keys_kids_nonempty ks t f : forall cur,
  nonempty (m_kids cur) = true -> nonempty (m_kids (ins_keys ks t f cur)) = true.
Proof.
  induction ks as [|k ks IH]; intros cur H; [exact H|].
  change (ins_keys (k :: ks) t f cur) with (ins_keys ks t f (child_ins k t f cur)). apply IH.
  unfold child_ins. rewrite m_kids_put. destruct (kupsert _ _ _) eqn:E; [exfalso; eapply kupsert_not_nil; eauto | reflexivity].
Qed.

Lemma ins_keeps_children g cur : nonempty (m_kids cur) = true -> nonempty (m_kids (ins g cur)) = true.
Proof.
  destruct g as [|s r]; intro H; [exact H|]. cbn [ins]. apply ins_keys_kids_nonempty. destruct (is_gstar s); exact H.
Qed.

Lemma ins_all_keeps_children gs : forall cur, nonempty (m_kids cur) = true -> nonempty (m_kids (ins_all gs cur)) = true.
Proof.
  induction gs as [|g gs IH]; intros cur H; [exact H|].
  change (ins_all (g :: gs) cur) with (ins_all gs (ins g cur)). apply IH. apply ins_keeps_children. exact H.
Qed.

Lemma ins_all_live gs : forall cur, live (ins_all gs cur) = live cur.
Proof. induction gs as [|g gs IH]; intro cur; [reflexivity|]. change (ins_all (g :: gs) cur) with (ins_all gs (ins g cur)). rewrite IH, ins_live. reflexivity. Qed.

(* PathInMask on a star-free single-key path, for masks built on the domain without struct stars *)
Theorem path_in_mask_sound env d black strs ps gs m p g :
  env_ok env = true ->
  map tokenize strs = map tokens_of ps ->
  well_typed env d ps = true -> elab_all env d ps = Some gs -> in_domain black gs = true ->
  gs <> [] -> forallb no_starf ps = true ->
  (black = true -> forallb (fun g => nonempty g) gs = true) ->
  new_mask env d black strs = Ok m ->
  forallb simple_seg p = true -> wf_path p = true -> elab env d p = Some g ->
  forall path, tokenize path = tokens_of p ->
  exists a, path_in_mask env d m path = Some (spec_pass black (path_set gs) (qkeys g), a).
Proof.
  intros Henv Htok Hwt He Hdom Hgne Hns Hbne Hm Hsimple Hwfp Hg path Hpath.
  destruct (well_typed_parts _ _ _ Hwt) as [Hok [Hwf _]].
  pose proof Hdom as Hdom0. unfold in_domain in Hdom. rewrite andb_true_iff in Hdom. destruct Hdom as [Hnc Hts].
  rewrite (build_total_on_D env d black strs ps gs Htok Hwt He Hnc) in Hm. injection Hm as <-.
  pose proof (elab_all_compat_fresh _ _ _ _ He Hwf (switch_ft env d) black) as Hall.
  destruct gs as [|g0 gs0] eqn:Egs; [congruence|]. rewrite <- Egs in *.
  assert (built env d black gs = ins_all gs (fresh (switch_ft env d) black)) as Eb by (rewrite Egs; reflexivity).
  set (root := fresh (switch_ft env d) black) in *.
  pose proof (inv_fresh black _ Hok) as Hi0.
  destruct (ins_all_step black gs root Hnc Hall Hi0) as [Hinv _].
  assert (mtyped env (ins_all gs root) d = true) as Hmt
    by (eapply ins_all_mtyped; eauto; apply mtyped_fresh).
  assert (allok black (ins_all gs root) = true) as Hao.
  { destruct black; [|apply allok_false]. apply ins_all_allok; auto. }
  assert (okc (ins_all gs root) = true) as Hokc.
  { unfold okc. rewrite (inv_black _ _ Hinv). destruct black; [|reflexivity]. cbn [negb orb].
    assert (has_child (ins_all gs root) = true) as ->; [|apply orb_true_r].
    unfold has_child. rewrite ins_all_live. fold root. unfold root at 1. unfold live at 1. cbn [fresh m_typ]. unfold ok_ft in Hok. rewrite Hok. cbn [andb].
    rewrite Egs. change (ins_all (g0 :: gs0) root) with (ins_all gs0 (ins g0 root)).
    assert (nonempty (m_kids (ins_all gs0 (ins g0 root))) = true) as X.
    { apply ins_all_keeps_children.
      specialize (Hbne eq_refl). rewrite Egs in Hbne, Hall. cbn [forallb] in Hbne, Hall. rewrite andb_true_iff in Hbne, Hall.
      assert (has_child (ins g0 root) = true) as Y.
      { apply has_child_ins; [tauto | destruct g0; [destruct Hbne; discriminate | discriminate] | exact Hok]. }
      unfold has_child in Y. rewrite andb_true_iff in Y. destruct (m_kids (ins g0 root)); [destruct Y; discriminate | reflexivity]. }
    destruct (m_kids (ins_all gs0 (ins g0 root))); [discriminate | reflexivity]. }
  unfold path_in_mask. rewrite Hpath. unfold tokens_of, path_fuel.
  change (get_path (S (List.length (TRoot :: flat_map seg_tokens p))) env (TRoot :: flat_map seg_tokens p) d
            (Some (built env d black gs)) (Some (built env d black gs)))
    with (get_path (List.length (TRoot :: flat_map seg_tokens p)) env (flat_map seg_tokens p) d
            (Some (built env d black gs)) (Some (built env d black gs))).
  rewrite Eb.
  destruct (get_path_walk env Henv p d g Hg Hsimple Hwfp (List.length (TRoot :: flat_map seg_tokens p))
              (ins_all gs root) (Some (ins_all gs root)) black ltac:(cbn [List.length]; lia) Hmt Hinv Hao Hokc) as [r Hr].
  rewrite Hr. exists (all_q r). f_equal. f_equal.
  rewrite <- Eb. apply built_sound; auto.
Qed.
