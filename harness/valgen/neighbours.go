package valgen

import (
	"verif/harness/schemagen"
)

// Neighbouring elements: values in which every container of struct-likes (at any nesting) holds a
// "rich" element (every optional member set, to something other than its default) directly followed
// by a "bare" one (every optional member unset), then another rich one; for unions neighbouring
// elements set different members. All values are inside wt.

// HasStructContainer reports whether t is (or contains) a container whose elements / map values are struct-likes.
func HasStructContainer(t *schemagen.Type) bool {
	switch t.Kind {
	case "list", "set":
		return t.Elem.Kind == "struct" || HasStructContainer(t.Elem)
	case "map":
		return t.Elem.Kind == "struct" || HasStructContainer(t.Elem)
	}
	return false
}

// StructHasStructContainer: some field of s is such a container.
func StructHasStructContainer(s *schemagen.Struct) bool {
	for _, f := range s.Fields {
		if HasStructContainer(f.Type) {
			return true
		}
	}
	return false
}

// shaped builds a value of struct-like s: rich = every optional member set, otherwise every one unset.
// For a union, member number (which mod len) is the one that is set.
func (g *G) shaped(s *schemagen.Struct, rich bool, which int, depth int) *Value {
	if depth < 0 {
		rich = false // recursion floor: below it only the mandatory members are produced
	}
	fs := make([]FieldVal, len(s.Fields))
	if s.Kind == "union" {
		pick := 0
		if len(s.Fields) > 0 {
			pick = which % len(s.Fields)
		}
		for i, f := range s.Fields {
			fs[i] = FieldVal{ID: f.ID, V: g.unionSlot(f, i == pick, depth)}
		}
		return Struct(fs)
	}
	for i, f := range s.Fields {
		switch {
		case f.Req != "optional":
			fs[i] = FieldVal{ID: f.ID, V: g.neighbourSlotVal(f.Type, depth)}
		case !rich:
			if f.Default != nil && IsBase(f.Type) {
				fs[i] = FieldVal{ID: f.ID, V: ValueOfLit(f.Default)}
			} else {
				fs[i] = FieldVal{ID: f.ID, V: Nil()}
			}
		default:
			fs[i] = FieldVal{ID: f.ID, V: g.setSlot(f, depth)}
		}
	}
	return Struct(fs)
}

// setSlot: an optional slot that IsSet reports as set, with visible content.
func (g *G) setSlot(f *schemagen.Field, depth int) *Value {
	for tries := 0; tries < 60; tries++ {
		var v *Value
		switch {
		case BasePtr(f):
			v = Some(g.Val(f.Type, depth, false))
		case f.Type.Kind == "struct":
			s := g.Prog.Struct(f.Type.Name)
			if depth <= 0 {
				v = g.shaped(s, false, 0, 0)
			} else {
				v = g.shaped(s, true, tries, depth-1)
			}
		default:
			v = g.neighbourSlotVal(f.Type, depth)
		}
		if v.K == "nil" {
			continue
		}
		if (v.K == "list" && len(v.L) == 0) || (v.K == "map" && len(v.M) == 0) || (v.K == "bin" && len(v.S) == 0) {
			if tries < 40 {
				continue
			}
		}
		if IsSet(f, v) {
			return v
		}
	}
	return g.nonNil(f.Type, depth)
}

// neighbourSlotVal: a non-nil plain value of type t in which containers of struct-likes follow the pattern.
func (g *G) neighbourSlotVal(t *schemagen.Type, depth int) *Value {
	if depth < -1 && (t.Kind == "list" || t.Kind == "set" || t.Kind == "map") {
		return g.nonNil(t, 0) // empty container
	}
	switch t.Kind {
	case "struct":
		s := g.Prog.Struct(t.Name)
		return g.shaped(s, depth > 0 && g.R.Bool(), g.R.Intn(8), depth-1)
	case "list", "set":
		if t.Elem.Kind == "struct" {
			s := g.Prog.Struct(t.Elem.Name)
			n := g.R.Range(2, 3)
			out := make([]*Value, 0, n)
			for i := 0; i < n; i++ {
				x := g.shaped(s, i%2 == 0, i, depth-1)
				dup := false
				for _, y := range out {
					dup = dup || DeepEq(x, y)
				}
				if t.Kind == "set" && dup {
					continue
				}
				out = append(out, x)
			}
			return List(out)
		}
		if HasStructContainer(t.Elem) {
			n := g.R.Range(1, 2)
			out := make([]*Value, 0, n)
			for i := 0; i < n; i++ {
				x := g.neighbourSlotVal(t.Elem, depth)
				dup := false
				for _, y := range out {
					dup = dup || DeepEq(x, y)
				}
				if t.Kind == "set" && dup {
					continue
				}
				out = append(out, x)
			}
			return List(out)
		}
	case "map":
		if t.Elem.Kind == "struct" || HasStructContainer(t.Elem) {
			n := g.R.Range(2, 3)
			out := make([][2]*Value, 0, n)
			for i := 0; i < n; i++ {
				k := g.Val(t.Key, depth-1, true)
				dup := false
				for _, kv := range out {
					dup = dup || KeyEq(k, kv[0])
				}
				if dup || k.K == "nil" {
					continue
				}
				var x *Value
				if t.Elem.Kind == "struct" {
					x = g.shaped(g.Prog.Struct(t.Elem.Name), len(out)%2 == 0, len(out), depth-1)
				} else {
					x = g.neighbourSlotVal(t.Elem, depth)
				}
				out = append(out, [2]*Value{k, x})
			}
			return Map(out)
		}
	}
	v := g.Val(t, depth, false)
	if v.K == "nil" {
		return g.nonNil(t, depth)
	}
	return v
}

// Neighbours generates a value of s in which every field that is (or contains) a container of
// struct-likes is present and follows the rich / bare / rich pattern; the other fields are random.
func (g *G) Neighbours(s *schemagen.Struct, depth int) *Value {
	if s.Kind == "union" {
		for i, f := range s.Fields {
			if HasStructContainer(f.Type) {
				return g.shaped(s, true, i, depth)
			}
		}
		return g.Struct(s, depth)
	}
	fs := make([]FieldVal, len(s.Fields))
	for i, f := range s.Fields {
		if HasStructContainer(f.Type) {
			fs[i] = FieldVal{ID: f.ID, V: g.neighbourSlotVal(f.Type, depth)}
		} else {
			fs[i] = FieldVal{ID: f.ID, V: g.Slot(f, depth)}
		}
	}
	return Struct(fs)
}
