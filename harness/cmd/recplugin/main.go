// recplugin is a thriftgo plugin used by the harness: it records what it was sent on stdin
// (sha256 of the raw bytes and of a canonical JSON rendering of the decoded request, which
// sorts map keys) into the file named by $VERIF_REC_OUT and answers with an empty response.
package main

import (
	"crypto/sha256"
	"encoding/hex"
	"encoding/json"
	"fmt"
	"io"
	"os"

	"github.com/cloudwego/thriftgo/plugin"
)

func main() {
	data, err := io.ReadAll(os.Stdin)
	if err != nil {
		os.Exit(3)
	}
	raw := sha256.Sum256(data)
	canon := "undecodable"
	if req, err := plugin.UnmarshalRequest(data); err == nil {
		req.OutputPath = "" // the output directory's own name may differ between runs
		if js, err := json.Marshal(req); err == nil {
			c := sha256.Sum256(js)
			canon = hex.EncodeToString(c[:])
		}
	}
	if p := os.Getenv("VERIF_REC_OUT"); p != "" {
		f, err := os.OpenFile(p, os.O_APPEND|os.O_CREATE|os.O_WRONLY, 0o644)
		if err == nil {
			fmt.Fprintf(f, "%s %s %d\n", hex.EncodeToString(raw[:]), canon, len(data))
			f.Close()
		}
	}
	resp := &plugin.Response{}
	if os.Getenv("VERIF_REC_PATCH") != "" {
		// a file of our own with two insertion points, and patches whose text mentions the other
		// point's marker: the assembled text must not depend on the order in which the replacer
		// visits its map
		if req, err := plugin.UnmarshalRequest(data); err == nil {
			name := req.OutputPath + "/verif_plugin_extra.txt"
			ip1, ip2, ip3 := "verif.p", "verif.q", "verif.r"
			resp.Contents = []*plugin.Generated{
				{Name: &name, Content: "A " + plugin.InsertionPoint(ip1) + " B " + plugin.InsertionPoint(ip2) + " C " + plugin.InsertionPoint(ip3) + " D " + plugin.InsertionPoint(ip1)},
				{InsertionPoint: &ip1, Content: "P[" + plugin.InsertionPoint(ip2) + "]"},
				{InsertionPoint: &ip2, Content: "Q[" + plugin.InsertionPoint(ip3) + plugin.InsertionPoint(ip1) + "]"},
				{InsertionPoint: &ip3, Content: "R[" + plugin.InsertionPoint(ip1) + "]"},
				{InsertionPoint: &ip1, Content: "P2"},
			}
		}
	}
	out, err := plugin.MarshalResponse(resp)
	if err != nil {
		os.Exit(4)
	}
	os.Stdout.Write(out)
}
