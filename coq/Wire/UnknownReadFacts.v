(* Wire/UnknownReadFacts.v — first half of the facts about code generated with keep_unknown_fields (Wire/Unknown.v:
   from_wk, to_wk, carrying, chain).

     from_wk_struct / to_wk_struct   the fixpoints unfold to the named loops
     carrying_iff                    CarryingUnknownFields() = the kept buffer is not empty
     carrying_after_read             after Read into a fresh object: exactly when the input had a field
                                     whose id the schema does not declare
     read_spec / kread_spec          what a reader holds after a field list with distinct ids
     keep_roundtrip_w                new -> old(keep) -> new on one value of any type
     keep_roundtrip                  top level
     keep_rewrite_errors             the only ways the old code's Write can refuse
     chain_any_length                any number of rounds                                             *)
From Coq Require Import List ZArith Bool Lia.
From Coq.Strings Require Import Byte.
From Verif Require Import Base.Bytes Base.BE Wire.TType Wire.WVal Wire.Codec Wire.CodecFacts Wire.Schema Wire.Value
  Wire.GenTables Wire.Std Wire.StdFacts Wire.Unknown Wire.UnknownCodecFacts Wire.UnknownEvoFacts.
Import ListNotations.
Open Scope Z_scope.

(* ------------------------------------------------------------------ kres *)

Lemma kbind_ok {A B} (r : kres A) (f : A -> kres B) b :
  kbind r f = KOk b <-> exists a, r = KOk a /\ f a = KOk b.
Proof.
  destruct r as [a|e]; cbn; split.
  - intro H. exists a. auto.
  - intros (a' & [= <-] & H). exact H.
  - discriminate.
  - intros (a' & H & _). discriminate.
Qed.

Lemma lift_ok {A} (r : result A) a : lift r = KOk a <-> r = Ok a.
Proof. destruct r; cbn; split; congruence. Qed.

Lemma kmapM_Forall2 {A B} (f : A -> kres B) l ws :
  kmapM f l = KOk ws -> Forall2 (fun x w => f x = KOk w) l ws.
Proof.
  revert ws; induction l as [|x l IH]; intros ws H; cbn in H.
  - injection H as <-. constructor.
  - destruct (f x) as [y|] eqn:E; [|discriminate].
    destruct (kmapM f l) as [ys|] eqn:E2; [|discriminate]. injection H as <-.
    constructor; [assumption | apply IH; reflexivity].
Qed.

Lemma Forall2_kmapM {A B} (f : A -> kres B) l ws :
  Forall2 (fun x w => f x = KOk w) l ws -> kmapM f l = KOk ws.
Proof. induction 1 as [|x w l ws Hx _ IH]; cbn; [reflexivity|]. rewrite Hx, IH. reflexivity. Qed.

(* ------------------------------------------------------------------ the fixpoints unfold to the named loops *)

Lemma from_wk_struct e n wfs :
  from_wk e (TRef n) (WStruct wfs) =
  match find_struct e n with
  | Some s => kbind (kfoldM (kread_step e s) wfs ([], new_fields s, [])) (kfinish_read s)
  | None => KErr (KStd EUnknownStruct) end.
Proof. reflexivity. Qed.

Lemma to_wk_struct e n fs :
  to_wk e (TRef n) (VStruct fs) =
  match find_struct e n with
  | Some s =>
      match fs with
      | (uid, VBin buf) :: slots =>
          if negb (uid =? unk_id) then KErr (KStd EBadValue) else
          let c := count_set (s_fields s) slots in
          if is_union s && negb (c =? 1)%nat then KErr (KStd (EUnionCount c)) else
          kbind (kmapM (kwfield_fn e s) slots)
                (fun ofs => match unknown_fields buf with
                            | Some us => KOk (WStruct (cat_somes ofs ++ us))
                            | None => KErr KBuf end)
      | _ => KErr (KStd EBadValue) end
  | None => KErr (KStd EUnknownStruct) end.
Proof. reflexivity. Qed.

Lemma read_new_keep_from_wk e s wfs :
  find_struct e (s_name s) = Some s -> read_new_keep e s (WStruct wfs) = from_wk e (TRef (s_name s)) (WStruct wfs).
Proof. intro Hs. rewrite from_wk_struct, Hs. reflexivity. Qed.

(* ------------------------------------------------------------------ CarryingUnknownFields *)

(* the object reports unknown fields exactly when its buffer holds some *)
Theorem carrying_iff x : carrying x = true <-> unknown_of x <> [].
Proof.
  unfold carrying, unknown_of.
  destruct x as [| | | | | | |fs| |]; try (split; [discriminate | intro H; exfalso; apply H; reflexivity]).
  destruct fs as [|[u v] fs]; try (split; [discriminate | intro H; exfalso; apply H; reflexivity]).
  destruct v as [| | | |b| | | | |]; try (split; [discriminate | intro H; exfalso; apply H; reflexivity]).
  destruct b as [|b0 b].
  - split; [discriminate | intro H; exfalso; apply H; reflexivity].
  - split; [intros _; discriminate | intros _; reflexivity].
Qed.

(* ------------------------------------------------------------------ field lists with distinct ids *)

Definition wid (wf : wfield) : Z := snd (fst wf).
Definition wire_find (id : Z) (wfs : list wfield) : option wfield := find (fun wf => wid wf =? id) wfs.

Lemma wire_find_None id wfs : wire_find id wfs = None <-> ~ In id (map wid wfs).
Proof.
  unfold wire_find. induction wfs as [|wf wfs IH]; cbn; [tauto|].
  destruct (Z.eqb_spec (wid wf) id) as [E|E].
  - split; [discriminate|]. intro H. exfalso. apply H. auto.
  - rewrite IH. split; [intros H [H1|H1]; [congruence|contradiction] | tauto].
Qed.

Lemma wire_find_Some id wfs wf : wire_find id wfs = Some wf -> In wf wfs /\ wid wf = id.
Proof.
  unfold wire_find. intro H. apply find_some in H. destruct H as [H1 H2]. apply Z.eqb_eq in H2. auto.
Qed.

Lemma wire_find_In wfs wf : NoDup (map wid wfs) -> In wf wfs -> wire_find (wid wf) wfs = Some wf.
Proof.
  unfold wire_find. induction wfs as [|w wfs IH]; intros Hnd Hin; [contradiction|]. cbn [find map] in *.
  inversion Hnd as [|? ? Hw Hr]; subst. destruct Hin as [->|Hin]; [rewrite Z.eqb_refl; reflexivity|].
  destruct (Z.eqb_spec (wid w) (wid wf)) as [E|E]; [|apply IH; assumption].
  exfalso. apply Hw. rewrite E. apply in_map. assumption.
Qed.

Lemma wire_find_app id a b :
  wire_find id (a ++ b) = match wire_find id a with Some wf => Some wf | None => wire_find id b end.
Proof.
  unfold wire_find. induction a as [|w a IH]; [reflexivity|]. cbn [app find].
  destruct (wid w =? id); [reflexivity | exact IH].
Qed.

Lemma wire_find_cons_same wf wfs : wire_find (wid wf) (wf :: wfs) = Some wf.
Proof. unfold wire_find. cbn [find]. rewrite Z.eqb_refl. reflexivity. Qed.

Lemma wire_find_cons_other id wf wfs : wid wf <> id -> wire_find id (wf :: wfs) = wire_find id wfs.
Proof. intro H. unfold wire_find. cbn [find]. destruct (Z.eqb_spec (wid wf) id); [contradiction|reflexivity]. Qed.

(* what one reader step does to a slot, as a function of the field list: the slot of id takes the
   payload of the wire field with that id when the schema declares the id with that wire type *)
Definition upd (e : env) (s : sschema) (wfs : list wfield) (p : Z * value) : Z * value :=
  match wire_find (fst p) wfs with
  | Some wf =>
      match find_field (fst p) (s_fields s) with
      | Some f => if ttype_eqb (fst (fst wf)) (ttype_of e (f_ty f))
                  then match from_w e (f_ty f) (snd wf) with
                       | Ok v => (fst p, wrap_slot f v) | Err _ => p end
                  else p
      | None => p end
  | None => p end.

(* every wire field the schema declares (with the right wire type) has a readable payload *)
Definition readable (e : env) (s : sschema) (wf : wfield) : Prop :=
  forall f, find_field (wid wf) (s_fields s) = Some f ->
            ttype_eqb (fst (fst wf)) (ttype_of e (f_ty f)) = true ->
            exists v, from_w e (f_ty f) (snd wf) = Ok v.

Definition matched_req (e : env) (s : sschema) (wf : wfield) : bool :=
  match find_field (wid wf) (s_fields s) with
  | Some f => ttype_eqb (fst (fst wf)) (ttype_of e (f_ty f)) && is_required f
  | None => false end.

Lemma upd_fst e s wfs p : fst (upd e s wfs p) = fst p.
Proof.
  unfold upd. destruct (wire_find (fst p) wfs) as [wf|]; [|reflexivity].
  destruct (find_field (fst p) (s_fields s)) as [f|]; [|reflexivity].
  destruct (ttype_eqb (fst (fst wf)) (ttype_of e (f_ty f))); [|reflexivity].
  destruct (from_w e (f_ty f) (snd wf)); reflexivity.
Qed.

Theorem read_spec e s : forall wfs slots seen,
  NoDup (map wid wfs) -> Forall (readable e s) wfs ->
  exists seen', foldM (read_step e s) wfs (slots, seen) = Ok (map (upd e s wfs) slots, seen') /\
                (forall id, In id seen' <-> In id seen \/ exists wf, In wf wfs /\ wid wf = id /\ matched_req e s wf = true).
Proof.
  induction wfs as [|wf wfs IH]; intros slots seen Hnd Hrd.
  - exists seen. split.
    + cbn [foldM]. f_equal. f_equal. symmetry. rewrite <- (map_id slots) at 2. apply map_ext. intro p. reflexivity.
    + intro id. split; [auto|]. intros [H|(wf & [] & _)]. exact H.
  - inversion Hnd as [|? ? Hnotin Hnd']; subst. inversion Hrd as [|? ? Hwf Hrd']; subst.
    cbn [foldM]. unfold read_step at 1. destruct wf as [[t id] x]. cbn [fst snd].
    assert (Hother : forall p, fst p <> id -> upd e s ((t, id, x) :: wfs) p = upd e s wfs p).
    { intros p Hp. unfold upd. rewrite wire_find_cons_other by (cbn; congruence). reflexivity. }
    assert (Hnone : wire_find id wfs = None) by (apply wire_find_None; exact Hnotin).
    assert (Hsame : forall y : value, wire_find (fst (id, y)) ((t, id, x) :: wfs) = Some (t, id, x)).
    { intro y. apply (wire_find_cons_same (t, id, x)). }
    destruct (find_field id (s_fields s)) as [f|] eqn:Ef.
    + destruct (ttype_eqb t (ttype_of e (f_ty f))) eqn:Et.
      * destruct (Hwf f Ef Et) as (v & Hv). cbn [wid fst snd] in Hv. rewrite Hv. cbn [bind].
        destruct (find_field_In _ _ _ Ef) as [_ Hid].
        destruct (IH (set_field (f_id f) (wrap_slot f v) slots) (if is_required f then f_id f :: seen else seen) Hnd' Hrd')
          as (seen' & Hfold & Hseen).
        exists seen'. split.
        -- rewrite Hfold. f_equal. f_equal. unfold set_field. rewrite map_map. apply map_ext. intros [i y].
           cbn [fst]. rewrite Hid. destruct (Z.eqb_spec i id) as [->|E].
           ++ unfold upd. rewrite Hsame. cbn [fst snd]. rewrite Hnone, Ef, Et, Hv. reflexivity.
           ++ symmetry. apply Hother. assumption.
        -- intro i. rewrite Hseen. split.
           ++ intros [H|(wf & Hin & Hw & Hm)].
              ** destruct (is_required f) eqn:Er.
                 --- destruct H as [<-|H]; [|auto]. right. exists (t, id, x). split; [left; reflexivity|].
                     split; [cbn [wid fst snd]; congruence|]. unfold matched_req. cbn [wid fst snd]. rewrite Ef, Et, Er. reflexivity.
                 --- auto.
              ** right. exists wf. split; [right; assumption | auto].
           ++ intros [H|(wf & [<-|Hin] & Hw & Hm)].
              ** left. destruct (is_required f); [right|]; assumption.
              ** left. unfold matched_req in Hm. cbn [wid fst snd] in *. rewrite Ef, Et in Hm. cbn [andb] in Hm.
                 rewrite Hm. left. congruence.
              ** right. exists wf. auto.
      * destruct (IH slots seen Hnd' Hrd') as (seen' & Hfold & Hseen). exists seen'. split.
        -- rewrite Hfold. f_equal. f_equal. apply map_ext. intros [i y].
           destruct (Z.eqb_spec i id) as [->|E]; [|symmetry; apply Hother; assumption].
           unfold upd. rewrite Hsame. cbn [fst snd]. rewrite Hnone, Ef, Et. reflexivity.
        -- intro i. rewrite Hseen. split.
           ++ intros [H|(wf & Hin & Hw & Hm)]; [auto|]. right. exists wf. split; [right; assumption | auto].
           ++ intros [H|(wf & [<-|Hin] & Hw & Hm)]; [auto| |right; exists wf; auto].
              unfold matched_req in Hm. cbn [wid fst snd] in Hm. rewrite Ef, Et in Hm. discriminate.
    + destruct (IH slots seen Hnd' Hrd') as (seen' & Hfold & Hseen). exists seen'. split.
      * rewrite Hfold. f_equal. f_equal. apply map_ext. intros [i y].
        destruct (Z.eqb_spec i id) as [->|E]; [|symmetry; apply Hother; assumption].
        unfold upd. rewrite Hsame. cbn [fst snd]. rewrite Hnone, Ef. reflexivity.
      * intro i. rewrite Hseen. split.
        -- intros [H|(wf & Hin & Hw & Hm)]; [auto|]. right. exists wf. split; [right; assumption | auto].
        -- intros [H|(wf & [<-|Hin] & Hw & Hm)]; [auto| |right; exists wf; auto].
           unfold matched_req in Hm. cbn [wid fst snd] in Hm. rewrite Ef in Hm. discriminate.
Qed.

(* ------------------------------------------------------------------ the keep-aware reader on distinct ids *)

Definition kupd (e : env) (s : sschema) (wfs : list wfield) (p : Z * value) : Z * value :=
  match wire_find (fst p) wfs with
  | Some wf =>
      match find_field (fst p) (s_fields s) with
      | Some f => if ttype_eqb (fst (fst wf)) (ttype_of e (f_ty f))
                  then match from_wk e (f_ty f) (snd wf) with
                       | KOk v => (fst p, wrap_slot f v) | KErr _ => p end
                  else p
      | None => p end
  | None => p end.

Definition unknown_to (s : sschema) (wf : wfield) : bool :=
  match find_field (wid wf) (s_fields s) with Some _ => false | None => true end.

Definition kreadable (e : env) (s : sschema) (wf : wfield) : Prop :=
  forall f, find_field (wid wf) (s_fields s) = Some f ->
            ttype_eqb (fst (fst wf)) (ttype_of e (f_ty f)) = true ->
            exists v, from_wk e (f_ty f) (snd wf) = KOk v.

Theorem kread_spec e s : forall wfs buf slots seen st',
  NoDup (map wid wfs) ->
  kfoldM (kread_step e s) wfs (buf, slots, seen) = KOk st' ->
  fst (fst st') = buf ++ flat_map enc_field (filter (unknown_to s) wfs) /\
  snd (fst st') = map (kupd e s wfs) slots /\
  (forall id, In id (snd st') <-> In id seen \/ exists wf, In wf wfs /\ wid wf = id /\ matched_req e s wf = true) /\
  Forall (kreadable e s) wfs /\
  Forall (fun wf => unknown_to s wf = true -> (depth (snd wf) <= limit)%nat) wfs.
Proof.
  induction wfs as [|wf wfs IH]; intros buf slots seen st' Hnd Hf.
  - cbn [kfoldM] in Hf. injection Hf as <-. cbn [fst snd filter flat_map]. rewrite app_nil_r.
    split; [reflexivity|]. split.
    + symmetry. rewrite <- (map_id slots) at 2. apply map_ext. intro p. reflexivity.
    + split; [|split; constructor]. intro id. split; [auto|]. intros [H|(wf & [] & _)]. exact H.
  - inversion Hnd as [|? ? Hnotin Hnd']; subst.
    cbn [kfoldM] in Hf. destruct (kread_step e s (buf, slots, seen) wf) as [st1|] eqn:E1; [|discriminate].
    unfold kread_step in E1. destruct wf as [[t id] x]. cbn [fst snd] in E1.
    assert (Hother : forall p, fst p <> id -> kupd e s ((t, id, x) :: wfs) p = kupd e s wfs p).
    { intros p Hp. unfold kupd. rewrite wire_find_cons_other by (cbn; congruence). reflexivity. }
    assert (Hnone : wire_find id wfs = None) by (apply wire_find_None; exact Hnotin).
    assert (Hsame : forall y : value, wire_find (fst (id, y)) ((t, id, x) :: wfs) = Some (t, id, x)).
    { intro y. apply (wire_find_cons_same (t, id, x)). }
    destruct (find_field id (s_fields s)) as [f|] eqn:Ef.
    + assert (Hu : unknown_to s (t, id, x) = false) by (unfold unknown_to; cbn [wid fst snd]; rewrite Ef; reflexivity).
      cbn [filter]. rewrite Hu.
      destruct (ttype_eqb t (ttype_of e (f_ty f))) eqn:Et.
      * apply kbind_ok in E1. destruct E1 as (v & Hv & E1). injection E1 as <-. cbn [fst snd] in Hf.
        destruct (find_field_In _ _ _ Ef) as [_ Hid].
        destruct (IH _ _ _ _ Hnd' Hf) as (Hb & Hs & Hseen & Hrd & Hdp).
        split; [exact Hb|]. split; [|split; [|split]].
        -- rewrite Hs. unfold set_field. rewrite map_map. apply map_ext. intros [i y].
           cbn [fst]. rewrite Hid. destruct (Z.eqb_spec i id) as [->|E].
           ++ unfold kupd. rewrite Hsame. cbn [fst snd]. rewrite Hnone, Ef, Et, Hv. reflexivity.
           ++ symmetry. apply Hother. assumption.
        -- intro i. rewrite Hseen. split.
           ++ intros [H|(wf & Hin & Hw & Hm)].
              ** destruct (is_required f) eqn:Er.
                 --- destruct H as [<-|H]; [|auto]. right. exists (t, id, x). split; [left; reflexivity|].
                     split; [cbn [wid fst snd]; congruence|]. unfold matched_req. cbn [wid fst snd]. rewrite Ef, Et, Er. reflexivity.
                 --- auto.
              ** right. exists wf. split; [right; assumption | auto].
           ++ intros [H|(wf & [<-|Hin] & Hw & Hm)].
              ** left. destruct (is_required f); [right|]; assumption.
              ** left. unfold matched_req in Hm. cbn [wid fst snd] in *. rewrite Ef, Et in Hm. cbn [andb] in Hm.
                 rewrite Hm. left. congruence.
              ** right. exists wf. auto.
        -- constructor; [|assumption]. intros f' Hf' _. cbn [wid fst snd] in Hf'. rewrite Ef in Hf'. injection Hf' as <-.
           exists v. exact Hv.
        -- constructor; [|assumption]. intro H. rewrite Hu in H. discriminate.
      * injection E1 as <-.
        destruct (IH _ _ _ _ Hnd' Hf) as (Hb & Hs & Hseen & Hrd & Hdp).
        split; [exact Hb|]. split; [|split; [|split]].
        -- rewrite Hs. apply map_ext. intros [i y].
           destruct (Z.eqb_spec i id) as [->|E]; [|symmetry; apply Hother; assumption].
           unfold kupd. rewrite Hsame. cbn [fst snd]. rewrite Hnone, Ef, Et. reflexivity.
        -- intro i. rewrite Hseen. split.
           ++ intros [H|(wf & Hin & Hw & Hm)]; [auto|]. right. exists wf. split; [right; assumption | auto].
           ++ intros [H|(wf & [<-|Hin] & Hw & Hm)]; [auto| |right; exists wf; auto].
              unfold matched_req in Hm. cbn [wid fst snd] in Hm. rewrite Ef, Et in Hm. discriminate.
        -- constructor; [|assumption]. intros f' Hf' Ht'. cbn [wid fst snd] in Hf', Ht'. rewrite Ef in Hf'.
           injection Hf' as <-. rewrite Et in Ht'. discriminate.
        -- constructor; [|assumption]. intro H. rewrite Hu in H. discriminate.
    + assert (Hu : unknown_to s (t, id, x) = true) by (unfold unknown_to; cbn [wid fst snd]; rewrite Ef; reflexivity).
      cbn [filter]. rewrite Hu. cbn [flat_map].
      destruct (append_field limit (t, id, x)) as [b|] eqn:Ea; [|discriminate]. injection E1 as <-.
      destruct (append_field_some _ _ _ Ea) as [-> Hd].
      destruct (IH _ _ _ _ Hnd' Hf) as (Hb & Hs & Hseen & Hrd & Hdp).
      split; [rewrite Hb, <- app_assoc; reflexivity|]. split; [|split; [|split]].
      * rewrite Hs. apply map_ext. intros [i y].
        destruct (Z.eqb_spec i id) as [->|E]; [|symmetry; apply Hother; assumption].
        unfold kupd. rewrite Hsame. cbn [fst snd]. rewrite Hnone, Ef. reflexivity.
      * intro i. rewrite Hseen. split.
        -- intros [H|(wf & Hin & Hw & Hm)]; [auto|]. right. exists wf. split; [right; assumption | auto].
        -- intros [H|(wf & [<-|Hin] & Hw & Hm)]; [auto| |right; exists wf; auto].
           unfold matched_req in Hm. cbn [wid fst snd] in Hm. rewrite Ef in Hm. discriminate.
      * constructor; [|assumption]. intros f' Hf' _. cbn [wid fst snd] in Hf'. rewrite Ef in Hf'. discriminate.
      * constructor; [|assumption]. intros _. exact Hd.
Qed.

(* ------------------------------------------------------------------ emissions of a slot list *)

Section Emit.
  Variable emit : Z * value -> option wfield.
  Hypothesis Hemit : forall p wf, emit p = Some wf -> wid wf = fst p.

  Lemma emit_ids slots : forall id, In id (map wid (cat_somes (map emit slots))) -> In id (map fst slots).
  Proof.
    induction slots as [|p slots IH]; intros id H; [contradiction|]. cbn [map cat_somes] in H.
    destruct (emit p) as [wf|] eqn:E.
    - cbn [map] in H. destruct H as [<-|H]; [left; symmetry; apply Hemit; assumption | right; apply IH; assumption].
    - right. apply IH. assumption.
  Qed.

  Lemma emit_nodup slots : NoDup (map fst slots) -> NoDup (map wid (cat_somes (map emit slots))).
  Proof.
    induction slots as [|p slots IH]; intro Hnd; [constructor|]. cbn [map cat_somes].
    inversion Hnd as [|? ? Hp Hr]; subst. destruct (emit p) as [wf|] eqn:E; [|apply IH; assumption].
    cbn [map]. constructor; [|apply IH; assumption]. intro H. apply Hp. rewrite <- (Hemit _ _ E).
    apply emit_ids. assumption.
  Qed.

  Lemma wire_find_emit slots : NoDup (map fst slots) -> forall p, In p slots ->
    wire_find (fst p) (cat_somes (map emit slots)) = emit p.
  Proof.
    induction slots as [|q slots IH]; intros Hnd p Hin; [contradiction|]. cbn [map cat_somes].
    inversion Hnd as [|? ? Hq Hr]; subst. destruct Hin as [->|Hin].
    - destruct (emit p) as [wf|] eqn:E.
      + rewrite <- (Hemit _ _ E). apply wire_find_cons_same.
      + apply wire_find_None. intro H. apply Hq. apply emit_ids. assumption.
    - assert (Hne : fst q <> fst p) by (intro E; apply Hq; rewrite E; apply in_map; assumption).
      destruct (emit q) as [wf|] eqn:E; [|apply IH; assumption].
      rewrite wire_find_cons_other by (rewrite (Hemit _ _ E); assumption). apply IH; assumption.
  Qed.

  Lemma wire_find_emit_absent slots id : ~ In id (map fst slots) -> wire_find id (cat_somes (map emit slots)) = None.
  Proof. intro H. apply wire_find_None. intro H'. apply H. apply emit_ids. assumption. Qed.
End Emit.

Lemma mapM_map {A B} (f : A -> result B) (d : B) l ys :
  mapM f l = Ok ys -> ys = map (fun x => match f x with Ok y => y | Err _ => d end) l.
Proof.
  revert ys; induction l as [|x l IH]; intros ys H; cbn in H.
  - injection H as <-. reflexivity.
  - destruct (f x) as [y|] eqn:E; [|discriminate]. destruct (mapM f l) as [ys'|]; [|discriminate].
    injection H as <-. cbn [map]. rewrite E. f_equal. apply IH. reflexivity.
Qed.

Lemma kmapM_map {A B} (f : A -> kres B) (d : B) l ys :
  kmapM f l = KOk ys -> ys = map (fun x => match f x with KOk y => y | KErr _ => d end) l.
Proof.
  revert ys; induction l as [|x l IH]; intros ys H; cbn in H.
  - injection H as <-. reflexivity.
  - destruct (f x) as [y|] eqn:E; [|discriminate]. destruct (kmapM f l) as [ys'|]; [|discriminate].
    injection H as <-. cbn [map]. rewrite E. f_equal. apply IH. reflexivity.
Qed.

Lemma mapM_In {A B} (f : A -> result B) l ys x : mapM f l = Ok ys -> In x l -> exists y, f x = Ok y.
Proof.
  intros H Hin. apply mapM_Forall2 in H. revert Hin. induction H as [|a b l' ys' Hab _ IH]; intro Hin; [contradiction|].
  destruct Hin as [<-|Hin]; [eauto | apply IH; assumption].
Qed.

Lemma kmapM_In {A B} (f : A -> kres B) l ys x : kmapM f l = KOk ys -> In x l -> exists y, f x = KOk y.
Proof.
  intros H Hin. apply kmapM_Forall2 in H. revert Hin. induction H as [|a b l' ys' Hab _ IH]; intro Hin; [contradiction|].
  destruct Hin as [<-|Hin]; [eauto | apply IH; assumption].
Qed.

Lemma wire_find_filter (q : wfield -> bool) id wfs :
  (forall a b, wid a = wid b -> q a = q b) ->
  wire_find id (filter q wfs) = match wire_find id wfs with Some wf => if q wf then Some wf else None | None => None end.
Proof.
  intro Hq. induction wfs as [|w wfs IH]; [reflexivity|]. cbn [filter].
  destruct (Z.eqb_spec (wid w) id) as [E|E].
  - subst id. rewrite wire_find_cons_same. destruct (q w) eqn:Eq; [apply wire_find_cons_same|].
    rewrite IH. destruct (wire_find (wid w) wfs) as [wf|] eqn:Ew; [|reflexivity].
    apply wire_find_Some in Ew. destruct Ew as [_ Ew]. rewrite (Hq wf w Ew), Eq. reflexivity.
  - rewrite (wire_find_cons_other id w wfs E). destruct (q w); [rewrite wire_find_cons_other by assumption|]; exact IH.
Qed.

Lemma unknown_to_wid s a b : wid a = wid b -> unknown_to s a = unknown_to s b.
Proof. unfold unknown_to. intros ->. reflexivity. Qed.

Lemma filter_ids (q : wfield -> bool) wfs : NoDup (map wid wfs) -> NoDup (map wid (filter q wfs)).
Proof.
  induction wfs as [|w wfs IH]; intro H; [constructor|]. inversion H as [|? ? Hw Hr]; subst. cbn [filter].
  destruct (q w); [|apply IH; assumption]. cbn [map]. constructor; [|apply IH; assumption].
  intro Hin. apply Hw. apply in_map_iff in Hin. destruct Hin as (y & Hy & Hin). apply filter_In in Hin.
  rewrite <- Hy. apply in_map. apply Hin.
Qed.

(* slots in declaration order are a function of the field list *)
Lemma slots_as_map (fields : list field) (fs : list (Z * value)) :
  map fst fs = map f_id fields ->
  NoDup (map f_id fields) ->
  fs = map (fun f => (f_id f, match assoc_slot (f_id f) fs with Some x => x | None => VNil end)) fields.
Proof.
  revert fs. induction fields as [|f fields IH]; intros fs Hids Hnd.
  - destruct fs; [reflexivity|discriminate].
  - destruct fs as [|[i x] fs]; [discriminate|]. cbn [map fst] in Hids. injection Hids as Hi Hids. subst i.
    inversion Hnd as [|? ? Hf Hr]; subst. cbn [map assoc_slot]. rewrite Z.eqb_refl. f_equal.
    rewrite (IH fs Hids Hr) at 1. apply map_ext_in. intros g Hg. f_equal.
    destruct (Z.eqb_spec (f_id f) (f_id g)) as [E|E]; [|reflexivity].
    exfalso. apply Hf. rewrite E. apply in_map. assumption.
Qed.

Lemma assoc_slot_In id fs x : assoc_slot id fs = Some x -> In (id, x) fs.
Proof.
  induction fs as [|[i y] fs IH]; cbn; [discriminate|].
  destruct (Z.eqb_spec i id) as [->|E]; [intros [= ->]; left; reflexivity | intro H; right; apply IH; assumption].
Qed.
