"""C10 — the fastgo codec agrees with the standard codec and BLength is exact
(generator/fastgo: gen_blength.go, gen_fastwrite.go, gen_fastread.go, consts.go, utils.go, bitset.go)."""
import json
import os
import vlib


class S(vlib.Spec):
    prop = "C10"
    design_ref = "DESIGN.md section 3 / C10"
    coq_targets = ["Props/C10.vo", "Corr/C10.vo"]
    props_file = "Props/C10.v"
    harness_pkg = "./cmd/c10"
    harness_name = "c10"
    needs_thriftgo = True
    corr_codes = {1, 8, 9}
    code_names = {
        1: "model (Wire/Fast.v, Wire/Std.v) and implementation disagree",
        8: "input outside the modelled domain reached the comparison (harness must not produce it)",
        9: "model out of fuel",
        2: "BLength() differs from the number of bytes FastAppend / FastWrite wrote",
        3: "the FastAppend bytes do not decode, under the schema, to the value",
        4: "the standard generated Read does not decode the FastAppend bytes to the value",
        5: "FastRead and the standard Read differ on the same encoding (object or error class)",
        6: "FastRead panicked on a truncated encoding (model: gopkg Skip reported a length beyond its buffer)",
        7: "FastRead panicked on an encoding with one corrupted type byte (model: gopkg Skip reported a length beyond its buffer)",
        10: "FastRead accepted a proper prefix of an encoding of the struct's own value",
        11: "FastWrite wrote something else than FastAppend",
        12: "FastAppend / BLength / FastWrite panicked",
        13: "FastRead panicked on a truncated encoding (model: gopkg Skip indexed typeToSize with a negative type)",
        14: "FastRead panicked on an encoding with one corrupted type byte (model: gopkg Skip indexed typeToSize with a negative type)",
        15: "FastRead panicked / the process died on a truncated encoding; the model does not say why",
        16: "FastRead panicked / the process died on a corrupted or extended encoding; the model does not say why",
        18: "the statements bitset.go emits for n required fields do not report exactly the first field that was not read",
        17: "the driver process died (Go runtime: out of memory) in FastRead where the model answers with an error: make(T, size) with a size taken from the input",
    }
    modelled = ("generator/fastgo/gen_blength.go (genBLength, genBLengthField/Any/List/Map/Struct), gen_fastwrite.go (genFastAppend, "
                "genFastAppendField/Any/List/Map/Struct), gen_fastread.go (genFastRead switch on fid<<8|type, required bit set, "
                "genFastReadAny/List/Map/Struct), utils.go (getSortedFields, isContainerType), bitset.go (GenIfNotSet order) -> "
                "coq/Wire/Fast.v (hand-written, three separate functions, tied by correspondence on compiled `-g fastgo` code on every run); "
                "generator/fastgo/consts.go category2ThriftWireType, category2WireSize -> coq/Wire/GenTables.v (translate-wire), "
                "category2GopkgConsts -> coq/Wire/FastTables.v (translate-fast); both regenerated on every run and the proofs of "
                "blength_exact / fast_append_is_std are checked against them")
    trusted_base = [
        "hand-written model coq/Wire/Fast.v (mirrors the three generators) on top of Wire/Schema.v, Value.v, Std.v, Codec.v",
        "github.com/cloudwego/gopkg v0.2.0 protocol/thrift BinaryProtocol (AppendXxx, ReadXxx, Skip incl. its two defects) is transcribed "
        "into Wire/Fast.v (rd_*, fskip); github.com/apache/thrift v0.13.0 TBinaryProtocol is modelled by Wire/Codec.v; neither is verified, "
        "both are exercised by the correspondence on every run",
        "harness/cmd/translate-wire and translate-fast (go/ast readers of three tables, < 200 lines each)",
        "harness/schemagen, valgen (input generators), gendrv + gendrv/driver (reflection driver; c10_fast.go adds the fast verbs), "
        "fastdrv (thriftgo -g fastgo, driver processes under ulimit -v and a timeout), coqfmt, casefile, lib/vlib.py",
        "the real thriftgo binary and go build are run on every check; Go map / reflect.DeepEqual semantics as modelled in Wire/Value.v",
    ]
    assumptions = [
        "values are fresh objects (no pointer sharing between set elements or map keys)",
        "a Go panic cannot be exhibited by a total model: the model returns the error classes FOverrun / FIndex where the code panics, "
        "and 'returns an error instead of panicking' is observed by the driver (recover; process exit), not proved",
    ]

    def translators(self, ctx):
        out = []
        for name, target in (("translate-wire", "GenTables.v"), ("translate-fast", "FastTables.v")):
            ok, log, binp = vlib.go_build("./cmd/" + name, name)
            if not ok:
                out.append(name + ": build failed: " + log[-500:])
                continue
            rc, o = vlib.sh([binp, "-repo", vlib.REPO, "-out", os.path.join(vlib.COQ, "Wire", target)])
            out.append("%s -> Wire/%s: %s" % (name, target, o.strip().splitlines()[-1] if o.strip() else "no output"))
        return out

    def producer_args(self, ctx):
        return ["-seed", str(ctx.seed), "-tier", ctx.tier, "-out", ctx.out, "-thriftgo", ctx.thriftgo,
                "-scratch", os.path.join(ctx.scratch, "gen")]

    def classify(self, code, case):
        if code in (6, 7):
            return "C10-fastread-panic-skip-overrun"
        if code in (13, 14):
            return "C10-fastread-panic-skip-negative-type"
        if code == 17:
            return "C10-fastread-out-of-memory-hostile-size"
        names = {2: "blength-not-exact", 3: "fast-bytes-do-not-decode-to-value", 4: "std-read-of-fast-bytes",
                 5: "fastread-differs-from-std-read", 10: "truncated-encoding-accepted", 11: "fastwrite-differs-from-fastappend",
                 12: "fast-writer-panic", 18: "bitset-tests-wrong", 15: "fastread-panic-truncated-unexplained", 16: "fastread-panic-unexplained"}
        kind = (case or {}).get("kind", "?")
        pert = (case or {}).get("perturbation", "")
        return "C10-%s-%s%s" % (names.get(code, "code-%d" % code), kind, ("-" + pert) if pert else "")


def run(tier):
    return vlib.standard_run(S(), tier)


def replay(path):
    obj = json.load(open(path))
    print(json.dumps(obj, indent=1)[:6000])
    return 0
