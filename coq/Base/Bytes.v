(* Base/Bytes.v — byte strings, hex literals, prefix tests, association lists.
   Stdlib only; no axioms. *)
From Coq Require Import List Arith Bool Lia NArith ZArith.
From Coq.Strings Require Import Byte Ascii String.
Import ListNotations.

Definition bytes := list byte.

Definition beqb (a b : bytes) : bool :=
  if list_eq_dec Byte.byte_eq_dec a b then true else false.

Lemma beqb_true a b : beqb a b = true <-> a = b.
Proof. unfold beqb. destruct (list_eq_dec _ a b); split; congruence. Qed.
Lemma beqb_false a b : beqb a b = false <-> a <> b.
Proof. unfold beqb. destruct (list_eq_dec _ a b); split; congruence. Qed.
Lemma beqb_refl a : beqb a a = true.
Proof. apply beqb_true; reflexivity. Qed.
Lemma beqb_sym a b : beqb a b = beqb b a.
Proof.
  destruct (beqb a b) eqn:E; symmetry.
  - apply beqb_true in E. subst. apply beqb_refl.
  - apply beqb_false. apply beqb_false in E. congruence.
Qed.

Definition B (s : string) : bytes := list_byte_of_string s.

(* hex literals: [hx "48 65"] ; characters that are not hex digits are skipped *)
Definition hexval (a : ascii) : option N :=
  let n := N_of_ascii a in
  if (48 <=? n)%N && (n <=? 57)%N then Some (n - 48)%N
  else if (97 <=? n)%N && (n <=? 102)%N then Some (n - 87)%N
  else if (65 <=? n)%N && (n <=? 70)%N then Some (n - 55)%N
  else None.

Fixpoint hx_go (s : string) (pending : option N) : bytes :=
  match s with
  | EmptyString => []
  | String a r =>
    match hexval a with
    | None => hx_go r pending
    | Some d =>
      match pending with
      | None => hx_go r (Some d)
      | Some h => match Byte.of_N (h * 16 + d) with
                  | Some b => b :: hx_go r None
                  | None => hx_go r None
                  end
      end
    end
  end.
Definition hx (s : string) : bytes := hx_go s None.

(* prefix test and stripping *)
Fixpoint is_prefix (p s : bytes) : bool :=
  match p, s with
  | [], _ => true
  | a :: p', b :: s' => Byte.eqb a b && is_prefix p' s'
  | _ :: _, [] => false
  end.

Lemma byte_eqb_eq a b : Byte.eqb a b = true <-> a = b.
Proof. split; [apply Byte.byte_dec_bl | apply Byte.byte_dec_lb]. Qed.

Lemma is_prefix_spec p s : is_prefix p s = true <-> exists r, s = p ++ r.
Proof.
  revert s; induction p as [|a p IH]; intros s; cbn.
  - split; [intros _; exists s; reflexivity | reflexivity].
  - destruct s as [|b s]; [split; [discriminate | intros [r H]; discriminate]|].
    rewrite andb_true_iff, byte_eqb_eq, IH. split.
    + intros [-> [r ->]]. exists r. reflexivity.
    + intros [r H]. injection H as -> ->. split; [reflexivity | exists r; reflexivity].
Qed.

(* association lists keyed by bytes, insertion ordered *)
Fixpoint lookup {A} (k : bytes) (m : list (bytes * A)) : option A :=
  match m with [] => None | (k', v) :: r => if beqb k k' then Some v else lookup k r end.
Fixpoint update {A} (k : bytes) (v : A) (m : list (bytes * A)) : list (bytes * A) :=
  match m with
  | [] => [(k, v)]
  | (k', v') :: r => if beqb k k' then (k, v) :: r else (k', v') :: update k v r
  end.

Lemma lookup_update_same {A} k (v : A) m : lookup k (update k v m) = Some v.
Proof.
  induction m as [|[k' v'] m IH]; cbn; [rewrite beqb_refl; reflexivity|].
  destruct (beqb k k') eqn:E; cbn; rewrite ?beqb_refl, ?E; auto.
Qed.
Lemma lookup_update_other {A} k k' (v : A) m : k <> k' -> lookup k' (update k v m) = lookup k' m.
Proof.
  intro Hne. induction m as [|[k2 v2] m IH]; cbn.
  - assert (beqb k' k = false) as -> by (apply beqb_false; congruence). reflexivity.
  - destruct (beqb k k2) eqn:E; cbn.
    + apply beqb_true in E; subst k2.
      assert (beqb k' k = false) as -> by (apply beqb_false; congruence). reflexivity.
    + destruct (beqb k' k2); auto.
Qed.

Lemma lookup_In {A} k (v : A) m : lookup k m = Some v -> In (k, v) m.
Proof.
  induction m as [|[k' v'] m IH]; cbn; [discriminate|].
  destruct (beqb k k') eqn:E; [apply beqb_true in E; subst; intros [= ->]; auto | auto].
Qed.
Lemma lookup_None_not_In {A} k (m : list (bytes * A)) : lookup k m = None <-> ~ In k (map fst m).
Proof.
  induction m as [|[k' v'] m IH]; cbn; [tauto|].
  destruct (beqb k k') eqn:E.
  - apply beqb_true in E; subst. split; [discriminate | tauto].
  - apply beqb_false in E. rewrite IH. split; [intros H [H1|H1]; congruence | tauto].
Qed.

(* decimal digits of a nat (N-based to stay cheap) *)
Fixpoint digits_pos (fuel : nat) (n : N) (acc : bytes) : bytes :=
  match fuel with
  | O => acc
  | S f =>
    let d := match Byte.of_N (48 + n mod 10)%N with Some b => b | None => x30 end in
    if (n <? 10)%N then d :: acc else digits_pos f (n / 10)%N (d :: acc)
  end.
Definition digitsN (n : N) : bytes := digits_pos (S (N.to_nat (N.log2 n))) n [].
Definition digits (n : nat) : bytes := digitsN (N.of_nat n).
