(* Idl/Reflect.v — executable model of thriftgo's reflection descriptors (property C15).
   Model only: no proofs here (see Idl/ReflectFacts.v), so it still evaluates when a proof breaks.

   Mirrors
     thrift_reflection/descriptor_creater.go   GetFileDescriptor and its helpers  -> descriptor_of
     utils/name_utils.go                       GetAnnotationsAsMap, ParseAlias, IsBasic, IsContainer
     thrift_reflection/descriptor_marshal.go   Marshal / Unmarshal (meta.Marshal + gzip)
     generator/golang/extension/meta/register.go   instance.Write / instance.Read, as "the Thrift
                                               binary encoding at the schema T-thrift regenerates from
                                               descriptor.thrift" (Wire/SchemaDescriptor.v): field ids,
                                               wire types and requiredness are READ FROM THAT SCHEMA
     thrift_reflection/descriptor_register.go  doRegisterAST / checkDuplicateAndRegister -> registry
     thrift_reflection/descriptor-extend.go    GetIncludeFD, getDescriptor, Get*Descriptor, field /
                                               method lookups, GetParent / GetAllMethods, the
                                               TypeDescriptor resolvers
     thrift_reflection/descriptor_lookup.go    Lookup* (with and without a file path)
     thrift_reflection/descriptor_register_go_type.go   registerGoTypes and the by-Go-type lookups

   Parts: 1 descriptors   2 descriptor_of   3 IDL facts and the two projections
          4 wire codec, marshal / unmarshal   5 registry and lookups   6 Go type table *)
From Coq Require Import List Bool NArith ZArith Permutation.
From Coq.Strings Require Import Byte String.
From Verif Require Import Base.Bytes Base.BE Wire.TType Wire.WVal Wire.Codec Wire.Schema Wire.SchemaDescriptor
  Idl.Ast Idl.AstUtil.
Import ListNotations.
Local Open Scope Z_scope.
Local Open Scope list_scope.

(* ================================================================ 1. descriptors *)

(* a Go map[string]A: entries in some order, keys pairwise distinct.  Built with [update]
   (Base/Bytes.v): Go's  m[k] = v. *)
Definition smap (A : Type) := list (bytes * A).
(* the Extra map of every descriptor: nil (None) straight after GetFileDescriptor; the registry
   writes the Go package path and the uuid of a private registry into it *)
Definition extra_t := option (smap bytes).
(* map<string,list<string>> *)
Definition annos_t := smap (list bytes).

(* TypeDescriptor *)
Inductive tdesc := TDesc {
  tyd_filepath : bytes; tyd_name : bytes; tyd_key : option tdesc; tyd_value : option tdesc; tyd_extra : extra_t }.

(* ConstValueDescriptor.  Type is the ConstValueType number (a Go int64 written as i32); the payload
   fields that do not belong to the type hold their Go zero value.  value_map is a Go map keyed by
   POINTERS: entries never collapse and have no order. *)
Inductive cvdesc := CVD {
  cvd_type : Z; cvd_double : Z; cvd_int : Z; cvd_string : bytes; cvd_bool : bool;
  cvd_list : option (list cvdesc); cvd_map : option (list (cvdesc * cvdesc));
  cvd_ident : bytes; cvd_extra : extra_t }.

Definition CVT_DOUBLE := 0. Definition CVT_INT := 1. Definition CVT_STRING := 2. Definition CVT_BOOL := 3.
Definition CVT_LIST := 4. Definition CVT_MAP := 5. Definition CVT_IDENTIFIER := 6.

Record constdesc := ConstD {
  cd_filepath : bytes; cd_name : bytes; cd_type : tdesc; cd_value : cvdesc; cd_annos : annos_t;
  cd_comments : bytes; cd_extra : extra_t }.
Record typedefdesc := TypedefD {
  tdd_filepath : bytes; tdd_type : tdesc; tdd_alias : bytes; tdd_annos : annos_t; tdd_comments : bytes;
  tdd_extra : extra_t }.
Record enumvaluedesc := EnumValueD {
  evd_filepath : bytes; evd_name : bytes; evd_value : Z; evd_annos : annos_t; evd_comments : bytes;
  evd_extra : extra_t }.
Record enumdesc := EnumD {
  ed_filepath : bytes; ed_name : bytes; ed_values : list enumvaluedesc; ed_annos : annos_t;
  ed_comments : bytes; ed_extra : extra_t }.
Record fielddesc := FieldD {
  fld_filepath : bytes; fld_name : bytes; fld_type : tdesc; fld_req : bytes; fld_id : Z;
  fld_default : option cvdesc; fld_annos : annos_t; fld_comments : bytes; fld_extra : extra_t }.
Record structdesc := StructD {
  sd_filepath : bytes; sd_name : bytes; sd_fields : list fielddesc; sd_annos : annos_t;
  sd_comments : bytes; sd_extra : extra_t }.
Record methoddesc := MethodD {
  md_filepath : bytes; md_name : bytes; md_response : option tdesc; md_args : list fielddesc;
  md_annos : annos_t; md_comments : bytes; md_throws : list fielddesc; md_oneway : bool; md_extra : extra_t }.
Record servicedesc := ServiceD {
  svd_filepath : bytes; svd_name : bytes; svd_methods : list methoddesc; svd_annos : annos_t;
  svd_comments : bytes; svd_extra : extra_t; svd_base : bytes }.
(* FileDescriptor (field order of descriptor.thrift) *)
Record fdesc := FileD {
  fdc_filepath : bytes; fdc_includes : smap bytes; fdc_namespaces : smap bytes;
  fdc_services : list servicedesc; fdc_structs : list structdesc; fdc_exceptions : list structdesc;
  fdc_enums : list enumdesc; fdc_typedefs : list typedefdesc; fdc_unions : list structdesc;
  fdc_consts : list constdesc; fdc_extra : extra_t }.

(* ================================================================ 2. descriptor_of *)

Local Open Scope string_scope.
Definition s_true : bytes := B "true".
Definition s_false : bytes := B "false".
Definition s_star : bytes := B "*".
(* parser.FieldType.String() *)
Definition req_string (r : requiredness) : bytes :=
  match r with ReqDefault => B "Default" | ReqRequired => B "Required" | ReqOptional => B "Optional" end.
Local Close Scope string_scope.

Definition omap {A B} (f : A -> B) (o : option A) : option B :=
  match o with Some a => Some (f a) | None => None end.

(* GetTypeDescriptor: name, key and value type; cpp_type, annotations and resolution info of the
   parser.Type are not copied *)
Fixpoint type_desc (path : bytes) (t : ty) : tdesc :=
  match t with
  | Ty n k v _ _ _ _ _ =>
      TDesc path n
        (match k with Some x => Some (type_desc path x) | None => None end)
        (match v with Some x => Some (type_desc path x) | None => None end) None
  end.

(* utils.GetAnnotationsAsMap: annotationsMap[annotation.Key] = annotation.Values *)
Definition annos_map (a : annotations) : annos_t :=
  fold_left (fun m x => update (an_key x) (an_values x) m) a [].

Definition cvd_plain (ty : Z) (dbl int : Z) (str : bytes) (b : bool) (id : bytes) : cvdesc :=
  CVD ty dbl int str b None None id None.

(* getConstValueDescriptor *)
Fixpoint cv_desc (c : const_value) : cvdesc :=
  match c with
  | CInt z => cvd_plain CVT_INT 0 z [] false []
  | CDouble b => cvd_plain CVT_DOUBLE (Z.of_N b) 0 [] false []
  | CLiteral s => cvd_plain CVT_STRING 0 0 s false []
  | CIdent s _ =>
      if beqb s s_false then cvd_plain CVT_BOOL 0 0 [] false []
      else if beqb s s_true then cvd_plain CVT_BOOL 0 0 [] true []
      else cvd_plain CVT_IDENTIFIER 0 0 [] false s
  | CList l =>
      CVD CVT_LIST 0 0 [] false
        (Some ((fix go (l : list const_value) : list cvdesc :=
                  match l with [] => [] | x :: r => cv_desc x :: go r end) l)) None [] None
  | CMap l =>
      CVD CVT_MAP 0 0 [] false None
        (Some ((fix go (l : list (const_value * const_value)) : list (cvdesc * cvdesc) :=
                  match l with [] => [] | (k, v) :: r => (cv_desc k, cv_desc v) :: go r end) l)) [] None
  end.

(* getFieldDescriptor *)
Definition field_desc (path : bytes) (f : field) : fielddesc :=
  FieldD path (fd_name f) (type_desc path (fd_type f)) (req_string (fd_req f)) (fd_id f)
         (omap cv_desc (fd_default f)) (annos_map (fd_annos f)) (fd_comments f) None.

(* getStructDescriptor *)
Definition struct_desc (path : bytes) (s : struct_like) : structdesc :=
  StructD path (sl_name s) (map (field_desc path) (sl_fields s)) (annos_map (sl_annos s)) (sl_comments s) None.

(* getEnumDescriptor *)
Definition enum_value_desc (path : bytes) (v : enum_value) : enumvaluedesc :=
  EnumValueD path (ev_name v) (ev_value v) (annos_map (ev_annos v)) (ev_comments v) None.
Definition enum_desc (path : bytes) (e : enum) : enumdesc :=
  EnumD path (en_name e) (map (enum_value_desc path) (en_values e)) (annos_map (en_annos e)) (en_comments e) None.

(* getTypedefDescriptor *)
Definition typedef_desc (path : bytes) (t : typedef) : typedefdesc :=
  TypedefD path (type_desc path (td_type t)) (td_alias t) (annos_map (td_annos t)) (td_comments t) None.

(* getMethodDescriptor: the response is always present (the parser always sets FunctionType,
   "void" for a void function) *)
Definition method_desc (path : bytes) (fn : function) : methoddesc :=
  MethodD path (fn_name fn) (Some (type_desc path (fn_type fn))) (map (field_desc path) (fn_args fn))
          (annos_map (fn_annos fn)) (fn_comments fn) (map (field_desc path) (fn_throws fn)) (fn_oneway fn) None.

(* getServiceDescriptor *)
Definition service_desc (path : bytes) (s : service) : servicedesc :=
  ServiceD path (sv_name s) (map (method_desc path) (sv_functions s)) (annos_map (sv_annos s))
           (sv_comments s) None (sv_extends s).

(* getConstDescriptor *)
Definition const_desc (path : bytes) (c : constant) : constdesc :=
  ConstD path (co_name c) (type_desc path (co_type c)) (cv_desc (co_value c)) (annos_map (co_annos c))
         (co_comments c) None.

(* the key under which an include is entered: last element of the "/"-split of the included file's
   Filename without its extension (strings.TrimSuffix(base, filepath.Ext(base))) — the prefix the IDL
   writes before the names of the include, semantic.IDLPrefix.  This is the repaired code
   (proposed_fixes/C15-include-prefix-any-extension.patch; it used to cut ".thrift" only). *)
Definition include_alias (path : bytes) : bytes := idl_prefix path.

(* the Filename of the file an include refers to (inc.GetReference().Filename; a nil Reference makes
   the Go code panic — the parser run with recursive = true always sets it) *)
Definition include_path (i : include) : bytes := match in_ref i with Some p => p | None => [] end.

Definition includes_map (f : file) : smap bytes :=
  fold_left (fun m i => update (include_alias (include_path i)) (include_path i) m) (f_includes f) [].

(* namespaceMap[language] = name, except that a language already entered keeps its FIRST name
   (parser.Thrift.GetNamespace, hence the generator, uses the first namespace of a language) while
   the catch-all "*" keeps the LAST one (GetNamespace again).  This is the repaired code
   (proposed_fixes/C15-namespaces-first-wins.patch). *)
Definition namespaces_map (f : file) : smap bytes :=
  fold_left (fun m n =>
               match lookup (ns_language n) m with
               | Some _ => if beqb (ns_language n) s_star then update (ns_language n) (ns_name n) m else m
               | None => update (ns_language n) (ns_name n) m
               end) (f_namespaces f) [].

(* GetFileDescriptor *)
Definition descriptor_of (f : file) : fdesc :=
  let path := f_filename f in
  FileD path (includes_map f) (namespaces_map f)
        (map (service_desc path) (f_services f))
        (map (struct_desc path) (f_structs f))
        (map (struct_desc path) (f_exceptions f))
        (map (enum_desc path) (f_enums f))
        (map (typedef_desc path) (f_typedefs f))
        (map (struct_desc path) (f_unions f))
        (map (const_desc path) (f_constants f)) None.

(* ================================================================ 3. what the IDL states *)

(* The items property C15 names, as plain data.  [project_a] reads them off the AST (the
   specification: it does not go through descriptor_of), [project_d] reads them off a descriptor. *)

(* a type expression: name with key / value types *)
Inductive tyx := TyX (name : bytes) (key value : option tyx).
(* a constant / default value *)
Inductive cvx :=
| XDouble (bits : Z) | XInt (z : Z) | XString (s : bytes) | XBool (b : bool) | XIdent (s : bytes)
| XList (l : list cvx) | XMap (l : list (cvx * cvx)).
(* annotations: key -> all its values *)
Definition annx := list (bytes * list bytes).

Record fieldx := FieldX {
  fx_name : bytes; fx_id : Z; fx_req : option requiredness; fx_type : tyx; fx_default : option cvx;
  fx_annos : annx; fx_comments : bytes }.
Record structx := StructX { sx_name : bytes; sx_fields : list fieldx; sx_annos : annx; sx_comments : bytes }.
Record enumvaluex := EnumValueX { evx_name : bytes; evx_number : Z; evx_annos : annx; evx_comments : bytes }.
Record enumx := EnumX { ex_name' : bytes; ex_values : list enumvaluex; ex_annos : annx; ex_comments : bytes }.
Record typedefx := TypedefX { tx_alias : bytes; tx_type : tyx; tx_annos : annx; tx_comments : bytes }.
Record methodx := MethodX {
  mx_name : bytes; mx_response : option tyx; mx_args : list fieldx; mx_throws : list fieldx;
  mx_oneway : bool; mx_annos : annx; mx_comments : bytes }.
Record servicex := ServiceX {
  svx_name : bytes; svx_base : bytes; svx_methods : list methodx; svx_annos : annx; svx_comments : bytes }.
Record constx := ConstX { cx_name : bytes; cx_type : tyx; cx_value : cvx; cx_annos : annx; cx_comments : bytes }.
(* one record per file: per definition kind, in source order *)
Record filex := FileX {
  x_path : bytes;
  x_includes : list (bytes * bytes);        (* include prefix -> Filename of the included file *)
  x_namespaces : list (bytes * bytes);      (* language -> namespace *)
  x_structs : list structx; x_unions : list structx; x_exceptions : list structx;
  x_enums : list enumx; x_typedefs : list typedefx; x_services : list servicex; x_consts : list constx }.

(* ---- from the AST ---- *)

Fixpoint tyx_of_ty (t : ty) : tyx :=
  match t with
  | Ty n k v _ _ _ _ _ =>
      TyX n (match k with Some x => Some (tyx_of_ty x) | None => None end)
            (match v with Some x => Some (tyx_of_ty x) | None => None end)
  end.

(* true / false are the boolean literals of the IDL, every other identifier names a constant or an
   enum value *)
Fixpoint cvx_of_cv (c : const_value) : cvx :=
  match c with
  | CDouble b => XDouble (Z.of_N b)
  | CInt z => XInt z
  | CLiteral s => XString s
  | CIdent s _ => if beqb s s_false then XBool false else if beqb s s_true then XBool true else XIdent s
  | CList l => XList ((fix go (l : list const_value) : list cvx :=
                         match l with [] => [] | x :: r => cvx_of_cv x :: go r end) l)
  | CMap l => XMap ((fix go (l : list (const_value * const_value)) : list (cvx * cvx) :=
                       match l with [] => [] | (k, v) :: r => (cvx_of_cv k, cvx_of_cv v) :: go r end) l)
  end.

Definition annx_of_annos (a : annotations) : annx := map (fun x => (an_key x, an_values x)) a.

Definition fieldx_of (f : field) : fieldx :=
  FieldX (fd_name f) (fd_id f) (Some (fd_req f)) (tyx_of_ty (fd_type f)) (omap cvx_of_cv (fd_default f))
         (annx_of_annos (fd_annos f)) (fd_comments f).
Definition structx_of (s : struct_like) : structx :=
  StructX (sl_name s) (map fieldx_of (sl_fields s)) (annx_of_annos (sl_annos s)) (sl_comments s).
Definition enumvaluex_of (v : enum_value) : enumvaluex :=
  EnumValueX (ev_name v) (ev_value v) (annx_of_annos (ev_annos v)) (ev_comments v).
Definition enumx_of (e : enum) : enumx :=
  EnumX (en_name e) (map enumvaluex_of (en_values e)) (annx_of_annos (en_annos e)) (en_comments e).
Definition typedefx_of (t : typedef) : typedefx :=
  TypedefX (td_alias t) (tyx_of_ty (td_type t)) (annx_of_annos (td_annos t)) (td_comments t).
Definition methodx_of (fn : function) : methodx :=
  MethodX (fn_name fn) (Some (tyx_of_ty (fn_type fn))) (map fieldx_of (fn_args fn)) (map fieldx_of (fn_throws fn))
          (fn_oneway fn) (annx_of_annos (fn_annos fn)) (fn_comments fn).
Definition servicex_of (s : service) : servicex :=
  ServiceX (sv_name s) (sv_extends s) (map methodx_of (sv_functions s)) (annx_of_annos (sv_annos s)) (sv_comments s).
Definition constx_of (c : constant) : constx :=
  ConstX (co_name c) (tyx_of_ty (co_type c)) (cvx_of_cv (co_value c)) (annx_of_annos (co_annos c)) (co_comments c).

(* the prefix under which the definitions of an included file are written in this file
   (semantic.IDLPrefix of the include statement: base name of its path without the extension),
   and the file it stands for *)
Definition includes_x (f : file) : list (bytes * bytes) :=
  map (fun i => (idl_prefix (in_path i), include_path i)) (f_includes f).

(* the namespace of a language as thriftgo itself reads the header (parser.Thrift.GetNamespace,
   restricted to the languages the file names): the FIRST namespace line of a language, the LAST
   one for the catch-all "*" *)
Definition first_ns (l : bytes) (ns : list namespace) : option bytes :=
  omap ns_name (find (fun n => beqb (ns_language n) l) ns).
Definition last_ns (l : bytes) (ns : list namespace) : option bytes := first_ns l (rev ns).
Definition ns_of_language (l : bytes) (ns : list namespace) : bytes :=
  match (if beqb l s_star then last_ns l ns else first_ns l ns) with Some n => n | None => [] end.
(* the languages in order of first mention *)
Fixpoint dedup (seen l : list bytes) : list bytes :=
  match l with
  | [] => []
  | x :: r => if existsb (beqb x) seen then dedup seen r else x :: dedup (x :: seen) r
  end.
Definition namespaces_x (f : file) : list (bytes * bytes) :=
  map (fun l => (l, ns_of_language l (f_namespaces f))) (dedup [] (map ns_language (f_namespaces f))).

Definition project_a (f : file) : filex :=
  FileX (f_filename f) (includes_x f) (namespaces_x f)
        (map structx_of (f_structs f)) (map structx_of (f_unions f)) (map structx_of (f_exceptions f))
        (map enumx_of (f_enums f)) (map typedefx_of (f_typedefs f)) (map servicex_of (f_services f))
        (map constx_of (f_constants f)).

(* ---- from a descriptor ---- *)

Fixpoint tyx_of_tdesc (t : tdesc) : tyx :=
  match t with
  | TDesc _ n k v _ =>
      TyX n (match k with Some x => Some (tyx_of_tdesc x) | None => None end)
            (match v with Some x => Some (tyx_of_tdesc x) | None => None end)
  end.

(* the payload the type number announces; an unknown number reads as the identifier field *)
Fixpoint cvx_of_cvdesc (c : cvdesc) : cvx :=
  match c with
  | CVD ty dbl int str b l m id _ =>
      if ty =? CVT_DOUBLE then XDouble dbl
      else if ty =? CVT_INT then XInt int
      else if ty =? CVT_STRING then XString str
      else if ty =? CVT_BOOL then XBool b
      else if ty =? CVT_LIST then
        XList (match l with
               | Some l => (fix go (l : list cvdesc) : list cvx :=
                              match l with [] => [] | x :: r => cvx_of_cvdesc x :: go r end) l
               | None => [] end)
      else if ty =? CVT_MAP then
        XMap (match m with
              | Some m => (fix go (l : list (cvdesc * cvdesc)) : list (cvx * cvx) :=
                             match l with [] => [] | (k, v) :: r => (cvx_of_cvdesc k, cvx_of_cvdesc v) :: go r end) m
              | None => [] end)
      else XIdent id
  end.

Definition req_of_string (s : bytes) : option requiredness :=
  if beqb s (req_string ReqDefault) then Some ReqDefault
  else if beqb s (req_string ReqRequired) then Some ReqRequired
  else if beqb s (req_string ReqOptional) then Some ReqOptional else None.

Definition fieldx_of_desc (f : fielddesc) : fieldx :=
  FieldX (fld_name f) (fld_id f) (req_of_string (fld_req f)) (tyx_of_tdesc (fld_type f))
         (omap cvx_of_cvdesc (fld_default f)) (fld_annos f) (fld_comments f).
Definition structx_of_desc (s : structdesc) : structx :=
  StructX (sd_name s) (map fieldx_of_desc (sd_fields s)) (sd_annos s) (sd_comments s).
Definition enumvaluex_of_desc (v : enumvaluedesc) : enumvaluex :=
  EnumValueX (evd_name v) (evd_value v) (evd_annos v) (evd_comments v).
Definition enumx_of_desc (e : enumdesc) : enumx :=
  EnumX (ed_name e) (map enumvaluex_of_desc (ed_values e)) (ed_annos e) (ed_comments e).
Definition typedefx_of_desc (t : typedefdesc) : typedefx :=
  TypedefX (tdd_alias t) (tyx_of_tdesc (tdd_type t)) (tdd_annos t) (tdd_comments t).
Definition methodx_of_desc (m : methoddesc) : methodx :=
  MethodX (md_name m) (omap tyx_of_tdesc (md_response m)) (map fieldx_of_desc (md_args m))
          (map fieldx_of_desc (md_throws m)) (md_oneway m) (md_annos m) (md_comments m).
Definition servicex_of_desc (s : servicedesc) : servicex :=
  ServiceX (svd_name s) (svd_base s) (map methodx_of_desc (svd_methods s)) (svd_annos s) (svd_comments s).
Definition constx_of_desc (c : constdesc) : constx :=
  ConstX (cd_name c) (tyx_of_tdesc (cd_type c)) (cvx_of_cvdesc (cd_value c)) (cd_annos c) (cd_comments c).

Definition project_d (d : fdesc) : filex :=
  FileX (fdc_filepath d) (fdc_includes d) (fdc_namespaces d)
        (map structx_of_desc (fdc_structs d)) (map structx_of_desc (fdc_unions d))
        (map structx_of_desc (fdc_exceptions d)) (map enumx_of_desc (fdc_enums d))
        (map typedefx_of_desc (fdc_typedefs d)) (map servicex_of_desc (fdc_services d))
        (map constx_of_desc (fdc_consts d)).

(* every Filepath a descriptor carries (they all repeat the file's own path) *)
Fixpoint tdesc_paths (t : tdesc) : list bytes :=
  match t with
  | TDesc p _ k v _ => p :: (match k with Some x => tdesc_paths x | None => [] end)
                         ++ (match v with Some x => tdesc_paths x | None => [] end)
  end.
Definition field_paths (f : fielddesc) : list bytes := fld_filepath f :: tdesc_paths (fld_type f).
Definition paths_of (d : fdesc) : list bytes :=
  fdc_filepath d ::
  flat_map (fun s => sd_filepath s :: flat_map field_paths (sd_fields s)) (fdc_structs d ++ fdc_unions d ++ fdc_exceptions d)
  ++ flat_map (fun e => ed_filepath e :: map evd_filepath (ed_values e)) (fdc_enums d)
  ++ flat_map (fun t => tdd_filepath t :: tdesc_paths (tdd_type t)) (fdc_typedefs d)
  ++ flat_map (fun s => svd_filepath s ::
                 flat_map (fun m => md_filepath m :: (match md_response m with Some t => tdesc_paths t | None => [] end)
                                      ++ flat_map field_paths (md_args m) ++ flat_map field_paths (md_throws m))
                          (svd_methods s)) (fdc_services d)
  ++ flat_map (fun c => cd_filepath c :: tdesc_paths (cd_type c)) (fdc_consts d).

(* ---- hypotheses of the theorems, as decidable tests ---- *)

Fixpoint nodupb (l : list bytes) : bool :=
  match l with [] => true | x :: r => negb (existsb (beqb x) r) && nodupb r end.

(* what the parser guarantees: the annotations of a node have pairwise distinct keys
   (Annotations.Append groups repeated keys; Idl/ParseFacts.v annos_of_pairs_grouped) *)
Definition annos_ok (a : annotations) : bool := nodupb (map an_key a).
Definition field_annos_ok (f : field) : bool := annos_ok (fd_annos f).
Definition file_annos_ok (f : file) : bool :=
  forallb (fun s => annos_ok (sl_annos s) && forallb field_annos_ok (sl_fields s)) (struct_likes f) &&
  forallb (fun e => annos_ok (en_annos e) && forallb (fun v => annos_ok (ev_annos v)) (en_values e)) (f_enums f) &&
  forallb (fun t => annos_ok (td_annos t)) (f_typedefs f) &&
  forallb (fun c => annos_ok (co_annos c)) (f_constants f) &&
  forallb (fun s => annos_ok (sv_annos s) &&
                    forallb (fun fn => annos_ok (fn_annos fn) && forallb field_annos_ok (fn_args fn) &&
                                       forallb field_annos_ok (fn_throws fn)) (sv_functions s)) (f_services f).

(* no two includes of the file share a base name *)
Definition distinct_basenames (f : file) : bool :=
  nodupb (map (fun i => include_alias (include_path i)) (f_includes f)).
(* every include was parsed (Reference set) and the file found has the base name the statement
   wrote: then the key of the descriptor's include map is the prefix the IDL uses for the file *)
Definition includes_plain (f : file) : bool :=
  forallb (fun i => match in_ref i with
                    | Some p => beqb (base_name (in_path i)) (base_name p)
                    | None => false end) (f_includes f).

(* included files and their prefixes have names (the parser never delivers an empty one) *)
Definition includes_named (f : file) : bool :=
  forallb (fun i => negb (match include_path i with [] => true | _ => false end) &&
                    negb (match include_alias (include_path i) with [] => true | _ => false end)) (f_includes f).

(* ================================================================ 4. wire codec *)

(* meta.Marshal / meta.Unmarshal on the descriptor structs, as the Thrift binary encoding at the
   schema of descriptor.thrift.  (wire type, field id, requiredness) of every field of a struct of
   the regenerated schema, in declaration order: *)
Definition fields_of (n : bytes) : list Schema.field :=
  match Schema.find_struct schema_descriptor n with Some s => s_fields s | None => [] end.
Definition layout (n : bytes) : list (ttype * Z * req) :=
  map (fun f => (spec_ttype (f_ty f), f_id f, f_req f)) (fields_of n).

Local Open Scope string_scope.
Definition lay_type      := Eval vm_compute in layout (B "descriptor.TypeDescriptor").
Definition lay_const     := Eval vm_compute in layout (B "descriptor.ConstDescriptor").
Definition lay_cv        := Eval vm_compute in layout (B "descriptor.ConstValueDescriptor").
Definition lay_typedef   := Eval vm_compute in layout (B "descriptor.TypedefDescriptor").
Definition lay_enum      := Eval vm_compute in layout (B "descriptor.EnumDescriptor").
Definition lay_enumvalue := Eval vm_compute in layout (B "descriptor.EnumValueDescriptor").
Definition lay_field     := Eval vm_compute in layout (B "descriptor.FieldDescriptor").
Definition lay_struct    := Eval vm_compute in layout (B "descriptor.StructDescriptor").
Definition lay_method    := Eval vm_compute in layout (B "descriptor.MethodDescriptor").
Definition lay_service   := Eval vm_compute in layout (B "descriptor.ServiceDescriptor").
Definition lay_file      := Eval vm_compute in layout (B "descriptor.FileDescriptor").
Local Close Scope string_scope.

(* ---- generic layer: a struct as slots in declaration order ---- *)

(* a slot: the payload and whether the Go field holds its zero value (reflect.Value.IsZero) *)
Definition slot := (wval * bool)%type.
Definition nz (w : wval) : slot := (w, false).

(* instance.Write: fields in declaration order; an OPTIONAL field holding the zero value is not
   written *)
Fixpoint emit (lay : list (ttype * Z * req)) (sl : list slot) : list wfield :=
  match lay, sl with
  | (t, id, r) :: lay', (w, z) :: sl' =>
      if req_eqb r Optional && z then emit lay' sl' else (t, id, w) :: emit lay' sl'
  | _, _ => []
  end.
Definition wstruct (lay : list (ttype * Z * req)) (sl : list slot) : wval := WStruct (emit lay sl).

Section Find.
  Context {A : Type} (d : wval -> option A).
  (* instance.Read: the field loop dispatches on (id, wire type) (findField); anything else is
     skipped; a field that occurs twice is assigned twice (the last one stays).
     None = no such field;  Some None = present but its value does not decode *)
  Fixpoint wfind (key : ttype * Z) (fs : list wfield) : option (option A) :=
    match fs with
    | [] => None
    | (t', id', w) :: r =>
        match wfind key r with
        | Some x => Some x
        | None => if (snd key =? id') && ttype_eqb (fst key) t' then Some (d w) else None
        end
    end.
  Fixpoint mapo (l : list wval) : option (list A) :=
    match l with
    | [] => Some []
    | x :: r => match d x, mapo r with Some y, Some ys => Some (y :: ys) | _, _ => None end
    end.
End Find.

Definition nokey : ttype * Z * req := (T_BOOL, (-1), Default).
Definition get {A} (d : wval -> option A) (lay : list (ttype * Z * req)) (i : nat) (fs : list wfield) : option (option A) :=
  wfind d (fst (nth i lay nokey)) fs.

(* a required field: Read fails when it is absent *)
Definition need {A} (x : option (option A)) : option A :=
  match x with Some r => r | None => None end.
(* an optional field: absent = nil *)
Definition opt {A} (x : option (option A)) : option (option A) :=
  match x with None => Some None | Some (Some a) => Some (Some a) | Some None => None end.
(* an optional field with a default (NewX() stores it): absent = the default *)
Definition dflt {A} (z : A) (x : option (option A)) : option A :=
  match x with None => Some z | Some r => r end.

Definition d_str (w : wval) : option bytes := match w with WStr s => Some s | _ => None end.
Definition d_bool (w : wval) : option bool := match w with WBool b => Some b | _ => None end.
Definition d_i32 (w : wval) : option Z := match w with WI32 z => Some z | _ => None end.
Definition d_i64 (w : wval) : option Z := match w with WI64 z => Some z | _ => None end.
Definition d_dbl (w : wval) : option Z := match w with WDouble z => Some z | _ => None end.
Definition d_list {A} (d : wval -> option A) (w : wval) : option (list A) :=
  match w with WList _ l => mapo d l | _ => None end.
Definition w_strs (l : list bytes) : wval := WList T_STRING (map WStr l).
Definition w_structs {A} (e : A -> wval) (l : list A) : wval := WList T_STRUCT (map e l).

(* a Go map[string]A: written entry by entry; read with m[k] = v (a repeated key keeps the last
   value) *)
Definition w_smap {A} (vt : ttype) (e : A -> wval) (m : smap A) : wval :=
  WMap T_STRING vt (map (fun kv => (WStr (fst kv), e (snd kv))) m).
Fixpoint d_pairs {A} (d : wval -> option A) (l : list (wval * wval)) : option (list (bytes * A)) :=
  match l with
  | [] => Some []
  | (k, v) :: r => match d_str k, d v, d_pairs d r with
                   | Some a, Some b, Some rs => Some ((a, b) :: rs) | _, _, _ => None end
  end.
Definition build_smap {A} (l : list (bytes * A)) : smap A :=
  fold_left (fun m kv => update (fst kv) (snd kv) m) l [].
Definition d_smap {A} (d : wval -> option A) (w : wval) : option (smap A) :=
  match w with WMap _ _ l => omap build_smap (d_pairs d l) | _ => None end.

(* the Extra map: nil is the zero value *)
Definition s_extra (e : extra_t) : slot :=
  match e with Some m => (w_smap T_STRING WStr m, false) | None => (WMap T_STRING T_STRING [], true) end.
Definition d_extra : wval -> option (smap bytes) := d_smap d_str.
Definition s_annos (a : annos_t) : slot := nz (w_smap T_LIST w_strs a).
Definition d_annos : wval -> option annos_t := d_smap (d_list d_str).
Definition s_opt {A} (e : A -> wval) (o : option A) : slot :=
  match o with Some a => (e a, false) | None => (WStruct [], true) end.

(* ---- the eleven structs ---- *)

Fixpoint enc_tdesc (t : tdesc) : wval :=
  match t with
  | TDesc p n k v ex =>
      wstruct lay_type
        [nz (WStr p); nz (WStr n);
         match k with Some x => (enc_tdesc x, false) | None => (WStruct [], true) end;
         match v with Some x => (enc_tdesc x, false) | None => (WStruct [], true) end;
         s_extra ex]
  end.
Fixpoint dec_tdesc (w : wval) : option tdesc :=
  match w with
  | WStruct fs =>
      match need (get d_str lay_type 0 fs), need (get d_str lay_type 1 fs),
            opt (get dec_tdesc lay_type 2 fs), opt (get dec_tdesc lay_type 3 fs),
            opt (get d_extra lay_type 4 fs) with
      | Some p, Some n, Some k, Some v, Some ex => Some (TDesc p n k v ex)
      | _, _, _, _, _ => None
      end
  | _ => None
  end.

(* enums are Go int64 written as i32: WriteI32(int32(v)) *)
Fixpoint enc_cvdesc (c : cvdesc) : wval :=
  match c with
  | CVD ty dbl int str b l m id ex =>
      wstruct lay_cv
        [nz (WI32 (wrap32 ty)); nz (WDouble dbl); nz (WI64 int); nz (WStr str); nz (WBool b);
         match l with
         | Some l => (WList T_STRUCT ((fix go (l : list cvdesc) : list wval :=
                                         match l with [] => [] | x :: r => enc_cvdesc x :: go r end) l), false)
         | None => (WList T_STRUCT [], true) end;
         match m with
         | Some m => (WMap T_STRUCT T_STRUCT
                        ((fix go (l : list (cvdesc * cvdesc)) : list (wval * wval) :=
                            match l with [] => [] | (k, v) :: r => (enc_cvdesc k, enc_cvdesc v) :: go r end) m), false)
         | None => (WMap T_STRUCT T_STRUCT [], true) end;
         nz (WStr id); s_extra ex]
  end.
(* value_map is keyed by pointers: every entry read is a new key *)
Fixpoint dec_cvdesc (w : wval) : option cvdesc :=
  match w with
  | WStruct fs =>
      match need (get d_i32 lay_cv 0 fs), need (get d_dbl lay_cv 1 fs), need (get d_i64 lay_cv 2 fs),
            need (get d_str lay_cv 3 fs), need (get d_bool lay_cv 4 fs),
            opt (get (d_list dec_cvdesc) lay_cv 5 fs),
            opt (get (fun w => match w with
                               | WMap _ _ kvs =>
                                   (fix go (l : list (wval * wval)) : option (list (cvdesc * cvdesc)) :=
                                      match l with
                                      | [] => Some []
                                      | (k, v) :: r => match dec_cvdesc k, dec_cvdesc v, go r with
                                                       | Some a, Some b, Some rs => Some ((a, b) :: rs)
                                                       | _, _, _ => None end
                                      end) kvs
                               | _ => None end) lay_cv 6 fs),
            need (get d_str lay_cv 7 fs), opt (get d_extra lay_cv 8 fs) with
      | Some ty, Some dbl, Some int, Some str, Some b, Some l, Some m, Some id, Some ex =>
          Some (CVD ty dbl int str b l m id ex)
      | _, _, _, _, _, _, _, _, _ => None
      end
  | _ => None
  end.

Definition enc_constdesc (c : constdesc) : wval :=
  wstruct lay_const
    [nz (WStr (cd_filepath c)); nz (WStr (cd_name c)); nz (enc_tdesc (cd_type c)); nz (enc_cvdesc (cd_value c));
     s_annos (cd_annos c); nz (WStr (cd_comments c)); s_extra (cd_extra c)].
Definition dec_constdesc (w : wval) : option constdesc :=
  match w with
  | WStruct fs =>
      match need (get d_str lay_const 0 fs), need (get d_str lay_const 1 fs), need (get dec_tdesc lay_const 2 fs),
            need (get dec_cvdesc lay_const 3 fs), need (get d_annos lay_const 4 fs), need (get d_str lay_const 5 fs),
            opt (get d_extra lay_const 6 fs) with
      | Some p, Some n, Some t, Some v, Some an, Some c, Some ex => Some (ConstD p n t v an c ex)
      | _, _, _, _, _, _, _ => None end
  | _ => None end.

Definition enc_typedefdesc (t : typedefdesc) : wval :=
  wstruct lay_typedef
    [nz (WStr (tdd_filepath t)); nz (enc_tdesc (tdd_type t)); nz (WStr (tdd_alias t)); s_annos (tdd_annos t);
     nz (WStr (tdd_comments t)); s_extra (tdd_extra t)].
Definition dec_typedefdesc (w : wval) : option typedefdesc :=
  match w with
  | WStruct fs =>
      match need (get d_str lay_typedef 0 fs), need (get dec_tdesc lay_typedef 1 fs), need (get d_str lay_typedef 2 fs),
            need (get d_annos lay_typedef 3 fs), need (get d_str lay_typedef 4 fs), opt (get d_extra lay_typedef 5 fs) with
      | Some p, Some t, Some a, Some an, Some c, Some ex => Some (TypedefD p t a an c ex)
      | _, _, _, _, _, _ => None end
  | _ => None end.

Definition enc_enumvaluedesc (v : enumvaluedesc) : wval :=
  wstruct lay_enumvalue
    [nz (WStr (evd_filepath v)); nz (WStr (evd_name v)); nz (WI64 (evd_value v)); s_annos (evd_annos v);
     nz (WStr (evd_comments v)); s_extra (evd_extra v)].
Definition dec_enumvaluedesc (w : wval) : option enumvaluedesc :=
  match w with
  | WStruct fs =>
      match need (get d_str lay_enumvalue 0 fs), need (get d_str lay_enumvalue 1 fs), need (get d_i64 lay_enumvalue 2 fs),
            need (get d_annos lay_enumvalue 3 fs), need (get d_str lay_enumvalue 4 fs), opt (get d_extra lay_enumvalue 5 fs) with
      | Some p, Some n, Some v, Some an, Some c, Some ex => Some (EnumValueD p n v an c ex)
      | _, _, _, _, _, _ => None end
  | _ => None end.

Definition enc_enumdesc (e : enumdesc) : wval :=
  wstruct lay_enum
    [nz (WStr (ed_filepath e)); nz (WStr (ed_name e)); nz (w_structs enc_enumvaluedesc (ed_values e));
     s_annos (ed_annos e); nz (WStr (ed_comments e)); s_extra (ed_extra e)].
Definition dec_enumdesc (w : wval) : option enumdesc :=
  match w with
  | WStruct fs =>
      match need (get d_str lay_enum 0 fs), need (get d_str lay_enum 1 fs), need (get (d_list dec_enumvaluedesc) lay_enum 2 fs),
            need (get d_annos lay_enum 3 fs), need (get d_str lay_enum 4 fs), opt (get d_extra lay_enum 5 fs) with
      | Some p, Some n, Some v, Some an, Some c, Some ex => Some (EnumD p n v an c ex)
      | _, _, _, _, _, _ => None end
  | _ => None end.

Definition enc_fielddesc (f : fielddesc) : wval :=
  wstruct lay_field
    [nz (WStr (fld_filepath f)); nz (WStr (fld_name f)); nz (enc_tdesc (fld_type f)); nz (WStr (fld_req f));
     nz (WI32 (fld_id f)); s_opt enc_cvdesc (fld_default f); s_annos (fld_annos f); nz (WStr (fld_comments f));
     s_extra (fld_extra f)].
Definition dec_fielddesc (w : wval) : option fielddesc :=
  match w with
  | WStruct fs =>
      match need (get d_str lay_field 0 fs), need (get d_str lay_field 1 fs), need (get dec_tdesc lay_field 2 fs),
            need (get d_str lay_field 3 fs), need (get d_i32 lay_field 4 fs), opt (get dec_cvdesc lay_field 5 fs),
            need (get d_annos lay_field 6 fs), need (get d_str lay_field 7 fs), opt (get d_extra lay_field 8 fs) with
      | Some p, Some n, Some t, Some r, Some i, Some d, Some an, Some c, Some ex => Some (FieldD p n t r i d an c ex)
      | _, _, _, _, _, _, _, _, _ => None end
  | _ => None end.
Definition enc_fielddescs (l : list fielddesc) : wval := w_structs enc_fielddesc l.
Definition dec_fielddescs : wval -> option (list fielddesc) := d_list dec_fielddesc.

Definition enc_structdesc (s : structdesc) : wval :=
  wstruct lay_struct
    [nz (WStr (sd_filepath s)); nz (WStr (sd_name s)); nz (enc_fielddescs (sd_fields s)); s_annos (sd_annos s);
     nz (WStr (sd_comments s)); s_extra (sd_extra s)].
Definition dec_structdesc (w : wval) : option structdesc :=
  match w with
  | WStruct fs =>
      match need (get d_str lay_struct 0 fs), need (get d_str lay_struct 1 fs), need (get dec_fielddescs lay_struct 2 fs),
            need (get d_annos lay_struct 3 fs), need (get d_str lay_struct 4 fs), opt (get d_extra lay_struct 5 fs) with
      | Some p, Some n, Some f, Some an, Some c, Some ex => Some (StructD p n f an c ex)
      | _, _, _, _, _, _ => None end
  | _ => None end.

Definition enc_methoddesc (m : methoddesc) : wval :=
  wstruct lay_method
    [nz (WStr (md_filepath m)); nz (WStr (md_name m)); s_opt enc_tdesc (md_response m); nz (enc_fielddescs (md_args m));
     s_annos (md_annos m); nz (WStr (md_comments m)); nz (enc_fielddescs (md_throws m)); nz (WBool (md_oneway m));
     s_extra (md_extra m)].
Definition dec_methoddesc (w : wval) : option methoddesc :=
  match w with
  | WStruct fs =>
      match need (get d_str lay_method 0 fs), need (get d_str lay_method 1 fs), opt (get dec_tdesc lay_method 2 fs),
            need (get dec_fielddescs lay_method 3 fs), need (get d_annos lay_method 4 fs), need (get d_str lay_method 5 fs),
            need (get dec_fielddescs lay_method 6 fs), need (get d_bool lay_method 7 fs), opt (get d_extra lay_method 8 fs) with
      | Some p, Some n, Some r, Some a, Some an, Some c, Some t, Some o, Some ex => Some (MethodD p n r a an c t o ex)
      | _, _, _, _, _, _, _, _, _ => None end
  | _ => None end.

(* base is optional with the default "": the empty string is not written, NewServiceDescriptor()
   stores "" *)
Definition enc_servicedesc (s : servicedesc) : wval :=
  wstruct lay_service
    [nz (WStr (svd_filepath s)); nz (WStr (svd_name s)); nz (w_structs enc_methoddesc (svd_methods s));
     s_annos (svd_annos s); nz (WStr (svd_comments s)); s_extra (svd_extra s);
     (WStr (svd_base s), match svd_base s with [] => true | _ => false end)].
Definition dec_servicedesc (w : wval) : option servicedesc :=
  match w with
  | WStruct fs =>
      match need (get d_str lay_service 0 fs), need (get d_str lay_service 1 fs),
            need (get (d_list dec_methoddesc) lay_service 2 fs), need (get d_annos lay_service 3 fs),
            need (get d_str lay_service 4 fs), opt (get d_extra lay_service 5 fs), dflt [] (get d_str lay_service 6 fs) with
      | Some p, Some n, Some m, Some an, Some c, Some ex, Some b => Some (ServiceD p n m an c ex b)
      | _, _, _, _, _, _, _ => None end
  | _ => None end.

Definition s_strmap (m : smap bytes) : slot := nz (w_smap T_STRING WStr m).

Definition enc_fdesc (d : fdesc) : wval :=
  wstruct lay_file
    [nz (WStr (fdc_filepath d)); s_strmap (fdc_includes d); s_strmap (fdc_namespaces d);
     nz (w_structs enc_servicedesc (fdc_services d)); nz (w_structs enc_structdesc (fdc_structs d));
     nz (w_structs enc_structdesc (fdc_exceptions d)); nz (w_structs enc_enumdesc (fdc_enums d));
     nz (w_structs enc_typedefdesc (fdc_typedefs d)); nz (w_structs enc_structdesc (fdc_unions d));
     nz (w_structs enc_constdesc (fdc_consts d)); s_extra (fdc_extra d)].
Definition dec_fdesc (w : wval) : option fdesc :=
  match w with
  | WStruct fs =>
      match need (get d_str lay_file 0 fs), need (get d_extra lay_file 1 fs), need (get d_extra lay_file 2 fs),
            need (get (d_list dec_servicedesc) lay_file 3 fs), need (get (d_list dec_structdesc) lay_file 4 fs),
            need (get (d_list dec_structdesc) lay_file 5 fs), need (get (d_list dec_enumdesc) lay_file 6 fs),
            need (get (d_list dec_typedefdesc) lay_file 7 fs), need (get (d_list dec_structdesc) lay_file 8 fs),
            need (get (d_list dec_constdesc) lay_file 9 fs), opt (get d_extra lay_file 10 fs) with
      | Some p, Some inc, Some ns, Some sv, Some st, Some xs, Some en, Some td, Some un, Some cs, Some ex =>
          Some (FileD p inc ns sv st xs en td un cs ex)
      | _, _, _, _, _, _, _, _, _, _, _ => None end
  | _ => None end.

(* the same test as a boolean on the encodings (used by the correspondence check): equal up to the
   order of map entries at every level *)
Definition fdesc_equivb (a b : fdesc) : bool := weq_mod false (enc_fdesc a) (enc_fdesc b).

(* ---- descriptors equal up to the order of map entries ---- *)

(* Go maps have no order: two descriptors are equivalent when they differ only in the order in which
   the entries of their maps (annotations, includes, namespaces, Extra, value_map) are listed, at
   every level.  value_map is keyed by pointers: its entries are compared as pairs. *)
Inductive optR {A} (R : A -> A -> Prop) : option A -> option A -> Prop :=
| optR_None : optR R None None
| optR_Some x y : R x y -> optR R (Some x) (Some y).
Inductive pairR {A} (R : A -> A -> Prop) : A * A -> A * A -> Prop :=
| pairR_intro a b a' b' : R a a' -> R b b' -> pairR R (a, b) (a', b').
(* a permutation followed by an element-wise relation *)
Inductive PermR {A} (R : A -> A -> Prop) : list A -> list A -> Prop :=
| PermR_intro l l0 l' : Permutation l l0 -> Forall2 R l0 l' -> PermR R l l'.

Definition extra_eq (e e' : extra_t) : Prop := optR (@Permutation (bytes * bytes)) e e'.

Fixpoint tdesc_eq (a b : tdesc) : Prop :=
  match a, b with
  | TDesc p n k v ex, TDesc p' n' k' v' ex' =>
      p = p' /\ n = n' /\
      match k, k' with Some x, Some y => tdesc_eq x y | None, None => True | _, _ => False end /\
      match v, v' with Some x, Some y => tdesc_eq x y | None, None => True | _, _ => False end /\
      extra_eq ex ex'
  end.

Inductive cvd_eq : cvdesc -> cvdesc -> Prop :=
| cvd_eq_intro ty dbl int str b l l' m m' id ex ex' :
    optR (Forall2 cvd_eq) l l' -> optR (PermR (pairR cvd_eq)) m m' -> extra_eq ex ex' ->
    cvd_eq (CVD ty dbl int str b l m id ex) (CVD ty dbl int str b l' m' id ex').

Definition fielddesc_eq (a b : fielddesc) : Prop :=
  fld_filepath a = fld_filepath b /\ fld_name a = fld_name b /\ tdesc_eq (fld_type a) (fld_type b) /\
  fld_req a = fld_req b /\ fld_id a = fld_id b /\ optR cvd_eq (fld_default a) (fld_default b) /\
  Permutation (fld_annos a) (fld_annos b) /\ fld_comments a = fld_comments b /\ extra_eq (fld_extra a) (fld_extra b).
Definition structdesc_eq (a b : structdesc) : Prop :=
  sd_filepath a = sd_filepath b /\ sd_name a = sd_name b /\ Forall2 fielddesc_eq (sd_fields a) (sd_fields b) /\
  Permutation (sd_annos a) (sd_annos b) /\ sd_comments a = sd_comments b /\ extra_eq (sd_extra a) (sd_extra b).
Definition enumvaluedesc_eq (a b : enumvaluedesc) : Prop :=
  evd_filepath a = evd_filepath b /\ evd_name a = evd_name b /\ evd_value a = evd_value b /\
  Permutation (evd_annos a) (evd_annos b) /\ evd_comments a = evd_comments b /\ extra_eq (evd_extra a) (evd_extra b).
Definition enumdesc_eq (a b : enumdesc) : Prop :=
  ed_filepath a = ed_filepath b /\ ed_name a = ed_name b /\ Forall2 enumvaluedesc_eq (ed_values a) (ed_values b) /\
  Permutation (ed_annos a) (ed_annos b) /\ ed_comments a = ed_comments b /\ extra_eq (ed_extra a) (ed_extra b).
Definition typedefdesc_eq (a b : typedefdesc) : Prop :=
  tdd_filepath a = tdd_filepath b /\ tdesc_eq (tdd_type a) (tdd_type b) /\ tdd_alias a = tdd_alias b /\
  Permutation (tdd_annos a) (tdd_annos b) /\ tdd_comments a = tdd_comments b /\ extra_eq (tdd_extra a) (tdd_extra b).
Definition methoddesc_eq (a b : methoddesc) : Prop :=
  md_filepath a = md_filepath b /\ md_name a = md_name b /\ optR tdesc_eq (md_response a) (md_response b) /\
  Forall2 fielddesc_eq (md_args a) (md_args b) /\ Permutation (md_annos a) (md_annos b) /\
  md_comments a = md_comments b /\ Forall2 fielddesc_eq (md_throws a) (md_throws b) /\ md_oneway a = md_oneway b /\
  extra_eq (md_extra a) (md_extra b).
Definition servicedesc_eq (a b : servicedesc) : Prop :=
  svd_filepath a = svd_filepath b /\ svd_name a = svd_name b /\ Forall2 methoddesc_eq (svd_methods a) (svd_methods b) /\
  Permutation (svd_annos a) (svd_annos b) /\ svd_comments a = svd_comments b /\ extra_eq (svd_extra a) (svd_extra b) /\
  svd_base a = svd_base b.
Definition constdesc_eq (a b : constdesc) : Prop :=
  cd_filepath a = cd_filepath b /\ cd_name a = cd_name b /\ tdesc_eq (cd_type a) (cd_type b) /\
  cvd_eq (cd_value a) (cd_value b) /\ Permutation (cd_annos a) (cd_annos b) /\ cd_comments a = cd_comments b /\
  extra_eq (cd_extra a) (cd_extra b).
Definition fdesc_equiv (a b : fdesc) : Prop :=
  fdc_filepath a = fdc_filepath b /\ Permutation (fdc_includes a) (fdc_includes b) /\
  Permutation (fdc_namespaces a) (fdc_namespaces b) /\
  Forall2 servicedesc_eq (fdc_services a) (fdc_services b) /\ Forall2 structdesc_eq (fdc_structs a) (fdc_structs b) /\
  Forall2 structdesc_eq (fdc_exceptions a) (fdc_exceptions b) /\ Forall2 enumdesc_eq (fdc_enums a) (fdc_enums b) /\
  Forall2 typedefdesc_eq (fdc_typedefs a) (fdc_typedefs b) /\ Forall2 structdesc_eq (fdc_unions a) (fdc_unions b) /\
  Forall2 constdesc_eq (fdc_consts a) (fdc_consts b) /\ extra_eq (fdc_extra a) (fdc_extra b).

(* meta.Marshal / meta.Unmarshal: one struct through the binary protocol *)
Definition meta_marshal (d : fdesc) : bytes := enc (enc_fdesc d).
Definition meta_unmarshal (bs : bytes) : option fdesc :=
  match dec_struct bs with Some (w, _) => dec_fdesc w | None => None end.

(* FileDescriptor.Marshal / Unmarshal: the same through gzip.  compress/gzip is not modelled:
   it enters as a pair of functions (the facts file assumes  unzip (zip x) = Some x  for them). *)
Section Gzip.
  Variable zip : bytes -> bytes.
  Variable unzip : bytes -> option bytes.
  Definition marshal (d : fdesc) : bytes := zip (meta_marshal d).
  Definition unmarshal (bs : bytes) : option fdesc :=
    match unzip bs with Some raw => meta_unmarshal raw | None => None end.
End Gzip.

(* ---- the descriptors the round trip is stated for ---- *)

(* Go maps have pairwise distinct keys; the type number of a constant value fits 32 bits (it is a
   Go int64 written with WriteI32) *)
Definition smap_ok {A} (m : smap A) : bool := nodupb (map fst m).
Definition extra_ok (e : extra_t) : bool := match e with Some m => smap_ok m | None => true end.
Fixpoint tdesc_ok (t : tdesc) : bool :=
  match t with
  | TDesc _ _ k v ex =>
      match k with Some x => tdesc_ok x | None => true end &&
      match v with Some x => tdesc_ok x | None => true end && extra_ok ex
  end.
Fixpoint cvdesc_ok (c : cvdesc) : bool :=
  match c with
  | CVD ty _ _ _ _ l m _ ex =>
      in_srangeb 4 ty &&
      match l with
      | Some l => (fix go (l : list cvdesc) : bool := match l with [] => true | x :: r => cvdesc_ok x && go r end) l
      | None => true end &&
      match m with
      | Some m => (fix go (l : list (cvdesc * cvdesc)) : bool :=
                     match l with [] => true | (k, v) :: r => cvdesc_ok k && cvdesc_ok v && go r end) m
      | None => true end &&
      extra_ok ex
  end.
Definition fielddesc_ok (f : fielddesc) : bool :=
  tdesc_ok (fld_type f) && match fld_default f with Some c => cvdesc_ok c | None => true end &&
  smap_ok (fld_annos f) && extra_ok (fld_extra f).
Definition structdesc_ok (s : structdesc) : bool :=
  forallb fielddesc_ok (sd_fields s) && smap_ok (sd_annos s) && extra_ok (sd_extra s).
Definition enumvaluedesc_ok (v : enumvaluedesc) : bool := smap_ok (evd_annos v) && extra_ok (evd_extra v).
Definition enumdesc_ok (e : enumdesc) : bool :=
  forallb enumvaluedesc_ok (ed_values e) && smap_ok (ed_annos e) && extra_ok (ed_extra e).
Definition typedefdesc_ok (t : typedefdesc) : bool :=
  tdesc_ok (tdd_type t) && smap_ok (tdd_annos t) && extra_ok (tdd_extra t).
Definition methoddesc_ok (m : methoddesc) : bool :=
  match md_response m with Some t => tdesc_ok t | None => true end &&
  forallb fielddesc_ok (md_args m) && smap_ok (md_annos m) && forallb fielddesc_ok (md_throws m) && extra_ok (md_extra m).
Definition servicedesc_ok (s : servicedesc) : bool :=
  forallb methoddesc_ok (svd_methods s) && smap_ok (svd_annos s) && extra_ok (svd_extra s).
Definition constdesc_ok (c : constdesc) : bool :=
  tdesc_ok (cd_type c) && cvdesc_ok (cd_value c) && smap_ok (cd_annos c) && extra_ok (cd_extra c).
Definition fdesc_ok (d : fdesc) : bool :=
  smap_ok (fdc_includes d) && smap_ok (fdc_namespaces d) &&
  forallb servicedesc_ok (fdc_services d) && forallb structdesc_ok (fdc_structs d) &&
  forallb structdesc_ok (fdc_exceptions d) && forallb enumdesc_ok (fdc_enums d) &&
  forallb typedefdesc_ok (fdc_typedefs d) && forallb structdesc_ok (fdc_unions d) &&
  forallb constdesc_ok (fdc_consts d) && extra_ok (fdc_extra d).

(* ================================================================ 5. registry and lookups *)

(* GlobalDescriptor.globalFD: file path -> descriptor.  A list whose paths are pairwise distinct
   (checkDuplicateAndRegister / doRegisterAST never enter a path twice). *)
Definition registry := list fdesc.

(* RegisterAST: the descriptor of every file of the program (doRegisterAST follows the includes;
   a program lists every file once) *)
Definition registry_of (p : program) : registry := map (fun nf => descriptor_of (snd nf)) p.

(* LookupFD *)
Definition lookup_fd (reg : registry) (path : bytes) : option fdesc :=
  find (fun d => beqb (fdc_filepath d) path) reg.

(* utils.ParseAlias: split at the LAST dot *)
Definition parse_alias (name : bytes) : bytes * bytes :=
  match last_index_split dot name with Some (a, b) => (a, b) | None => ([], name) end.

Definition is_empty (s : bytes) : bool := match s with [] => true | _ => false end.

(* FileDescriptor.GetIncludeFD *)
Definition get_include_fd (reg : registry) (f : fdesc) (alias : bytes) : option fdesc :=
  if is_empty alias then Some f
  else match lookup alias (fdc_includes f) with
       | Some p => if is_empty p then None else lookup_fd reg p
       | None => None
       end.

(* FileDescriptor.getDescriptor.  The Go function calls itself on the included file with the part
   after the last dot, which has no dot: that call looks the name up there directly. *)
Definition get_descriptor {A} (lk : fdesc -> bytes -> option A) (reg : registry) (f : fdesc) (name : bytes) : option A :=
  if is_empty name then None
  else let '(prefix, n) := parse_alias name in
       if is_empty prefix then lk f n
       else match get_include_fd reg f prefix with
            | Some g => if is_empty n then None else lk g n
            | None => None
            end.

Definition first_named {A} (key : A -> bytes) (l : list A) (n : bytes) : option A :=
  find (fun x => beqb (key x) n) l.

Definition get_struct := get_descriptor (fun d => first_named sd_name (fdc_structs d)).
Definition get_union := get_descriptor (fun d => first_named sd_name (fdc_unions d)).
Definition get_exception := get_descriptor (fun d => first_named sd_name (fdc_exceptions d)).
Definition get_enum := get_descriptor (fun d => first_named ed_name (fdc_enums d)).
Definition get_typedef := get_descriptor (fun d => first_named tdd_alias (fdc_typedefs d)).
Definition get_const := get_descriptor (fun d => first_named cd_name (fdc_consts d)).
Definition get_service := get_descriptor (fun d => first_named svd_name (fdc_services d)).

(* ServiceDescriptor.GetMethodByName *)
Definition get_method_by_name (s : servicedesc) (n : bytes) : option methoddesc := first_named md_name (svd_methods s) n.

(* FileDescriptor.GetMethodDescriptor(service, method) *)
Definition get_method (reg : registry) (f : fdesc) (service method : bytes) : option methoddesc :=
  if is_empty service then first_named md_name (flat_map svd_methods (fdc_services f)) method
  else match get_service reg f service with
       | Some s => get_method_by_name s method
       | None => None
       end.

(* StructDescriptor.GetFieldByName / GetFieldById *)
Definition get_field_by_name (s : structdesc) (n : bytes) : option fielddesc := first_named fld_name (sd_fields s) n.
Definition get_field_by_id (s : structdesc) (id : Z) : option fielddesc :=
  find (fun f => fld_id f =? id) (sd_fields s).

(* ServiceDescriptor.GetParent, GetAllMethods (the Go loop does not end on a cyclic extends chain;
   the checker rejects those: fuel = number of registered services + 1), GetMethodByNameFromAll *)
Definition get_parent (reg : registry) (s : servicedesc) : option servicedesc :=
  match lookup_fd reg (svd_filepath s) with
  | Some f => get_service reg f (svd_base s)
  | None => None
  end.
Fixpoint all_methods (fuel : nat) (reg : registry) (s : servicedesc) : list methoddesc :=
  svd_methods s ++ match fuel with
                   | O => []
                   | S n => match get_parent reg s with Some p => all_methods n reg p | None => [] end
                   end.
Definition chain_fuel (reg : registry) : nat := S (List.length (flat_map fdc_services reg)).
Definition get_all_methods (reg : registry) (s : servicedesc) : list methoddesc := all_methods (chain_fuel reg) reg s.
Definition get_method_from_all (reg : registry) (s : servicedesc) (n : bytes) : option methoddesc :=
  first_named md_name (get_all_methods reg s) n.

(* GlobalDescriptor.Lookup*(name, filepath): with a path, the lookup of that file; without one the
   Go code ranges over a map (any order): here the registry order, and the theorem about it assumes
   the name is defined by exactly one registered file *)
Definition lookup_in {A} (get : registry -> fdesc -> bytes -> option A) (reg : registry) (name path : bytes) : option A :=
  if is_empty path then
    (fix go (l : list fdesc) : option A :=
       match l with
       | [] => None
       | f :: r => match get reg f name with Some x => Some x | None => go r end
       end) reg
  else match lookup_fd reg path with Some f => get reg f name | None => None end.

Definition lookup_struct := lookup_in get_struct.
Definition lookup_union := lookup_in get_union.
Definition lookup_exception := lookup_in get_exception.
Definition lookup_enum := lookup_in get_enum.
Definition lookup_typedef := lookup_in get_typedef.
Definition lookup_const := lookup_in get_const.
Definition lookup_service := lookup_in get_service.
Definition lookup_method (reg : registry) (method service path : bytes) : option methoddesc :=
  lookup_in (fun reg f m => get_method reg f service m) reg method path.

(* utils.IsBasic / IsContainer *)
Local Open Scope string_scope.
Definition basic_names : list bytes :=
  map B ["i8"; "i16"; "i32"; "i64"; "double"; "string"; "byte"; "binary"; "bool"].
Definition container_names : list bytes := map B ["set"; "list"; "map"].
Local Close Scope string_scope.
Definition is_basic (n : bytes) : bool := existsb (beqb n) basic_names.
Definition is_container (n : bytes) : bool := existsb (beqb n) container_names.

(* TypeDescriptor.GetStructDescriptor / GetUnionDescriptor / GetExceptionDescriptor /
   GetEnumDescriptor / GetTypedefDescriptor: through the file the type expression was written in *)
Definition type_target {A} (get : registry -> fdesc -> bytes -> option A) (reg : registry) (t : tdesc) : option A :=
  if is_container (tyd_name t) || is_basic (tyd_name t) then None
  else match lookup_fd reg (tyd_filepath t) with
       | Some f => get reg f (tyd_name t)
       | None => None
       end.
Definition type_struct := type_target get_struct.
Definition type_union := type_target get_union.
Definition type_exception := type_target get_exception.
Definition type_enum := type_target get_enum.
Definition type_typedef := type_target get_typedef.

(* ================================================================ 6. Go type table *)

(* registerGoTypes.  A descriptor is a Go pointer; here it is named by where it sits:
   (file path, kind, index in the list the registration walks).  [G] stands for reflect.Type. *)
Inductive gkind := GStruct | GEnum | GTypedef.
Definition gkind_eqb (a b : gkind) : bool :=
  match a, b with GStruct, GStruct | GEnum, GEnum | GTypedef, GTypedef => true | _, _ => false end.
Definition dkey := (bytes * gkind * nat)%type.
Definition dkey_eqb (a b : dkey) : bool :=
  beqb (fst (fst a)) (fst (fst b)) && gkind_eqb (snd (fst a)) (snd (fst b)) && Nat.eqb (snd a) (snd b).

Section GoTypes.
  Context {G : Type} (geqb : G -> G -> bool).

  (* the six Go maps: descriptor -> type and type -> descriptor (one pair per kind, so a struct and
     a typedef of the same Go type do not meet) *)
  Record gtable := GTable { g_fwd : list (dkey * G); g_bwd : list (gkind * G * dkey) }.
  Definition gtable_empty : gtable := GTable [] [].

  Fixpoint put_fwd (k : dkey) (g : G) (m : list (dkey * G)) : list (dkey * G) :=
    match m with
    | [] => [(k, g)]
    | (k', g') :: r => if dkey_eqb k k' then (k, g) :: r else (k', g') :: put_fwd k g r
    end.
  Fixpoint put_bwd (kd : gkind) (g : G) (k : dkey) (m : list (gkind * G * dkey)) : list (gkind * G * dkey) :=
    match m with
    | [] => [(kd, g, k)]
    | (kd', g', k') :: r =>
        if gkind_eqb kd kd' && geqb g g' then (kd, g, k) :: r else (kd', g', k') :: put_bwd kd g k r
    end.
  Definition register1 (t : gtable) (k : dkey) (g : G) : gtable :=
    GTable (put_fwd k g (g_fwd t)) (put_bwd (snd (fst k)) g k (g_bwd t)).

  (* registerGoTypes(fd, goTypes): the idx-th struct-like (structs, unions, exceptions) gets
     goTypes[idx], the idx-th enum goTypes[len(structList)+idx], the idx-th typedef
     goTypes[len(structList)+len(enums)+idx]: the k-th key below gets the k-th type.  A list that
     is too short makes the Go code panic (index out of range). *)
  Definition keys_of (path : bytes) (kd : gkind) (n : nat) : list dkey := map (fun j => (path, kd, j)) (seq 0 n).
  Definition all_keys (d : fdesc) : list dkey :=
    keys_of (fdc_filepath d) GStruct (List.length (fdc_structs d) + List.length (fdc_unions d) + List.length (fdc_exceptions d)) ++
    keys_of (fdc_filepath d) GEnum (List.length (fdc_enums d)) ++
    keys_of (fdc_filepath d) GTypedef (List.length (fdc_typedefs d)).
  Definition register_all (t : gtable) (l : list (dkey * G)) : gtable :=
    fold_left (fun t kg => register1 t (fst kg) (snd kg)) l t.
  Definition go_type_table (t : gtable) (d : fdesc) (gs : list G) : option gtable :=
    if (List.length gs <? List.length (all_keys d))%nat then None
    else Some (register_all t (combine (all_keys d) gs)).

  (* descriptor.GetGoType() and Get*DescriptorByGoType *)
  Definition go_type_of (t : gtable) (k : dkey) : option G :=
    omap snd (find (fun e => dkey_eqb (fst e) k) (g_fwd t)).
  Definition desc_of_go_type (t : gtable) (kd : gkind) (g : G) : option dkey :=
    omap snd (find (fun e => gkind_eqb (fst (fst e)) kd && geqb (snd (fst e)) g) (g_bwd t)).
End GoTypes.

(* the struct-like descriptors in registration order, and the descriptor a key names *)
Definition struct_descs (d : fdesc) : list structdesc := fdc_structs d ++ fdc_unions d ++ fdc_exceptions d.
