#!/bin/sh
# Build the framework from files on disk only (offline): Coq cones and Go harness commands of the
# accepted properties (lib/manifest/ACCEPTED). Checks rebuild what they need on every run anyway;
# this makes the first run fast and fails early when the development does not build.
set -e
cd "$(dirname "$0")"
export GOFLAGS=-mod=mod GOPROXY=off GOSUMDB=off GOTOOLCHAIN=local
python3 - <<'PY'
import os, subprocess, sys
sys.path.insert(0, os.path.join(os.getcwd(), "lib"))
import vlib
accepted = open("lib/manifest/ACCEPTED").read().split()
bad = []
for p in accepted:
    bad += vlib.forbidden_words(p)
if bad:
    print("forbidden constructs in coq/:"); print("\n".join(sorted(set(bad)))); sys.exit(1)
vlib.harness_prepare()
# Go: thriftgo with hooks on, every harness command (failures are fatal only for accepted properties)
ok, log, _ = vlib.build_thriftgo()
if not ok:
    print(log[-3000:]); sys.exit(1)
cmds = sorted(os.listdir(os.path.join(vlib.HARNESS, "cmd")))
need = {p.lower() for p in accepted}
for c in cmds:
    ok, log, _ = vlib.go_build("./cmd/" + c, c)
    if not ok:
        print("go build ./cmd/%s failed%s" % (c, "" if c in need else " (not an accepted property: ignored)"))
        if c in need:
            print(log[-3000:]); sys.exit(1)
# Coq: the cones of the accepted properties
targets = []
for p in accepted:
    for t in ("Props/%s.vo" % p, "Corr/%s.vo" % p):
        if os.path.exists(os.path.join(vlib.COQ, t[:-1])):
            targets.append(t)
ok, log = vlib.coq_build(targets, timeout=3000)
if not ok:
    print(log[-6000:]); sys.exit(1)
print("setup-ok: %d accepted properties, %d coq targets, %d harness commands" % (len(accepted), len(targets), len(cmds)))
PY
