(* Idl/ResolveTd.v — facts about the typedef fixpoint of Idl/Resolve.v
   (te_step / te_round / te_fix) against the abstract chain relation [te_chain] of
   Idl/ResolveSpec.v: soundness, completeness on resolvable states (with the fuel
   resolve_file_in uses), independence of the order of the entries. *)
From Coq Require Import List Bool Arith Lia Permutation.
From Verif Require Import Base.Bytes Idl.Ast Idl.AstUtil Idl.Resolve Idl.ResolveSpec.
Import ListNotations.

Definition pend (e : tde) : bool := is_typedef_cat (te_cat e).

(* ---------------------------------------------------------------- te_step *)

Lemma te_step_alias st e : te_alias (te_step st e) = te_alias e.
Proof.
  unfold te_step. destruct (is_typedef_cat (te_cat e)); [|reflexivity].
  destruct (te_local e); [|reflexivity]. destruct (te_lookup st b); [|reflexivity].
  destruct (is_typedef_cat c); reflexivity.
Qed.

Lemma te_step_local st e : te_local (te_step st e) = te_local e.
Proof.
  unfold te_step. destruct (is_typedef_cat (te_cat e)); [|reflexivity].
  destruct (te_local e) eqn:L; [|auto]. destruct (te_lookup st b); [|auto].
  destruct (is_typedef_cat c); auto.
Qed.

Lemma te_step_cases st e :
  te_step st e = e \/
  (pend e = true /\ exists a c, te_local e = Some a /\ te_lookup st a = Some c /\
     is_typedef_cat c = false /\ te_step st e = Tde (te_alias e) (te_local e) c).
Proof.
  unfold te_step, pend. destruct (is_typedef_cat (te_cat e)) eqn:P; [|auto].
  destruct (te_local e) as [a|] eqn:L; [|auto].
  destruct (te_lookup st a) as [c|] eqn:K; [|auto].
  destruct (is_typedef_cat c) eqn:C; [auto|].
  right. split; [reflexivity|]. exists a, c. auto.
Qed.

Lemma te_step_resolved st e : pend e = false -> te_step st e = e.
Proof. unfold te_step, pend. intros ->. reflexivity. Qed.

(* ---------------------------------------------------------------- te_round, generic induction *)

Lemma te_round_ind (J : list tde -> list tde -> Prop) :
  (forall pre e r, J pre (e :: r) -> J (pre ++ [te_step (pre ++ e :: r) e]) r) ->
  forall rest pre, J pre rest -> J (te_round pre rest) [].
Proof.
  intros Hstep rest. induction rest as [|e r IH]; intros pre HJ; cbn [te_round]; [exact HJ|].
  apply IH. apply Hstep. exact HJ.
Qed.

Lemma te_round_whole (I : list tde -> Prop) :
  (forall pre e r, I (pre ++ e :: r) -> I (pre ++ te_step (pre ++ e :: r) e :: r)) ->
  forall st, I st -> I (te_round [] st).
Proof.
  intros Hstep st HI.
  pose proof (te_round_ind (fun pre rest => I (pre ++ rest))) as H.
  cbn beta in H. specialize (H ltac:(intros pre e r HJ; rewrite <- app_assoc; cbn [app]; apply Hstep; exact HJ) st [] HI).
  rewrite app_nil_r in H. exact H.
Qed.

(* ---------------------------------------------------------------- lookups *)

Lemma find_by_In {A} (key : A -> bytes) k l x : find_by key k l = Some x -> In x l /\ key x = k.
Proof.
  induction l as [|y l IH]; cbn [find_by]; [discriminate|].
  destruct (beqb (key y) k) eqn:E.
  - intros [= ->]. apply beqb_true in E. split; [left; reflexivity | exact E].
  - intros H. destruct (IH H). split; [right; assumption | assumption].
Qed.

Lemma find_by_NoDup {A} (key : A -> bytes) l x :
  NoDup (map key l) -> In x l -> find_by key (key x) l = Some x.
Proof.
  induction l as [|y l IH]; cbn [find_by map]; [intros _ []|].
  intros ND [->|Hin].
  - rewrite beqb_refl. reflexivity.
  - inversion ND as [|? ? Hn ND']; subst.
    destruct (beqb (key y) (key x)) eqn:E.
    + apply beqb_true in E. exfalso. apply Hn. rewrite E. apply in_map. exact Hin.
    + apply IH; assumption.
Qed.

Lemma find_by_none {A} (key : A -> bytes) k l : find_by key k l = None -> ~ In k (map key l).
Proof.
  induction l as [|y l IH]; cbn [find_by map]; [auto|].
  destruct (beqb (key y) k) eqn:E; [discriminate|].
  intros H [H1|H1]; [apply beqb_false in E; auto | exact (IH H H1)].
Qed.

Lemma te_lookup_In st a c : te_lookup st a = Some c -> exists e, In e st /\ te_alias e = a /\ te_cat e = c.
Proof.
  unfold te_lookup. destruct (find_by te_alias a st) as [e|] eqn:F; [|discriminate].
  intros [= <-]. destruct (find_by_In _ _ _ _ F). eauto.
Qed.

Lemma te_lookup_NoDup st e : NoDup (map te_alias st) -> In e st -> te_lookup st (te_alias e) = Some (te_cat e).
Proof. intros ND Hin. unfold te_lookup. rewrite (find_by_NoDup te_alias st e ND Hin). reflexivity. Qed.

(* ---------------------------------------------------------------- soundness *)

(* [e] is what the entry [e0] of the initial state has become *)
Definition ent_ok (st0 : list tde) (e0 e : tde) : Prop :=
  te_alias e = te_alias e0 /\ te_local e = te_local e0 /\
  (te_cat e = te_cat e0 \/
   (pend e0 = true /\ pend e = false /\ te_chain st0 (te_alias e0) (te_cat e))).

Definition te_inv (st0 st : list tde) : Prop := Forall2 (ent_ok st0) st0 st.

Lemma te_inv_refl st0 : te_inv st0 st0.
Proof.
  unfold te_inv. assert (H : forall l, Forall2 (ent_ok st0) l l).
  { induction l; constructor; [|assumption]. unfold ent_ok. auto. }
  apply H.
Qed.

Lemma Forall2_app_inv_r' {A B} (R : A -> B -> Prop) l pre e r :
  Forall2 R l (pre ++ e :: r) ->
  exists l1 e0 l2, l = l1 ++ e0 :: l2 /\ Forall2 R l1 pre /\ R e0 e /\ Forall2 R l2 r.
Proof.
  intros H. apply Forall2_app_inv_r in H. destruct H as (l1 & l2' & H1 & H2 & ->).
  inversion H2 as [|e0 ? l2 ? Re H2']; subst. exists l1, e0, l2. auto.
Qed.

Lemma Forall2_len {A B} (R : A -> B -> Prop) l l' : Forall2 R l l' -> length l = length l'.
Proof. induction 1; cbn; congruence. Qed.

Lemma Forall2_In_r {A B} (R : A -> B -> Prop) l l' y :
  Forall2 R l l' -> In y l' -> exists x, In x l /\ R x y.
Proof.
  induction 1 as [|a b l l' Rab _ IH]; [intros []|].
  intros [<-|Hin]; [exists a; cbn; auto|]. destruct (IH Hin) as (x & ? & ?). exists x. cbn. auto.
Qed.

Lemma Forall2_In_l {A B} (R : A -> B -> Prop) l l' x :
  Forall2 R l l' -> In x l -> exists y, In y l' /\ R x y.
Proof.
  induction 1 as [|a b l l' Rab _ IH]; [intros []|].
  intros [<-|Hin]; [exists b; cbn; auto|]. destruct (IH Hin) as (y & ? & ?). exists y. cbn. auto.
Qed.

Lemma ent_ok_chain st0 e0 e :
  In e0 st0 -> ent_ok st0 e0 e -> pend e = false -> te_chain st0 (te_alias e0) (te_cat e).
Proof.
  intros Hin (Ha & Hl & [Hc|(_ & _ & Hch)]) Hp; [|exact Hch].
  rewrite Hc. apply tc_done; [exact Hin|]. unfold pend in Hp. rewrite <- Hc. exact Hp.
Qed.

Lemma te_inv_step st0 pre e r :
  te_inv st0 (pre ++ e :: r) -> te_inv st0 (pre ++ te_step (pre ++ e :: r) e :: r).
Proof.
  intros Hinv. pose proof Hinv as Hinv0.
  apply Forall2_app_inv_r' in Hinv. destruct Hinv as (l1 & e0 & l2 & -> & H1 & He & H2).
  unfold te_inv. apply Forall2_app; [exact H1|]. constructor; [|exact H2].
  destruct (te_step_cases (pre ++ e :: r) e) as [->|(Hp & a & c & Hl & Hk & Hc & ->)]; [exact He|].
  destruct He as (Ha & Hl0 & Hcat).
  unfold ent_ok. cbn [te_alias te_local te_cat]. split; [exact Ha|]. split; [exact Hl0|].
  right. assert (Hp0 : pend e0 = true).
  { destruct Hcat as [Hc0|(_ & Hpe & _)]; [unfold pend in *; rewrite <- Hc0; exact Hp | congruence]. }
  split; [exact Hp0|]. split; [exact Hc|].
  destruct (te_lookup_In _ _ _ Hk) as (x & Hx & Hxa & Hxc).
  destruct (Forall2_In_r _ _ _ _ Hinv0 Hx) as (x0 & Hx0 & Hxok).
  assert (Hch : te_chain (l1 ++ e0 :: l2) (te_alias x0) (te_cat x)).
  { apply ent_ok_chain; [exact Hx0 | exact Hxok |]. unfold pend. rewrite Hxc. exact Hc. }
  destruct Hxok as (Hxa0 & _ & _). rewrite <- Hxa0, Hxa, Hxc in Hch.
  apply tc_step with (b := a); [apply in_elt | exact Hp0 | congruence | exact Hch].
Qed.

Lemma te_inv_round st0 st : te_inv st0 st -> te_inv st0 (te_round [] st).
Proof. apply (te_round_whole (te_inv st0)). intros pre e r. apply te_inv_step. Qed.

Lemma te_pending_zero st e : te_pending st = 0 -> In e st -> pend e = false.
Proof.
  unfold te_pending. intros H Hin. destruct (pend e) eqn:P; [|reflexivity].
  assert (In e (filter (fun e => is_typedef_cat (te_cat e)) st)) as Hf by (apply filter_In; auto).
  destruct (filter _ st); [destruct Hf | discriminate].
Qed.

Lemma te_fix_inv st0 : forall fuel st st', te_inv st0 st -> te_fix fuel st = Ok st' ->
  te_inv st0 st' /\ te_pending st' = 0.
Proof.
  induction fuel as [|k IH]; intros st st' Hinv; cbn [te_fix].
  - destruct (te_pending st =? 0) eqn:E; [|discriminate]. intros [= <-]. apply Nat.eqb_eq in E. auto.
  - destruct (te_pending st =? 0) eqn:E; [intros [= <-]; apply Nat.eqb_eq in E; auto|].
    destruct (te_pending (te_round [] st) =? te_pending st); [discriminate|].
    apply IH. apply te_inv_round. exact Hinv.
Qed.

(* te_fix only succeeds with every alias at the end of its chain *)
Theorem te_fix_sound st0 fuel st :
  te_fix fuel st0 = Ok st ->
  Forall2 (fun e0 e => te_alias e = te_alias e0 /\ te_local e = te_local e0 /\
                       is_typedef_cat (te_cat e) = false /\ te_chain st0 (te_alias e0) (te_cat e)) st0 st.
Proof.
  intros H. destruct (te_fix_inv st0 fuel st0 st (te_inv_refl st0) H) as (Hinv & Hz).
  unfold te_inv in Hinv.
  assert (G : forall l l', Forall2 (ent_ok st0) l l' -> incl l st0 -> incl l' st ->
          Forall2 (fun e0 e => te_alias e = te_alias e0 /\ te_local e = te_local e0 /\
                       is_typedef_cat (te_cat e) = false /\ te_chain st0 (te_alias e0) (te_cat e)) l l').
  { induction 1 as [|a b l l' Rab _ IH]; intros I1 I2; constructor.
    - assert (pend b = false) as Pb by (apply (te_pending_zero st); [exact Hz | apply I2; cbn; auto]).
      destruct Rab as (Ha & Hl & Hc). repeat split; auto.
      apply ent_ok_chain; [apply I1; cbn; auto | unfold ent_ok; auto | exact Pb].
    - apply IH; intros x Hx; [apply I1 | apply I2]; cbn; auto. }
  apply G; [exact Hinv | apply incl_refl | apply incl_refl].
Qed.

(* ---------------------------------------------------------------- chains are functional *)

Lemma NoDup_alias_eq st e1 e2 :
  NoDup (map te_alias st) -> In e1 st -> In e2 st -> te_alias e1 = te_alias e2 -> e1 = e2.
Proof.
  intros ND H1 H2 E. pose proof (find_by_NoDup te_alias st e1 ND H1) as F1.
  pose proof (find_by_NoDup te_alias st e2 ND H2) as F2. rewrite E in F1. congruence.
Qed.

Lemma te_chain_fun st0 a c : NoDup (map te_alias st0) ->
  te_chain st0 a c -> forall c', te_chain st0 a c' -> c = c'.
Proof.
  intros ND H. induction H as [e Hin Hp | e b c Hin Hp Hl Hch IH]; intros c' H'.
  - inversion H' as [e' Hin' Hp' Ea | e' b' c2 Hin' Hp' Hl' Hch' Ea]; subst.
    + rewrite (NoDup_alias_eq st0 e' e ND Hin' Hin Ea). reflexivity.
    + rewrite (NoDup_alias_eq st0 e' e ND Hin' Hin Ea) in Hp'. congruence.
  - inversion H' as [e' Hin' Hp' Ea | e' b' c2 Hin' Hp' Hl' Hch' Ea]; subst.
    + rewrite (NoDup_alias_eq st0 e' e ND Hin' Hin Ea) in Hp'. congruence.
    + pose proof (NoDup_alias_eq st0 e' e ND Hin' Hin Ea) as ->.
      assert (b' = b) as -> by congruence. apply IH. exact Hch'.
Qed.

Lemma te_chain_perm st0 st1 a c : Permutation st0 st1 -> te_chain st0 a c -> te_chain st1 a c.
Proof.
  intros P H. induction H as [e Hin Hp | e b c Hin Hp Hl Hch IH].
  - apply tc_done; [eapply Permutation_in; eauto | exact Hp].
  - apply tc_step with (b := b); [eapply Permutation_in; eauto | exact Hp | exact Hl | exact IH].
Qed.

Lemma te_chain_entry st0 a c : te_chain st0 a c -> exists e, In e st0 /\ te_alias e = a.
Proof. destruct 1; eauto. Qed.

Lemma te_chain_end st0 a c : te_chain st0 a c -> is_typedef_cat c = false.
Proof. induction 1; assumption. Qed.

(* ---------------------------------------------------------------- progress *)

(* [e'] is a later version of [e]: same alias and target, and either unchanged or it
   went from pending to resolved *)
Definition mono (e e' : tde) : Prop :=
  te_alias e' = te_alias e /\ te_local e' = te_local e /\ (e' = e \/ (pend e = true /\ pend e' = false)).

Lemma mono_refl e : mono e e.
Proof. unfold mono. auto. Qed.

Lemma Forall2_mono_refl l : Forall2 mono l l.
Proof. induction l; constructor; auto using mono_refl. Qed.

Lemma te_lookup_mono st st' b c :
  Forall2 mono st st' -> te_lookup st b = Some c -> is_typedef_cat c = false -> te_lookup st' b = Some c.
Proof.
  unfold te_lookup. induction 1 as [|e e' l l' M _ IH]; cbn [find_by]; [discriminate|].
  destruct M as (Ma & _ & Mc). rewrite Ma.
  destruct (beqb (te_alias e) b) eqn:E.
  - intros [= <-] Hc. destruct Mc as [->|(Hp & _)]; [reflexivity|]. unfold pend in Hp. congruence.
  - exact IH.
Qed.

(* ready: resolved, or pending with a target that is resolved in [st] *)
Definition ready (st : list tde) (x : tde) : Prop :=
  pend x = false \/ exists b c, te_local x = Some b /\ te_lookup st b = Some c /\ is_typedef_cat c = false.

Definition progJ (st : list tde) (pre rest : list tde) : Prop :=
  Forall2 mono st (pre ++ rest) /\
  forall i x, nth_error st i = Some x -> i < length pre -> ready st x ->
              exists x', nth_error pre i = Some x' /\ pend x' = false.

Lemma Forall2_nth {A B} (R : A -> B -> Prop) l l' i y :
  Forall2 R l l' -> nth_error l' i = Some y -> exists x, nth_error l i = Some x /\ R x y.
Proof.
  intros H. revert i. induction H as [|a b l l' Rab _ IH]; intros [|i]; cbn; try discriminate.
  - intros [= <-]. eauto.
  - apply IH.
Qed.

Lemma Forall2_nth_l {A B} (R : A -> B -> Prop) l l' i x :
  Forall2 R l l' -> nth_error l i = Some x -> exists y, nth_error l' i = Some y /\ R x y.
Proof.
  intros H. revert i. induction H as [|a b l l' Rab _ IH]; intros [|i]; cbn; try discriminate.
  - intros [= <-]. eauto.
  - apply IH.
Qed.

Lemma progJ_step st pre e r :
  progJ st pre (e :: r) -> progJ st (pre ++ [te_step (pre ++ e :: r) e]) r.
Proof.
  intros (HM & HR). set (whole := pre ++ e :: r) in *. set (e' := te_step whole e).
  assert (Hex : exists x, nth_error st (length pre) = Some x /\ mono x e).
  { apply (Forall2_nth mono st whole (length pre) e HM). unfold whole.
    rewrite nth_error_app2 by lia. rewrite Nat.sub_diag. reflexivity. }
  destruct Hex as (x & Hx & Mxe).
  assert (Mxe' : mono x e').
  { unfold e'. destruct (te_step_cases whole e) as [->|(Hp & a & c & Hl & Hk & Hc & ->)]; [exact Mxe|].
    destruct Mxe as (Ma & Ml & Mc). unfold mono. cbn [te_alias te_local]. split; [exact Ma|]. split; [exact Ml|].
    right. split; [|exact Hc]. destruct Mc as [->|(Hpx & Hpe)]; [exact Hp | congruence]. }
  split.
  - rewrite <- app_assoc. cbn [app].
    apply Forall2_app_inv_r' in HM. destruct HM as (l1 & e0 & l2 & -> & H1 & He & H2).
    apply Forall2_app; [exact H1|]. constructor; [|exact H2].
    assert (length l1 = length pre) as Hlen by (eapply Forall2_len; eauto).
    rewrite nth_error_app2 in Hx by lia. rewrite Hlen, Nat.sub_diag in Hx. cbn in Hx.
    injection Hx as ->. exact Mxe'.
  - intros i y Hy Hi Hry. rewrite app_length in Hi. cbn [length] in Hi.
    destruct (Nat.eq_dec i (length pre)) as [->|Hne].
    + rewrite nth_error_app2 by lia. rewrite Nat.sub_diag. cbn.
      exists e'. split; [reflexivity|]. assert (y = x) as -> by congruence.
      destruct Hry as [Hpx|(b & c & Hl & Hk & Hc)].
      * destruct Mxe' as (_ & _ & [->|(Hp & _)]); [exact Hpx | congruence].
      * unfold e'. destruct Mxe as (Ma & Ml & [->|(_ & Hpe)]).
        -- unfold te_step. destruct (is_typedef_cat (te_cat x)) eqn:Px; [|exact Px].
           rewrite Hl. rewrite (te_lookup_mono st whole b c HM Hk Hc). rewrite Hc. exact Hc.
        -- rewrite te_step_resolved by exact Hpe. exact Hpe.
    + assert (i < length pre) as Hi' by lia.
      destruct (HR i y Hy Hi' Hry) as (y' & Hy' & Py'). exists y'. split; [|exact Py'].
      rewrite nth_error_app1 by lia. exact Hy'.
Qed.

Lemma te_round_progress st :
  Forall2 mono st (te_round [] st) /\
  forall i x, nth_error st i = Some x -> ready st x ->
              exists x', nth_error (te_round [] st) i = Some x' /\ pend x' = false.
Proof.
  pose proof (te_round_ind (progJ st) (progJ_step st) st []) as H.
  assert (progJ st [] st) as H0.
  { split; [apply Forall2_mono_refl|]. intros i x _ Hi. cbn in Hi. lia. }
  specialize (H H0). destruct H as (HM & HR). rewrite app_nil_r in HM. split; [exact HM|].
  intros i x Hx Hr. apply (HR i x Hx); [|exact Hr].
  rewrite <- (Forall2_len _ _ _ HM). apply nth_error_Some. congruence.
Qed.

(* counting pending entries along [mono] *)
Lemma pending_mono st st' : Forall2 mono st st' -> te_pending st' <= te_pending st.
Proof.
  unfold te_pending. induction 1 as [|e e' l l' M _ IH]; cbn [filter length]; [lia|].
  destruct M as (_ & _ & [->|(Hp & Hp')]).
  - destruct (is_typedef_cat (te_cat e)); cbn [length]; lia.
  - unfold pend in *. rewrite Hp, Hp'. cbn [length]. lia.
Qed.

Lemma pending_mono_strict st st' i x x' :
  Forall2 mono st st' -> nth_error st i = Some x -> nth_error st' i = Some x' ->
  pend x = true -> pend x' = false -> te_pending st' < te_pending st.
Proof.
  intros H. revert i. induction H as [|e e' l l' M HF IH]; intros [|i]; cbn [nth_error]; try discriminate.
  - intros [= ->] [= ->] Hp Hp'. pose proof (pending_mono _ _ HF) as Hle.
    unfold te_pending in *. cbn [filter]. unfold pend in *. rewrite Hp, Hp'. cbn [length]. lia.
  - intros Hx Hx' Hp Hp'. specialize (IH i Hx Hx' Hp Hp').
    unfold te_pending in *. cbn [filter]. destruct M as (_ & _ & [->|(Hq & Hq')]).
    + destruct (is_typedef_cat (te_cat e)); cbn [length]; lia.
    + unfold pend in *. rewrite Hq, Hq'. cbn [length]. lia.
Qed.

Lemma te_inv_aliases st0 st : te_inv st0 st -> map te_alias st = map te_alias st0.
Proof.
  induction 1 as [|a b l l' (Ha & _) _ IH]; [reflexivity|]. cbn [map]. rewrite Ha, IH. reflexivity.
Qed.

(* a pending entry with a chain leads to a pending entry that is ready *)
Lemma exists_ready st0 st a c :
  te_inv st0 st -> NoDup (map te_alias st0) -> te_chain st0 a c ->
  forall e, In e st -> te_alias e = a -> pend e = true ->
  exists x, In x st /\ pend x = true /\ ready st x.
Proof.
  intros Hinv ND Hch.
  assert (NDs : NoDup (map te_alias st)) by (rewrite (te_inv_aliases _ _ Hinv); exact ND).
  induction Hch as [e0 Hin0 Hp0 | e0 b c Hin0 Hp0 Hl0 Hch IH]; intros e Hin Ha Hp.
  - exfalso. destruct (Forall2_In_r _ _ _ _ Hinv Hin) as (e1 & Hin1 & Hok).
    pose proof Hok as (Ha1 & _ & Hc1).
    assert (e1 = e0) as -> by (apply (NoDup_alias_eq st0); auto; congruence).
    destruct Hc1 as [Hc1|(_ & Hpe & _)]; [|congruence]. unfold pend in Hp. rewrite Hc1 in Hp. congruence.
  - destruct (Forall2_In_r _ _ _ _ Hinv Hin) as (e1 & Hin1 & Hok).
    pose proof Hok as (Ha1 & Hl1 & _).
    assert (e1 = e0) as -> by (apply (NoDup_alias_eq st0); auto; congruence).
    destruct (te_chain_entry _ _ _ Hch) as (b0 & Hb0 & Hb0a).
    destruct (Forall2_In_l _ _ _ _ Hinv Hb0) as (eb & Hbin & (Hba & _ & _)).
    destruct (pend eb) eqn:Pb.
    + apply (IH eb); [exact Hbin | congruence | exact Pb].
    + exists e. split; [exact Hin|]. split; [exact Hp|]. right. exists b, (te_cat eb).
      split; [congruence|]. split; [|exact Pb].
      replace b with (te_alias eb) by congruence. apply te_lookup_NoDup; assumption.
Qed.

Lemma te_round_decreases st0 st :
  te_inv st0 st -> NoDup (map te_alias st0) -> te_resolvable st0 -> te_pending st <> 0 ->
  te_pending (te_round [] st) < te_pending st.
Proof.
  intros Hinv ND Hres Hne.
  assert (exists e, In e st /\ pend e = true) as (e & Hin & Hp).
  { unfold te_pending in Hne. destruct (filter (fun e => is_typedef_cat (te_cat e)) st) as [|e l] eqn:F; [cbn in Hne; congruence|].
    exists e. assert (In e (e :: l)) as H by (cbn; auto). rewrite <- F in H. apply filter_In in H. exact H. }
  destruct (Forall2_In_r _ _ _ _ Hinv Hin) as (e0 & Hin0 & (Ha & _ & _)).
  destruct (Hres e0 Hin0) as (c & Hch).
  destruct (exists_ready st0 st _ c Hinv ND Hch e Hin Ha Hp) as (x & Hx & Hpx & Hrx).
  destruct (In_nth_error _ _ Hx) as (i & Hi).
  destruct (te_round_progress st) as (HM & HR).
  destruct (HR i x Hi Hrx) as (x' & Hx' & Hpx').
  exact (pending_mono_strict st _ i x x' HM Hi Hx' Hpx Hpx').
Qed.

Lemma te_pending_le st : te_pending st <= length st.
Proof.
  unfold te_pending. induction st as [|e l IH]; cbn [filter length]; [lia|].
  destruct (is_typedef_cat (te_cat e)); cbn [length]; lia.
Qed.

Lemma te_fix_complete_gen st0 : NoDup (map te_alias st0) -> te_resolvable st0 ->
  forall fuel st, te_inv st0 st -> te_pending st < fuel \/ te_pending st = 0 ->
  exists st', te_fix fuel st = Ok st'.
Proof.
  intros ND Hres. induction fuel as [|k IH]; intros st Hinv Hlt; cbn [te_fix].
  - destruct (te_pending st =? 0) eqn:E; [eauto|]. apply Nat.eqb_neq in E. lia.
  - destruct (te_pending st =? 0) eqn:E; [eauto|]. apply Nat.eqb_neq in E.
    pose proof (te_round_decreases st0 st Hinv ND Hres E) as Hdec.
    destruct (te_pending (te_round [] st) =? te_pending st) eqn:E2; [apply Nat.eqb_eq in E2; lia|].
    apply IH; [apply te_inv_round; exact Hinv | lia].
Qed.

(* the fixpoint reaches every chain end: with the fuel resolve_file_in gives it, it
   succeeds on every resolvable state, and the result maps every alias to the end of
   its chain *)
Theorem te_fix_complete st0 :
  NoDup (map te_alias st0) -> te_resolvable st0 ->
  exists st, te_fix (S (length st0)) st0 = Ok st /\
             forall a c, te_chain st0 a c -> te_lookup st a = Some c.
Proof.
  intros ND Hres.
  destruct (te_fix_complete_gen st0 ND Hres (S (length st0)) st0 (te_inv_refl st0)) as (st & Hfix).
  { left. pose proof (te_pending_le st0). lia. }
  exists st. split; [exact Hfix|]. intros a c Hch.
  pose proof (te_fix_sound _ _ _ Hfix) as HS.
  destruct (te_chain_entry _ _ _ Hch) as (e0 & Hin0 & Ha0).
  destruct (Forall2_In_l _ _ _ _ HS Hin0) as (e & Hin & (Ha & _ & _ & Hche)).
  assert (NDs : NoDup (map te_alias st)).
  { assert (map te_alias st = map te_alias st0) as ->; [|exact ND].
    clear - HS. induction HS as [|x y l l' (Hxy & _) _ IH]; [reflexivity|]. cbn [map]. rewrite Hxy, IH. reflexivity. }
  rewrite Ha0 in Hche. rewrite (te_chain_fun st0 a c ND Hch _ Hche).
  rewrite <- Ha0, <- Ha. apply te_lookup_NoDup; assumption.
Qed.

(* conversely success means the state was resolvable *)
Lemma te_fix_resolvable st0 fuel st : te_fix fuel st0 = Ok st -> te_resolvable st0.
Proof.
  intros H e0 Hin0. pose proof (te_fix_sound _ _ _ H) as HS.
  destruct (Forall2_In_l _ _ _ _ HS Hin0) as (e & _ & (_ & _ & _ & Hch)). eauto.
Qed.

Lemma te_fix_lookup st0 fuel st a c :
  NoDup (map te_alias st0) -> te_fix fuel st0 = Ok st -> te_lookup st a = Some c -> te_chain st0 a c.
Proof.
  intros ND H Hk. pose proof (te_fix_sound _ _ _ H) as HS.
  destruct (te_lookup_In _ _ _ Hk) as (e & Hin & Ha & Hc).
  destruct (Forall2_In_r _ _ _ _ HS Hin) as (e0 & _ & (Ha0 & _ & _ & Hch)). congruence.
Qed.

(* order independence of the fixpoint: permuting the entries changes neither whether
   it succeeds nor the category any alias ends with *)
Theorem te_fix_perm st0 st1 st :
  NoDup (map te_alias st0) -> Permutation st0 st1 ->
  te_fix (S (length st0)) st0 = Ok st ->
  exists st', te_fix (S (length st1)) st1 = Ok st' /\ forall a, te_lookup st' a = te_lookup st a.
Proof.
  intros ND P H.
  assert (ND1 : NoDup (map te_alias st1)) by (eapply Permutation_NoDup; [apply Permutation_map; exact P | exact ND]).
  assert (R1 : te_resolvable st1).
  { intros e Hin. apply Permutation_sym in P. pose proof (Permutation_in _ P Hin) as Hin0.
    destruct (te_fix_resolvable _ _ _ H e Hin0) as (c & Hch). exists c.
    apply (te_chain_perm st0 st1); [apply Permutation_sym; exact P | exact Hch]. }
  destruct (te_fix_complete st1 ND1 R1) as (st' & H' & Hall). exists st'. split; [exact H'|].
  intros a. destruct (te_lookup st a) as [c|] eqn:K.
  - apply Hall. apply (te_chain_perm st0 st1 a c P). eapply te_fix_lookup; eauto.
  - destruct (te_lookup st' a) as [c|] eqn:K'; [|reflexivity]. exfalso.
    pose proof (te_fix_lookup st1 _ st' a c ND1 H' K') as Hch.
    apply (te_chain_perm st1 st0 a c (Permutation_sym P)) in Hch.
    destruct (te_fix_complete st0 ND (te_fix_resolvable _ _ _ H)) as (st2 & H2 & Hall2).
    rewrite H in H2. injection H2 as <-. rewrite (Hall2 a c Hch) in K. discriminate.
Qed.
