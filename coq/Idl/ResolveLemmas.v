(* Idl/ResolveLemmas.v — basic facts about the functions of Idl/Resolve.v: the result
   monad, mapM, RegisterNames, the shape of a type after ResolveType ([head1]) and
   after the typedef pass ([head2]).  No reference to the parsed program yet. *)
From Coq Require Import List Bool Arith Lia NArith ZArith Permutation.
From Coq.Strings Require Import Byte.
From Verif Require Import Base.Bytes Idl.Ast Idl.AstUtil Idl.AstFacts Idl.Resolve Idl.ResolveSpec Idl.ResolveTd.
Import ListNotations.
Local Open Scope resolve_scope.

(* ---------------------------------------------------------------- monad *)

Lemma bind_ok {A B} (r : result A) (k : A -> result B) b :
  bind r k = Ok b -> exists a, r = Ok a /\ k a = Ok b.
Proof. destruct r as [a|e]; cbn [bind]; [eauto | discriminate]. Qed.

Ltac inv_bind H :=
  repeat (let a := fresh "x" in let E := fresh "E" in
          apply bind_ok in H; destruct H as (a & E & H)).

Lemma mapM_Forall2 {A B} (f : A -> result B) l l' :
  mapM f l = Ok l' -> Forall2 (fun x y => f x = Ok y) l l'.
Proof.
  revert l'. induction l as [|x l IH]; intros l' H; cbn [mapM] in H.
  - injection H as <-. constructor.
  - inv_bind H. injection H as <-. constructor; auto.
Qed.

Lemma Forall2_mapM {A B} (f : A -> result B) l l' :
  Forall2 (fun x y => f x = Ok y) l l' -> mapM f l = Ok l'.
Proof. induction 1 as [|x y l l' H _ IH]; cbn [mapM]; [reflexivity|]. rewrite H. cbn [bind]. rewrite IH. reflexivity. Qed.

Lemma mapM_ext {A B} (f g : A -> result B) l : (forall x, In x l -> f x = g x) -> mapM f l = mapM g l.
Proof.
  induction l as [|x l IH]; intros H; cbn [mapM]; [reflexivity|].
  rewrite (H x (or_introl eq_refl)). rewrite IH; [reflexivity|]. intros y Hy. apply H. right. exact Hy.
Qed.

Lemma Forall2_map_eq {A B C} (f : A -> C) (g : B -> C) (R : A -> B -> Prop) l l' :
  Forall2 R l l' -> (forall x y, R x y -> g y = f x) -> map g l' = map f l.
Proof. induction 1 as [|x y l l' Rxy _ IH]; intros H; cbn [map]; [reflexivity|]. rewrite (H x y Rxy), IH; auto. Qed.

Lemma Forall2_flat_map {A B C} (R : A -> B -> Prop) (Q : C -> Prop) (g : B -> list C) l l' :
  Forall2 R l l' -> (forall x y, R x y -> Forall Q (g y)) -> Forall Q (flat_map' g l').
Proof.
  unfold flat_map'. induction 1 as [|x y l l' Rxy _ IH]; intros H; cbn [map concat]; [constructor|].
  apply Forall_app. split; [eapply H; eauto | apply IH; exact H].
Qed.

Lemma Forall2_compose {A B C} (R : A -> B -> Prop) (S : B -> C -> Prop) l1 l2 l3 :
  Forall2 R l1 l2 -> Forall2 S l2 l3 -> Forall2 (fun x z => exists y, R x y /\ S y z) l1 l3.
Proof.
  intros H. revert l3. induction H as [|x y l l' Rxy _ IH]; intros l3 H2; inversion H2; subst; constructor; eauto.
Qed.

(* ---------------------------------------------------------------- association lists *)

Lemma lookup_app {A} k (l1 l2 : list (bytes * A)) :
  lookup k (l1 ++ l2) = match lookup k l1 with Some v => Some v | None => lookup k l2 end.
Proof. induction l1 as [|[k' v] l IH]; cbn [lookup app]; [reflexivity|]. destruct (beqb k k'); auto. Qed.

Lemma lookup_map_snd {A B} (g : A -> B) k (l : list (bytes * A)) :
  lookup k (map (fun x => (fst x, g (snd x))) l) = option_map g (lookup k l).
Proof. induction l as [|[k' v] l IH]; cbn [lookup map fst snd]; [reflexivity|]. destruct (beqb k k'); auto. Qed.

Lemma lookup_NoDup_In {A} k (v : A) l : NoDup (map fst l) -> In (k, v) l -> lookup k l = Some v.
Proof.
  induction l as [|[k' v'] l IH]; cbn [lookup map fst]; [intros _ []|].
  intros ND [[= -> ->]|Hin]; [rewrite beqb_refl; reflexivity|].
  inversion ND as [|? ? Hn ND']; subst. destruct (beqb k k') eqn:E.
  - apply beqb_true in E. subst. exfalso. apply Hn. change k' with (fst (k', v)). apply in_map. exact Hin.
  - auto.
Qed.

Lemma lookup_Some_In_fst {A} k (v : A) l : lookup k l = Some v -> In k (map fst l).
Proof. intros H. apply lookup_In in H. change k with (fst (k, v)). apply in_map. exact H. Qed.

(* ---------------------------------------------------------------- RegisterNames *)

Lemma lookup_n2c_insert k c m n :
  lookup k m = None -> lookup n (n2c_insert k c m) = if beqb n k then Some c else lookup n m.
Proof.
  induction m as [|[k' c'] m IH]; cbn [n2c_insert lookup]; intros Hk; [reflexivity|].
  destruct (beqb k k') eqn:Ekk; [discriminate|].
  destruct (bytes_ltb k k'); cbn [lookup].
  - reflexivity.
  - rewrite (IH Hk). destruct (beqb n k') eqn:Enk; [|reflexivity].
    destruct (beqb n k) eqn:Enk2; [|reflexivity].
    apply beqb_true in Enk, Enk2. subst. rewrite beqb_refl in Ekk. discriminate.
Qed.

Lemma register_spec defs : forall acc m, register defs acc = Ok m ->
  NoDup (map fst defs) /\ (forall n, In n (map fst defs) -> lookup n acc = None) /\
  forall n, lookup n m = match lookup n acc with Some c => Some c | None => lookup n defs end.
Proof.
  induction defs as [|[k c] defs IH]; intros acc m H; cbn [register] in H.
  - injection H as <-. split; [constructor|]. split; [intros n []|]. intros n. cbn [lookup]. destruct (lookup n acc); reflexivity.
  - destruct (lookup k acc) eqn:Hk; [discriminate|].
    destruct (IH _ _ H) as (ND & Hfresh & Hm). cbn [map fst].
    assert (Hk' : ~ In k (map fst defs)).
    { intros Hin. specialize (Hfresh k Hin). rewrite (lookup_n2c_insert k c acc k Hk), beqb_refl in Hfresh. discriminate. }
    split; [constructor; assumption|]. split.
    + intros n [<-|Hin]; [exact Hk|]. specialize (Hfresh n Hin).
      rewrite (lookup_n2c_insert k c acc n Hk) in Hfresh. destruct (beqb n k); [discriminate | exact Hfresh].
    + intros n. rewrite Hm, (lookup_n2c_insert k c acc n Hk). cbn [lookup].
      destruct (beqb n k) eqn:E; [|reflexivity].
      apply beqb_true in E. subst. rewrite Hk. reflexivity.
Qed.

Lemma file_def_names_defs f :
  file_def_names f = map (fun x => (fst x, dkind_cat (snd x))) (file_defs f).
Proof.
  unfold file_def_names, file_defs. rewrite !map_app, !map_map. cbn [fst snd dkind_cat]. reflexivity.
Qed.

Lemma map_fst_def_names f : map fst (file_def_names f) = map fst (file_defs f).
Proof. rewrite file_def_names_defs, map_map. reflexivity. Qed.

Lemma register_file f m : register (file_def_names f) [] = Ok m ->
  NoDup (map fst (file_defs f)) /\ forall n, lookup n m = option_map dkind_cat (lookup n (file_defs f)).
Proof.
  intros H. destruct (register_spec _ _ _ H) as (ND & _ & Hm). rewrite map_fst_def_names in ND.
  split; [exact ND|]. intros n. rewrite Hm. cbn [lookup]. rewrite file_def_names_defs. apply lookup_map_snd.
Qed.

(* ---------------------------------------------------------------- builtin names, split_type *)

Lemma builtin_cases n c : builtin_category n = Some c ->
  is_typedef_cat c = false /\ is_type_cat c = false.
Proof.
  unfold builtin_category. cbn [lookup].
  repeat match goal with |- context [beqb n ?x] => destruct (beqb n x) end;
    intros H; try discriminate; injection H as <-; split; reflexivity.
Qed.

Lemma split_type_single n a : split_type n = [a] -> a = n.
Proof.
  unfold split_type. destruct n as [|b n]; [discriminate|].
  destruct (last_index_split dot (b :: n)) as [[x y]|]; [discriminate|]. intros [= <-]. reflexivity.
Qed.

Lemma type_cat_cases c : is_type_cat c = true ->
  c = CatEnum \/ c = CatStruct \/ c = CatUnion \/ c = CatException \/ c = CatTypedef.
Proof. destruct c; cbn; intros H; try discriminate; auto. Qed.

(* ---------------------------------------------------------------- shape after ResolveType *)

Definition head1 (done : program) (f : file) (t : ty) : Prop :=
  match builtin_category (ty_name t) with
  | Some c => ty_category t = c /\ ty_ref t = None /\ ty_is_typedef t = None
  | None =>
    match split_type (ty_name t) with
    | [a] => exists c, lookup a (n2c_of f) = Some c /\ is_type_cat c = true /\ ty_category t = c /\
                       ty_ref t = None /\ ty_is_typedef t = typedef_flag c
    | [pre; m] => exists idx c, find_include done is_type_cat pre m (f_includes f) 0 = Some (idx, c) /\
                       ty_category t = c /\ ty_ref t = Some (Ref m (Z.of_nat idx)) /\
                       ty_is_typedef t = typedef_flag c
    | _ => False
    end
  end.

Lemma resolve_ty_head1 done f : forall t t', resolve_ty done f t = Ok t' ->
  ty_name t' = ty_name t /\ Forall (head1 done f) (ty_occs t').
Proof.
  induction t as [n k v cpp an cat r td IHk IHv] using ty_ind'. intros t' H.
  cbn [resolve_ty] in H. destruct (builtin_category n) as [c|] eqn:Bn.
  - destruct c;
      try (injection H as <-; cbn [ty_name ty_occs]; rewrite Bn; split; [reflexivity|];
           constructor; [unfold head1; cbn [ty_name ty_category ty_ref ty_is_typedef]; rewrite Bn; auto | constructor]).
    + (* map *)
      destruct k as [kt|]; [|discriminate]. destruct v as [vt|]; [|cbn [bind] in H; inv_bind H; discriminate].
      inv_bind H. injection H as <-. cbn [ty_name ty_occs]. rewrite Bn. split; [reflexivity|].
      destruct (IHk kt eq_refl _ E) as (_ & Hk). destruct (IHv vt eq_refl _ E0) as (_ & Hv).
      constructor; [unfold head1; cbn [ty_name ty_category ty_ref ty_is_typedef]; rewrite Bn; auto|].
      apply Forall_app. auto.
    + (* list *)
      destruct v as [vt|]; [|discriminate]. inv_bind H. injection H as <-.
      cbn [ty_name ty_occs]. rewrite Bn. split; [reflexivity|].
      destruct (IHv vt eq_refl _ E) as (_ & Hv).
      constructor; [unfold head1; cbn [ty_name ty_category ty_ref ty_is_typedef]; rewrite Bn; auto | exact Hv].
    + (* set *)
      destruct v as [vt|]; [|discriminate]. inv_bind H. injection H as <-.
      cbn [ty_name ty_occs]. rewrite Bn. split; [reflexivity|].
      destruct (IHv vt eq_refl _ E) as (_ & Hv).
      constructor; [unfold head1; cbn [ty_name ty_category ty_ref ty_is_typedef]; rewrite Bn; auto | exact Hv].
  - destruct (split_type n) as [|a [|m [|? ?]]] eqn:Sn; try discriminate.
    + destruct (lookup a (n2c_of f)) as [c|] eqn:La; [|discriminate].
      destruct (is_type_cat c) eqn:Tc; [|discriminate]. injection H as <-.
      cbn [ty_name ty_occs]. rewrite Bn. split; [reflexivity|]. constructor; [|constructor].
      unfold head1. cbn [ty_name ty_category ty_ref ty_is_typedef]. rewrite Bn, Sn. exists c. auto.
    + destruct (find_include done is_type_cat a m (f_includes f) 0) as [[idx c]|] eqn:Fi; [|discriminate].
      injection H as <-. cbn [ty_name ty_occs]. rewrite Bn. split; [reflexivity|]. constructor; [|constructor].
      unfold head1. cbn [ty_name ty_category ty_ref ty_is_typedef]. rewrite Bn, Sn. exists idx, c. auto.
Qed.

(* ---------------------------------------------------------------- shape after the typedef pass *)

Definition head2 (done : program) (f : file) (st : list tde) (t : ty) : Prop :=
  match builtin_category (ty_name t) with
  | Some c => ty_category t = c /\ ty_ref t = None /\ ty_is_typedef t = None
  | None =>
    match split_type (ty_name t) with
    | [a] => exists c, lookup a (n2c_of f) = Some c /\ is_type_cat c = true /\
                       ty_ref t = None /\ ty_is_typedef t = typedef_flag c /\
                       (if is_typedef_cat c
                        then te_lookup st (ty_name t) = Some (ty_category t) /\ is_typedef_cat (ty_category t) = false
                        else ty_category t = c)
    | [pre; m] => exists idx c, find_include done is_type_cat pre m (f_includes f) 0 = Some (idx, c) /\
                       ty_ref t = Some (Ref m (Z.of_nat idx)) /\ ty_is_typedef t = typedef_flag c /\
                       (if is_typedef_cat c
                        then ext_typedef_cat done f (Ref m (Z.of_nat idx)) = Some (ty_category t) /\
                             is_typedef_cat (ty_category t) = false
                        else ty_category t = c)
    | _ => False
    end
  end.

Definition opt_occs (k : option ty) : list ty := match k with Some x => ty_occs x | None => [] end.

Lemma ty_occs_unfold n k v cpp an c r td :
  ty_occs (Ty n k v cpp an c r td) =
  Ty n k v cpp an c r td ::
     match builtin_category n with
     | Some CatMap => opt_occs k ++ opt_occs v
     | Some CatList | Some CatSet => opt_occs v
     | _ => []
     end.
Proof. reflexivity. Qed.

Lemma fix_ty_head2 done f st : forall t t', Forall (head1 done f) (ty_occs t) ->
  fix_ty done f st t = Ok t' ->
  ty_name t' = ty_name t /\ Forall (head2 done f st) (ty_occs t').
Proof.
  induction t as [n k v cpp an cat r td IHk IHv] using ty_ind'. intros t' Hocc H.
  cbn [fix_ty] in H. inv_bind H. rename x into k'. rename x0 into v'.
  assert (Hk : Forall (head1 done f) (opt_occs k) -> Forall (head2 done f st) (opt_occs k')).
  { destruct k as [x|]; [inv_bind E; injection E as <- | injection E as <-; intros _; constructor].
    intros Ho. exact (proj2 (IHk x eq_refl _ Ho E1)). }
  assert (Hv : Forall (head1 done f) (opt_occs v) -> Forall (head2 done f st) (opt_occs v')).
  { destruct v as [x|]; [inv_bind E0; injection E0 as <- | injection E0 as <-; intros _; constructor].
    intros Ho. exact (proj2 (IHv x eq_refl _ Ho E1)). }
  clear E E0 IHk IHv. rewrite ty_occs_unfold in Hocc.
  pose proof (Forall_inv Hocc) as Hh. apply Forall_inv_tail in Hocc.
  unfold head1 in Hh. cbn [ty_name ty_category ty_ref ty_is_typedef] in Hh.
  destruct (builtin_category n) as [c|] eqn:Bn.
  - destruct Hh as (-> & -> & ->). destruct (builtin_cases n c Bn) as (Ntd & _). rewrite Ntd in H.
    injection H as <-. cbn [ty_name]. split; [reflexivity|]. rewrite ty_occs_unfold, Bn.
    constructor.
    + unfold head2. cbn [ty_name ty_category ty_ref ty_is_typedef]. rewrite Bn. auto.
    + destruct c; try constructor.
      * apply Forall_app in Hocc. destruct Hocc. apply Forall_app. auto.
      * auto.
      * auto.
  - clear Hk Hv Hocc.
    destruct (split_type n) as [|a [|m [|? ?]]] eqn:Sn; try contradiction.
    + destruct Hh as (c & La & Tc & -> & -> & ->). pose proof (split_type_single _ _ Sn) as ->.
      destruct (is_typedef_cat c) eqn:Td.
      * destruct (te_lookup st n) as [c'|] eqn:K; [|discriminate].
        destruct (is_typedef_cat c') eqn:Td'; [discriminate|]. injection H as <-.
        cbn [ty_name]. split; [reflexivity|]. rewrite ty_occs_unfold, Bn. constructor; [|constructor].
        unfold head2. cbn [ty_name ty_category ty_ref ty_is_typedef]. rewrite Bn, Sn.
        exists c. rewrite Td. auto 10.
      * injection H as <-. cbn [ty_name]. split; [reflexivity|]. rewrite ty_occs_unfold, Bn. constructor; [|constructor].
        unfold head2. cbn [ty_name ty_category ty_ref ty_is_typedef]. rewrite Bn, Sn.
        exists c. rewrite Td. auto 10.
    + destruct Hh as (idx & c & Fi & -> & -> & ->).
      destruct (is_typedef_cat c) eqn:Td.
      * destruct (ext_typedef_cat done f (Ref m (Z.of_nat idx))) as [c'|] eqn:K; [|discriminate].
        destruct (is_typedef_cat c') eqn:Td'; [discriminate|]. injection H as <-.
        cbn [ty_name]. split; [reflexivity|]. rewrite ty_occs_unfold, Bn. constructor; [|constructor].
        unfold head2. cbn [ty_name ty_category ty_ref ty_is_typedef]. rewrite Bn, Sn.
        exists idx, c. rewrite Td. auto 10.
      * injection H as <-. cbn [ty_name]. split; [reflexivity|]. rewrite ty_occs_unfold, Bn. constructor; [|constructor].
        unfold head2. cbn [ty_name ty_category ty_ref ty_is_typedef]. rewrite Bn, Sn.
        exists idx, c. rewrite Td. auto 10.
Qed.
