(* Corr/C13.v — correspondence record and oracles for property C13 (field-mask filtered
   serialization).

   A shard defines  E : env  (the schema program); every case carries the harness input and what
   the code generated with with_field_mask,with_reflection (x field_mask_halfway /
   field_mask_zero_required) was observed to do with a mask built by the REAL
   fieldmask.NewFieldMask from the path strings, plus what code generated WITHOUT the option does
   on the same input.

   [mismatches] returns (case index, code):
     1  model and implementation disagree                                        (correspondence)
     8  input outside what the value-level model follows                          (correspondence)
     2  written bytes are not a well-formed encoding (a header count differs from the
        number of elements that follow / trailing bytes)                                 (oracle)
     3  on the domain: the written bytes do not decode to the value restricted to the
        path set                                                                         (oracle)
     4  nil mask: Write differs from code generated without the option                   (oracle)
     5  a nil mask set on an object that was written under a mask before: Write differs
        from code generated without the option                                           (oracle)
     6  on the domain: Read under the mask does not store the restriction of the message (oracle)
     7  Read under a mask fails on a message the plain code reads                        (oracle)
    10  nil mask: Read differs from code generated without the option                    (oracle)
    11  a filtered non-required field is on the wire / a filtered required field is not  (oracle)
    12  a plain peer cannot decode what Write emitted under the mask                     (oracle)
    13  a mask set on a non-root object (root mask nil): with field_mask_halfway the sub object
        is not its restriction / without the option the mask has an effect               (oracle) *)
From Coq Require Import List ZArith Bool NArith Lia.
From Verif Require Import Base.Bytes Base.BE Wire.TType Wire.WVal Wire.Codec Wire.Schema Wire.Value Wire.Std
  Wire.Masked Wire.MaskedHalfway Wire.MaskedOwn Corr.C02.
From Verif Require Mask.Path Mask.Desc Mask.Trie Mask.Spec.
Import ListNotations.
Open Scope Z_scope.

Inductive case :=
| CMWrite (sname : bytes) (cfg : mcfg) (black : bool)
          (paths : option (list bytes))            (* None: the nil mask, no NewFieldMask call *)
          (ps : list (list Mask.Spec.pseg))        (* the same paths as syntax trees *)
          (v : value)
          (omaskerr : bool) (oerr : obs_err) (obytes : bytes)
          (again_err : obs_err) (again_bytes : bytes)
          (plain_err : obs_err) (plain_bytes : bytes)
| CMRead (sname : bytes) (cfg : mcfg) (black : bool)
         (paths : option (list bytes)) (ps : list (list Mask.Spec.pseg))
         (zero_init : bool) (input : bytes) (src : option value)
         (omaskerr : bool) (oerr : obs_err) (odump : value)
         (plain_err : obs_err) (plain_dump : value)
(* a mask set by the user on the sub object reached through the struct-typed fields [path] *)
| CMOwn (sname : bytes) (cfg : mcfg) (black : bool) (paths : option (list bytes))
        (path : list Z) (black2 : bool) (paths2 : option (list bytes)) (ps2 : list (list Mask.Spec.pseg))
        (v : value) (omaskerr : bool) (oerr : obs_err) (obytes : bytes).

Definition token_eqb (a b : Mask.Path.token) : bool :=
  match a, b with
  | Mask.Path.TLitStr x, Mask.Path.TLitStr y | Mask.Path.TStr x, Mask.Path.TStr y => beqb x y
  | Mask.Path.TLitInt x, Mask.Path.TLitInt y => x =? y
  | Mask.Path.TRoot, Mask.Path.TRoot | Mask.Path.TField, Mask.Path.TField
  | Mask.Path.TIndexL, Mask.Path.TIndexL | Mask.Path.TIndexR, Mask.Path.TIndexR
  | Mask.Path.TMapL, Mask.Path.TMapL | Mask.Path.TMapR, Mask.Path.TMapR
  | Mask.Path.TElem, Mask.Path.TElem | Mask.Path.TAny, Mask.Path.TAny
  | Mask.Path.TErr, Mask.Path.TErr | Mask.Path.TOut, Mask.Path.TOut => true
  | _, _ => false
  end.

(* the path set of the case, when the paths are inside C14's domain: grammatical, typed against
   the descriptor, conflict free (black lists: no path ends with a star), and the strings are
   the renderings of the syntax trees *)
Definition domain_paths (e : env) (s : sschema) (black : bool) (strs : list bytes) (ps : list (list Mask.Spec.pseg))
  : option (list Mask.Spec.spath) :=
  let d := dty_of e (TRef (s_name s)) in
  if list_eqb (list_eqb token_eqb) (map Mask.Path.tokenize strs) (map Mask.Spec.tokens_of ps)
     && Mask.Spec.well_typed (senv_of e) d ps then
    match Mask.Spec.elab_all (senv_of e) d ps with
    | Some gs => if Mask.Spec.in_domain black gs then Some (Mask.Spec.path_set gs) else None
    | None => None
    end
  else None.

Definition zero_ok := zero_okb.

Definition dec_full (bs : bytes) : option wval :=
  match dec_struct bs with Some (w, []) => Some w | _ => None end.

Definition same_wire (a b : bytes) : bool :=
  match dec_full a, dec_full b with
  | Some x, Some y => weq_mod false x y
  | _, _ => beqb a b
  end.

Definition err_class_eqb (a b : obs_err) : bool :=
  match a, b with
  | OOk, OOk | OInvalidData, OInvalidData | OProtocol, OProtocol | OTransport, OTransport
  | OError, OError | OPanic, OPanic => true
  | _, _ => false end.

(* the model mask of a case: None = mask construction fails *)
Definition model_mask (e : env) (s : sschema) (black : bool) (paths : option (list bytes))
  : option (option mask) :=
  match paths with
  | None => Some None
  | Some strs => match mask_for e s black strs with
                 | Mask.Trie.Ok m => Some (Some m)
                 | _ => None end
  end.

(* ids of the fields a decoded struct carries *)
Definition wire_ids (w : wval) : list Z :=
  match w with WStruct fs => map (fun f => snd (fst f)) fs | _ => [] end.

(* top level, white or black, on the domain: a non-required field is on the wire iff it is present
   and the path set passes it; a required field is always on the wire *)
Definition top_presence (e : env) (s : sschema) (black : bool) (psn : list Mask.Spec.spath) (fs : list (Z * value)) (w : wval) : bool :=
  forallb (fun p => match find_field (fst p) (s_fields s) with
                    | Some f =>
                        let on := existsb (Z.eqb (f_id f)) (wire_ids w) in
                        if is_required f then on
                        else Bool.eqb on (present f (snd p) && ps_pass black psn (QF (f_id f)))
                    | None => true end) fs.

(* the struct-like a path of field ids leads to *)
Fixpoint struct_at (e : env) (s : sschema) (path : list Z) : option sschema :=
  match path with
  | [] => Some s
  | id :: rest =>
      match find_field id (s_fields s) with
      | Some f => match f_ty f with
                  | TRef n => match find_struct e n with Some s' => struct_at e s' rest | None => None end
                  | _ => None end
      | None => None end
  end.

(* the slot a path of field ids leads to *)
Fixpoint value_at (path : list Z) (v : value) : option value :=
  match path with
  | [] => Some v
  | id :: rest =>
      match v with
      | VStruct fs => match find (fun p => fst p =? id) fs with
                      | Some p => value_at rest (snd p)
                      | None => None end
      | _ => None end
  end.

Definition check (e : env) (c : case) : list N :=
  match c with
  | CMWrite sname cfg black paths ps v omaskerr oerr obytes again_err again_bytes plain_err plain_bytes =>
      match find_struct e sname with
      | None => [8%N]
      | Some s =>
          match model_mask e s black paths with
          | None => if omaskerr then [] else [1%N]
          | Some m =>
              if omaskerr then [1%N] else
              (* correspondence *)
              (match to_wire_masked cfg m e s v with
               | Ok r =>
                   match oerr with
                   | OOk => match dec_full obytes with
                            | Some w' => if counts_ok r && weq_mod false (cook r) w' then [] else [1%N]
                            | None => [1%N] end
                   | _ => [1%N] end
               | Err (EUnionCount _) | Err ESetDup => if is_err oerr then [] else [1%N]
               | Err ENilUnion => match oerr with OPanic => [] | _ => [1%N] end
               | Err _ => [8%N]
               end) ++
              (* correspondence: the same object written once more after Set_FieldMask(nil)
                 (field_mask_halfway: the sub objects keep what the first Write passed them) *)
              (match second_write cfg m None e s v with
               | Ok r =>
                   match again_err with
                   | OOk => match dec_full again_bytes with
                            | Some w' => if counts_ok r && weq_mod false (cook r) w' then [] else [1%N]
                            | None => [1%N] end
                   | _ => [1%N] end
               | Err (EUnionCount _) | Err ESetDup => if is_err again_err then [] else [1%N]
               | Err ENilUnion => match again_err with OPanic => [] | _ => [1%N] end
               | Err _ => [8%N]
               end) ++
              (* oracle: well-formed encoding, whatever the model says *)
              (match oerr with
               | OOk => match dec_full obytes with Some (WStruct _) => [] | _ => [2%N] end
               | _ => [] end) ++
              (* oracle: decodes to the restriction, on the domain *)
              (if wt e s v then
                 match oerr, dec_full obytes with
                 | OOk, Some w =>
                     let spec :=
                       match paths with
                       | None => Some (norm_struct e s v, None)
                       | Some strs => match domain_paths e s black strs ps with
                                      | Some psn => Some (restrict_ps black (wmode cfg) e psn (TRef (s_name s)) v, Some psn)
                                      | None => None end
                       end in
                     match spec with
                     | Some (want, opsn) =>
                         (match read_new e s w with
                          | Ok v' => if veq_mod v' want then [] else [3%N]
                          | Err _ => if zero_required cfg && negb (zero_ok e) then [] (* code 12 reports it *) else [3%N] end) ++
                         (match opsn, v with
                          | Some psn, VStruct fs => if top_presence e s black psn fs w then [] else [11%N]
                          | _, _ => [] end)
                     | None => [] end
                 | _, _ => [] end
               else []) ++
              (* oracle: a plain peer can read what was written (required fields are always there) *)
              (if wt e s v then
                 match oerr, dec_full obytes with
                 | OOk, Some w => match read_new e s w with Ok _ => [] | Err _ => [12%N] end
                 | _, _ => [] end
               else []) ++
              (* oracle: a nil mask behaves like code generated without the option *)
              (match paths with
               | None => if err_class_eqb oerr plain_err && (negb (err_class_eqb oerr OOk) || same_wire obytes plain_bytes)
                         then [] else [4%N]
               | Some _ => [] end) ++
              (if err_class_eqb again_err plain_err && (negb (err_class_eqb again_err OOk) || same_wire again_bytes plain_bytes)
               then [] else [5%N])
          end
      end
  | CMRead sname cfg black paths ps zero_init input src omaskerr oerr odump plain_err plain_dump =>
      match find_struct e sname with
      | None => [8%N]
      | Some s =>
          match model_mask e s black paths with
          | None => if omaskerr then [] else [1%N]
          | Some m =>
              if omaskerr then [1%N] else
              let init := if zero_init then zero_struct e s else new_struct e s in
              (match read_bytes_masked cfg m e s init input with
               | Ok v => match oerr with OOk => if veq_mod v odump then [] else [1%N] | _ => [1%N] end
               | Err (ERequiredMissing _) => match oerr with OInvalidData => [] | _ => [1%N] end
               | Err EDecode => if is_err oerr then [] else [1%N]
               | Err _ => [8%N]
               end) ++
              (* oracle: stores the restriction of the message, on the domain *)
              (match src with
               | Some v0 =>
                   if wt e s v0 && negb zero_init then
                     match to_wire e s v0 with
                     | Ok w0 =>
                         if match dec_full input with Some w' => weq_mod false w0 w' | None => false end then
                           let spec :=
                             match paths with
                             | None => Some (norm_struct e s v0)
                             | Some strs => match domain_paths e s black strs ps with
                                            | Some psn => Some (restrict_ps black RqDrop e psn (TRef (s_name s)) v0)
                                            | None => None end
                             end in
                           match spec with
                           | Some want => match oerr with
                                          | OOk => if veq_mod odump want then [] else [6%N]
                                          | _ => [6%N] end
                           | None => [] end
                         else []
                     | Err _ => [] end
                   else []
               | None => [] end) ++
              (* oracle: what the plain code reads, the masked code reads *)
              (match plain_err, oerr with
               | OOk, OOk => []
               | OOk, _ => [7%N]
               | _, _ => [] end) ++
              (match paths with
               | None => if err_class_eqb oerr plain_err && (negb (err_class_eqb oerr OOk) || veq_mod odump plain_dump)
                         then [] else [10%N]
               | Some _ => [] end)
          end
      end
  | CMOwn sname cfg black paths path black2 paths2 ps2 v omaskerr oerr obytes =>
      match find_struct e sname with
      | None => [8%N]
      | Some s =>
          match struct_at e s path with
          | None => [8%N]
          | Some s2 =>
              match model_mask e s black paths, model_mask e s2 black2 paths2 with
              | Some m, Some m2 =>
                  if omaskerr then [1%N] else
                  (match write_with_own cfg m path m2 e s v with
                   | Ok r =>
                       match oerr with
                       | OOk => match dec_full obytes with
                                | Some w' => if counts_ok r && weq_mod false (cook r) w' then [] else [1%N]
                                | None => [1%N] end
                       | _ => [1%N] end
                   | Err (EUnionCount _) | Err ESetDup => if is_err oerr then [] else [1%N]
                   | Err ENilUnion => match oerr with OPanic => [] | _ => [1%N] end
                   | Err _ => [8%N]
                   end) ++
                  (match oerr with
                   | OOk => match dec_full obytes with Some (WStruct _) => [] | _ => [2%N] end
                   | _ => [] end) ++
                  (* oracle, root mask nil: with field_mask_halfway the sub object arrives restricted to
                     ITS path set (on the domain), without the option its mask has no effect *)
                  (match paths, oerr, dec_full obytes with
                   | None, OOk, Some w =>
                       if wt e s v then
                         match read_new e s w with
                         | Ok v' =>
                             if halfway cfg then
                               match paths2 with
                               | Some strs2 =>
                                   match domain_paths e s2 black2 strs2 ps2, value_at path v', value_at path v with
                                   | Some psn, Some sv', Some sv =>
                                       if veq_mod sv' (restrict_ps black2 (wmode cfg) e psn (TRef (s_name s2)) sv)
                                       then [] else [13%N]
                                   | Some _, _, _ => [13%N]
                                   | None, _, _ => [] end
                               | None => if veq_mod v' (norm_struct e s v) then [] else [13%N] end
                             else if veq_mod v' (norm_struct e s v) then [] else [13%N]
                         | Err _ => [13%N] end
                       else []
                   | _, _, _ => [] end)
              | _, _ => if omaskerr then [] else [1%N]
              end
          end
      end
  end.

Fixpoint mismatches_from (e : env) (i : N) (cs : list case) : list (N * N) :=
  match cs with
  | [] => []
  | c :: r => map (fun code => (i, code)) (check e c) ++ mismatches_from e (i + 1)%N r
  end.
