"""C09 — schema evolution: unknown fields are tolerated, and preserved when asked
(generator/golang/templates/struct.go default branch of Read, generator/golang/extension/unknown)."""
import json
import os
import vlib


class S(vlib.Spec):
    prop = "C09"
    design_ref = "DESIGN.md section 3 / C09"
    coq_targets = ["Props/C09.vo", "Corr/C09.vo"]
    props_file = "Props/C09.v"
    harness_pkg = "./cmd/c09"
    harness_name = "c09"
    needs_thriftgo = True
    corr_codes = {1, 8, 9}
    code_names = {
        1: "model and implementation disagree",
        8: "case outside what the harness may produce (pair is not an extension / ill-typed value)",
        9: "model out of fuel",
        2: "code of the old version failed to read what code of the new version wrote",
        3: "a field common to both versions did not keep its value when old code read new data",
        4: "keep_unknown_fields: the bytes at the end of the chain do not decode under the new schema to the original value",
        5: "CarryingUnknownFields() differs from 'the input had a field this version does not know'",
        6: "code of the new version failed to read old data, or an added field did not take its default",
        7: "old code generated with keep_unknown_fields refused to re-write what it had read",
    }
    modelled = ("generator/golang/extension/unknown/unknown.go (Fields.Append/read, Fields.Write/write), binary.go (the Binary "
                "reader/writer they use), templates/struct.go (HandleUnknownFields in StructLikeRead, _unknownFields.Write in "
                "StructLikeWrite, CarryingUnknownFields) -> coq/Wire/Unknown.v, on top of the standard codec coq/Wire/Std.v "
                "(hand-written, tied by correspondence on compiled generated code of BOTH schema versions on every run); "
                "generator/golang/types.go category2TypeID -> coq/Wire/GenTables.v (regenerated on every run)")
    trusted_base = [
        "hand-written models coq/Wire/Unknown.v (this property) and coq/Wire/Std.v, Value.v, Schema.v, Codec.v (shared wire core)",
        "github.com/apache/thrift v0.13.0 TBinaryProtocol / TMemoryBuffer / Skip are modelled by Wire/Codec.v enc/dec (not verified); "
        "Skip's own recursion limit (64) is not modelled: inputs for code WITHOUT keep_unknown_fields stay below it; the limit of "
        "unknown.read (same number, thriftgo's code) is modelled and exercised at 63..66",
        "harness/cmd/translate-wire (go/ast reader of two tables)",
        "harness/schemagen, schemaevo (old/new pairs; the relation they must satisfy is evaluated in Coq: extendsb), valgen, "
        "gendrv + gendrv/driver (reflection driver; c09.go adds the chain verbs and the CarryingUnknownFields dump), coqfmt, casefile, lib/vlib.py",
        "the real thriftgo binary and go build are run on every check; Go's reflect.DeepEqual (set uniqueness looks at the private "
        "buffer too) and map semantics as modelled by deep_eq / go_key_eq / map_insert",
    ]
    assumptions = [
        "objects are fresh NewX() objects unless the case says otherwise (Read twice into one object is a separate case kind: nothing is reset)",
        "C09_keep_roundtrip / C09_chain assume the old code's Write succeeded; C09_keep_write_iff shows this happens exactly when the object it holds is writable (and C09_keep_rewrite_errors that a refusal is always the set check or the union count) (every union has exactly one declared member set, no set has two DeepEqual elements), and C09_keep_roundtrip_total / C09_chain_total state the round trip under the decidable hypothesis keep_accepts o n so sn v alone; the case keep_accepts = false with a union is the known finding (C09_keep_roundtrip_refuted)",
        "domain of the keep theorems: opt_defaults_ok o n (an optional field of the old program whose fresh NewX() content already counts as set must read back, under the new schema, as its declared default; decidable) and keepable n t v (no nil struct pointer in a non-optional position, no map keys colliding when written); outside it the correspondence still compares every hop",
    ]

    def translators(self, ctx):
        ok, log, binp = vlib.go_build("./cmd/translate-wire", "translate-wire")
        if not ok:
            return ["translate-wire: build failed: " + log[-500:]]
        rc, out = vlib.sh([binp, "-repo", vlib.REPO, "-out", os.path.join(vlib.COQ, "Wire", "GenTables.v")])
        return ["translate-wire -> Wire/GenTables.v: " + out.strip().splitlines()[-1] if out.strip() else "translate-wire: no output"]

    def producer_args(self, ctx):
        return ["-seed", str(ctx.seed), "-tier", ctx.tier, "-out", ctx.out, "-thriftgo", ctx.thriftgo,
                "-scratch", os.path.join(ctx.scratch, "gen")]

    def classify(self, code, case):
        case = case or {}
        names = {2: "old-fails-to-read-new", 3: "common-field-changed", 4: "keep-chain-does-not-decode-to-value",
                 5: "carrying-flag", 6: "new-reads-old", 7: "keep-rewrite-refused"}
        cls = "C09-%s" % names.get(code, "code-%d" % code)
        if code == 7 and case.get("union_unknown_member"):
            cls += "-union-member-unknown-to-old"
        elif case.get("kind") == "chain":
            cls += "-" + str(case.get("start", "?")) + "-" + str(case.get("chain", "?"))
        elif case.get("kind") == "hopb":
            cls += "-" + str(case.get("what", "?"))
        return cls


def run(tier):
    return vlib.standard_run(S(), tier)


def replay(path):
    obj = json.load(open(path))
    print(json.dumps(obj, indent=1)[:8000])
    return 0
