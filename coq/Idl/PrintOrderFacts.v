(* Idl/PrintOrderFacts.v — parse_print for ARBITRARY source order: headers (include, cpp_include,
   namespace) in any interleaving and definitions of different kinds in any interleaving.  The
   parser returns the file whose per-kind lists hold the definitions in source order
   ([file_of]), up to recorded comments.  (Idl/PrintFacts.v states the canonical order only.) *)
From Coq Require Import List Bool Lia.
From Verif Require Import Base.Bytes Idl.Ast Idl.Lex Idl.Parse Idl.Print Idl.PrintFacts.
Import ListNotations.

Theorem parse_tokens_any_order n hs ds lts fin :
  forallb wf_header hs = true -> forallb wf_def ds = true ->
  C (flat_map protos_header hs ++ flat_map protos_def ds) lts ->
  exists a', parse_tokens n lts fin = Some a' /\
             strip_comments a' = strip_comments (file_of n hs ds).
Proof.
  intros Hwh Hwd H.
  destruct (C_app_inv _ _ _ H) as (ph & pd & -> & Hph & Hpd).
  assert (Hrest : pd = [] \/ exists tr w X, pd = (tr, TWord w) :: X /\ In w def_kws).
  { destruct ds as [|d r].
    - apply C_nil_inv in Hpd. left. exact Hpd.
    - cbn [flat_map] in Hpd. destruct (C_app_inv _ _ _ Hpd) as (p1 & p2 & -> & Hp1 & _).
      destruct (def_first d p1 Hp1) as (tr & w & p' & -> & Hin). right. exists tr, w, (p' ++ p2). auto. }
  unfold parse_tokens.
  rewrite (parse_headers_conc hs (S (List.length (ph ++ pd))) ph pd Hwh Hph); [| rewrite app_length; lia | exact Hrest].
  destruct (parse_defs_conc ds (S (List.length (ph ++ pd)))
                            (match hs with [] => true | _ => false end) pd fin Hwd Hpd) as (ds' & Eds & Hmap);
    [rewrite app_length; lia|].
  rewrite Eds. eexists. split; [reflexivity|]. apply strip_file_of. exact Hmap.
Qed.

(* per-kind lists are the definitions of that kind in source order *)
Lemma file_of_structs n hs ds :
  f_structs (file_of n hs ds) =
  flat_map (fun d => match d with
                     | DStructLike s => match sl_category s with SKStruct => [s] | _ => [] end
                     | _ => [] end) ds.
Proof. reflexivity. Qed.
Lemma file_of_enums n hs ds :
  f_enums (file_of n hs ds) = flat_map (fun d => match d with DEnum e => [e] | _ => [] end) ds.
Proof. reflexivity. Qed.
