(* Mask/JsonFacts.v — proofs about the JSON model (Mask/Json.v). *)
From Coq Require Import List Bool ZArith NArith Lia.
From Coq.Strings Require Import Byte.
From Verif Require Import Base.Bytes Mask.Path Mask.Desc Mask.Trie Mask.Spec Mask.Json Mask.TrieFacts Mask.SemFacts Mask.FrameFacts Mask.RefineFacts Mask.C14Facts.
Import ListNotations.

(* induction over masks with the children available *)
Lemma mask_ind' (P : mask -> Prop) :
  (forall t a b ks, Forall (fun kc => P (snd kc)) ks -> P (Node t a b ks)) -> forall m, P m.
Proof.
  intros H. fix IH 1. intros [t a b ks]. apply H.
  induction ks as [|[k c] ks IHks]; constructor; [apply IH | exact IHks].
Qed.

Definition entries_of (ks : list (key * mask)) : list entry :=
  map (fun kc => (fst kc, live (snd kc), to_jt (jpath_of_key (fst kc)) (snd kc))) ks.

Lemma to_jt_unfold p m :
  to_jt p m = node_json p (m_typ m) (m_isall m) (m_black m) (entries_of (m_kids m)).
Proof.
  destruct m as [t a b ks]. cbn [to_jt m_typ m_isall m_black m_kids]. f_equal.
  all: induction ks as [|[k c] ks IH]; [reflexivity|]; cbn [entries_of map fst snd]; rewrite IH; reflexivity.
Qed.

Lemma jsorted_unfold p t b h kids :
  jsorted (JNode p t b h kids) = paths_sorted kids && forallb jsorted kids.
Proof.
  reflexivity.
Qed.

(* ---- the order *)
Lemma bytes_leb_total : forall a b, bytes_leb a b = false -> bytes_leb b a = true.
Proof.
  induction a as [|x a IH]; intros [|y b]; cbn; try discriminate; try reflexivity.
  destruct (Byte.to_N x <? Byte.to_N y)%N eqn:E1; [discriminate|].
  destruct (Byte.to_N y <? Byte.to_N x)%N eqn:E2; [reflexivity|]. apply IH.
Qed.

Lemma key_leb_total a b : key_leb a b = false -> key_leb b a = true.
Proof.
  destruct a, b; cbn; try discriminate; try reflexivity.
  - rewrite Z.leb_gt, Z.leb_le. lia.
  - rewrite Z.leb_gt, Z.leb_le. lia.
  - apply bytes_leb_total.
Qed.

Definition ekey (e : entry) : key := fst (fst e).

Fixpoint esorted (l : list entry) : bool :=
  match l with
  | [] => true
  | x :: r => match r with
              | [] => true
              | y :: _ => key_leb (ekey x) (ekey y) && esorted r
              end
  end.

Lemma insert_sorted_esorted e : forall l, esorted l = true -> esorted (insert_sorted e l) = true.
Proof.
  induction l as [|x r IH]; intros Hs; [reflexivity|].
  cbn [insert_sorted]. fold (ekey e) (ekey x). destruct (key_leb (ekey e) (ekey x)) eqn:E.
  - cbn [esorted]. rewrite E. exact Hs.
  - apply key_leb_total in E.
    destruct r as [|y r'].
    + cbn [insert_sorted esorted]. rewrite E. reflexivity.
    + cbn [esorted] in Hs. rewrite andb_true_iff in Hs. destruct Hs as [H1 H2].
      specialize (IH H2). cbn [insert_sorted] in *. fold (ekey e) (ekey y) in *.
      destruct (key_leb (ekey e) (ekey y)) eqn:E2.
      * cbn [esorted]. rewrite E, E2. exact H2.
      * change (esorted (x :: y :: insert_sorted e r') = true). cbn [esorted]. rewrite H1. exact IH.
Qed.

Lemma sort_entries_esorted l : esorted (sort_entries l) = true.
Proof. induction l as [|x r IH]; [reflexivity|]. cbn [sort_entries fold_right]. apply insert_sorted_esorted. exact IH. Qed.

Lemma insert_sorted_forall (P : entry -> Prop) e l : P e -> Forall P l -> Forall P (insert_sorted e l).
Proof.
  intros He Hl. induction Hl as [|x r Hx Hr IH]; cbn [insert_sorted]; [constructor; auto|].
  destruct (key_leb (fst (fst e)) (fst (fst x))); constructor; auto.
Qed.

Lemma sort_entries_forall (P : entry -> Prop) l : Forall P l -> Forall P (sort_entries l).
Proof. induction 1 as [|x r Hx Hr IH]; [constructor|]. cbn [sort_entries fold_right]. apply insert_sorted_forall; assumption. Qed.

Lemma filter_forall {A} (P : A -> Prop) f l : Forall P l -> Forall P (filter f l).
Proof. induction 1 as [|x r Hx Hr IH]; cbn; [constructor|]. destruct (f x); [constructor|]; auto. Qed.

Lemma filter_forall_true {A} (f : A -> bool) l : Forall (fun x => f x = true) (filter f l).
Proof. induction l as [|x r IH]; cbn; [constructor|]. destruct (f x) eqn:E; [constructor|]; auto. Qed.

Lemma store_leb t a b : store_of t a = true -> store_of t b = true ->
  key_leb a b = jpath_leb (jpath_of_key a) (jpath_of_key b).
Proof. destruct t, a, b; cbn; try discriminate; reflexivity. Qed.

(* an entry carries the JSON of a child under the label of its key, and that JSON is sorted *)
Definition entry_ok (e : entry) : Prop := jt_path (snd e) = jpath_of_key (ekey e) /\ jsorted (snd e) = true.

Lemma jt_path_to_jt p m : jt_path (to_jt p m) = p.
Proof. rewrite to_jt_unfold. unfold node_json. repeat match goal with |- context [if ?c then _ else _] => destruct c | |- context [match ?c with _ => _ end] => destruct c end; reflexivity. Qed.

Lemma paths_sorted_cons2 a b r : paths_sorted (a :: b :: r) = jpath_leb (jt_path a) (jt_path b) && paths_sorted (b :: r).
Proof. reflexivity. Qed.

Lemma paths_sorted_of_esorted t : forall l,
  Forall entry_ok l -> Forall (fun e => store_of t (ekey e) = true) l -> esorted l = true ->
  paths_sorted (map snd l) = true.
Proof.
  induction l as [|x r IH]; intros Hok Hst Hs; [reflexivity|].
  inversion Hok as [|? ? Hx Hr]; subst. inversion Hst as [|? ? Sx Sr]; subst.
  destruct r as [|y r']; [reflexivity|].
  cbn [esorted] in Hs. rewrite andb_true_iff in Hs. destruct Hs as [H1 H2].
  inversion Hr as [|? ? Hy _]; subst. inversion Sr as [|? ? Sy _]; subst.
  change (map snd (x :: y :: r')) with (snd x :: snd y :: map snd r').
  change (map snd (y :: r')) with (snd y :: map snd r') in IH.
  rewrite paths_sorted_cons2, (IH Hr Sr H2), andb_true_r.
  destruct Hx as [Px _], Hy as [Py _]. rewrite Px, Py, <- (store_leb t _ _ Sx Sy). exact H1.
Qed.

Lemma find_all_in l lv j : find_all l = Some (lv, j) -> exists k, In (k, lv, j) l.
Proof.
  induction l as [|[[k b] x] r IH]; cbn; [discriminate|].
  destruct k; try (intro H; destruct (IH H) as [k' Hk]; exists k'; right; exact Hk).
  intros [= <- <-]. exists KAll. left. reflexivity.
Qed.

Lemma node_json_sorted p t a b sub : Forall entry_ok sub -> jsorted (node_json p t a b sub) = true.
Proof.
  intro Hok. unfold node_json.
  destruct (match t with FtStruct | FtList | FtIntMap | FtStrMap => a | _ => true end).
  - destruct (find_all sub) as [[lv j]|] eqn:E; [|reflexivity].
    destruct (find_all_in _ _ _ E) as [k Hin]. rewrite Forall_forall in Hok. destruct (Hok _ Hin) as [_ Hj].
    cbn [snd] in Hj. rewrite jsorted_unfold. destruct lv; cbn [paths_sorted forallb andb]; [rewrite Hj|]; reflexivity.
  - rewrite jsorted_unfold.
    set (fl := filter (fun e => store_of t (fst (fst e)) && snd (fst e)) sub).
    assert (Forall entry_ok (sort_entries fl)) as H1 by (apply sort_entries_forall, filter_forall; exact Hok).
    assert (Forall (fun e => store_of t (ekey e) = true) (sort_entries fl)) as H2.
    { apply sort_entries_forall. unfold fl. pose proof (filter_forall_true (fun e : entry => store_of t (fst (fst e)) && snd (fst e)) sub) as X.
      eapply Forall_impl; [|exact X]. cbn. intros e He. rewrite andb_true_iff in He. tauto. }
    rewrite (paths_sorted_of_esorted t _ H1 H2 (sort_entries_esorted fl)). cbn [andb].
    rewrite forallb_forall. intros j Hj. apply in_map_iff in Hj. destruct Hj as [e [<- He]].
    rewrite Forall_forall in H1. apply H1. exact He.
Qed.

Theorem to_jt_sorted : forall m p, jsorted (to_jt p m) = true.
Proof.
  induction m as [t a b ks IH] using mask_ind'. intro p. rewrite to_jt_unfold. apply node_json_sorted.
  cbn [m_kids]. unfold entries_of. rewrite Forall_forall. intros e He. apply in_map_iff in He.
  destruct He as [[k c] [<- Hin]]. rewrite Forall_forall in IH. split; cbn [snd fst ekey].
  - apply jt_path_to_jt.
  - apply (IH (k, c) Hin).
Qed.

Theorem to_json_sorted m : jsorted (to_json m) = true.
Proof. apply to_jt_sorted. Qed.

(* ------------------------------------------------------------------ canonical masks *)

Lemma canon_unfold m :
  canon m = live m && forallb (fun kc => canon (snd kc)) (m_kids m) &&
            (if m_isall m then match m_kids m with [] => true | [(KAll, _)] => true | _ => false end
             else nonempty (m_kids m) && nodupb key_eqb (map fst (m_kids m)) && forallb (fun kc => key_ok (m_typ m) (fst kc)) (m_kids m)).
Proof.
  destruct m as [t a b ks]. cbn [canon live m_typ m_isall m_kids]. f_equal. f_equal.
  induction ks as [|[k c] ks IH]; [reflexivity|]. cbn [forallb snd]. rewrite IH. reflexivity.
Qed.

(* insertion sort of children by key (the order sort.Stable gives the JSON children) *)
Fixpoint kinsert (e : key * mask) (l : list (key * mask)) : list (key * mask) :=
  match l with
  | [] => [e]
  | x :: r => if key_leb (fst e) (fst x) then e :: l else x :: kinsert e r
  end.
Definition ksort (l : list (key * mask)) : list (key * mask) := fold_right kinsert [] l.

(* what comes back from the JSON form *)
Fixpoint norm (m : mask) : mask :=
  match m with
  | Node t a b ks =>
      let ks' := (fix go (l : list (key * mask)) : list (key * mask) :=
                    match l with [] => [] | (k, c) :: r => (k, norm c) :: go r end) ks in
      if a then Node t true b ks' else Node t false b (ksort ks')
  end.

Definition nmap (ks : list (key * mask)) : list (key * mask) := map (fun kc => (fst kc, norm (snd kc))) ks.

Lemma norm_unfold m :
  norm m = Node (m_typ m) (m_isall m) (m_black m) (if m_isall m then nmap (m_kids m) else ksort (nmap (m_kids m))).
Proof.
  destruct m as [t a b ks]. cbn [norm m_typ m_isall m_black m_kids].
  assert ((fix go (l : list (key * mask)) : list (key * mask) :=
             match l with [] => [] | (k, c) :: r => (k, norm c) :: go r end) ks = nmap ks) as ->.
  { induction ks as [|[k c] ks IH]; [reflexivity|]. cbn [nmap map fst snd]. rewrite IH. reflexivity. }
  destruct a; reflexivity.
Qed.

(* ---- sorting commutes with maps that keep the key *)
Lemma kinsert_map (f : mask -> mask) e l :
  map (fun kc => (fst kc, f (snd kc))) (kinsert e l) = kinsert (fst e, f (snd e)) (map (fun kc => (fst kc, f (snd kc))) l).
Proof.
  induction l as [|x r IH]; [reflexivity|]. cbn [kinsert map fst snd].
  destruct (key_leb (fst e) (fst x)); cbn [map fst snd]; [reflexivity | rewrite IH; reflexivity].
Qed.

Lemma ksort_map (f : mask -> mask) l :
  map (fun kc => (fst kc, f (snd kc))) (ksort l) = ksort (map (fun kc => (fst kc, f (snd kc))) l).
Proof.
  induction l as [|x r IH]; [reflexivity|]. cbn [ksort fold_right map]. rewrite kinsert_map. f_equal. exact IH.
Qed.

Definition entry_of (kc : key * mask) : entry := (fst kc, live (snd kc), to_jt (jpath_of_key (fst kc)) (snd kc)).

Lemma entries_of_map ks : entries_of ks = map entry_of ks.
Proof. reflexivity. Qed.

Lemma insert_sorted_entries e l : map entry_of (kinsert e l) = insert_sorted (entry_of e) (map entry_of l).
Proof.
  induction l as [|x r IH]; [reflexivity|]. cbn [kinsert map insert_sorted].
  change (fst (fst (entry_of e))) with (fst e). change (fst (fst (entry_of x))) with (fst x).
  destruct (key_leb (fst e) (fst x)); cbn [map]; [reflexivity | rewrite IH; reflexivity].
Qed.

Lemma sort_entries_of l : sort_entries (map entry_of l) = map entry_of (ksort l).
Proof.
  induction l as [|x r IH]; [reflexivity|]. cbn [map sort_entries ksort fold_right].
  change (fold_right insert_sorted [] (map entry_of r)) with (sort_entries (map entry_of r)).
  rewrite IH, insert_sorted_entries. reflexivity.
Qed.

Lemma in_kinsert e l x : In x (kinsert e l) <-> x = e \/ In x l.
Proof.
  induction l as [|y r IH]; cbn [kinsert]; [cbn; intuition|].
  destruct (key_leb (fst e) (fst y)); cbn [In]; [intuition | rewrite IH; cbn [In]; intuition].
Qed.

Lemma in_ksort l x : In x (ksort l) <-> In x l.
Proof.
  induction l as [|y r IH]; [reflexivity|]. cbn [ksort fold_right]. rewrite in_kinsert.
  change (fold_right kinsert [] r) with (ksort r). rewrite IH. cbn [In]. intuition.
Qed.

Lemma ksort_nonempty l : nonempty (ksort l) = nonempty l.
Proof.
  destruct l as [|x r]; [reflexivity|]. cbn [ksort fold_right nonempty].
  destruct (fold_right kinsert [] r) as [|y r']; cbn [kinsert]; [reflexivity|]. destruct (key_leb (fst x) (fst y)); reflexivity.
Qed.

(* ---- lookups *)
Lemma klookup_nmap k l : klookup k (nmap l) = option_map norm (klookup k l).
Proof.
  induction l as [|[k' c] r IH]; [reflexivity|]. cbn [nmap map klookup fst snd].
  destruct (key_eqb k k'); [reflexivity | exact IH].
Qed.

Lemma klookup_none_notin k l : klookup k l = None <-> ~ In k (map fst l).
Proof.
  induction l as [|[k' c] r IH]; cbn [klookup map fst In]; [tauto|].
  destruct (key_eqb k k') eqn:E.
  - apply key_eqb_eq in E. subst. split; [discriminate | tauto].
  - apply key_eqb_neq in E. rewrite IH. split; [intros H [H1|H1]; congruence | tauto].
Qed.

Lemma nodupb_NoDup l : nodupb key_eqb l = true <-> NoDup l.
Proof.
  induction l as [|x r IH]; cbn [nodupb]; [split; [constructor | reflexivity]|].
  rewrite andb_true_iff, negb_true_iff, IH. split.
  - intros [H1 H2]. constructor; [|exact H2]. intro Hin.
    assert (existsb (key_eqb x) r = true) by (apply existsb_exists; exists x; split; [exact Hin | apply key_eqb_refl]). congruence.
  - intro H. inversion H as [|? ? H1 H2]; subst. split; [|exact H2].
    destruct (existsb (key_eqb x) r) eqn:E; [|reflexivity]. exfalso. apply existsb_exists in E.
    destruct E as [y [Hy E]]. apply key_eqb_eq in E. subst. contradiction.
Qed.

Lemma klookup_kinsert k e l :
  ~ In (fst e) (map fst l) ->
  klookup k (kinsert e l) = if key_eqb k (fst e) then Some (snd e) else klookup k l.
Proof.
  intro Hn. induction l as [|[k' c] r IH]; [destruct e; reflexivity|].
  cbn [kinsert fst]. destruct (key_leb (fst e) k').
  - destruct e as [ke ce]. reflexivity.
  - cbn [klookup]. rewrite IH by (intro H; apply Hn; right; exact H).
    destruct (key_eqb k k') eqn:E1, (key_eqb k (fst e)) eqn:E2; try reflexivity.
    exfalso. apply key_eqb_eq in E1, E2. subst. apply Hn. left. reflexivity.
Qed.

Lemma map_fst_kinsert e l : forall x, In x (map fst (kinsert e l)) <-> x = fst e \/ In x (map fst l).
Proof.
  intro x. rewrite !in_map_iff. split.
  - intros [y [<- Hy]]. apply in_kinsert in Hy. destruct Hy as [->|Hy]; [left; reflexivity | right; exists y; auto].
  - intros [->|[y [<- Hy]]]; [exists e | exists y]; (split; [reflexivity | apply in_kinsert; auto]).
Qed.

Lemma klookup_ksort k l : NoDup (map fst l) -> klookup k (ksort l) = klookup k l.
Proof.
  induction l as [|[k' c] r IH]; intro Hnd; [reflexivity|].
  cbn [map fst] in Hnd. inversion Hnd as [|? ? H1 H2]; subst.
  cbn [ksort fold_right]. change (fold_right kinsert [] r) with (ksort r).
  rewrite klookup_kinsert.
  - cbn [fst snd klookup]. rewrite (IH H2). reflexivity.
  - cbn [fst]. intro Hin. apply H1. apply in_map_iff in Hin. destruct Hin as [y [<- Hy]]. apply (proj1 (in_ksort _ _)) in Hy.
    apply in_map_iff. exists y. auto.
Qed.

Lemma map_fst_nmap l : map fst (nmap l) = map fst l.
Proof. unfold nmap. rewrite map_map. reflexivity. Qed.

(* ---- the round trip: of_json (to_json m) = Ok (norm m) *)

Lemma kupsert_absent k c l : klookup k l = None -> kupsert k c l = l ++ [(k, c)].
Proof.
  induction l as [|[k' c'] r IH]; [reflexivity|]. cbn [klookup kupsert].
  destruct (key_eqb k k'); [discriminate|]. intro H. rewrite (IH H). reflexivity.
Qed.

Lemma key_ok_not_star t k : key_ok t k = true -> jpath_eqb (jpath_of_key k) star_path = false.
Proof.
  unfold key_ok. rewrite andb_true_iff. intros [_ H]. destruct k; cbn; try reflexivity; try discriminate.
  rewrite negb_true_iff in H. exact H.
Qed.

Lemma key_ok_key_for t k : key_ok t k = true -> key_for t (jpath_of_key k) = Some k.
Proof.
  unfold key_ok. rewrite andb_true_iff. intros [Hs H].
  destruct t, k; cbn in Hs; try discriminate; cbn [jpath_of_key key_for]; try rewrite H; reflexivity.
Qed.

Lemma key_ok_container t k : key_ok t k = true ->
  t = FtStruct \/ t = FtList \/ t = FtIntMap \/ t = FtStrMap.
Proof. unfold key_ok. rewrite andb_true_iff. intros [Hs _]. destruct t, k; cbn in Hs; try discriminate; auto. Qed.

Definition transfers (c : mask) : Prop :=
  forall p self, m_isall self = false -> m_kids self = [] -> transfer (to_jt p c) self = Ok (norm c).

Lemma jt_typ_to_jt p m : jt_typ (to_jt p m) = m_typ m.
Proof. rewrite to_jt_unfold. unfold node_json. repeat match goal with |- context [if ?c then _ else _] => destruct c | |- context [match ?c with _ => _ end] => destruct c end; reflexivity. Qed.

(* the loop of TransferFrom over the sorted children *)
Definition go_loop (t : ft) :=
  fix go (l : list jtree) (cur : mask) : res mask :=
    match l with
    | [] => Ok cur
    | n :: r =>
        if is_star n then
          match transfer n zero_mask with
          | Ok a => Ok (put KAll a (set_isall cur true))
          | Err e => Err e
          | Fuel => Fuel
          end
        else match key_for t (jt_path n) with
             | None => Err EKind
             | Some k =>
                 match with_child k (jt_typ n) cur (transfer n) with
                 | Ok c => go r c
                 | Err e => Err e
                 | Fuel => Fuel
                 end
             end
    end.

Lemma go_loop_sorted t : forall L cur,
  Forall (fun kc => transfers (snd kc)) L ->
  forallb (fun kc => key_ok t (fst kc)) L = true ->
  NoDup (map fst L) -> (forall k, In k (map fst L) -> klookup k (m_kids cur) = None) ->
  go_loop t (map snd (map entry_of L)) cur = Ok (set_kids cur (m_kids cur ++ nmap L)).
Proof.
  induction L as [|[k c] L IH]; intros cur HT Hok Hnd Hfree.
  - cbn. rewrite app_nil_r. destruct cur; reflexivity.
  - inversion HT as [|? ? Hc HL]; subst. cbn [forallb fst] in Hok. rewrite andb_true_iff in Hok. destruct Hok as [Hk Hok].
    cbn [map fst] in Hnd. inversion Hnd as [|? ? N1 N2]; subst.
    cbn [map entry_of snd fst go_loop].
    unfold is_star. rewrite jt_path_to_jt, (key_ok_not_star _ _ Hk), (key_ok_key_for _ _ Hk), jt_typ_to_jt.
    assert (klookup k (m_kids cur) = None) as Hfk by (apply Hfree; left; reflexivity).
    unfold with_child, slot. rewrite Hfk.
    cbn [snd] in Hc. rewrite (Hc (jpath_of_key k) (fresh (m_typ c) (m_black cur)) eq_refl eq_refl).
    rewrite IH; auto.
    + unfold put. cbn [set_kids m_kids m_typ m_isall m_black]. rewrite (kupsert_absent _ _ _ Hfk), <- app_assoc. reflexivity.
    + intros k' Hin. unfold put. cbn [set_kids m_kids]. rewrite (kupsert_absent _ _ _ Hfk).
      assert (k <> k') as Hne by (intro E; subst; contradiction).
      assert (klookup k' (m_kids cur) = None) as H0 by (apply Hfree; right; exact Hin).
      clear - Hne H0. induction (m_kids cur) as [|[k2 c2] r IHr]; cbn [app klookup] in *.
      * assert (key_eqb k' k = false) as -> by (apply key_eqb_neq; congruence). reflexivity.
      * destruct (key_eqb k' k2); [discriminate | auto].
Qed.

Lemma transfer_unfold p t b h kids self :
  transfer (JNode p t b h kids) self =
  if ft_eqb t FtInvalid then Err EKind else
  let self1 := Node t (m_isall self) b (m_kids self) in
  match kids with
  | [] => Ok (set_isall self1 true)
  | n0 :: _ =>
      match t with
      | FtScalar => if is_star n0 then
                      match transfer n0 zero_mask with
                      | Ok a => Ok (put KAll a (set_isall self1 true))
                      | Err e => Err e
                      | Fuel => Fuel
                      end
                    else Err EKind
      | FtInvalid => Err EKind
      | _ => go_loop t kids self1
      end
  end.
Proof. destruct t; reflexivity. Qed.

Lemma forallb_filter_id {A} (f : A -> bool) l : forallb f l = true -> filter f l = l.
Proof. induction l as [|x r IH]; [reflexivity|]. cbn. rewrite andb_true_iff. intros [H1 H2]. rewrite H1, IH; auto. Qed.

Lemma canon_live m : canon m = true -> live m = true.
Proof. rewrite canon_unfold, !andb_true_iff. tauto. Qed.

Theorem transfer_to_jt : forall m, canon m = true -> transfers m.
Proof.
  induction m as [t a b ks IH] using mask_ind'. intros Hc p self Hsa Hsk.
  rewrite canon_unfold in Hc. cbn [live m_typ m_isall m_kids] in Hc. rewrite !andb_true_iff in Hc.
  destruct Hc as [[Hlive Hkids] Hshape].
  assert (ft_eqb t FtInvalid = false) as Hti by (unfold live in Hlive; cbn [m_typ] in Hlive; rewrite negb_true_iff in Hlive; exact Hlive).
  assert (Forall (fun kc => transfers (snd kc)) ks) as HT.
  { rewrite Forall_forall in *. rewrite forallb_forall in Hkids. intros kc Hin. apply IH; auto. }
  rewrite to_jt_unfold, norm_unfold. cbn [m_typ m_isall m_black m_kids]. unfold node_json.
  destruct a.
  - (* isAll *)
    assert ((match t with FtStruct | FtList | FtIntMap | FtStrMap => true | _ => true end) = true) as -> by (destruct t; reflexivity).
    destruct ks as [|[k c] ks']; [|destruct k; try discriminate; destruct ks' as [|x ks']; try discriminate].
    + cbn [entries_of map find_all nmap]. rewrite transfer_unfold, Hti. cbn [set_isall m_typ m_isall m_black m_kids].
      rewrite Hsk. reflexivity.
    + cbn [entries_of map find_all fst snd nmap].
      inversion HT as [|? ? Hc0 _]; subst. cbn [forallb snd] in Hkids. rewrite andb_true_r in Hkids.
      rewrite (canon_live _ Hkids). rewrite transfer_unfold, Hti.
      assert (is_star (to_jt (jpath_of_key KAll) c) = true) as Hst by (unfold is_star; rewrite jt_path_to_jt; reflexivity).
      assert (transfer (to_jt (jpath_of_key KAll) c) zero_mask = Ok (norm c)) as Htr by (apply Hc0; reflexivity).
      destruct t; try discriminate; cbn [go_loop]; rewrite Hst, Htr; unfold put; cbn [set_isall set_kids m_typ m_isall m_black m_kids];
        rewrite Hsk; reflexivity.
  - (* explicit children *)
    rewrite !andb_true_iff in Hshape. destruct Hshape as [[Hne Hnd] Hok].
    assert (t = FtStruct \/ t = FtList \/ t = FtIntMap \/ t = FtStrMap) as Hcont.
    { destruct ks as [|[k c] r]; [discriminate|]. cbn [forallb fst] in Hok. rewrite andb_true_iff in Hok. eapply key_ok_container. apply Hok. }
    assert ((match t with FtStruct | FtList | FtIntMap | FtStrMap => false | _ => true end) = false) as -> by (destruct Hcont as [-> | [-> | [-> | ->]]]; reflexivity).
    rewrite entries_of_map.
    assert (filter (fun e : key * bool * jtree => store_of t (fst (fst e)) && snd (fst e)) (map entry_of ks) = map entry_of ks) as ->.
    { apply forallb_filter_id. rewrite forallb_forall. intros e He. apply in_map_iff in He. destruct He as [[k c] [<- Hin]].
      cbn [entry_of fst snd]. rewrite forallb_forall in Hok, Hkids. specialize (Hok _ Hin). specialize (Hkids _ Hin). cbn [fst snd] in *.
      unfold key_ok in Hok. rewrite andb_true_iff in Hok. destruct Hok as [-> _]. rewrite (canon_live _ Hkids). reflexivity. }
    rewrite sort_entries_of, transfer_unfold, Hti.
    cbn zeta.
    assert (exists n0 r0, map snd (map entry_of (ksort ks)) = n0 :: r0) as [n0 [r0 En]].
    { pose proof (ksort_nonempty ks) as X. rewrite Hne in X. destruct (ksort ks) as [|y r']; [discriminate|]. cbn [map]. eauto. }
    rewrite En.
    assert (go_loop t (n0 :: r0) (Node t (m_isall self) b (m_kids self)) = Ok (Node t false b (ksort (nmap ks)))) as Hgo.
    { rewrite <- En. rewrite go_loop_sorted.
      - cbn [set_kids m_kids m_typ m_isall m_black]. rewrite Hsk, Hsa. cbn [app]. unfold nmap. rewrite ksort_map. reflexivity.
      - rewrite Forall_forall in *. intros kc Hin. apply HT. apply in_ksort. exact Hin.
      - rewrite forallb_forall in *. intros kc Hin. apply Hok. apply in_ksort. exact Hin.
      - apply nodupb_NoDup in Hnd. clear - Hnd. induction ks as [|[k c] r IH]; [constructor|].
        cbn [map fst] in Hnd. inversion Hnd as [|? ? H1 H2]; subst. cbn [ksort fold_right].
        change (fold_right kinsert [] r) with (ksort r). specialize (IH H2).
        assert (~ In k (map fst (ksort r))) as Hk.
        { intro Hin. apply H1. apply in_map_iff in Hin. destruct Hin as [y [<- Hy]]. apply (proj1 (in_ksort _ _)) in Hy. apply in_map_iff. exists y; auto. }
        revert IH Hk. generalize (ksort r). intros l. induction l as [|[k2 c2] l IHl]; intros Hl Hk; cbn [kinsert fst].
        + constructor; [intros [] | constructor].
        + destruct (key_leb k k2).
          * constructor; [exact Hk | exact Hl].
          * cbn [map fst] in *. inversion Hl as [|? ? A B]; subst. constructor.
            -- intro Hin. apply map_fst_kinsert in Hin. cbn [fst] in Hin. destruct Hin as [->|Hin]; [apply Hk; left; reflexivity | contradiction].
            -- apply IHl; [exact B | intro Hin; apply Hk; right; exact Hin].
      - intros k _. cbn [m_kids]. rewrite Hsk. reflexivity. }
    destruct Hcont as [-> | [-> | [-> | ->]]]; exact Hgo.
Qed.

Theorem of_json_to_json m : canon m = true -> of_json (to_json m) = Ok (norm m).
Proof.
  intro Hc. unfold of_json, to_json. rewrite jt_path_to_jt. cbn [jpath_eqb root_path].
  rewrite beqb_refl. apply (transfer_to_jt m Hc); reflexivity.
Qed.

(* ------------------------------------------------------------------ norm answers like the mask *)

Lemma canon_child m k c : canon m = true -> klookup k (m_kids m) = Some c -> canon c = true.
Proof.
  rewrite canon_unfold, !andb_true_iff. intros [[_ H] _] Hk.
  revert Hk. induction (m_kids m) as [|[k' c'] r IH]; cbn [klookup]; [discriminate|].
  cbn [forallb snd] in H. rewrite andb_true_iff in H. destruct H as [H1 H2].
  destruct (key_eqb k k'); [intros [= <-]; exact H1 | auto].
Qed.

Lemma norm_typ m : m_typ (norm m) = m_typ m.
Proof. rewrite norm_unfold. reflexivity. Qed.
Lemma norm_isall m : m_isall (norm m) = m_isall m.
Proof. rewrite norm_unfold. reflexivity. Qed.
Lemma norm_black m : m_black (norm m) = m_black m.
Proof. rewrite norm_unfold. reflexivity. Qed.
Lemma norm_live m : live (norm m) = live m.
Proof. unfold live. rewrite norm_typ. reflexivity. Qed.

Lemma nmap_nonempty l : nonempty (nmap l) = nonempty l.
Proof. destruct l; reflexivity. Qed.

Lemma norm_kids_nonempty m : nonempty (m_kids (norm m)) = nonempty (m_kids m).
Proof.
  rewrite norm_unfold. cbn [m_kids]. destruct (m_isall m); [apply nmap_nonempty|].
  rewrite ksort_nonempty. apply nmap_nonempty.
Qed.

Lemma norm_has_child m : has_child (norm m) = has_child m.
Proof.
  unfold has_child. rewrite norm_live. f_equal.
  pose proof (norm_kids_nonempty m) as H. destruct (m_kids (norm m)), (m_kids m); cbn in H; congruence.
Qed.

Lemma klookup_norm m k : canon m = true -> klookup k (m_kids (norm m)) = option_map norm (klookup k (m_kids m)).
Proof.
  intro Hc. rewrite norm_unfold. cbn [m_kids]. destruct (m_isall m) eqn:Ea; [apply klookup_nmap|].
  rewrite klookup_ksort, klookup_nmap; [reflexivity|].
  rewrite map_fst_nmap. rewrite canon_unfold, Ea, !andb_true_iff in Hc. apply nodupb_NoDup. tauto.
Qed.

Lemma all_of_norm m : all_of (norm m) = all_of m.
Proof. unfold all_of. rewrite norm_typ, norm_isall. reflexivity. Qed.

Definition onorm (o : option mask) : option mask := option_map norm o.
Definition ocanon (o : option mask) : Prop := match o with Some c => canon c = true | None => True end.

Lemma query_norm m q : canon m = true ->
  query (Some (norm m)) q = (onorm (fst (query (Some m) q)), snd (query (Some m) q)) /\ ocanon (fst (query (Some m) q)).
Proof.
  intro Hc. unfold query. rewrite norm_live, norm_isall, norm_black, norm_has_child.
  destruct (live m) eqn:El; cbn [negb]; [|split; [reflexivity | exact I]].
  destruct (m_isall m) eqn:Ea.
  - rewrite (klookup_norm m KAll Hc). cbn [fst snd]. split; [reflexivity|].
    destruct (klookup KAll (m_kids m)) as [c|] eqn:E; [|exact I]. eapply canon_child; eauto.
  - unfold ret, get. rewrite norm_black, (klookup_norm m (key_of q) Hc).
    destruct (klookup (key_of q) (m_kids m)) as [c|] eqn:E; cbn [option_map].
    + pose proof (canon_child _ _ _ Hc E) as Hcc.
      rewrite norm_live. destruct (live c) eqn:Elc.
      * destruct (m_black m); cbn [fst snd onorm option_map]; rewrite ?norm_has_child; (split; [reflexivity | exact Hcc]).
      * destruct (m_black m); cbn [fst snd onorm option_map]; (split; [reflexivity | exact I]).
    + destruct (m_black m); cbn [fst snd onorm option_map]; (split; [reflexivity | exact I]).
Qed.

Lemma observe_none q : observe None q = (map (fun _ => true) q, true, false).
Proof. induction q as [|k q IH]; [reflexivity|]. cbn [observe query map]. rewrite IH. reflexivity. Qed.

Theorem observe_norm : forall q m, canon m = true -> observe (Some (norm m)) q = observe (Some m) q.
Proof.
  induction q as [|k q IH]; intros m Hc.
  - cbn [observe all_q exist_q]. rewrite all_of_norm, norm_live. reflexivity.
  - cbn [observe]. destruct (query_norm m k Hc) as [E Hoc]. rewrite E.
    destruct (query (Some m) k) as [c ok]. cbn [fst snd] in *.
    destruct c as [c|]; cbn [onorm option_map]; [rewrite (IH c Hoc)|]; reflexivity.
Qed.

Theorem walk_norm : forall q m, canon m = true -> walk (Some (norm m)) q = walk (Some m) q.
Proof.
  unfold walk. induction q as [|k q IH]; intros m Hc; [reflexivity|].
  cbn [walk_to]. destruct (query_norm m k Hc) as [E Hoc]. rewrite E.
  destruct (query (Some m) k) as [c ok]. cbn [fst snd] in *.
  destruct c as [c|]; cbn [onorm option_map].
  - specialize (IH c Hoc). destruct (walk_to (Some (norm c)) q), (walk_to (Some c) q). cbn [snd] in *. subst. reflexivity.
  - reflexivity.
Qed.

(* the round trip on canonical masks: every query sequence is answered the same *)
Theorem json_roundtrip_canon m : canon m = true ->
  exists m', of_json (to_json m) = Ok m' /\
  (forall q, observe (Some m') q = observe (Some m) q) /\ (forall q, walk (Some m') q = walk (Some m) q).
Proof.
  intro Hc. exists (norm m). split; [apply of_json_to_json; exact Hc|].
  split; intro q; [apply observe_norm | apply walk_norm]; exact Hc.
Qed.

(* ------------------------------------------------------------------ built masks are canonical *)

(* the keys of the typed path can be carried by the JSON form of nodes of these types *)
Fixpoint json_okk (t : ft) (g : gpath) : bool :=
  match g with
  | [] => true
  | s :: r => (if is_gstar s then true else forallb (key_ok t) (gkeys s)) && json_okk (gft s) r
  end.

(* a node without isAll whose children (if any) are canonical, under distinct carriable keys *)
Definition pre (cur : mask) : bool :=
  live cur && negb (m_isall cur) && forallb (fun kc => canon (snd kc)) (m_kids cur) &&
  nodupb key_eqb (map fst (m_kids cur)) && forallb (fun kc => key_ok (m_typ cur) (fst kc)) (m_kids cur).

Lemma canon_of_pre cur : pre cur = true -> nonempty (m_kids cur) = true -> canon cur = true.
Proof.
  unfold pre. rewrite !andb_true_iff, negb_true_iff. intros [[[[H1 H2] H3] H4] H5] Hne.
  rewrite canon_unfold, H1, H2, H3, Hne, H4, H5. reflexivity.
Qed.

Lemma pre_of_canon cur : canon cur = true -> m_isall cur = false -> pre cur = true.
Proof.
  rewrite canon_unfold. intros H Ha. rewrite Ha, !andb_true_iff in H. unfold pre. rewrite Ha. cbn [negb].
  destruct H as [[H1 H2] [[H3 H4] H5]]. rewrite H1, H2, H4, H5. reflexivity.
Qed.

Lemma pre_of_fresh cur : fresh_state cur = true -> live cur = true -> pre cur = true.
Proof.
  unfold fresh_state, pre. rewrite andb_true_iff, !negb_true_iff. intros [Ha Hk] Hl.
  destruct (m_kids cur); [|discriminate]. rewrite Hl, Ha. reflexivity.
Qed.

Lemma map_fst_kupsert k c l :
  map fst (kupsert k c l) = match klookup k l with Some _ => map fst l | None => map fst l ++ [k] end.
Proof.
  induction l as [|[k' c'] r IH]; [reflexivity|]. cbn [kupsert klookup].
  destruct (key_eqb k k') eqn:E.
  - apply key_eqb_eq in E. subst. reflexivity.
  - cbn [map fst]. rewrite IH. destruct (klookup k r); reflexivity.
Qed.

Lemma pre_child_ins k t f cur :
  pre cur = true -> key_ok (m_typ cur) k = true -> canon (f (slot k t cur)) = true ->
  pre (child_ins k t f cur) = true.
Proof.
  unfold pre, child_ins. rewrite !andb_true_iff. intros [[[[H1 H2] H3] H4] H5] Hk Hc.
  rewrite live_put, m_isall_put, m_typ_put, m_kids_put. repeat split; auto.
  - apply (forallb_kupsert canon); assumption.
  - rewrite map_fst_kupsert. destruct (klookup k (m_kids cur)) eqn:E; [exact H4|].
    apply nodupb_NoDup. apply nodupb_NoDup in H4. apply klookup_none_notin in E.
    clear - H4 E. induction (map fst (m_kids cur)) as [|x r IH]; cbn [app].
    + constructor; [intros [] | constructor].
    + inversion H4 as [|? ? A B]; subst. constructor.
      * intro Hin. apply in_app_or in Hin. destruct Hin as [Hin|[<-|[]]]; [contradiction | apply E; left; reflexivity].
      * apply IH; [exact B | intro Hin; apply E; right; exact Hin].
  - clear - H5 Hk. induction (m_kids cur) as [|[k' c'] r IH]; cbn [kupsert forallb fst] in *; [rewrite Hk; reflexivity|].
    rewrite andb_true_iff in H5. destruct H5 as [A B].
    destruct (key_eqb k k'); cbn [forallb fst]; [rewrite Hk, B | rewrite A, IH]; auto.
Qed.

Lemma ins_keys_pre ks t f (P : mask -> bool) :
  (forall c, P c = true -> m_typ c = t -> live c = true -> (fresh_state c = true \/ canon c = true) -> canon (f c) = true) ->
  ok_ft t = true ->
  forall cur, pre cur = true -> nodupb key_eqb ks = true ->
  forallb (fun k => sub_ok k t P cur) ks = true -> forallb (key_ok (m_typ cur)) ks = true ->
  pre (ins_keys ks t f cur) = true /\ (nonempty ks = true -> nonempty (m_kids (ins_keys ks t f cur)) = true).
Proof.
  intros Hf Ht. induction ks as [|k ks IH]; intros cur Hp Hnd Hall Hok; [split; [exact Hp | discriminate]|].
  cbn [forallb] in Hall, Hok. rewrite andb_true_iff in Hall, Hok. destruct Hall as [Hk Hrest]. destruct Hok as [Hkk Hok].
  apply nodupb_cons in Hnd. destruct Hnd as [Hne Hnd].
  destruct (sub_ok_slot _ _ _ _ Hk Ht) as [HP [Hty Hlv]].
  assert (fresh_state (slot k t cur) = true \/ canon (slot k t cur) = true) as Hst.
  { unfold slot, sub_ok in *. destruct (klookup k (m_kids cur)) as [c|] eqn:E.
    - rewrite !andb_true_iff in Hk. destruct Hk as [[Hl _] _]. rewrite Hl. right.
      unfold pre in Hp. rewrite !andb_true_iff in Hp. destruct Hp as [[[[_ _] H3] _] _].
      apply (forallb_klookup canon _ _ _ H3 E).
    - left. reflexivity. }
  pose proof (Hf _ HP Hty Hlv Hst) as Hc.
  assert (pre (child_ins k t f cur) = true) as Hp1 by (apply pre_child_ins; assumption).
  assert (forallb (fun k0 => sub_ok k0 t P (child_ins k t f cur)) ks = true) as Hrest1.
  { rewrite forallb_forall in *. intros k' Hin. unfold child_ins. rewrite sub_ok_put_other; auto. }
  destruct (IH _ Hp1 Hnd Hrest1 Hok) as [A B]. unfold ins_keys in *. cbn [fold_left]. split; [exact A|].
  intros _. destruct ks as [|k2 ks2]; [|apply B; reflexivity].
  cbn [fold_left]. unfold child_ins. rewrite m_kids_put.
  destruct (kupsert k (f (slot k t cur)) (m_kids cur)) eqn:E; [exfalso; eapply kupsert_not_nil; eauto | reflexivity].
Qed.

Theorem ins_canon : forall g cur,
  compat g cur = true -> json_okk (m_typ cur) g = true -> live cur = true ->
  (fresh_state cur = true \/ canon cur = true) -> canon (ins g cur) = true.
Proof.
  induction g as [|s r IH]; intros cur Hc Hj Hl Hst.
  - cbn [ins compat] in *. rewrite canon_unfold.
    change (live (set_isall cur true)) with (live cur). change (m_kids (set_isall cur true)) with (m_kids cur).
    change (m_isall (set_isall cur true)) with true. rewrite Hl.
    destruct (m_kids cur); [reflexivity | discriminate].
  - pose proof (compat_keys_nonempty _ _ _ Hc) as Hne.
    pose proof (compat_keys_nodup _ _ _ Hc) as Hnd.
    cbn [json_okk] in Hj. rewrite andb_true_iff in Hj. destruct Hj as [Hjk Hjr].
    assert (forall c, compat r c = true -> m_typ c = gft s -> live c = true ->
                      (fresh_state c = true \/ canon c = true) -> canon (ins r c) = true) as Hf.
    { intros c H1 H2 H3 H4. apply IH; auto. rewrite H2. exact Hjr. }
    destruct (is_gstar s) eqn:Hs.
    + (* star *)
      destruct (star_node_state _ _ _ Hs Hc) as [[Ha Hk]|[Ha [a Hk]]];
      cbn [compat] in Hc; rewrite !andb_true_iff in Hc; destruct Hc as [[Ht _] Hall];
      rewrite (gstar_keys _ Hs) in Hall; cbn [forallb] in Hall; rewrite andb_true_r in Hall;
      rewrite <- sub_ok_set_isall with (a := true) in Hall;
      destruct (sub_ok_slot _ _ _ _ Hall Ht) as [HP [Hty Hlv]];
      cbn [ins]; rewrite Hs, (gstar_keys _ Hs); unfold ins_keys; cbn [fold_left]; unfold child_ins;
      rewrite canon_unfold, live_put, m_isall_put, m_kids_put;
      change (live (set_isall cur true)) with (live cur); change (m_kids (set_isall cur true)) with (m_kids cur);
      change (m_isall (set_isall cur true)) with true; rewrite Hl; cbn [andb].
      * rewrite Hk. cbn [kupsert forallb snd]. rewrite !andb_true_r.
        apply Hf; auto. left. unfold slot. cbn [set_isall m_kids]. rewrite Hk. reflexivity.
      * rewrite Hk. cbn [kupsert key_eqb forallb snd]. rewrite !andb_true_r.
        apply Hf; auto. right. unfold slot, sub_ok in *. cbn [set_isall m_kids m_black] in *. rewrite Hk in *.
        cbn [klookup key_eqb] in *. rewrite !andb_true_iff in Hall. destruct Hall as [[Hla _] _]. rewrite Hla.
        destruct Hst as [Hfs|Hcc].
        -- unfold fresh_state in Hfs. rewrite Ha in Hfs. discriminate.
        -- eapply (canon_child cur KAll); [exact Hcc|]. rewrite Hk. reflexivity.
    + (* explicit keys *)
      cbn [compat] in Hc. rewrite !andb_true_iff in Hc. destruct Hc as [[Ht Hstt] Hall].
      assert (m_isall cur = false) as Ha.
      { destruct s; try discriminate; rewrite !andb_true_iff, negb_true_iff in Hstt; tauto. }
      assert (pre cur = true) as Hp.
      { destruct Hst as [Hfs|Hcc]; [apply pre_of_fresh | apply pre_of_canon]; auto. }
      cbn [ins]. rewrite Hs.
      destruct (ins_keys_pre (gkeys s) (gft s) (ins r) (compat r) Hf Ht cur Hp Hnd Hall Hjk) as [A B].
      apply canon_of_pre; auto.
Qed.

Lemma ins_all_canon : forall gs cur,
  no_conflict gs = true -> forallb (fun g => compat g cur) gs = true ->
  forallb (json_okk (m_typ cur)) gs = true -> live cur = true ->
  (fresh_state cur = true \/ canon cur = true) -> gs <> [] -> canon (ins_all gs cur) = true.
Proof.
  induction gs as [|g gs IH]; intros cur Hnc Hall Hj Hl Hst Hne; [congruence|].
  cbn [no_conflict] in Hnc. rewrite andb_true_iff in Hnc. destruct Hnc as [Hg Hnc].
  cbn [forallb] in Hall, Hj. rewrite andb_true_iff in Hall, Hj. destruct Hall as [Hcg Hall]. destruct Hj as [Hjg Hj].
  pose proof (ins_canon g cur Hcg Hjg Hl Hst) as Hc1.
  change (ins_all (g :: gs) cur) with (ins_all gs (ins g cur)).
  destruct gs as [|g2 gs2]; [exact Hc1|].
  apply IH; auto.
  - rewrite forallb_forall in *. intros g' Hin. apply compat_frame; auto.
  - rewrite ins_typ. exact Hj.
  - rewrite ins_live. exact Hl.
  - discriminate.
Qed.

(* ------------------------------------------------------------------ the text is a fixed point of the round trip *)

Fixpoint ksorted (l : list (key * mask)) : bool :=
  match l with
  | [] => true
  | x :: r => match r with
              | [] => true
              | y :: _ => key_leb (fst x) (fst y) && ksorted r
              end
  end.

Lemma kinsert_ksorted e : forall l, ksorted l = true -> ksorted (kinsert e l) = true.
Proof.
  induction l as [|x r IH]; intros Hs; [reflexivity|].
  cbn [kinsert]. destruct (key_leb (fst e) (fst x)) eqn:E.
  - cbn [ksorted]. rewrite E. exact Hs.
  - apply key_leb_total in E.
    destruct r as [|y r'].
    + cbn [kinsert ksorted]. rewrite E. reflexivity.
    + cbn [ksorted] in Hs. rewrite andb_true_iff in Hs. destruct Hs as [H1 H2].
      specialize (IH H2). cbn [kinsert] in *.
      destruct (key_leb (fst e) (fst y)) eqn:E2.
      * cbn [ksorted]. rewrite E, E2. exact H2.
      * change (ksorted (x :: y :: kinsert e r') = true). cbn [ksorted]. rewrite H1. exact IH.
Qed.

Lemma ksort_ksorted l : ksorted (ksort l) = true.
Proof. induction l as [|x r IH]; [reflexivity|]. cbn [ksort fold_right]. apply kinsert_ksorted. exact IH. Qed.

Lemma ksort_of_sorted : forall l, ksorted l = true -> ksort l = l.
Proof.
  induction l as [|x r IH]; intro Hs; [reflexivity|].
  cbn [ksort fold_right]. change (fold_right kinsert [] r) with (ksort r).
  destruct r as [|y r']; [reflexivity|].
  cbn [ksorted] in Hs. rewrite andb_true_iff in Hs. destruct Hs as [H1 H2].
  rewrite (IH H2). cbn [kinsert]. rewrite H1. reflexivity.
Qed.

Lemma ksort_idem l : ksort (ksort l) = ksort l.
Proof. apply ksort_of_sorted, ksort_ksorted. Qed.

Lemma entries_nmap l :
  Forall (fun kc => canon (snd kc) = true /\ forall p, to_jt p (norm (snd kc)) = to_jt p (snd kc)) l ->
  map entry_of (nmap l) = map entry_of l.
Proof.
  induction 1 as [|[k c] r [Hc Ht] Hr IH]; [reflexivity|].
  cbn [nmap map fst snd]. unfold entry_of at 1 3. cbn [fst snd]. rewrite norm_live, Ht. f_equal. exact IH.
Qed.

Lemma entries_all_kept t l :
  forallb (fun kc => key_ok t (fst kc)) l = true -> forallb (fun kc => live (snd kc)) l = true ->
  filter (fun e : key * bool * jtree => store_of t (fst (fst e)) && snd (fst e)) (map entry_of l) = map entry_of l.
Proof.
  intros Hok Hlv. apply forallb_filter_id. rewrite forallb_forall. intros e He. apply in_map_iff in He.
  destruct He as [[k c] [<- Hin]]. cbn [entry_of fst snd]. rewrite forallb_forall in Hok, Hlv.
  specialize (Hok _ Hin). specialize (Hlv _ Hin). cbn [fst snd] in *.
  unfold key_ok in Hok. rewrite andb_true_iff in Hok. destruct Hok as [-> _]. rewrite Hlv. reflexivity.
Qed.

Theorem to_jt_norm : forall m, canon m = true -> forall p, to_jt p (norm m) = to_jt p m.
Proof.
  induction m as [t a b ks IH] using mask_ind'. intros Hc p.
  rewrite canon_unfold in Hc. cbn [live m_typ m_isall m_kids] in Hc. rewrite !andb_true_iff in Hc.
  destruct Hc as [[Hlive Hkids] Hshape].
  assert (Forall (fun kc => canon (snd kc) = true /\ forall p, to_jt p (norm (snd kc)) = to_jt p (snd kc)) ks) as HF.
  { rewrite Forall_forall in *. rewrite forallb_forall in Hkids. intros kc Hin. split; [apply Hkids; exact Hin|].
    intro p0. apply IH; auto. }
  rewrite !to_jt_unfold, norm_typ, norm_isall, norm_black.
  rewrite norm_unfold. cbn [m_kids m_isall m_typ m_black]. rewrite !entries_of_map.
  destruct a.
  - rewrite (entries_nmap _ HF). reflexivity.
  - rewrite !andb_true_iff in Hshape. destruct Hshape as [[Hne Hnd] Hok].
    assert (t = FtStruct \/ t = FtList \/ t = FtIntMap \/ t = FtStrMap) as Hcont.
    { destruct ks as [|[k c] r]; [discriminate|]. cbn [forallb fst] in Hok. rewrite andb_true_iff in Hok. eapply key_ok_container. apply Hok. }
    assert (forallb (fun kc => live (snd kc)) ks = true) as Hlv.
    { rewrite forallb_forall in *. intros kc Hin. apply canon_live. apply Hkids. exact Hin. }
    unfold node_json.
    assert ((match t with FtStruct | FtList | FtIntMap | FtStrMap => false | _ => true end) = false) as -> by (destruct Hcont as [-> | [-> | [-> | ->]]]; reflexivity).
    f_equal. f_equal.
    unfold nmap. rewrite <- ksort_map. fold (nmap (ksort ks)).
    assert (Forall (fun kc => canon (snd kc) = true /\ forall p, to_jt p (norm (snd kc)) = to_jt p (snd kc)) (ksort ks)) as HF2.
    { rewrite Forall_forall in *. intros kc Hin. apply HF. apply in_ksort. exact Hin. }
    rewrite (entries_nmap _ HF2). change (entries_of ks) with (map entry_of ks).
    rewrite (entries_all_kept t ks Hok Hlv).
    rewrite (entries_all_kept t (ksort ks)).
    + rewrite !sort_entries_of, ksort_idem. reflexivity.
    + rewrite forallb_forall in *. intros kc Hin. apply Hok. apply in_ksort. exact Hin.
    + rewrite forallb_forall in *. intros kc Hin. apply Hlv. apply in_ksort. exact Hin.
Qed.

Theorem to_json_norm m : canon m = true -> to_json (norm m) = to_json m.
Proof. intro H. apply to_jt_norm. exact H. Qed.

(* ------------------------------------------------------------------ the theorems on built masks *)

Lemma forallb_map_keys {A} (f : A -> key) (P : key -> bool) l : forallb P (map f l) = forallb (fun x => P (f x)) l.
Proof. induction l as [|x r IH]; [reflexivity|]. cbn. rewrite IH. reflexivity. Qed.

Lemma json_ok_okk : forall g t, json_ok t g = true -> json_okk t g = true.
Proof.
  induction g as [|s r IH]; intros t H; [reflexivity|].
  cbn [json_ok json_okk] in *. rewrite andb_true_iff in *. destruct H as [H1 H2]. split.
  - destruct s; cbn [is_gstar gkeys seg_json_ok forallb] in *; try reflexivity.
    + rewrite H1. reflexivity.
    + rewrite forallb_map_keys. exact H1.
    + rewrite forallb_map_keys. exact H1.
  - assert (gft s = seg_ft s) as -> by (destruct s; reflexivity). apply IH. exact H2.
Qed.

Lemma built_canon env d black ps gs :
  well_typed env d ps = true -> elab_all env d ps = Some gs -> no_conflict gs = true -> gs <> [] ->
  forallb (json_ok (switch_ft env d)) gs = true -> canon (built env d black gs) = true.
Proof.
  intros Hwt He Hnc Hne Hj. destruct (well_typed_parts _ _ _ Hwt) as [Hok [Hwf _]].
  destruct gs as [|g0 gs0] eqn:E; [congruence|]. rewrite <- E in *.
  assert (built env d black gs = ins_all gs (fresh (switch_ft env d) black)) as -> by (rewrite E; reflexivity).
  apply ins_all_canon; auto.
  all: try (eapply elab_all_compat_fresh; eauto; fail).
  all: try (left; reflexivity).
  all: cbn [fresh m_typ]; rewrite forallb_forall in *; intros g Hg; apply json_ok_okk; apply Hj; exact Hg.
Qed.

(* MarshalJSON then Unmarshal of a mask built on the domain: a mask comes back, it answers
   every query sequence identically, and it prints to the same JSON again *)
Theorem json_roundtrip env d black strs ps gs m :
  map tokenize strs = map tokens_of ps ->
  well_typed env d ps = true -> elab_all env d ps = Some gs -> no_conflict gs = true -> gs <> [] ->
  forallb (json_ok (switch_ft env d)) gs = true ->
  new_mask env d black strs = Ok m ->
  exists m', of_json (to_json m) = Ok m' /\
    (forall q, observe (Some m') q = observe (Some m) q) /\
    (forall q, walk (Some m') q = walk (Some m) q) /\
    to_json m' = to_json m.
Proof.
  intros Htok Hwt He Hnc Hne Hj Hm.
  rewrite (build_total_on_D env d black strs ps gs Htok Hwt He Hnc) in Hm. injection Hm as <-.
  pose proof (built_canon env d black ps gs Hwt He Hnc Hne Hj) as Hc.
  exists (norm (built env d black gs)). split; [apply of_json_to_json; exact Hc|].
  split; [intro q; apply observe_norm; exact Hc|]. split; [intro q; apply walk_norm; exact Hc|].
  apply to_json_norm. exact Hc.
Qed.

Theorem json_roundtrip_canonical m : canon m = true ->
  exists m', of_json (to_json m) = Ok m' /\
    (forall q, observe (Some m') q = observe (Some m) q) /\
    (forall q, walk (Some m') q = walk (Some m) q) /\
    to_json m' = to_json m.
Proof.
  intro Hc. exists (norm m). split; [apply of_json_to_json; exact Hc|].
  split; [intro q; apply observe_norm; exact Hc|]. split; [intro q; apply walk_norm; exact Hc|].
  apply to_json_norm. exact Hc.
Qed.

Lemma json_domain_example :
  forallb (json_ok (switch_ft wenv wroot)) (w_gs wroot ex_ps) = true /\ w_gs wroot ex_ps <> [] /\
  canon (w_mask wroot true ex_strs) = true.
Proof. repeat split; try (vm_compute; reflexivity). vm_compute. discriminate. Qed.
