(* Wire/Fast.v — the FASTGO codec (generator/fastgo: gen_blength.go, gen_fastwrite.go,
   gen_fastread.go, consts.go, utils.go, bitset.go), as three separate functions that follow
   the three code generators statement by statement:

     blength e s v        what the generated  p.BLength()       returns           (gen_blength.go)
     fast_append e s v    what the generated  p.FastAppend(nil) returns           (gen_fastwrite.go)
     fast_read e s init b what the generated  p.FastRead(b)     does on the object [init]:
                          FOk (object after the call, bytes consumed) or FErr class (gen_fastread.go)

   bl_val / fa_val work on a value of IDL type t (field payload, list element, map key / value);
   they are total: on a value that does not have the Go shape of t they use the zero projection
   (v_int, v_bytes ...), consistently in both, so that  blength = length (fast_append)  can be
   stated for every value.

   Tables: wire types of field headers and the fixed sizes come from Wire/GenTables.v, the
   constants written into container headers from Wire/FastTables.v; both files are regenerated
   from generator/fastgo/consts.go on every run.

   The reader works on bytes (not on decoded wire values): it mirrors
   github.com/cloudwego/gopkg v0.2.0 protocol/thrift BinaryProtocol.ReadXxx and Skip (trusted
   transcription, see fskip), including the one place where Skip returns a length beyond the end
   of its buffer; the generated code then slices b[off:] with off > len(b), which is a Go panic:
   error class FOverrun; and the place where Skip indexes a table with a negative type code:
   error class FIndex.  No proofs in this file. *)
From Coq Require Import List ZArith Bool Lia.
From Coq.Strings Require Import Byte.
From Verif Require Import Base.Bytes Base.BE Wire.TType Wire.WVal Wire.Schema Wire.Value Wire.Std
                          Wire.GenTables Wire.FastTables.
From Coq Require String.
Import ListNotations.
Open Scope Z_scope.

(* ------------------------------------------------------------------ tables *)

(* github.com/cloudwego/gopkg/protocol/thrift: the TType constants (trusted) *)
Module GopkgConsts.
Import Coq.Strings.String.
Local Open Scope string_scope.
Definition gopkg_const (s : bytes) : Z :=
  if beqb s (B "thrift.BOOL") then 2 else
  if beqb s (B "thrift.BYTE") then 3 else
  if beqb s (B "thrift.I08") then 3 else
  if beqb s (B "thrift.DOUBLE") then 4 else
  if beqb s (B "thrift.I16") then 6 else
  if beqb s (B "thrift.I32") then 8 else
  if beqb s (B "thrift.I64") then 10 else
  if beqb s (B "thrift.STRING") then 11 else
  if beqb s (B "thrift.STRUCT") then 12 else
  if beqb s (B "thrift.MAP") then 13 else
  if beqb s (B "thrift.SET") then 14 else
  if beqb s (B "thrift.LIST") then 15 else 0.
End GopkgConsts.
Definition gopkg_const := GopkgConsts.gopkg_const.

(* category2WireSize[t.Category] *)
Definition wire_size (e : env) (t : ty) : Z :=
  match cat_lookup (category_of e t) fast_category2WireSize with Some z => z | None => 0 end.
(* category2ThriftWireType[t.Category] *)
Definition wire_type (e : env) (t : ty) : Z :=
  match cat_lookup (category_of e t) fast_category2WireType with Some z => z | None => 0 end.
(* category2GopkgConsts[t.Category], as a number *)
Definition elem_const (e : env) (t : ty) : Z :=
  match cat_lookup (category_of e t) fast_category2GopkgConsts with Some s => gopkg_const s | None => 0 end.

(* ------------------------------------------------------------------ small helpers *)

Definition v_int (v : value) : Z := match v with VInt z => z | _ => 0 end.
Definition v_bool (v : value) : bool := match v with VBool b => b | _ => false end.
Definition v_dbl (v : value) : Z := match v with VDbl b => b | _ => 0 end.
Definition v_bytes (v : value) : bytes := match v with VStr s | VBin s => s | _ => [] end.

Fixpoint sumZ (l : list Z) : Z := match l with [] => 0 | x :: r => x + sumZ r end.
Definition lenZ {A} (l : list A) : Z := Z.of_nat (length l).

(* getSortedFields: fields by ascending id (ids are unique) *)
Section Sort.
  Context {A : Type}.
  Fixpoint insert_by_id (x : Z * A) (l : list (Z * A)) : list (Z * A) :=
    match l with
    | [] => [x]
    | y :: r => if fst x <=? fst y then x :: l else y :: insert_by_id x r
    end.
  Definition sort_by_id (l : list (Z * A)) : list (Z * A) := fold_right insert_by_id [] l.
End Sort.

(* f.GoTypeName().IsPointer() *)
Definition go_pointer (f : field) : bool := base_ptr f || is_structlike (f_ty f).
(* utils.go isContainerType: map, list, set and binary *)
Definition is_container_type (t : ty) : bool := is_container t || is_binary t.

(* ------------------------------------------------------------------ BLength (gen_blength.go) *)

(* genBLengthField: the field contributes (header and value) *)
Definition bl_emit (f : field) (slot : value) : bool :=
  if is_optional f then
    if is_binary (f_ty f) && has_default f then
      (* optional binary with a default: string(p.F) != string(default) *)
      negb (beqb (bin_bytes slot) (bin_bytes (default_var f)))
    else if go_pointer f || is_container_type (f_ty f) then negb (is_nil slot)      (* p.F != nil *)
    else match f_default f with
         | Some l => base_neq (f_ty f) slot (value_of_lit l)                       (* p.F != literal *)
         | None => true end
  else true.

Fixpoint bl_val (e : env) (t : ty) (v : value) {struct v} : Z :=
  let sz := wire_size e t in
  if 0 <? sz then sz else                                         (* off += sz *)
  match t with
  | TString | TBinary => 4 + lenZ (v_bytes v)                     (* off += 4 + len(x) *)
  | TMap kt vt =>
      6 + match v with
          | VMap kvs =>
              let ksz := wire_size e kt in
              let vsz := wire_size e vt in
              if (0 <? ksz) && (0 <? vsz) then lenZ kvs * (ksz + vsz)
              else if 0 <? ksz then lenZ kvs * ksz + sumZ (map (fun kv => bl_val e vt (snd kv)) kvs)
              else if 0 <? vsz then lenZ kvs * vsz + sumZ (map (fun kv => bl_val e kt (fst kv)) kvs)
              else sumZ (map (fun kv => bl_val e kt (fst kv) + bl_val e vt (snd kv)) kvs)
          | _ => 0 end                                            (* nil map: len 0, no iteration *)
  | TList et | TSet et =>
      5 + match v with
          | VList l =>
              let esz := wire_size e et in
              if 0 <? esz then lenZ l * esz else sumZ (map (bl_val e et) l)
          | _ => 0 end
  | TRef n =>
      match v with
      | VStruct fs =>
          match find_struct e n with
          | Some s =>
              sumZ (map snd (sort_by_id (map (fun p =>
                 (fst p,
                  match find_field (fst p) (s_fields s) with
                  | Some f =>
                      if bl_emit f (snd p) then
                        if base_ptr f then
                          match snd p with VSome x => 3 + bl_val e (f_ty f) x | _ => 0 end
                        else 3 + bl_val e (f_ty f) (snd p)
                      else 0
                  | None => 0 end)) fs))) + 1                      (* return off + 1 *)
          | None => 1 end
      | _ => 1 end                                                (* if p == nil { return 1 } *)
  | _ => 0                    (* a category without fixed size and without a case: no statement *)
  end.

Definition blength (e : env) (s : sschema) (v : value) : Z := bl_val e (TRef (s_name s)) v.

(* ------------------------------------------------------------------ FastAppend (gen_fastwrite.go) *)

(* genFastAppendField: the same three skip rules, written again in the second generator *)
Definition fa_emit (f : field) (slot : value) : bool :=
  if is_optional f then
    if is_binary (f_ty f) && has_default f then
      negb (beqb (bin_bytes slot) (bin_bytes (default_var f)))
    else if go_pointer f || is_container_type (f_ty f) then negb (is_nil slot)
    else match f_default f with
         | Some l => base_neq (f_ty f) slot (value_of_lit l)
         | None => true end
  else true.

Fixpoint fa_val (e : env) (t : ty) (v : value) {struct v} : bytes :=
  match t with
  | TBool => [if v_bool v then x01 else x00]
  | TByte => put_be 1 (v_int v)                                   (* byte(x) *)
  | TI16 => put_be 2 (v_int v)                                    (* AppendI16(b, int16(x)) *)
  | TI32 | TEnum _ => put_be 4 (v_int v)                          (* AppendI32(b, int32(x)) *)
  | TI64 => put_be 8 (v_int v)
  | TDouble => put_be 8 (v_dbl v)
  | TString | TBinary => put_be 4 (lenZ (v_bytes v)) ++ v_bytes v
  | TMap kt vt =>
      match v with
      | VMap kvs =>
          put_be 1 (elem_const e kt) ++ put_be 1 (elem_const e vt) ++ put_be 4 (lenZ kvs) ++
          flat_map (fun kv => fa_val e kt (fst kv) ++ fa_val e vt (snd kv)) kvs
      | _ => put_be 1 (elem_const e kt) ++ put_be 1 (elem_const e vt) ++ put_be 4 0
      end
  | TList et | TSet et =>
      match v with
      | VList l => put_be 1 (elem_const e et) ++ put_be 4 (lenZ l) ++ flat_map (fa_val e et) l
      | _ => put_be 1 (elem_const e et) ++ put_be 4 0
      end
  | TRef n =>
      match v with
      | VStruct fs =>
          match find_struct e n with
          | Some s =>
              flat_map snd (sort_by_id (map (fun p =>
                 (fst p,
                  match find_field (fst p) (s_fields s) with
                  | Some f =>
                      if fa_emit f (snd p) then
                        if base_ptr f then
                          match snd p with
                          | VSome x => put_be 1 (wire_type e (f_ty f)) ++ put_be 2 (f_id f) ++ fa_val e (f_ty f) x
                          | _ => [] end
                        else put_be 1 (wire_type e (f_ty f)) ++ put_be 2 (f_id f) ++ fa_val e (f_ty f) (snd p)
                      else []
                  | None => [] end)) fs)) ++ [x00]                 (* return append(b, 0) *)
          | None => [x00] end
      | _ => [x00] end                                            (* if p == nil { return append(b, 0) } *)
  end.

Definition fast_append (e : env) (s : sschema) (v : value) : bytes := fa_val e (TRef (s_name s)) v.

(* ------------------------------------------------------------------ FastRead (gen_fastread.go) *)

Inductive ferr :=
| FShort              (* a ReadXxx / Skip found fewer bytes than it needs *)
| FNegLen             (* negative string length or container size *)
| FBadType            (* Skip: unknown data type *)
| FDepth              (* Skip: depth limit exceeded *)
| FRequired (id : Z)  (* required field is not set *)
| FOverrun            (* Skip returned a length beyond the buffer: b[off:] panics in the generated code *)
| FIndex              (* Skip indexed typeToSize with a negative TType (type byte >= 0x80): Go panic *)
| FFuel               (* model out of fuel; never returned by fast_read (FastFacts.fast_read_total) *)
| FBadInit            (* the object to read into is not a struct value *)
| FNoStruct.          (* the schema names a struct the env does not have *)

Inductive fres (A : Type) := FOk (a : A) | FErr (e : ferr).
Arguments FOk {A} a.
Arguments FErr {A} e.

(* --- BinaryProtocol.ReadXxx (gopkg binary.go) --- *)
Definition rd_s (n : nat) (bs : bytes) : fres (Z * bytes) :=
  match get_s n bs with Some p => FOk p | None => FErr FShort end.
Definition rd_u (n : nat) (bs : bytes) : fres (Z * bytes) :=
  match get_be n bs with Some p => FOk p | None => FErr FShort end.
Definition rd_bool (bs : bytes) : fres (bool * bytes) :=
  match bs with b :: r => FOk (Byte.eqb b x01, r) | [] => FErr FShort end.
(* ReadString / ReadBinary *)
Definition rd_str (bs : bytes) : fres (bytes * bytes) :=
  match get_s 4 bs with
  | None => FErr FShort
  | Some (n, r) =>
      if n <? 0 then FErr FNegLen
      else if lenZ r <? n then FErr FShort
      else FOk (firstn (Z.to_nat n) r, skipn (Z.to_nat n) r)
  end.
(* ReadListBegin / ReadSetBegin: the element type is ignored by the generated code *)
Definition rd_list_begin (bs : bytes) : fres (Z * bytes) :=
  match bs with
  | [] => FErr FShort
  | _ :: r => match get_s 4 r with
              | None => FErr FShort
              | Some (n, r') => if n <? 0 then FErr FNegLen else FOk (n, r') end
  end.
Definition rd_map_begin (bs : bytes) : fres (Z * bytes) :=
  match bs with
  | _ :: _ :: r => match get_s 4 r with
                   | None => FErr FShort
                   | Some (n, r') => if n <? 0 then FErr FNegLen else FOk (n, r') end
  | _ => FErr FShort
  end.

(* --- BinaryProtocol.Skip (gopkg binary.go skipType), on the buffer [bs] = p .. e --- *)
Definition type_size (t : Z) : Z :=              (* typeToSize *)
  if (t =? 2) || (t =? 3) then 1 else if (t =? 4) || (t =? 10) then 8
  else if t =? 6 then 2 else if t =? 8 then 4 else 0.

(* gopkg: type TType = int8, and typeToSize[t] is indexed with it: a type byte >= 0x80 is a negative
   index, "index out of range", a Go panic *)
Definition neg_type (t : Z) : bool := 128 <=? t.

(* the buffer p .. e is followed as the suffix [rem] that starts at the current offset; an offset beyond
   the end (possible in one place, see skip_map_loop) is the empty suffix, and the reported byte count
   [acc] keeps growing *)
Definition byte0 (rem : bytes) : Z := match rem with b :: _ => Z_of_byte b | [] => 0 end.
Definition i32_0 (rem : bytes) : Z := match get_s 4 rem with Some (n, _) => n | None => 0 end.
Definition adv (n : Z) (rem : bytes) : bytes := skipn (Z.to_nat n) rem.

(* skipstr(p, e) *)
Definition skipstr (rem : bytes) : fres Z :=
  if 4 <=? lenZ rem then
    let n := i32_0 rem in
    if n <? 0 then FErr FNegLen
    else if 4 + n <=? lenZ rem then FOk (4 + n) else FErr FShort
  else FErr FShort.

(* one element of a container / one field value: the three-way choice repeated in skipType for
   keys, values, elements and fields; a fixed-size one is NOT checked against the end of the buffer *)
Definition skip_elem (sk : Z -> bytes -> fres Z) (rem : bytes) (t : Z) : fres Z :=
  if 0 <? type_size t then FOk (type_size t)
  else if t =? 11 then skipstr rem
  else sk t rem.

Section SkipLoops.
  Variable sk : Z -> bytes -> fres Z.       (* skipType(.., maxdepth-1) *)
  (* for j := 0; j < sz; j++ over list / set elements; [acc] = offset reached, [rem] = what is left *)
  Fixpoint skip_list_loop (fuel : nat) (vt : Z) (j : Z) (acc : Z) (rem : bytes) : fres Z :=
    if j <=? 0 then FOk acc else
    match fuel with
    | O => FErr FFuel
    | S f =>
        match rem with
        | [] => FErr FShort                                   (* uintptr(p)+uintptr(i) >= e *)
        | _ =>
            match skip_elem sk rem vt with
            | FErr x => FErr x
            | FOk vi => skip_list_loop f vt (j - 1) (acc + vi) (adv vi rem)
            end
        end
    end.
  Fixpoint skip_map_loop (fuel : nat) (kt vt : Z) (j : Z) (acc : Z) (rem : bytes) : fres Z :=
    if j <=? 0 then FOk acc else
    match fuel with
    | O => FErr FFuel
    | S f =>
        match rem with
        | [] => FErr FShort
        | _ =>
            match skip_elem sk rem kt with
            | FErr x => FErr x
            | FOk ki =>
                match adv ki rem with
                | [] => FErr FShort
                | rem1 =>
                    match skip_elem sk rem1 vt with
                    | FErr x => FErr x
                    | FOk vi =>            (* no check after a fixed-size value: the last one may overrun *)
                        skip_map_loop f kt vt (j - 1) (acc + ki + vi) (adv vi rem1)
                    end
                end
            end
        end
    end.
  Fixpoint skip_struct_loop (fuel : nat) (acc : Z) (rem : bytes) : fres Z :=
    match fuel with
    | O => FErr FFuel
    | S f =>
        match rem with
        | [] => FErr FShort
        | tb :: r0 =>
            let ft := Z_of_byte tb in
            if ft =? 0 then FOk (acc + 1) else
            match adv 2 r0 with
            | [] => FErr FShort                               (* i += 2; uintptr(p)+uintptr(i) >= e *)
            | r1 =>
                if neg_type ft then FErr FIndex else
                match skip_elem sk r1 ft with
                | FErr x => FErr x
                | FOk fi => skip_struct_loop f (acc + 3 + fi) (adv fi r1)
                end
            end
        end
    end.
End SkipLoops.

(* skipType(p, e, t, maxdepth): the number of bytes it reports (may exceed the buffer, see above) *)
Fixpoint fskip (maxdepth : nat) (t : Z) (bs : bytes) {struct maxdepth} : fres Z :=
  match maxdepth with
  | O => FErr FDepth
  | S d =>
      let len := lenZ bs in
      if neg_type t then FErr FIndex else
      if 0 <? type_size t then (if len <? type_size t then FErr FShort else FOk (type_size t))
      else if t =? 11 then skipstr bs
      else if t =? 13 then
        if len <? 6 then FErr FShort else
        let kt := byte0 bs in let vt := byte0 (adv 1 bs) in let sz := i32_0 (adv 2 bs) in
        if sz <? 0 then FErr FNegLen else
        if neg_type kt || neg_type vt then FErr FIndex else
        let ksz := type_size kt in let vsz := type_size vt in
        if (0 <? ksz) && (0 <? vsz) then
          (if len <? 6 + sz * (ksz + vsz) then FErr FShort else FOk (6 + sz * (ksz + vsz)))
        else skip_map_loop (fskip d) (S (length bs)) kt vt sz 6 (adv 6 bs)
      else if (t =? 15) || (t =? 14) then
        if len <? 5 then FErr FShort else
        let vt := byte0 bs in let sz := i32_0 (adv 1 bs) in
        if sz <? 0 then FErr FNegLen else
        if neg_type vt then FErr FIndex else
        let vsz := type_size vt in
        if 0 <? vsz then (if len <? 5 + sz * vsz then FErr FShort else FOk (5 + sz * vsz))
        else skip_list_loop (fskip d) (S (length bs)) vt sz 5 (adv 5 bs)
      else if t =? 12 then skip_struct_loop (fskip d) (S (length bs)) 0 bs
      else FErr FBadType
  end.

Definition default_recursion_depth : nat := 64.

(* x.Skip(b, t) *)
Definition fskip_top (t : Z) (bs : bytes) : fres Z :=
  match bs with [] => FErr FShort | _ => fskip default_recursion_depth t bs end.

(* --- loops of the generated reader: for i := 0; i < sz; i++ --- *)
Section Rep.
  Context {A : Type}.
  Variable p : bytes -> fres (A * bytes).
  Fixpoint frep (fuel : nat) (n : Z) (bs : bytes) : fres (list A * bytes) :=
    if n <=? 0 then FOk ([], bs) else
    match fuel with
    | O => FErr FFuel
    | S f =>
        match p bs with
        | FErr x => FErr x
        | FOk (a, r) =>
            match frep f (n - 1) r with
            | FErr x => FErr x
            | FOk (l, r') => FOk (a :: l, r')
            end
        end
    end.
End Rep.

Definition fpair {A B} (p : bytes -> fres (A * bytes)) (q : bytes -> fres (B * bytes)) (bs : bytes)
  : fres ((A * B) * bytes) :=
  match p bs with
  | FErr x => FErr x
  | FOk (a, r) => match q r with FErr x => FErr x | FOk (b, r') => FOk ((a, b), r') end
  end.

(* the switch of genFastRead: case uint32(f.ID)<<8 | wiretype(f) in field-id order *)
Definition find_case (e : env) (s : sschema) (fid ftyp : Z) : option field :=
  match filter (fun p => (fst p =? fid) && (wire_type e (f_ty (snd p)) =? ftyp))
               (sort_by_id (map (fun f => (f_id f, f)) (s_fields s))) with
  | p :: _ => Some (snd p)
  | [] => None
  end.

(* GenIfNotSet: the first required field, in field-id order, whose bit is not set *)
Definition fast_first_missing (s : sschema) (seen : list Z) : option Z :=
  match filter (fun p => is_required (snd p) && negb (existsb (Z.eqb (fst p)) seen))
               (sort_by_id (map (fun f => (f_id f, f)) (s_fields s))) with
  | p :: _ => Some (fst p)
  | [] => None
  end.

Section StructLoop.
  Variable rv : ty -> bytes -> fres (value * bytes).     (* genFastReadAny for a field of type t *)
  Variable e : env.
  Variable s : sschema.
  (* the for loop of the generated FastRead; state = slots and ids of required fields seen *)
  Fixpoint fr_loop (fuel : nat) (st : rstate) (bs : bytes) : fres (list (Z * value) * bytes) :=
    match fuel with
    | O => FErr FFuel
    | S lf =>
        match bs with
        | [] => FErr FShort                                   (* ReadFieldBegin: len(buf) < 1 *)
        | tb :: r0 =>
            let ftyp := Z_of_byte tb in
            if ftyp =? 0 then                                 (* STOP *)
              match fast_first_missing s (snd st) with
              | Some id => FErr (FRequired id)
              | None => FOk (fst st, r0)
              end
            else
              match get_s 2 r0 with
              | None => FErr FShort                           (* ReadFieldBegin: len(buf) < 3 *)
              | Some (fid, r1) =>
                  match find_case e s fid ftyp with
                  | Some f =>
                      match rv (f_ty f) r1 with
                      | FErr x => FErr x
                      | FOk (v, r2) =>
                          fr_loop lf (set_field (f_id f) (wrap_slot f v) (fst st),
                                      if is_required f then f_id f :: snd st else snd st) r2
                      end
                  | None =>                                   (* default: x.Skip(b[off:], ftyp) *)
                      match fskip_top ftyp r1 with
                      | FErr x => FErr x
                      | FOk n =>
                          if lenZ r1 <? n then FErr FOverrun
                          else fr_loop lf st (skipn (Z.to_nat n) r1)
                      end
                  end
              end
        end
    end.
End StructLoop.

(* genFastReadAny: a value of IDL type t at the head of bs *)
Fixpoint fr_val (fuel : nat) (e : env) (t : ty) (bs : bytes) {struct fuel} : fres (value * bytes) :=
  match fuel with
  | O => FErr FFuel
  | S f =>
      match t with
      | TBool => match rd_bool bs with FOk (b, r) => FOk (VBool b, r) | FErr x => FErr x end
      | TByte => match rd_s 1 bs with FOk (z, r) => FOk (VInt z, r) | FErr x => FErr x end
      | TI16 => match rd_s 2 bs with FOk (z, r) => FOk (VInt z, r) | FErr x => FErr x end
      | TI32 | TEnum _ => match rd_s 4 bs with FOk (z, r) => FOk (VInt z, r) | FErr x => FErr x end
      | TI64 => match rd_s 8 bs with FOk (z, r) => FOk (VInt z, r) | FErr x => FErr x end
      | TDouble => match rd_u 8 bs with FOk (z, r) => FOk (VDbl z, r) | FErr x => FErr x end
      | TString => match rd_str bs with FOk (x, r) => FOk (VStr x, r) | FErr x => FErr x end
      | TBinary => match rd_str bs with FOk (x, r) => FOk (VBin x, r) | FErr x => FErr x end
      | TList et | TSet et =>
          match rd_list_begin bs with
          | FErr x => FErr x
          | FOk (n, r) =>                                      (* make(T, sz); for i < sz *)
              match frep (fr_val f e et) (S (length r)) n r with
              | FErr x => FErr x
              | FOk (l, r') => FOk (VList l, r')
              end
          end
      | TMap kt vt =>
          match rd_map_begin bs with
          | FErr x => FErr x
          | FOk (n, r) =>                                      (* make(map, sz); m[k] = v *)
              match frep (fpair (fr_val f e kt) (fr_val f e vt)) (S (length r)) n r with
              | FErr x => FErr x
              | FOk (kvs, r') => FOk (VMap (map_build kvs), r')
              end
          end
      | TRef n =>
          match find_struct e n with
          | None => FErr FNoStruct
          | Some s =>                                          (* p.F = NewX(); p.F.FastRead(b[off:]) *)
              match fr_loop (fr_val f e) e s (S (length bs)) (new_fields s, []) bs with
              | FErr x => FErr x
              | FOk (fs, r) => FOk (VStruct fs, r)
              end
          end
      end
  end.

(* p.FastRead(b) on the object [init]; result: the object and the number of bytes consumed *)
Definition fast_read (e : env) (s : sschema) (init : value) (bs : bytes) : fres (value * Z) :=
  match init with
  | VStruct fs0 =>
      match fr_loop (fr_val (S (length bs)) e) e s (S (length bs)) (fs0, []) bs with
      | FErr x => FErr x
      | FOk (fs, r) => FOk (VStruct fs, lenZ bs - lenZ r)
      end
  | _ => FErr FBadInit
  end.

(* ------------------------------------------------------------------ specification helpers *)

(* a wire value with the fields of every struct in ascending id order: what FastAppend emits *)
Definition wkey (f : wfield) : Z := snd (fst f).
Definition sort_wfields (l : list wfield) : list wfield :=
  map snd (sort_by_id (map (fun f => (wkey f, f)) l)).

Fixpoint sortw (w : wval) : wval :=
  match w with
  | WStruct fs => WStruct (sort_wfields (map (fun f => (fst f, sortw (snd f))) fs))
  | WMap kt vt kvs => WMap kt vt (map (fun kv => (sortw (fst kv), sortw (snd kv))) kvs)
  | WSet et l => WSet et (map sortw l)
  | WList et l => WList et (map sortw l)
  | _ => w
  end.

(* error classes of the two readers, as the generated code reports them *)
Inductive rclass := ROk | RRequired | ROther.
Definition class_of_fast {A} (r : fres A) : rclass :=
  match r with FOk _ => ROk | FErr (FRequired _) => RRequired | FErr _ => ROther end.
Definition class_of_std {A} (r : result A) : rclass :=
  match r with Ok _ => ROk | Err (ERequiredMissing _) => RRequired | Err _ => ROther end.
