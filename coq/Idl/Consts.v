(* Idl/Consts.v — the VALUE of constants and field defaults (property C06).

   The Go backend turns every IDL initializer into Go source text
   (generator/golang/resolver.go: resolveConst, onBool ... onStructLike, getIDValue); the
   compiled package then holds a Go value.  This file is the value-level image of that
   pipeline on a RESOLVED program (Idl/Ast.v after semantic.ResolveSymbols):

     eval q fuel p vf tf t c    the Go value of initializer [c] at type [t];
                                [tf] = the file the TYPE is written in, [vf] = the file the
                                VALUE is written in (they differ only below a struct literal
                                whose struct lives in another file)
     eval_top                   vf = tf (constants, field defaults)
     denotes                    getIDValue: a constant of the value file / of an include, or
                                an enum member
     go_unquote / go_string     the documented literal rule (docs/string-literals-in-the-IDL.md):
                                the text is copied between double quotes with only the double
                                quote re-escaped; the value is Go's reading of that literal
     need_redirect, zero_slot, new_struct, zero_struct, init_default, is_set, default_var,
     getter                     templates/struct.go (StructLikeDefault, InitDefault,
                                FieldGetOrSet, FieldIsSet), thrift.go (NeedRedirect, SupportIsSet)

   Values are the Go representation (same constructors as Wire/Value.v, so that the
   harness printers can be shared): VBool | VInt (every intN and enums) | VDbl bits | VStr |
   VBin (non-nil []byte) | VList (non-nil slice: list and set) | VMap | VStruct (non-nil
   pointer, slots in declaration order keyed by field id) | VNil | VSome (pointer to base).

   [quirks] separates the two readings that are compared on every run:
     go_rules   what the pinned generator does
     idl_rules  the IDL's own rules (the property oracle): -0.0 keeps its sign, a
                container written with a value of another kind is an error, the fields a
                struct literal does not mention are unconstrained ([VAny]).

   Error values: anything the backend rejects (exit 2), panics on, or for which it emits
   Go that does not compile.  Out of fuel is the distinct [EFuel].
   Definitions only; proofs are in Idl/ConstsFacts.v. *)
From Coq.Strings Require Import String.
From Coq Require Import List Bool ZArith NArith Lia.
From Coq.Strings Require Import Byte.
From Verif Require Import Base.Bytes Idl.Ast Idl.AstUtil.
From Verif Require Idl.Resolve Idl.Lex.
Import ListNotations.
Local Open Scope Z_scope.

(* ---------------------------------------------------------------- values and results *)

Inductive cval :=
| VBool (b : bool)
| VInt (z : Z)
| VDbl (bits : Z)
| VStr (s : bytes)
| VBin (s : bytes)
| VList (l : list cval)
| VMap (kvs : list (cval * cval))
| VStruct (fs : list (Z * cval))
| VNil
| VSome (v : cval).

(* "no constraint" (only produced under idl_rules, for the fields a struct literal does
   not mention); no Go value has this shape *)
Definition VAny : cval := VSome (VSome VNil).

Inductive cerr :=
| EKind               (* value of the wrong kind for the type (errTypeMissMatch and friends) *)
| EUndefined          (* getIDValue fails: "undefined value", enum written through a typedef *)
| ERange              (* integer outside the range of its type: Go constant overflow *)
| EUnsupportedEscape  (* escape sequence outside the modelled set, or one Go rejects *)
| ELiteral            (* the copied text is not a Go string literal (bare quote, newline, control byte) *)
| ENonFinite          (* fmt.Sprint of an infinity / NaN is not a Go expression *)
| EField              (* struct literal: key is not a literal / names no field / names a field twice *)
| EAddr               (* struct literal: the backend takes the address of a non-addressable operand *)
| EInternal           (* nil dereference / index out of range inside the backend *)
| EFuel.

Inductive result (A : Type) := Ok (a : A) | Error (e : cerr).
Arguments Ok {A} a.
Arguments Error {A} e.

Definition bind {A B} (r : result A) (k : A -> result B) : result B :=
  match r with Ok a => k a | Error e => Error e end.

Declare Scope consts_scope.
Delimit Scope consts_scope with consts.
Notation "x <- a ;; b" := (bind a (fun x => b))
  (at level 61, a at next level, right associativity) : consts_scope.
Local Open Scope consts_scope.

Fixpoint mapM {A B} (f : A -> result B) (l : list A) : result (list B) :=
  match l with
  | [] => Ok []
  | x :: r => y <- f x ;; ys <- mapM f r ;; Ok (y :: ys)
  end.

Record quirks := Quirks {
  q_negzero_lost : bool;      (* fmt.Sprint(-0.0) = "-0", a Go constant without sign *)
  q_fault_tolerant : bool;    (* onSetOrList / onMap: a value of another kind becomes an empty literal *)
  q_unmentioned_any : bool }. (* fields a struct literal does not mention are unconstrained *)

Definition go_rules : quirks := Quirks true true false.
Definition idl_rules : quirks := Quirks false false true.

(* ---------------------------------------------------------------- string literals *)

Definition c_bs : byte := x5c.
Definition c_dq : byte := x22.

(* strings.ReplaceAll(lit, `"`, `\"`) *)
Fixpoint go_escape_dq (s : bytes) : bytes :=
  match s with
  | [] => []
  | c :: r => if Byte.eqb c c_dq then c_bs :: c_dq :: go_escape_dq r else c :: go_escape_dq r
  end.

Definition hexv (c : byte) : option Z :=
  let n := Z.of_N (Byte.to_N c) in
  if (48 <=? n) && (n <=? 57) then Some (n - 48)
  else if (97 <=? n) && (n <=? 102) then Some (n - 87)
  else if (65 <=? n) && (n <=? 70) then Some (n - 55)
  else None.

Definition byte_of_Z (z : Z) : byte :=
  match Byte.of_N (Z.to_N (z mod 256)) with Some b => b | None => x00 end.

(* UTF-8 of a code point below 0x10000 that is not a surrogate half *)
Definition utf8 (cp : Z) : option bytes :=
  if cp <? 128 then Some [byte_of_Z cp]
  else if cp <? 2048 then Some [byte_of_Z (192 + cp / 64); byte_of_Z (128 + cp mod 64)]
  else if (55296 <=? cp) && (cp <=? 57343) then None
  else Some [byte_of_Z (224 + cp / 4096); byte_of_Z (128 + (cp / 64) mod 64); byte_of_Z (128 + cp mod 64)].

(* Go's reading of the text between the quotes of an interpreted string literal.
   Supported escapes: backslash followed by backslash, double quote, n, t, r, xHH, uHHHH.
   Backslash single-quote is not an escape of Go STRING literals
   (the compiler rejects it); every other escape is outside the modelled set. *)
Fixpoint go_unquote (s : bytes) : result bytes :=
  match s with
  | [] => Ok []
  | c :: r =>
    if Byte.eqb c c_dq then Error ELiteral
    else if Byte.eqb c c_bs then
      match r with
      | [] => Error ELiteral
      | e :: r1 =>
        if Byte.eqb e c_bs then t <- go_unquote r1 ;; Ok (c_bs :: t)
        else if Byte.eqb e c_dq then t <- go_unquote r1 ;; Ok (c_dq :: t)
        else if Byte.eqb e x6e then t <- go_unquote r1 ;; Ok (x0a :: t)
        else if Byte.eqb e x74 then t <- go_unquote r1 ;; Ok (x09 :: t)
        else if Byte.eqb e x72 then t <- go_unquote r1 ;; Ok (x0d :: t)
        else if Byte.eqb e x78 then
          match r1 with
          | h1 :: r2 =>
            match r2 with
            | h2 :: r3 =>
              match hexv h1, hexv h2 with
              | Some a, Some b => t <- go_unquote r3 ;; Ok (byte_of_Z (a * 16 + b) :: t)
              | _, _ => Error EUnsupportedEscape
              end
            | [] => Error EUnsupportedEscape
            end
          | [] => Error EUnsupportedEscape
          end
        else if Byte.eqb e x75 then
          match r1 with
          | h1 :: r2 =>
            match r2 with
            | h2 :: r3 =>
              match r3 with
              | h3 :: r4 =>
                match r4 with
                | h4 :: r5 =>
                  match hexv h1, hexv h2, hexv h3, hexv h4 with
                  | Some a, Some b, Some c', Some d =>
                    match utf8 (((a * 16 + b) * 16 + c') * 16 + d) with
                    | Some enc => t <- go_unquote r5 ;; Ok (enc ++ t)
                    | None => Error EUnsupportedEscape
                    end
                  | _, _, _, _ => Error EUnsupportedEscape
                  end
                | [] => Error EUnsupportedEscape
                end
              | [] => Error EUnsupportedEscape
              end
            | [] => Error EUnsupportedEscape
            end
          | [] => Error EUnsupportedEscape
          end
        else Error EUnsupportedEscape
      end
    else if (Z.of_N (Byte.to_N c) <? 32) && negb (Byte.eqb c x09) then Error ELiteral
    else t <- go_unquote r ;; Ok (c :: t)
  end.

(* the Go value of the IDL literal [s] *)
Definition go_string (s : bytes) : result bytes := go_unquote (go_escape_dq s).

(* ---------------------------------------------------------------- numbers *)

Definition two63 : Z := 9223372036854775808.
Definition two52 : Z := 4503599627370496.

Definition int_range (c : category) : option (Z * Z) :=
  match c with
  | CatByte => Some (-128, 127)
  | CatI16 => Some (-32768, 32767)
  | CatI32 => Some (-2147483648, 2147483647)
  | CatI64 => Some (- two63, two63 - 1)
  | _ => None
  end.

Definition in_int_range (c : category) (z : Z) : bool :=
  match int_range c with Some (lo, hi) => (lo <=? z) && (z <=? hi) | None => false end.

(* binary64 bit patterns *)
Definition dbl_exp (b : Z) : Z := (b / two52) mod 2048.
Definition dbl_finite (b : Z) : bool := negb (dbl_exp b =? 2047).
Definition dbl_is_zero (b : Z) : bool := b mod two63 =? 0.
(* Go "val > 0" on a float64 *)
Definition dbl_pos (b : Z) : bool := (0 <? b) && (b <? two63) && (b <=? 2047 * two52).

(* float64 of an integer constant (Go converts an untyped constant to float64 by rounding to
   nearest even) *)
Definition z_to_double (z : Z) : Z :=
  if z =? 0 then 0
  else if 0 <? z then Lex.round_binary64 z 1
  else two63 + Lex.round_binary64 (- z) 1.

(* what a double written in the IDL becomes: fmt.Sprint prints the shortest text that reads
   back as the same float64, but "-0" is the integer constant zero *)
Definition go_double (q : quirks) (b : Z) : result cval :=
  if negb (dbl_finite b) then Error ENonFinite
  else if q_negzero_lost q && dbl_is_zero b then Ok (VDbl 0)
  else Ok (VDbl b).

(* Go "!=" against the DEFAULT variable *)
Definition dbl_is_nan (b : Z) : bool := 2047 * two52 <? b mod two63.
Definition feq (a b : Z) : bool :=
  if dbl_is_nan a || dbl_is_nan b then false else (a =? b) || (dbl_is_zero a && dbl_is_zero b).

(* ---------------------------------------------------------------- categories, slots *)

Definition is_true (s : bytes) : bool := beqb s (B "true"%string).
Definition is_false (s : bytes) : bool := beqb s (B "false"%string).

(* IsBaseType of thrift.go: base categories and enums *)
Definition is_base_or_enum (c : category) : bool :=
  is_base_category c || match c with CatEnum => true | _ => false end.
Definition is_binary (c : category) : bool := match c with CatBinary => true | _ => false end.
Definition is_optional (fd : field) : bool := requiredness_eqb (fd_req fd) ReqOptional.
Definition has_default (fd : field) : bool := match fd_default fd with Some _ => true | None => false end.
Definition fd_cat (fd : field) : category := ty_category (fd_type fd).

(* thrift.go NeedRedirect: the Go field is a pointer *)
Definition need_redirect (fd : field) : bool :=
  is_struct_like_category (fd_cat fd) ||
  (is_optional fd && negb (has_default fd) && negb (is_binary (fd_cat fd)) && is_base_or_enum (fd_cat fd)).

(* thrift.go SupportIsSet *)
Definition support_isset (fd : field) : bool := is_struct_like_category (fd_cat fd) || is_optional fd.

(* Go zero value of the plain (non pointer) representation *)
Definition zero_plain (c : category) : cval :=
  match c with
  | CatBool => VBool false
  | CatByte | CatI16 | CatI32 | CatI64 | CatEnum => VInt 0
  | CatDouble => VDbl 0
  | CatString => VStr []
  | _ => VNil
  end.
Definition zero_slot (fd : field) : cval := if need_redirect fd then VNil else zero_plain (fd_cat fd).

(* r.bin2str: a binary map key is a Go string *)
Definition bin2str (t : ty) : ty :=
  match t with
  | Ty n k v cpp an CatBinary r td => Ty n k v cpp an CatString r td
  | _ => t
  end.

(* getStructLike: Deref, then the LAST struct-like of that name in the target file *)
Fixpoint find_last_sl (name : bytes) (l : list struct_like) (acc : option struct_like) : option struct_like :=
  match l with
  | [] => acc
  | s :: r => find_last_sl name r (if beqb (sl_name s) name then Some s else acc)
  end.
Definition get_struct_like (p : program) (tf : file) (t : ty) : result (file * struct_like) :=
  match Resolve.deref (Resolve.deref_fuel p) p tf t with
  | Resolve.Ok (g, t') =>
    match find_last_sl (ty_name t') (struct_likes g) None with
    | Some s => Ok (g, s)
    | None => Error EInternal
    end
  | Resolve.Error _ => Error EInternal
  end.

(* ---------------------------------------------------------------- identifiers *)

(* the scope an Extra points into: the value file itself (-1) or one of its includes *)
Definition hop (p : program) (g : file) (idx : Z) : result file :=
  if idx =? -1 then Ok g
  else match nth_include g idx with
       | Some i => match include_target p i with Some g' => Ok g' | None => Error EInternal end
       | None => Error EInternal
       end.

(* what an identifier denotes: an enum member (its number) or a constant (file and node) *)
Inductive denot := DEnum (z : Z) | DConst (g : file) (c : constant).

Definition denotes (p : program) (vf : file) (ex : const_extra) : result denot :=
  g <- hop p vf (ex_index ex) ;;
  if ex_is_enum ex then
    match find_enum g (ex_sel ex) with
    | None => Error EUndefined            (* the selector is a typedef of an enum *)
    | Some en =>
      match find_enum_value en (ex_name ex) with
      | Some ev => Ok (DEnum (ev_value ev))
      | None => Error EUndefined
      end
    end
  else
    match find_constant g (ex_name ex) with
    | Some co => Ok (DConst g co)
    | None => Error EUndefined
    end.

(* ---------------------------------------------------------------- struct literals *)

Definition key_names (fd : field) (kv : const_value * const_value) : bool :=
  match fst kv with CLiteral n => beqb n (fd_name fd) | _ => false end.

(* every key is a literal that names a field (GetField: by name) *)
Definition keys_ok (s : struct_like) (entries : list (const_value * const_value)) : bool :=
  forallb (fun kv => match fst kv with
                     | CLiteral n => match find_field s n with Some _ => true | None => false end
                     | _ => false
                     end) entries.

(* the slot a struct literal gives to field [fd] when it mentions it with value [c]:
   [v] is the value of c at the field's type *)
Definition mention_slot (fd : field) (c : const_value) (v : cval) : result cval :=
  if need_redirect fd then
    if is_base_category (fd_cat fd) then Ok (VSome v)         (* (&struct{x T}{v}).x *)
    else if is_struct_like_category (fd_cat fd)
    then match c with CMap _ => Ok v | _ => Error EAddr end  (* "&" + identifier: a **T *)
    else Error EAddr                                          (* "&E_A": address of a constant *)
  else Ok v.

Definition struct_slots (q : quirks) (ev : ty -> const_value -> result cval)
           (s : struct_like) (entries : list (const_value * const_value)) : result (list (Z * cval)) :=
  if negb (keys_ok s entries) then Error EField
  else mapM (fun fd =>
               match filter (key_names fd) entries with
               | [] => Ok (fd_id fd, if q_unmentioned_any q then VAny else zero_slot fd)
               | [kv] => v <- ev (fd_type fd) (snd kv) ;; sl <- mention_slot fd (snd kv) v ;; Ok (fd_id fd, sl)
               | _ => Error EField           (* duplicate field name in a Go composite literal *)
               end) (sl_fields s).

(* Go map literal keyed by pointers to a struct-like WITHOUT fields: the gc runtime gives every
   zero-size allocation the same address, so all such keys are one key and the last entry wins
   (struct keys with fields are distinct pointers and never collapse) *)
Definition is_empty_struct (v : cval) : bool := match v with VStruct [] => true | _ => false end.
Fixpoint collapse_empty (kvs : list (cval * cval)) : list (cval * cval) :=
  match kvs with
  | [] => []
  | kv :: r =>
    if is_empty_struct (fst kv) && existsb (fun kv' => is_empty_struct (fst kv')) r
    then collapse_empty r else kv :: collapse_empty r
  end.

(* ---------------------------------------------------------------- typing *)

Section Forall2b.
  Context {A B : Type} (f : A -> B -> bool).
  Fixpoint forall2b (la : list A) (lb : list B) : bool :=
    match la, lb with
    | [], [] => true
    | a :: ra, b :: rb => f a b && forall2b ra rb
    | _, _ => false
    end.
End Forall2b.

(* a struct slot: a pointer slot is nil or points to a typed value, a plain slot holds a typed
   value (nil for binary and containers); VAny is accepted (idl_rules) *)
Definition slot_ok (ht : ty -> cval -> bool) (fd : field) (sl : cval) : bool :=
  match sl with
  | VNil => need_redirect fd || negb (is_base_or_enum (fd_cat fd)) || is_binary (fd_cat fd)
  | VSome (VSome VNil) => true
  | VSome x => need_redirect fd && is_base_or_enum (fd_cat fd) && ht (fd_type fd) x
  | x => negb (need_redirect fd && is_base_or_enum (fd_cat fd)) && ht (fd_type fd) x
  end.

(* [has_type fuel p tf t v]: v is a Go value of the plain representation of type t (written in
   file tf).  Fuel bounds the nesting of values. *)
Fixpoint has_type (fuel : nat) (p : program) (tf : file) (t : ty) (v : cval) {struct fuel} : bool :=
  match fuel with
  | O => false
  | S k =>
    let cat := ty_category t in
    match cat with
    | CatBool => match v with VBool _ => true | _ => false end
    | CatByte | CatI16 | CatI32 | CatI64 => match v with VInt z => in_int_range cat z | _ => false end
    | CatDouble => match v with VDbl _ => true | _ => false end
    | CatString => match v with VStr _ => true | _ => false end
    | CatBinary => match v with VBin _ => true | _ => false end
    | CatEnum => match v with VInt _ => true | _ => false end
    | CatList | CatSet =>
      match v with
      | VList l => match l with
                   | [] => true
                   | _ => match ty_value t with Some et => forallb (has_type k p tf et) l | None => false end
                   end
      | _ => false
      end
    | CatMap =>
      match v with
      | VMap l => match l with
                  | [] => true
                  | _ => match ty_key t, ty_value t with
                         | Some kt, Some vt =>
                           forallb (fun kv => has_type k p tf (bin2str kt) (fst kv) && has_type k p tf vt (snd kv)) l
                         | _, _ => false
                         end
                  end
      | _ => false
      end
    | CatStruct | CatUnion | CatException =>
      match v with
      | VStruct fs =>
        match get_struct_like p tf t with
        | Ok (g, s) => forall2b (fun fd e => (fst e =? fd_id fd) && slot_ok (has_type k p g) fd (snd e)) (sl_fields s) fs
        | Error _ => false
        end
      | _ => false
      end
    | _ => false
    end
  end.

(* ---------------------------------------------------------------- eval *)

(* the categories resolveConst has a case for *)
Definition value_category (c : category) : bool :=
  is_base_category c || is_container_category c || is_struct_like_category c ||
  match c with CatEnum => true | _ => false end.

(* how each category treats the words true / false (before any lookup) *)
Definition bool_word (cat : category) (s : bytes) : option (result cval) :=
  if is_true s || is_false s then
    match cat with
    | CatBool => Some (Ok (VBool (is_true s)))
    | CatByte | CatI16 | CatI32 | CatI64 => Some (Ok (VInt (if is_true s then 1 else 0)))
    | CatDouble => Some (Ok (VDbl (if is_true s then 4607182418800017408 else 0)))   (* "1.0" / "0.0" *)
    | CatString | CatBinary => Some (Error EKind)
    | _ => None                              (* looked up like any identifier: Extra is nil *)
    end
  else None.

(* the value an identifier stands for must fit the position it is written in: scalars by
   their Go kind ("T(IDENT)" for integers, "[]byte(IDENT)" for binary), containers and
   struct-likes by their type *)
Definition expect (k : nat) (p : program) (tf : file) (t : ty) (v : cval) : result cval :=
  match ty_category t with
  | CatBool => match v with VBool _ => Ok v | _ => Error EKind end
  | CatByte | CatI16 | CatI32 | CatI64 =>
    match v with
    | VInt z => if in_int_range (ty_category t) z then Ok v else Error ERange
    | _ => Error EKind
    end
  | CatDouble => match v with VDbl _ => Ok v | _ => Error EKind end
  | CatString => match v with VStr _ => Ok v | _ => Error EKind end
  | CatBinary => match v with VBin s => Ok (VBin s) | VStr s => Ok (VBin s) | _ => Error EKind end
  | CatEnum => match v with VInt _ => Ok v | _ => Error EKind end
  | _ => if has_type k p tf t v then Ok v else Error EKind
  end.

Definition empty_container (cat : category) : cval :=
  match cat with CatMap => VMap [] | _ => VList [] end.

Fixpoint eval (q : quirks) (fuel : nat) (p : program) (vf tf : file) (t : ty) (c : const_value)
         {struct fuel} : result cval :=
  match fuel with
  | O => Error EFuel
  | S k =>
    let cat := ty_category t in
    if negb (value_category cat) then Error EKind else
    match c with
    | CIdent s extra =>
      match bool_word cat s with
      | Some r => r
      | None =>
        match extra with
        | None => Error EInternal              (* v.Extra is nil: nil dereference in getIDValue *)
        | Some ex =>
          match denotes p vf ex with
          | Error EUndefined =>
            (* getIDValue found nothing: "undefined value", except in a container position *)
            if is_container_category cat && q_fault_tolerant q then Ok (empty_container cat) else Error EUndefined
          | Error e => Error e
          | Ok d =>
            v <- match d with
                 | DEnum z => Ok (VInt z)
                 | DConst g co => eval q k p g g (co_type co) (co_value co)
                 end ;;
            expect k p tf t v
          end
        end
      end
    | CInt z =>
      match cat with
      | CatBool => Ok (VBool (0 <? z))
      | CatByte | CatI16 | CatI32 | CatI64 => if in_int_range cat z then Ok (VInt z) else Error ERange
      | CatDouble => Ok (VDbl (z_to_double z))
      | CatEnum => Ok (VInt z)
      | CatList | CatSet | CatMap => if q_fault_tolerant q then Ok (empty_container cat) else Error EKind
      | _ => Error EKind
      end
    | CDouble b =>
      match cat with
      | CatBool => Ok (VBool (dbl_pos (Z.of_N b)))
      | CatDouble => go_double q (Z.of_N b)
      | CatList | CatSet | CatMap => if q_fault_tolerant q then Ok (empty_container cat) else Error EKind
      | _ => Error EKind
      end
    | CLiteral s =>
      match cat with
      | CatString => b <- go_string s ;; Ok (VStr b)
      | CatBinary => b <- go_string s ;; Ok (VBin b)
      | CatList | CatSet | CatMap => if q_fault_tolerant q then Ok (empty_container cat) else Error EKind
      | _ => Error EKind
      end
    | CList l =>
      match cat with
      | CatList | CatSet =>
        match l with
        | [] => Ok (VList [])
        | _ => match ty_value t with
               | Some et => vs <- mapM (eval q k p vf tf et) l ;; Ok (VList vs)
               | None => Error EInternal       (* typedef'd container: ValueType is nil *)
               end
        end
      | CatMap => if q_fault_tolerant q then Ok (VMap []) else Error EKind
      | _ => Error EKind
      end
    | CMap l =>
      match cat with
      | CatMap =>
        match l with
        | [] => Ok (VMap [])
        | _ => match ty_key t, ty_value t with
               | Some kt, Some vt =>
                 kvs <- mapM (fun kv => a <- eval q k p vf tf (bin2str kt) (fst kv) ;;
                                        b <- eval q k p vf tf vt (snd kv) ;; Ok (a, b)) l ;;
                 Ok (VMap (collapse_empty kvs))
               | _, _ => Error EInternal
               end
        end
      | CatList | CatSet => if q_fault_tolerant q then Ok (VList []) else Error EKind
      | CatStruct | CatUnion | CatException =>
        gs <- get_struct_like p tf t ;;
        fs <- struct_slots q (eval q k p vf (fst gs)) (snd gs) l ;;
        Ok (VStruct fs)
      | _ => Error EKind
      end
    end
  end.

(* a constant / a field default written in file f *)
Definition eval_top (q : quirks) (fuel : nat) (p : program) (f : file) (t : ty) (c : const_value) : result cval :=
  eval q fuel p f f t c.

Definition eval_constant (q : quirks) (fuel : nat) (p : program) (f : file) (co : constant) : result cval :=
  eval_top q fuel p f (co_type co) (co_value co).

(* enough fuel for every program the harness produces: one unit per nesting level of a value
   and per reference hop; both are bounded by the total size of the program's values *)
Fixpoint cv_size (c : const_value) : nat :=
  match c with
  | CList l => S (fold_right (fun x acc => cv_size x + acc)%nat O l)
  | CMap l => S (fold_right (fun kv acc => cv_size (fst kv) + cv_size (snd kv) + acc)%nat O l)
  | _ => 1%nat
  end.
Definition file_fuel (f : file) : nat :=
  fold_right (fun c acc => cv_size c + acc)%nat O (file_top_const_values f).
Definition prog_fuel (p : program) : nat :=
  S (S (fold_right (fun f acc => file_fuel f + acc)%nat O (prog_files p))).

(* ---------------------------------------------------------------- structs *)

(* DefaultValue of a field (GetFieldInit) *)
Definition default_value (q : quirks) (fuel : nat) (p : program) (f : file) (fd : field) : result (option cval) :=
  match fd_default fd with
  | Some c => v <- eval_top q fuel p f (fd_type fd) c ;; Ok (Some v)
  | None => Ok None
  end.

(* what NewX() puts into the slot: StructLikeDefault lists exactly the fields with a default *)
Definition init_slot (q : quirks) (fuel : nat) (p : program) (f : file) (fd : field) : result cval :=
  d <- default_value q fuel p f fd ;;
  match d with Some v => Ok v | None => Ok (zero_slot fd) end.

Definition new_struct (q : quirks) (fuel : nat) (p : program) (f : file) (s : struct_like) : result cval :=
  fs <- mapM (fun fd => v <- init_slot q fuel p f fd ;; Ok (fd_id fd, v)) (sl_fields s) ;;
  Ok (VStruct fs).

Definition zero_struct (s : struct_like) : cval :=
  VStruct (map (fun fd => (fd_id fd, zero_slot fd)) (sl_fields s)).

(* InitDefault(): "p.F = default" for every field with a default, nothing else is touched *)
Fixpoint init_fields (q : quirks) (fuel : nat) (p : program) (f : file)
         (fds : list field) (slots : list (Z * cval)) : result (list (Z * cval)) :=
  match fds, slots with
  | [], [] => Ok []
  | fd :: fr, sl :: sr =>
    d <- default_value q fuel p f fd ;;
    rest <- init_fields q fuel p f fr sr ;;
    Ok (match d with Some v => (fd_id fd, v) | None => sl end :: rest)
  | _, _ => Error EKind
  end.
Definition init_default (q : quirks) (fuel : nat) (p : program) (f : file) (s : struct_like) (x : cval) : result cval :=
  match x with
  | VStruct slots => fs <- init_fields q fuel p f (sl_fields s) slots ;; Ok (VStruct fs)
  | _ => Error EKind
  end.

Definition get_slot (x : cval) (id : Z) : option cval :=
  match x with
  | VStruct fs => match find (fun e => fst e =? id) fs with Some e => Some (snd e) | None => None end
  | _ => None
  end.

Fixpoint set_slot_in (id : Z) (v : cval) (fs : list (Z * cval)) : list (Z * cval) :=
  match fs with
  | [] => []
  | e :: r => if fst e =? id then (id, v) :: r else e :: set_slot_in id v r
  end.
Definition set_slot (x : cval) (id : Z) (v : cval) : cval :=
  match x with VStruct fs => VStruct (set_slot_in id v fs) | _ => x end.

Definition is_nil (v : cval) : bool := match v with VNil => true | _ => false end.
Definition bin_bytes (v : cval) : bytes := match v with VBin s => s | _ => [] end.

(* Go "!=" between two plain base values *)
Definition go_neq (a b : cval) : bool :=
  match a, b with
  | VBool x, VBool y => negb (Bool.eqb x y)
  | VInt x, VInt y => negb (x =? y)
  | VDbl x, VDbl y => negb (feq x y)
  | VStr x, VStr y => negb (beqb x y)
  | _, _ => true
  end.

(* FieldIsSet; [dv] = the evaluated default of the field *)
Definition is_set (fd : field) (dv : option cval) (slot : cval) : bool :=
  match dv with
  | Some d =>
    if is_base_or_enum (fd_cat fd)
    then if is_binary (fd_cat fd) then negb (beqb (bin_bytes slot) (bin_bytes d)) else go_neq slot d
    else negb (is_nil slot)
  | None => negb (is_nil slot)
  end.

(* "var X_F_DEFAULT T [= default]" where T is the plain type *)
Definition default_var (fd : field) (dv : option cval) : cval :=
  match dv with Some d => d | None => zero_plain (fd_cat fd) end.

Definition unsome (v : cval) : cval := match v with VSome x => x | _ => v end.

(* GetF() *)
Definition getter (fd : field) (dv : option cval) (slot : cval) : cval :=
  if support_isset fd then
    if is_set fd dv slot
    then (if need_redirect fd && is_base_or_enum (fd_cat fd) then unsome slot else slot)
    else default_var fd dv
  else slot.
