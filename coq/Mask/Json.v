(* Mask/Json.v — model of fieldmask/serdes.go: MarshalJSON (mask -> JSON tree with sorted
   children -> text) and UnmarshalJSON / TransferFrom (JSON tree -> mask).
   The step text -> tree is Go's encoding/json and is not modelled; the correspondence
   check feeds the text printed here (and by the harness) to the real Unmarshal.
   No proofs in this file. *)
From Coq Require Import List Bool ZArith NArith.
From Coq.Strings Require Import Byte String.
From Verif Require Import Base.Bytes Mask.Path Mask.Desc Mask.Trie Mask.Spec.
Import ListNotations.

(* the value of the "path" member: a number or a string; "$" is the root, "*" is any *)
Inductive jpath := JInt (n : Z) | JStr (s : bytes).

(* {"path":p,"type":t,"is_black":b}  or  {"path":p,"type":t,"is_black":b,"children":[...]} *)
Inductive jtree := JNode (p : jpath) (t : ft) (black : bool) (haskids : bool) (kids : list jtree).

Definition jt_path (j : jtree) : jpath := match j with JNode p _ _ _ _ => p end.
Definition jt_typ (j : jtree) : ft := match j with JNode _ t _ _ _ => t end.
Definition jt_black (j : jtree) : bool := match j with JNode _ _ b _ _ => b end.
Definition jt_haskids (j : jtree) : bool := match j with JNode _ _ _ h _ => h end.
Definition jt_kids (j : jtree) : list jtree := match j with JNode _ _ _ _ k => k end.

Definition star_path : jpath := JStr [x2a].
Definition root_path : jpath := JStr [x24].

Definition jpath_eqb (a b : jpath) : bool :=
  match a, b with
  | JInt x, JInt y => (x =? y)%Z
  | JStr x, JStr y => beqb x y
  | _, _ => false
  end.

Definition jpath_of_key (k : key) : jpath :=
  match k with
  | KF z | KI z => JInt z
  | KS s => JStr s
  | KAll => star_path
  end.

(* Go string comparison: bytewise lexicographic *)
Fixpoint bytes_leb (a b : bytes) : bool :=
  match a, b with
  | [], _ => true
  | _ :: _, [] => false
  | x :: a', y :: b' =>
      if (Byte.to_N x <? Byte.to_N y)%N then true
      else if (Byte.to_N y <? Byte.to_N x)%N then false
      else bytes_leb a' b'
  end.

(* order used by sort.Stable in marshalRec; only keys of one store are ever compared *)
Definition key_leb (a b : key) : bool :=
  match a, b with
  | KF x, KF y => (x <=? y)%Z
  | KI x, KI y => (x <=? y)%Z
  | KS x, KS y => bytes_leb x y
  | _, _ => true
  end.

Definition entry := (key * bool * jtree)%type.     (* key, child is set, its JSON *)

Fixpoint insert_sorted (e : entry) (l : list entry) : list entry :=
  match l with
  | [] => [e]
  | x :: r => if key_leb (fst (fst e)) (fst (fst x)) then e :: l else x :: insert_sorted e r
  end.

Definition sort_entries (l : list entry) : list entry := fold_right insert_sorted [] l.

(* which store marshalRec walks for a type *)
Definition store_of (t : ft) (k : key) : bool :=
  match t, k with
  | FtStruct, KF _ => true
  | FtList, KI _ | FtIntMap, KI _ => true
  | FtStrMap, KS _ => true
  | _, _ => false
  end.

Fixpoint find_all (l : list entry) : option (bool * jtree) :=
  match l with
  | [] => None
  | (KAll, lv, j) :: _ => Some (lv, j)
  | _ :: r => find_all r
  end.

(* marshalRec for one node, given the JSON of its children *)
Definition node_json (p : jpath) (t : ft) (isall black : bool) (sub : list entry) : jtree :=
  let all := match t with FtStruct | FtList | FtIntMap | FtStrMap => isall | _ => true end in
  if all then
    match find_all sub with
    | None => JNode p t black false []
    | Some (lv, j) => JNode p t black true (if lv then [j] else [])
    end
  else
    JNode p t black true
      (map snd (sort_entries (filter (fun e => store_of t (fst (fst e)) && snd (fst e)) sub))).

Fixpoint to_jt (p : jpath) (m : mask) : jtree :=
  match m with
  | Node t a b ks =>
      node_json p t a b
        ((fix go (l : list (key * mask)) : list entry :=
            match l with
            | [] => []
            | (k, c) :: r => (k, live c, to_jt (jpath_of_key k) c) :: go r
            end) ks)
  end.

(* FieldMask.MarshalJSON on a non-nil mask, as a tree *)
Definition to_json (m : mask) : jtree := to_jt root_path m.

(* the children of every node are in ascending order of their "path" member *)
Definition jpath_leb (a b : jpath) : bool :=
  match a, b with
  | JInt x, JInt y => (x <=? y)%Z
  | JStr x, JStr y => bytes_leb x y
  | _, _ => true
  end.

Fixpoint paths_sorted (l : list jtree) : bool :=
  match l with
  | [] => true
  | x :: r => match r with
              | [] => true
              | y :: _ => jpath_leb (jt_path x) (jt_path y) && paths_sorted r
              end
  end.

Fixpoint jsorted (j : jtree) : bool :=
  match j with
  | JNode _ _ _ _ kids =>
      paths_sorted kids &&
      (fix go (l : list jtree) : bool := match l with [] => true | x :: r => jsorted x && go r end) kids
  end.

(* ------------------------------------------------------------------ the text *)

Definition type_name (t : ft) : bytes :=
  match t with
  | FtInvalid => B "Invalid" | FtScalar => B "Scalar" | FtList => B "List"
  | FtStruct => B "Struct" | FtStrMap => B "StrMap" | FtIntMap => B "IntMap"
  end.

(* strconv.Itoa *)
Definition itoa (z : Z) : bytes :=
  if (z <? 0)%Z then x2d :: digitsN (Z.to_N (- z)) else digitsN (Z.to_N z).

Definition hex_char (n : N) : byte :=
  match n with
  | 0 => x30 | 1 => x31 | 2 => x32 | 3 => x33 | 4 => x34 | 5 => x35 | 6 => x36 | 7 => x37
  | 8 => x38 | 9 => x39 | 10 => x61 | 11 => x62 | 12 => x63 | 13 => x64 | 14 => x65 | _ => x66
  end%N.

(* strconv.Quote for bytes below 0x80; a byte >= 0x80 is printed as '?' (outside the
   modelled fragment, never produced on compared inputs; see quotable) *)
Definition quote_byte (b : byte) : bytes :=
  match b with
  | x22 => [x5c; x22]
  | x5c => [x5c; x5c]
  | x07 => [x5c; x61]
  | x08 => [x5c; x62]
  | x0c => [x5c; x66]
  | x0a => [x5c; x6e]
  | x0d => [x5c; x72]
  | x09 => [x5c; x74]
  | x0b => [x5c; x76]
  | _ =>
      let n := Byte.to_N b in
      if (n <? 32)%N || (n =? 127)%N then [x5c; x78; hex_char (n / 16); hex_char (n mod 16)]
      else if (n <? 128)%N then [b]
      else [x3f]
  end.

Definition quote (s : bytes) : bytes := x22 :: List.concat (map quote_byte s) ++ [x22].

Definition quotable (s : bytes) : bool := forallb (fun b => (Byte.to_N b <? 128)%N) s.

Definition print_path (p : jpath) : bytes :=
  match p with JInt z => itoa z | JStr s => quote s end.

Definition print_bool (b : bool) : bytes := if b then B "true" else B "false".

Fixpoint print_jt (j : jtree) : bytes :=
  match j with
  | JNode p t b hk kids =>
      B "{""path"":" ++ print_path p ++ B ",""type"":""" ++ type_name t ++
      B """,""is_black"":" ++ print_bool b ++
      (if hk then
         B ",""children"":[" ++
         ((fix go (first : bool) (l : list jtree) : bytes :=
             match l with
             | [] => []
             | x :: r => (if first then [] else [x2c]) ++ print_jt x ++ go false r
             end) true kids) ++ [x5d]
       else []) ++ [x7d]
  end.

Definition to_json_text (m : mask) : bytes := print_jt (to_json m).

(* ------------------------------------------------------------------ and back *)

Definition zero_mask : mask := Node FtInvalid false false [].

Definition min_int32 : Z := (-2147483648)%Z.
Definition min_int : Z := (-9223372036854775808)%Z.

(* json.Unmarshal(n.Path, &id) for the three key types *)
Definition key_for (t : ft) (p : jpath) : option key :=
  match t, p with
  | FtStruct, JInt z => if (min_int32 <=? z)%Z && (z <=? max_int32)%Z then Some (KF z) else None
  | FtList, JInt z | FtIntMap, JInt z => if (min_int <=? z)%Z && (z <=? max_int)%Z then Some (KI z) else None
  | FtStrMap, JStr s => Some (KS s)
  | _, _ => None
  end.

Definition is_star (j : jtree) : bool := jpath_eqb (jt_path j) star_path.

(* FieldMask.TransferFrom; errors are all mapped to one kind *)
Fixpoint transfer (s : jtree) (self : mask) : res mask :=
  match s with
  | JNode _ t b _ kids =>
      if ft_eqb t FtInvalid then Err EKind else
      let self1 := Node t (m_isall self) b (m_kids self) in
      (* checkAll: isAll = true, all = a new mask transferred from n *)
      let check_all (tr : mask -> res mask) (cur : mask) : res mask :=
        match tr zero_mask with
        | Ok a => Ok (put KAll a (set_isall cur true))
        | Err e => Err e
        | Fuel => Fuel
        end in
      match kids with
      | [] => Ok (set_isall self1 true)
      | n0 :: _ =>
          match t with
          | FtScalar => if is_star n0 then check_all (transfer n0) self1 else Err EKind
          | FtInvalid => Err EKind
          | _ =>
              (fix go (l : list jtree) (cur : mask) : res mask :=
                 match l with
                 | [] => Ok cur
                 | n :: r =>
                     if is_star n then check_all (transfer n) cur
                     else match key_for t (jt_path n) with
                          | None => Err EKind
                          | Some k =>
                              match with_child k (jt_typ n) cur (transfer n) with
                              | Ok c => go r c
                              | Err e => Err e
                              | Fuel => Fuel
                              end
                          end
                 end) kids self1
          end
      end
  end.

(* FieldMask.UnmarshalJSON on a new(FieldMask), from the decoded tree *)
Definition of_json (j : jtree) : res mask :=
  if jpath_eqb (jt_path j) root_path then transfer j zero_mask else Err EMalformed.

(* ------------------------------------------------------------------ what the JSON form can carry *)

(* a key the JSON form can carry below a node of type t: of the node's own store, within the
   range json.Unmarshal accepts, and not the string "*" (printed like the any-star) *)
Definition key_ok (t : ft) (k : key) : bool :=
  store_of t k &&
  match k with
  | KF z => (min_int32 <=? z)%Z && (z <=? max_int32)%Z
  | KI z => (min_int <=? z)%Z && (z <=? max_int)%Z
  | KS s => negb (beqb s [x2a])
  | KAll => false
  end.

(* canonical masks: every node is set; a node with isAll has no child or only the star child;
   a node without has at least one child, all under distinct carriable keys of its own store *)
Fixpoint canon (m : mask) : bool :=
  match m with
  | Node t a b ks =>
      negb (ft_eqb t FtInvalid) &&
      (fix go (l : list (key * mask)) : bool := match l with [] => true | (_, c) :: r => canon c && go r end) ks &&
      (if a then match ks with [] => true | [(KAll, _)] => true | _ => false end
       else match ks with [] => false | _ => true end && nodupb key_eqb (map fst ks) && forallb (fun kc => key_ok t (fst kc)) ks)
  end.

(* the keys of a typed path can be carried below nodes of these types *)
Definition seg_json_ok (t : ft) (s : gseg) : bool :=
  match s with
  | GFld i _ => key_ok t (KF i)
  | GInts ids _ => forallb (fun i => key_ok t (KI i)) ids
  | GStrs ss _ => forallb (fun x => key_ok t (KS x)) ss
  | GStar _ | GStarF _ => true
  end.
Definition seg_ft (s : gseg) : ft := match s with GFld _ t | GInts _ t | GStrs _ t | GStar t | GStarF t => t end.

Fixpoint json_ok (t : ft) (g : gpath) : bool :=
  match g with
  | [] => true
  | s :: r => seg_json_ok t s && json_ok (seg_ft s) r
  end.
