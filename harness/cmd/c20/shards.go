package main

import (
	"bufio"
	"encoding/json"
	"fmt"
	"os"
	"path/filepath"
	"strings"

	"verif/harness/coqfmt"
)

// shardWriter writes cases_NNN.v / cases_NNN.jsonl like harness/casefile, but in the
// compact encoding of Corr/C20.v: every string of a shard is written once into a
// pool and the cases refer to pool positions (coqc spends most of its time
// elaborating string literals otherwise).
type shardWriter struct {
	dir      string
	imports  string
	perShard int
	shard    int
	total    int
	terms    []string
	descs    [][]byte
	pool     map[string]int
	poolList []string
	Shards   []string
}

func newShardWriter(dir, imports string, perShard int) *shardWriter {
	return &shardWriter{dir: dir, imports: imports, perShard: perShard, pool: map[string]int{}}
}

func (w *shardWriter) intern(s string) int {
	if i, ok := w.pool[s]; ok {
		return i
	}
	i := len(w.poolList)
	w.pool[s] = i
	w.poolList = append(w.poolList, s)
	return i
}

// Add appends one case; build receives the interning function of the current shard.
func (w *shardWriter) Add(build func(intern func(string) int) string, desc interface{}) error {
	b, err := json.Marshal(desc)
	if err != nil {
		return err
	}
	w.terms = append(w.terms, build(w.intern))
	w.descs = append(w.descs, b)
	w.total++
	if len(w.terms) >= w.perShard {
		return w.flush()
	}
	return nil
}

func (w *shardWriter) flush() error {
	if len(w.terms) == 0 {
		return nil
	}
	name := fmt.Sprintf("cases_%03d", w.shard)
	vf, err := os.Create(filepath.Join(w.dir, name+".v"))
	if err != nil {
		return err
	}
	v := bufio.NewWriterSize(vf, 1<<20)
	fmt.Fprintf(v, "%s\nFrom Coq Require Import List NArith String.\nImport ListNotations.\nOpen Scope string_scope.\nDefinition pool : list bytes := [\n", w.imports)
	for i, s := range w.poolList {
		sep := ";"
		if i == len(w.poolList)-1 {
			sep = ""
		}
		fmt.Fprintf(v, " %s%s\n", coqfmt.Bytes(s), sep)
	}
	v.WriteString("].\nClose Scope string_scope.\nOpen Scope N_scope.\nDefinition cases : list rcase := [\n ")
	v.WriteString(strings.Join(w.terms, ";\n "))
	v.WriteString("\n].\nClose Scope N_scope.\nSet Printing Depth 10000000.\nSet Printing Width 2000.\nDefinition R := Eval vm_compute in (mismatches_pool pool cases).\nPrint R.\n")
	if err := v.Flush(); err != nil {
		return err
	}
	vf.Close()
	jf, err := os.Create(filepath.Join(w.dir, name+".jsonl"))
	if err != nil {
		return err
	}
	j := bufio.NewWriterSize(jf, 1<<20)
	for _, d := range w.descs {
		j.Write(d)
		j.WriteByte('\n')
	}
	if err := j.Flush(); err != nil {
		return err
	}
	jf.Close()
	w.Shards = append(w.Shards, name)
	w.shard++
	w.terms, w.descs = nil, nil
	w.pool, w.poolList = map[string]int{}, nil
	return nil
}

func (w *shardWriter) Total() int   { return w.total }
func (w *shardWriter) Close() error { return w.flush() }
