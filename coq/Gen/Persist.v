(* Gen/Persist.v — model of generator/generator.go: asyncPostProcess.OnFinished (the concurrent
   part of Generator.Persist) as a labelled transition system, plus the sequential prologue of
   Persist.  No proofs here (Gen/PersistFacts.v).

   Go code modelled (line comments name the label of the step that executes the statement):

     errs := make(chan error, len(p.jobs)); processing := make(chan struct{}, p.concurrency)
     for _, j := range p.jobs {                       -- dispatch i      (loop head, i < n)
       select {
       case processing <- struct{}{}:                 -- acquire i       (enabled iff tokens < cap)
       case err := <-errs: wg.Wait(); return err      -- recv-err i      (enabled iff errs non-empty),
       }                                                 then return     (enabled iff wg = 0)
       wg.Add(1); go func(path, content){...}(j.Path, j.Content)   -- spawn i
     }
     wg.Wait()                                        -- final-wait      (enabled iff wg = 0)
     select { case err := <-errs: return err; default: return nil }   -- return
   worker j:
     (goroutine starts)                               -- worker-start j
     content, err = p.pp.PostProcess(path, content)   -- pp-done j
     if err == nil { err = f(path, content) }         -- write-done j    (the write is one atomic event)
     if err != nil { errs <- err }                    -- err-send j      (enabled iff len errs < n)
     deferred: wg.Done()                              -- done j          (enabled iff wg > 0)
               <-processing                           -- release j       (enabled iff tokens > 0)

   Runtime assumptions encoded by the rules: a buffered channel is a bounded FIFO queue (send
   enabled iff not full, receive iff not empty); select chooses nondeterministically among its
   ready arms (both acquire and recv-err are steps of state Sel); a WaitGroup is a counter and
   Wait returns iff it is 0; a goroutine exists from the go statement on; the write callback and
   the post-processor are atomic events; steps of different goroutines interleave arbitrarily
   (sequentially consistent shared state, which the Go memory model guarantees for channel and
   WaitGroup operations). *)
From Coq Require Import List Arith Bool.
From Verif Require Import Base.Bytes.
Import ListNotations.

Definition job := (bytes * bytes)%type.          (* path, content *)

(* state of the worker goroutine of one job; p c are its arguments path and content *)
Inductive wst :=
| Idle                         (* not spawned (yet) *)
| Spawned (p c : bytes)        (* go statement executed *)
| Running (p c : bytes)        (* goroutine started, before PostProcess *)
| PPdone (p c : bytes)         (* PostProcess returned nil error; c is the new content *)
| Failed                       (* err != nil after PostProcess or after the write callback *)
| Written                      (* write callback returned nil *)
| Reported                     (* errs <- err executed *)
| DoneW (ok : bool)            (* wg.Done() executed; ok = no error *)
| Released (ok : bool).        (* <-processing executed, goroutine finished *)

(* state of the goroutine that called OnFinished *)
Inductive dst :=
| Loop (i : nat)               (* at the head of iteration i, or behind the loop when i = n *)
| Sel (i : nat)                (* at the select of iteration i *)
| Spawn (i : nat)              (* token acquired, before wg.Add(1); go *)
| ErrWait (e : nat)            (* received the error of job e in the loop, at wg.Wait() *)
| FinalSel                     (* final wg.Wait() returned, at the non-blocking select *)
| Ret (r : option nat).        (* returned: None = nil, Some e = the error of job e *)

Record st := mk {
  d : dst;
  ws : list wst;
  errs : list nat;              (* channel errs: job index of the failing worker, FIFO *)
  tokens : nat;                 (* len(processing) *)
  wg : nat;                     (* WaitGroup counter *)
  disk : list (bytes * bytes)   (* log of completed write callbacks (path, content), in order *)
}.

Inductive ev :=
| EDispatch (i : nat) | EAcquire (i : nat) | ERecvErr (i : nat) | ESpawn (i : nat)
| EFinalWait | EReturn
| EStart (j : nat) | EPP (j : nat) | EWrite (j : nat) | EErrSend (j : nat) | EDone (j : nat) | ERelease (j : nat).

Fixpoint set {A} (l : list A) (i : nat) (x : A) : list A :=
  match l, i with
  | [], _ => []
  | _ :: r, O => x :: r
  | y :: r, S j => y :: set r j x
  end.

Section Sys.
  Variable jobs : list job.
  Variable k : nat.                                  (* p.concurrency *)
  Variable pp : bytes -> bytes -> bytes.             (* the post-processor (identity when p.pp == nil) *)
  Variable fail_pp fail_w : nat -> bool.             (* fault oracle: which jobs fail in which stage *)

  Definition n := List.length jobs.
  Definition cap := if k =? 0 then 1 else k.         (* if p.concurrency <= 0 { p.concurrency = 1 } *)

  Definition init : st := mk (Loop 0) (repeat Idle n) [] 0 0 [].

  Definition getw (s : st) (j : nat) : wst := nth j (ws s) Idle.
  Definition with_d (s : st) (x : dst) : st := mk x (ws s) (errs s) (tokens s) (wg s) (disk s).
  Definition with_w (s : st) (j : nat) (w : wst) : st :=
    mk (d s) (set (ws s) j w) (errs s) (tokens s) (wg s) (disk s).

  (* the step function: [fire s l] is the state after the step labelled l, None when l is not enabled *)
  Definition fire (s : st) (l : ev) : option st :=
    match l with
    | EDispatch i =>
        match d s with
        | Loop i' => if (i' =? i) && (i <? n) then Some (with_d s (Sel i)) else None
        | _ => None
        end
    | EAcquire i =>
        match d s with
        | Sel i' => if (i' =? i) && (tokens s <? cap)
                    then Some (mk (Spawn i) (ws s) (errs s) (S (tokens s)) (wg s) (disk s)) else None
        | _ => None
        end
    | ERecvErr i =>
        match d s, errs s with
        | Sel i', e :: r => if i' =? i then Some (mk (ErrWait e) (ws s) r (tokens s) (wg s) (disk s)) else None
        | _, _ => None
        end
    | ESpawn i =>
        match d s with
        | Spawn i' =>
            if i' =? i then
              match nth_error jobs i with
              | Some (p, c) => Some (mk (Loop (S i)) (set (ws s) i (Spawned p c)) (errs s) (tokens s) (S (wg s)) (disk s))
              | None => None
              end
            else None
        | _ => None
        end
    | EFinalWait =>
        match d s with
        | Loop i => if (n <=? i) && (wg s =? 0) then Some (with_d s FinalSel) else None
        | _ => None
        end
    | EReturn =>
        match d s with
        | ErrWait e => if wg s =? 0 then Some (with_d s (Ret (Some e))) else None
        | FinalSel =>
            match errs s with
            | e :: r => Some (mk (Ret (Some e)) (ws s) r (tokens s) (wg s) (disk s))
            | [] => Some (with_d s (Ret None))
            end
        | _ => None
        end
    | EStart j =>
        match getw s j with
        | Spawned p c => Some (with_w s j (Running p c))
        | _ => None
        end
    | EPP j =>
        match getw s j with
        | Running p c => Some (with_w s j (if fail_pp j then Failed else PPdone p (pp p c)))
        | _ => None
        end
    | EWrite j =>
        match getw s j with
        | PPdone p c =>
            if fail_w j then Some (with_w s j Failed)
            else Some (mk (d s) (set (ws s) j Written) (errs s) (tokens s) (wg s) (disk s ++ [(p, c)]))
        | _ => None
        end
    | EErrSend j =>
        match getw s j with
        | Failed => if List.length (errs s) <? n
                    then Some (mk (d s) (set (ws s) j Reported) (errs s ++ [j]) (tokens s) (wg s) (disk s))
                    else None
        | _ => None
        end
    | EDone j =>
        match getw s j with
        | Written => if 0 <? wg s then Some (mk (d s) (set (ws s) j (DoneW true)) (errs s) (tokens s) (pred (wg s)) (disk s)) else None
        | Reported => if 0 <? wg s then Some (mk (d s) (set (ws s) j (DoneW false)) (errs s) (tokens s) (pred (wg s)) (disk s)) else None
        | _ => None
        end
    | ERelease j =>
        match getw s j with
        | DoneW ok => if 0 <? tokens s
                      then Some (mk (d s) (set (ws s) j (Released ok)) (errs s) (pred (tokens s)) (wg s) (disk s))
                      else None
        | _ => None
        end
    end.

  (* the transition relation and reachability *)
  Definition step (s : st) (l : ev) (s' : st) : Prop := fire s l = Some s'.

  Inductive path : st -> list ev -> st -> Prop :=
  | path_nil : forall s, path s [] s
  | path_cons : forall s l s1 tr s', step s l s1 -> path s1 tr s' -> path s (l :: tr) s'.

  Definition reachable (s : st) : Prop := exists tr, path init tr s.

  (* executable successor function: the labels that can possibly be enabled in s, filtered by fire *)
  Definition dlabels (s : st) : list ev :=
    match d s with
    | Loop i => [EDispatch i; EFinalWait]
    | Sel i => [EAcquire i; ERecvErr i]
    | Spawn i => [ESpawn i]
    | ErrWait _ | FinalSel => [EReturn]
    | Ret _ => []
    end.
  Definition wlabels (j : nat) : list ev := [EStart j; EPP j; EWrite j; EErrSend j; EDone j; ERelease j].
  Definition labels (s : st) : list ev := dlabels s ++ flat_map wlabels (seq 0 (List.length (ws s))).
  Definition succs (s : st) : list (ev * st) :=
    flat_map (fun l => match fire s l with Some s' => [(l, s')] | None => [] end) (labels s).

  (* replay of an observed trace *)
  Fixpoint run_trace (s : st) (tr : list ev) : option st :=
    match tr with
    | [] => Some s
    | l :: r => match fire s l with Some s' => run_trace s' r | None => None end
    end.
  Definition accepts_trace (tr : list ev) : bool :=
    match run_trace init tr with Some _ => true | None => false end.

  (* observations *)
  Definition is_ret (s : st) : bool := match d s with Ret _ => true | _ => false end.
  Definition out (jb : job) : bytes * bytes := (fst jb, pp (fst jb) (snd jb)).
  Definition failing (j : nat) : bool := fail_pp j || fail_w j.

  Definition in_flight (w : wst) : bool :=
    match w with Spawned _ _ | Running _ _ | PPdone _ _ | Failed | Written | Reported => true | _ => false end.
  Definition holds_token (w : wst) : bool :=
    match w with Idle | Released _ => false | _ => true end.
  Definition write_pending (w : wst) : bool :=      (* the write callback may still run / is running *)
    match w with Spawned _ _ | Running _ _ | PPdone _ _ => true | _ => false end.
  Definition has_failed (w : wst) : bool :=
    match w with Failed | Reported | DoneW false | Released false => true | _ => false end.
  Definition reported (w : wst) : bool :=
    match w with Reported | DoneW false | Released false => true | _ => false end.
  Definition written (w : wst) : bool :=
    match w with Written | DoneW true | Released true => true | _ => false end.
  Definition finished_ok (w : wst) : bool :=
    match w with DoneW true | Released true => true | _ => false end.

  Definition count (p : wst -> bool) (l : list wst) : nat := List.length (filter p l).

  (* the outputs of the jobs whose worker has completed the write, in job order *)
  Fixpoint outs_of (l : list wst) (js : list job) : list (bytes * bytes) :=
    match l, js with
    | w :: l', jb :: js' => (if written w then [out jb] else []) ++ outs_of l' js'
    | _, _ => []
    end.

  (* termination measure: remaining steps of the caller plus of every worker *)
  Definition wmeasure (w : wst) : nat :=
    match w with
    | Idle => 7 | Spawned _ _ => 6 | Running _ _ => 5 | PPdone _ _ => 4 | Failed => 3
    | Written => 2 | Reported => 2 | DoneW _ => 1 | Released _ => 0
    end.
  Definition dmeasure (x : dst) : nat :=
    match x with
    | Loop i => 3 * (n - i) + 3
    | Sel i => 3 * (n - i) + 2
    | Spawn i => 3 * (n - i) + 1
    | ErrWait _ => 1
    | FinalSel => 2
    | Ret _ => 0
    end.
  Definition measure (s : st) : nat := dmeasure (d s) + list_sum (map wmeasure (ws s)).
End Sys.

(* ---- the sequential prologue of Generator.Persist ----------------------------------------
   if res.Error != "" -> error; for each item: empty name -> error (nothing has been written,
   OnFinished is not called); otherwise the job list is the list of (name, content) in order.
   (Path resolution against a global working directory is outside the model: the harness uses
   absolute names.) *)
Definition persist_jobs (res_err : bool) (items : list job) : option (list job) :=
  if res_err then None
  else if existsb (fun it => match fst it with [] => true | _ => false end) items then None
  else Some items.
