(* Wire/MaskedPathSet.v — end-to-end statements of property C13 for masks built from path lists:
   C14's build_sound (Mask/C14Facts.v) discharges the premise "the mask answers as the path set
   does" of the _pathset theorems of Wire/MaskedFacts.v for every path list in C14's domain
   (grammatical, typed against the descriptor of the root struct, conflict free; black lists
   without a trailing star).  The descriptor is the one the library sees for the schema
   (Wire.Masked.senv_of / dty_of). *)
From Coq Require Import List ZArith Bool Lia.
From Verif Require Import Base.Bytes Base.BE Wire.TType Wire.WVal Wire.Codec Wire.CodecFacts
  Wire.Schema Wire.Value Wire.Std Wire.StdFacts Wire.Masked Wire.MaskedFacts.
From Verif Require Mask.Path Mask.Desc Mask.Trie Mask.Spec Mask.C14Facts.
Import ListNotations.
Open Scope Z_scope.

(* the path lists of C14's domain, for the root struct s of schema e *)
Definition in_mask_domain (e : env) (s : sschema) (black : bool) (strs : list bytes)
           (ps : list (list Mask.Spec.pseg)) (gs : list Mask.Spec.gpath) : Prop :=
  map Mask.Path.tokenize strs = map Mask.Spec.tokens_of ps /\
  Mask.Spec.well_typed (senv_of e) (dty_of e (TRef (s_name s))) ps = true /\
  Mask.Spec.elab_all (senv_of e) (dty_of e (TRef (s_name s))) ps = Some gs /\
  Mask.Spec.in_domain black gs = true.

(* NewFieldMask succeeds on the domain and the mask answers as the path set does *)
Lemma mask_for_domain e s black strs ps gs :
  in_mask_domain e s black strs ps gs ->
  exists m, mask_for e s black strs = Mask.Trie.Ok m /\
            forall q, Mask.Trie.walk (Some m) q = Mask.Spec.spec_pass black (Mask.Spec.path_set gs) q.
Proof.
  intros (Htok & Hwt & He & Hdom).
  assert (Hnc : Mask.Spec.no_conflict gs = true).
  { unfold Mask.Spec.in_domain in Hdom. apply andb_true_iff in Hdom. tauto. }
  unfold mask_for.
  pose proof (Mask.C14Facts.build_total_on_D _ _ black strs ps gs Htok Hwt He Hnc) as Hb.
  eexists. split; [exact Hb|].
  apply (Mask.C14Facts.build_sound _ _ black strs ps gs _ Htok Hwt He Hdom Hb).
Qed.

Theorem restrict_built_pathset e s black strs ps gs rq t v :
  in_mask_domain e s black strs ps gs ->
  exists m, mask_for e s black strs = Mask.Trie.Ok m /\
            restrict_mask rq e (Some m) t v = restrict_ps black rq e (Mask.Spec.path_set gs) t v.
Proof.
  intro Hd. destruct (mask_for_domain _ _ _ _ _ _ Hd) as (m & Hm & Hag).
  exists m. split; [exact Hm|]. apply restrict_mask_pathset. exact Hag.
Qed.

(* Write under the mask built from an in-domain path list: the bytes decode (plain peer, fresh
   object, any trailing bytes) to the restriction of the value to the path SET *)
Theorem masked_write_end_to_end cfg e s black strs ps gs v :
  pinned cfg = false -> wf_env e = true -> find_struct e (s_name s) = Some s -> wt e s v = true ->
  (zero_required cfg = true -> zero_okb e = true) ->
  in_mask_domain e s black strs ps gs ->
  exists m bs, mask_for e s black strs = Mask.Trie.Ok m /\
    write_bytes_masked cfg (Some m) e s v = Ok bs /\
    forall rest, read_bytes e s (new_struct e s) (bs ++ rest)
                 = Ok (restrict_ps black (wmode cfg) e (Mask.Spec.path_set gs) (TRef (s_name s)) v).
Proof.
  intros Hp Henv Hs Hwt Hz Hd. destruct (mask_for_domain _ _ _ _ _ _ Hd) as (m & Hm & Hag).
  destruct (masked_write_bytes cfg (Some m) e s v Hp Henv Hs Hwt Hz) as (bs & Hw & Hr).
  exists m, bs. split; [exact Hm|]. split; [exact Hw|]. intro rest. rewrite Hr. f_equal.
  apply restrict_mask_pathset. exact Hag.
Qed.

(* plain Write, Read under the mask built from an in-domain path list *)
Theorem masked_read_end_to_end cfg e s black strs ps gs v :
  wf_env e = true -> find_struct e (s_name s) = Some s -> wt e s v = true ->
  in_mask_domain e s black strs ps gs ->
  exists m bs, mask_for e s black strs = Mask.Trie.Ok m /\
    write_bytes e s v = Ok bs /\
    forall rest, read_bytes_masked cfg (Some m) e s (new_struct e s) (bs ++ rest)
                 = Ok (restrict_ps black RqDrop e (Mask.Spec.path_set gs) (TRef (s_name s)) v).
Proof.
  intros Henv Hs Hwt Hd. destruct (mask_for_domain _ _ _ _ _ _ Hd) as (m & Hm & Hag).
  destruct (masked_read_pathset cfg black (Mask.Spec.path_set gs) (Some m) e s v Henv Hs Hwt Hag) as (wfs & Hw & Hr).
  exists m, (enc (WStruct wfs)). split; [exact Hm|]. unfold write_bytes. rewrite Hw. cbn [bind]. split; [reflexivity|].
  intro rest. unfold read_bytes_masked.
  destruct (wt_is_struct _ _ _ Hwt) as (fs & ->).
  destruct (to_w_wf e Henv (VStruct fs) _ _ _ (wt_wt_val _ _ _ Hwt) Hw) as [Hwf _].
  rewrite dec_struct_enc by exact Hwf. exact Hr.
Qed.
