package idlmut

import "strings"

// TextEdit is a change of the rendered text of one file that makes it ungrammatical
// for certain (unbalanced brackets, a non-keyword where the grammar wants a keyword,
// an unterminated literal, a field without a name): never a mere separator deletion.
type TextEdit struct {
	Site string
	What string
	Text string
}

type tok struct {
	pos, end int
	depth    int  // brace depth before the token
	word     bool // identifier-like
}

// scan lists the tokens of the text that lie outside literals and comments, following
// the lexical rules of parser/thrift.peg (a backslash escapes only a quote character).
func scan(s string) []tok {
	var out []tok
	depth := 0
	i := 0
	isWord := func(c byte) bool {
		return c == '_' || c == '.' || (c >= 'a' && c <= 'z') || (c >= 'A' && c <= 'Z') || (c >= '0' && c <= '9')
	}
	for i < len(s) {
		c := s[i]
		switch {
		case c == ' ' || c == '\t' || c == '\n' || c == '\r' || c == '\v':
			i++
		case c == '#' || (c == '/' && i+1 < len(s) && s[i+1] == '/'):
			for i < len(s) && s[i] != '\n' {
				i++
			}
		case c == '/' && i+1 < len(s) && s[i+1] == '*':
			j := strings.Index(s[i+2:], "*/")
			if j < 0 {
				i = len(s)
			} else {
				i += 2 + j + 2
			}
		case c == '"' || c == '\'':
			j := i + 1
			for j < len(s) {
				if s[j] == '\\' && j+1 < len(s) && (s[j+1] == '"' || s[j+1] == '\'') {
					j += 2
					continue
				}
				if s[j] == c {
					break
				}
				j++
			}
			i = j + 1
		case isWord(c):
			j := i
			for j < len(s) && isWord(s[j]) {
				j++
			}
			out = append(out, tok{pos: i, end: j, depth: depth, word: true})
			i = j
		default:
			out = append(out, tok{pos: i, end: i + 1, depth: depth})
			if c == '{' {
				depth++
			} else if c == '}' {
				depth--
			}
			i++
		}
	}
	return out
}

// TextEdits lists the syntax-breaking edits of a rendered file.
func TextEdits(text string) []TextEdit {
	var out []TextEdit
	toks := scan(text)
	firstOpen, lastClose, firstTopClose := -1, -1, -1
	for _, t := range toks {
		if t.word {
			continue
		}
		switch text[t.pos] {
		case '{':
			if firstOpen < 0 {
				firstOpen = t.pos
			}
		case '}':
			lastClose = t.pos
			if firstTopClose < 0 && t.depth == 1 {
				firstTopClose = t.pos
			}
		}
	}
	if lastClose >= 0 {
		out = append(out, TextEdit{"missing-close-brace", "the last } of the file deleted", text[:lastClose] + text[lastClose+1:]})
	}
	if firstOpen >= 0 {
		out = append(out, TextEdit{"missing-open-brace", "the first { of the file deleted", text[:firstOpen] + text[firstOpen+1:]})
	}
	if firstTopClose >= 0 {
		p := firstTopClose + 1
		out = append(out, TextEdit{"stray-paren", "a stray ) after the first definition with a body", text[:p] + "\n)\n" + text[p:]})
	} else {
		out = append(out, TextEdit{"stray-paren", "a stray ) at the end of the file", text + "\n)\n"})
	}
	for _, kw := range []string{"struct", "enum", "service"} {
		for _, t := range toks {
			if t.word && t.depth == 0 && text[t.pos:t.end] == kw {
				out = append(out, TextEdit{"bad-keyword", "the keyword " + kw + " misspelt strukt", text[:t.pos] + "strukt" + text[t.end:]})
				break
			}
		}
	}
	out = append(out, TextEdit{"unterminated-literal", "an unterminated string literal at the end of the file", text + "\nconst string mut_s = \"abc\n"})
	out = append(out, TextEdit{"field-without-name", "a struct field without a name at the end of the file", text + "\nstruct MutSyn {\n  1: i32 ;\n}\n"})
	out = append(out, TextEdit{"typedef-without-name", "a typedef without an alias at the end of the file", text + "\ntypedef i32\n"})
	return out
}
