(* Wire/Codec.v — the Thrift binary protocol (non-strict struct encoding used by
   TBinaryProtocol for struct bodies) over generic wire values.

     enc  : wval -> bytes
     dec  : fuel -> ttype -> bytes -> option (wval * rest)      None = malformed / truncated / out of fuel
     skip : fuel -> ttype -> bytes -> option rest               what thrift.Skip consumes on well-formed data
     dec_struct bs = dec (length bs) T_STRUCT bs                enough fuel for any input (see CodecFacts.dec_fuel_enough)

   This file models github.com/apache/thrift v0.13.0 lib/go/thrift TBinaryProtocol over a
   TMemoryBuffer (trusted, not verified): big-endian fixed-width integers, bool = (byte = 1),
   strings / binaries as i32 length + bytes (negative length is an error), containers as
   element type byte(s) + i32 count (negative count is an error), struct = fields
   (type byte, i16 id, value) terminated by a 0 byte. *)
From Coq Require Import List ZArith NArith Lia Bool.
From Coq.Strings Require Import Byte.
From Verif Require Import Base.Bytes Base.BE Wire.TType Wire.WVal.
Import ListNotations.
Open Scope Z_scope.

Fixpoint enc (v : wval) : bytes :=
  match v with
  | WBool b => [if b then x01 else x00]
  | WByte z => put_be 1 z
  | WDouble z => put_be 8 z
  | WI16 z => put_be 2 z
  | WI32 z => put_be 4 z
  | WI64 z => put_be 8 z
  | WStr s => put_be 4 (Z.of_nat (length s)) ++ s
  | WStruct fs =>
      (fix go (l : list (ttype * Z * wval)) : bytes :=
         match l with
         | [] => [x00]
         | (t, id, x) :: r => put_be 1 (code t) ++ put_be 2 id ++ enc x ++ go r
         end) fs
  | WMap kt vt kvs =>
      put_be 1 (code kt) ++ put_be 1 (code vt) ++ put_be 4 (Z.of_nat (length kvs)) ++
      (fix go (l : list (wval * wval)) : bytes :=
         match l with [] => [] | (k, x) :: r => enc k ++ enc x ++ go r end) kvs
  | WSet et l | WList et l =>
      put_be 1 (code et) ++ put_be 4 (Z.of_nat (length l)) ++
      (fix go (l : list wval) : bytes :=
         match l with [] => [] | x :: r => enc x ++ go r end) l
  end.

(* one field header + value, as the generated WriteFieldBegin / value / WriteFieldEnd emit it *)
Definition enc_field (f : wfield) : bytes :=
  let '(t, id, x) := f in put_be 1 (code t) ++ put_be 2 id ++ enc x.

Section Comb.
  Context {A : Type}.
  Variable p : bytes -> option (A * bytes).
  Fixpoint rep (n : nat) (bs : bytes) : option (list A * bytes) :=
    match n with
    | O => Some ([], bs)
    | S m => match p bs with
             | None => None
             | Some (x, r) => match rep m r with
                              | None => None
                              | Some (xs, r') => Some (x :: xs, r') end end
    end.
End Comb.

Definition pairp {A B} (p : bytes -> option (A*bytes)) (q : bytes -> option (B*bytes))
  (bs : bytes) : option ((A*B) * bytes) :=
  match p bs with None => None | Some (a, r) =>
    match q r with None => None | Some (b, r') => Some ((a,b), r') end end.

Section Fields.
  Variable d : ttype -> bytes -> option (wval * bytes).
  Fixpoint fields (n : nat) (bs : bytes) : option (list (ttype*Z*wval) * bytes) :=
    match n with
    | O => None
    | S m =>
      match get_be 1 bs with
      | Some (c, r) =>
        if c =? 0 then Some ([], r) else
        match of_code c with
        | Some ft => match get_s 2 r with
           | Some (id, r1) => match d ft r1 with
                | Some (x, r2) => match fields m r2 with
                      | Some (fs, r3) => Some ((ft,id,x)::fs, r3) | None => None end
                | None => None end
           | None => None end
        | None => None end
      | None => None end
    end.
End Fields.

(* container count: i32, negative is "invalid data length" *)
Definition get_count (bs : bytes) : option (nat * bytes) :=
  match get_s 4 bs with
  | Some (n, r) => if n <? 0 then None else Some (Z.to_nat n, r)
  | None => None
  end.

Fixpoint dec (fuel : nat) (t : ttype) (bs : bytes) {struct fuel} : option (wval * bytes) :=
  match fuel with
  | O => None
  | S f =>
    match t with
    | T_BOOL => match bs with b :: r => Some (WBool (Byte.eqb b x01), r) | [] => None end
    | T_BYTE => match get_s 1 bs with Some (z, r) => Some (WByte z, r) | None => None end
    | T_DOUBLE => match get_be 8 bs with Some (z, r) => Some (WDouble z, r) | None => None end
    | T_I16 => match get_s 2 bs with Some (z, r) => Some (WI16 z, r) | None => None end
    | T_I32 => match get_s 4 bs with Some (z, r) => Some (WI32 z, r) | None => None end
    | T_I64 => match get_s 8 bs with Some (z, r) => Some (WI64 z, r) | None => None end
    | T_STRING =>
        match get_count bs with
        | Some (n, r) => if (length r <? n)%nat then None
                         else Some (WStr (firstn n r), skipn n r)
        | None => None end
    | T_LIST =>
        match get_be 1 bs with
        | Some (c, r) => match of_code c with
          | Some et => match get_count r with
             | Some (n, r1) => match rep (dec f et) n r1 with
                  | Some (xs, r2) => Some (WList et xs, r2) | None => None end
             | None => None end
          | None => None end
        | None => None end
    | T_SET =>
        match get_be 1 bs with
        | Some (c, r) => match of_code c with
          | Some et => match get_count r with
             | Some (n, r1) => match rep (dec f et) n r1 with
                  | Some (xs, r2) => Some (WSet et xs, r2) | None => None end
             | None => None end
          | None => None end
        | None => None end
    | T_MAP =>
        match get_be 1 bs with
        | Some (c, r) => match of_code c with
          | Some kt => match get_be 1 r with
            | Some (c2, r0) => match of_code c2 with
              | Some vt => match get_count r0 with
                 | Some (n, r1) => match rep (pairp (dec f kt) (dec f vt)) n r1 with
                      | Some (xs, r2) => Some (WMap kt vt xs, r2) | None => None end
                 | None => None end
              | None => None end
            | None => None end
          | None => None end
        | None => None end
    | T_STRUCT =>
        match fields (dec f) (S (length bs)) bs with
        | Some (fs, r) => Some (WStruct fs, r) | None => None end
    end
  end.

Definition skip (fuel : nat) (t : ttype) (bs : bytes) : option bytes :=
  match dec fuel t bs with Some (_, r) => Some r | None => None end.

(* every value nested in [bs] has depth <= length bs, so this fuel always suffices *)
Definition dec_struct (bs : bytes) : option (wval * bytes) := dec (S (length bs)) T_STRUCT bs.
