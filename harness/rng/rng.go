// Package rng is the single source of randomness of the harness: splitmix64.
package rng

type R struct{ s uint64 }

func New(seed uint64) *R { return &R{s: seed} }

func (r *R) U64() uint64 {
	r.s += 0x9e3779b97f4a7c15
	z := r.s
	z = (z ^ (z >> 30)) * 0xbf58476d1ce4e5b9
	z = (z ^ (z >> 27)) * 0x94d049bb133111eb
	return z ^ (z >> 31)
}

// Intn returns a value in [0,n).
func (r *R) Intn(n int) int {
	if n <= 0 {
		return 0
	}
	return int(r.U64() % uint64(n))
}

// Range returns a value in [lo,hi].
func (r *R) Range(lo, hi int) int { return lo + r.Intn(hi-lo+1) }

func (r *R) Bool() bool { return r.U64()&1 == 1 }

// Chance is true with probability num/den.
func (r *R) Chance(num, den int) bool { return r.Intn(den) < num }

// Fork derives an independent generator (for per-case replay).
func (r *R) Fork() *R { return New(r.U64()) }

func Pick[T any](r *R, xs []T) T { return xs[r.Intn(len(xs))] }
