(* Idl/ReflectFacts.v — proofs about the model of the reflection descriptors (Idl/Reflect.v).
   Parts: 1 helpers   2 wire round trip   3 descriptor_of states the IDL   4 lookups   5 Go types *)
From Coq Require Import List Bool NArith ZArith Lia Permutation.
From Coq.Strings Require Import Byte String.
From Verif Require Import Base.Bytes Base.BE Wire.TType Wire.WVal Wire.Codec Wire.CodecFacts Wire.Schema Wire.SchemaDescriptor
  Idl.Ast Idl.AstUtil Idl.AstFacts Idl.Reflect.
Import ListNotations.
Local Open Scope Z_scope.
Local Open Scope list_scope.

(* ================================================================ 1. helpers *)

Lemma existsb_beqb_In x l : existsb (beqb x) l = true <-> In x l.
Proof.
  rewrite existsb_exists. split.
  - intros [y [Hy He]]. apply beqb_true in He. subst. exact Hy.
  - intro H. exists x. split; [exact H|apply beqb_refl].
Qed.

Lemma nodupb_NoDup l : nodupb l = true <-> NoDup l.
Proof.
  induction l as [|x l IH]; cbn [nodupb].
  - split; [constructor|reflexivity].
  - rewrite andb_true_iff, negb_true_iff, IH. split.
    + intros [Hx Hl]. constructor; [|exact Hl]. intro Hin. apply existsb_beqb_In in Hin. congruence.
    + intro H. inversion H as [|? ? Hx Hl]; subst. split; [|exact Hl].
      destruct (existsb (beqb x) l) eqn:E; [|reflexivity]. apply existsb_beqb_In in E. contradiction.
Qed.

(* Go map assignment on an association list *)
Lemma update_notin {A} k (v : A) m : ~ In k (map fst m) -> update k v m = m ++ [(k, v)].
Proof.
  induction m as [|[k' v'] m IH]; cbn [update map fst In app]; intro H; [reflexivity|].
  destruct (beqb k k') eqn:E; [apply beqb_true in E; subst; exfalso; apply H; left; reflexivity|].
  rewrite IH by tauto. reflexivity.
Qed.

Lemma fold_update_app {A B} (key : A -> bytes) (val : A -> B) (l : list A) : forall acc,
  NoDup (map fst acc ++ map key l) ->
  fold_left (fun m x => update (key x) (val x) m) l acc = acc ++ map (fun x => (key x, val x)) l.
Proof.
  induction l as [|x l IH]; intros acc H; cbn [fold_left map]; [rewrite app_nil_r; reflexivity|].
  cbn [map] in H.
  assert (Hx : ~ In (key x) (map fst acc)).
  { intro Hin. apply NoDup_remove_2 in H. apply H. apply in_or_app. left. exact Hin. }
  rewrite update_notin by exact Hx. rewrite IH.
  - rewrite <- app_assoc. reflexivity.
  - rewrite map_app. cbn [map fst]. rewrite <- app_assoc. cbn [app].
    apply NoDup_remove_1 in H as H1. apply NoDup_remove_2 in H as H2.
    apply (Permutation_NoDup (l := key x :: map fst acc ++ map key l)).
    + apply Permutation_middle.
    + constructor; assumption.
Qed.

Lemma fold_update_map {A B} (key : A -> bytes) (val : A -> B) (l : list A) :
  NoDup (map key l) ->
  fold_left (fun m x => update (key x) (val x) m) l [] = map (fun x => (key x, val x)) l.
Proof. intro H. rewrite fold_update_app by exact H. reflexivity. Qed.

Lemma build_smap_id {A} (m : smap A) : smap_ok m = true -> build_smap m = m.
Proof.
  intro H. apply nodupb_NoDup in H. unfold build_smap.
  rewrite (fold_update_map fst snd m H). rewrite <- (map_id m) at 2. apply map_ext. intros [k v]. reflexivity.
Qed.

Lemma wfb_sound : forall v, wfb v = true -> wf v.
Proof.
  fix IH 1. intros [b|z|z|z|z|z|s|fs|kt vt kvs|et l|et l]; cbn [wfb wf]; intro H.
  - exact I.
  - apply in_srangeb_spec. exact H.
  - apply andb_true_iff in H as [H1 H2]. unfold in_range. change (256 ^ Z.of_nat 8) with 18446744073709551616. lia.
  - apply in_srangeb_spec. exact H.
  - apply in_srangeb_spec. exact H.
  - apply in_srangeb_spec. exact H.
  - apply in_srangeb_spec. exact H.
  - induction fs as [|[[t id] x] r IHr]; [exact I|].
    apply andb_true_iff in H as [H Hr]. apply andb_true_iff in H as [H Hx]. apply andb_true_iff in H as [Ht Hid].
    split; [|exact (IHr Hr)]. split; [apply ttype_eqb_eq; exact Ht|]. split; [apply in_srangeb_spec; exact Hid|apply IH; exact Hx].
  - apply andb_true_iff in H as [Hn H]. split; [apply in_srangeb_spec; exact Hn|]. clear Hn.
    induction kvs as [|[k x] r IHr]; [exact I|].
    apply andb_true_iff in H as [H Hr]. apply andb_true_iff in H as [H Hx]. apply andb_true_iff in H as [H Hk].
    apply andb_true_iff in H as [Hkt Hvt].
    split; [|exact (IHr Hr)]. repeat split; [apply ttype_eqb_eq; exact Hkt|apply ttype_eqb_eq; exact Hvt|apply IH; exact Hk|apply IH; exact Hx].
  - apply andb_true_iff in H as [Hn H]. split; [apply in_srangeb_spec; exact Hn|]. clear Hn.
    induction l as [|x r IHr]; [exact I|].
    apply andb_true_iff in H as [H Hr]. apply andb_true_iff in H as [Ht Hx].
    split; [|exact (IHr Hr)]. split; [apply ttype_eqb_eq; exact Ht|apply IH; exact Hx].
  - apply andb_true_iff in H as [Hn H]. split; [apply in_srangeb_spec; exact Hn|]. clear Hn.
    induction l as [|x r IHr]; [exact I|].
    apply andb_true_iff in H as [H Hr]. apply andb_true_iff in H as [Ht Hx].
    split; [|exact (IHr Hr)]. split; [apply ttype_eqb_eq; exact Ht|apply IH; exact Hx].
Qed.

(* induction principles for the two recursive descriptors *)
Lemma tdesc_ind' (P : tdesc -> Prop) :
  (forall p n k v ex, (forall x, k = Some x -> P x) -> (forall x, v = Some x -> P x) -> P (TDesc p n k v ex)) ->
  forall t, P t.
Proof.
  intro H. fix IH 1. intros [p n k v ex]. apply H.
  - destruct k as [y|]; intros x E; [injection E as <-; apply IH|discriminate].
  - destruct v as [y|]; intros x E; [injection E as <-; apply IH|discriminate].
Qed.

Lemma cvdesc_ind' (P : cvdesc -> Prop) :
  (forall ty dbl int str b l m id ex,
      (forall l', l = Some l' -> Forall P l') ->
      (forall m', m = Some m' -> Forall (fun kv => P (fst kv) /\ P (snd kv)) m') ->
      P (CVD ty dbl int str b l m id ex)) ->
  forall c, P c.
Proof.
  intro H. fix IH 1. intros [ty dbl int str b l m id ex]. apply H.
  - destruct l as [l0|]; intros l' E; [injection E as <-|discriminate].
    induction l0 as [|x r IHr]; constructor; [apply IH|exact IHr].
  - destruct m as [m0|]; intros m' E; [injection E as <-|discriminate].
    induction m0 as [|[k v] r IHr]; constructor; [split; apply IH|exact IHr].
Qed.

(* ================================================================ 2. wire round trip *)

(* ---- the schema of descriptor.thrift: what the hand-written decoders rely on ---- *)

(* field ids are pairwise distinct in every struct of the regenerated schema *)
Definition lay_ids (lay : list (ttype * Z * req)) : list Z := map (fun x => snd (fst x)) lay.
Definition all_layouts := [lay_type; lay_const; lay_cv; lay_typedef; lay_enum; lay_enumvalue; lay_field;
                           lay_struct; lay_method; lay_service; lay_file].
Lemma layouts_nodup : forallb (fun lay => nodupZ (lay_ids lay)) all_layouts = true.
Proof. vm_compute. reflexivity. Qed.

(* the requiredness the decoders assume (need = required, opt / dflt = optional), field by field *)
Definition lay_reqs (lay : list (ttype * Z * req)) : list req := map snd lay.
Lemma layouts_reqs :
  lay_reqs lay_type = [Required; Required; Optional; Optional; Optional] /\
  lay_reqs lay_const = [Required; Required; Required; Required; Required; Required; Optional] /\
  lay_reqs lay_cv = [Required; Required; Required; Required; Required; Optional; Optional; Required; Optional] /\
  lay_reqs lay_typedef = [Required; Required; Required; Required; Required; Optional] /\
  lay_reqs lay_enum = [Required; Required; Required; Required; Required; Optional] /\
  lay_reqs lay_enumvalue = [Required; Required; Required; Required; Required; Optional] /\
  lay_reqs lay_field = [Required; Required; Required; Required; Required; Optional; Required; Required; Optional] /\
  lay_reqs lay_struct = [Required; Required; Required; Required; Required; Optional] /\
  lay_reqs lay_method = [Required; Required; Optional; Required; Required; Required; Required; Required; Optional] /\
  lay_reqs lay_service = [Required; Required; Required; Required; Required; Optional; Optional] /\
  lay_reqs lay_file = [Required; Required; Required; Required; Required; Required; Required; Required; Required; Required; Optional].
Proof. vm_compute. repeat split. Qed.

(* the wire types the encoders assume *)
Definition lay_types (lay : list (ttype * Z * req)) : list ttype := map (fun x => fst (fst x)) lay.
Lemma layouts_types :
  lay_types lay_type = [T_STRING; T_STRING; T_STRUCT; T_STRUCT; T_MAP] /\
  lay_types lay_const = [T_STRING; T_STRING; T_STRUCT; T_STRUCT; T_MAP; T_STRING; T_MAP] /\
  lay_types lay_cv = [T_I32; T_DOUBLE; T_I64; T_STRING; T_BOOL; T_LIST; T_MAP; T_STRING; T_MAP] /\
  lay_types lay_typedef = [T_STRING; T_STRUCT; T_STRING; T_MAP; T_STRING; T_MAP] /\
  lay_types lay_enum = [T_STRING; T_STRING; T_LIST; T_MAP; T_STRING; T_MAP] /\
  lay_types lay_enumvalue = [T_STRING; T_STRING; T_I64; T_MAP; T_STRING; T_MAP] /\
  lay_types lay_field = [T_STRING; T_STRING; T_STRUCT; T_STRING; T_I32; T_STRUCT; T_MAP; T_STRING; T_MAP] /\
  lay_types lay_struct = [T_STRING; T_STRING; T_LIST; T_MAP; T_STRING; T_MAP] /\
  lay_types lay_method = [T_STRING; T_STRING; T_STRUCT; T_LIST; T_MAP; T_STRING; T_LIST; T_BOOL; T_MAP] /\
  lay_types lay_service = [T_STRING; T_STRING; T_LIST; T_MAP; T_STRING; T_MAP; T_STRING] /\
  lay_types lay_file = [T_STRING; T_MAP; T_MAP; T_LIST; T_LIST; T_LIST; T_LIST; T_LIST; T_LIST; T_LIST; T_MAP].
Proof. vm_compute. repeat split. Qed.

(* the ConstValueType numbers *)
Lemma cvt_numbers :
  omap e_values (Schema.find_enum schema_descriptor (B "descriptor.ConstValueType")) =
  Some [(B "DOUBLE", CVT_DOUBLE); (B "INT", CVT_INT); (B "STRING", CVT_STRING); (B "BOOL", CVT_BOOL);
        (B "LIST", CVT_LIST); (B "MAP", CVT_MAP); (B "IDENTIFIER", CVT_IDENTIFIER)].
Proof. vm_compute. reflexivity. Qed.

(* ---- the generic layer ---- *)

Lemma wfind_emit_notin {A} (d : wval -> option A) key lay : forall sl,
  ~ In (snd key) (lay_ids lay) -> wfind d key (emit lay sl) = None.
Proof.
  induction lay as [|[[t id] r] lay IH]; intros sl Hn; [destruct sl; reflexivity|].
  cbn [lay_ids map snd fst In] in Hn. destruct sl as [|[w z] sl]; cbn [emit]; [reflexivity|].
  destruct (req_eqb r Optional && z).
  - apply IH. unfold lay_ids. tauto.
  - cbn [wfind]. rewrite IH by (unfold lay_ids; tauto).
    destruct (Z.eqb_spec (snd key) id) as [E|E]; [exfalso; apply Hn; left; congruence|reflexivity].
Qed.

Lemma wfind_emit {A} (d : wval -> option A) : forall lay sl i t id r,
  NoDup (lay_ids lay) -> List.length sl = List.length lay -> nth_error lay i = Some (t, id, r) ->
  wfind d (t, id) (emit lay sl) =
  match nth_error sl i with
  | Some (w, z) => if req_eqb r Optional && z then None else Some (d w)
  | None => None
  end.
Proof.
  induction lay as [|[[t0 id0] r0] lay IH]; intros sl i t id r Hnd Hlen Hk; [destruct i; discriminate|].
  destruct sl as [|[w z] sl]; [discriminate|]. cbn [List.length] in Hlen. injection Hlen as Hlen.
  cbn [lay_ids map snd fst] in Hnd. inversion Hnd as [|? ? Hnotin Hnd']; subst.
  destruct i as [|i]; cbn [nth_error] in *.
  - injection Hk as -> -> ->. cbn [emit]. destruct (req_eqb r Optional && z).
    + apply wfind_emit_notin. exact Hnotin.
    + cbn [wfind]. rewrite wfind_emit_notin by exact Hnotin. cbn [fst snd].
      rewrite Z.eqb_refl, ttype_eqb_refl. reflexivity.
  - assert (Hne : id <> id0).
    { intro E. apply Hnotin. subst id0. apply (in_map (fun x : ttype * Z * req => snd (fst x)) lay (t, id, r)). eapply nth_error_In. exact Hk. }
    cbn [emit]. destruct (req_eqb r0 Optional && z); [apply IH; assumption|].
    cbn [wfind]. rewrite (IH sl i t id r Hnd' Hlen Hk). cbn [fst snd].
    destruct (nth_error sl i) as [[w' z']|]; [destruct (req_eqb r Optional && z')|]; try reflexivity;
      (destruct (Z.eqb_spec id id0); [contradiction|reflexivity]).
Qed.

Lemma nodupZ_NoDup l : nodupZ l = true -> NoDup l.
Proof.
  induction l as [|x l IH]; cbn [nodupZ]; intro H; constructor.
  - apply andb_true_iff in H as [H _]. intro Hin. apply negb_true_iff in H.
    assert (existsb (Z.eqb x) l = true) by (apply existsb_exists; exists x; split; [assumption|apply Z.eqb_refl]).
    congruence.
  - apply andb_true_iff in H as [_ H]. auto.
Qed.

Definition noslot : slot := (WBool false, true).

Lemma get_emit {A} (d : wval -> option A) lay sl i :
  nodupZ (lay_ids lay) = true -> List.length sl = List.length lay -> (i <? List.length lay)%nat = true ->
  get d lay i (emit lay sl) =
  (if req_eqb (snd (nth i lay nokey)) Optional && snd (nth i sl noslot) then None else Some (d (fst (nth i sl noslot)))).
Proof.
  intros Hnd Hlen Hi. apply Nat.ltb_lt in Hi. unfold get.
  destruct (nth_error lay i) as [[[t id] r]|] eqn:Ek; [|apply nth_error_None in Ek; lia].
  rewrite (nth_error_nth _ _ nokey Ek). cbn [fst snd].
  rewrite (wfind_emit d lay sl i t id r (nodupZ_NoDup _ Hnd) Hlen Ek).
  destruct (nth_error sl i) as [[w z]|] eqn:Es.
  - rewrite (nth_error_nth _ _ noslot Es). reflexivity.
  - apply nth_error_None in Es. lia.
Qed.

Lemma mapo_map {A} (d : wval -> option A) (e : A -> wval) l :
  Forall (fun x => d (e x) = Some x) l -> mapo d (map e l) = Some l.
Proof.
  induction 1 as [|x l Hx _ IH]; [reflexivity|]. cbn [map mapo]. rewrite Hx, IH. reflexivity.
Qed.

Lemma d_list_structs_in {A} (d : wval -> option A) (e : A -> wval) l :
  Forall (fun x => d (e x) = Some x) l -> d_list d (w_structs e l) = Some l.
Proof. intro H. unfold d_list, w_structs. apply mapo_map. exact H. Qed.

Lemma d_list_strs l : d_list d_str (w_strs l) = Some l.
Proof. unfold d_list, w_strs. apply mapo_map. apply Forall_forall. reflexivity. Qed.

Lemma d_pairs_map {A} (d : wval -> option A) (e : A -> wval) (m : smap A) :
  Forall (fun kv => d (e (snd kv)) = Some (snd kv)) m ->
  d_pairs d (map (fun kv => (WStr (fst kv), e (snd kv))) m) = Some m.
Proof.
  induction 1 as [|[k v] m Hx _ IH]; [reflexivity|]. cbn [map d_pairs fst snd d_str] in *. rewrite Hx, IH. reflexivity.
Qed.

Lemma d_smap_w_smap {A} (d : wval -> option A) (e : A -> wval) vt (m : smap A) :
  smap_ok m = true -> Forall (fun kv => d (e (snd kv)) = Some (snd kv)) m ->
  d_smap d (w_smap vt e m) = Some m.
Proof.
  intros Hok H. unfold d_smap, w_smap. rewrite (d_pairs_map d e m H). cbn [omap]. rewrite build_smap_id by exact Hok. reflexivity.
Qed.

Lemma d_strmap m : smap_ok m = true -> d_extra (w_smap T_STRING WStr m) = Some m.
Proof. intro H. apply d_smap_w_smap; [exact H|]. apply Forall_forall. reflexivity. Qed.

Lemma d_annos_rt a : smap_ok a = true -> d_annos (w_smap T_LIST w_strs a) = Some a.
Proof. intro H. apply d_smap_w_smap; [exact H|]. apply Forall_forall. intros x _. apply d_list_strs. Qed.

Ltac gets1 := match goal with |- context[@get ?A ?d ?l ?i (emit ?l ?sl)] => rewrite (get_emit d l sl i) by reflexivity end.
Ltac gets := repeat gets1;
  cbn [nth fst snd req_eqb andb nz s_annos s_strmap need opt dflt d_str d_bool d_i32 d_i64 d_dbl
       lay_type lay_const lay_cv lay_typedef lay_enum lay_enumvalue lay_field lay_struct lay_method lay_service lay_file].

(* the Extra slot: nil is not written and comes back as nil *)
Lemma extra_slot_rt ex :
  extra_ok ex = true ->
  opt (if snd (s_extra ex) then None else Some (d_extra (fst (s_extra ex)))) = Some ex.
Proof.
  destruct ex as [m|]; cbn [s_extra snd fst extra_ok]; intro H; [|reflexivity].
  rewrite d_strmap by exact H. reflexivity.
Qed.

(* ---- the eleven structs ---- *)

Lemma tdesc_rt : forall t, tdesc_ok t = true -> dec_tdesc (enc_tdesc t) = Some t.
Proof.
  induction t as [p n k v ex IHk IHv] using tdesc_ind'. cbn [tdesc_ok]. intro H.
  apply andb_true_iff in H as [H Hex]. apply andb_true_iff in H as [Hk Hv].
  cbn [enc_tdesc]. unfold wstruct. cbn [dec_tdesc]. gets.
  assert (Ek : opt (if snd (match k with Some x => (enc_tdesc x, false) | None => (WStruct [], true) end)
                    then None else Some (dec_tdesc (fst (match k with Some x => (enc_tdesc x, false) | None => (WStruct [], true) end)))) = Some k).
  { destruct k as [x|]; cbn [fst snd opt]; [rewrite (IHk x eq_refl Hk)|]; reflexivity. }
  assert (Ev : opt (if snd (match v with Some x => (enc_tdesc x, false) | None => (WStruct [], true) end)
                    then None else Some (dec_tdesc (fst (match v with Some x => (enc_tdesc x, false) | None => (WStruct [], true) end)))) = Some v).
  { destruct v as [x|]; cbn [fst snd opt]; [rewrite (IHv x eq_refl Hv)|]; reflexivity. }
  rewrite Ek, Ev, (extra_slot_rt ex Hex). reflexivity.
Qed.
