#!/usr/bin/env python3
"""Regenerates /verif/MANIFEST.json from lib/manifest_data.py (one entry per claimed property)."""
import json, os, sys
here = os.path.dirname(os.path.abspath(__file__))
sys.path.insert(0, here)
import manifest_data as D

checks = []
for c in D.CHECKS:
    pid = c["id"]
    checks.append(dict(
        property_id=pid,
        quick_cmd="./check %s quick" % pid,
        thorough_cmd="./check %s thorough" % pid,
        evidence_file="/verif/evidence/%s.json" % pid,
        replay_cmd_template="./check %s --replay {path}" % pid,
        engine="coq-model+correspondence",
        level_claimed=dict(category=c.get("category", "proof"), text=c["text"], design_ref=c.get("design_ref", "DESIGN.md section 3, " + pid)),
        level_note=c["note"],
        technique=c["technique"],
    ))
m = dict(
    version=1,
    setup_cmd="./setup.sh",
    hooks=dict(guard="verif", enable="go build -tags verif (harness and thriftgo are always built with the tag on)",
               baseline_off_cmd=D.BASELINE_OFF, source_commits=D.HOOK_COMMITS, add_only=True),
    engines=[dict(name="coq-model+correspondence", path="/verif/coq + /verif/harness + /verif/lib/vlib.py",
                  serves_properties=[c["id"] for c in D.CHECKS],
                  kind_free_text="Coq 8.16 models and theorems (coq/), rebuilt on every run; Go harness drives /repo's current tree and writes inputs+observed outputs as Coq terms; mismatches are computed by vm_compute inside coqc")],
    checks=checks,
    notes=D.NOTES,
    not_applicable=D.NOT_APPLICABLE,
)
json.dump(m, open(os.path.join(os.path.dirname(here), "MANIFEST.json"), "w"), indent=1)
print("MANIFEST.json: %d checks, %d not_applicable" % (len(checks), len(D.NOT_APPLICABLE)))
