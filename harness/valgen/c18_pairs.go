package valgen

import (
	"fmt"

	"verif/harness/rng"
	"verif/harness/schemagen"
)

// Pairs of values of one struct-like for property C18 (generated DeepEqual).
//
// A pair is self-contained: X and Y live in one abstract heap (addresses handed out by H); a node
// that occurs in both trees is the same Go object. Derived pairs start from one base value and
// apply exactly one edit at some depth; everything off the path to the edit is either a deep copy
// into fresh objects or (Share) the very same objects.

type Pair struct {
	X, Y  *HVal
	Kind  string // copy alias shallow nil-x nil-y nil-nil mutate independent corpus
	Edit  string // what the edit did (mutate only)
	Depth int    // depth of the edit below the top-level struct (mutate only)
	Share bool   // unchanged siblings are shared objects
}

type PG struct {
	R    *rng.R
	Prog *schemagen.Program
	G    *G
	H    *Heap
	// NarrowEnums keeps freshly made enum values inside int32 (units compiled with enum_as_int_32)
	NarrowEnums bool
}

func (p *PG) fresh(t *schemagen.Type, depth int, key bool) *HVal {
	return p.H.Heapify(p.G.Val(t, depth, key))
}

func (p *PG) sib(v *HVal, share bool) *HVal {
	if share && p.R.Chance(3, 4) {
		return v
	}
	return p.H.Copy(v)
}

func hzero(t *schemagen.Type) *HVal {
	switch t.Kind {
	case "bool":
		return &HVal{K: "bool"}
	case "byte", "i16", "i32", "i64", "enum":
		return &HVal{K: "int"}
	case "double":
		return &HVal{K: "dbl"}
	case "string":
		return &HVal{K: "str", S: []byte{}}
	}
	return HNil()
}

var intRange = map[string][2]int64{
	"byte": {-128, 127}, "i16": {-32768, 32767}, "i32": {-2147483648, 2147483647},
	"i64": {-9223372036854775808, 9223372036854775807}, "enum": {-2147483648, 2147483647},
}

// editLeaf returns a base value of type t that is (usually) different from x; whether it really
// differs under "==" is for the specification to say (+0 / -0, NaN).
func (p *PG) editLeaf(t *schemagen.Type, x *HVal) (*HVal, string) {
	r := p.R
	switch t.Kind {
	case "bool":
		return &HVal{K: "bool", B: !x.B}, "leaf:bool"
	case "byte", "i16", "i32", "i64", "enum":
		rg := intRange[t.Kind]
		v := x.I
		switch r.Intn(3) {
		case 0:
			if v < rg[1] {
				v++
			} else {
				v--
			}
		case 1:
			if v > rg[0] {
				v--
			} else {
				v++
			}
		default:
			nv := p.G.Val(t, 0, false).I
			if t.Kind == "enum" && int64(int32(nv)) != nv {
				nv = int64(int32(nv))
			}
			if nv == v {
				nv = v ^ 1
				if nv < rg[0] || nv > rg[1] {
					nv = 0
				}
			}
			v = nv
		}
		return &HVal{K: "int", I: v}, "leaf:" + t.Kind
	case "double":
		switch r.Intn(5) {
		case 0:
			return &HVal{K: "dbl", D: x.D ^ 0x8000000000000000}, "leaf:double-sign"
		case 1:
			return &HVal{K: "dbl", D: x.D ^ 1}, "leaf:double-ulp"
		case 2:
			return &HVal{K: "dbl", D: 0x7ff8000000000000}, "leaf:double-nan"
		case 3:
			return &HVal{K: "dbl", D: x.D}, "leaf:double-same-bits"
		}
		return &HVal{K: "dbl", D: r.U64()}, "leaf:double"
	case "string", "binary":
		k := "str"
		if t.Kind == "binary" {
			k = "bin"
		}
		s := append([]byte{}, x.S...)
		switch {
		case len(s) == 0:
			s = []byte{byte(r.Range(0x20, 0x7e))}
		case r.Chance(1, 3):
			s = s[:len(s)-1]
		case r.Chance(1, 2):
			s = append(s, byte(r.Intn(256)))
		default:
			i := r.Intn(len(s))
			s[i] ^= byte(1 << uint(r.Intn(8)))
		}
		return &HVal{K: k, S: s}, "leaf:" + t.Kind
	}
	return x, "leaf:?"
}

func (p *PG) isBaseKind(t *schemagen.Type) bool { return IsBase(t) }

// freshKey: a key of type t different (Go "==") from every key of m.
func (p *PG) freshKey(t *schemagen.Type, m [][2]*HVal, depth int) *HVal {
	for tries := 0; tries < 30; tries++ {
		k := p.fresh(t, depth, true)
		if k.K == "nil" {
			continue
		}
		if k.K == "dbl" && nanBits(k.D) && p.R.Chance(9, 10) {
			continue
		}
		dup := false
		for _, kv := range m {
			if HKeyEq(k, kv[0]) {
				dup = true
			}
		}
		if !dup {
			return k
		}
	}
	return nil
}

// mutVal edits a plain value of type t once, somewhere at or below this node.
// Returns the (possibly rebuilt) x node, the y node, the edit name and its depth below this node.
func (p *PG) mutVal(t *schemagen.Type, x *HVal, share bool, budget int) (nx, ny *HVal, edit string, depth int) {
	r := p.R
	switch t.Kind {
	case "struct":
		s := p.Prog.Struct(t.Name)
		if x.K == "nil" {
			return x, p.H.Heapify(p.G.Struct(s, 1)), "nil-vs-struct", 0
		}
		if len(s.Fields) == 0 || r.Chance(1, 12) {
			if r.Bool() || len(s.Fields) == 0 {
				return x, HNil(), "struct-vs-nil", 0
			}
		}
		i := r.Intn(len(s.Fields))
		if budget > 0 && r.Chance(2, 3) {
			// prefer a slot that holds something nested, so that edits reach every depth
			var nested []int
			for j, fv := range x.F {
				switch fv.V.K {
				case "struct":
					nested = append(nested, j)
				case "list":
					if len(fv.V.L) > 0 {
						nested = append(nested, j)
					}
				case "map":
					if len(fv.V.M) > 0 {
						nested = append(nested, j)
					}
				}
			}
			if len(nested) > 0 {
				i = nested[r.Intn(len(nested))]
			}
		}
		f := s.Fields[i]
		nu, nw, ed, d := p.mutSlot(f, x.F[i].V, share, budget-1)
		nx = x
		if nu != x.F[i].V {
			nx = &HVal{K: "struct", A: p.H.Fresh(), F: append([]HField{}, x.F...)}
			nx.F[i] = HField{ID: f.ID, V: nu}
		}
		ny = &HVal{K: "struct", A: p.H.Fresh(), F: make([]HField, len(x.F))}
		for j := range x.F {
			if j == i {
				ny.F[j] = HField{ID: x.F[j].ID, V: nw}
			} else {
				ny.F[j] = HField{ID: x.F[j].ID, V: p.sib(x.F[j].V, share)}
			}
		}
		return nx, ny, ed, d + 1
	case "list", "set":
		if x.K == "nil" {
			if r.Bool() {
				return x, &HVal{K: "list", L: []*HVal{}}, "nil-empty:" + t.Kind, 0
			}
			return x, &HVal{K: "list", L: []*HVal{p.fresh(t.Elem, 1, false)}}, "len:" + t.Kind, 0
		}
		if len(x.L) == 0 {
			if r.Bool() {
				return x, HNil(), "nil-empty:" + t.Kind, 0
			}
			return x, &HVal{K: "list", L: []*HVal{p.fresh(t.Elem, 1, false)}}, "len:" + t.Kind, 0
		}
		c := r.Intn(10)
		if budget <= 0 && p.isBaseKind(t.Elem) == false {
			c = r.Intn(3)
		}
		switch {
		case c == 0: // drop the last element
			ny = &HVal{K: "list"}
			for _, e := range x.L[:len(x.L)-1] {
				ny.L = append(ny.L, p.sib(e, share))
			}
			if ny.L == nil {
				ny.L = []*HVal{}
			}
			return x, ny, "len:" + t.Kind, 0
		case c == 1: // one more element
			ny = &HVal{K: "list"}
			for _, e := range x.L {
				ny.L = append(ny.L, p.sib(e, share))
			}
			ny.L = append(ny.L, p.fresh(t.Elem, 1, false))
			return x, ny, "len:" + t.Kind, 0
		case c == 2 && len(x.L) >= 2: // same elements, two of them exchanged
			ny = &HVal{K: "list"}
			for _, e := range x.L {
				ny.L = append(ny.L, p.sib(e, share))
			}
			i := r.Intn(len(x.L) - 1)
			ny.L[i], ny.L[i+1] = ny.L[i+1], ny.L[i]
			return x, ny, "order:" + t.Kind, 0
		}
		i := r.Intn(len(x.L))
		nu, nw, ed, d := p.mutVal(t.Elem, x.L[i], share, budget-1)
		nx = x
		if nu != x.L[i] {
			nx = &HVal{K: "list", L: append([]*HVal{}, x.L...)}
			nx.L[i] = nu
		}
		ny = &HVal{K: "list", L: make([]*HVal, len(x.L))}
		for j := range x.L {
			if j == i {
				ny.L[j] = nw
			} else {
				ny.L[j] = p.sib(x.L[j], share)
			}
		}
		return nx, ny, ed, d + 1
	case "map":
		if x.K == "nil" || len(x.M) == 0 {
			if r.Bool() {
				if x.K == "nil" {
					return x, &HVal{K: "map", M: [][2]*HVal{}}, "nil-empty:map", 0
				}
				return x, HNil(), "nil-empty:map", 0
			}
			if k := p.freshKey(t.Key, nil, 1); k != nil {
				return x, &HVal{K: "map", M: [][2]*HVal{{k, p.fresh(t.Elem, 1, false)}}}, "map-size", 0
			}
			return x, HNil(), "nil-empty:map", 0
		}
		copyM := func(skip int) [][2]*HVal {
			out := [][2]*HVal{}
			for j, kv := range x.M {
				if j == skip {
					continue
				}
				// a struct key is shared (same pointer) or copied (fresh pointer) like any sibling
				out = append(out, [2]*HVal{p.sib(kv[0], share), p.sib(kv[1], share)})
			}
			return out
		}
		i := r.Intn(len(x.M))
		c := r.Intn(12)
		switch {
		case c == 0: // one entry less
			return x, &HVal{K: "map", M: copyM(i)}, "map-size", 0
		case c == 1: // one entry more
			if k := p.freshKey(t.Key, x.M, 1); k != nil {
				m := copyM(-1)
				m = append(m, [2]*HVal{k, p.fresh(t.Elem, 1, false)})
				return x, &HVal{K: "map", M: m}, "map-size", 0
			}
		case c == 2 || c == 3: // same size, one key replaced, same value
			if k := p.freshKey(t.Key, x.M, 1); k != nil {
				m := copyM(i)
				m = append(m, [2]*HVal{k, p.sib(x.M[i][1], share)})
				return x, &HVal{K: "map", M: m}, "map-rekey", 0
			}
		case c == 4 || c == 5 || c == 6: // same size, disjoint key, both values the Go zero value
			if k := p.freshKey(t.Key, x.M, 1); k != nil {
				nx = &HVal{K: "map", M: append([][2]*HVal{}, x.M...)}
				nx.M[i] = [2]*HVal{x.M[i][0], hzero(t.Elem)}
				m := copyM(i)
				m = append(m, [2]*HVal{k, hzero(t.Elem)})
				return nx, &HVal{K: "map", M: m}, "map-rekey-zero", 0
			}
		case c == 7 && t.Key.Kind == "struct" && x.M[i][0].K == "struct": // edit inside a struct key
			nu, nw, ed, d := p.mutVal(t.Key, x.M[i][0], share, budget-1)
			nx = x
			if nu != x.M[i][0] {
				nx = &HVal{K: "map", M: append([][2]*HVal{}, x.M...)}
				nx.M[i] = [2]*HVal{nu, x.M[i][1]}
			}
			m := copyM(i)
			m = append(m, [2]*HVal{nw, p.sib(x.M[i][1], share)})
			return nx, &HVal{K: "map", M: m}, "key:" + ed, d + 1
		}
		nu, nw, ed, d := p.mutVal(t.Elem, x.M[i][1], share, budget-1)
		nx = x
		if nu != x.M[i][1] {
			nx = &HVal{K: "map", M: append([][2]*HVal{}, x.M...)}
			nx.M[i] = [2]*HVal{x.M[i][0], nu}
		}
		m := copyM(i)
		m = append(m, [2]*HVal{p.sib(x.M[i][0], share), nw})
		return nx, &HVal{K: "map", M: m}, ed, d + 1
	case "binary":
		if x.K == "nil" {
			if r.Bool() {
				return x, &HVal{K: "bin", S: []byte{}}, "nil-empty:binary", 0
			}
			return x, &HVal{K: "bin", S: []byte{byte(r.Intn(256))}}, "leaf:binary", 0
		}
		if len(x.S) == 0 && r.Bool() {
			return x, HNil(), "nil-empty:binary", 0
		}
	}
	ny, edit = p.editLeaf(t, x)
	return x, ny, edit, 0
}

// mutSlot edits what a struct field holds.
func (p *PG) mutSlot(f *schemagen.Field, slot *HVal, share bool, budget int) (nx, ny *HVal, edit string, depth int) {
	if BasePtr(f) {
		if slot.K == "nil" {
			return slot, &HVal{K: "some", A: p.H.Fresh(), P: p.fresh(f.Type, 0, false)}, "optional-presence", 0
		}
		if p.R.Chance(3, 10) {
			return slot, HNil(), "optional-presence", 0
		}
		nv, ed := p.editLeaf(f.Type, slot.P)
		return slot, &HVal{K: "some", A: p.H.Fresh(), P: nv}, ed, 0
	}
	return p.mutVal(f.Type, slot, share, budget)
}

// Mutate derives a pair from a base value of struct-like s by one edit.
func (p *PG) Mutate(s *schemagen.Struct, base *HVal, share bool) *Pair {
	t := &schemagen.Type{Kind: "struct", Name: s.QName()}
	for tries := 0; tries < 8; tries++ {
		nx, ny, ed, d := p.mutVal(t, base, share, 6)
		if nx.K != "struct" { // the edit replaced the top-level object by nil: that is the nil-argument kind
			continue
		}
		return &Pair{X: nx, Y: ny, Kind: "mutate", Edit: ed, Depth: d, Share: share}
	}
	return &Pair{X: base, Y: p.H.Copy(base), Kind: "copy"}
}

// Shallow: a fresh top-level object whose slots are the very objects of x (nested struct pointers and
// pointers to optional base values are shared).
func (p *PG) Shallow(x *HVal) *HVal {
	return &HVal{K: "struct", A: p.H.Fresh(), F: append([]HField{}, x.F...)}
}

// aliasInside makes, in every list / set that starts with a non-nil struct pointer, the second element
// the very object of the first (inserting it when the second is not a struct), and likewise the
// first two struct values of a map; returns how many containers were changed.
func aliasInside(v *HVal) int {
	n := 0
	switch v.K {
	case "list":
		if len(v.L) >= 2 && v.L[0].K == "struct" && v.L[1].K == "struct" {
			v.L[1] = v.L[0]
			n++
		} else if len(v.L) >= 1 && v.L[0].K == "struct" {
			v.L = append(v.L[:1:1], append([]*HVal{v.L[0]}, v.L[1:]...)...)
			n++
		}
		for i, e := range v.L {
			if i == 1 && n > 0 {
				continue
			}
			n += aliasInside(e)
		}
	case "map":
		if len(v.M) >= 2 && v.M[0][1].K == "struct" && v.M[1][1].K == "struct" {
			v.M[1] = [2]*HVal{v.M[1][0], v.M[0][1]}
			n++
		}
		for i, kv := range v.M {
			if i == 1 && n > 0 {
				continue
			}
			n += aliasInside(kv[1])
		}
	case "struct":
		for _, f := range v.F {
			n += aliasInside(f.V)
		}
	}
	return n
}

// Pairs produces n pairs for struct-like s, cycling through the kinds.
func (p *PG) Pairs(s *schemagen.Struct, n int) []*Pair {
	var out []*Pair
	r := p.R
	base := func() *HVal { return p.H.Heapify(p.G.Struct(s, r.Range(0, 3))) }
	for i := 0; i < n; i++ {
		x := base()
		switch {
		case i%12 == 0:
			out = append(out, &Pair{X: x, Y: p.H.Copy(x), Kind: "copy"})
		case i%12 == 1:
			out = append(out, &Pair{X: x, Y: x, Kind: "alias"})
		case i%12 == 2:
			out = append(out, &Pair{X: x, Y: p.Shallow(x), Kind: "shallow", Share: true})
		case i%12 == 3:
			switch r.Intn(3) {
			case 0:
				out = append(out, &Pair{X: HNil(), Y: x, Kind: "nil-x"})
			case 1:
				out = append(out, &Pair{X: x, Y: HNil(), Kind: "nil-y"})
			default:
				out = append(out, &Pair{X: HNil(), Y: HNil(), Kind: "nil-nil"})
			}
		case i%12 == 4 && i%24 == 4:
			out = append(out, &Pair{X: x, Y: base(), Kind: "independent"})
		case i%12 == 4:
			// one object referenced twice inside x (where a list of structs allows it) against a deep
			// copy, in which the two references are two objects
			n := aliasInside(x)
			out = append(out, &Pair{X: x, Y: p.H.Copy(x), Kind: "twice-inside", Depth: n})
		case i%12 == 5 || i%12 == 6:
			out = append(out, p.Mutate(s, x, true))
		default:
			out = append(out, p.Mutate(s, x, false))
		}
	}
	return out
}

// ---- sets for the uniqueness check inside Write ----

type SetCase struct {
	X    *HVal
	Kind string // as-is dup-copy dup-alias near-dup nil-empty no-set
}

type setSite struct {
	node *HVal
	t    *schemagen.Type
}

func (p *PG) setSites(t *schemagen.Type, v *HVal, out *[]setSite) {
	switch v.K {
	case "list":
		if t.Kind == "set" {
			*out = append(*out, setSite{v, t})
		}
		for _, e := range v.L {
			p.setSites(t.Elem, e, out)
		}
	case "map":
		for _, kv := range v.M {
			p.setSites(t.Key, kv[0], out)
			p.setSites(t.Elem, kv[1], out)
		}
	case "struct":
		s := p.Prog.Struct(t.Name)
		for i, f := range s.Fields {
			if !BasePtr(f) {
				p.setSites(f.Type, v.F[i].V, out)
			}
		}
	}
}

// SetCases: values of s (valid for Write apart from set uniqueness) with one set edited.
// The edit is done in place: the base value is used for this case only.
func (p *PG) SetCases(s *schemagen.Struct, n int) []*SetCase {
	var out []*SetCase
	r := p.R
	t := &schemagen.Type{Kind: "struct", Name: s.QName()}
	for i := 0; i < n; i++ {
		x := p.H.Heapify(p.G.Struct(s, r.Range(1, 3)))
		var sites []setSite
		p.setSites(t, x, &sites)
		if len(sites) == 0 {
			if i == 0 {
				out = append(out, &SetCase{X: x, Kind: "no-set"})
			}
			continue
		}
		st := sites[r.Intn(len(sites))]
		if len(st.node.L) == 0 {
			st.node.L = []*HVal{p.fresh(st.t.Elem, 1, false)}
		}
		e := st.node.L[r.Intn(len(st.node.L))]
		kind := []string{"as-is", "dup-copy", "dup-copy", "dup-alias", "near-dup", "near-dup", "nil-empty"}[r.Intn(7)]
		switch kind {
		case "dup-copy":
			st.node.L = append(st.node.L, p.H.Copy(e))
		case "dup-alias":
			st.node.L = append(st.node.L, e)
		case "near-dup":
			if e.K == "nil" && st.t.Elem.Kind == "struct" {
				kind = "as-is"
				break
			}
			var ny *HVal
			for tries := 0; tries < 6 && ny == nil; tries++ {
				_, c, _, _ := p.mutVal(st.t.Elem, e, false, 3)
				// the new element must not make Write fail for another reason (union member count, nil union)
				if !(c.K == "nil" && st.t.Elem.Kind == "struct") && p.WriteValid(st.t.Elem, c, true) {
					ny = c
				}
			}
			if ny == nil {
				kind = "as-is"
				break
			}
			st.node.L = append(st.node.L, ny)
		case "nil-empty":
			switch st.t.Elem.Kind {
			case "list", "set":
				st.node.L = append(st.node.L, HNil(), &HVal{K: "list", L: []*HVal{}})
			case "map":
				st.node.L = append(st.node.L, HNil(), &HVal{K: "map", M: [][2]*HVal{}})
			case "binary":
				st.node.L = append(st.node.L, HNil(), &HVal{K: "bin", S: []byte{}})
			default:
				kind = "as-is"
			}
		}
		out = append(out, &SetCase{X: x, Kind: kind})
	}
	return out
}

// WriteValid: Write does not fail on v for a reason other than set uniqueness: every union has exactly
// one member set and no nil pointer stands where a union is written (elem: v is a container element,
// a map key / value or a non-optional field).
func (p *PG) WriteValid(t *schemagen.Type, v *HVal, elem bool) bool {
	switch t.Kind {
	case "struct":
		s := p.Prog.Struct(t.Name)
		if v.K == "nil" {
			return !(elem && s.Kind == "union")
		}
		set := 0
		for i, f := range s.Fields {
			slot := v.F[i].V
			if IsSet(f, slot.Erase()) {
				set++
			}
			if BasePtr(f) {
				continue
			}
			if !p.WriteValid(f.Type, slot, f.Req != "optional") {
				return false
			}
		}
		return s.Kind != "union" || set == 1
	case "list", "set":
		for _, e := range v.L {
			if !p.WriteValid(t.Elem, e, true) {
				return false
			}
		}
	case "map":
		for _, kv := range v.M {
			if !p.WriteValid(t.Key, kv[0], true) || !p.WriteValid(t.Elem, kv[1], true) {
				return false
			}
		}
	}
	return true
}

func (p *Pair) String() string {
	return fmt.Sprintf("%s/%s/d%d/share=%v", p.Kind, p.Edit, p.Depth, p.Share)
}
