(* Idl/AcceptFacts.v, part 3 (property C04): the kind errors of constant and default
   values that the Go backend reports.  A file that went through resolve_file_in keeps
   the written form of every value and gives a directly named scalar or struct-like
   type its category; [kind_check] on the resolved file therefore rejects what the
   declarative predicates [Rules.kind_mismatch] / [Rules.struct_literal_bad_key]
   describe on the parsed file. *)
From Coq Require Import List Bool Arith Lia NArith ZArith.
From Coq.Strings Require Import Byte.
From Verif Require Import Base.Bytes Idl.Ast Idl.AstUtil Idl.AstFacts Idl.Resolve Idl.ResolveSpec Idl.ResolveTd
     Idl.ResolveLemmas Idl.ResolveInv Idl.ResolveConst Idl.ResolveProg
     Idl.Check Idl.Rules Idl.CheckFacts Idl.Accept Idl.AcceptFacts.
Import ListNotations.
Local Open Scope resolve_scope.

(* ---------------------------------------------------------------- the written form of a value *)

Definition lit_key (c : const_value) : option bytes := match c with CLiteral n => Some n | _ => None end.

Inductive cshape := SInt | SDouble | SLit | SIdent (isbool : bool) | SList | SMap (keys : list (option bytes)).

Definition shape (c : const_value) : cshape :=
  match c with
  | CInt _ => SInt
  | CDouble _ => SDouble
  | CLiteral _ => SLit
  | CIdent s _ => SIdent (ident_is_bool s)
  | CList _ => SList
  | CMap l => SMap (map (fun kv => lit_key (fst kv)) l)
  end.

Lemma lit_key_resolve fuel done g c c' : resolve_cv fuel done g c = Ok c' -> lit_key c' = lit_key c.
Proof.
  destruct c; cbn [resolve_cv]; intros H; try (injection H as <-; reflexivity); inv_bind H; injection H as <-; reflexivity.
Qed.

Lemma resolve_cv_shape fuel done g c c' : resolve_cv fuel done g c = Ok c' -> shape c' = shape c.
Proof.
  destruct c as [b|z|s|s e|l|l]; cbn [resolve_cv]; intros H; try (injection H as <-; reflexivity).
  - inv_bind H. injection H as <-. reflexivity.
  - inv_bind H. injection H as <-. reflexivity.
  - inv_bind H. injection H as <-. cbn [shape]. f_equal. clear -E. revert x E.
    induction l as [|[k v] l IH]; intros l' E.
    + injection E as <-. reflexivity.
    + inv_bind E. injection E as <-. cbn [map fst]. rewrite (lit_key_resolve _ _ _ _ _ E0), (IH _ E2). reflexivity.
Qed.

(* ---------------------------------------------------------------- decisions of kind_check *)

Lemma first_err_none {A} (chk : A -> option const_error) l : first_err chk l = None -> forall x, In x l -> chk x = None.
Proof.
  induction l as [|y l IH]; intros H x Hin; [destruct Hin|]. cbn [first_err] in H.
  destruct (chk y) eqn:E; [discriminate|]. destruct Hin as [<-|Hin]; auto.
Qed.

Lemma kind_check_scalar k r g t2 v2 c v :
  ty_category t2 = c -> shape v2 = shape v -> scalar_holds c v = false -> kind_check (S k) r g t2 v2 <> None.
Proof.
  intros Hc Hs Hh. cbn [kind_check]. rewrite Hc.
  destruct c; cbn [scalar_holds] in Hh; try discriminate;
    destruct v as [b|z|s|s e|l|l]; try discriminate;
    destruct v2 as [b2|z2|s2|s2 e2|l2|l2]; cbn [shape] in Hs; try discriminate; try (intros X; discriminate X).
  all: apply negb_false_iff in Hh; injection Hs as Hs; rewrite Hs, Hh; discriminate.
Qed.

Lemma kind_check_struct_form k r g t2 v2 v :
  is_struct_like_category (ty_category t2) = true -> shape v2 = shape v ->
  match v with CMap _ | CIdent _ _ => False | _ => True end -> kind_check (S k) r g t2 v2 <> None.
Proof.
  intros Hc Hs Hv. cbn [kind_check].
  destruct (ty_category t2); try discriminate;
    destruct v as [b|z|s|s e|l|l]; try contradiction;
    destruct v2 as [b2|z2|s2|s2 e2|l2|l2]; cbn [shape] in Hs; try discriminate; intros X; discriminate X.
Qed.

(* a struct literal: the struct-like the backend finds has the fields of [s] *)
Lemma kind_check_bad_key k r g t2 (l l2 : list (const_value * const_value)) s s2 :
  is_struct_like_category (ty_category t2) = true -> ty_ref t2 = None -> ty_is_typedef t2 = None ->
  find_struct_like g (ty_name t2) = Some s2 ->
  (forall n, find_field s2 n = None <-> find_field s n = None) ->
  map (fun kv => lit_key (fst kv)) l2 = map (fun kv => lit_key (fst kv)) l ->
  existsb (fun kv => bad_key s (fst kv)) l = true ->
  kind_check (S k) r g t2 (CMap l2) <> None.
Proof.
  intros Hc Hr Ht Hf Hfields Hkeys Hbad X. cbn [kind_check] in X.
  assert (Hd : deref (deref_fuel r) r g t2 = Ok (g, t2)).
  { unfold deref_fuel. rewrite Nat.add_comm. cbn [plus deref]. rewrite Hr, Ht. reflexivity. }
  apply existsb_exists in Hbad. destruct Hbad as (kv & Hin & Hb).
  assert (Hin2 : exists kv2, In kv2 l2 /\ lit_key (fst kv2) = lit_key (fst kv)).
  { assert (Hm : In (lit_key (fst kv)) (map (fun kv => lit_key (fst kv)) l2)) by (rewrite Hkeys; apply in_map_iff; eauto).
    apply in_map_iff in Hm. destruct Hm as (kv2 & E & Hi). eauto. }
  destruct Hin2 as (kv2 & Hi2 & Ek).
  destruct (ty_category t2); try discriminate; rewrite Hd, Hf in X;
    pose proof (first_err_none _ _ X kv2 Hi2) as Y; cbv beta in Y;
    destruct (fst kv2) as [b2|z2|n2|s0 e0|l0|l0]; try discriminate Y;
    cbn [lit_key] in Ek; destruct (fst kv) as [b1|z1|n1|s1 e1|l1|l1]; cbn [lit_key] in Ek; try discriminate Ek;
    injection Ek as ->; cbn [bad_key] in Hb;
    destruct (find_field s n1) eqn:Fs; try discriminate Hb;
    apply Hfields in Fs; rewrite Fs in Y; discriminate Y.
Qed.

(* ---------------------------------------------------------------- what resolution keeps *)

Lemma find_by_rel {A} (key : A -> bytes) (R : A -> A -> Prop) l l' :
  Forall2 R l l' -> (forall x y, R x y -> key y = key x) ->
  forall k x, find_by key k l = Some x -> exists y, find_by key k l' = Some y /\ R x y.
Proof.
  intros H Hk. induction H as [|a b l l' Rab _ IH]; intros k x Hf; cbn [find_by] in *; [discriminate|].
  rewrite (Hk _ _ Rab). destruct (beqb (key a) k); [injection Hf as <-; eauto | auto].
Qed.

Lemma find_by_rel_none {A} (key : A -> bytes) (R : A -> A -> Prop) l l' :
  Forall2 R l l' -> (forall x y, R x y -> key y = key x) ->
  forall k, find_by key k l' = None <-> find_by key k l = None.
Proof.
  intros H Hk. induction H as [|a b l l' Rab _ IH]; intros k; cbn [find_by]; [tauto|].
  rewrite (Hk _ _ Rab). destruct (beqb (key a) k); [split; discriminate | apply IH].
Qed.

Section Kept.
  Variables (d1 : program) (g : file) (st : list tde) (fuel : nat).

  (* a type occurrence after both passes *)
  Definition ty_kept (t t2 : ty) : Prop :=
    exists t1, resolve_ty d1 g t = Ok t1 /\ fix_ty d1 g st t1 = Ok t2.

  Definition fd_kept (fd fd2 : field) : Prop :=
    fd_name fd2 = fd_name fd /\ ty_kept (fd_type fd) (fd_type fd2) /\
    match fd_default fd with
    | Some v => exists v2, fd_default fd2 = Some v2 /\ resolve_cv fuel d1 g v = Ok v2
    | None => fd_default fd2 = None
    end.

  Lemma field_kept b fd fd1 fd2 :
    resolve_field fuel d1 g b fd = Ok fd1 -> fix_field d1 g st fd1 = Ok fd2 -> fd_kept fd fd2.
  Proof.
    unfold resolve_field, fix_field. intros H1 H2. inv_bind H1. inv_bind H2.
    injection H1 as <-. injection H2 as <-. unfold fd_kept, ty_kept. cbn [fd_type fd_name fd_default] in *. split; [reflexivity|].
    split; [exists x; auto|]. destruct (fd_default fd) as [v|]; [inv_bind E0; injection E0 as <-; eauto | injection E0 as <-; reflexivity].
  Qed.

  Lemma fields_kept b l l1 l2 :
    mapM (resolve_field fuel d1 g b) l = Ok l1 -> mapM (fix_field d1 g st) l1 = Ok l2 -> Forall2 fd_kept l l2.
  Proof.
    intros H1 H2. eapply Forall2_impl'; [|exact (two_mapM _ _ _ _ _ H1 H2)].
    intros fd fd2 (fd1 & A & B). eapply field_kept; eauto.
  Qed.

  Definition sl_kept (s s2 : struct_like) : Prop :=
    sl_name s2 = sl_name s /\ Forall2 fd_kept (sl_fields s) (sl_fields s2).

  Lemma struct_kept s s1 s2 :
    resolve_struct_like fuel d1 g s = Ok s1 -> fix_struct_like d1 g st s1 = Ok s2 -> sl_kept s s2.
  Proof.
    unfold resolve_struct_like, fix_struct_like. intros H1 H2. inv_bind H1. inv_bind H2.
    injection H1 as <-. injection H2 as <-. unfold sl_kept. cbn [sl_name sl_fields] in *. split; [reflexivity|]. eapply fields_kept; eauto.
  Qed.

  Lemma structs_kept l l1 l2 :
    mapM (resolve_struct_like fuel d1 g) l = Ok l1 -> mapM (fix_struct_like d1 g st) l1 = Ok l2 -> Forall2 sl_kept l l2.
  Proof.
    intros H1 H2. eapply Forall2_impl'; [|exact (two_mapM _ _ _ _ _ H1 H2)].
    intros s s2 (s1 & A & B). eapply struct_kept; eauto.
  Qed.

  Definition fn_kept (fu fu2 : function) : Prop :=
    Forall2 fd_kept (fn_args fu) (fn_args fu2) /\ Forall2 fd_kept (fn_throws fu) (fn_throws fu2).
  Definition sv_kept (sv sv2 : service) : Prop := Forall2 fn_kept (sv_functions sv) (sv_functions sv2).

  Lemma function_kept fu fu1 fu2 :
    resolve_function fuel d1 g fu = Ok fu1 -> fix_function d1 g st fu1 = Ok fu2 -> fn_kept fu fu2.
  Proof.
    unfold resolve_function, fix_function. intros H1 H2. inv_bind H1. inv_bind H2.
    injection H1 as <-. injection H2 as <-. unfold fn_kept. cbn [fn_args fn_throws] in *. split; eapply fields_kept; eauto.
  Qed.

  Lemma service_kept sv sv1 sv2 :
    resolve_service fuel d1 g sv = Ok sv1 -> fix_service d1 g st sv1 = Ok sv2 -> sv_kept sv sv2.
  Proof.
    unfold resolve_service, fix_service. intros H1 H2. inv_bind H1. inv_bind H2.
    injection H1 as <-. injection H2 as <-. unfold sv_kept. cbn [sv_functions] in *.
    eapply Forall2_impl'; [|exact (two_mapM _ _ _ _ _ E E1)]. intros fu fu2 (fu1 & A & B). eapply function_kept; eauto.
  Qed.

  Definition co_kept (c c2 : constant) : Prop :=
    ty_kept (co_type c) (co_type c2) /\ resolve_cv fuel d1 g (co_value c) = Ok (co_value c2).

  Lemma constant_kept c c1 c2 :
    resolve_constant fuel d1 g c = Ok c1 -> fix_constant d1 g st c1 = Ok c2 -> co_kept c c2.
  Proof.
    unfold resolve_constant, fix_constant. intros H1 H2. inv_bind H1. inv_bind H2.
    injection H1 as <-. injection H2 as <-. unfold co_kept, ty_kept. cbn [co_type co_value] in *. split; [exists x; auto | exact E0].
  Qed.

  (* the pair handed to the backend for a typed value of the parsed file *)
  Definition tv_kept (tv tv2 : ty * const_value) : Prop :=
    ty_kept (fst tv) (fst tv2) /\ resolve_cv fuel d1 g (snd tv) = Ok (snd tv2).

  Definition field_values (fd : field) : list (ty * const_value) :=
    match fd_default fd with Some v => [(fd_type fd, v)] | None => [] end.

  Lemma fields_values l l2 : Forall2 fd_kept l l2 ->
    forall tv, In tv (flat_map field_values l) -> exists tv2, In tv2 (flat_map field_values l2) /\ tv_kept tv tv2.
  Proof.
    induction 1 as [|fd fd2 l l2 (Hn & Ht & Hd) _ IH]; intros tv Hin; cbn [flat_map] in *; [destruct Hin|].
    apply in_app_or in Hin. destruct Hin as [Hin|Hin].
    - unfold field_values in Hin. destruct (fd_default fd) as [v|]; [|destruct Hin]. destruct Hin as [<-|[]].
      destruct Hd as (v2 & Hd2 & Hv). exists (fd_type fd2, v2). split; [|split; assumption].
      apply in_or_app. left. unfold field_values. rewrite Hd2. left. reflexivity.
    - destruct (IH tv Hin) as (tv2 & Hi & Hk). exists tv2. split; [apply in_or_app; right; exact Hi | exact Hk].
  Qed.
End Kept.

(* ---------------------------------------------------------------- the head of a kept type *)

Lemma ty_kept_head d1 g st t t2 : ty_kept d1 g st t t2 -> ty_name t2 = ty_name t /\ head2 d1 g st t2.
Proof.
  intros (t1 & H1 & H2). destruct (resolve_ty_head1 d1 g t t1 H1) as (N1 & O1).
  destruct (fix_ty_head2 d1 g st t1 t2 O1 H2) as (N2 & O2). split; [congruence|].
  rewrite Forall_forall in O2. apply O2. apply ty_occs_head.
Qed.

Section OneFileKinds.
  Variables (p d1 : program) (fn : bytes) (f f' : file).
  Hypothesis Hf : prog_file p fn = Some f.
  Hypothesis Hres : resolve_file_in d1 f = Ok f'.

  Lemma flat_map_flat_map' {A B} (h : A -> list B) l : flat_map h l = flat_map' h l.
  Proof. unfold flat_map'. induction l as [|x l IH]; cbn; [reflexivity | rewrite IH; reflexivity]. Qed.

  (* every typed value of the parsed file reaches the backend with its written form,
     a directly named scalar type with its category, and a directly named struct-like
     as a plain reference to the struct-like of the same fields *)
  Lemma typed_values_kept : forall tv, In tv (typed_values f) ->
    exists tv2, In tv2 (backend_values f') /\ shape (snd tv2) = shape (snd tv) /\
      (forall c, builtin_category (ty_name (fst tv)) = Some c -> ty_category (fst tv2) = c) /\
      (forall s, direct_struct p fn f (fst tv) = Some s ->
         is_struct_like_category (ty_category (fst tv2)) = true /\ ty_ref (fst tv2) = None /\
         ty_is_typedef (fst tv2) = None /\
         exists s2, find_struct_like f' (ty_name (fst tv2)) = Some s2 /\
                    forall n, find_field s2 n = None <-> find_field s n = None).
  Proof.
    pose proof Hres as H. unfold resolve_file_in in H. inv_bind H. injection H as <-.
    rename x into n2c, x0 into tds1, x1 into cs1, x2 into ss1, x3 into us1, x4 into es1, x5 into sv1,
           x6 into st, x7 into tds2, x8 into cs2, x9 into ss2, x10 into us2, x11 into es2, x12 into sv2.
    set (f0 := with_name2cat f (Some n2c)) in *. set (f1 := with_typedefs f0 tds1) in *.
    set (fuel := enum_fuel d1 f1) in *.
    pose proof (structs_kept d1 f1 st fuel _ _ _ E2 E9) as Ks.
    pose proof (structs_kept d1 f1 st fuel _ _ _ E3 E10) as Ku.
    pose proof (structs_kept d1 f1 st fuel _ _ _ E4 E11) as Ke.
    assert (Ksl : Forall2 (sl_kept d1 f1 st fuel) (struct_likes f) (ss2 ++ us2 ++ es2))
      by (unfold struct_likes; repeat apply Forall2_app; assumption).
    assert (Ksv : Forall2 (sv_kept d1 f1 st fuel) (f_services f) sv2).
    { eapply Forall2_impl'; [|exact (two_mapM _ _ _ _ _ E5 E12)]. intros sv sv2' (sv1' & A & B). eapply service_kept; eauto. }
    assert (Kc : Forall2 (co_kept d1 f1 st fuel) (f_constants f) cs2).
    { eapply Forall2_impl'; [|exact (two_mapM _ _ _ _ _ E1 E8)]. intros c c2 (c1 & A & B). eapply constant_kept; eauto. }
    (* step 1: the pair exists *)
    assert (Hpair : forall tv, In tv (typed_values f) ->
              exists tv2, In tv2 (flat_map (field_values) (flat_map' sl_fields (ss2 ++ us2 ++ es2) ++ flat_map' service_fields sv2) ++
                                  map (fun c => (co_type c, co_value c)) cs2) /\ tv_kept d1 f1 st fuel tv tv2).
    { intros tv Hin. unfold typed_values in Hin. apply in_app_or in Hin. destruct Hin as [Hin|Hin].
      - apply in_map_iff in Hin. destruct Hin as (c & <- & Hc).
        destruct (Forall2_In_l _ _ _ _ Kc Hc) as (c2 & Hc2 & (Kt & Kv)).
        exists (co_type c2, co_value c2). split; [|split; assumption].
        apply in_or_app. right. apply in_map_iff. eauto.
      - change (In tv (flat_map field_values (file_fields f))) in Hin.
        assert (Kf : Forall2 (fd_kept d1 f1 st fuel) (file_fields f)
                             (flat_map' sl_fields (ss2 ++ us2 ++ es2) ++ flat_map' service_fields sv2)).
        { unfold file_fields. apply Forall2_app.
          - clear -Ksl. induction Ksl as [|s s2 l l2 (_ & Hfs) _ IH]; [constructor|].
            unfold flat_map' in *. cbn [map concat]. apply Forall2_app; assumption.
          - clear -Ksv. induction Ksv as [|sv sv2' l l2 Hsv _ IH]; [constructor|].
            unfold flat_map' at 1 2. cbn [map concat]. apply Forall2_app; [|exact IH].
            unfold service_fields. clear -Hsv. unfold sv_kept in Hsv.
            induction Hsv as [|fu fu2 l l2 (Ha & Ht) _ IH]; [constructor|].
            unfold flat_map' in *. cbn [map concat]. apply Forall2_app; [|exact IH].
            unfold function_fields. apply Forall2_app; assumption. }
        destruct (fields_values d1 f1 st fuel _ _ Kf tv Hin) as (tv2 & Hi & Hk).
        exists tv2. split; [apply in_or_app; left; exact Hi | exact Hk]. }
    intros tv Hin. destruct (Hpair tv Hin) as (tv2 & Hi2 & (Kt & Kv)). exists tv2. split.
    { unfold backend_values, file_fields, struct_likes.
      cbn [with_includes f_structs f_unions f_exceptions f_services f_constants]. exact Hi2. }
    split; [exact (resolve_cv_shape _ _ _ _ _ Kv)|].
    destruct (ty_kept_head _ _ _ _ _ Kt) as (Hn & Hh). unfold head2 in Hh. rewrite Hn in Hh. split.
    - intros c Hb. rewrite Hb in Hh. exact (proj1 Hh).
    - intros s Hds. unfold direct_struct in Hds. destruct (builtin_category (ty_name (fst tv))) eqn:Hb; [discriminate|].
      destruct (split_type (ty_name (fst tv))) as [|a [|? ?]] eqn:Hsp; try discriminate.
      destruct (def_of p fn a) as [k|] eqn:Da; [|discriminate]. destruct k as [| | |k|]; try discriminate.
      destruct Hh as (c & La & Tc & Hr & Htd & Hcat).
      assert (Hc : c = sl_kind_category k).
      { change (n2c_of f1) with n2c in La. rewrite (proj2 (register_file f n2c E) a) in La.
        rewrite (def_of_file p fn f a Hf) in Da. rewrite Da in La. cbn [option_map dkind_cat] in La. congruence. }
      assert (Ntd : is_typedef_cat c = false) by (rewrite Hc; destruct k; reflexivity).
      rewrite Ntd in Hcat. split; [rewrite Hcat, Hc; destruct k; reflexivity|]. split; [exact Hr|].
      split; [rewrite Htd; unfold typedef_flag; rewrite Ntd; reflexivity|].
      pose proof (split_type_single _ _ Hsp) as Ea. rewrite Hn, <- Ea.
      unfold find_struct_like in *. cbn [with_includes struct_likes f_structs f_unions f_exceptions].
      destruct (find_by_rel sl_name (sl_kept d1 f1 st fuel) _ _ Ksl (fun x y HR => proj1 HR) a s Hds) as (s2 & Hf2 & (_ & Hfs)).
      exists s2. split; [exact Hf2|]. intros n. unfold find_field.
      exact (find_by_rel_none fd_name (fd_kept d1 f1 st fuel) _ _ Hfs (fun x y HR => proj1 HR) n).
  Qed.

  (* the backend accepts the resolved file only if the parsed file has no such defect *)
  Lemma check_scope_kinds r : prog_file r fn = Some f' -> check_scope r fn = None ->
    kind_mismatch p fn f = false /\ struct_literal_bad_key p fn f = false.
  Proof.
    intros Pr Hc. unfold check_scope in Hc. rewrite Pr in Hc. pose proof (first_err_none _ _ Hc) as Hall. cbv beta in Hall.
    split.
    - unfold kind_mismatch. apply existsb_false. intros tv Hin.
      destruct (typed_values_kept tv Hin) as (tv2 & Hi2 & Hs & Hb & Hd). specialize (Hall tv2 Hi2).
      destruct tv as [t v]. destruct tv2 as [t2 v2]. cbn [fst snd] in *.
      destruct (builtin_category (ty_name t)) as [c|] eqn:Bc.
      + destruct (scalar_holds c v) eqn:Sh; [reflexivity|]. exfalso.
        exact (kind_check_scalar _ r f' _ _ c _ (Hb c eq_refl) Hs Sh Hall).
      + destruct (direct_struct p fn f t) as [s|] eqn:Ds; [|reflexivity].
        destruct (Hd s eq_refl) as (Hcat & _).
        destruct v as [b|z|s0|s0 e0|l0|l0]; try reflexivity; exfalso;
          exact (kind_check_struct_form _ r f' _ _ _ Hcat Hs I Hall).
    - unfold struct_literal_bad_key. apply existsb_false. intros tv Hin.
      destruct (typed_values_kept tv Hin) as (tv2 & Hi2 & Hs & _ & Hd). specialize (Hall tv2 Hi2).
      destruct tv as [t v]. destruct tv2 as [t2 v2]. cbn [fst snd] in *.
      destruct (direct_struct p fn f t) as [s|] eqn:Ds; [|reflexivity].
      destruct v as [b|z|s0|s0 e0|l0|l]; try reflexivity.
      destruct (existsb (fun kv => bad_key s (fst kv)) l) eqn:Hb; [|reflexivity]. exfalso.
      destruct (Hd s eq_refl) as (Hcat & Hr & Ht & s2 & Hf2 & Hfields).
      destruct v2 as [b2|z2|s2'|s2' e2|l2|l2]; cbn [shape] in Hs; try discriminate Hs.
      injection Hs as Hk.
      exact (kind_check_bad_key _ r f' _ l l2 s s2 Hcat Hr Ht Hf2 Hfields Hk Hb Hall).
  Qed.
End OneFileKinds.
