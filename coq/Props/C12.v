(* Props/C12.v — property C12 "Output assembly loses nothing", stated about the model
   Gen/FileManager.v of generator/file_manager.go.  This file holds statements only;
   every proof is [exact lemma] and is followed by Print Assumptions. *)
From Coq Require Import List Arith Bool Permutation.
From Verif Require Import Base.Bytes Gen.FileManager Gen.FileManagerFacts Gen.FileManagerTerm Corr.C12 Gen.FileManagerSpec Gen.FileManagerText Gen.FileManagerExpand Gen.FileManagerOrder Gen.FileManagerFull Gen.MarkerTable Gen.MarkerFacts.
Import ListNotations.

(* Every history of Feed calls (any number of calls, any items): the assembled output never
   contains two files with one name. *)
Theorem C12_output_names_unique :
  forall (h : list (list gen)) outs, run h = Ok outs -> NoDup (map fst outs).
Proof. exact output_names_unique. Qed.
Print Assumptions C12_output_names_unique.

(* A file accepted after a prefix of the history keeps its position, its name and its submitted
   content whatever is fed later: later conflicting submissions never overwrite or merge. *)
Theorem C12_never_overwritten :
  forall h1 h2 m1 m2, feeds fm0 h1 = Ok m1 -> feeds m1 h2 = Ok m2 ->
  forall i f, nth_error (files m1) i = Some f -> nth_error (files m2) i = Some f.
Proof. exact never_overwritten. Qed.
Print Assumptions C12_never_overwritten.

(* The response lists exactly the kept files, in order, under their names. *)
Theorem C12_response_lists_kept_files : forall m, map fst (build m) = map fst (files m).
Proof. exact build_names. Qed.
Print Assumptions C12_response_lists_kept_files.

(* A file with a name not seen before is appended with exactly its content. *)
Theorem C12_new_name_appended :
  forall f m n c rest last, lookup n (index m) = None ->
  feed_items (S f) m last (Fl n c :: rest) = feed_items f (add_file m n c) n rest.
Proof. exact new_name_appended. Qed.
Print Assumptions C12_new_name_appended.

(* A later file with an existing name and identical content is dropped together with the
   unnamed patches that follow it. *)
Theorem C12_identical_resubmission_dropped :
  forall f m n c rest last idx, lookup n (index m) = Some idx -> content_at m idx = c ->
  feed_items (S f) m last (Fl n c :: rest) = feed_items f m last (drop_unnamed rest).
Proof. exact identical_resubmission_dropped. Qed.
Print Assumptions C12_identical_resubmission_dropped.

(* With different content it is kept under a name no file has yet, with its own content. *)
Theorem C12_conflicting_resubmission_kept :
  forall f m n c rest last idx rn k', lookup n (index m) = Some idx ->
  probe (get_count m n + List.length (files m) + 2) m n c idx 1 (get_count m n) = Fresh rn k' ->
  lookup rn (index m) = None /\
  feed_items (S f) m last (Fl n c :: rest) =
    feed_items f (mkfm (files m ++ [(rn, c)]) (patch m) (update rn (List.length (files m)) (index m))
                       (update n k' (count m)) (update rn n (origin m))) rn rest.
Proof. exact conflicting_resubmission_kept. Qed.
Print Assumptions C12_conflicting_resubmission_kept.

(* A patch with no target is an error: unnamed with nothing before it, or named for a file
   that was never submitted. *)
Theorem C12_unnamed_first_is_error :
  forall m g rest, g_name g = None -> feed m (g :: rest) = Err.
Proof. exact unnamed_first_is_error. Qed.
Print Assumptions C12_unnamed_first_is_error.

Theorem C12_named_patch_without_target_is_error :
  forall m n ip c rest, ip <> [] -> lookup n (index m) = None -> feed m (Np n ip c :: rest) = Err.
Proof. exact named_patch_without_target_is_error. Qed.
Print Assumptions C12_named_patch_without_target_is_error.

(* Patches for one insertion point are concatenated in submission order (and nothing else is). *)
Theorem C12_patch_order :
  forall ps pairs k,
  lookup k (fold_left (fun acc p => add_pair acc (marker (g_ip p)) (g_content p)) ps pairs) =
  match lookup k pairs with
  | Some old => Some (old ++ patch_text k ps)
  | None => if existsb (fun p => beqb (marker (g_ip p)) k) ps then Some (patch_text k ps) else None
  end.
Proof. exact patch_fold_lookup. Qed.
Print Assumptions C12_patch_order.

(* Every marker the scanner finds in a submitted file is a key of the replacer (so it is erased
   or replaced), a key occurrence is replaced by its text and scanning resumes after it, and text
   in which no key occurs is unchanged. *)
Theorem C12_found_marker_is_replaced :
  forall content k, In k (find_markers content) -> lookup k (init_pairs content) <> None.
Proof. exact found_marker_is_key. Qed.
Print Assumptions C12_found_marker_is_replaced.

Theorem C12_replace_at_key :
  forall pairs k v rest, k <> [] -> first_match pairs (k ++ rest) = Some (k, v) ->
  replace pairs (k ++ rest) = v ++ replace pairs rest.
Proof. exact replace_step. Qed.
Print Assumptions C12_replace_at_key.

Theorem C12_text_outside_markers_unchanged :
  forall pairs s, no_key_anywhere pairs s -> replace pairs s = s.
Proof. exact replace_no_key. Qed.
Print Assumptions C12_text_outside_markers_unchanged.

(* The declarative specification of WHICH submissions are kept and UNDER WHICH NAME — written
   without index, count, alias or the rename walk (Corr/C12.v `bookkeeping`, the same function the
   check evaluates on the real FileManager's output as a property oracle): walking the submitted
   file items in order, an item (n, c) is dropped iff an earlier kept item has content c and was
   submitted as n or ended up named n; otherwise it is the next output file, named n when no
   earlier output has that name and in any case under a name no earlier output has; and there
   are no other output files.  It holds of the model on EVERY history. *)
Theorem C12_model_satisfies_bookkeeping :
  forall h outs, run h = Ok outs -> bookkeeping (file_items h) outs [] = true.
Proof. exact model_satisfies_bookkeeping. Qed.
Print Assumptions C12_model_satisfies_bookkeeping.

(* Text level, for every history without patch items (every item is a named file): the response
   is the list of kept files, each with its submitted text minus exactly the insertion-point
   markers (`strip_markers`, the declarative scanner of the check's oracle 6) — the regexp scan,
   the replacer's key set and the generic replacer agree with it at every position. *)
Theorem C12_no_patch_history_texts :
  forall h m, forallb no_patch_items h = true -> feeds fm0 h = Ok m ->
  build m = map (fun f => (fst f, strip_markers 0 (snd f))) (files m).
Proof. exact no_patch_history_texts. Qed.
Print Assumptions C12_no_patch_history_texts.

(* and for any history, a file that received no patch is written with its markers stripped *)
Theorem C12_unpatched_file_text :
  forall m name content, patches_of m name = [] ->
  build_one m (name, content) = (name, strip_markers 0 content).
Proof. exact build_one_no_patches. Qed.
Print Assumptions C12_unpatched_file_text.

(* Text level WITH patches, for every history whose insertion-point names are over the marker
   alphabet [$.0-9a-zA-Z_] (the empty name included): the response is the list of kept files, each
   with its submitted text in which every marker is replaced by the contents of the patches
   recorded for that point and that file, in submission order (nothing when there is none), every
   other byte kept, and inserted text not scanned again (`expand`, a declarative scanner that
   mentions neither the regexp result list, nor the replacer's key table, nor the replacer). *)
Theorem C12_history_texts :
  forall h m, forallb ips_wf h = true -> feeds fm0 h = Ok m ->
  build m = map (fun f => (fst f, expand (patches_of m (fst f)) 0 (snd f))) (files m).
Proof. exact history_texts. Qed.
Print Assumptions C12_history_texts.

Theorem C12_patched_file_text :
  forall m name content, ips_wf (patches_of m name) = true ->
  build_one m (name, content) = (name, expand (patches_of m name) 0 content).
Proof. exact build_one_patched. Qed.
Print Assumptions C12_patched_file_text.

(* what `expand` does, clause by clause: at a marker the patches of that point in order, then on
   after the marker; any other byte is copied; without patches it is `strip_markers` *)
Theorem C12_expand_at_marker :
  forall ps nm rest, forallb ip_char nm = true ->
  expand ps 0 (marker nm ++ rest) = patch_text (marker nm) ps ++ expand ps 0 rest.
Proof. exact expand_at_marker. Qed.
Print Assumptions C12_expand_at_marker.

Theorem C12_expand_other :
  forall ps c rest, marker_at (c :: rest) = None -> expand ps 0 (c :: rest) = c :: expand ps 0 rest.
Proof. exact expand_other. Qed.
Print Assumptions C12_expand_other.

Theorem C12_expand_without_patches : forall s skip, expand [] skip s = strip_markers skip s.
Proof. exact expand_nil. Qed.
Print Assumptions C12_expand_without_patches.

(* Text level at FULL strength — every history, any insertion point names: each output text is the
   submitted text in which, at every position, the LONGEST key of the file's table that matches
   there (the markers the scanner found in the submitted text and the markers of the patches
   recorded for the file, `table_keys`) is replaced by the patches of that key in submission order,
   a byte where no key matches is copied, and inserted text is not scanned again (`expand_keys`,
   which mentions neither the listing order nor the replacer).  `C12_longest_key_spec` says what
   `longest_key` returns; `C12_history_texts` above is the reading over the marker alphabet, where
   at most one key matches at a position. *)
Theorem C12_history_texts_full :
  forall h m, feeds fm0 h = Ok m ->
  build m = map (fun f => (fst f, expand_keys (table_keys (snd f) (patches_of m (fst f)))
                                              (patches_of m (fst f)) 0 (snd f))) (files m).
Proof. exact history_texts_full. Qed.
Print Assumptions C12_history_texts_full.

Theorem C12_file_text_full :
  forall m name content,
  build_one m (name, content) =
  (name, expand_keys (table_keys content (patches_of m name)) (patches_of m name) 0 content).
Proof. exact build_one_full. Qed.
Print Assumptions C12_file_text_full.

Theorem C12_longest_key_spec :
  forall ks s k, longest_key ks s = Some k ->
  In k ks /\ is_prefix k s = true /\
  forall k', In k' ks -> is_prefix k' s = true -> List.length k' <= List.length k.
Proof. exact longest_key_some. Qed.
Print Assumptions C12_longest_key_spec.

Theorem C12_no_key_matches_spec :
  forall ks s, longest_key ks s = None -> forall k, In k ks -> is_prefix k s = false.
Proof. exact longest_key_none. Qed.
Print Assumptions C12_no_key_matches_spec.

(* The replacer's table is a Go map.  BuildResponse lists its keys in descending string order
   before handing them to strings.NewReplacer (`listed_pairs`): the listing has the table's
   entries, is the same list whatever order the map delivers its entries in, and — the replacer
   preferring the pair listed first — of all keys matching at a position the longest is taken. *)
Theorem C12_listing_keeps_table : forall P k, lookup k (listed_pairs P) = lookup k P.
Proof. exact lookup_listed. Qed.
Print Assumptions C12_listing_keeps_table.

Theorem C12_replacer_table_order_irrelevant :
  forall P P', NoDup (map fst P) -> Permutation P P' -> listed_pairs P = listed_pairs P'.
Proof. exact listed_pairs_order_irrelevant. Qed.
Print Assumptions C12_replacer_table_order_irrelevant.

Theorem C12_longest_key_wins :
  forall P s k v, first_match (listed_pairs P) s = Some (k, v) ->
  forall k', In k' (map fst P) -> is_prefix k' s = true -> List.length k' <= List.length k.
Proof. exact listed_longest_first. Qed.
Print Assumptions C12_longest_key_wins.

(* The marker syntax of the model is the source's: `marker` is fmt.Sprintf(InsertionPointFormat, ip)
   and `ip_char` is the starred character class of insertReg, both as the translator read them from
   plugin/plugin.go and generator/file_manager.go on this run (Gen/MarkerTable.v is regenerated by
   every check; an edit of the format or of the class breaks these theorems). *)
Theorem C12_marker_syntax_is_source :
  forall ip, marker ip = src_marker_head ++ [Byte.x28] ++ ip ++ [Byte.x29].
Proof. exact marker_is_source. Qed.
Print Assumptions C12_marker_syntax_is_source.

Theorem C12_marker_alphabet_is_source : forall c, ip_char c = in_class src_ip_class c.
Proof. exact ip_char_is_source. Qed.
Print Assumptions C12_marker_alphabet_is_source.

(* Termination: for every history the model never exhausts the fuel it gives to the rename walk
   (the Go `for {}` loop) or to the item loop — the walk over own siblings ends, and among the
   candidate names `<stem>_<n><ext>` a free one is reached after at most as many steps as there are
   files (decimal printing is injective, pigeonhole).  So Feed always returns. *)
Theorem C12_feed_terminates : forall h, run h <> Fuel.
Proof. exact run_never_out_of_fuel. Qed.
Print Assumptions C12_feed_terminates.

Theorem C12_renamed_names_distinct : forall name a b, renamed name a = renamed name b -> a = b.
Proof. exact renamed_inj. Qed.
Print Assumptions C12_renamed_names_distinct.

(* Non-vacuity: concrete histories exercising the premises. *)
From Coq Require Import String.
Open Scope string_scope.
Example C12_example_rename :
  run [[Fl (B "a_1.go") (B "X"); Fl (B "a.go") (B "A"); Fl (B "a.go") (B "B")]]
  = Ok [(B "a_1.go", B "X"); (B "a.go", B "A"); (B "a_2.go", B "B")].
Proof. vm_compute. reflexivity. Qed.

Example C12_example_patches :
  run [[Fl (B "a.go") (B "x@@thriftgo_insertion_point(p)y@@thriftgo_insertion_point(q)");
        Up (B "p") (B "1"); Up (B "p") (B "2")]; [Np (B "a.go") (B "p") (B "3")]]
  = Ok [(B "a.go", B "x123y")].
Proof. vm_compute. reflexivity. Qed.

Example C12_example_patches_in_domain :
  forallb ips_wf [[Fl (B "a.go") (B "x@@thriftgo_insertion_point(p)y@@thriftgo_insertion_point(q)");
        Up (B "p") (B "1"); Up (B "p") (B "2")]; [Np (B "a.go") (B "p") (B "3")]] = true.
Proof. vm_compute. reflexivity. Qed.

(* an insertion point name outside the marker alphabet: one key is a prefix of the other *)
Example C12_example_overlapping_keys :
  run [[Fl (B "a.go") (B "x@@thriftgo_insertion_point(a)b)y@@thriftgo_insertion_point(a)z");
        Up (B "a") (B "1"); Up (B "a)b") (B "2")]]
  = Ok [(B "a.go", B "x2y1z")].
Proof. vm_compute. reflexivity. Qed.
