package idlmut

// CommandLine is an invalid thriftgo command line.  Args uses the placeholders
// {OUT} (the output directory of the run) and {MAIN} (the main IDL file).
type CommandLine struct {
	Site string
	What string
	Args []string
}

// CommandLines lists the invalid command lines of the catalogue (rule BadCommandLine).
func CommandLines() []CommandLine {
	return []CommandLine{
		{"no-generator", "no -g option", []string{"-o", "{OUT}", "{MAIN}"}},
		{"unknown-language", "-g java", []string{"-g", "java", "-o", "{OUT}", "{MAIN}"}},
		{"no-idl", "no IDL argument", []string{"-g", "go", "-o", "{OUT}"}},
		{"two-idl", "two IDL arguments", []string{"-g", "go", "-o", "{OUT}", "{MAIN}", "{MAIN}"}},
		{"unknown-flag", "--bogus", []string{"--bogus", "-g", "go", "-o", "{OUT}", "{MAIN}"}},
		{"flag-without-value", "-o without a value", []string{"-g", "go", "-o"}},
		{"bad-flag-value", "--plugin-time-limit abc", []string{"--plugin-time-limit", "abc", "-g", "go", "-o", "{OUT}", "{MAIN}"}},
		{"empty-generator", "-g \"\"", []string{"-g", "", "-o", "{OUT}", "{MAIN}"}},
		{"unknown-plugin", "-p nosuchplugin", []string{"-g", "go", "-p", "nosuchplugin", "-o", "{OUT}", "{MAIN}"}},
		{"second-language-unknown", "-g go -g java (the go output is written before java is looked at)", []string{"-g", "go", "-g", "java", "-o", "{OUT}", "{MAIN}"}},
		{"empty-language", "-g :x (options without a language)", []string{"-g", ":x", "-o", "{OUT}", "{MAIN}"}},
	}
}
