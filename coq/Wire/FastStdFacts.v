(* Wire/FastStdFacts.v — the bytes FastAppend writes are read back by the reference codec and by the
   standard generated Read as the value (Wire/Fast.v, Wire/Std.v).

     from_w_sortw           the standard Read does not depend on the order of the fields of a struct (at any
                            level) as long as the ids of each struct are distinct and the read succeeds
     to_w_uniq              what the standard Write emits for a well-typed value has distinct ids per struct
     wf_sortw               sorting keeps a wire value well formed
     fast_append_std_read   dec_struct / read_bytes on fast_append e s v (followed by anything) = norm v     *)
From Coq Require Import List ZArith Bool Lia Permutation Sorted.
From Coq.Strings Require Import Byte.
From Verif Require Import Base.Bytes Base.BE Wire.TType Wire.WVal Wire.Codec Wire.CodecFacts
  Wire.Schema Wire.Value Wire.GenTables Wire.FastTables Wire.Std Wire.StdFacts Wire.Fast Wire.FastFacts Wire.FastReadFacts.
Import ListNotations.
Open Scope Z_scope.

(* ------------------------------------------------------------------ one step of the standard reader, state-free *)

(* what a wire field does to the reader state: nothing (skipped), or one slot update *)
Definition upd (e : env) (s : sschema) (wf : wfield) : result (option (Z * value * bool)) :=
  match find_field (snd (fst wf)) (s_fields s) with
  | Some f =>
      if ttype_eqb (fst (fst wf)) (ttype_of e (f_ty f)) then
        bind (from_w e (f_ty f) (snd wf)) (fun v => Ok (Some (f_id f, wrap_slot f v, is_required f)))
      else Ok None
  | None => Ok None
  end.

Definition apply_upd (st : rstate) (u : option (Z * value * bool)) : rstate :=
  match u with
  | None => st
  | Some (id, v, rq) => (set_field id v (fst st), if rq then id :: snd st else snd st)
  end.

Lemma read_step_upd e s st wf :
  read_step e s st wf = match upd e s wf with Err x => Err x | Ok u => Ok (apply_upd st u) end.
Proof.
  unfold read_step, upd. destruct (find_field (snd (fst wf)) (s_fields s)) as [f|]; [|reflexivity].
  destruct (ttype_eqb (fst (fst wf)) (ttype_of e (f_ty f))); [|reflexivity].
  destruct (from_w e (f_ty f) (snd wf)); reflexivity.
Qed.

Lemma upd_key e s wf id v rq : upd e s wf = Ok (Some (id, v, rq)) -> id = wkey wf.
Proof.
  unfold upd, wkey. destruct (find_field (snd (fst wf)) (s_fields s)) as [f|] eqn:Hf; [|discriminate].
  destruct (ttype_eqb (fst (fst wf)) (ttype_of e (f_ty f))); [|discriminate].
  destruct (from_w e (f_ty f) (snd wf)); [|discriminate]. cbn [bind]. intros [= <- _ _].
  apply (find_field_In _ _ _ Hf).
Qed.

(* states up to the order in which required ids were seen *)
Definition steq (a b : rstate) : Prop := fst a = fst b /\ Permutation (snd a) (snd b).

Lemma steq_refl a : steq a a.
Proof. split; reflexivity. Qed.

Lemma apply_upd_steq a b u : steq a b -> steq (apply_upd a u) (apply_upd b u).
Proof.
  intros [H1 H2]. destruct u as [[[id v] rq]|]; [|split; assumption]. cbn [apply_upd fst snd]. split.
  - rewrite H1. reflexivity.
  - destruct rq; [constructor|]; assumption.
Qed.

Lemma set_field_comm id1 v1 id2 v2 fs : id1 <> id2 ->
  set_field id1 v1 (set_field id2 v2 fs) = set_field id2 v2 (set_field id1 v1 fs).
Proof.
  intro Hne. unfold set_field. rewrite !map_map. apply map_ext. intros [i x]. cbn [fst snd].
  destruct (Z.eqb_spec i id2) as [->|H2]; cbn [fst snd].
  - destruct (Z.eqb_spec id2 id1) as [E|_]; [congruence|]. cbn [fst]. rewrite Z.eqb_refl. reflexivity.
  - destruct (Z.eqb_spec i id1) as [->|H1]; cbn [fst]; [|destruct (Z.eqb_spec i id2); [congruence | reflexivity]].
    destruct (Z.eqb_spec id1 id2); [congruence | reflexivity].
Qed.

Lemma apply_upd_comm st u1 u2 :
  (forall id1 v1 r1 id2 v2 r2, u1 = Some (id1, v1, r1) -> u2 = Some (id2, v2, r2) -> id1 <> id2) ->
  steq (apply_upd (apply_upd st u1) u2) (apply_upd (apply_upd st u2) u1).
Proof.
  intro Hne. destruct u1 as [[[id1 v1] r1]|], u2 as [[[id2 v2] r2]|]; try apply steq_refl.
  specialize (Hne _ _ _ _ _ _ eq_refl eq_refl). cbn [apply_upd fst snd]. split.
  - apply set_field_comm. congruence.
  - destruct r1, r2; try reflexivity. apply perm_swap.
Qed.

Lemma foldM_steq e s l : forall a b sa,
  steq a b -> foldM (read_step e s) l a = Ok sa -> exists sb, foldM (read_step e s) l b = Ok sb /\ steq sa sb.
Proof.
  induction l as [|x l IH]; intros a b sa Hab H; cbn [foldM] in *.
  - injection H as <-. exists b. split; [reflexivity | assumption].
  - rewrite read_step_upd in *. destruct (upd e s x) as [u|]; [|discriminate].
    apply (IH _ _ _ (apply_upd_steq a b u Hab) H).
Qed.

Lemma foldM_perm e s l l' : Permutation l l' -> NoDup (map wkey l) -> forall a b sa,
  steq a b -> foldM (read_step e s) l a = Ok sa -> exists sb, foldM (read_step e s) l' b = Ok sb /\ steq sa sb.
Proof.
  induction 1 as [|x l l' Hp IH|x y l|l l' l'' Hp1 IH1 Hp2 IH2]; intros Hnd a b sa Hab H.
  - cbn [foldM] in *. injection H as <-. exists b. split; [reflexivity | assumption].
  - cbn [foldM] in *. rewrite read_step_upd in *. destruct (upd e s x) as [u|]; [|discriminate].
    inversion Hnd; subst. apply (IH ltac:(assumption) _ _ _ (apply_upd_steq a b u Hab) H).
  - cbn [foldM] in *. rewrite !read_step_upd in *.
    destruct (upd e s y) as [uy|] eqn:Ey; [|discriminate]. rewrite read_step_upd in H.
    destruct (upd e s x) as [ux|] eqn:Ex; [|discriminate].
    rewrite read_step_upd, Ey.
    apply (foldM_steq e s l _ _ _) with (2 := H).
    assert (Hc : steq (apply_upd (apply_upd a uy) ux) (apply_upd (apply_upd a ux) uy)).
    { apply apply_upd_comm. intros id1 v1 r1 id2 v2 r2 -> ->.
      rewrite (upd_key _ _ _ _ _ _ Ey), (upd_key _ _ _ _ _ _ Ex).
      inversion Hnd as [|? ? Hnot _]; subst. intro E. apply Hnot. cbn [map]. left. congruence. }
    destruct Hc as [Hc1 Hc2]. destruct Hab as [Hab1 Hab2].
    pose proof (apply_upd_steq _ _ uy (apply_upd_steq a b ux (conj Hab1 Hab2))) as [Hd1 Hd2].
    split; [congruence | eapply perm_trans; eassumption].
  - destruct (IH1 Hnd a a sa (steq_refl a) H) as (sm & Hm & Hsm).
    assert (Hnd' : NoDup (map wkey l')) by (eapply Permutation_NoDup; [apply Permutation_map; exact Hp1 | exact Hnd]).
    destruct (IH2 Hnd' a b sm Hab Hm) as (sb & Hb & Hsb). exists sb. split; [assumption|].
    destruct Hsm, Hsb. split; [congruence | eapply perm_trans; eassumption].
Qed.

Lemma existsb_perm (p : Z -> bool) l l' : Permutation l l' -> existsb p l = existsb p l'.
Proof.
  induction 1; cbn [existsb]; try congruence.
  - destruct (p y), (p x); reflexivity.
Qed.

Lemma finish_read_steq s a b : steq a b -> finish_read s a = finish_read s b.
Proof.
  intros [H1 H2]. unfold finish_read, first_missing.
  assert (E : filter (fun f => is_required f && negb (existsb (Z.eqb (f_id f)) (snd a))) (s_fields s) =
              filter (fun f => is_required f && negb (existsb (Z.eqb (f_id f)) (snd b))) (s_fields s)).
  { apply filter_ext. intro f. rewrite (existsb_perm _ _ _ H2). reflexivity. }
  rewrite E, H1. reflexivity.
Qed.

(* ------------------------------------------------------------------ sorting the fields does not change what is read *)

Fixpoint uniqb (w : wval) : bool :=
  match w with
  | WStruct fs => nodupZ (map wkey fs) && forallb (fun f => uniqb (snd f)) fs
  | WMap _ _ kvs => forallb (fun kv => uniqb (fst kv) && uniqb (snd kv)) kvs
  | WSet _ l | WList _ l => forallb uniqb l
  | _ => true
  end.

Lemma sort_wfields_perm l : Permutation l (sort_wfields l).
Proof.
  unfold sort_wfields.
  pose proof (Permutation_map snd (sort_by_id_perm (map (fun f : wfield => (wkey f, f)) l))) as H.
  rewrite map_map in H. cbn [snd] in H. rewrite map_id in H. exact H.
Qed.

Lemma mapM_map_ok {A B} (f g : A -> result B) l ys :
  Forall (fun x => forall y, f x = Ok y -> g x = Ok y) l -> mapM f l = Ok ys -> mapM g l = Ok ys.
Proof.
  revert ys. induction l as [|x l IH]; intros ys Hall H; [exact H|]. inversion Hall as [|? ? Hx Hrest]; subst.
  cbn [mapM] in *. destruct (f x) as [y|] eqn:E; [|discriminate]. rewrite (Hx y eq_refl).
  destruct (mapM f l) as [ys'|] eqn:E2; [|discriminate]. rewrite (IH ys' Hrest eq_refl). exact H.
Qed.

Lemma mapM_compose {A B C} (f : B -> result C) (g : A -> B) l : mapM f (map g l) = mapM (fun x => f (g x)) l.
Proof. induction l as [|x l IH]; [reflexivity|]. cbn [map mapM]. rewrite IH. reflexivity. Qed.

Definition sort_ok (e : env) (w : wval) : Prop :=
  forall t v, uniqb w = true -> from_w e t w = Ok v -> from_w e t (sortw w) = Ok v.

Theorem from_w_sortw e : forall w, sort_ok e w.
Proof.
  intro w. induction w using wval_ind2; intros t v Hu Hr; try exact Hr.
  - (* struct *)
    destruct t; try discriminate. rewrite sortw_struct. rewrite from_w_struct in *.
    destruct (find_struct e name) as [s|]; [|discriminate].
    destruct (foldM (read_step e s) fs (new_fields s, [])) as [st1|] eqn:Hfold; [|discriminate]. cbn [bind] in Hr.
    cbn [uniqb] in Hu. apply andb_true_iff in Hu. destruct Hu as [Hnd Hall]. apply nodupZ_NoDup in Hnd.
    (* (i) the payloads *)
    assert (H1 : forall st st', foldM (read_step e s) fs st = Ok st' -> foldM (read_step e s) (map sortw_field fs) st = Ok st').
    { clear Hfold Hr Hnd. induction fs as [|[[tt id] x] fs IHfs]; intros st st' Hf; [exact Hf|].
      inversion H as [|? ? Hx Hrest]; subst. cbn [forallb snd] in Hall. apply andb_true_iff in Hall. destruct Hall as [Hux Hall].
      cbn [map foldM] in *. unfold sortw_field at 1. cbn [fst snd].
      assert (E : forall st0 st1, read_step e s st0 (tt, id, x) = Ok st1 -> read_step e s st0 (tt, id, sortw x) = Ok st1).
      { intros st0 st2. unfold read_step. cbn [fst snd]. destruct (find_field id (s_fields s)) as [f|]; [|trivial].
        destruct (ttype_eqb tt (ttype_of e (f_ty f))); [|trivial].
        destruct (from_w e (f_ty f) x) as [vx|] eqn:Ev; [|discriminate]. cbn [snd] in Hx. rewrite (Hx _ _ Hux Ev). trivial. }
      destruct (read_step e s st (tt, id, x)) as [st2|] eqn:Es; [|discriminate]. rewrite (E _ _ Es).
      apply (IHfs Hrest Hall _ _ Hf). }
    specialize (H1 _ _ Hfold).
    (* (ii) the order *)
    assert (Hk : map wkey (map sortw_field fs) = map wkey fs) by (rewrite map_map; apply map_ext; intros [[? ?] ?]; reflexivity).
    destruct (foldM_perm e s _ _ (sort_wfields_perm (map sortw_field fs)) ltac:(rewrite Hk; exact Hnd) _ _ _ (steq_refl _) H1)
      as (sb & Hb & Hsb).
    rewrite Hb. cbn [bind]. rewrite <- (finish_read_steq s _ _ Hsb). exact Hr.
  - (* map *)
    destruct t; try discriminate. cbn [sortw from_w] in *. rewrite map_length.
    destruct ((ttype_eqb kt (ttype_of e t1) && ttype_eqb vt (ttype_of e t2)) || (length kvs =? 0)%nat); [|discriminate].
    set (g := fun kv : wval * wval => bind (from_w e t1 (fst kv)) (fun k => bind (from_w e t2 (snd kv)) (fun x => Ok (k, x)))) in *.
    destruct (mapM g kvs) as [xs|] eqn:Hm; [|discriminate].
    rewrite mapM_compose.
    rewrite (mapM_map_ok g (fun kv => g (sortw (fst kv), sortw (snd kv))) kvs xs); [exact Hr | | exact Hm].
    cbn [uniqb] in Hu. rewrite forallb_forall in Hu. rewrite Forall_forall in *. intros [k x] Hkv y Hy.
    destruct (H _ Hkv) as [IHk IHx]. specialize (Hu _ Hkv). cbn [fst snd] in *. apply andb_true_iff in Hu. destruct Hu as [Huk Hux].
    unfold g in *. cbn [fst snd] in *.
    destruct (from_w e t1 k) as [vk|] eqn:E1; [|discriminate]. destruct (from_w e t2 x) as [vx|] eqn:E2; [|discriminate].
    rewrite (IHk _ _ Huk E1), (IHx _ _ Hux E2). exact Hy.
  - (* set *)
    destruct t; try discriminate. cbn [sortw from_w] in *. rewrite map_length.
    destruct (ttype_eqb et (ttype_of e t) || (length l =? 0)%nat); [|discriminate].
    destruct (mapM (from_w e t) l) as [xs|] eqn:Hm; [|discriminate].
    rewrite mapM_compose. rewrite (mapM_map_ok (from_w e t) (fun x => from_w e t (sortw x)) l xs); [exact Hr | | exact Hm].
    cbn [uniqb] in Hu. rewrite forallb_forall in Hu. rewrite Forall_forall in *. intros x Hx y Hy. apply (H _ Hx); auto.
  - (* list *)
    destruct t; try discriminate. cbn [sortw from_w] in *. rewrite map_length.
    destruct (ttype_eqb et (ttype_of e t) || (length l =? 0)%nat); [|discriminate].
    destruct (mapM (from_w e t) l) as [xs|] eqn:Hm; [|discriminate].
    rewrite mapM_compose. rewrite (mapM_map_ok (from_w e t) (fun x => from_w e t (sortw x)) l xs); [exact Hr | | exact Hm].
    cbn [uniqb] in Hu. rewrite forallb_forall in Hu. rewrite Forall_forall in *. intros x Hx y Hy. apply (H _ Hx); auto.
Qed.

(* ------------------------------------------------------------------ sorting keeps well-formedness *)

Lemma wtype_sortw w : wtype (sortw w) = wtype w.
Proof. destruct w; reflexivity. Qed.

Theorem wf_sortw : forall w, wf w -> wf (sortw w).
Proof.
  intro w. induction w using wval_ind2; intro Hwf; try exact Hwf.
  - rewrite sortw_struct. apply wf_struct_iff in Hwf. apply wf_struct_iff.
    eapply Permutation_Forall; [apply sort_wfields_perm|].
    rewrite Forall_forall in *. intros f Hf. apply in_map_iff in Hf. destruct Hf as (f0 & <- & Hf0).
    destruct (Hwf _ Hf0) as (H1 & H2 & H3). unfold sortw_field. cbn [fst snd]. rewrite wtype_sortw.
    split; [exact H1|]. split; [exact H2|]. apply (H _ Hf0). exact H3.
  - cbn [sortw]. apply wf_map_iff in Hwf. destruct Hwf as [Hl Hall]. apply wf_map_iff. rewrite map_length. split; [exact Hl|].
    rewrite Forall_forall in *. intros kv Hkv. apply in_map_iff in Hkv. destruct Hkv as (kv0 & <- & Hkv0).
    destruct (Hall _ Hkv0) as (H1 & H2 & H3 & H4). destruct (H _ Hkv0) as [IHk IHx]. cbn [fst snd]. rewrite !wtype_sortw. auto.
  - cbn [sortw]. apply wf_set_iff in Hwf. destruct Hwf as [Hl Hall]. apply wf_set_iff. rewrite map_length. split; [exact Hl|].
    rewrite Forall_forall in *. intros x Hx. apply in_map_iff in Hx. destruct Hx as (x0 & <- & Hx0).
    destruct (Hall _ Hx0) as (H1 & H2). rewrite wtype_sortw. auto.
  - cbn [sortw]. apply wf_list_iff in Hwf. destruct Hwf as [Hl Hall]. apply wf_list_iff. rewrite map_length. split; [exact Hl|].
    rewrite Forall_forall in *. intros x Hx. apply in_map_iff in Hx. destruct Hx as (x0 & <- & Hx0).
    destruct (Hall _ Hx0) as (H1 & H2). rewrite wtype_sortw. auto.
Qed.

(* ------------------------------------------------------------------ the standard Write emits distinct ids per struct *)

Lemma to_w_nil_uniq e t w : to_w e t VNil = Ok w -> uniqb w = true.
Proof.
  destruct t; cbn [to_w]; try discriminate; try (intros [= <-]; reflexivity).
  destruct (find_struct e name) as [s|]; [|discriminate]. destruct (is_union s); [discriminate|]. intros [= <-]. reflexivity.
Qed.

Lemma keys_of_somes (fs : list (Z * value)) (ofs : list (option wfield)) :
  Forall2 (fun p o => forall wf, o = Some wf -> wkey wf = fst p) fs ofs ->
  forall k, In k (map wkey (cat_somes ofs)) -> In k (map fst fs).
Proof.
  induction 1 as [|p o fs ofs Hpo _ IH]; intros k Hk; [exact Hk|].
  destruct o as [wf|]; cbn [cat_somes map] in *.
  - destruct Hk as [<-|Hk]; [left; symmetry; apply Hpo; reflexivity | right; apply IH; exact Hk].
  - right. apply IH. exact Hk.
Qed.

Lemma nodup_of_somes (fs : list (Z * value)) (ofs : list (option wfield)) :
  Forall2 (fun p o => forall wf, o = Some wf -> wkey wf = fst p) fs ofs ->
  NoDup (map fst fs) -> NoDup (map wkey (cat_somes ofs)).
Proof.
  intro H2. induction H2 as [|p o fs ofs Hpo Hrest IH]; intro Hnd; [constructor|].
  inversion Hnd as [|? ? Hnot Hnd']; subst. destruct o as [wf|]; cbn [cat_somes map].
  - constructor; [|apply IH; exact Hnd']. rewrite (Hpo wf eq_refl). intro Hin. apply Hnot.
    apply (keys_of_somes _ _ Hrest). exact Hin.
  - apply IH. exact Hnd'.
Qed.

Definition uniq_ok (e : env) (v : value) : Prop :=
  forall t key w, wt_val e key t v = true -> to_w e t v = Ok w -> uniqb w = true.

Section Uniq.
  Variable e : env.
  Hypothesis Henv : wf_env e = true.

  Lemma to_w_uniq_aux : forall v, uniq_ok e v /\ match v with VSome x => uniq_ok e x | _ => True end.
  Proof.
    intro v. induction v using value_ind2; (split; [| try exact I]); try (apply IHv); intros t key w Hwt Hw.
    - destruct t; try discriminate. injection Hw as <-. reflexivity.
    - destruct t; try discriminate; injection Hw as <-; reflexivity.
    - destruct t; try discriminate. injection Hw as <-. reflexivity.
    - destruct t; try discriminate. injection Hw as <-. reflexivity.
    - destruct t; try discriminate. injection Hw as <-. reflexivity.
    - (* list *)
      destruct t; try discriminate; cbn [to_w wt_val] in *.
      + destruct (mapM (to_w e t) l) as [ws|] eqn:Hm; [|discriminate]. injection Hw as <-. cbn [uniqb].
        apply andb_true_iff in Hwt. destruct Hwt as [_ Hall]. rewrite forallb_forall in Hall.
        apply mapM_Forall2 in Hm. apply forallb_forall. intros x Hx.
        clear -H Hall Hm Hx. induction Hm as [|a b l ws Hab _ IH]; [destruct Hx|].
        inversion H as [|? ? [Ha _] Hrest]; subst. destruct Hx as [<-|Hx].
        * apply (Ha t false); [apply Hall; left; reflexivity | exact Hab].
        * apply IH; try assumption. intros y Hy. apply Hall. right. exact Hy.
      + destruct (set_has_dup l); [discriminate|].
        destruct (mapM (to_w e t) l) as [ws|] eqn:Hm; [|discriminate]. injection Hw as <-. cbn [uniqb].
        apply andb_true_iff in Hwt. destruct Hwt as [Hwt _]. apply andb_true_iff in Hwt. destruct Hwt as [_ Hall].
        rewrite forallb_forall in Hall.
        apply mapM_Forall2 in Hm. apply forallb_forall. intros x Hx.
        clear -H Hall Hm Hx. induction Hm as [|a b l ws Hab _ IH]; [destruct Hx|].
        inversion H as [|? ? [Ha _] Hrest]; subst. destruct Hx as [<-|Hx].
        * apply (Ha t false); [apply Hall; left; reflexivity | exact Hab].
        * apply IH; try assumption. intros y Hy. apply Hall. right. exact Hy.
    - (* map *)
      destruct t; try discriminate; cbn [to_w wt_val] in *.
      match type of Hw with bind (mapM ?F kvs) _ = _ => set (f := F) in * end.
      destruct (mapM f kvs) as [ws|] eqn:Hm; [|discriminate]. injection Hw as <-. cbn [uniqb].
      apply andb_true_iff in Hwt. destruct Hwt as [Hwt _]. apply andb_true_iff in Hwt. destruct Hwt as [_ Hall].
      rewrite forallb_forall in Hall.
      apply mapM_Forall2 in Hm. apply forallb_forall. intros x Hx.
      clear -H Hall Hm Hx. induction Hm as [|a b l ws Hab _ IH]; [destruct Hx|].
      inversion H as [|? ? [[Hk _] [Hv _]] Hrest]; subst. destruct Hx as [<-|Hx].
      * specialize (Hall a (or_introl eq_refl)). apply andb_true_iff in Hall. destruct Hall as [Hak Hav].
        unfold f in Hab. destruct (to_w e t1 (fst a)) as [wk|] eqn:E1; [|discriminate].
        destruct (to_w e t2 (snd a)) as [wx|] eqn:E2; [|discriminate]. injection Hab as <-. cbn [fst snd].
        rewrite (Hk _ _ _ Hak E1), (Hv _ _ _ Hav E2). reflexivity.
      * apply IH; try assumption. intros y Hy. apply Hall. right. exact Hy.
    - (* struct *)
      destruct t; try discriminate. rewrite to_w_struct in Hw. rewrite wt_struct_eq in Hwt.
      destruct (find_struct e name) as [s|] eqn:Hs; [|discriminate]. cbn zeta in Hw.
      destruct (is_union s && negb (count_set (s_fields s) fs =? 1)%nat); [discriminate|].
      destruct (mapM (wfield_fn e s) fs) as [ofs|] eqn:Hm; [|discriminate]. injection Hw as <-.
      apply andb_true_iff in Hwt. destruct Hwt as [Hwt _]. apply andb_true_iff in Hwt. destruct Hwt as [Hids Hslots].
      apply list_eqbZ_eq in Hids. rewrite forallb_forall in Hslots.
      apply mapM_Forall2 in Hm.
      assert (Hper : Forall2 (fun p o => forall wf, o = Some wf -> wkey wf = fst p /\ uniqb (snd wf) = true) fs ofs).
      { clear Hids. induction Hm as [|p o fs' ofs' Hpo _ IH]; [constructor|].
        inversion H as [|? ? Hp Hrest]; subst. constructor; [|apply IH; [assumption | intros q Hq; apply Hslots; right; exact Hq]].
        intros wf ->. specialize (Hslots p (or_introl eq_refl)). unfold slot_ok in Hslots. unfold wfield_fn in Hpo.
        destruct (find_field (fst p) (s_fields s)) as [f|] eqn:Hf; [|discriminate].
        destruct (find_field_In _ _ _ Hf) as [_ Hid].
        destruct (present f (snd p)); [|discriminate].
        destruct (base_ptr f).
        - destruct (snd p) as [| | | | | | | | |x] eqn:Es; try discriminate.
          destruct (to_w e (f_ty f) x) as [wx|] eqn:E1; [|discriminate]. injection Hpo as <-.
          cbn [wkey fst snd]. split; [exact Hid|]. destruct Hp as [_ Hp]. apply (Hp _ false _ Hslots E1).
        - destruct (to_w e (f_ty f) (snd p)) as [wx|] eqn:E1; [|discriminate]. injection Hpo as <-.
          cbn [wkey fst snd]. split; [exact Hid|].
          destruct (is_optional f && is_nil (snd p)) eqn:Eo.
          + apply andb_true_iff in Eo. destruct Eo as [_ En]. destruct (snd p); try discriminate. apply (to_w_nil_uniq _ _ _ E1).
          + destruct Hp as [Hp _]. apply (Hp _ false _ Hslots E1). }
      cbn [uniqb]. apply andb_true_iff. split.
      + apply nodupZ_NoDup. apply (nodup_of_somes fs ofs).
        * clear -Hper. induction Hper as [|p o fs ofs Hpo _ IH]; constructor; [|exact IH]. intros wf Hwf. apply (Hpo wf Hwf).
        * rewrite Hids. apply wf_struct_nodup. apply (wf_env_struct e name); assumption.
      + apply forallb_forall. intros wf Hin. clear -Hper Hin.
        induction Hper as [|p o fs ofs Hpo _ IH]; [destruct Hin|].
        destruct o as [wf0|]; cbn [cat_somes] in Hin; [|apply IH; exact Hin].
        destruct Hin as [<-|Hin]; [apply (Hpo wf0 eq_refl) | apply IH; exact Hin].
    - apply (to_w_nil_uniq _ _ _ Hw).
    - discriminate.
  Qed.

  Theorem to_w_uniq v t key w : wt_val e key t v = true -> to_w e t v = Ok w -> uniqb w = true.
  Proof. apply (to_w_uniq_aux v). Qed.
End Uniq.

(* ------------------------------------------------------------------ the bytes of FastAppend, read back *)

(* for every schema, struct-like and well-typed value: FastAppend writes the encoding of a well-formed wire
   struct (the reference decoder gives it back, whatever follows), and the standard generated Read, started
   from NewX(), turns those bytes into the value (its normal form: what the standard Write/Read round trip
   shows, C02_write_read) *)
Theorem fast_append_std_read e s v :
  wf_env e = true -> find_struct e (s_name s) = Some s -> wt e s v = true ->
  exists w, wf w /\
    (forall rest, dec_struct (fast_append e s v ++ rest) = Some (w, rest)) /\
    read_new e s w = Ok (norm_struct e s v) /\
    (forall rest, read_bytes e s (new_struct e s) (fast_append e s v ++ rest) = Ok (norm_struct e s v)).
Proof.
  intros Henv Hs Hwt. destruct (write_read e s v Henv Hs Hwt) as (wfs & Hw & Hr).
  pose proof (to_w_wf e Henv v _ _ _ (wt_wt_val _ _ _ Hwt) Hw) as [Hwf _].
  pose proof (to_w_uniq e Henv v _ _ _ (wt_wt_val _ _ _ Hwt) Hw) as Hu.
  pose proof (wf_sortw _ Hwf) as Hwfs.
  rewrite (fast_append_is_std e s v _ Hw).
  assert (Hr' : read_new e s (sortw (WStruct wfs)) = Ok (norm_struct e s v)).
  { unfold read_new, from_wire, new_struct in *. rewrite sortw_struct.
    pose proof (from_w_sortw e (WStruct wfs) (TRef (s_name s)) (norm_struct e s v) Hu) as H.
    rewrite sortw_struct, !from_w_struct, Hs in H. apply H. exact Hr. }
  exists (sortw (WStruct wfs)). split; [exact Hwfs|]. rewrite sortw_struct in *.
  split; [intro rest; apply dec_struct_enc; exact Hwfs|]. split; [exact Hr'|].
  intro rest. unfold read_bytes. rewrite dec_struct_enc by exact Hwfs. exact Hr'.
Qed.
