package main

import (
	"encoding/json"
	"fmt"
	"reflect"
)

// Verbs of property C18 (generated DeepEqual, validate_set inside Write):
//
//	deepeq   <unit> <struct> <x> <y>   -> {"xy","yx","xx","yy": "true"|"false"|"panic"|"missing", "msgs":[...]}
//	writeset <unit> <struct> <x>       -> {"err":class}
//
// x, y are in the JSON value form of harness/valgen extended with addresses: a pointer node
// ({"s":[...]} or {"p":v}) may carry "@":N; inside one command, nodes with the same N and the same
// Go type are built once and shared (the same Go pointer). A top-level null is a nil *T.

type addrKey struct {
	a int64
	t reflect.Type
}

type heapTab map[addrKey]reflect.Value

func addrOf(m map[string]interface{}) (int64, bool) {
	n, ok := m["@"].(json.Number)
	if !ok {
		return 0, false
	}
	a, err := n.Int64()
	return a, err == nil
}

// FillHeap is Fill with pointer sharing through the "@" annotations.
func FillHeap(rv reflect.Value, raw interface{}, tab heapTab) {
	switch rv.Kind() {
	case reflect.Ptr:
		if raw == nil {
			return
		}
		m, ok := raw.(map[string]interface{})
		if !ok {
			panic("driver: pointer needs an object form")
		}
		a, has := addrOf(m)
		if has {
			if old, ok := tab[addrKey{a, rv.Type()}]; ok {
				rv.Set(old)
				return
			}
		}
		nv := reflect.New(rv.Type().Elem())
		if has {
			tab[addrKey{a, rv.Type()}] = nv
		}
		if rv.Type().Elem().Kind() == reflect.Struct {
			FillHeap(nv.Elem(), raw, tab)
		} else {
			FillHeap(nv.Elem(), m["p"], tab)
		}
		rv.Set(nv)
	case reflect.Struct:
		if raw == nil {
			return
		}
		m, ok := raw.(map[string]interface{})
		if !ok {
			panic("driver: struct needs {\"s\":...}")
		}
		fs := ThriftFields(rv.Type())
		for _, e := range m["s"].([]interface{}) {
			kv := e.([]interface{})
			id64, _ := kv[0].(json.Number).Int64()
			found := false
			for _, f := range fs {
				if f.ID == int(id64) {
					FillHeap(rv.Field(f.Index), kv[1], tab)
					found = true
					break
				}
			}
			if !found {
				panic(fmt.Sprintf("driver: no field with thrift id %d in %s", id64, rv.Type()))
			}
		}
	case reflect.Slice:
		if raw == nil {
			return
		}
		if rv.Type().Elem().Kind() == reflect.Uint8 {
			Fill(rv, raw)
			return
		}
		arr := raw.([]interface{})
		s := reflect.MakeSlice(rv.Type(), len(arr), len(arr))
		for i, e := range arr {
			FillHeap(s.Index(i), e, tab)
		}
		rv.Set(s)
	case reflect.Map:
		if raw == nil {
			return
		}
		arr := raw.(map[string]interface{})["m"].([]interface{})
		m := reflect.MakeMapWithSize(rv.Type(), len(arr))
		for _, e := range arr {
			kv := e.([]interface{})
			k := reflect.New(rv.Type().Key()).Elem()
			v := reflect.New(rv.Type().Elem()).Elem()
			FillHeap(k, kv[0], tab)
			FillHeap(v, kv[1], tab)
			m.SetMapIndex(k, v)
		}
		if m.Len() != len(arr) {
			panic("driver: map entries collapsed (the harness must send distinct keys)")
		}
		rv.Set(m)
	default:
		Fill(rv, raw)
	}
}

// buildHeap returns a (possibly nil) *T for the registered type.
func buildHeap(unit, qname, js string, tab heapTab) reflect.Value {
	pt := reflect.TypeOf(New(unit, qname))
	slot := reflect.New(pt).Elem()
	FillHeap(slot, ParseValue(js), tab)
	return slot
}

func callDeepEqual(x, y reflect.Value) (res string, msg string) {
	defer func() {
		if r := recover(); r != nil {
			res, msg = "panic", fmt.Sprint(r)
		}
	}()
	m, ok := x.Type().MethodByName("DeepEqual")
	if !ok {
		return "missing", ""
	}
	out := m.Func.Call([]reflect.Value{x, y})
	if len(out) != 1 || out[0].Kind() != reflect.Bool {
		return "missing", "unexpected signature"
	}
	if out[0].Bool() {
		return "true", ""
	}
	return "false", ""
}

func init() {
	RegisterCommand("deepeq", func(a []string) interface{} {
		tab := heapTab{}
		x := buildHeap(a[0], a[1], a[2], tab)
		y := buildHeap(a[0], a[1], a[3], tab)
		res := map[string]interface{}{}
		var msgs []string
		for _, c := range []struct {
			name string
			p, q reflect.Value
		}{{"xy", x, y}, {"yx", y, x}, {"xx", x, x}, {"yy", y, y}} {
			r, msg := callDeepEqual(c.p, c.q)
			res[c.name] = r
			if msg != "" {
				msgs = append(msgs, c.name+": "+msg)
			}
		}
		if len(msgs) > 0 {
			res["msgs"] = msgs
		}
		return res
	})

	RegisterCommand("writeset", func(a []string) interface{} {
		tab := heapTab{}
		x := buildHeap(a[0], a[1], a[2], tab)
		if x.IsNil() {
			panic("driver: writeset needs a non-nil object")
		}
		r := observeWrite(x.Interface())
		return map[string]interface{}{"err": r["err"]}
	})
}
