package valgen

import (
	"encoding/hex"
	"fmt"
	"strings"

	"verif/harness/coqfmt"
)

// HVal: a Value with an abstract address on every pointer node (pointers to struct-likes and to
// optional base values), mirroring Wire/DeepEq.v hval. Two nodes with the same address denote the
// same Go object; the driver verb "deepeq" builds them once and shares the pointer.
type HVal struct {
	K string // bool int dbl str bin list map struct nil some
	B bool
	I int64
	D uint64
	S []byte
	L []*HVal
	M [][2]*HVal
	F []HField
	P *HVal
	A int64 // address (struct, some)
}

type HField struct {
	ID int
	V  *HVal
}

// Heap hands out fresh addresses.
type Heap struct{ Next int64 }

func (h *Heap) Fresh() int64 { h.Next++; return h.Next }

func HNil() *HVal { return &HVal{K: "nil"} }

// Heapify gives every pointer node of v a fresh address.
func (h *Heap) Heapify(v *Value) *HVal {
	o := &HVal{K: v.K, B: v.B, I: v.I, D: v.D, S: v.S}
	switch v.K {
	case "list":
		o.L = make([]*HVal, len(v.L))
		for i, x := range v.L {
			o.L[i] = h.Heapify(x)
		}
	case "map":
		o.M = make([][2]*HVal, len(v.M))
		for i, kv := range v.M {
			o.M[i] = [2]*HVal{h.Heapify(kv[0]), h.Heapify(kv[1])}
		}
	case "struct":
		o.A = h.Fresh()
		o.F = make([]HField, len(v.F))
		for i, f := range v.F {
			o.F[i] = HField{ID: f.ID, V: h.Heapify(f.V)}
		}
	case "some":
		o.A = h.Fresh()
		o.P = h.Heapify(v.P)
	}
	return o
}

// Copy is a deep copy into fresh objects (no address in common with the original).
func (h *Heap) Copy(v *HVal) *HVal {
	o := &HVal{K: v.K, B: v.B, I: v.I, D: v.D, S: v.S}
	switch v.K {
	case "list":
		o.L = make([]*HVal, len(v.L))
		for i, x := range v.L {
			o.L[i] = h.Copy(x)
		}
	case "map":
		o.M = make([][2]*HVal, len(v.M))
		for i, kv := range v.M {
			o.M[i] = [2]*HVal{h.Copy(kv[0]), h.Copy(kv[1])}
		}
	case "struct":
		o.A = h.Fresh()
		o.F = make([]HField, len(v.F))
		for i, f := range v.F {
			o.F[i] = HField{ID: f.ID, V: h.Copy(f.V)}
		}
	case "some":
		o.A = h.Fresh()
		o.P = h.Copy(v.P)
	}
	return o
}

// Erase forgets the addresses.
func (v *HVal) Erase() *Value {
	o := &Value{K: v.K, B: v.B, I: v.I, D: v.D, S: v.S}
	switch v.K {
	case "list":
		o.L = make([]*Value, len(v.L))
		for i, x := range v.L {
			o.L[i] = x.Erase()
		}
	case "map":
		o.M = make([][2]*Value, len(v.M))
		for i, kv := range v.M {
			o.M[i] = [2]*Value{kv[0].Erase(), kv[1].Erase()}
		}
	case "struct":
		o.F = make([]FieldVal, len(v.F))
		for i, f := range v.F {
			o.F[i] = FieldVal{ID: f.ID, V: f.V.Erase()}
		}
	case "some":
		o.P = v.P.Erase()
	}
	return o
}

// Coq prints the value as a Wire.DeepEq.hval term (cheap literals).
func (v *HVal) Coq() string {
	switch v.K {
	case "nil":
		return "HNil"
	case "bool":
		return "(HBool " + coqfmt.Bool(v.B) + ")"
	case "int":
		return "(HInt " + coqfmt.ZF(v.I) + ")"
	case "dbl":
		return "(HDbl " + coqfmt.ZFU(v.D) + ")"
	case "str":
		return "(HStr " + coqfmt.BytesF(string(v.S)) + ")"
	case "bin":
		return "(HBin " + coqfmt.BytesF(string(v.S)) + ")"
	case "some":
		return "(HSome " + coqfmt.ZF(v.A) + " " + v.P.Coq() + ")"
	case "list":
		p := make([]string, len(v.L))
		for i, x := range v.L {
			p[i] = x.Coq()
		}
		return "(HList " + coqfmt.List(p) + ")"
	case "map":
		p := make([]string, len(v.M))
		for i, kv := range v.M {
			p[i] = "(" + kv[0].Coq() + ", " + kv[1].Coq() + ")"
		}
		return "(HMap " + coqfmt.List(p) + ")"
	case "struct":
		p := make([]string, len(v.F))
		for i, f := range v.F {
			p[i] = "(" + coqfmt.ZF(int64(f.ID)) + ", " + f.V.Coq() + ")"
		}
		return "(HStruct " + coqfmt.ZF(v.A) + " " + coqfmt.List(p) + ")"
	}
	return "HNil"
}

// JSON prints the driver's value form with "@" address annotations (gendrv/driver/c18.go).
func (v *HVal) JSON() string {
	var b strings.Builder
	v.json(&b)
	return b.String()
}

func (v *HVal) MarshalJSON() ([]byte, error) { return []byte(v.JSON()), nil }

func (v *HVal) json(b *strings.Builder) {
	switch v.K {
	case "nil":
		b.WriteString("null")
	case "bool":
		if v.B {
			b.WriteString("true")
		} else {
			b.WriteString("false")
		}
	case "int":
		fmt.Fprintf(b, "%d", v.I)
	case "dbl":
		fmt.Fprintf(b, `{"d":"%016x"}`, v.D)
	case "str":
		fmt.Fprintf(b, `{"x":"%s"}`, hex.EncodeToString(v.S))
	case "bin":
		fmt.Fprintf(b, `{"b":"%s"}`, hex.EncodeToString(v.S))
	case "some":
		fmt.Fprintf(b, `{"@":%d,"p":`, v.A)
		v.P.json(b)
		b.WriteString("}")
	case "list":
		b.WriteString("[")
		for i, x := range v.L {
			if i > 0 {
				b.WriteString(",")
			}
			x.json(b)
		}
		b.WriteString("]")
	case "map":
		b.WriteString(`{"m":[`)
		for i, kv := range v.M {
			if i > 0 {
				b.WriteString(",")
			}
			b.WriteString("[")
			kv[0].json(b)
			b.WriteString(",")
			kv[1].json(b)
			b.WriteString("]")
		}
		b.WriteString("]}")
	case "struct":
		fmt.Fprintf(b, `{"@":%d,"s":[`, v.A)
		for i, f := range v.F {
			if i > 0 {
				b.WriteString(",")
			}
			fmt.Fprintf(b, "[%d,", f.ID)
			f.V.json(b)
			b.WriteString("]")
		}
		b.WriteString("]}")
	}
}

// HKeyEq mirrors DeepEq.hkey_eq (Go "==" on map keys; struct keys by address).
func HKeyEq(a, b *HVal) bool {
	if a.K != b.K {
		return false
	}
	switch a.K {
	case "struct":
		return a.A == b.A
	case "nil":
		return true
	case "bool":
		return a.B == b.B
	case "int":
		return a.I == b.I
	case "dbl":
		return Feq(a.D, b.D)
	case "str", "bin":
		return string(a.S) == string(b.S)
	}
	return false
}

// HasStructKey: some map of the tree has a struct-typed key.
func (v *HVal) HasStructKey() bool {
	switch v.K {
	case "list":
		for _, x := range v.L {
			if x.HasStructKey() {
				return true
			}
		}
	case "map":
		for _, kv := range v.M {
			if kv[0].K == "struct" || kv[0].HasStructKey() || kv[1].HasStructKey() {
				return true
			}
		}
	case "struct":
		for _, f := range v.F {
			if f.V.HasStructKey() {
				return true
			}
		}
	case "some":
		return v.P.HasStructKey()
	}
	return false
}

// HasNaN: some double of the tree is a NaN.
func (v *HVal) HasNaN() bool {
	switch v.K {
	case "dbl":
		return nanBits(v.D)
	case "list":
		for _, x := range v.L {
			if x.HasNaN() {
				return true
			}
		}
	case "map":
		for _, kv := range v.M {
			if kv[0].HasNaN() || kv[1].HasNaN() {
				return true
			}
		}
	case "struct":
		for _, f := range v.F {
			if f.V.HasNaN() {
				return true
			}
		}
	case "some":
		return v.P.HasNaN()
	}
	return false
}

// Depth of the tree (leaf = 0).
func (v *HVal) Depth() int {
	d := 0
	up := func(x *HVal) {
		if k := x.Depth() + 1; k > d {
			d = k
		}
	}
	switch v.K {
	case "list":
		for _, x := range v.L {
			up(x)
		}
	case "map":
		for _, kv := range v.M {
			up(kv[0])
			up(kv[1])
		}
	case "struct":
		for _, f := range v.F {
			up(f.V)
		}
	case "some":
		up(v.P)
	}
	return d
}
