(* Corr/C15.v — correspondence record and comparison for property C15 (reflection descriptors).

   One shard = one IDL program P (harness/astdump of the real parsed, checked and resolved AST;
   defined once in the preamble of the shard).  The cases of the shard are observations of the
   REAL thrift_reflection package on that program:

     FileCase via fname obs wire rt_equal
         obs      the file descriptor of file fname, dumped field by field
                  (via = 0: GetFileDescriptor on the AST, in process;
                   via = 1: what the compiled, generated package registered from its embedded
                   bytes, reached through the generated types; None = the real code panicked)
         wire     the bytes of FileDescriptor.Marshal after gunzip (None: Marshal failed / not taken)
         rt_equal Unmarshal (Marshal obs) dumped the same as obs (Go side, map order ignored)
     LookupCase fname qs      FileDescriptor.Get{Struct,Union,Exception,Enum,Typedef,Const,Service}
                              Descriptor(name) on the registered descriptor of fname:
                              (kind, name, Filepath and name of what was found)
     MethodCase fname qs      GetMethodDescriptor(service, method)
     FieldCase fname k s ...  GetFieldByName / GetFieldById on the struct-like s
     GlobalCase qs            GlobalDescriptor.Lookup*(name, path)
     ParentCase fname s ...   ServiceDescriptor.GetParent, GetMethodByNameFromAll
     GoTypeCase fname ...     BuildFileDescriptor with a list of (numbered) Go types, then
                              descriptor.GetGoType() for every descriptor in registration order and
                              Get*DescriptorByGoType for every listed type
     TypeMapCase ...          compiled: per generated Go type, the checks made by the driver
     WireCase obs wire rt     Marshal / Unmarshal of a REGISTERED descriptor (RegisterAST wrote an Extra map
                              into every node): only the codec is compared, not descriptor_of
     AllMethodsCase f s l     ServiceDescriptor.GetAllMethods: Filepath and name of every method, in order

   [mismatches_in P cases] returns (case index, code).
   Correspondence (model and implementation disagree):
      1  the observation differs from what Idl/Reflect.v computes
   Property oracle on the observed behaviour (the model is not consulted):
      2  the struct / union / exception descriptors do not state what the IDL states
      3  ... the enum descriptors            4  ... the typedef descriptors
      5  ... the service / method descriptors  6  ... the constant descriptors
      7  ... the includes                    8  ... the namespaces
     10  Marshal failed or Unmarshal (Marshal d) is not d
     11  a lookup by name does not find the entry the IDL means (a type expression of the
         resolved AST, a definition of the file, a name defined by exactly one file)
     12  a field lookup by name or id finds the wrong field
     13  a method / parent service lookup finds the wrong entry, or GetAllMethods is not the methods of
         the service followed by those of its base services in order
     14  a Go type does not map to its own descriptor and back
     15  the real code panicked, or a generated package did not register the descriptor of its file
     16  a Filepath inside the descriptor is not the path of the file *)
From Coq Require Import List Bool NArith ZArith.
From Coq.Strings Require Import Byte.
From Verif Require Import Base.Bytes Base.BE Wire.TType Wire.WVal Wire.Codec Idl.Ast Idl.AstUtil Idl.Reflect.
Import ListNotations.
Local Open Scope Z_scope.
Local Open Scope list_scope.

Inductive qkind := QStruct | QUnion | QException | QEnum | QTypedef | QConst | QService.
Definition qkind_eqb (a b : qkind) : bool :=
  match a, b with
  | QStruct, QStruct | QUnion, QUnion | QException, QException | QEnum, QEnum | QTypedef, QTypedef
  | QConst, QConst | QService, QService => true
  | _, _ => false
  end.

(* Filepath and name of the descriptor a lookup returned *)
Definition found := option (bytes * bytes).
Definition found_eqb (a b : found) : bool :=
  match a, b with
  | Some (p, n), Some (q, m) => beqb p q && beqb n m
  | None, None => true
  | _, _ => false
  end.
Definition ffound := option (bytes * Z).
Definition ffound_eqb (a b : ffound) : bool :=
  match a, b with
  | Some (p, n), Some (q, m) => beqb p q && (n =? m)
  | None, None => true
  | _, _ => false
  end.

Inductive case :=
| FileCase (via : N) (fname : bytes) (obs : option fdesc) (wire : option bytes) (rt_equal : bool)
| LookupCase (fname : bytes) (qs : list (qkind * bytes * found))
| MethodCase (fname : bytes) (qs : list (bytes * bytes * found))
| FieldCase (fname : bytes) (k : qkind) (sname : bytes) (byname : list (bytes * ffound)) (byid : list (Z * ffound))
| GlobalCase (qs : list (qkind * bytes * bytes * found))
| ParentCase (fname sname : bytes) (parent : found) (from_all : list (bytes * found))
| GoTypeCase (fname : bytes) (types : list N) (fwd : list (option N)) (bwd : list (option (gkind * nat)))
| TypeMapCase (qname : bytes) (own_descriptor by_go_type go_type_back type_descriptor fields_ok : bool)
| WireCase (obs : fdesc) (wire : option bytes) (rt_equal : bool)
| AllMethodsCase (fname sname : bytes) (all : list (bytes * bytes)).

(* ---------------------------------------------------------------- facts as generic trees *)

(* the facts of Idl/Reflect.v section 3 as wire values, only to reuse [weq_mod]: WMap = entries in
   any order, WList = in order *)
Definition node (l : list wval) : wval := WList T_STRUCT l.
Definition wopt (o : option wval) : wval := match o with Some w => node [w] | None => node [] end.
Fixpoint w_tyx (t : tyx) : wval :=
  match t with
  | TyX n k v => node [WStr n; match k with Some x => node [w_tyx x] | None => node [] end;
                       match v with Some x => node [w_tyx x] | None => node [] end]
  end.
Fixpoint w_cvx (c : cvx) : wval :=
  match c with
  | XDouble b => node [WI32 0; WI64 b]
  | XInt z => node [WI32 1; WI64 z]
  | XString s => node [WI32 2; WStr s]
  | XBool b => node [WI32 3; WBool b]
  | XIdent s => node [WI32 6; WStr s]
  | XList l => node [WI32 4; WList T_STRUCT ((fix go (l : list cvx) : list wval :=
                                               match l with [] => [] | x :: r => w_cvx x :: go r end) l)]
  | XMap l => node [WI32 5; WMap T_STRUCT T_STRUCT
                              ((fix go (l : list (cvx * cvx)) : list (wval * wval) :=
                                  match l with [] => [] | (k, v) :: r => (w_cvx k, w_cvx v) :: go r end) l)]
  end.
Definition w_annx (a : annx) : wval :=
  WMap T_STRING T_LIST (map (fun kv => (WStr (fst kv), WList T_STRING (map WStr (snd kv)))) a).
Definition w_req (r : option requiredness) : wval :=
  match r with
  | Some ReqDefault => WI32 0 | Some ReqRequired => WI32 1 | Some ReqOptional => WI32 2 | None => WI32 (-1)
  end.
Definition w_fieldx (f : fieldx) : wval :=
  node [WStr (fx_name f); WI64 (fx_id f); w_req (fx_req f); w_tyx (fx_type f); wopt (omap w_cvx (fx_default f));
        w_annx (fx_annos f); WStr (fx_comments f)].
Definition w_structx (s : structx) : wval :=
  node [WStr (sx_name s); node (map w_fieldx (sx_fields s)); w_annx (sx_annos s); WStr (sx_comments s)].
Definition w_enumx (e : enumx) : wval :=
  node [WStr (ex_name' e);
        node (map (fun v => node [WStr (evx_name v); WI64 (evx_number v); w_annx (evx_annos v); WStr (evx_comments v)])
                  (ex_values e));
        w_annx (ex_annos e); WStr (ex_comments e)].
Definition w_typedefx (t : typedefx) : wval :=
  node [WStr (tx_alias t); w_tyx (tx_type t); w_annx (tx_annos t); WStr (tx_comments t)].
Definition w_methodx (m : methodx) : wval :=
  node [WStr (mx_name m); wopt (omap w_tyx (mx_response m)); node (map w_fieldx (mx_args m));
        node (map w_fieldx (mx_throws m)); WBool (mx_oneway m); w_annx (mx_annos m); WStr (mx_comments m)].
Definition w_servicex (s : servicex) : wval :=
  node [WStr (svx_name s); WStr (svx_base s); node (map w_methodx (svx_methods s)); w_annx (svx_annos s);
        WStr (svx_comments s)].
Definition w_constx (c : constx) : wval :=
  node [WStr (cx_name c); w_tyx (cx_type c); w_cvx (cx_value c); w_annx (cx_annos c); WStr (cx_comments c)].
Definition w_pairs (l : list (bytes * bytes)) : wval :=
  WMap T_STRING T_STRING (map (fun kv => (WStr (fst kv), WStr (snd kv))) l).

Definition same (a b : wval) : bool := weq_mod false a b.
Definition same_list {A} (w : A -> wval) (a b : list A) : bool := same (node (map w a)) (node (map w b)).

(* ---------------------------------------------------------------- model side *)

Definition getter (k : qkind) (reg : registry) (f : fdesc) (n : bytes) : found :=
  match k with
  | QStruct => omap (fun d => (sd_filepath d, sd_name d)) (get_struct reg f n)
  | QUnion => omap (fun d => (sd_filepath d, sd_name d)) (get_union reg f n)
  | QException => omap (fun d => (sd_filepath d, sd_name d)) (get_exception reg f n)
  | QEnum => omap (fun d => (ed_filepath d, ed_name d)) (get_enum reg f n)
  | QTypedef => omap (fun d => (tdd_filepath d, tdd_alias d)) (get_typedef reg f n)
  | QConst => omap (fun d => (cd_filepath d, cd_name d)) (get_const reg f n)
  | QService => omap (fun d => (svd_filepath d, svd_name d)) (get_service reg f n)
  end.

Definition global_getter (k : qkind) (reg : registry) (n path : bytes) : found :=
  match k with
  | QStruct => omap (fun d => (sd_filepath d, sd_name d)) (lookup_struct reg n path)
  | QUnion => omap (fun d => (sd_filepath d, sd_name d)) (lookup_union reg n path)
  | QException => omap (fun d => (sd_filepath d, sd_name d)) (lookup_exception reg n path)
  | QEnum => omap (fun d => (ed_filepath d, ed_name d)) (lookup_enum reg n path)
  | QTypedef => omap (fun d => (tdd_filepath d, tdd_alias d)) (lookup_typedef reg n path)
  | QConst => omap (fun d => (cd_filepath d, cd_name d)) (lookup_const reg n path)
  | QService => omap (fun d => (svd_filepath d, svd_name d)) (lookup_service reg n path)
  end.

Definition struct_getter (k : qkind) (reg : registry) (f : fdesc) (n : bytes) : option structdesc :=
  match k with
  | QStruct => get_struct reg f n
  | QUnion => get_union reg f n
  | QException => get_exception reg f n
  | _ => None
  end.

Definition ffound_of (o : option fielddesc) : ffound := omap (fun f => (fld_name f, fld_id f)) o.
Definition mfound_of (o : option methoddesc) : found := omap (fun m => (md_filepath m, md_name m)) o.

(* ---------------------------------------------------------------- what the IDL means (oracles) *)

Definition all_eq_path (p : bytes) (d : fdesc) : bool := forallb (beqb p) (paths_of d).

(* the definition a type expression of the RESOLVED AST denotes: kind, file, local name *)
Definition type_kind (t : ty) : option qkind :=
  match ty_is_typedef t with
  | Some true => Some QTypedef
  | _ => match ty_category t with
         | CatStruct => Some QStruct | CatUnion => Some QUnion | CatException => Some QException
         | CatEnum => Some QEnum | _ => None
         end
  end.
Definition type_home (P : program) (f : file) (t : ty) : option (bytes * bytes) :=
  match ty_ref t with
  | Some r => omap (fun g => (f_filename g, ref_name r)) (reference_target P f r)
  | None => Some (f_filename f, ty_name t)
  end.
Definition type_kinds : list qkind := [QStruct; QUnion; QException; QEnum; QTypedef].

Definition query (qs : list (qkind * bytes * found)) (k : qkind) (n : bytes) : option found :=
  omap snd (find (fun q => qkind_eqb (fst (fst q)) k && beqb (snd (fst q)) n) qs).

(* every type expression of the file whose lookups were asked finds its definition under its
   kind and nothing under the other kinds *)
Definition types_resolve (P : program) (f : file) (qs : list (qkind * bytes * found)) : bool :=
  forallb (fun t =>
             if is_base_type_name (ty_name t) || is_container_type_name (ty_name t) then true else
             match type_kind t, type_home P f t with
             | Some k, Some home =>
                 forallb (fun k' => match query qs k' (ty_name t) with
                                    | Some res => if qkind_eqb k k' then found_eqb res (Some home) else found_eqb res None
                                    | None => true
                                    end) type_kinds
             | _, _ => true
             end) (file_types f).

(* an unqualified name asked under a kind: found iff the file defines it *)
Definition has_dot (n : bytes) : bool := existsb (Byte.eqb dot) n.
Definition defines (f : file) (k : qkind) (n : bytes) : bool :=
  match k with
  | QStruct => match find_struct f n with Some _ => true | None => false end
  | QUnion => match find_union f n with Some _ => true | None => false end
  | QException => match find_exception f n with Some _ => true | None => false end
  | QEnum => match find_enum f n with Some _ => true | None => false end
  | QTypedef => match find_typedef f n with Some _ => true | None => false end
  | QConst => match find_constant f n with Some _ => true | None => false end
  | QService => match find_service f n with Some _ => true | None => false end
  end.
Definition locals_resolve (f : file) (qs : list (qkind * bytes * found)) : bool :=
  forallb (fun q => let '(k, n, res) := q in
                    if has_dot n || is_empty n then true
                    else found_eqb res (if defines f k n then Some (f_filename f, n) else None)) qs.

Definition first_field (p : field -> bool) (s : struct_like) : ffound :=
  omap (fun x => (fd_name x, fd_id x)) (find p (sl_fields s)).
Definition find_sl (f : file) (k : qkind) (n : bytes) : option struct_like :=
  match k with
  | QStruct => find_struct f n | QUnion => find_union f n | QException => find_exception f n | _ => None
  end.

Definition parent_home (P : program) (f : file) (s : service) : found :=
  match sv_ref s with
  | Some r => omap (fun g => (f_filename g, ref_name r)) (reference_target P f r)
  | None => if is_empty (sv_extends s) then None else Some (f_filename f, sv_extends s)
  end.

(* own methods, then those of the base service the resolver bound, and so on *)
Fixpoint ast_all_methods (fuel : nat) (P : program) (f : file) (s : service) : list (bytes * bytes) :=
  map (fun fn => (f_filename f, fn_name fn)) (sv_functions s) ++
  match fuel with
  | O => []
  | S n => match parent_home P f s with
           | Some (gpath, sname) =>
               match prog_file P gpath with
               | Some g => match find_service g sname with Some t => ast_all_methods n P g t | None => [] end
               | None => []
               end
           | None => []
           end
  end.

Definition count_defining (P : program) (k : qkind) (n : bytes) : nat :=
  List.length (filter (fun nf => defines (snd nf) k n) P).

(* ---------------------------------------------------------------- comparison *)

Definition flag (b : bool) (code : N) : list N := if b then [] else [code].

Definition file_codes (P : program) (via : N) (fname : bytes) (obs : option fdesc) (wire : option bytes) (rt_equal : bool) : list N :=
  match prog_file P fname, obs with
  | None, _ => [1%N]
  | Some f, None => [15%N]
  | Some f, Some d =>
      let m := descriptor_of f in
      let x := project_a f in
      let y := project_d d in
      flag (fdesc_equivb d m) 1 ++
      match wire with
      | Some raw =>
          match dec_struct raw with
          | Some (w, _) =>
              flag (weq_mod false w (enc_fdesc d)) 1 ++
              flag (match dec_fdesc w with Some d' => fdesc_equivb d' d | None => false end) 1
          | None => [1%N]
          end
      | None => if N.eqb via 0 then [10%N] else []
      end ++
      flag rt_equal 10 ++
      flag (beqb (x_path x) (x_path y) && all_eq_path (f_filename f) d) 16 ++
      flag (same_list w_structx (x_structs x) (x_structs y) && same_list w_structx (x_unions x) (x_unions y) &&
            same_list w_structx (x_exceptions x) (x_exceptions y)) 2 ++
      flag (same_list w_enumx (x_enums x) (x_enums y)) 3 ++
      flag (same_list w_typedefx (x_typedefs x) (x_typedefs y)) 4 ++
      flag (same_list w_servicex (x_services x) (x_services y)) 5 ++
      flag (same_list w_constx (x_consts x) (x_consts y)) 6 ++
      flag (same (w_pairs (x_includes x)) (w_pairs (x_includes y))) 7 ++
      flag (same (w_pairs (x_namespaces x)) (w_pairs (x_namespaces y))) 8
  end.

Fixpoint list_eqb' {A} (eq : A -> A -> bool) (a b : list A) : bool :=
  match a, b with
  | [], [] => true
  | x :: a', y :: b' => eq x y && list_eqb' eq a' b'
  | _, _ => false
  end.
Definition optN_eqb (a b : option N) : bool :=
  match a, b with Some x, Some y => N.eqb x y | None, None => true | _, _ => false end.
Definition optpos_eqb (a b : option (gkind * nat)) : bool :=
  match a, b with
  | Some (k, i), Some (k', i') => gkind_eqb k k' && Nat.eqb i i'
  | None, None => true
  | _, _ => false
  end.

(* the (kind, index) of the i-th registered Go type of a file *)
Definition positions (d : fdesc) : list (gkind * nat) :=
  map (fun i => (GStruct, i)) (seq 0 (List.length (struct_descs d))) ++
  map (fun i => (GEnum, i)) (seq 0 (List.length (fdc_enums d))) ++
  map (fun i => (GTypedef, i)) (seq 0 (List.length (fdc_typedefs d))).

Definition count_N (x : N) (l : list N) : nat := List.length (filter (N.eqb x) l).

Definition case_codes (P : program) (c : case) : list N :=
  let reg := registry_of P in
  match c with
  | FileCase via fname obs wire rt => file_codes P via fname obs wire rt
  | LookupCase fname qs =>
      match prog_file P fname with
      | None => [1%N]
      | Some f =>
          let d := descriptor_of f in
          flag (forallb (fun q => let '(k, n, res) := q in found_eqb res (getter k reg d n)) qs) 1 ++
          flag (types_resolve P f qs && locals_resolve f qs) 11
      end
  | MethodCase fname qs =>
      match prog_file P fname with
      | None => [1%N]
      | Some f =>
          let d := descriptor_of f in
          flag (forallb (fun q => let '(s, m, res) := q in found_eqb res (mfound_of (get_method reg d s m))) qs) 1 ++
          flag (forallb (fun q => let '(s, m, res) := q in
                           if has_dot s then true
                           else if is_empty s then
                             found_eqb res (omap (fun fn => (f_filename f, fn_name fn))
                                                 (find (fun fn => beqb (fn_name fn) m) (flat_map sv_functions (f_services f))))
                           else found_eqb res (match find_service f s with
                                               | Some sv => omap (fun fn => (f_filename f, fn_name fn)) (find_function sv m)
                                               | None => None end)) qs) 13
      end
  | FieldCase fname k sname byname byid =>
      match prog_file P fname with
      | None => [1%N]
      | Some f =>
          let d := descriptor_of f in
          let sd := struct_getter k reg d sname in
          flag (forallb (fun q => ffound_eqb (snd q) (match sd with Some s => ffound_of (get_field_by_name s (fst q)) | None => None end)) byname &&
                forallb (fun q => ffound_eqb (snd q) (match sd with Some s => ffound_of (get_field_by_id s (fst q)) | None => None end)) byid) 1 ++
          match find_sl f k sname with
          | Some s =>
              flag (forallb (fun q => ffound_eqb (snd q) (first_field (fun x => beqb (fd_name x) (fst q)) s)) byname &&
                    forallb (fun q => ffound_eqb (snd q) (first_field (fun x => fd_id x =? fst q) s)) byid) 12
          | None => []
          end
      end
  | GlobalCase qs =>
      flag (forallb (fun q => let '(k, n, path, res) := q in
                       if is_empty path && negb (Nat.eqb (count_defining P k n) 1) then true
                       else found_eqb res (global_getter k reg n path)) qs) 1 ++
      flag (forallb (fun q => let '(k, n, path, res) := q in
                       if has_dot n || is_empty n then true
                       else if is_empty path then
                         match filter (fun nf => defines (snd nf) k n) P with
                         | [nf] => found_eqb res (Some (f_filename (snd nf), n))
                         | _ => true
                         end
                       else match prog_file P path with
                            | Some f => found_eqb res (if defines f k n then Some (f_filename f, n) else None)
                            | None => found_eqb res None
                            end) qs) 11
  | ParentCase fname sname parent from_all =>
      match prog_file P fname with
      | None => [1%N]
      | Some f =>
          let d := descriptor_of f in
          match get_service reg d sname with
          | None => [1%N]
          | Some sd =>
              flag (found_eqb parent (omap (fun p => (svd_filepath p, svd_name p)) (get_parent reg sd)) &&
                    forallb (fun q => found_eqb (snd q) (mfound_of (get_method_from_all reg sd (fst q)))) from_all) 1 ++
              match find_service f sname with
              | Some s => flag (found_eqb parent (parent_home P f s)) 13
              | None => []
              end
          end
      end
  | GoTypeCase fname types fwd bwd =>
      match prog_file P fname with
      | None => [1%N]
      | Some f =>
          let d := descriptor_of f in
          let pos := positions d in
          match go_type_table N.eqb gtable_empty d types with
          | None => [1%N]
          | Some t =>
              flag (list_eqb' optN_eqb fwd (map (fun p => go_type_of t (fdc_filepath d, fst p, snd p)) pos) &&
                    list_eqb' optpos_eqb bwd
                      (map (fun pg => omap (fun k : dkey => (snd (fst k), snd k))
                                           (desc_of_go_type N.eqb t (fst (fst pg)) (snd pg)))
                           (combine pos types))) 1 ++
              (* descriptor -> type: always the listed one; type -> descriptor: its own when no other
                 descriptor of the kind was given the same Go type *)
              flag (list_eqb' optN_eqb fwd (map Some (firstn (List.length pos) types)) &&
                    forallb (fun x => let '(p, g, b) := x in
                                      if Nat.eqb (count_N g (map snd (filter (fun q => gkind_eqb (fst (fst q)) (fst p)) (combine pos types)))) 1
                                      then optpos_eqb b (Some p) else true)
                            (combine (combine pos types) bwd)) 14
          end
      end
  | TypeMapCase _ own by_go back tdesc fields_ok =>
      flag (own && by_go && back && tdesc) 14 ++ flag fields_ok 12
  | WireCase d wire rt =>
      match wire with
      | Some raw =>
          match dec_struct raw with
          | Some (w, _) =>
              flag (weq_mod false w (enc_fdesc d)) 1 ++
              flag (match dec_fdesc w with Some d' => fdesc_equivb d' d | None => false end) 1
          | None => [1%N]
          end
      | None => [10%N]
      end ++ flag rt 10
  | AllMethodsCase fname sname all =>
      match prog_file P fname with
      | None => [1%N]
      | Some f =>
          match get_service reg (descriptor_of f) sname with
          | None => [1%N]
          | Some sd =>
              flag (list_eqb' (fun a b => beqb (fst a) (fst b) && beqb (snd a) (snd b)) all
                      (map (fun m => (md_filepath m, md_name m)) (get_all_methods reg sd))) 1
          end ++
          match find_service f sname with
          | Some s =>
              flag (list_eqb' (fun a b => beqb (fst a) (fst b) && beqb (snd a) (snd b)) all
                      (ast_all_methods (S (List.length (flat_map (fun nf => f_services (snd nf)) P))) P f s)) 13
          | None => []
          end
      end
  end.

Fixpoint run (P : program) (i : N) (cs : list case) : list (N * N) :=
  match cs with
  | [] => []
  | c :: r => map (fun code => (i, code)) (case_codes P c) ++ run P (N.succ i) r
  end.

Definition mismatches_in (P : program) (cs : list case) : list (N * N) := run P 0%N cs.
