(* Corr/C17.v — correspondence record and comparison for property C17.

   A case = one IDL file handed to the real dump.DumpIDL:
     c_file      the AST given to DumpIDL (harness/astdump of the *parser.Thrift, comments
                 and, for the post-semantic variants, resolution info included)
     c_fmt       strconv.FormatFloat(v, 'g', -1, 64) of every double constant in the file
                 (bit pattern, text): the external function of Idl/Dump.v, observed
     c_text      the text DumpIDL returned (None: error or panic), or, for the process-level
                 cases, the file the trimmer binary wrote (None: not written)
     c_reparse   parser.ParseString on that text (None: the parser rejected it)
     c_sem_orig  the semantic checker and ResolveSymbols accepted the original program
     c_sem_dump  ... accepted the program re-read from the dumped texts
     c_reread    the file as the RECURSIVE parser returns it when the whole dumped tree is re-read
                 (include statements linked to the parsed includes), before the semantic pass;
                 None when not observed

   [mismatches] returns (case index, code).
   Correspondence (model and implementation disagree):
     1  the tokens of the model's [dump] differ from the tokens of the observed text
        (white space, comments and the optional list separators are not compared)
     5  the observed re-parsed AST differs from [dump_view] (up to recorded comments)
     6  the parser model Idl/Parse.v and the real parser disagree on the observed text
    30  the file of the re-read tree differs from [relink a (dump_view a)], the file of
        [dumped_program] (Idl/DumpResolveFacts.v) that C17_dump_passes_semantic and
        C17_program_roundtrip speak about (up to recorded comments)
     8  [fmt_ok] fails on an observed double text (the hypothesis of the theorems about
        strconv.FormatFloat does not hold for what the implementation printed)
   Property oracle on the observed behaviour:
     2  DumpIDL failed / the file was not written
     3  the parser rejects the dumped text
     4  ... and the dumped text is empty (the AST had nothing to print)
     7  the semantic pass accepts the original program and rejects the dumped one
    10  includes differ            11  cpp_include differ        12  namespaces differ
    13  an annotation key/value list differs
    14  the definitions differ (number, kind, order or name of typedefs, constants, enums,
        struct-likes, services)
    15  a type expression differs  16  a field id differs        17  a requiredness differs
    18  a default value was lost   19  a string literal changed  20  a number changed
    21  a constant value differs otherwise (identifier, shape of a list or map, default added)
    22  an enum value differs      23  oneway / void / extends differ
    24  fields, arguments, throws, functions or enum values differ in number or name *)
From Coq Require Import List Bool NArith ZArith.
From Coq.Strings Require Import Byte.
From Verif Require Import Base.Bytes Idl.Ast Idl.Lex Idl.Parse Idl.Dump Idl.DumpResolveFacts.
Import ListNotations.

Record case := mkcase {
  c_file : file;
  c_fmt : list (N * bytes);
  c_text : option bytes;
  c_reparse : option file;
  c_sem_orig : bool;
  c_sem_dump : bool;
  c_reread : option file }.

Definition fmt_of (tbl : list (N * bytes)) (d : N) : bytes :=
  match find (fun p => N.eqb (fst p) d) tbl with Some p => snd p | None => [] end.

(* ---------------------------------------------------------------- text comparison *)

Definition token_eqb (a b : token) : bool :=
  match a, b with
  | TWord x, TWord y => beqb x y
  | TInt x, TInt y => beqb x y
  | TDouble x, TDouble y => beqb x y
  | TLit q x, TLit r y => Byte.eqb q r && beqb x y
  | TPunct c, TPunct d => Byte.eqb c d
  | _, _ => false
  end.

Definition is_sep_token (t : token) : bool :=
  match t with TPunct c => is_sepc c | _ => false end.

(* the tokens that matter: everything but the optional separators *)
Definition sig_tokens (l : list ltok) : list token :=
  filter (fun t => negb (is_sep_token t)) (map snd l).

Definition squash (s : bytes) : bytes := filter (fun c => negb (is_space c)) s.

Definition same_text (model observed : bytes) : bool :=
  match lex model, lex observed with
  | Some (l1, _), Some (l2, _) => list_eqb token_eqb (sig_tokens l1) (sig_tokens l2)
  | _, _ => beqb (squash model) (squash observed)
  end.

(* ---------------------------------------------------------------- what differs *)

Definition diff_annos (a b : annotations) : list N :=
  if annotations_eqb a b then [] else [13%N].

Section DiffList.
  Context {A : Type} (d : A -> A -> list N) (lencode : N).
  Fixpoint diff_list (l1 l2 : list A) : list N :=
    match l1, l2 with
    | [], [] => []
    | x :: r1, y :: r2 => d x y ++ diff_list r1 r2
    | _, _ => [lencode]
    end.
End DiffList.

Fixpoint diff_ty (a b : ty) : list N :=
  match a, b with
  | Ty n1 k1 v1 _ an1 _ _ _, Ty n2 k2 v2 _ an2 _ _ _ =>
    (if beqb n1 n2 then [] else [15%N]) ++ diff_annos an1 an2 ++
    (match k1, k2 with Some x, Some y => diff_ty x y | None, None => [] | _, _ => [15%N] end) ++
    (match v1, v2 with Some x, Some y => diff_ty x y | None, None => [] | _, _ => [15%N] end)
  end.

Fixpoint diff_cv (a b : const_value) : list N :=
  match a, b with
  | CInt x, CInt y => if Z.eqb x y then [] else [20%N]
  | CDouble x, CDouble y => if N.eqb x y then [] else [20%N]
  | CInt _, CDouble _ | CDouble _, CInt _ => [20%N]
  | CLiteral x, CLiteral y => if beqb x y then [] else [19%N]
  | CIdent x _, CIdent y _ => if beqb x y then [] else [21%N]
  | CList l1, CList l2 =>
    (fix go (l1 l2 : list const_value) : list N :=
       match l1, l2 with
       | [], [] => []
       | x :: r1, y :: r2 => diff_cv x y ++ go r1 r2
       | _, _ => [21%N]
       end) l1 l2
  | CMap l1, CMap l2 =>
    (fix go (l1 l2 : list (const_value * const_value)) : list N :=
       match l1, l2 with
       | [], [] => []
       | (k1, v1) :: r1, (k2, v2) :: r2 => diff_cv k1 k2 ++ diff_cv v1 v2 ++ go r1 r2
       | _, _ => [21%N]
       end) l1 l2
  | _, _ => [21%N]
  end.

Definition diff_field (f g : field) : list N :=
  (if Z.eqb (fd_id f) (fd_id g) then [] else [16%N]) ++
  (if beqb (fd_name f) (fd_name g) then [] else [24%N]) ++
  (if requiredness_eqb (fd_req f) (fd_req g) then [] else [17%N]) ++
  diff_ty (fd_type f) (fd_type g) ++
  (match fd_default f, fd_default g with
   | Some x, Some y => diff_cv x y
   | None, None => []
   | Some _, None => [18%N]
   | None, Some _ => [21%N]
   end) ++
  diff_annos (fd_annos f) (fd_annos g).

Definition diff_struct (s t : struct_like) : list N :=
  (if beqb (sl_name s) (sl_name t) && sl_kind_eqb (sl_category s) (sl_category t) then [] else [14%N]) ++
  diff_list diff_field 24%N (sl_fields s) (sl_fields t) ++ diff_annos (sl_annos s) (sl_annos t).

Definition diff_function (f g : function) : list N :=
  (if beqb (fn_name f) (fn_name g) then [] else [24%N]) ++
  (if Bool.eqb (fn_oneway f) (fn_oneway g) && Bool.eqb (fn_void f) (fn_void g) then [] else [23%N]) ++
  diff_ty (fn_type f) (fn_type g) ++
  diff_list diff_field 24%N (fn_args f) (fn_args g) ++
  diff_list diff_field 24%N (fn_throws f) (fn_throws g) ++
  diff_annos (fn_annos f) (fn_annos g).

Definition diff_service (s t : service) : list N :=
  (if beqb (sv_name s) (sv_name t) then [] else [14%N]) ++
  (if beqb (sv_extends s) (sv_extends t) then [] else [23%N]) ++
  diff_list diff_function 24%N (sv_functions s) (sv_functions t) ++ diff_annos (sv_annos s) (sv_annos t).

Definition diff_enum_value (v w : enum_value) : list N :=
  (if beqb (ev_name v) (ev_name w) then [] else [24%N]) ++
  (if Z.eqb (ev_value v) (ev_value w) then [] else [22%N]) ++ diff_annos (ev_annos v) (ev_annos w).

Definition diff_enum (e f : enum) : list N :=
  (if beqb (en_name e) (en_name f) then [] else [14%N]) ++
  diff_list diff_enum_value 24%N (en_values e) (en_values f) ++ diff_annos (en_annos e) (en_annos f).

Definition diff_typedef (t u : typedef) : list N :=
  (if beqb (td_alias t) (td_alias u) then [] else [14%N]) ++ diff_ty (td_type t) (td_type u) ++
  diff_annos (td_annos t) (td_annos u).

Definition diff_constant (c d : constant) : list N :=
  (if beqb (co_name c) (co_name d) then [] else [14%N]) ++ diff_ty (co_type c) (co_type d) ++
  diff_cv (co_value c) (co_value d) ++ diff_annos (co_annos c) (co_annos d).

Definition diff_namespace (n m : namespace) : list N :=
  (if beqb (ns_language n) (ns_language m) && beqb (ns_name n) (ns_name m) then [] else [12%N]) ++
  diff_annos (ns_annos n) (ns_annos m).

(* on normalised files *)
Definition diff_file (a b : file) : list N :=
  (if list_eqb beqb (map in_path (f_includes a)) (map in_path (f_includes b)) then [] else [10%N]) ++
  (if list_eqb beqb (f_cpp_includes a) (f_cpp_includes b) then [] else [11%N]) ++
  diff_list diff_namespace 12%N (f_namespaces a) (f_namespaces b) ++
  diff_list diff_typedef 14%N (f_typedefs a) (f_typedefs b) ++
  diff_list diff_constant 14%N (f_constants a) (f_constants b) ++
  diff_list diff_enum 14%N (f_enums a) (f_enums b) ++
  diff_list diff_struct 14%N (f_structs a) (f_structs b) ++
  diff_list diff_struct 14%N (f_unions a) (f_unions b) ++
  diff_list diff_struct 14%N (f_exceptions a) (f_exceptions b) ++
  diff_list diff_service 14%N (f_services a) (f_services b).

Fixpoint dedup (l : list N) : list N :=
  match l with
  | [] => []
  | x :: r => if existsb (N.eqb x) r then dedup r else x :: dedup r
  end.

(* every double of a file (bit patterns) *)
Fixpoint cv_doubles (c : const_value) : list N :=
  match c with
  | CDouble d => [d]
  | CList l => flat_map cv_doubles l
  | CMap l => flat_map (fun kv => cv_doubles (fst kv) ++ cv_doubles (snd kv)) l
  | _ => []
  end.
Definition field_doubles (f : field) : list N :=
  match fd_default f with Some v => cv_doubles v | None => [] end.
Definition file_doubles (a : file) : list N :=
  flat_map (fun c => cv_doubles (co_value c)) (f_constants a) ++
  flat_map (fun s => flat_map field_doubles (sl_fields s)) (f_structs a ++ f_unions a ++ f_exceptions a) ++
  flat_map (fun s => flat_map (fun f => flat_map field_doubles (fn_args f ++ fn_throws f)) (sv_functions s))
           (f_services a).

(* ---------------------------------------------------------------- one case *)

Definition check (c : case) : list N :=
  let fmt := fmt_of (c_fmt c) in
  let a := c_file c in
  let corr_fmt := if forallb (fmt_ok fmt) (file_doubles a) then [] else [8%N] in
  match c_text c with
  | None => [2%N]
  | Some text =>
    let corr_text := if same_text (dump fmt a) text then [] else [1%N] in
    let model_parse := parse (f_filename a) text in
    let corr_parse :=
      match model_parse, c_reparse c with
      | Some x, Some y => if file_eqb_nc x y then [] else [6%N]
      | None, None => []
      | _, _ => [6%N]
      end in
    let corr_view :=
      match c_reparse c with
      | Some b => if file_eqb_nc (dump_view fmt a) b then [] else [5%N]
      | None => []
      end in
    let oracle :=
      match c_reparse c with
      | None => match text with [] => [4%N] | _ => [3%N] end
      | Some b => dedup (diff_file (c17_norm a) (c17_norm b))
      end ++
      (if c_sem_orig c && negb (c_sem_dump c) then [7%N] else []) in
    let corr_reread :=
      match c_reread c with
      | Some q => if file_eqb_nc (relink a (dump_view fmt a)) q then [] else [30%N]
      | None => []
      end in
    corr_fmt ++ corr_text ++ corr_parse ++ corr_view ++ corr_reread ++ oracle
  end.

Fixpoint mismatches_from (i : N) (cs : list case) : list (N * N) :=
  match cs with
  | [] => []
  | c :: r => map (fun code => (i, code)) (check c) ++ mismatches_from (i + 1)%N r
  end.
Definition mismatches (cs : list case) : list (N * N) := mismatches_from 0%N cs.
