package main

// Verbs of property C06 (constants and default values). The producer (cmd/c06) writes a file
// c06_registry.go into the scratch module that registers, per unit and IDL file name, every
// generated constant / variable and every NewX constructor under its IDL name (the Go identifiers
// come from the generator's own naming functions, see cmd/c06/names.go).
//
//	c06const <unit> <file> <IDL const>                       {"v":value,"k":Go kind}
//	c06new   <unit> <file> <IDL struct>                      {"new":NewX(),"init":InitDefault on &X{}}
//	c06init  <unit> <file> <IDL struct> <slots JSON>         {"before":object,"after":object after InitDefault()}
//	c06get   <unit> <file> <IDL struct> <new|zero> <slots JSON> <[[id,getter,isset],...]>
//	                                                         {"obj":object,"getters":[[id,v]],"isset":[[id,b]]}
//
//	c06hist  <unit> <file> <IDL struct> <init|new> <[[id,getter,isset],...]>
//	      history: instance a is constructed (InitDefault on &X{} / NewX()), every container, []byte and
//	      struct reachable from a's fields is edited IN PLACE (element 0 overwritten, a map entry set, a field
//	      of the inner struct changed), then b := &X{}; b.InitDefault(), b2 := NewX() and getters / IsSet on a
//	      third zero object are observed; the edits are undone afterwards.
//	      {"mutated":[ids],"a":object,"b_init":object,"b_new":object,"obj":zero object,"getters":[[id,v]],"isset":[[id,b]]}
//	c06decode <unit> <file> <IDL struct W> <field id of a list<X>> <hex>
//	      W.Read(hex) (a list of two X without fields), element 0 edited in place, element 1 dumped
//	      {"err":class,"n":len,"mutated":[ids],"e0":object,"e1":object}
//
// Values are printed in the JSON value form of reflect.go; an untyped integer constant arrives
// as a Go int and is printed as an integer.

import (
	"encoding/hex"
	"encoding/json"
	"fmt"
	"reflect"
)

var c06Consts = map[string]func() interface{}{}
var c06Ctors = map[string]func() interface{}{}

func RegisterC06Const(unit, file, name string, get func() interface{}) {
	c06Consts[unit+"|"+file+"|"+name] = get
}

func RegisterC06Ctor(unit, file, name string, ctor func() interface{}) {
	c06Ctors[unit+"|"+file+"|"+name] = ctor
}

func c06New(unit, file, name string) interface{} {
	c, ok := c06Ctors[unit+"|"+file+"|"+name]
	if !ok {
		panic("c06: constructor not registered: " + unit + "|" + file + "|" + name)
	}
	return c()
}

func c06Dump(rv reflect.Value) string {
	switch rv.Kind() {
	case reflect.Int:
		return fmt.Sprintf("%d", rv.Int())
	case reflect.Invalid:
		return "null"
	}
	return Dump(rv)
}

func c06Kind(t reflect.Type) string {
	if t == nil {
		return "nil"
	}
	if t.Kind() == reflect.Int {
		return "int"
	}
	return Kind(t)
}

func init() {
	RegisterCommand("c06const", func(a []string) interface{} {
		g, ok := c06Consts[a[0]+"|"+a[1]+"|"+a[2]]
		if !ok {
			panic("c06: constant not registered: " + a[0] + "|" + a[1] + "|" + a[2])
		}
		x := g()
		rv := reflect.ValueOf(x)
		return map[string]interface{}{"v": json.RawMessage(c06Dump(rv)), "k": c06Kind(reflect.TypeOf(x))}
	})

	RegisterCommand("c06new", func(a []string) interface{} {
		x := c06New(a[0], a[1], a[2])
		z := reflect.New(reflect.TypeOf(x).Elem()).Interface()
		z.(interface{ InitDefault() }).InitDefault()
		return map[string]interface{}{
			"new":  json.RawMessage(Dump(reflect.ValueOf(x))),
			"init": json.RawMessage(Dump(reflect.ValueOf(z))),
		}
	})

	RegisterCommand("c06init", func(a []string) interface{} {
		x := c06New(a[0], a[1], a[2])
		z := reflect.New(reflect.TypeOf(x).Elem()).Interface()
		Fill(reflect.ValueOf(z).Elem(), ParseValue(a[3]))
		before := Dump(reflect.ValueOf(z))
		z.(interface{ InitDefault() }).InitDefault()
		return map[string]interface{}{
			"before": json.RawMessage(before),
			"after":  json.RawMessage(Dump(reflect.ValueOf(z))),
		}
	})

	RegisterCommand("c06get", func(a []string) interface{} {
		x := c06New(a[0], a[1], a[2])
		if a[3] == "zero" {
			x = reflect.New(reflect.TypeOf(x).Elem()).Interface()
		}
		rv := reflect.ValueOf(x)
		Fill(rv.Elem(), ParseValue(a[4]))
		var names [][]interface{}
		if err := json.Unmarshal([]byte(a[5]), &names); err != nil {
			panic(err)
		}
		res := map[string]interface{}{"obj": json.RawMessage(Dump(rv))}
		getters, issets := []interface{}{}, []interface{}{}
		for _, n := range names {
			id := int(n[0].(float64))
			if g, _ := n[1].(string); g != "" {
				m := rv.MethodByName(g)
				if !m.IsValid() || m.Type().NumIn() != 0 || m.Type().NumOut() != 1 {
					panic("c06: no getter " + g)
				}
				getters = append(getters, []interface{}{id, json.RawMessage(Dump(m.Call(nil)[0]))})
			}
			if s, _ := n[2].(string); s != "" {
				m := rv.MethodByName(s)
				if !m.IsValid() || m.Type().NumIn() != 0 || m.Type().NumOut() != 1 {
					panic("c06: no IsSet method " + s)
				}
				issets = append(issets, []interface{}{id, m.Call(nil)[0].Bool()})
			}
		}
		res["getters"] = getters
		res["isset"] = issets
		return res
	})
}

// ---- histories: in-place edits of one instance must not be visible in another

// different returns a value of v's type that differs from v (ok=false when the type has only one value).
func c06Different(v reflect.Value) (reflect.Value, bool) {
	t := v.Type()
	out := reflect.New(t).Elem()
	switch v.Kind() {
	case reflect.Bool:
		out.SetBool(!v.Bool())
	case reflect.Int8, reflect.Int16, reflect.Int32, reflect.Int64:
		if v.Int() == 100 {
			out.SetInt(99)
		} else {
			out.SetInt(100)
		}
	case reflect.Float64:
		if v.Float() == 100.5 {
			out.SetFloat(99.5)
		} else {
			out.SetFloat(100.5)
		}
	case reflect.String:
		out.SetString(v.String() + "!")
	case reflect.Slice:
		if v.IsNil() || v.Len() == 0 {
			out.Set(reflect.MakeSlice(t, 1, 1))
		} else {
			out.Set(reflect.MakeSlice(t, 0, 0))
		}
	case reflect.Map:
		m := reflect.MakeMap(t)
		if v.IsNil() || v.Len() == 0 {
			m.SetMapIndex(reflect.New(t.Key()).Elem(), reflect.New(t.Elem()).Elem())
		}
		out.Set(m)
	case reflect.Ptr:
		if v.IsNil() {
			out.Set(reflect.New(t.Elem()))
		} // else: the nil pointer
	case reflect.Struct:
		out.Set(v)
		for i := 0; i < t.NumField(); i++ {
			if !out.Field(i).CanSet() {
				continue
			}
			if d, ok := c06Different(v.Field(i)); ok {
				out.Field(i).Set(d)
				return out, true
			}
		}
		return out, false
	default:
		return out, false
	}
	return out, true
}

// c06Mutate edits, in place, what the fields of the struct value sv refer to. It returns the thrift ids of
// the edited fields and a function that undoes every edit.
func c06Mutate(sv reflect.Value) (ids []int, undo func()) {
	var undos []func()
	for _, f := range ThriftFields(sv.Type()) {
		fv := sv.Field(f.Index)
		switch fv.Kind() {
		case reflect.Slice:
			if fv.IsNil() || fv.Len() == 0 {
				continue
			}
			e := fv.Index(0)
			old := reflect.New(e.Type()).Elem()
			old.Set(e)
			if e.Kind() == reflect.Uint8 {
				e.SetUint(uint64(uint8(e.Uint()) ^ 0x5a))
			} else if d, ok := c06Different(e); ok {
				e.Set(d)
			} else {
				continue
			}
			undos = append(undos, func() { e.Set(old) })
			ids = append(ids, f.ID)
		case reflect.Map:
			if fv.IsNil() {
				continue
			}
			m := fv
			if m.Len() > 0 {
				it := m.MapRange()
				it.Next()
				k := reflect.New(m.Type().Key()).Elem()
				k.Set(it.Key())
				old := reflect.New(m.Type().Elem()).Elem()
				old.Set(it.Value())
				d, ok := c06Different(old)
				if !ok {
					continue
				}
				m.SetMapIndex(k, d)
				undos = append(undos, func() { m.SetMapIndex(k, old) })
			} else {
				k := reflect.New(m.Type().Key()).Elem()
				m.SetMapIndex(k, reflect.New(m.Type().Elem()).Elem())
				undos = append(undos, func() { m.SetMapIndex(k, reflect.Value{}) })
			}
			ids = append(ids, f.ID)
		case reflect.Ptr:
			if fv.IsNil() || fv.Elem().Kind() != reflect.Struct {
				continue
			}
			inner := fv.Elem()
			old := reflect.New(inner.Type()).Elem()
			old.Set(inner)
			d, ok := c06Different(inner)
			if !ok {
				continue
			}
			inner.Set(d)
			undos = append(undos, func() { inner.Set(old) })
			ids = append(ids, f.ID)
		}
	}
	return ids, func() {
		for i := len(undos) - 1; i >= 0; i-- {
			undos[i]()
		}
	}
}

func c06Observe(rv reflect.Value, namesJSON string, res map[string]interface{}) {
	var names [][]interface{}
	if err := json.Unmarshal([]byte(namesJSON), &names); err != nil {
		panic(err)
	}
	getters, issets := []interface{}{}, []interface{}{}
	for _, n := range names {
		id := int(n[0].(float64))
		if g, _ := n[1].(string); g != "" {
			m := rv.MethodByName(g)
			if !m.IsValid() || m.Type().NumIn() != 0 || m.Type().NumOut() != 1 {
				panic("c06: no getter " + g)
			}
			getters = append(getters, []interface{}{id, json.RawMessage(Dump(m.Call(nil)[0]))})
		}
		if s, _ := n[2].(string); s != "" {
			m := rv.MethodByName(s)
			if !m.IsValid() || m.Type().NumIn() != 0 || m.Type().NumOut() != 1 {
				panic("c06: no IsSet method " + s)
			}
			issets = append(issets, []interface{}{id, m.Call(nil)[0].Bool()})
		}
	}
	res["getters"] = getters
	res["isset"] = issets
}

func init() {
	RegisterCommand("c06hist", func(a []string) interface{} {
		fresh := func(mode string) interface{} {
			x := c06New(a[0], a[1], a[2])
			if mode == "init" {
				x = reflect.New(reflect.TypeOf(x).Elem()).Interface()
				x.(interface{ InitDefault() }).InitDefault()
			}
			return x
		}
		x := fresh(a[3])
		ids, undo := c06Mutate(reflect.ValueOf(x).Elem())
		defer undo()
		res := map[string]interface{}{"mutated": ids, "a": json.RawMessage(Dump(reflect.ValueOf(x)))}
		if ids == nil {
			res["mutated"] = []int{}
		}
		res["b_init"] = json.RawMessage(Dump(reflect.ValueOf(fresh("init"))))
		res["b_new"] = json.RawMessage(Dump(reflect.ValueOf(fresh("new"))))
		c := reflect.New(reflect.TypeOf(x).Elem())
		res["obj"] = json.RawMessage(Dump(c))
		c06Observe(c, a[4], res)
		return res
	})

	RegisterCommand("c06decode", func(a []string) interface{} {
		w := c06New(a[0], a[1], a[2])
		bs, err := hex.DecodeString(a[4])
		if err != nil {
			panic(err)
		}
		cls, _ := ReadBinary(w, bs)
		res := map[string]interface{}{"err": cls}
		if cls != "ok" {
			return res
		}
		var id int
		fmt.Sscanf(a[3], "%d", &id)
		sv := reflect.ValueOf(w).Elem()
		for _, f := range ThriftFields(sv.Type()) {
			if f.ID != id {
				continue
			}
			l := sv.Field(f.Index)
			res["n"] = l.Len()
			if l.Kind() != reflect.Slice || l.Len() != 2 {
				return res
			}
			e0, e1 := l.Index(0), l.Index(1)
			if e0.Kind() == reflect.Ptr {
				e0, e1 = e0.Elem(), e1.Elem()
			}
			ids, undo := c06Mutate(e0)
			defer undo()
			if ids == nil {
				ids = []int{}
			}
			res["mutated"] = ids
			res["e0"] = json.RawMessage(Dump(e0))
			res["e1"] = json.RawMessage(Dump(e1))
		}
		return res
	})
}
