(* Props/C05.v — property C05: symbol resolution binds every reference to the
   definition the IDL names.  Statements only; proofs in Idl/Resolve*.v.

   Model: Idl/Resolve.v ([resolve_program] = semantic.ResolveSymbols on the main file of
   a parsed multi-file program, [deref] = semantic.Deref).  Specification:
   Idl/ResolveSpec.v ([name_denotes], [def_denotes], [spec_include], [names_typedef],
   [refers_through], [const_denotes], [te_chain], [program_perm]).

   Domain: [parsed_program p = true] — the input is what the parser delivers (no name
   table, no Used mark yet); [resolve_program p = Ok r] — the pass succeeded (this
   excludes the model's out-of-fuel value).  Theorems quantify over ALL such programs,
   every file [f'] of the result that the pass reached ([f_name2cat f' <> None]) and
   every type occurrence [t] the pass looks at ([file_occs]). *)
From Coq Require Import List Bool Arith NArith ZArith Permutation.
From Coq.Strings Require Import String.
From Verif Require Import Base.Bytes Idl.Ast Idl.AstUtil Idl.Resolve Idl.ResolveSpec Idl.ResolveTd
     Idl.ResolveDeref Idl.ResolvePerm Idl.ResolvePermFile Idl.ResolveFacts
     Idl.ResolvableSpec Idl.ResolveComplete Idl.ResolvePath Idl.ResolveFuel Idl.ResolveFuelEnum
     Idl.ResolvableConst Idl.ResolveCompleteConst Idl.ResolvableFacts Idl.ResolveInv Idl.ResolveConst
     Idl.ResolveService Idl.ResolveSyntax.
Import ListNotations.
Local Open Scope string_scope.

(* every resolved type occurrence carries the category of the definition its name
   finally denotes: typedef chains followed to the end, across includes *)
Theorem resolve_category : forall p r,
  parsed_program p = true -> resolve_program p = Ok r ->
  forall fn f' t, prog_file r fn = Some f' -> f_name2cat f' <> None -> In t (file_occs f') ->
  exists d, name_denotes p fn (ty_name t) d /\ ty_category t = kind d.
Proof. exact ResolveFacts.resolve_category. Qed.
Print Assumptions resolve_category.

(* ... and that definition is unique: the specification is a function *)
Theorem denotes_functional : forall p fn n d d',
  name_denotes p fn n d -> name_denotes p fn n d' -> d = d'.
Proof. intros p fn n d d' H H'. exact (name_denotes_fun p fn n d H d' H'). Qed.
Print Assumptions denotes_functional.

(* flagged as typedef exactly when the name is that of a typedef (never [Some false]) *)
Theorem resolve_is_typedef_iff : forall p r,
  parsed_program p = true -> resolve_program p = Ok r ->
  forall fn f' t, prog_file r fn = Some f' -> f_name2cat f' <> None -> In t (file_occs f') ->
  (ty_is_typedef t = Some true <-> names_typedef p fn (ty_name t)) /\
  (ty_is_typedef t = Some true \/ ty_is_typedef t = None).
Proof. exact ResolveFacts.resolve_is_typedef_iff. Qed.
Print Assumptions resolve_is_typedef_iff.

(* a name written with an include prefix records the index of an include that has
   the prefix and whose file defines the name as a type — the first such include;
   every other occurrence records no reference *)
Theorem resolve_reference_index : forall p r,
  parsed_program p = true -> resolve_program p = Ok r ->
  forall fn f' t, prog_file r fn = Some f' -> f_name2cat f' <> None -> In t (file_occs f') ->
  match builtin_category (ty_name t), split_type (ty_name t) with
  | None, [pre; m] =>
    exists f i gn k,
      prog_file p fn = Some f /\ ty_ref t = Some (Ref m (Z.of_nat i)) /\
      nth_error (file_incs f) i = Some (pre, Some gn) /\
      def_of p gn m = Some k /\ is_type_kind k = true /\
      forall j gn' k', j < i -> nth_error (file_incs f) j = Some (pre, Some gn') ->
                       def_of p gn' m = Some k' -> is_type_kind k' = false
  | _, _ => ty_ref t = None
  end.
Proof. exact ResolveFacts.resolve_reference_index. Qed.
Print Assumptions resolve_reference_index.

(* resolution only fills in resolution fields: for ALL programs, every file of the result
   has the symbol table ([file_defs], [file_incs]) of the input file of the same name, the
   two programs have the same file names, hence [def_of] is the same before and after *)
Theorem C05_resolution_preserves_definitions : forall p r,
  resolve_program p = Ok r ->
  (forall fn f', prog_file r fn = Some f' ->
     exists f, prog_file p fn = Some f /\ file_defs f' = file_defs f /\ file_incs f' = file_incs f) /\
  (forall fn, prog_file r fn = None <-> prog_file p fn = None) /\
  (forall fn n, def_of r fn n = def_of p fn n).
Proof. exact ResolveSyntax.resolution_preserves_definitions. Qed.
Print Assumptions C05_resolution_preserves_definitions.

(* base services (the analogue of the type theorems for `extends`): a service that extends
   a local name extends a service of the file and records no reference; one that extends
   pre.m records the index of the FIRST include with the prefix whose file defines a
   service m ([spec_include is_service_kind]); no `extends` = no reference *)
Theorem resolve_service_ref : forall p r,
  parsed_program p = true -> resolve_program p = Ok r ->
  forall fn f' sv, prog_file r fn = Some f' -> f_name2cat f' <> None -> In sv (f_services f') ->
  exists f, prog_file p fn = Some f /\ sv_good p fn f sv.
Proof. exact ResolveService.resolve_service_ref. Qed.
Print Assumptions resolve_service_ref.

(* an include is marked used exactly when something of the file refers through it *)
Theorem used_iff : forall p r,
  parsed_program p = true -> resolve_program p = Ok r ->
  forall fn f', prog_file r fn = Some f' -> f_name2cat f' <> None ->
  forall idx i, nth_error (f_includes f') idx = Some i ->
    (in_used i = Some true <-> refers_through f' (Z.of_nat idx)) /\
    (in_used i = Some true \/ in_used i = None).
Proof. exact ResolveFacts.used_iff. Qed.
Print Assumptions used_iff.

(* every identifier used as a value is bound to the one constant or enum value it
   names — local constant, enum.value, include.constant, include.enum.value, also
   through typedef'd enums — and nothing else explains it: a second explanation
   (ambiguity) makes the pass fail.  [plain_names]: no definition is called like a
   builtin type or has a dot in its name (see Idl/ResolveSpec.v) *)
Theorem resolve_const_unique : forall p r,
  parsed_program p = true -> plain_names p = true -> resolve_program p = Ok r ->
  forall fn f' c s e, prog_file r fn = Some f' -> f_name2cat f' <> None ->
  In c (file_const_values f') -> c = CIdent s (Some e) ->
  const_denotes p fn s e /\ forall e', const_denotes p fn s e' -> e' = e.
Proof. exact ResolveFacts.resolve_const_unique. Qed.
Print Assumptions resolve_const_unique.

(* outside [plain_names] the unchanged code violates it (known finding
   C05-accepted-enum-named-like-a-base-type):  enum i32 { A }  typedef i32 T
   const T c = T.A  binds T.A to the value A of the enum called i32 although T is a
   typedef of the base type i32 *)
Theorem resolve_const_unique_refuted :
  exists p r fn f' s e,
    parsed_program p = true /\ plain_names p = false /\ resolve_program p = Ok r /\
    prog_file r fn = Some f' /\ f_name2cat f' <> None /\
    In (CIdent s (Some e)) (file_const_values f') /\ ~ const_denotes p fn s e.
Proof. exact ResolveFacts.resolve_const_unique_refuted. Qed.
Print Assumptions resolve_const_unique_refuted.

(* the typedef fixpoint: with the fuel resolve_file_in gives it, it succeeds on every
   state in which each typedef has a chain end (no cycle), and maps every alias to
   the end of its chain *)
Theorem typedef_fixpoint_complete : forall st0,
  NoDup (map te_alias st0) -> te_resolvable st0 ->
  exists st, te_fix (S (List.length st0)) st0 = Ok st /\
             forall a c, te_chain st0 a c -> te_lookup st a = Some c.
Proof. exact te_fix_complete. Qed.
Print Assumptions typedef_fixpoint_complete.

(* ... it succeeds only then, with nothing but chain ends *)
Theorem typedef_fixpoint_sound : forall st0 fuel st,
  te_fix fuel st0 = Ok st ->
  Forall2 (fun e0 e => te_alias e = te_alias e0 /\ te_local e = te_local e0 /\
                       is_typedef_cat (te_cat e) = false /\ te_chain st0 (te_alias e0) (te_cat e)) st0 st.
Proof. exact te_fix_sound. Qed.
Print Assumptions typedef_fixpoint_sound.

(* ... and neither depends on the order of the typedefs *)
Theorem typedef_fixpoint_perm : forall st0 st1 st,
  NoDup (map te_alias st0) -> Permutation st0 st1 ->
  te_fix (S (List.length st0)) st0 = Ok st ->
  exists st', te_fix (S (List.length st1)) st1 = Ok st' /\ forall a, te_lookup st' a = te_lookup st a.
Proof. exact te_fix_perm. Qed.
Print Assumptions typedef_fixpoint_perm.

(* Order independence: permuting the definitions of any files of the program (the AST
   keeps one list per kind of definition; [program_perm] permutes each of them) permutes
   the resolved definitions the same way and changes nothing else — name table, Used
   marks, every annotation — and resolution fails on the one program exactly when it
   fails on the other.  For ALL programs (no hypothesis). *)
Theorem resolve_perm : forall p p',
  program_perm p p' ->
  match resolve_program p, resolve_program p' with
  | Ok r, Ok r' => program_perm r r'
  | Error _, Error _ => True
  | _, _ => False
  end.
Proof. exact ResolvePermFile.resolve_perm. Qed.
Print Assumptions resolve_perm.

(* in particular the name table does not depend on the order *)
Theorem register_names_perm : forall defs defs' m,
  Permutation defs defs' -> register defs [] = Ok m -> register defs' [] = Ok m.
Proof. exact register_perm. Qed.
Print Assumptions register_names_perm.

(* semantic.Deref on the resolved program arrives, for every resolved occurrence, at
   the definition the name denotes (with enough fuel; the fuel [deref_fuel] the
   correspondence check uses is compared with the Go function on every run) *)
Theorem deref_spec : forall p r,
  parsed_program p = true -> resolve_program p = Ok r ->
  forall fn f' t, prog_file r fn = Some f' -> f_name2cat f' <> None -> In t (file_occs f') ->
  exists d, name_denotes p fn (ty_name t) d /\ deref_to r f' t d.
Proof. exact ResolveFacts.deref_spec. Qed.
Print Assumptions deref_spec.

(* ---------------------------------------------------------------- completeness and fuel *)

(* COMPLETENESS.  [resolvable p] (Idl/ResolvableSpec.v, Idl/ResolvableConst.v) is a boolean
   computed from the symbol table of the parsed program only: definition names are plain
   identifiers; per file the global names are distinct, every type occurrence has the
   parser's shape and every name in it denotes something ([denotes_b], which decides
   [name_denotes], see [denotes_decidable]), every base service exists, every identifier
   used as a value is true / false or has exactly one explanation ([explanations] counts
   the [const_denotes] alternatives); the include tree below the main file is present
   and free of cycles ([includes_ok]).  On every such program the resolver model succeeds. *)
Theorem resolve_complete : forall p, resolvable p = true -> exists r, resolve_program p = Ok r.
Proof. exact ResolveCompleteConst.resolve_complete. Qed.
Print Assumptions resolve_complete.

(* the type / service part alone (no identifier values), without [plain_names] *)
Theorem resolve_complete_types : forall p, resolvable_types p = true -> exists r, resolve_program p = Ok r.
Proof. exact ResolveComplete.resolve_complete_types. Qed.
Print Assumptions resolve_complete_types.

(* the executable denotation with the fuel [denote_fuel] decides the specification *)
Theorem denotes_decidable : forall p fn n, denotes_b p fn n = true <-> exists d, name_denotes p fn n d.
Proof. exact denotes_b_iff. Qed.
Print Assumptions denotes_decidable.

(* an identifier accepted by the count has an explanation *)
Theorem ident_ok_denotes : forall p fn s, ident_ok p fn s = true -> exists e, const_denotes p fn s e.
Proof. exact ResolvableFacts.ident_ok_denotes. Qed.
Print Assumptions ident_ok_denotes.

(* the pigeonhole behind every fuel: a typedef chain passes through pairwise distinct
   typedefs, so through at most as many as the program has *)
Theorem typedef_chain_bound : forall p fn n d l, def_path p fn n d l -> NoDup l /\ List.length l <= prog_typedef_count p.
Proof. intros p fn n d l H. split; [eapply def_path_NoDup; eauto | eapply def_path_bound; eauto]. Qed.
Print Assumptions typedef_chain_bound.

(* FUEL.  Deref with the fuel the model uses ([deref_fuel]) arrives at the denoted
   definition: [deref_spec] without its "for sufficient fuel" *)
Theorem deref_spec_fuel : forall p r,
  parsed_program p = true -> resolve_program p = Ok r ->
  forall fn f' t, prog_file r fn = Some f' -> f_name2cat f' <> None -> In t (file_occs f') ->
  exists d, name_denotes p fn (ty_name t) d /\ deref_within r f' t d (deref_fuel r).
Proof. exact ResolveFuel.deref_spec_fuel. Qed.
Print Assumptions deref_spec_fuel.

(* getEnum with the fuel the model gives it ([enum_fuel]) never runs out while a file
   is resolved, on a file of the finished ones or the current one ([ectx], [near]),
   provided every typedef of the program has a chain end and names are plain.
   (The fuel of the typedef fixpoint is [typedef_fixpoint_complete] above; the fuel of
   the include driver is part of [resolve_complete].) *)
Theorem enum_fuel_suffices : forall p done fn f,
  inv p done -> prog_file p fn = Some f ->
  (forall i, In i (f_includes f) -> exists hn, in_ref i = Some hn /\ lookup hn done <> None) ->
  plain_names p = true ->
  (forall gn n tgt, def_of p gn n = Some (DkTypedef tgt) -> exists d, def_denotes p gn n d) ->
  forall n2c tds1 gn g g' name,
  mapM (resolve_typedef done (with_name2cat f (Some n2c))) (f_typedefs f) = Ok tds1 ->
  ectx p done gn g g' -> near done fn gn ->
  exists res, get_enum (enum_fuel done (cur1 f n2c tds1)) done g' name = Ok res.
Proof. exact ResolveFuelEnum.enum_fuel_suffices. Qed.
Print Assumptions enum_fuel_suffices.

(* ---------------------------------------------------------------- the hypotheses are satisfiable *)

Definition ex_x : file :=
  File (B "x.thrift") [] [] []
       [Typedef (ty_named (B "E")) (B "TE") [] []]
       [Constant (B "K") (ty_named (B "i32")) (CInt 1) [] []]
       [Enum (B "E") [EnumValue (B "A") 0 [] []] [] []] [] [] [] [] None.
Definition ex_main : file :=
  File (B "main.thrift") [Include (B "x.thrift") (Some (B "x.thrift")) None] [] []
       [Typedef (ty_named (B "L")) (B "L2") [] []; Typedef (ty_named (B "x.TE")) (B "L") [] []]
       [Constant (B "c") (ty_named (B "L2")) (CIdent (B "L2.A") None) [] []] []
       [StructLike SKStruct (B "S")
          [Field 1 (B "a") ReqDefault (ty_plain (B "list") None (Some (ty_named (B "L2"))) [] []) None [] []] [] []]
       [] [] [] None.
Definition ex_p : program := [(B "main.thrift", ex_main); (B "x.thrift", ex_x)].

Example ex_parsed : parsed_program ex_p = true.
Proof. vm_compute. reflexivity. Qed.
Example ex_plain : plain_names ex_p = true.
Proof. vm_compute. reflexivity. Qed.

(* a typedef chain written backwards, crossing a file, ending in an enum: the pass
   succeeds, the element type of S.a gets CatEnum, the constant is bound through
   include 0, the include is marked used *)
Definition ex_check : bool :=
  match resolve_program ex_p with
  | Ok r =>
    match prog_file r (B "main.thrift") with
    | Some f' =>
      match f_name2cat f' with Some _ => true | None => false end &&
      list_eqb category_eqb (map ty_category (file_occs f')) [CatEnum; CatEnum; CatEnum; CatList; CatEnum] &&
      list_eqb const_value_eqb (map co_value (f_constants f'))
               [CIdent (B "L2.A") (Some (Extra true 0 (B "A") (B "L2")))] &&
      list_eqb (opt_eqb Bool.eqb) (map in_used (f_includes f')) [Some true]
    | None => false
    end
  | Error _ => false
  end.
Example ex_resolves : ex_check = true.
Proof. vm_compute. reflexivity. Qed.

(* the same program with the two typedefs of the main file in the other order *)
Definition ex_main_swapped : file :=
  File (B "main.thrift") [Include (B "x.thrift") (Some (B "x.thrift")) None] [] []
       [Typedef (ty_named (B "x.TE")) (B "L") [] []; Typedef (ty_named (B "L")) (B "L2") [] []]
       [Constant (B "c") (ty_named (B "L2")) (CIdent (B "L2.A") None) [] []] []
       [StructLike SKStruct (B "S")
          [Field 1 (B "a") ReqDefault (ty_plain (B "list") None (Some (ty_named (B "L2"))) [] []) None [] []] [] []]
       [] [] [] None.
Example ex_perm : program_perm ex_p [(B "main.thrift", ex_main_swapped); (B "x.thrift", ex_x)].
Proof.
  unfold ex_p. constructor; [|constructor; [|constructor]]; (split; [reflexivity|]).
  - unfold file_perm, ex_main, ex_main_swapped. cbn. repeat split; try apply Permutation_refl. apply perm_swap.
  - unfold file_perm. repeat split; apply Permutation_refl.
Qed.

(* the example program is resolvable in the decidable sense *)
Example ex_resolvable : resolvable ex_p = true.
Proof. vm_compute. reflexivity. Qed.
