(* Corr/C12.v — correspondence record and comparison for property C12.
   A case = a history of Feed calls and what the real FileManager returned
   (None = some Feed returned an error; Some outs = BuildResponse contents).
   [mismatches] returns (case index, code):
     1  model and implementation disagree                      (correspondence)
     2  implementation output contains the same file name twice   (property oracle)
     3  a named patch whose target name was neither submitted before it nor is
        the name of any output file was accepted without an error (property oracle;
        conservative: names produced by renaming count as possible targets)
     4  an unnamed first item was accepted without an error       (property oracle)
     5  declarative bookkeeping of kept files disagrees with the output: walking the file items
        in order, an item (n, c) must be DROPPED iff an earlier kept item has content c and was
        submitted as n or ended up named n, and must otherwise appear as the next output file,
        under the name n when no earlier output has that name and under a name no earlier
        output has in any case; the number of output files must equal the number of kept items
                                                                  (property oracle)
     6  in a history without any patch item, an output's text is not its submitted text with
        exactly the insertion-point markers removed               (property oracle)
     9  the model ran out of fuel (never expected)                            *)
From Coq Require Import List Arith Bool NArith.
From Verif Require Import Base.Bytes Gen.FileManager.
Import ListNotations.

Record case := mkcase { c_hist : list (list gen); c_obs : option (list (bytes * bytes)) }.

Definition outs_eqb (a b : list (bytes * bytes)) : bool :=
  (List.length a =? List.length b) &&
  forallb (fun p => beqb (fst (fst p)) (fst (snd p)) && beqb (snd (fst p)) (snd (snd p))) (combine a b).

Fixpoint has_dup (l : list bytes) : bool :=
  match l with [] => false | x :: r => existsb (beqb x) r || has_dup r end.

(* names submitted so far as files (named items) *)
Fixpoint named_patch_without_target (seen : list bytes) (items : list gen) : bool * list bytes :=
  match items with
  | [] => (false, seen)
  | g :: r =>
    match g_name g with
    | None => named_patch_without_target seen r
    | Some n =>
      if negb (beqb (g_ip g) []) && negb (existsb (beqb n) seen) then (true, seen)
      else named_patch_without_target (n :: seen) r
    end
  end.

Fixpoint hist_named_patch_without_target (seen : list bytes) (h : list (list gen)) : bool :=
  match h with
  | [] => false
  | call :: r => let '(b, seen') := named_patch_without_target seen call in
                 b || hist_named_patch_without_target seen' r
  end.

Definition unnamed_first (h : list (list gen)) : bool :=
  existsb (fun call => match call with g :: _ => match g_name g with None => true | _ => false end | [] => false end) h.

(* ---- oracle 5: declarative bookkeeping over the observed output names ---- *)
Definition file_items (h : list (list gen)) : list (bytes * bytes) :=
  flat_map (fun call => flat_map (fun g => match g_name g with
                                           | Some n => if beqb (g_ip g) [] then [(n, g_content g)] else []
                                           | None => [] end) call) h.

(* kept : (submitted name, final name, content), most recent first *)
Fixpoint bookkeeping (items : list (bytes * bytes)) (outs : list (bytes * bytes))
                     (kept : list (bytes * bytes * bytes)) : bool :=
  match items with
  | [] => match outs with [] => true | _ => false end
  | (n, c) :: rest =>
    if existsb (fun k => let '(sub, fin, kc) := k in beqb kc c && (beqb sub n || beqb fin n)) kept
    then bookkeeping rest outs kept
    else match outs with
         | [] => false
         | (fin, _) :: outs' =>
           let taken := existsb (fun k => let '(_, f, _) := k in beqb f fin) kept in
           let n_free := negb (existsb (fun k => let '(_, f, _) := k in beqb f n) kept) in
           if taken then false
           else if n_free && negb (beqb fin n) then false
           else bookkeeping rest outs' ((n, fin, c) :: kept)
         end
  end.

(* ---- oracle 6: no patches at all: text = submitted text minus markers ---- *)
Definition has_patch_item (h : list (list gen)) : bool :=
  existsb (fun call => existsb (fun g => match g_name g with None => true | Some _ => negb (beqb (g_ip g) []) end) call) h.

Fixpoint strip_markers (skip : nat) (s : bytes) : bytes :=
  match s with
  | [] => []
  | c :: r =>
    match skip with
    | S k => strip_markers k r
    | O => match marker_at s with
           | Some mk => strip_markers (List.length mk - 1) r
           | None => c :: strip_markers 0 r
           end
    end
  end.

Fixpoint texts_stripped (items : list (bytes * bytes)) (outs : list (bytes * bytes))
                        (kept : list (bytes * bytes * bytes)) : bool :=
  match items with
  | [] => true
  | (n, c) :: rest =>
    if existsb (fun k => let '(sub, fin, kc) := k in beqb kc c && (beqb sub n || beqb fin n)) kept
    then texts_stripped rest outs kept
    else match outs with
         | [] => true
         | (fin, txt) :: outs' => beqb txt (strip_markers 0 c) && texts_stripped rest outs' ((n, fin, c) :: kept)
         end
  end.

Definition check (c : case) : list N :=
  let model := run (c_hist c) in
  let corr :=
    match model, c_obs c with
    | Ok outs, Some obs => if outs_eqb outs obs then [] else [1%N]
    | Err, None => []
    | Fuel, _ => [9%N]
    | _, _ => [1%N]
    end in
  let spec :=
    match c_obs c with
    | Some obs =>
        (if has_dup (map fst obs) then [2%N] else []) ++
        (if hist_named_patch_without_target (map fst obs) (c_hist c) then [3%N] else []) ++
        (if unnamed_first (c_hist c) then [4%N] else []) ++
        (if bookkeeping (file_items (c_hist c)) obs [] then [] else [5%N]) ++
        (if has_patch_item (c_hist c) || texts_stripped (file_items (c_hist c)) obs [] then [] else [6%N])
    | None => []
    end in
  corr ++ spec.

Fixpoint mismatches_from (i : N) (cs : list case) : list (N * N) :=
  match cs with
  | [] => []
  | c :: r => map (fun code => (i, code)) (check c) ++ mismatches_from (i + 1)%N r
  end.
Definition mismatches (cs : list case) : list (N * N) := mismatches_from 0%N cs.
