(* Mask/RefineFacts.v — on the token lists of grammatical, typed paths the code-shaped
   [add_path] is the clean insertion [ins] of the typed path, provided the mask accepts the
   path ([compat]).  *)
From Coq Require Import List Bool ZArith Lia.
From Coq.Strings Require Import Byte.
From Verif Require Import Base.Bytes Mask.Path Mask.Desc Mask.Trie Mask.Spec Mask.TrieFacts Mask.SemFacts Mask.FrameFacts.
Import ListNotations.

(* ------------------------------------------------------------------ descriptors *)

Lemma struct_fields_ft env d fs : struct_fields env d = Some fs -> switch_ft env d = FtStruct.
Proof. destruct d; cbn; try discriminate. intros ->. reflexivity. Qed.

Lemma list_elem_ft env d e : list_elem d = Some e -> switch_ft env d = FtList.
Proof. destruct d; cbn; try discriminate; reflexivity. Qed.

Lemma map_kv_ft env d k v : map_kv d = Some (k, v) -> switch_ft env d = key_ft k.
Proof. destruct d; cbn; try discriminate. intros [= -> ->]. reflexivity. Qed.

Lemma key_ft_cases k : key_ft k = FtIntMap \/ key_ft k = FtStrMap \/ key_ft k = FtScalar.
Proof.
  destruct k; unfold key_ft; auto.
  destruct (existsb (beqb name) int_key_names); auto.
  destruct (existsb (beqb name) str_key_names); auto.
Qed.

(* ------------------------------------------------------------------ the combinators *)

Lemma with_child_ok k t cur gf h :
  gf (slot k t cur) = Ok (h (slot k t cur)) -> with_child k t cur gf = Ok (child_ins k t h cur).
Proof. intro H. unfold with_child, child_ins. rewrite H. reflexivity. Qed.

Lemma fold_keys_ins ks t gf h (Q : mask -> bool) :
  (forall c, Q c = true -> m_typ c = t -> gf c = Ok (h c)) ->
  ok_ft t = true ->
  forall cur, nodupb key_eqb ks = true -> forallb (fun k => sub_ok k t Q cur) ks = true ->
  fold_keys ks t gf cur = Ok (ins_keys ks t h cur).
Proof.
  intros Hg Ht. induction ks as [|k0 ks IH]; intros cur Hnd Hall; [reflexivity|].
  cbn [forallb] in Hall. rewrite andb_true_iff in Hall. destruct Hall as [Hk Hrest].
  apply nodupb_cons in Hnd. destruct Hnd as [Hne Hnd].
  destruct (sub_ok_slot _ _ _ _ Hk Ht) as [HP [Hty _]].
  cbn [fold_keys]. rewrite (with_child_ok k0 t cur gf h (Hg _ HP Hty)).
  change (ins_keys (k0 :: ks) t h cur) with (ins_keys ks t h (child_ins k0 t h cur)).
  apply IH; [exact Hnd|].
  rewrite forallb_forall in *. intros k' Hin. unfold child_ins. rewrite sub_ok_put_other; auto.
Qed.

(* ------------------------------------------------------------------ the scans *)

Lemma scan_idx_items rest cur : forall r x acc e,
  scan_idx (sep_by TElem (map TLitInt (x :: r)) ++ TIndexR :: rest) cur false acc e =
  SOk cur false (acc ++ x :: r) [] rest.
Proof.
  induction r as [|y r IH]; intros x acc e.
  - reflexivity.
  - change (sep_by TElem (map TLitInt (x :: y :: r))) with (TLitInt x :: TElem :: sep_by TElem (map TLitInt (y :: r))).
    cbn [app scan_idx]. rewrite IH, <- app_assoc. reflexivity.
Qed.

Lemma scan_map_ints rest cur : forall r x acc strs e,
  scan_map (sep_by TElem (map TLitInt (x :: r)) ++ TMapR :: rest) cur false true false acc strs e =
  SOk cur false (acc ++ x :: r) strs rest.
Proof.
  induction r as [|y r IH]; intros x acc strs e.
  - reflexivity.
  - change (sep_by TElem (map TLitInt (x :: y :: r))) with (TLitInt x :: TElem :: sep_by TElem (map TLitInt (y :: r))).
    cbn [app scan_map]. rewrite IH, <- app_assoc. reflexivity.
Qed.

Lemma scan_map_strs rest cur : forall r x ids acc e,
  scan_map (sep_by TElem (map TStr (x :: r)) ++ TMapR :: rest) cur false false true ids acc e =
  SOk cur false ids (acc ++ x :: r) rest.
Proof.
  induction r as [|y r IH]; intros x ids acc e.
  - reflexivity.
  - change (sep_by TElem (map TStr (x :: y :: r))) with (TStr x :: TElem :: sep_by TElem (map TStr (y :: r))).
    cbn [app scan_map]. rewrite IH, <- app_assoc. reflexivity.
Qed.

(* a node in star state or fresh state has nothing a store reset could touch *)
Lemma reset_store_nokids p cur : m_kids cur = [] -> reset_store p cur = cur.
Proof. destruct cur as [t a b ks]. cbn. intros ->. reflexivity. Qed.

Lemma reset_store_star p cur : p KAll = false -> star_state cur = true -> reset_store p cur = cur.
Proof.
  intros Hp H. destruct (star_state_cases _ H) as [[_ Hk]|[_ [a Hk]]].
  - apply reset_store_nokids; exact Hk.
  - destruct cur as [t al b ks]. cbn [m_kids] in Hk. subst ks. unfold reset_store, set_kids.
    cbn [m_kids m_typ m_isall m_black map fst snd]. rewrite Hp. reflexivity.
Qed.

(* ------------------------------------------------------------------ compat pieces *)

Lemma compat_explicit s r cur :
  compat (s :: r) cur = true -> is_gstar s = false ->
  ok_ft (gft s) = true /\ m_isall cur = false /\ nodupb key_eqb (gkeys s) = true /\
  forallb (fun k => sub_ok k (gft s) (compat r) cur) (gkeys s) = true.
Proof.
  intros Hc Hs. pose proof (compat_keys_nodup _ _ _ Hc) as Hnd.
  cbn [compat] in Hc. rewrite !andb_true_iff in Hc. destruct Hc as [[Ht Hst] Hall].
  repeat split; auto.
  destruct s; try discriminate; rewrite !andb_true_iff, negb_true_iff in Hst; tauto.
Qed.

Lemma compat_star t r cur :
  compat (GStar t :: r) cur = true ->
  ok_ft t = true /\ star_state cur = true /\ sub_ok KAll t (compat r) (set_isall cur true) = true.
Proof.
  cbn [compat gft gkeys forallb]. rewrite !andb_true_iff. intros [[Ht Hst] [Hall _]]. repeat split; auto.
Qed.

Lemma length_app_lt {A} (a b : list A) f : a <> [] -> List.length (a ++ b) < S f -> List.length b < f.
Proof. intros Ha. rewrite app_length. destruct a; [congruence|]. cbn. lia. Qed.

Lemma all_of_false cur : m_isall cur = false ->
  (m_typ cur = FtStruct \/ m_typ cur = FtList \/ m_typ cur = FtIntMap \/ m_typ cur = FtStrMap) -> all_of cur = false.
Proof. intros Ha [H|[H|[H|H]]]; unfold all_of; rewrite H; exact Ha. Qed.

(* ------------------------------------------------------------------ the refinement *)

Theorem add_path_ins : forall env p d g,
  elab env d p = Some g -> wf_path p = true ->
  forall f cur, List.length (flat_map seg_tokens p) < f -> m_typ cur = switch_ft env d ->
  compat g cur = true ->
  add_path f env (flat_map seg_tokens p) d cur = Ok (ins g cur).
Proof.
  intros env. induction p as [|s p IH]; intros d g He Hwf f cur Hf Hty Hc.
  - cbn in He. injection He as <-. destruct f; [cbn in Hf; lia|]. reflexivity.
  - cbn [wf_path forallb] in Hwf. rewrite andb_true_iff in Hwf. destruct Hwf as [Hws Hwf].
    cbn [flat_map] in *. destruct f as [|f]; [lia|].
    destruct s as [n|id| |ids| |ids|ss| ]; cbn [elab] in He.
    + (* .name *)
      destruct (struct_fields env d) as [fs|] eqn:Esf; [|discriminate].
      destruct (field_by_name fs n) as [x|] eqn:Ef; [|discriminate].
      destruct (ok_ft (switch_ft env (f_ty x))) eqn:Eok; [|discriminate].
      destruct (elab env (f_ty x) p) as [g'|] eqn:Eg; [|discriminate]. injection He as <-.
      destruct (compat_explicit _ _ _ Hc eq_refl) as [Ht [Ha [Hnd Hall]]].
      cbn [gkeys gft forallb] in *. rewrite andb_true_r in Hall.
      pose proof (struct_fields_ft _ _ _ Esf) as Hft. rewrite Hft in Hty.
      cbn [seg_tokens app add_path]. rewrite Esf, Hty. cbn [ft_eqb negb].
      rewrite (all_of_false cur Ha (or_introl Hty)), Ef.
      destruct (sub_ok_slot _ _ _ _ Hall Ht) as [HP [Hsty _]].
      rewrite (with_child_ok _ _ _ _ (ins g')); [reflexivity|].
      apply IH; auto. eapply (length_app_lt (seg_tokens (PName n))); [discriminate | exact Hf].
    + (* .id *)
      destruct (struct_fields env d) as [fs|] eqn:Esf; [|discriminate].
      destruct (field_by_id fs id) as [x|] eqn:Ef; [|discriminate].
      destruct (ok_ft (switch_ft env (f_ty x))) eqn:Eok; [|discriminate].
      destruct (elab env (f_ty x) p) as [g'|] eqn:Eg; [|discriminate]. injection He as <-.
      destruct (compat_explicit _ _ _ Hc eq_refl) as [Ht [Ha [Hnd Hall]]].
      cbn [gkeys gft forallb] in *. rewrite andb_true_r in Hall.
      pose proof (struct_fields_ft _ _ _ Esf) as Hft. rewrite Hft in Hty.
      cbn [wf_pseg] in Hws. rewrite andb_true_iff in Hws. destruct Hws as [_ Hid].
      cbn [seg_tokens app add_path]. rewrite Esf, Hty. cbn [ft_eqb negb].
      rewrite (all_of_false cur Ha (or_introl Hty)), Hid, Ef.
      destruct (sub_ok_slot _ _ _ _ Hall Ht) as [HP [Hsty _]].
      rewrite (with_child_ok _ _ _ _ (ins g')); [reflexivity|].
      apply IH; auto. eapply (length_app_lt (seg_tokens (PId id))); [discriminate | exact Hf].
    + (* .* *)
      destruct (struct_fields env d) as [[|f0 fs]|] eqn:Esf; try discriminate.
      destruct p as [|s' p']; [|discriminate].
      destruct (ok_ft (switch_ft env (f_ty f0))) eqn:Eok; [|discriminate]. injection He as <-.
      pose proof (struct_fields_ft _ _ _ Esf) as Hft. rewrite Hft in Hty.
      cbn [compat gft gkeys forallb] in Hc. rewrite !andb_true_iff in Hc. destruct Hc as [[Ht [Hfs _]] _].
      unfold fresh_state in Hfs. rewrite andb_true_iff, !negb_true_iff in Hfs. destruct Hfs as [Ha Hk].
      assert (m_kids cur = []) as Hk' by (destruct (m_kids cur); [reflexivity | discriminate]).
      cbn [seg_tokens app add_path]. rewrite Esf, Hty. cbn [ft_eqb negb].
      rewrite (all_of_false cur Ha (or_introl Hty)), (reset_store_nokids _ _ Hk').
      rewrite (with_child_ok _ _ _ _ (ins [])); [reflexivity|].
      destruct f; [cbn in Hf; lia | reflexivity].
    + (* [i,..] *)
      destruct (list_elem d) as [e|] eqn:El; [|discriminate].
      destruct (ok_ft (switch_ft env e)) eqn:Eok; [|discriminate].
      destruct (elab env e p) as [g'|] eqn:Eg; [|discriminate]. injection He as <-.
      destruct (compat_explicit _ _ _ Hc eq_refl) as [Ht [Ha [Hnd Hall]]].
      cbn [gkeys gft] in *.
      pose proof (list_elem_ft env _ _ El) as Hft. rewrite Hft in Hty.
      cbn [wf_pseg] in Hws. destruct ids as [|x ids]; [discriminate|].
      cbn [seg_tokens]. rewrite <- app_comm_cons, <- app_assoc. cbn [app add_path].
      rewrite El, Hty. cbn [ft_eqb negb]. unfold ok_ft in Eok. rewrite negb_true_iff in Eok. rewrite Eok.
      rewrite (all_of_false cur Ha (or_intror (or_introl Hty))), scan_idx_items. cbn [app].
      apply (fold_keys_ins _ _ _ (ins g') (compat g')); auto.
      intros c Hcc Hct. apply IH; auto.
      eapply (length_app_lt (seg_tokens (PIdx (x :: ids)))); [discriminate | exact Hf].
    + (* [*] *)
      destruct (list_elem d) as [e|] eqn:El; [|discriminate].
      destruct (ok_ft (switch_ft env e)) eqn:Eok; [|discriminate].
      destruct (elab env e p) as [g'|] eqn:Eg; [|discriminate]. injection He as <-.
      destruct (compat_star _ _ _ Hc) as [Ht [Hst Hall]].
      pose proof (list_elem_ft env _ _ El) as Hft. rewrite Hft in Hty.
      cbn [seg_tokens app add_path]. rewrite El, Hty. cbn [ft_eqb negb].
      unfold ok_ft in Eok. rewrite negb_true_iff in Eok. rewrite Eok.
      cbn [scan_idx]. rewrite (reset_store_star is_KI cur eq_refl Hst).
      destruct (sub_ok_slot _ _ _ _ Hall Ht) as [HP [Hsty _]].
      rewrite (with_child_ok _ _ _ _ (ins g')); [reflexivity|].
      apply IH; auto. eapply (length_app_lt (seg_tokens PIdxStar)); [discriminate | exact Hf].
    + (* {i,..} *)
      destruct (map_kv d) as [[k v]|] eqn:Em; [|discriminate].
      destruct (ft_eqb (key_ft k) FtIntMap && ok_ft (switch_ft env v)) eqn:Eok; [|discriminate].
      rewrite andb_true_iff in Eok. destruct Eok as [Ek Eok]. apply ft_eqb_eq in Ek.
      destruct (elab env v p) as [g'|] eqn:Eg; [|discriminate]. injection He as <-.
      destruct (compat_explicit _ _ _ Hc eq_refl) as [Ht [Ha [Hnd Hall]]].
      cbn [gkeys gft] in *.
      pose proof (map_kv_ft env _ _ _ Em) as Hft. rewrite Hft, Ek in Hty.
      cbn [wf_pseg] in Hws. destruct ids as [|x ids]; [discriminate|].
      cbn [seg_tokens]. rewrite <- app_comm_cons, <- app_assoc. cbn [app add_path].
      rewrite Em, Hty. cbn [ft_eqb negb orb]. unfold ok_ft in Eok. rewrite negb_true_iff in Eok. rewrite Eok.
      rewrite (all_of_false cur Ha (or_intror (or_intror (or_introl Hty)))), scan_map_ints. cbn [app].
      apply (fold_keys_ins _ _ _ (ins g') (compat g')); auto.
      intros c Hcc Hct. apply IH; auto.
      eapply (length_app_lt (seg_tokens (PKeyI (x :: ids)))); [discriminate | exact Hf].
    + (* {"s",..} *)
      destruct (map_kv d) as [[k v]|] eqn:Em; [|discriminate].
      destruct (ft_eqb (key_ft k) FtStrMap && ok_ft (switch_ft env v)) eqn:Eok; [|discriminate].
      rewrite andb_true_iff in Eok. destruct Eok as [Ek Eok]. apply ft_eqb_eq in Ek.
      destruct (elab env v p) as [g'|] eqn:Eg; [|discriminate]. injection He as <-.
      destruct (compat_explicit _ _ _ Hc eq_refl) as [Ht [Ha [Hnd Hall]]].
      cbn [gkeys gft] in *.
      pose proof (map_kv_ft env _ _ _ Em) as Hft. rewrite Hft, Ek in Hty.
      cbn [wf_pseg] in Hws. destruct ss as [|x ss]; [discriminate|].
      cbn [seg_tokens]. rewrite <- app_comm_cons, <- app_assoc. cbn [app add_path].
      rewrite Em, Hty. cbn [ft_eqb negb orb]. unfold ok_ft in Eok. rewrite negb_true_iff in Eok. rewrite Eok.
      rewrite (all_of_false cur Ha (or_intror (or_intror (or_intror Hty)))), scan_map_strs. cbn [app].
      apply (fold_keys_ins _ _ _ (ins g') (compat g')); auto.
      intros c Hcc Hct. apply IH; auto.
      eapply (length_app_lt (seg_tokens (PKeyS (x :: ss)))); [discriminate | exact Hf].
    + (* {*} *)
      destruct (map_kv d) as [[k v]|] eqn:Em; [|discriminate].
      destruct (ok_ft (switch_ft env v)) eqn:Eok; [|discriminate].
      destruct (elab env v p) as [g'|] eqn:Eg; [|discriminate]. injection He as <-.
      destruct (compat_star _ _ _ Hc) as [Ht [Hst Hall]].
      pose proof (map_kv_ft env _ _ _ Em) as Hft. rewrite Hft in Hty.
      cbn [seg_tokens app add_path]. rewrite Em, Hty.
      assert (negb (ft_eqb (key_ft k) FtIntMap || ft_eqb (key_ft k) FtStrMap || ft_eqb (key_ft k) FtScalar) = false) as ->
        by (destruct (key_ft_cases k) as [E|[E|E]]; rewrite E; reflexivity).
      unfold ok_ft in Eok. rewrite negb_true_iff in Eok. rewrite Eok.
      cbn [scan_map]. rewrite (reset_store_star is_KIS cur eq_refl Hst).
      destruct (sub_ok_slot _ _ _ _ Hall Ht) as [HP [Hsty _]].
      rewrite (with_child_ok _ _ _ _ (ins g')); [reflexivity|].
      apply IH; auto. eapply (length_app_lt (seg_tokens PKeyStar)); [discriminate | exact Hf].
Qed.
